(* C20 -- from the callback order of the registry to the byte stream, the stream against the parser, and the parsed
   messages against the property. *)
From Coq Require Import NArith Bool List Lia Arith.
From Coq Require String Ascii.
Import String.StringSyntax.
Delimit Scope string_scope with string.
From CppUVerif Require Import lib.Str C16_Events C20_Model C20_Escape C20_Parse.
Import ListNotations.
Local Open Scope N_scope.

(* ================= the registry loop visits the segments one after the other ================= *)
Definition seg_events (fs : list bytes) (g : list test) : list ev :=
  match g with t :: _ => EGroupStart t :: flat_map (sel_events fs) g ++ [EGroupEnd] | [] => [] end.

Lemma segments_head n rest : exists g gs, segments (n :: rest) = (n :: g) :: gs.
Proof.
  cbn [segments]. destruct (segments rest) as [|[|m g] gs].
  - exists [], []. reflexivity.
  - exists [], []. reflexivity.
  - destruct (bytes_eqb (t_group n) (t_group m)); eauto.
Qed.
Lemma reg_loop_flag fs t rest : reg_loop_sel fs true (t :: rest) = EGroupStart t :: reg_loop_sel fs false (t :: rest).
Proof. reflexivity. Qed.
Lemma reg_loop_segments fs ts : reg_loop_sel fs true ts = flat_map (seg_events fs) (segments ts).
Proof.
  induction ts as [|t rest IH]; [reflexivity|].
  destruct rest as [|n rest'].
  - cbn. rewrite !app_nil_r. reflexivity.
  - destruct (segments_head n rest') as [g [gs Eg]].
    remember (n :: rest') as r eqn:Er.
    cbn [segments]. rewrite Eg in *.
    assert (IH' : reg_loop_sel fs false r = flat_map (sel_events fs) (n :: g) ++ [EGroupEnd] ++ flat_map (seg_events fs) gs).
    { rewrite Er in *. rewrite reg_loop_flag in IH. remember (reg_loop_sel fs false (n :: rest')) as X eqn:EX.
      cbn [flat_map seg_events app] in IH. injection IH as IH. rewrite IH. cbn [flat_map]. rewrite <- !app_assoc. reflexivity. }
    cbn [reg_loop_sel]. replace (end_of_group t r) with (negb (bytes_eqb (t_group t) (t_group n))) by (rewrite Er; reflexivity).
    destruct (bytes_eqb (t_group t) (t_group n)); cbn [negb].
    + rewrite IH'. cbn [flat_map seg_events app]. rewrite <- !app_assoc. reflexivity.
    + rewrite IH. cbn [flat_map seg_events app]. rewrite !app_nil_r, <- !app_assoc. reflexivity.
Qed.

(* every segment is non-empty; a property of all tests holds of all tests of every segment *)
Lemma segments_forall (P : test -> bool) ts : forallb P ts = true ->
  Forall (fun g => g <> [] /\ forallb P g = true) (segments ts).
Proof.
  induction ts as [|t rest IH]; [constructor|].
  cbn [forallb]. intro H. apply andb_true_iff in H. destruct H as [Ht Hr]. specialize (IH Hr).
  cbn [segments]. destruct (segments rest) as [|[|n g] gs] eqn:E.
  - repeat constructor; [discriminate | cbn; rewrite Ht; reflexivity].
  - repeat constructor; [discriminate | cbn; rewrite Ht; reflexivity].
  - inversion IH as [|? ? [_ Hg] Hgs]; subst.
    destruct (bytes_eqb (t_group t) (t_group n)).
    + constructor; [|exact Hgs]. split; [discriminate|]. cbn [forallb]. rewrite Ht. exact Hg.
    + constructor; [|exact IH]. split; [discriminate|]. cbn. rewrite Ht. reflexivity.
Qed.

(* ================= the writer's output for the callbacks of one test, one segment, a whole run ================= *)
Section WriterFacts.
Variable dur : N.
Variable fs : list bytes.
Notation stepR := (tc_step Esc true dur).
Notation itemsR := (tc_items Esc true dur).

Lemma items_cons st e r : itemsR st (e :: r) = snd (stepR st e) ++ itemsR (fst (stepR st e)) r.
Proof. cbn [tc_items]. destruct (stepR st e). reflexivity. Qed.

(* statements of a test body *)
Fixpoint body_items (t : test) (b : list stmt) : list item :=
  match b with
  | [] => []
  | SPrint s :: r => IText s :: body_items t r
  | SFail f l m :: r => IMsg (failure_pmsg Esc t f l m) :: body_items t r
  | SFailStop f l m :: _ => [IMsg (failure_pmsg Esc t f l m)]
  end.
Lemma items_body st t b : forall rest, itemsR st (fst (body_events t b) ++ rest) = body_items t b ++ itemsR st rest.
Proof.
  induction b as [|s b IH]; intro rest; [reflexivity|].
  destruct s as [x|f l m|f l m]; cbn [body_events body_items].
  - destruct (body_events t b) as [e c]. cbn [fst app] in *. rewrite items_cons. cbn [tc_step fst snd app]. rewrite IH. reflexivity.
  - destruct (body_events t b) as [e c]. cbn [fst app] in *. rewrite items_cons. cbn [tc_step fst snd app]. rewrite IH. reflexivity.
  - cbn [fst app]. rewrite items_cons. reflexivity.
Qed.

Definition finished_pmsg (t : test) : pmsg :=
  {| pm_name := L_testFinished; pm_attrs := [(L_name, [Esc (t_name t)]); (L_duration, [Raw (dec (if t_ignored t then 0 else dur))])] |}.
Definition test_items (t : test) : list item :=
  IMsg (named L_testStarted (t_name t)) :: (if t_ignored t then [IMsg (named L_testIgnored (t_name t))] else [])
  ++ (if t_ignored t then [] else body_items t (t_body t)) ++ [IMsg (finished_pmsg t)].
Definition with_test (st : tcst) (t : test) : tcst := {| c_test := Some t; c_group := c_group st; c_open := c_open st |}.

Lemma items_test st t rest : itemsR st (test_events t ++ rest) = test_items t ++ itemsR (with_test st t) rest.
Proof.
  unfold test_events, test_items. destruct (t_ignored t) eqn:Ei.
  - cbn [app]. rewrite items_cons. cbn [tc_step fst snd]. rewrite Ei. fold (with_test st t).
    cbn [app]. rewrite items_cons. cbn [tc_step fst snd with_test c_test]. unfold finished_pmsg. rewrite Ei. reflexivity.
  - pose proof (items_body (with_test st t) t (t_body t)) as Hb.
    destruct (body_events t (t_body t)) as [e c]. cbn [fst] in Hb.
    cbn [app]. rewrite items_cons. cbn [tc_step fst snd]. rewrite Ei. fold (with_test st t).
    cbn [app]. rewrite <- app_assoc, Hb. cbn [app]. rewrite items_cons. cbn [tc_step fst snd with_test c_test].
    unfold finished_pmsg. rewrite Ei, <- app_assoc. reflexivity.
Qed.

Lemma items_tests g : forall st rest, exists st',
  c_group st' = c_group st /\ c_open st' = c_open st /\
  itemsR st (flat_map (sel_events fs) g ++ rest) = flat_map test_items (filter (selected fs) g) ++ itemsR st' rest.
Proof.
  induction g as [|t g IH]; intros st rest.
  - exists st. repeat split.
  - cbn [flat_map filter]. unfold sel_events at 1. destruct (selected fs t).
    + destruct (IH (with_test st t) rest) as [st' [Hg [Ho E]]].
      exists st'. split; [exact Hg | split; [exact Ho|]].
      cbn [flat_map]. rewrite <- !app_assoc, items_test, E. reflexivity.
    + cbn [app]. apply IH.
Qed.

Definition seg_items (g : list test) : list item :=
  IMsg (named L_testSuiteStarted (group_name g)) :: flat_map test_items (filter (selected fs) g)
  ++ [IMsg (named L_testSuiteFinished (group_name g))].

Lemma items_seg g st rest : g <> [] -> exists st', itemsR st (seg_events fs g ++ rest) = seg_items g ++ itemsR st' rest.
Proof.
  intro Hne. destruct g as [|t g]; [contradiction|].
  unfold seg_events, seg_items. cbn [group_name].
  remember (t :: g) as G.
  cbn [app]. rewrite items_cons. cbn [tc_step fst snd app].
  destruct (items_tests G {| c_test := c_test st; c_group := t_group t; c_open := true |} ([EGroupEnd] ++ rest)) as [st' [Hg [Ho E]]].
  cbn [c_group c_open] in Hg, Ho.
  rewrite <- app_assoc, E. cbn [app]. rewrite items_cons. cbn [tc_step]. rewrite Ho, Hg. cbn [negb fst snd].
  eexists. rewrite <- app_assoc. reflexivity.
Qed.

Lemma items_segs gs : forall st rest, Forall (fun g => g <> []) gs ->
  exists st', itemsR st (flat_map (seg_events fs) gs ++ rest) = flat_map seg_items gs ++ itemsR st' rest.
Proof.
  induction gs as [|g gs IH]; intros st rest Hne.
  - exists st. reflexivity.
  - inversion Hne as [|? ? Hg Hgs]; subst.
    cbn [flat_map]. rewrite <- !app_assoc.
    destruct (items_seg g st (flat_map (seg_events fs) gs ++ rest) Hg) as [st1 E1]. rewrite E1.
    destruct (IH st1 rest Hgs) as [st2 E2]. rewrite E2. exists st2. rewrite <- app_assoc. reflexivity.
Qed.

(* ---- everything the writer prints is well-formed as long as test bodies do not print *)
Definition noprint (t : test) : bool :=
  forallb (fun s => match s with SPrint _ => false | _ => true end) (t_body t).

Lemma named_ok_started n : pmsg_ok (named L_testStarted n) = true. Proof. reflexivity. Qed.
Lemma named_ok_ignored n : pmsg_ok (named L_testIgnored n) = true. Proof. reflexivity. Qed.
Lemma named_ok_sstarted n : pmsg_ok (named L_testSuiteStarted n) = true. Proof. reflexivity. Qed.
Lemma named_ok_sfinished n : pmsg_ok (named L_testSuiteFinished n) = true. Proof. reflexivity. Qed.
Lemma finished_ok t : pmsg_ok (finished_pmsg t) = true.
Proof.
  unfold pmsg_ok, finished_pmsg. cbn [pm_name pm_attrs attrs_ok fst snd forallb seg_ok].
  rewrite dec_plain_raw. reflexivity.
Qed.
Lemma failure_ok_pmsg t f l m : pmsg_ok (failure_pmsg Esc t f l m) = true.
Proof.
  unfold pmsg_ok, failure_pmsg. cbn [pm_name pm_attrs attrs_ok fst snd].
  destruct (negb (bytes_eqb (t_file t) f) || (l <? t_line t)); cbn [app forallb seg_ok]; rewrite ?dec_plain_raw; reflexivity.
Qed.

Lemma body_items_ok t b : forallb (fun s => match s with SPrint _ => false | _ => true end) b = true ->
  forallb item_ok (body_items t b) = true.
Proof.
  induction b as [|s b IH]; [reflexivity|]. cbn [forallb]. intro H. apply andb_true_iff in H. destruct H as [Hs Hb].
  destruct s as [x|f l m|f l m]; [discriminate Hs| |]; cbn [body_items forallb item_ok]; rewrite failure_ok_pmsg; [apply IH; exact Hb | reflexivity].
Qed.
Lemma test_items_ok t : noprint t = true -> forallb item_ok (test_items t) = true.
Proof.
  intro H. unfold test_items. cbn [forallb item_ok]. rewrite named_ok_started. cbn [andb].
  rewrite !forallb_app. cbn [forallb item_ok]. rewrite finished_ok.
  destruct (t_ignored t); cbn [forallb item_ok]; rewrite ?named_ok_ignored; [reflexivity|].
  rewrite (body_items_ok t _ H). reflexivity.
Qed.
Lemma tests_items_ok g : forallb noprint g = true -> forallb item_ok (flat_map test_items g) = true.
Proof.
  induction g as [|t g IH]; [reflexivity|]. cbn [forallb flat_map]. intro H. apply andb_true_iff in H. destruct H as [Ht Hg].
  rewrite forallb_app, (test_items_ok t Ht), (IH Hg). reflexivity.
Qed.
Lemma forallb_filter {A} (P Q : A -> bool) l : forallb P l = true -> forallb P (filter Q l) = true.
Proof.
  induction l as [|a l IH]; [reflexivity|]. cbn [forallb filter]. intro H. apply andb_true_iff in H. destruct H as [Ha Hl].
  destruct (Q a); [cbn [forallb]; rewrite Ha; apply IH; exact Hl | apply IH; exact Hl].
Qed.
Lemma seg_items_ok g : forallb noprint g = true -> forallb item_ok (seg_items g) = true.
Proof.
  intro H. unfold seg_items. cbn [forallb item_ok]. rewrite named_ok_sstarted. cbn [andb].
  rewrite forallb_app, (tests_items_ok _ (forallb_filter noprint (selected fs) g H)). cbn [forallb item_ok]. rewrite named_ok_sfinished. reflexivity.
Qed.
Lemma segs_items_ok gs : Forall (fun g => g <> [] /\ forallb noprint g = true) gs -> forallb item_ok (flat_map seg_items gs) = true.
Proof.
  induction 1 as [|g gs [_ Hg] _ IH]; [reflexivity|]. cbn [flat_map]. rewrite forallb_app, (seg_items_ok g Hg), IH. reflexivity.
Qed.

(* ---- what a decoder must read from it: messages_of *)
Lemma msgs_of_items_app a b : msgs_of_items (a ++ b) = msgs_of_items a ++ msgs_of_items b.
Proof. induction a as [|[m|s] a IH]; cbn [app msgs_of_items]; rewrite ?IH; reflexivity. Qed.

Lemma erase_failure t f l m : erase (failure_pmsg Esc t f l m) = failure_msg t (f, l, m).
Proof.
  unfold erase, failure_pmsg, failure_msg, failure_text, loc_text. cbn [pm_name pm_attrs map fst snd]. f_equal.
  destruct (negb (bytes_eqb (t_file t) f) || (l <? t_line t)); cbn [app flat_map seg_dec];
    repeat (rewrite <- app_assoc || rewrite <- app_comm_cons || rewrite app_nil_r); reflexivity.
Qed.
Lemma msgs_body t b : msgs_of_items (body_items t b) = map (failure_msg t) (all_failures b).
Proof.
  induction b as [|s b IH]; [reflexivity|].
  destruct s as [x|f l m|f l m]; cbn [body_items msgs_of_items all_failures map]; rewrite ?erase_failure, ?IH; reflexivity.
Qed.
Lemma erase_named k n : erase (named k n) = mk_named k n.
Proof. unfold erase, named, mk_named. cbn [pm_name pm_attrs map fst snd flat_map seg_dec]. rewrite app_nil_r. reflexivity. Qed.
Lemma erase_finished t :
  erase (finished_pmsg t) = {| m_name := L_testFinished; m_attrs := [(L_name, t_name t); (L_duration, dec (if t_ignored t then 0 else dur))] |}.
Proof. unfold erase, finished_pmsg. cbn [pm_name pm_attrs map fst snd flat_map seg_dec]. rewrite !app_nil_r. reflexivity. Qed.
Lemma msgs_test t : msgs_of_items (test_items t) = test_msgs dur t.
Proof.
  unfold test_items, test_msgs, test_failures. cbn [msgs_of_items]. rewrite !msgs_of_items_app.
  cbn [msgs_of_items]. rewrite erase_named, erase_finished.
  destruct (t_ignored t); cbn [msgs_of_items map app]; rewrite ?erase_named, ?msgs_body; reflexivity.
Qed.
Lemma msgs_tests g : msgs_of_items (flat_map test_items g) = flat_map (test_msgs dur) g.
Proof. induction g as [|t g IH]; [reflexivity|]. cbn [flat_map]. rewrite msgs_of_items_app, msgs_test, IH. reflexivity. Qed.
Lemma msgs_seg g : msgs_of_items (seg_items g) = suite_msgs dur fs g.
Proof. unfold seg_items, suite_msgs. cbn [msgs_of_items]. rewrite msgs_of_items_app, msgs_tests. cbn [msgs_of_items]. rewrite !erase_named. reflexivity. Qed.
Lemma msgs_segs gs : msgs_of_items (flat_map seg_items gs) = flat_map (suite_msgs dur fs) gs.
Proof. induction gs as [|g gs IH]; [reflexivity|]. cbn [flat_map]. rewrite msgs_of_items_app, msgs_seg, IH. reflexivity. Qed.

(* ---- the stream of a whole run *)
Lemma run_items ts : tc_items Esc true dur tc_init (events_sel fs ts) = flat_map seg_items (segments ts).
Proof.
  unfold events_sel. rewrite reg_loop_segments.
  assert (Hne : Forall (fun g : list test => g <> []) (segments ts)).
  { assert (Ht : forallb (fun _ : test => true) ts = true) by (clear; induction ts; cbn; auto).
    pose proof (segments_forall (fun _ => true) ts Ht) as H. eapply Forall_impl; [|exact H]. intros g [Hg _]. exact Hg. }
  destruct (items_segs (segments ts) tc_init [] Hne) as [st' E].
  rewrite !app_nil_r in E. cbn [tc_items] in E. rewrite ?app_nil_r in E. exact E.
Qed.

Lemma stream ts trailer : forallb noprint ts = true -> no_hash trailer = true ->
  tc_parse (render_tc dur fs ts ++ trailer) = Some (messages_of dur fs ts).
Proof.
  intros Hp Ht. unfold render_tc, render_with, messages_of. rewrite run_items.
  rewrite parse_items; [|apply segs_items_ok, segments_forall, Hp|exact Ht].
  rewrite msgs_segs. reflexivity.
Qed.
End WriterFacts.

(* ================= the messages of a run against the property ================= *)
Section SpecFacts.
Variable dur : N.
Variable fs : list bytes.

(* ---- balance *)
Lemma bal_failures s t fl : forall r,
  balanced_go (Some s) (Some (t_name t)) (map (failure_msg t) fl ++ r) = balanced_go (Some s) (Some (t_name t)) r.
Proof.
  induction fl as [|[[f l] m] fl IH]; intro r; [reflexivity|].
  cbn [map app]. unfold failure_msg at 1. cbn. rewrite bytes_eqb_refl. cbn. apply IH.
Qed.
Lemma bal_test s t r : balanced_go (Some s) None (test_msgs dur t ++ r) = balanced_go (Some s) None r.
Proof.
  unfold test_msgs. cbn [app]. 
  change (balanced_go (Some s) None (mk_named L_testStarted (t_name t) :: ?x)) with (balanced_go (Some s) (Some (t_name t)) x).
  rewrite <- !app_assoc.
  assert (Hi : forall x, balanced_go (Some s) (Some (t_name t)) ((if t_ignored t then [mk_named L_testIgnored (t_name t)] else []) ++ x)
                         = balanced_go (Some s) (Some (t_name t)) x).
  { intro x. destruct (t_ignored t); [|reflexivity]. cbn. rewrite bytes_eqb_refl. reflexivity. }
  rewrite Hi, bal_failures. cbn. rewrite bytes_eqb_refl. reflexivity.
Qed.
Lemma bal_tests s g : forall r, balanced_go (Some s) None (flat_map (test_msgs dur) g ++ r) = balanced_go (Some s) None r.
Proof.
  induction g as [|t g IH]; intro r; [reflexivity|]. cbn [flat_map]. rewrite <- app_assoc, bal_test. apply IH.
Qed.
Lemma bal_suite g r : balanced_go None None (suite_msgs dur fs g ++ r) = balanced_go None None r.
Proof.
  unfold suite_msgs. cbn [app].
  change (balanced_go None None (mk_named L_testSuiteStarted (group_name g) :: ?x)) with (balanced_go (Some (group_name g)) None x).
  rewrite <- app_assoc, bal_tests. cbn. rewrite bytes_eqb_refl. reflexivity.
Qed.
Lemma balanced_messages ts : balanced (messages_of dur fs ts) = true.
Proof.
  unfold balanced, messages_of. induction (segments ts) as [|g gs IH]; [reflexivity|].
  cbn [flat_map]. rewrite bal_suite. exact IH.
Qed.

(* ---- faithfulness *)
Lemma ends_with_app p s : ends_with (p ++ s) s = true.
Proof.
  unfold ends_with. rewrite app_length, Nat.add_sub, skipn_app, skipn_all, Nat.sub_diag. cbn. apply bytes_eqb_refl.
Qed.
Lemma contains_mid a t b : contains (a ++ t ++ b) t = true.
Proof. apply contains_spec. exists a, b. reflexivity. Qed.

Lemma failure_ok_msg t f : failure_ok t f (failure_msg t f) = true.
Proof.
  destruct f as [[file line] msg]. unfold failure_ok, failure_msg.
  change (is_msg L_testFailed _) with true.
  unfold attr_is, get_attr. cbn [m_attrs find fst snd].
  change (bytes_eqb L_name L_name) with true. change (bytes_eqb L_name L_details) with false.
  change (bytes_eqb L_message L_details) with false. change (bytes_eqb L_details L_details) with true.
  change (bytes_eqb L_name L_message) with false. change (bytes_eqb L_message L_message) with true.
  cbn [fst snd]. rewrite !bytes_eqb_refl. cbn [andb].
  unfold failure_text.
  rewrite ends_with_app. cbn [andb].
  destruct (negb (bytes_eqb (t_file t) file) || (line <? t_line t)); [|reflexivity].
  unfold loc_text.
  replace ((L_TEST_failed ++ t_file t ++ [58] ++ dec (t_line t) ++ L_close_colon) ++ file ++ [58] ++ dec line)
    with (L_TEST_failed ++ (t_file t ++ [58] ++ dec (t_line t)) ++ (L_close_colon ++ file ++ [58] ++ dec line))
    by (repeat (rewrite <- app_assoc || rewrite <- app_comm_cons); reflexivity).
  apply contains_mid.
Qed.
Lemma take_failures_msgs t fl : forall r, take_failures t fl (map (failure_msg t) fl ++ r) = Some r.
Proof.
  induction fl as [|f fl IH]; intro r; [reflexivity|].
  cbn [map app take_failures]. rewrite failure_ok_msg. apply IH.
Qed.
Lemma attr_is_named k n : attr_is L_name (mk_named k n) n = true.
Proof. unfold attr_is, get_attr, mk_named. cbn [m_attrs find fst snd]. change (bytes_eqb L_name L_name) with true. cbn. apply bytes_eqb_refl. Qed.
Lemma take_test_msgs t r : take_test t (test_msgs dur t ++ r) = Some r.
Proof.
  unfold test_msgs, take_test. cbn [app].
  change (is_msg L_testStarted (mk_named L_testStarted (t_name t))) with true. rewrite attr_is_named. cbn [andb].
  rewrite <- !app_assoc.
  destruct (t_ignored t) eqn:Ei; cbn [app].
  - change (is_msg L_testIgnored (mk_named L_testIgnored (t_name t))) with true. rewrite attr_is_named. cbn [andb].
    rewrite take_failures_msgs.
    change (is_msg L_testFinished _) with true.
    unfold attr_is, get_attr. cbn [m_attrs find fst snd]. change (bytes_eqb L_name L_name) with true. cbn [snd]. rewrite bytes_eqb_refl. reflexivity.
  - rewrite take_failures_msgs.
    change (is_msg L_testFinished _) with true.
    unfold attr_is, get_attr. cbn [m_attrs find fst snd]. change (bytes_eqb L_name L_name) with true. cbn [snd]. rewrite bytes_eqb_refl. reflexivity.
Qed.
Lemma take_tests_msgs g : forall r, take_tests g (flat_map (test_msgs dur) g ++ r) = Some r.
Proof.
  induction g as [|t g IH]; intro r; [reflexivity|].
  cbn [flat_map take_tests]. rewrite <- app_assoc, take_test_msgs. apply IH.
Qed.
Lemma take_suite_msgs g r : take_suite fs g (suite_msgs dur fs g ++ r) = Some r.
Proof.
  unfold suite_msgs, take_suite. cbn [app].
  change (is_msg L_testSuiteStarted (mk_named L_testSuiteStarted (group_name g))) with true. rewrite attr_is_named. cbn [andb].
  rewrite <- app_assoc, take_tests_msgs. cbn [app].
  change (is_msg L_testSuiteFinished (mk_named L_testSuiteFinished (group_name g))) with true. rewrite attr_is_named. reflexivity.
Qed.
Lemma faithful_messages ts : faithful fs (segments ts) (messages_of dur fs ts) = true.
Proof.
  unfold messages_of. induction (segments ts) as [|g gs IH]; [reflexivity|].
  cbn [flat_map faithful]. rewrite take_suite_msgs. exact IH.
Qed.
Lemma spec_messages ts : spec_msgs fs ts (messages_of dur fs ts) = true.
Proof. unfold spec_msgs. rewrite balanced_messages, faithful_messages. reflexivity. Qed.
End SpecFacts.

(* ================= the run against the oracle ================= *)
Lemma valid_noprint s : valid s = true -> forallb noprint (s_tests s) = true.
Proof.
  unfold valid. intro H. apply andb_true_iff in H. destruct H as [_ H].
  rewrite forallb_forall in *. intros t Ht. specialize (H t Ht).
  unfold tc_oktest in H. apply andb_true_iff in H. destruct H as [_ H].
  unfold noprint. rewrite forallb_forall in *. intros x Hx. specialize (H x Hx). destruct x; [discriminate H | reflexivity | reflexivity].
Qed.

Lemma run_meets_spec_text s trailer : valid s = true -> no_hash trailer = true -> spec s (run s ++ trailer) = true.
Proof.
  intros Hv Ht. unfold spec, run. rewrite (stream (s_dur s) (s_filters s) (s_tests s) trailer (valid_noprint s Hv) Ht). apply spec_messages.
Qed.
Lemma run_meets_spec s : valid s = true -> spec s (run s) = true.
Proof. intro Hv. rewrite <- (app_nil_r (run s)). apply run_meets_spec_text; [exact Hv | reflexivity]. Qed.

(* ================= the code before the two repairs of D15 ================= *)
(* (1) a failure reported from another file: the test's own path went into the message value unescaped *)
Definition old_path_witness : scenario :=
  {| s_dur := 0; s_filters := []; s_tests := [ {| t_group := B "G"%string; t_name := B "t"%string; t_file := B "it's.cpp"%string; t_line := 10; t_ignored := false;
                                 t_body := [SFail (B "helper.cpp"%string) 3 (B "boom"%string)] |} ] |}.
Lemma run_old_path_refuted : ~ (forall s, valid s = true -> spec s (run_old_path s) = true).
Proof. intro H. specialize (H old_path_witness eq_refl). vm_compute in H. discriminate H. Qed.
(* (2) a group with the empty name: suite started, never finished *)
Definition old_group_witness : scenario :=
  {| s_dur := 0; s_filters := []; s_tests := [ {| t_group := []; t_name := B "t"%string; t_file := B "a.cpp"%string; t_line := 10; t_ignored := false; t_body := [] |} ] |}.
Lemma run_old_group_refuted : ~ (forall s, valid s = true -> spec s (run_old_group s) = true).
Proof. intro H. specialize (H old_group_witness eq_refl). vm_compute in H. discriminate H. Qed.
(* the old writer's stream for (2) does parse; it is the balance that fails *)
Lemma run_old_group_unbalanced :
  match tc_parse (run_old_group old_group_witness) with Some ms => balanced ms = false | None => False end.
Proof. vm_compute. reflexivity. Qed.
(* the old writer's stream for (1) is cut by the raw quote: the parser rejects it *)
Lemma run_old_path_rejected : tc_parse (run_old_path old_path_witness) = None.
Proof. vm_compute. reflexivity. Qed.

(* ================= example ================= *)
Definition ex_test1 : test :=
  {| t_group := (B "G'1"%string); t_name := (B "t[1]"%string); t_file := (B "it's.cpp"%string); t_line := 10; t_ignored := false;
     t_body := [SFail ((B "it's.cpp"%string)) 12 ((B "a|b
c"%string)); SFail ((B "h].cpp"%string)) 3 ((B "x"%string)); SFailStop ((B "it's.cpp"%string)) 4 ((B "y"%string)); SFail ((B "z"%string)) 1 ((B "unreachable"%string))] |}.
Definition ex_test2 : test :=
  {| t_group := (B "G'1"%string); t_name := (B "ign"%string); t_file := (B "a.cpp"%string); t_line := 20; t_ignored := true; t_body := [] |}.
Definition ex_test3 : test :=
  {| t_group := []; t_name := []; t_file := (B "a.cpp"%string); t_line := 30; t_ignored := false; t_body := [] |}.
Definition ex_test4 : test :=
  {| t_group := (B "H"%string); t_name := (B "filtered out"%string); t_file := (B "a.cpp"%string); t_line := 40; t_ignored := false; t_body := [] |}.
Definition example_run : scenario :=
  {| s_dur := 42; s_filters := [B "t[1]"%string; B "ign"%string; []]; s_tests := [ex_test1; ex_test2; ex_test3; ex_test4] |}.

Lemma example_valid :
  valid example_run = true /\ length (messages_of 42 (s_filters example_run) (s_tests example_run)) = 16%nat /\ spec example_run (run example_run) = true
  /\ tc_parse (run example_run) = Some (messages_of 42 (s_filters example_run) (s_tests example_run)).
Proof. vm_compute. repeat split; reflexivity. Qed.

(* what spec = true says, spelled out *)
Lemma spec_reads s o : spec s o = true <->
  exists ms, tc_parse o = Some ms /\ balanced ms = true /\ faithful (s_filters s) (segments (s_tests s)) ms = true.
Proof.
  unfold spec, spec_msgs. split.
  - destruct (tc_parse o) as [ms|]; [|discriminate]. intro H. apply andb_true_iff in H. exists ms. tauto.
  - intros [ms [E [Hb Hf]]]. rewrite E, Hb, Hf. reflexivity.
Qed.
Lemma escape_roundtrip s : tc_unescape (tc_escape s) = Some s /\ no_raw_special (tc_escape s) = true.
Proof. split; [apply unescape_escape | apply escape_no_raw_special]. Qed.

(* without filters the loop is the one C16 uses *)
Lemma reg_loop_nofilter gs ts : reg_loop_sel [] gs ts = reg_loop gs ts.
Proof.
  revert gs. induction ts as [|t rest IH]; intro gs; [reflexivity|].
  cbn [reg_loop_sel reg_loop]. unfold sel_events. cbn [selected]. rewrite !IH. reflexivity.
Qed.
Lemma events_nofilter ts : events_sel [] ts = events_of ts.
Proof. apply reg_loop_nofilter. Qed.
