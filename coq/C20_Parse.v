(* C20 -- the service-message parser run on what the writer prints returns what was written. *)
From Coq Require Import NArith Bool List Lia Arith.
From CppUVerif Require Import lib.Str C16_Events C20_Model C20_Escape.
Import ListNotations.
Local Open Scope N_scope.

(* ---- well-formedness of what the writer hands to the printer *)
Definition ident_ok (s : bytes) : bool := match s with c :: r => is_letter c && forallb is_identc r | [] => false end.
Fixpoint attrs_ok (seen : list bytes) (l : list (bytes * list seg)) : bool :=
  match l with
  | [] => true
  | a :: r => ident_ok (fst a) && negb (existsb (bytes_eqb (fst a)) seen) && forallb seg_ok (snd a) && attrs_ok (fst a :: seen) r
  end.
Definition pmsg_ok (m : pmsg) : bool := ident_ok (pm_name m) && attrs_ok [] (pm_attrs m).
Definition item_ok (i : item) : bool := match i with IMsg m => pmsg_ok m | IText _ => false end.
Fixpoint msgs_of_items (l : list item) : list message :=
  match l with
  | [] => []
  | IMsg m :: r => erase m :: msgs_of_items r
  | IText _ :: r => msgs_of_items r
  end.
Definition erase_attr (a : bytes * list seg) : bytes * bytes := (fst a, flat_map seg_dec (snd a)).

(* ---- generalities about the state machine *)
Lemma run_sm_app a : forall b m, run_sm m (a ++ b) = match run_sm m a with Some m' => run_sm m' b | None => None end.
Proof.
  induction a as [|c a IH]; intros b m; [reflexivity|].
  cbn [app run_sm]. destruct (step m c); [apply IH | reflexivity].
Qed.

Lemma step_no_lf m : step m 10 = None.
Proof. destruct m as [acc| | | | | | |]; try reflexivity. destruct acc; reflexivity. Qed.

Lemma run_sm_no_lf l : forall m m', run_sm m l = Some m' -> ~ In 10 l.
Proof.
  induction l as [|c l IH]; intros m m' H; [intros []|].
  cbn [run_sm] in H. destruct (step m c) as [m1|] eqn:E; [|discriminate H].
  intros [Hc|Hc].
  - subst c. rewrite step_no_lf in E. discriminate E.
  - exact (IH _ _ H Hc).
Qed.

Lemma letter_facts c : is_letter c = true -> (c =? 32) = false /\ (c =? 93) = false /\ is_identc c = true.
Proof.
  unfold is_identc. intro H. rewrite H. split; [|split; [|reflexivity]].
  - unfold is_letter in H. apply N.eqb_neq. intro. subst c. discriminate H.
  - unfold is_letter in H. apply N.eqb_neq. intro. subst c. discriminate H.
Qed.

(* ---- names *)
Lemma name_run r : forall acc rest, acc <> [] -> forallb is_identc r = true ->
  run_sm (MName acc) (r ++ rest) = run_sm (MName (rev r ++ acc)) rest.
Proof.
  induction r as [|c r IH]; intros acc rest Hacc Hr; [reflexivity|].
  cbn [forallb] in Hr. apply andb_true_iff in Hr. destruct Hr as [Hc Hr].
  cbn [app run_sm step]. destruct acc as [|a acc]; [contradiction|]. rewrite Hc.
  rewrite IH; [|discriminate|exact Hr]. cbn [rev]. rewrite <- app_assoc. reflexivity.
Qed.
Lemma name_start name rest : ident_ok name = true -> run_sm (MName []) (name ++ rest) = run_sm (MName (rev name)) rest.
Proof.
  destruct name as [|c r]; [discriminate|]. cbn [ident_ok]. intro H. apply andb_true_iff in H. destruct H as [Hc Hr].
  cbn [app run_sm step]. rewrite Hc. rewrite name_run; [reflexivity | discriminate | exact Hr].
Qed.
Lemma key_run r : forall nm attrs k rest, forallb is_identc r = true ->
  run_sm (MKey nm attrs k) (r ++ rest) = run_sm (MKey nm attrs (rev r ++ k)) rest.
Proof.
  induction r as [|c r IH]; intros nm attrs k rest Hr; [reflexivity|].
  cbn [forallb] in Hr. apply andb_true_iff in Hr. destruct Hr as [Hc Hr].
  cbn [app run_sm step]. rewrite Hc. rewrite IH; [|exact Hr]. cbn [rev]. rewrite <- app_assoc. reflexivity.
Qed.

(* ---- values: the machine decodes exactly as tc_unescape does *)
Lemma val_run_len n : forall v u, (length v <= n)%nat -> tc_unescape v = Some u ->
  forall nm attrs k acc rest, run_sm (MVal nm attrs k acc) (v ++ rest) = run_sm (MVal nm attrs k (rev u ++ acc)) rest.
Proof.
  induction n as [|n IH]; intros v u Hl Hv nm attrs k acc rest.
  - destruct v; [|cbn in Hl; lia]. cbn in Hv. injection Hv as <-. reflexivity.
  - destruct v as [|c r]; [cbn in Hv; injection Hv as <-; reflexivity|].
    cbn [tc_unescape] in Hv. cbn [app run_sm step].
    destruct (N.eqb_spec c 124) as [->|Hn].
    + destruct r as [|d r']; [discriminate Hv|].
      destruct (unesc_char d) as [x|] eqn:Ed; [|discriminate Hv].
      destruct (tc_unescape r') as [u'|] eqn:Er; [|discriminate Hv].
      injection Hv as <-. cbn [N.eqb Pos.eqb app run_sm step]. rewrite Ed.
      rewrite (IH r' u'); [|cbn in Hl; lia|exact Er]. cbn [rev]. rewrite <- app_assoc. reflexivity.
    + destruct (raw_forbidden c) eqn:Ef; [discriminate Hv|].
      destruct (tc_unescape r) as [u'|] eqn:Er; [|discriminate Hv].
      injection Hv as <-.
      assert (H39 : (c =? 39) = false).
      { unfold raw_forbidden in Ef. destruct (c =? 39); [discriminate Ef | reflexivity]. }
      rewrite H39.
      rewrite (IH r u'); [|cbn in Hl; lia|exact Er]. cbn [rev]. rewrite <- app_assoc. reflexivity.
Qed.
Lemma val_run v u : tc_unescape v = Some u ->
  forall nm attrs k acc rest, run_sm (MVal nm attrs k acc) (v ++ rest) = run_sm (MVal nm attrs k (rev u ++ acc)) rest.
Proof. apply (val_run_len (length v)). lia. Qed.

(* ---- attributes *)
Definition sp_ready (m : mode) (nm : bytes) (attrs : list (bytes * bytes)) : Prop :=
  step m 32 = Some (MSp nm attrs) /\ step m 93 = Some (MDone nm attrs).
Lemma sp_ready_after nm attrs : sp_ready (MAfter nm attrs) nm attrs.
Proof. split; reflexivity. Qed.
Lemma sp_ready_name name : ident_ok name = true -> sp_ready (MName (rev name)) name [].
Proof.
  intro H. destruct (rev name) as [|a acc] eqn:E.
  - destruct name; [discriminate H|]. cbn [rev] in E. destruct (rev name); discriminate E.
  - assert (R : rev (a :: acc) = name) by (rewrite <- E; apply rev_involutive).
    split; cbn [step]; rewrite R; reflexivity.
Qed.

Lemma has_key_seen k attrs : has_key k attrs = existsb (bytes_eqb k) (map fst attrs).
Proof.
  unfold has_key. induction attrs as [|a r IH]; [reflexivity|].
  cbn [existsb map]. rewrite IH. f_equal. apply bytes_eqb_sym.
Qed.

Lemma attr_run m nm attrs key segs u rest :
  sp_ready m nm attrs -> ident_ok key = true -> has_key key attrs = false -> tc_unescape (segs_print segs) = Some u ->
  run_sm m (attr_print (key, segs) ++ rest) = run_sm (MAfter nm ((key, u) :: attrs)) rest.
Proof.
  intros [Hsp _] Hk Hdup Hu.
  unfold attr_print. cbn [fst snd]. cbn [app run_sm]. rewrite Hsp.
  destruct key as [|c r]; [discriminate Hk|].
  cbn [ident_ok] in Hk. apply andb_true_iff in Hk. destruct Hk as [Hc Hr].
  destruct (letter_facts c Hc) as [H32 [H93 Hic]].
  cbn [app run_sm step]. rewrite H32, H93, Hc.
  rewrite <- app_assoc. rewrite key_run; [|exact Hr].
  cbn [app run_sm step].
  change (is_identc 61) with false. cbn [N.eqb Pos.eqb].
  replace (rev (rev r ++ [c])) with (c :: r) by (rewrite rev_app_distr, rev_involutive; reflexivity).
  rewrite Hdup.
  cbn [run_sm step N.eqb Pos.eqb].
  rewrite <- app_assoc. rewrite (val_run _ _ Hu).
  cbn [app run_sm step N.eqb Pos.eqb]. rewrite <- rev_alt, app_nil_r, rev_involutive. reflexivity.
Qed.

Lemma attrs_run l : forall m nm attrs rest, sp_ready m nm attrs -> attrs_ok (map fst attrs) l = true ->
  run_sm m (flat_map attr_print l ++ 93 :: rest) = run_sm (MDone nm (rev (map erase_attr l) ++ attrs)) rest.
Proof.
  induction l as [|a l IH]; intros m nm attrs rest Hsp Hok.
  - destruct Hsp as [_ H93]. cbn [flat_map app run_sm map rev]. rewrite H93. reflexivity.
  - cbn [attrs_ok] in Hok. apply andb_true_iff in Hok. destruct Hok as [Hok Hrest].
    apply andb_true_iff in Hok. destruct Hok as [Hok Hsegs].
    apply andb_true_iff in Hok. destruct Hok as [Hid Hdup]. apply negb_true_iff in Hdup.
    destruct a as [key segs]. cbn [fst snd] in *.
    cbn [flat_map]. rewrite <- app_assoc.
    rewrite (attr_run m nm attrs key segs (flat_map seg_dec segs)); [|exact Hsp|exact Hid| |apply segs_unescape; exact Hsegs].
    + rewrite (IH (MAfter nm ((key, flat_map seg_dec segs) :: attrs)) nm ((key, flat_map seg_dec segs) :: attrs));
        [|apply sp_ready_after|exact Hrest].
      cbn [map rev erase_attr fst snd]. rewrite <- app_assoc. reflexivity.
    + rewrite has_key_seen. exact Hdup.
Qed.

(* ---- one message *)
Definition msg_body (m : pmsg) : bytes := pm_name m ++ flat_map attr_print (pm_attrs m) ++ [93].
Lemma erase_attrs m : erase m = {| m_name := pm_name m; m_attrs := map erase_attr (pm_attrs m) |}.
Proof. reflexivity. Qed.

Lemma body_run m : pmsg_ok m = true ->
  run_sm (MName []) (msg_body m) = Some (MDone (pm_name m) (rev (map erase_attr (pm_attrs m)))).
Proof.
  unfold pmsg_ok, msg_body. intro H. apply andb_true_iff in H. destruct H as [Hn Ha].
  rewrite name_start; [|exact Hn].
  rewrite (attrs_run (pm_attrs m) _ (pm_name m) [] []); [|apply sp_ready_name; exact Hn|exact Ha].
  rewrite app_nil_r. reflexivity.
Qed.
Lemma parse_msg_print m : pmsg_ok m = true -> parse_msg (msg_body m) = Some (erase m).
Proof.
  intro H. unfold parse_msg. rewrite (body_run m H). rewrite rev_involutive. reflexivity.
Qed.

Lemma msg_print_split m : msg_print m = (L_marker ++ msg_body m) ++ [10].
Proof. unfold msg_print, msg_body. rewrite <- !app_assoc. reflexivity. Qed.

Lemma classify_msg m : pmsg_ok m = true -> classify_line (L_marker ++ msg_body m) = LMsg (erase m).
Proof.
  intro H. unfold classify_line.
  replace (is_prefix L_marker (L_marker ++ msg_body m)) with true
    by (symmetry; apply is_prefix_spec; exists (msg_body m); reflexivity).
  change (skipn 11 (L_marker ++ msg_body m)) with (msg_body m).
  rewrite (parse_msg_print m H). reflexivity.
Qed.

(* ---- lines *)
Lemma lines_app l : forall rest, ~ In 10 l -> lines (l ++ 10 :: rest) = l :: lines rest.
Proof.
  induction l as [|c l IH]; intros rest Hn; [reflexivity|].
  cbn [app lines]. destruct (N.eqb_spec c 10) as [->|Hc]; [exfalso; apply Hn; left; reflexivity|].
  rewrite IH; [reflexivity|]. intro Hin. apply Hn. right. exact Hin.
Qed.

Lemma msg_line m rest : pmsg_ok m = true -> lines (msg_print m ++ rest) = (L_marker ++ msg_body m) :: lines rest.
Proof.
  intro H. rewrite msg_print_split, <- app_assoc. cbn [app]. apply lines_app.
  intro Hin. apply in_app_or in Hin. destruct Hin as [Hin|Hin].
  - cbn in Hin. repeat (destruct Hin as [Hin|Hin]; [discriminate Hin|]). exact Hin.
  - exact (run_sm_no_lf _ _ _ (body_run m H) Hin).
Qed.

(* ---- ordinary text between and after the messages: any text without the character # *)
Definition no_hash (s : bytes) : bool := forallb (fun c => negb (c =? 35)) s.
Lemma lines_no_hash t : no_hash t = true -> Forall (fun l => no_hash l = true) (lines t).
Proof.
  induction t as [|c t IH]; intro H; [repeat constructor|].
  cbn [no_hash forallb] in H. apply andb_true_iff in H. destruct H as [Hc Ht]. specialize (IH Ht).
  cbn [lines]. destruct (c =? 10).
  - constructor; [reflexivity | exact IH].
  - destruct (lines t) as [|l ls]; [repeat constructor; cbn; rewrite Hc; reflexivity|].
    inversion IH; subst. constructor; [|assumption]. cbn [no_hash forallb]. rewrite Hc. assumption.
Qed.
Lemma classify_plain l : no_hash l = true -> classify_line l = LPlain.
Proof.
  intro H. unfold classify_line.
  assert (Hp : is_prefix L_marker l = false).
  { destruct l as [|c l]; [reflexivity|]. cbn [no_hash forallb] in H. apply andb_true_iff in H. destruct H as [Hc _].
    apply negb_true_iff in Hc. unfold L_marker. cbn [is_prefix]. rewrite N.eqb_sym, Hc. reflexivity. }
  rewrite Hp.
  destruct (contains l L_marker) eqn:Ec; [|reflexivity].
  apply contains_spec in Ec. destruct Ec as [p [q E]]. exfalso.
  assert (Hin : In 35 l) by (rewrite E; apply in_or_app; right; left; reflexivity).
  unfold no_hash in H. rewrite forallb_forall in H. specialize (H 35 Hin). discriminate H.
Qed.
Lemma parse_plain_lines ls : Forall (fun l => no_hash l = true) ls -> parse_lines ls = Some [].
Proof.
  induction 1 as [|l ls Hl _ IH]; [reflexivity|]. cbn [parse_lines]. rewrite (classify_plain l Hl). exact IH.
Qed.
Lemma parse_plain t : no_hash t = true -> tc_parse t = Some [].
Proof. intro H. apply parse_plain_lines, lines_no_hash, H. Qed.

(* ---- a whole stream: the messages the writer printed, followed by any text without # *)
Lemma parse_items items : forall trailer, forallb item_ok items = true -> no_hash trailer = true ->
  tc_parse (flat_map item_print items ++ trailer) = Some (msgs_of_items items).
Proof.
  induction items as [|i items IH]; intros trailer Hok Ht.
  - apply parse_plain. exact Ht.
  - cbn [forallb] in Hok. apply andb_true_iff in Hok. destruct Hok as [Hi Hok].
    destruct i as [m|s]; [|discriminate Hi]. cbn [item_ok] in Hi.
    cbn [flat_map item_print msgs_of_items]. rewrite <- app_assoc.
    unfold tc_parse. rewrite (msg_line m _ Hi). cbn [parse_lines]. rewrite (classify_msg m Hi).
    specialize (IH trailer Hok Ht). unfold tc_parse in IH. rewrite IH. reflexivity.
Qed.

(* ---- the parser is strict where the property needs it *)
Lemma value_rejects_raw nm attrs k acc c rest : raw_forbidden c = true -> c <> 39 ->
  run_sm (MVal nm attrs k acc) (c :: rest) = None.
Proof.
  intros Hf Hc. cbn [run_sm step]. destruct (N.eqb_spec c 39); [contradiction|].
  destruct (N.eqb_spec c 124) as [->|_]; [discriminate Hf|]. rewrite Hf. reflexivity.
Qed.
Lemma value_quote_ends nm attrs k acc c rest : c <> 32 -> c <> 93 ->
  run_sm (MVal nm attrs k acc) (39 :: c :: rest) = None.
Proof.
  intros H32 H93. cbn [run_sm step N.eqb Pos.eqb].
  destruct (N.eqb_spec c 32); [contradiction|]. destruct (N.eqb_spec c 93); [contradiction|]. reflexivity.
Qed.
Lemma value_rejects_unknown_escape nm attrs k acc d rest : unesc_char d = None ->
  run_sm (MVal nm attrs k acc) (124 :: d :: rest) = None.
Proof. intro H. cbn [run_sm step N.eqb Pos.eqb]. rewrite H. reflexivity. Qed.
Lemma nothing_after_bracket nm attrs c rest : run_sm (MDone nm attrs) (c :: rest) = None.
Proof. reflexivity. Qed.

(* ---- the converse for values: whatever the machine accepts between two quotes is a well-formed escaped value and is decoded
   as tc_unescape decodes it (so an accepted value never contains a raw ' [ ] CR LF and never ends in a lone |) *)
Lemma val_run_inv_len n : forall l, (length l <= n)%nat -> forall nm attrs k acc mfin,
  run_sm (MVal nm attrs k acc) l = Some mfin ->
  (exists v rest u, l = v ++ 39 :: rest /\ tc_unescape v = Some u /\ run_sm (MAfter nm ((k, rev acc ++ u) :: attrs)) rest = Some mfin)
  \/ (exists u, tc_unescape l = Some u /\ mfin = MVal nm attrs k (rev u ++ acc))
  \/ (exists v u, l = v ++ [124] /\ tc_unescape v = Some u /\ mfin = MEsc nm attrs k (rev u ++ acc)).
Proof.
  induction n as [|n IH]; intros l Hl nm attrs k acc mfin H.
  - destruct l; [|cbn in Hl; lia]. cbn in H. injection H as <-. right. left. exists []. split; reflexivity.
  - destruct l as [|c r].
    { cbn in H. injection H as <-. right. left. exists []. split; reflexivity. }
    cbn [run_sm step] in H.
    destruct (N.eqb_spec c 39) as [->|H39].
    { left. exists [], r, []. rewrite app_nil_r. rewrite <- rev_alt in H. repeat split. exact H. }
    destruct (N.eqb_spec c 124) as [->|H124].
    + destruct r as [|d r'].
      { cbn in H. injection H as <-. right. right. exists [], []. repeat split. }
      cbn [run_sm step] in H. destruct (unesc_char d) as [x|] eqn:Ed; [|discriminate H].
      destruct (IH r' ltac:(cbn in Hl; lia) nm attrs k (x :: acc) mfin H) as [[v [rest [u [E [Hu Hr]]]]] | [[u [Hu E]] | [v [u [E [Hu Em]]]]]].
      * left. exists (124 :: d :: v), rest, (x :: u). subst r'. repeat split.
        -- cbn [tc_unescape N.eqb Pos.eqb]. rewrite Ed, Hu. reflexivity.
        -- cbn [rev] in Hr. rewrite <- app_assoc in Hr. exact Hr.
      * right. left. exists (x :: u). split.
        -- cbn [tc_unescape N.eqb Pos.eqb]. rewrite Ed, Hu. reflexivity.
        -- subst mfin. cbn [rev]. rewrite <- app_assoc. reflexivity.
      * right. right. exists (124 :: d :: v), (x :: u). subst r'. repeat split.
        -- cbn [tc_unescape N.eqb Pos.eqb]. rewrite Ed, Hu. reflexivity.
        -- subst mfin. cbn [rev]. rewrite <- app_assoc. reflexivity.
    + destruct (raw_forbidden c) eqn:Ef; [discriminate H|].
      assert (Hc : forall v u, tc_unescape v = Some u -> tc_unescape (c :: v) = Some (c :: u)).
      { intros v u Hu. cbn [tc_unescape]. destruct (N.eqb_spec c 124); [contradiction|]. rewrite Ef, Hu. reflexivity. }
      destruct (IH r ltac:(cbn in Hl; lia) nm attrs k (c :: acc) mfin H) as [[v [rest [u [E [Hu Hr]]]]] | [[u [Hu E]] | [v [u [E [Hu Em]]]]]].
      * left. exists (c :: v), rest, (c :: u). subst r. repeat split.
        -- apply Hc. exact Hu.
        -- cbn [rev] in Hr. rewrite <- app_assoc in Hr. exact Hr.
      * right. left. exists (c :: u). split; [apply Hc; exact Hu|]. subst mfin. cbn [rev]. rewrite <- app_assoc. reflexivity.
      * right. right. exists (c :: v), (c :: u). subst r. repeat split; [apply Hc; exact Hu|]. subst mfin. cbn [rev]. rewrite <- app_assoc. reflexivity.
Qed.

Lemma accepted_value_wellformed nm attrs k l nm' attrs' :
  run_sm (MVal nm attrs k []) l = Some (MDone nm' attrs') ->
  exists v rest u, l = v ++ 39 :: rest /\ tc_unescape v = Some u /\ no_raw_special v = true
                   /\ run_sm (MAfter nm ((k, u) :: attrs)) rest = Some (MDone nm' attrs').
Proof.
  intro H. destruct (val_run_inv_len (length l) l (le_n _) nm attrs k [] _ H) as [[v [rest [u [E [Hu Hr]]]]] | [[u [_ E]] | [v [u [_ [_ E]]]]]].
  - exists v, rest, u. repeat split; [exact E | exact Hu | exact (unescape_some_no_raw v u Hu) | exact Hr].
  - discriminate E.
  - discriminate E.
Qed.
