(* C18 -- the INSTALLED cache: the life cycle of GlobalSimpleStringCache objects (src/CppUTest/SimpleStringInternalCache.cpp,
   "allocator adaptor and global installation") on top of the cache model of C18_Model.v.

     GlobalSimpleStringCache()    allocator_ = new SimpleStringCacheAllocator(cache_, SimpleString::getStringAllocator());
                                  SimpleString::setStringAllocator(allocator_);
     ~GlobalSimpleStringCache()   SimpleString::setStringAllocator(allocator_->originalAllocator());
                                  cache_.clearAllIncludingCurrentlyUsedMemory();   delete allocator_;   (then ~cache_)

   The string allocator in force is a STACK of installed caches (innermost first) over a recording underlying string
   allocator: the cache of a global object takes the allocator it found installed as ITS underlying allocator, so a second
   object constructed while the first is alive obtains its block headers and buffers from the first object's cache and
   gives them back to it.  Every request / release goes to the innermost installed cache, or straight to the recorder when
   nothing is installed.  The cache operations are those of C18_Model (dealloc, clear_cache, clear_all and their lists are
   reused as they are; alloc is the same code with the two ids of a new block supplied by the allocator below instead of
   by a counter).  Block ids are the allocation ordinals of the RECORDER: a pointer handed out at any level is the start
   of a recorder block.  The node array of a cache comes from defaultMallocAllocator(), not from the string allocator,
   and is not part of these books (it is covered by the scenarios of C18_Model).  No proofs in this file. *)
From Coq Require Import NArith Arith Bool List.
From CppUVerif Require Import gen.Gen_C18 C18_Model.
Import ListNotations.
Local Open Scope N_scope.

(* ---------------------------------------------------------------- one installed cache *)
(* g_ser: the serial number of the global object (1, 2, ... in construction order) *)
Record gc := { g_st : state; g_ser : N }.
Definition set_st (c : gc) (st : state) : gc := {| g_st := st; g_ser := g_ser c |}.

Definition fresh_cache : state :=
  {| s_cache := map (fun s => {| n_size := s; n_free := []; n_used := [] |}) class_sizes;
     s_non := []; s_warned := false; s_next := 0 |}.

(* alloc, first half: is a new block needed, and of which size?  None = the free list of the class serves the request *)
Definition need (st : state) (n : N) : option N :=
  if is_cached n then
    let nd := nth (index_for (s_cache st) n) (s_cache st) dnode in
    match n_free nd with _ :: _ => None | [] => Some (n_size nd) end
  else Some n.
(* reserveCachedBlockFrom: pop the free list's head, push it on the used list *)
Definition alloc_hit (st : state) (n : N) : state * N :=
  let i := index_for (s_cache st) n in
  let nd := nth i (s_cache st) dnode in
  match n_free nd with
  | b :: fr => (with_cache st (set_nth i {| n_size := n_size nd; n_free := fr; n_used := b :: n_used nd |} (s_cache st)), b_mem b)
  | [] => (st, 0)
  end.
(* allocateNewCacheBlockFrom / the non-cached branch of alloc: link the new block {header h; buffer m} *)
Definition alloc_with (st : state) (n h m : N) : state :=
  let b := {| b_hdr := h; b_mem := m |} in
  if is_cached n then
    let i := index_for (s_cache st) n in
    let nd := nth i (s_cache st) dnode in
    with_cache st (set_nth i {| n_size := n_size nd; n_free := n_free nd; n_used := b :: n_used nd |} (s_cache st))
  else {| s_cache := s_cache st; s_non := b :: s_non st; s_warned := s_warned st; s_next := s_next st |}.

(* ---------------------------------------------------------------- the stack of allocators
   `stk` = installed caches, innermost first; below the last one the recorder (next block id `nx`).
   A call on the stack is a call on its first cache, whose own calls on its underlying allocator are calls on the rest.
   The fuel is the depth of the stack (every level uses one). *)
Fixpoint u_alloc (f : nat) (stk : list gc) (nx n : N) : list gc * N * N * list ev :=
  match stk with
  | [] => ([], nx + 1, nx, [EA nx n])                                   (* the recorder: a fresh block *)
  | c :: rest =>
      match f with
      | O => (stk, nx, 0, [])
      | S f' =>
          match need (g_st c) n with
          | None => match alloc_hit (g_st c) n with (st', p) => (set_st c st' :: rest, nx, p, []) end
          | Some sz =>                                                  (* createSimpleStringMemoryBlock: header, then buffer *)
              match u_alloc f' rest nx block_hdr_size with
              | (r1, nx1, h, e1) =>
                  match u_alloc f' r1 nx1 sz with
                  | (r2, nx2, m, e2) => (set_st c (alloc_with (g_st c) n h m) :: r2, nx2, m, e1 ++ e2)
                  end
              end
          end
      end
  end.

(* the free_memory calls a cache operation made on its underlying allocator, carried out on the stack below *)
Fixpoint replay_with (uf : list gc -> ptr -> N -> list gc * list ev * bool) (stk : list gc) (l : list ev)
  : list gc * list ev * bool :=
  match l with
  | [] => (stk, [], false)
  | EF id sz :: l' =>
      match uf stk (PId id) sz with
      | (s1, e1, w1) => match replay_with uf s1 l' with (s2, e2, w2) => (s2, e1 ++ e2, w1 || w2) end
      end
  | EA _ _ :: l' => replay_with uf stk l'
  end.

Fixpoint u_free (f : nat) (stk : list gc) (p : ptr) (n : N) : list gc * list ev * bool :=
  match stk with
  | [] => ([], match p with PId id => [EF id n] | PFor _ => [] end, false)      (* the recorder *)
  | c :: rest =>
      match f with
      | O => (stk, [], false)
      | S f' =>
          match dealloc (g_st c) p n with
          | (st', x) =>
              match replay_with (u_free f') rest (o_evs x) with
              | (r', evs, w) => (set_st c st' :: r', evs, o_warn x || w)
              end
          end
      end
  end.

(* clearCache / clearAllIncludingCurrentlyUsedMemory of the innermost cache *)
Definition u_clear (op : state -> state * out) (stk : list gc) : list gc * list ev * bool :=
  match stk with
  | [] => ([], [], false)
  | c :: rest =>
      match op (g_st c) with
      | (st', x) =>
          match replay_with (u_free (length rest)) rest (o_evs x) with
          | (r', evs, w) => (set_st c st' :: r', evs, o_warn x || w)
          end
      end
  end.

(* ---------------------------------------------------------------- scenarios *)
Inductive gop :=
| GAlloc (n : N)                 (* SimpleString::getStringAllocator()->alloc_memory(n), or a string of n-1 characters *)
| GRel (k : nat) (n : N)         (* free_memory(pointer returned by the k-th GAlloc, n) *)
| GFor (k : N) (n : N)           (* free_memory(a buffer that never came from an allocator, n) *)
| GClearCache                    (* clearCache of the innermost installed cache *)
| GClearAll                      (* clearAllIncludingCurrentlyUsedMemory of the innermost installed cache *)
| GPush                          (* construct a GlobalSimpleStringCache *)
| GPop.                          (* destroy the most recently constructed one *)
Definition gscenario : Type := list gop.

(* what the forwarding recorder between a cache and its underlying allocator counts: pointers obtained through it and
   not yet returned (gi_out) and returns of a pointer that was not outstanding (gi_dbl), of the innermost cache after the
   operation (of the destroyed cache for GPop); 0 0 when nothing is installed *)
Record gitem := { gi_it : item; gi_out : N; gi_dbl : N }.
Definition gobs := list gitem.

Definition held (st : state) : N :=
  N.of_nat (length (flat_map (fun nd => n_free nd ++ n_used nd) (s_cache st) ++ s_non st)) * 2.
Definition top_held (stk : list gc) : N := match stk with [] => 0 | c :: _ => held (g_st c) end.
Definition mk_gitem (evs : list ev) (ret : option N) (w : bool) (o : N) : gitem :=
  {| gi_it := {| i_evs := evs; i_ret := match ret with Some id => Some (id, 0) | None => None end; i_warn := w |};
     gi_out := o; gi_dbl := 0 |}.

Record world := { w_stk : list gc; w_nx : N; w_ser : N; w_res : list N }.

Definition gptr (res : list N) (k : nat) : ptr := match nth_error res k with Some id => PId id | None => PFor 0 end.

Definition gstep (w : world) (o : gop) : world * gitem :=
  match o with
  | GAlloc n =>
      match u_alloc (length (w_stk w)) (w_stk w) (w_nx w) n with
      | (stk', nx', p, evs) =>
          ({| w_stk := stk'; w_nx := nx'; w_ser := w_ser w; w_res := w_res w ++ [p] |}, mk_gitem evs (Some p) false (top_held stk'))
      end
  | GRel k n =>
      match u_free (length (w_stk w)) (w_stk w) (gptr (w_res w) k) n with
      | (stk', evs, wn) => ({| w_stk := stk'; w_nx := w_nx w; w_ser := w_ser w; w_res := w_res w |}, mk_gitem evs None wn (top_held stk'))
      end
  | GFor k n =>
      match u_free (length (w_stk w)) (w_stk w) (PFor k) n with
      | (stk', evs, wn) => ({| w_stk := stk'; w_nx := w_nx w; w_ser := w_ser w; w_res := w_res w |}, mk_gitem evs None wn (top_held stk'))
      end
  | GClearCache =>
      match u_clear clear_cache (w_stk w) with
      | (stk', evs, wn) => ({| w_stk := stk'; w_nx := w_nx w; w_ser := w_ser w; w_res := w_res w |}, mk_gitem evs None wn (top_held stk'))
      end
  | GClearAll =>
      match u_clear clear_all (w_stk w) with
      | (stk', evs, wn) => ({| w_stk := stk'; w_nx := w_nx w; w_ser := w_ser w; w_res := w_res w |}, mk_gitem evs None wn (top_held stk'))
      end
  | GPush =>
      let stk' := {| g_st := fresh_cache; g_ser := w_ser w + 1 |} :: w_stk w in
      ({| w_stk := stk'; w_nx := w_nx w; w_ser := w_ser w + 1; w_res := w_res w |}, mk_gitem [] None false 0)
  | GPop =>                      (* the destructor: uninstall, clearAll, then the object is gone *)
      match u_clear clear_all (w_stk w) with
      | (stk', evs, wn) =>
          ({| w_stk := tl stk'; w_nx := w_nx w; w_ser := w_ser w; w_res := w_res w |}, mk_gitem evs None wn (top_held stk'))
      end
  end.

(* objects still alive at the end of a scenario are destroyed, innermost first *)
Fixpoint pops (k : nat) (w : world) : gobs :=
  match k with
  | O => []
  | S k' => match gstep w GPop with (w1, x) => x :: pops k' w1 end
  end.
Fixpoint grun_ops (w : world) (ops : list gop) : gobs :=
  match ops with
  | [] => pops (length (w_stk w)) w
  | o :: r => match gstep w o with (w1, x) => x :: grun_ops w1 r end
  end.
Definition world0 : world := {| w_stk := []; w_nx := 0; w_ser := 0; w_res := [] |}.
Definition grun (s : gscenario) : gobs := grun_ops world0 s.

(* validity: a release names an earlier request; only an installed cache is cleared or destroyed or handed a foreign
   buffer; with nothing installed only a buffer obtained with nothing installed and not yet released is released, with
   its size (anything else would be the caller corrupting the recorder, not the cache) *)
Fixpoint set_nth_opt (k : nat) (l : list (option N)) : list (option N) :=
  match l, k with
  | [], _ => []
  | _ :: r, O => None :: r
  | x :: r, S k' => x :: set_nth_opt k' r
  end.
Fixpoint gvalid_ops (depth : nat) (direct : list (option N)) (ops : list gop) : bool :=
  match ops with
  | [] => true
  | GAlloc n :: r => gvalid_ops depth (direct ++ [match depth with O => Some n | S _ => None end]) r
  | GRel k n :: r =>
      match depth with
      | O => match nth_error direct k with
             | Some (Some n0) => (n =? n0) && gvalid_ops depth (set_nth_opt k direct) r
             | _ => false
             end
      | S _ => (k <? length direct)%nat && gvalid_ops depth direct r
      end
  | GFor _ _ :: r | GClearCache :: r | GClearAll :: r => match depth with O => false | S _ => gvalid_ops depth direct r end
  | GPush :: r => gvalid_ops (S depth) direct r
  | GPop :: r => match depth with O => false | S d => gvalid_ops d direct r end
  end.
Definition gvalid (s : gscenario) : bool := gvalid_ops 0 [] s.

(* ---------------------------------------------------------------- spec: the property for the installed cache, as a
   model-free oracle over the observation.  Books of the recorder (sizes by id, ids given back) as in C18_Model; on top:
     live    buffers handed out and not (knowingly) released: (block id, offset, requested size, owner), owner = serial of
             the object that was innermost when the buffer was handed out, 0 = nothing was installed
     lvls    the installed objects, innermost first: serial and whether the object has warned
     base    the recorder's count when the outermost installed object was constructed
   A release is KNOWN when its pointer is live, was handed out by the object that is innermost now, and the size given is
   of the class of the size requested.  When an object is cleared entirely or destroyed, its live buffers stop being in
   use; every recorder block obtained since `base` must be back when that object is the outermost one.  An object nested
   in another gives its buffers above the cached bound back with size 0 (as clearAll does towards every allocator): the
   outer cache does not recognise them under that size, warns if it has not yet, and goes on holding them -- they stay
   in use, now on the outer object's account. *)
Definition lentry : Type := N * N * N * N.
Definition le_id (e : lentry) : N := fst (fst (fst e)).
Definition le_off (e : lentry) : N := snd (fst (fst e)).
Definition le_req (e : lentry) : N := snd (fst e).
Definition le_own (e : lentry) : N := snd e.
Definition le3 (e : lentry) : N * N * N := fst e.
Record lvl := { l_ser : N; l_warned : bool }.
Record gs := { q_bk : books; q_live : list lentry; q_seen : list (N * option N); q_lv : list lvl; q_ptrs : list (N * N);
               q_nser : N; q_base : N }.
Definition mk_q bk lv sn ls p ns b : gs :=
  {| q_bk := bk; q_live := lv; q_seen := sn; q_lv := ls; q_ptrs := p; q_nser := ns; q_base := b |}.
Definition top_ser (s : gs) : N := match q_lv s with [] => 0 | l :: _ => l_ser l end.
Definition lids (l : list lentry) : list N := map le_id l.
Definition set_top_warned (ls : list lvl) : list lvl :=
  match ls with [] => [] | l :: r => {| l_ser := l_ser l; l_warned := true |} :: r end.
Definition counters_ok (it : gitem) : bool := gi_dbl it =? 0.

Definition gcheck_alloc (s : gs) (n : N) (g : gitem) : option gs :=
  let it := gi_it g in
  match apply_evs 0 (lids (q_live s)) (q_bk s) (i_evs it), i_ret it with
  | Some bk, Some (id, off) =>
      match szof (fst bk) id with
      | None => None
      | Some a =>
          if memN id (snd bk) then None
          else if negb (off + n <=? a) then None
          else if existsb (overlaps id off n) (map le3 (q_live s)) then None
          else if i_warn it || negb (counters_ok g) then None
          else
            let live' := (id, off, n, top_ser s) :: q_live s in
            match q_lv s with
            | [] => Some (mk_q bk live' (q_seen s) (q_lv s) (q_ptrs s ++ [(id, off)]) (q_nser s) (q_base s))
            | _ :: _ =>
                match seen_cls (q_seen s) id with
                | Some c => if optN_eqb c (cls n)
                            then Some (mk_q bk live' (q_seen s) (q_lv s) (q_ptrs s ++ [(id, off)]) (q_nser s) (q_base s))
                            else None
                | None => Some (mk_q bk live' ((id, cls n) :: q_seen s) (q_lv s) (q_ptrs s ++ [(id, off)]) (q_nser s) (q_base s))
                end
            end
      end
  | _, _ => None
  end.

Fixpoint gfind_live (l : list lentry) (id off : N) : option (N * N) :=
  match l with
  | [] => None
  | e :: r => if (le_id e =? id) && (le_off e =? off) then Some (le_req e, le_own e) else gfind_live r id off
  end.
Fixpoint gdrop_live (l : list lentry) (id off : N) : list lentry :=
  match l with
  | [] => []
  | e :: r => if (le_id e =? id) && (le_off e =? off) then r else e :: gdrop_live r id off
  end.
Definition gknown (s : gs) (p : option (N * N)) (n : N) : bool :=
  match p with
  | Some (id, off) =>
      match gfind_live (q_live s) id off with
      | Some (req, own) => (own =? top_ser s) && match q_lv s with [] => true | _ :: _ => optN_eqb (cls req) (cls n) end
      | None => false
      end
  | None => false
  end.
Definition top_warned (s : gs) : bool := match q_lv s with [] => true | l :: _ => l_warned l end.

Definition gcheck_release (s : gs) (p : option (N * N)) (n : N) (g : gitem) : option gs :=
  let it := gi_it g in
  match i_ret it with
  | Some _ => None
  | None =>
      if negb (counters_ok g) then None else
      if gknown s p n then
        match p with
        | Some (id, off) =>
            let live' := gdrop_live (q_live s) id off in
            match apply_evs n (lids live') (q_bk s) (i_evs it) with
            | Some bk => if i_warn it then None
                         else Some (mk_q bk live' (q_seen s) (q_lv s) (q_ptrs s) (q_nser s) (q_base s))
            | None => None
            end
        | None => None
        end
      else
        match apply_evs n (lids (q_live s)) (q_bk s) (i_evs it) with
        | Some bk =>
            if Bool.eqb (i_warn it) (negb (top_warned s))
            then Some (mk_q bk (q_live s) (q_seen s) (set_top_warned (q_lv s)) (q_ptrs s) (q_nser s) (q_base s))
            else None
        | None => None
        end
  end.

Definition owned_by (ser : N) (e : lentry) : bool := le_own e =? ser.
Definition count_owned (ser : N) (l : list lentry) : N := N.of_nat (length (filter (owned_by ser) l)).

(* clearCache of the innermost object: nothing in use is touched; what the object still holds of its underlying
   allocator's memory is exactly one header and one buffer per buffer in use on its account *)
Definition gcheck_cc (s : gs) (g : gitem) : option gs :=
  let it := gi_it g in
  match q_lv s with
  | [] => None
  | _ :: _ =>
      match apply_evs 0 (lids (q_live s)) (q_bk s) (i_evs it), i_ret it, i_warn it with
      | Some bk, None, false =>
          if counters_ok g && (gi_out g =? count_owned (top_ser s) (q_live s) * 2)
          then Some (mk_q bk (q_live s) (q_seen s) (q_lv s) (q_ptrs s) (q_nser s) (q_base s)) else None
      | _, _, _ => None
      end
  end.

Definition above_bound (e : lentry) : bool := match cls (le_req e) with None => true | Some _ => false end.
Definition reown (ser : N) (e : lentry) : lentry := (le_id e, le_off e, le_req e, ser).

(* clearAll / destruction of the innermost object (pop = true: the object is gone afterwards) *)
Definition gcheck_wipe (pop : bool) (s : gs) (g : gitem) : option gs :=
  let it := gi_it g in
  match q_lv s with
  | [] => None
  | l :: below =>
      let mine := filter (owned_by (l_ser l)) (q_live s) in
      let others := filter (fun e => negb (owned_by (l_ser l) e)) (q_live s) in
      match apply_evs 0 (lids others) (q_bk s) (i_evs it), i_ret it with
      | Some bk, None =>
          if negb (counters_ok g && (gi_out g =? 0)) then None else
          match below with
          | [] =>          (* the outermost object: everything obtained since it was constructed is back at the recorder *)
              if i_warn it then None
              else if forallb (fun id => memN id (snd bk)) (range_from (q_base s) (length (fst bk) - N.to_nat (q_base s)))
              then Some (mk_q bk others (q_seen s) (if pop then [] else [l]) (q_ptrs s) (q_nser s) (q_base s))
              else None
          | l2 :: below2 =>
              let stuck := filter above_bound mine in
              let z := match stuck with [] => false | _ :: _ => true end in
              if Bool.eqb (i_warn it) (z && negb (l_warned l2))
              then
                let l2' := {| l_ser := l_ser l2; l_warned := l_warned l2 || z |} in
                Some (mk_q bk (map (reown (l_ser l2)) stuck ++ others) (q_seen s)
                           (if pop then l2' :: below2 else l :: l2' :: below2) (q_ptrs s) (q_nser s) (q_base s))
              else None
          end
      | _, _ => None
      end
  end.

Definition gcheck_push (s : gs) (g : gitem) : option gs :=
  let it := gi_it g in
  match apply_evs 0 (lids (q_live s)) (q_bk s) (i_evs it), i_ret it, i_warn it with
  | Some bk, None, false =>
      if counters_ok g && (gi_out g =? 0)
      then Some (mk_q bk (q_live s) (q_seen s) ({| l_ser := q_nser s; l_warned := false |} :: q_lv s) (q_ptrs s) (q_nser s + 1)
                      (match q_lv s with [] => N.of_nat (length (fst bk)) | _ :: _ => q_base s end))
      else None
  | _, _, _ => None
  end.

Definition gcheck_op (s : gs) (o : gop) (g : gitem) : option gs :=
  match o with
  | GAlloc n => gcheck_alloc s n g
  | GRel k n => gcheck_release s (nth_error (q_ptrs s) k) n g
  | GFor _ n => gcheck_release s None n g
  | GClearCache => gcheck_cc s g
  | GClearAll => gcheck_wipe false s g
  | GPush => gcheck_push s g
  | GPop => gcheck_wipe true s g
  end.
(* after the last operation: one destruction per object still installed, and nothing else *)
Fixpoint gcheck_pops (s : gs) (o : gobs) : bool :=
  match o with
  | [] => match q_lv s with [] => true | _ :: _ => false end
  | g :: o' =>
      match q_lv s with
      | [] => false
      | _ :: _ => match gcheck_wipe true s g with Some s1 => gcheck_pops s1 o' | None => false end
      end
  end.
Fixpoint gcheck_ops (s : gs) (ops : list gop) (o : gobs) : bool :=
  match ops with
  | [] => gcheck_pops s o
  | op1 :: r => match o with
                | g :: o' => match gcheck_op s op1 g with Some s1 => gcheck_ops s1 r o' | None => false end
                | [] => false
                end
  end.
Definition gs0 : gs := mk_q ([], []) [] [] [] [] 1 0.
Definition gspec (sc : gscenario) (o : gobs) : bool := gcheck_ops gs0 sc o.

(* ---------------------------------------------------------------- the extended scenario language of the check *)
Inductive xscenario := XCache (s : scenario) | XGlobal (g : gscenario).
Inductive xobs := XOCache (o : obs) | XOGlobal (o : gobs).
Definition xrun (s : xscenario) : xobs := match s with XCache c => XOCache (run c) | XGlobal g => XOGlobal (grun g) end.
Definition xvalid (s : xscenario) : bool := match s with XCache c => valid c | XGlobal g => gvalid g end.
Definition xspec (s : xscenario) (o : xobs) : bool :=
  match s, o with
  | XCache c, XOCache oc => spec c oc
  | XGlobal g, XOGlobal og => gspec g og
  | _, _ => false
  end.

(* the destructor of the red-team change (clearCache in place of clearAll), for the refutation in C18_GProofs.v *)
Definition gstep_cc_variant (w : world) (o : gop) : world * gitem :=
  match o with
  | GPop =>
      match u_clear clear_cache (w_stk w) with
      | (stk', evs, wn) =>
          ({| w_stk := tl stk'; w_nx := w_nx w; w_ser := w_ser w; w_res := w_res w |}, mk_gitem evs None wn (top_held stk'))
      end
  | _ => gstep w o
  end.
