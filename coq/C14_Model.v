(* C14 -- diagnostics are safe to build, bounded, and say what happened.
   (a) SimpleStringBuffer / MemoryLeakOutputStringBuffer (src/CppUTest/MemoryLeakDetector.cpp): the fixed text buffer as a
       state machine over formatted LENGTHS (decimal digit counts, string lengths; the literal parts of every format string
       come from gen/Gen_C14.v, the buffer length from gen/Gen_Common.v), recording the greatest index ever written and the
       position of the first NUL.
   (b) the first-difference scans and message assembly of the *Failure constructors (src/CppUTest/TestFailure.cpp) as
       bounds-checked loops over the operands and their printable forms.
   No proofs in this file. *)
From Coq Require Import NArith ZArith Bool List.
From CppUVerif Require Import lib.CInt lib.Str gen.Gen_Common gen.Gen_C14.
Import ListNotations.
Local Open Scope N_scope.

(* ------------------------------------------------------------------ formatted lengths *)
Fixpoint ndigits_f (base : N) (fuel : nat) (n : N) : N :=
  match fuel with
  | O => 1
  | S f => if n <? base then 1 else 1 + ndigits_f base f (n / base)
  end.
Definition dec_digits (n : N) : N := ndigits_f 10 20 n.          (* arguments are below 2^64 < 10^20 *)
Definition hex_digits (n : N) : N := ndigits_f 16 16 n.
Definition two64 : N := 18446744073709551616.
Definition two32 : N := 4294967296.
Definition int_max : N := 2147483647.
(* "%d" of (int) v for a size_t v *)
Definition int_of_size (v : N) : Z := cast TInt (Z.of_N v).
Definition int_len (v : N) : N :=
  let z := int_of_size v in
  if (z <? 0)%Z then 1 + dec_digits (Z.to_N (- z)) else dec_digits (Z.to_N z).
Definition uint_len (v : N) : N := dec_digits (v mod two32).       (* "%u" of an unsigned *)
Definition ulong_len (v : N) : N := dec_digits (v mod two64).      (* "%lu" *)

(* ------------------------------------------------------------------ (a) the buffer *)
Definition buf_len : N := simple_string_buffer_len.
Record buf := { filled : N;      (* positions_filled_ *)
                limit : N;       (* write_limit_ *)
                slen : N;        (* index of the first NUL in buffer_ (strlen of the text) *)
                maxw : N;        (* greatest index of buffer_ written so far *)
                trunc : bool }.  (* some add since the flag was reset stored fewer characters than it formatted *)

Definition buf_init : buf := {| filled := 0; limit := buf_len - 1; slen := 0; maxw := 0; trunc := false |}.
Definition buf_clear (b : buf) : buf :=
  {| filled := 0; limit := limit b; slen := 0; maxw := maxw b; trunc := trunc b |}.
Definition set_limit (b : buf) (l : N) : buf :=
  {| filled := filled b; limit := if buf_len - 1 <? l then buf_len - 1 else l; slen := slen b; maxw := maxw b; trunc := trunc b |}.
Definition reset_limit (b : buf) : buf :=
  {| filled := filled b; limit := buf_len - 1; slen := slen b; maxw := maxw b; trunc := trunc b |}.
Definition reached_capacity (b : buf) : bool := limit b <=? filled b.
Definition reset_trunc (b : buf) : buf :=
  {| filled := filled b; limit := limit b; slen := slen b; maxw := maxw b; trunc := false |}.

(* what one vsnprintf(buffer_ + filled, size, ...) of `count` formatted characters does to the text:
   w characters at [filled, filled+w) and a NUL at filled+w *)
Definition write (b : buf) (w : N) (f' : N) (t : bool) : buf :=
  {| filled := f'; limit := limit b;
     slen := if slen b <? filled b then slen b else filled b + w;
     maxw := N.max (maxw b) (filled b + w);
     trunc := trunc b || t |}.

(* SimpleStringBuffer::add, repaired (D13): nothing is written at or beyond the limit *)
Definition add (b : buf) (count : N) : buf :=
  if limit b <=? filled b then
    {| filled := filled b; limit := limit b; slen := slen b; maxw := maxw b; trunc := trunc b || (0 <? count) |}
  else
    let left := limit b - filled b in
    let w := N.min count left in
    let f' := filled b + count in
    write b w (if limit b <? f' then limit b else f') (left <? count).

(* the code before the repair: positions_left = write_limit_ - positions_filled_ in size_t *)
Definition add_old (b : buf) (count : N) : buf :=
  let left := Z.to_N ((Z.of_N (limit b) - Z.of_N (filled b)) mod Z.of_N two64) in
  if left =? 0 then b else
  let size := (left + 1) mod two64 in               (* size argument of vsnprintf *)
  let f' := filled b + count in
  let f'' := if limit b <? f' then limit b else f' in
  if size =? 0 then {| filled := f''; limit := limit b; slen := slen b; maxw := maxw b; trunc := true |}
  else write b (N.min count (size - 1)) f'' (left <? count).

Record leak := { l_size : N; l_flen : N; l_line : N; l_anl : N; l_malloc : bool }.
Inductive op :=
| Clr                                                        (* MemoryLeakDetector::startChecking *)
| Mis (kind : N) (afl aline asize anl ffl fline fnl : N)     (* 0 non-allocated, 1 type mismatch, 2 corruption *)
| Rep (leaks : list leak).                                   (* MemoryLeakDetector::report over these leaks *)

Record st := { sb : buf; total : N; warn : bool; seq : N }.
Inductive oobs :=
| OClr (len : N) (canary : bool) (f l : N)
| OMis (len : N) (canary : bool) (f l : N)
| ORep (len : N) (canary : bool) (tot : option Z) (notice : bool) (complete : N) (f l : N).

(* argument lists of the add calls *)
Fixpoint hex_cols (n : nat) (p : N) : list N :=                    (* "%02hx " and the extra " " after column 8 *)
  match n with
  | O => []
  | S k => 3 :: (if p =? dump_line_bytes / 2 - 1 then [1] else []) ++ hex_cols k (p + 1)
  end.
Definition dump_line (pos bytes : N) : list N :=
  let leftover := dump_line_bytes - bytes in
  [6 + N.max 4 (hex_digits pos)]                                     (* "    %04lx: " *)
  ++ hex_cols (N.to_nat bytes) 0
  ++ repeat 3 (N.to_nat leftover)                                    (* "   " *)
  ++ (if dump_line_bytes / 2 <? leftover then [1] else [])           (* " " *)
  ++ [1]                                                             (* "|" *)
  ++ repeat 1 (N.to_nat bytes)                                       (* "%c" *)
  ++ [2].                                                            (* "|\n" *)
Fixpoint dump (fuel : nat) (pos size : N) : list N :=
  match fuel with
  | O => []
  | S f => if pos <? size then
             let bytes := N.min (size - pos) dump_line_bytes in
             dump_line pos bytes ++ dump f (pos + bytes) size
           else []
  end.
Definition dump_counts (size : N) : list N := dump (S (N.to_nat (size / N.max 1 dump_line_bytes))) 0 size.
Definition entry_len (plen num : N) (l : leak) : N :=
  leak_entry_lit + uint_len num + ulong_len (l_size l) + l_flen l + int_len (l_line l) + l_anl l + plen.
Definition footer_reserve : N :=                                     (* the three sizeof's (each strlen + 1) and the digits *)
  (footer_len + 1) + footer_digits_reserved + (too_much_len + 1) + (malloc_warning_len + 1).
Definition report_limit : N := Z.to_N ((Z.of_N buf_len - Z.of_N footer_reserve) mod Z.of_N two64).
Definition mis_counts (kind afl aline asize anl ffl fline fnl : N) : list N :=
  let msg := if kind =? 0 then msg_nonallocated_len else if kind =? 1 then msg_mismatch_len else msg_corruption_len in
  let afl' := if kind =? 0 then unknown_file_len else afl in
  let aline' := if kind =? 0 then 0 else aline in
  let asize' := if kind =? 0 then 0 else asize in
  let anl' := if kind =? 0 then unknown_alloc_name_len else anl in
  [ msg;
    alloc_loc_lit + afl' + int_len aline' + ulong_len asize' + anl';
    dealloc_loc_lit + ffl + int_len fline + fnl ].

Definition obs_len (b : buf) : N := N.min (slen b) buf_len.           (* strnlen(buffer_, LEN) *)
Definition canary_ok (b : buf) : bool := maxw b <? buf_len.          (* nothing written behind buffer_ *)

Section Machine.
  Variable adder : buf -> N -> buf.
  Variable plen : N.                                                  (* length of "%p" of a leaked block *)
  Definition adds (b : buf) (cs : list N) : buf := fold_left adder cs b.

  (* MemoryLeakOutputStringBuffer::reportMemoryLeak; second component: number of entries stored completely *)
  Definition report_leak (sc : st * N) (l : leak) : st * N :=
    let (s, complete) := sc in
    let b := reset_trunc (sb s) in
    let b := if total s =? 0 then adds b [leak_header_len] else b in
    let b := adds b (entry_len plen (seq s) l :: dump_counts (l_size l)) in
    ({| sb := b; total := total s + 1; warn := warn s || l_malloc l; seq := seq s + 1 |},
     if trunc b then complete else complete + 1).

  Definition do_report (s : st) (leaks : list leak) : st * oobs :=
    (* startMemoryLeakReporting *)
    let s := {| sb := set_limit (sb s) report_limit; total := 0; warn := false; seq := seq s |} in
    let (s, complete) := fold_left report_leak leaks (s, 0) in
    (* stopMemoryLeakReporting *)
    if total s =? 0 then
      let b := adds (sb s) [no_leaks_len] in
      ({| sb := b; total := total s; warn := warn s; seq := seq s |},
       ORep (obs_len b) (canary_ok b) None false complete (filled b) (limit b))
    else
      let cap := reached_capacity (sb s) in
      let b := reset_trunc (reset_limit (sb s)) in
      let b := if cap then adds b [too_much_len] else b in
      let notice := cap && negb (trunc b) in
      let b := adds (reset_trunc b) [footer_len + footer_fmt_lit + int_len (total s)] in
      let tot := if trunc b then None else Some (int_of_size (total s)) in
      let b := if warn s then adds b [malloc_warning_len] else b in
      ({| sb := b; total := total s; warn := warn s; seq := seq s |},
       ORep (obs_len b) (canary_ok b) tot notice complete (filled b) (limit b)).

  Definition step (s : st) (o : op) : st * oobs :=
    match o with
    | Clr => let b := buf_clear (sb s) in
             ({| sb := b; total := total s; warn := warn s; seq := seq s |}, OClr (obs_len b) (canary_ok b) (filled b) (limit b))
    | Mis kind afl aline asize anl ffl fline fnl =>
        let b := adds (sb s) (mis_counts kind afl aline asize anl ffl fline fnl) in
        ({| sb := b; total := total s; warn := warn s; seq := if kind =? 0 then seq s else seq s + 1 |},
         OMis (obs_len b) (canary_ok b) (filled b) (limit b))
    | Rep leaks => do_report s leaks
    end.
  Fixpoint steps (s : st) (ops : list op) : st * list oobs :=
    match ops with
    | [] => (s, [])
    | o :: r => let (s1, ob) := step s o in let (s2, obs) := steps s1 r in (s2, ob :: obs)
    end.
End Machine.

Definition st_init : st := {| sb := buf_init; total := 0; warn := false; seq := 1 |}.
Definition run_buf (plen : N) (ops : list op) : list oobs := snd (steps add plen st_init ops).
Definition run_buf_old (plen : N) (ops : list op) : list oobs := snd (steps add_old plen st_init ops).

(* ---- spec (a): what the property demands of the per-operation observations ---- *)
Definition leak_ok (l : leak) : bool :=
  (l_size l <? two64) && (l_line l <? two64) && (l_flen l <? two32) && (l_anl l <? two32).
Definition op_ok (o : op) : bool :=
  match o with
  | Clr => true
  | Mis kind afl aline asize anl ffl fline fnl =>
      (kind <? 3) && (afl <? two32) && (aline <? two64) && (asize <? two64) && (anl <? two32) && (ffl <? two32) && (fline <? two64) && (fnl <? two32)
  | Rep leaks => forallb leak_ok leaks && (N.of_nat (length leaks) <=? int_max)
  end.
Definition valid_buf (ops : list op) : bool := forallb op_ok ops.

Definition bounded_obs (len : N) (canary : bool) : bool := (len <? buf_len) && canary.
(* cleared = the buffer was cleared (or is fresh) and nothing was appended since *)
Fixpoint spec_buf_from (cleared : bool) (ops : list op) (obs : list oobs) : bool :=
  match ops, obs with
  | [], [] => true
  | Clr :: r, OClr len c _ _ :: r' => bounded_obs len c && spec_buf_from true r r'
  | Mis _ _ _ _ _ _ _ _ :: r, OMis len c _ _ :: r' => bounded_obs len c && spec_buf_from false r r'
  | Rep leaks :: r, ORep len c tot notice complete _ _ :: r' =>
      let n := N.of_nat (length leaks) in
      bounded_obs len c
      && (if cleared && (0 <? n) then
            match tot with Some z => (z =? Z.of_N n)%Z | None => false end      (* states the true total *)
            && (if complete <? n then notice else true)                         (* says so when entries were dropped *)
          else true)
      && spec_buf_from false r r'
  | _, _ => false
  end.
Definition spec_buf (ops : list op) (obs : list oobs) : bool := spec_buf_from true ops obs.

(* ------------------------------------------------------------------ (b) failure messages *)
Definition hexd (d : N) : N := if d <? 10 then 48 + d else 55 + d.       (* upper-case hexadecimal digit *)
Definition esc_byte (c : N) : list N :=
  if (7 <=? c) && (c <=? 13) then [92; nth (N.to_nat (c - 7)) [97; 98; 116; 110; 118; 102; 114] 0]    (* \a \b \t \n \v \f \r *)
  else if (c <? 32) || (c =? 127) || (128 <=? c) then [92; 120; hexd (c / 16); hexd (c mod 16)]       (* \xHH *)
  else [c].
Definition printable (s : list N) : list N := flat_map esc_byte s.       (* SimpleString::printable *)

Inductive scan_res := Found (i : nat) | OutOfBounds (i : nat) | OutOfFuel.
(* SimpleString::at(i) / p[i] on a buffer holding s and its terminator: None = outside the operand's own bytes *)
Definition rd (s : list N) (i : nat) : option N := nth_error (s ++ [0]) i.
(* for (i = 0; norm(a[i]) == norm(e[i]) [&& a[i] != 0]; i++) ;   stop_at_nul = the repaired loop condition *)
Fixpoint scan (norm : N -> N) (stop_at_nul : bool) (fuel i : nat) (a e : list N) : scan_res :=
  match fuel with
  | O => OutOfFuel
  | S f => match rd a i, rd e i with
           | Some x, Some y =>
               if (norm x =? norm y) && (negb stop_at_nul || negb (x =? 0)) then scan norm stop_at_nul f (S i) a e
               else Found i
           | _, _ => OutOfBounds i
           end
  end.
Definition scan_fuel (a e : list N) : nat := S (S (length a + length e)).
Definition idn (c : N) : N := c.
(* BinaryEqualFailure: for (i = 0; [i < size &&] a[i] == e[i]; i++) ;  over buffers of exactly `size` bytes *)
Fixpoint scan_bin (bounded : bool) (fuel i size : nat) (a e : list N) : scan_res :=
  match fuel with
  | O => OutOfFuel
  | S f => if bounded && (size <=? i)%nat then Found i else
           match nth_error a i, nth_error e i with
           | Some x, Some y => if x =? y then scan_bin bounded f (S i) size a e else Found i
           | _, _ => OutOfBounds i
           end
  end.

(* decimal text *)
Fixpoint dec_f (fuel : nat) (n : N) (acc : list N) : list N :=
  match fuel with
  | O => acc
  | S f => let acc' := (48 + n mod 10) :: acc in if n <? 10 then acc' else dec_f f (n / 10) acc'
  end.
Definition dec (n : N) : list N := dec_f (S (N.to_nat (N.log2 n))) n [].
Definition dec_z (z : Z) : list N := if (z <? 0)%Z then 45 :: dec (Z.to_N (- z)) else dec (Z.to_N z).

Definition str (s : list N) := s.
Definition s_expected := [101;120;112;101;99;116;101;100;32;60].                    (* "expected <" *)
Definition s_butwas := [62;10;9;98;117;116;32;119;97;115;32;32;60].                (* ">\n\tbut was  <" *)
Definition s_message := [77;101;115;115;97;103;101;58;32].                          (* "Message: " *)
Definition s_longs_equal := [76;79;78;71;83;95;69;81;85;65;76].                     (* "LONGS_EQUAL" *)
Definition s_diff := [100;105;102;102;101;114;101;110;99;101;32;115;116;97;114;116;115;32;97;116;32;112;111;115;105;116;105;111;110;32].
                                                                                    (* "difference starts at position " *)
Definition s_at := [32;97;116;58;32;60].                                            (* " at: <" *)
Definition s_null := [40;110;117;108;108;41].                                       (* "(null)" *)
Definition lt : N := 60.
Definition gt : N := 62.
Definition spaces (n : nat) : list N := repeat 32 n.

Definition user_text (t : list N) : list N :=
  match t with
  | [] => []
  | _ => (if is_prefix s_longs_equal t then [] else s_message) ++ t ++ [10; 9]
  end.
Definition but_was (e a : list N) : list N := s_expected ++ e ++ s_butwas ++ a ++ [gt].
(* SimpleString::subString(begin, amount) of a string of length > 0 *)
Definition sub_string (s : list N) (b n : nat) : list N :=
  if (length s - 1 <? b)%nat then [] else firstn n (skipn b s).
Definition half_window : nat := N.to_nat (diff_window / 2).
Definition diff_at (actual : list N) (offset pos : nat) : list N :=
  let padded := spaces half_window ++ actual ++ spaces half_window in
  let ds := s_diff ++ dec (N.of_nat pos) ++ s_at in
  [10] ++ [9] ++ ds ++ sub_string padded offset (N.to_nat diff_window) ++ [gt; 10]
  ++ [9] ++ spaces (length ds + half_window) ++ [94].

Definition or_null (s : option (list N)) : list N := match s with Some x => x | None => s_null end.
Definition printable_or_null (s : option (list N)) : list N := match s with Some x => printable x | None => s_null end.
Fixpoint hex_join (s : list N) : list N :=                                           (* StringFromBinary: "%02X " joined, last blank cut *)
  match s with
  | [] => []
  | [c] => [hexd (c / 16); hexd (c mod 16)]
  | c :: r => hexd (c / 16) :: hexd (c mod 16) :: 32 :: hex_join r
  end.
Definition pad_left (s : list N) (n : nat) : list N := spaces (n - length s) ++ s.

Inductive fkind := KCheckEqual | KStringEqual | KNoCase | KEquals | KContains.
Inductive fscn :=
| FStr (k : fkind) (e a : option (list N)) (text : list N)       (* string operands; None = NULL (not for KCheckEqual/KContains) *)
| FBin (e a : option (list N)) (size : nat) (text : list N)
| FNum (e a : Z) (text : list N)                                 (* the integer failure classes: decimal text of both values *)
| FOther (text : list N).                                        (* classes without operands in the property's sense: crash-free only *)
Inductive fobs := FMsg (pos : option N) (msg : list N) | FBad.

Definition with_scans (norm : N -> N) (stop : bool) (e a : list N) (k : nat -> nat -> fobs) : fobs :=
  match scan norm stop (scan_fuel a e) 0 a e with
  | Found p =>
      match scan norm stop (scan_fuel (printable a) (printable e)) 0 (printable a) (printable e) with
      | Found pp => k p pp
      | _ => FBad
      end
  | _ => FBad
  end.

Definition run_fail_gen (stop : bool) (s : fscn) : fobs :=
  match s with
  | FStr KCheckEqual (Some e) (Some a) t =>
      with_scans idn stop e a (fun p pp =>
        FMsg (Some (N.of_nat p)) (user_text t ++ but_was (printable e) (printable a) ++ diff_at (printable a) pp p))
  | FStr KStringEqual (Some e) (Some a) t =>
      with_scans idn stop e a (fun p pp =>
        FMsg (Some (N.of_nat p)) (user_text t ++ but_was (printable e) (printable a) ++ diff_at (printable a) pp p))
  | FStr KNoCase (Some e) (Some a) t =>
      with_scans to_lower stop e a (fun p pp =>
        FMsg (Some (N.of_nat p)) (user_text t ++ but_was (printable e) (printable a) ++ diff_at (printable a) pp p))
  | FStr KEquals e a t => FMsg None (user_text t ++ but_was (or_null e) (or_null a))
  | FStr KContains e a t =>          (* "actual <%s>\n\tdid not contain  <%s>" *)
      FMsg None (user_text t ++ [97;99;116;117;97;108;32;60] ++ or_null a
                 ++ [62;10;9;100;105;100;32;110;111;116;32;99;111;110;116;97;105;110;32;32;60] ++ or_null e ++ [gt])
  | FStr _ e a t => FMsg None (user_text t ++ but_was (printable_or_null e) (printable_or_null a))
  | FBin (Some e) (Some a) size t =>
      match scan_bin stop (S (S size)) 0 size a e with
      | Found p => FMsg (Some (N.of_nat p)) (user_text t ++ but_was (hex_join e) (hex_join a) ++ diff_at (hex_join a) (p * 3 + 1) p)
      | _ => FBad
      end
  | FBin e a _ t => FMsg None (user_text t ++ but_was (match e with Some x => hex_join x | None => s_null end)
                                                      (match a with Some x => hex_join x | None => s_null end))
  | FNum e a t =>
      let de := dec_z e in let da := dec_z a in
      let n := Nat.max (length de) (length da) in
      FMsg None (user_text t ++ but_was (pad_left de n) (pad_left da n))
  | FOther t => FMsg None (user_text t)
  end.
Definition run_fail := run_fail_gen true.
Definition run_fail_old := run_fail_gen false.

(* ---- spec (b) ---- *)
Definition byte_ok (c : N) : bool := (0 <? c) && (c <? 256).
Definition str_ok (s : option (list N)) : bool := match s with Some x => forallb byte_ok x | None => true end.
Definition is_some {A} (o : option A) : bool := match o with Some _ => true | None => false end.
Definition valid_fail (s : fscn) : bool :=
  match s with
  | FStr k e a t => str_ok e && str_ok a && forallb byte_ok t
                    && (match k with KCheckEqual | KContains => is_some e && is_some a | _ => true end)
  | FBin e a size t =>
      (match e with Some x => (length x =? size)%nat && forallb (fun c => c <? 256) x | None => true end)
      && (match a with Some x => (length x =? size)%nat && forallb (fun c => c <? 256) x | None => true end)
      && forallb byte_ok t
  | FNum _ _ t | FOther t => forallb byte_ok t
  end.
(* textbook: number of leading positions at which two strings agree = first index at which they differ *)
Fixpoint first_diff (a e : list N) : nat :=
  match a, e with
  | x :: a', y :: e' => if x =? y then S (first_diff a' e') else O
  | _, _ => O
  end.
Definition shows (msg rendered : list N) : bool := contains msg (lt :: rendered ++ [gt]).
Definition pos_is (pos : option N) (p : nat) : bool := match pos with Some q => q =? N.of_nat p | None => false end.
Definition spec_fail (s : fscn) (o : fobs) : bool :=
  match o with
  | FBad => false
  | FMsg pos msg =>
      match s with
      | FStr KEquals e a _ | FStr KContains e a _ => shows msg (or_null e) && shows msg (or_null a)
      | FStr k e a _ =>
          shows msg (printable_or_null e) && shows msg (printable_or_null a)      (* both operands, escaped *)
          && match e, a with
             | Some e', Some a' =>
                 let (e'', a'') := match k with KNoCase => (lower e', lower a') | _ => (e', a') end in
                 if bytes_eqb e'' a'' then true else pos_is pos (first_diff a'' e'')
             | _, _ => true
             end
      | FBin e a _ _ =>
          shows msg (match e with Some x => hex_join x | None => s_null end)
          && shows msg (match a with Some x => hex_join x | None => s_null end)
          && match e, a with
             | Some e', Some a' => if bytes_eqb e' a' then true else pos_is pos (first_diff a' e')
             | _, _ => true
             end
      | FNum e a _ => contains msg (dec_z e) && contains msg (dec_z a)
      | FOther _ => true
      end
  end.

(* ------------------------------------------------------------------ scenario = one of the two families *)
Inductive scenario := SBuf (plen : N) (ops : list op) | SFail (f : fscn).
Inductive obs := OBuf (l : list oobs) | OFail (o : fobs).
Definition valid (s : scenario) : bool := match s with SBuf _ ops => valid_buf ops | SFail f => valid_fail f end.
Definition run (s : scenario) : obs := match s with SBuf p ops => OBuf (run_buf p ops) | SFail f => OFail (run_fail f) end.
Definition run_old (s : scenario) : obs := match s with SBuf p ops => OBuf (run_buf_old p ops) | SFail f => OFail (run_fail_old f) end.
Definition spec (s : scenario) (o : obs) : bool :=
  match s, o with
  | SBuf _ ops, OBuf l => spec_buf ops l
  | SFail f, OFail fo => spec_fail f fo
  | _, _ => false
  end.
