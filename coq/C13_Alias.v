(* C13 -- ALIASING between an operation's argument and the object's own buffer (harness: `:als`): ONE object s through a history of
   statements whose argument is a pointer into s's own buffer (s = s.asCharString() + k, s += s.asCharString() + k, s += s, s = s,
   SimpleString t(s.asCharString() + k); s = t, s.replace(s.asCharString() + k1, s.asCharString() + k2)) and of observers reading s
   against itself (==, contains, startsWith, endsWith, count with a pointer into itself / with itself; StrStr and StrCmp with both
   arguments inside the one buffer).
   The value model of C13_Model.v cannot say "this pointer points into a RELEASED buffer": a `const char*` there is a list of cells.
   Here buffers live in a HEAP of blocks; a released block is gone (the recording allocator of the harness really frees it, under ASan),
   a pointer is (block, offset) and is turned into the cells it can reach (`view`) at the moment the code READS through it -- so the
   ORDER of "read the argument" and "release the old buffer" is part of the model.  The primitives (StrLen, StrStr, StrCmp, newFrom,
   append_m, replaceStr_m, ...) are those of C13_Model.v, unchanged.  No proofs in this file. *)
From Coq Require Import NArith ZArith Bool List.
From CppUVerif Require Import lib.Str C13_Text C13_Alloc C13_Model C13_Pool C13_Life.
Import ListNotations.
Local Open Scope N_scope.

(* ---------------------------------------------------------------- the heap of the string allocator *)
Record heap := { h_next : nat; h_get : nat -> option (list N) }.       (* None: never handed out, or RELEASED *)
Definition h0 : heap := {| h_next := 0; h_get := fun _ => None |}.
(* allocStringBuffer + filling it: the new block has the number h_next h *)
Definition halloc (h : heap) (c : list N) : heap :=
  {| h_next := S (h_next h); h_get := fun b => if Nat.eqb b (h_next h) then Some c else h_get h b |}.
Definition release (h : heap) (b : nat) : heap :=
  {| h_next := h_next h; h_get := fun b' => if Nat.eqb b' b then None else h_get h b' |}.
(* the cells a `const char*` = (buffer of block b) + k can reach, NOW *)
Definition view (h : heap) (b k : nat) : res (list N) := match h_get h b with Some c => adv k c | None => Oob end.

(* ---------------------------------------------------------------- the statements *)
Inductive aop :=
| AAsgP (k : nat)            (* s = s.asCharString() + k *)
| AAsgS                      (* s = s *)
| ACtor (k : nat)            (* SimpleString t(s.asCharString() + k); s = t; *)
| AAppP (k : nat)            (* s += s.asCharString() + k *)
| AAppS                      (* s += s *)
| ARepl (k1 k2 : nat)        (* s.replace(s.asCharString() + k1, s.asCharString() + k2) *)
| ACmpP (k : nat)            (* observer: p = s.asCharString() + k; s == p, s.contains(p), s.startsWith(p), s.endsWith(p), s.count(p) *)
| ACmpS                      (* observer: s == s, s.contains(s), s.startsWith(s), s.endsWith(s), s.count(s) *)
| AStrStr (k1 k2 : nat)      (* observer: SimpleString::StrStr(p + k1, p + k2) - (p + k1), npos for NULL *)
| AStrCmp (k1 k2 : nat).     (* observer: sign of SimpleString::StrCmp(p + k1, p + k2) *)

(* SimpleString::SimpleString(const char* other) with other = (block b) + k: StrLen and the copy read block b as it is now *)
Definition ctor_from (h : heap) (b k : nat) : res (heap * nat) :=
  do src <- view h b k; do c <- newFrom src; Ok (halloc h c, h_next h).
(* operator=(const SimpleString& other), this != &other: copyBufferToNewInternalBuffer(other) = deallocateInternalBuffer(), THEN
   copyToNewBuffer(other.buffer_, other.size() + 1) *)
Definition assign_obj (h : heap) (sid oid : nat) : res (heap * nat) :=
  let h1 := release h sid in do src <- view h1 oid 0; do c <- newFrom src; Ok (halloc h1 c, h_next h1).
(* s = <const char*>: there is no operator=(const char* ): a temporary SimpleString is built from the pointer FIRST (own buffer
   still alive), assigned (old buffer released, temporary's buffer copied) and destroyed *)
Definition assign_cstr (h : heap) (sid k : nat) : res (heap * nat) :=
  do p <- ctor_from h sid k; do q <- assign_obj (fst p) sid (snd p); Ok (release (fst q) (snd p), snd q).
(* operator+=(const char* rhs): both lengths and both copies are read, then setInternalBufferTo releases the old buffer *)
Definition append_ptr (h : heap) (sid k : nat) : res (heap * nat) :=
  do a <- view h sid 0; do r <- view h sid k; do c <- append_m a r; Ok (release (halloc h c) sid, h_next h).
(* replace(const char* to, const char* with): counts and copies out of the live buffer, then hands the new buffer over (when nothing
   matches the object keeps its buffer: modelled as a block with the same cells) *)
Definition replace_ptr (h : heap) (sid k1 k2 : nat) : res (heap * nat) :=
  do a <- view h sid 0; do t <- view h sid k1; do w <- view h sid k2; do c <- replaceStr_m a t w;
  Ok (release (halloc h c) sid, h_next h).

Definition astep (st : heap * nat) (q : aop) : res (heap * nat) :=
  let (h, sid) := st in
  match q with
  | AAsgP k | ACtor k => assign_cstr h sid k
  | AAsgS => Ok st                                          (* this == &other: nothing *)
  | AAppP k => append_ptr h sid k
  | AAppS => append_ptr h sid 0                             (* operator+=(rhs.getBuffer()) *)
  | ARepl k1 k2 => replace_ptr h sid k1 k2
  | ACmpP _ | ACmpS | AStrStr _ _ | AStrCmp _ _ => Ok st
  end.
Definition cmp_entry (x y : list N) : res (list (list N)) :=
  do e <- equal_m x y; do c <- contains_m x y; do s <- startsWith_m x y; do w <- endsWith_m x y; do k <- count_m x y;
  Ok [[b01 e; b01 c; b01 s; b01 w] ++ le8 (N.of_nat k)].
Definition sgn_byte (d : Z) : N := Z.to_N (Z.sgn d + 1).
Definition aobs (st : heap * nat) (q : aop) : res (list (list N)) :=
  let (h, sid) := st in
  match q with
  | ACmpP k => do p <- ctor_from h sid k;                   (* the implicit temporary SimpleString(p) *)
               do x <- view (fst p) sid 0; do y <- view (fst p) (snd p) 0; cmp_entry x y
  | ACmpS => do x <- view h sid 0; cmp_entry x x
  | AStrStr k1 k2 => do p <- view h sid k1; do q <- view h sid k2; do r <- StrStr p q;
                     Ok [le8 (match r with Some o => N.of_nat o | None => NPOS end)]
  | AStrCmp k1 k2 => do p <- view h sid k1; do q <- view h sid k2; do d <- StrCmp p q; Ok [[sgn_byte d]]
  | _ => Ok []
  end.
Fixpoint arun (st : heap * nat) (ops : list aop) : res ((heap * nat) * list (list N)) :=
  match ops with
  | [] => Ok (st, [])
  | q :: r => do e <- aobs st q; do st' <- astep st q; do p <- arun st' r; Ok (fst p, e ++ snd p)
  end.
(* SimpleString s(a): the argument lives in a block of its own *)
Definition ainit (a : list N) : res (heap * nat) :=
  let h := halloc h0 (cs a) in do p <- ctor_from h 0 0; Ok (release (fst p) 0, snd p).
Definition valias (a : list N) (ops : list aop) : oval :=
  match (do st <- ainit a; do p <- arun st ops; do x <- view (fst (fst p)) (snd (fst p)) 0; Ok (x, snd p)) with
  | Ok (x, lg) => match cstr_of x with Some s => VL (s :: lg) | None => VErr end
  | _ => VErr
  end.

(* the variant a direct overload operator=(const char* ) { copyBufferToNewInternalBuffer(other); } amounts to: the old buffer is
   released BEFORE the argument is read *)
Definition assign_cstr_direct (h : heap) (sid ob k : nat) : res (heap * nat) :=
  let h1 := release h sid in do src <- view h1 ob k; do c <- newFrom src; Ok (halloc h1 c, h_next h1).

(* ---------------------------------------------------------------- textbook meaning (nothing of the model above): p + k is the suffix from k *)
Definition t_astep (s : list N) (q : aop) : list N :=
  match q with
  | AAsgP k | ACtor k => skipn k s
  | AAsgS => s
  | AAppP k => s ++ skipn k s
  | AAppS => s ++ s
  | ARepl k1 k2 => t_replace s (skipn k1 s) (skipn k2 s)
  | _ => s
  end.
Definition t_cmp_entry (x y : list N) : list (list N) :=
  [[b01 (bytes_eqb x y); b01 (contains x y); b01 (is_prefix y x); b01 (t_ends_with x y)] ++ le8 (N.of_nat (t_count x y))].
Definition t_aobs (s : list N) (q : aop) : list (list N) :=
  match q with
  | ACmpP k => t_cmp_entry s (skipn k s)
  | ACmpS => t_cmp_entry s s
  | AStrStr k1 k2 => [le8 (match find_sub (skipn k1 s) (skipn k2 s) with Some o => N.of_nat o | None => NPOS end)]
  | AStrCmp k1 k2 => [[sgn_byte (cmp_z (str_cmp (skipn k1 s) (skipn k2 s)))]]
  | _ => []
  end.
Fixpoint t_arun (s : list N) (ops : list aop) : list (list N) :=
  match ops with [] => [s] | q :: r => let l := t_arun (t_astep s q) r in hd [] l :: t_aobs s q ++ tl l end.

(* a pointer into the buffer: offsets 0 .. length (the terminator included) *)
Definition valid_aop (s : list N) (q : aop) : bool :=
  let inb k := Nat.leb k (length s) in
  match q with
  | AAsgP k | ACtor k | AAppP k | ACmpP k => inb k
  | ARepl k1 k2 | AStrStr k1 k2 | AStrCmp k1 k2 => inb k1 && inb k2
  | AAsgS | AAppS | ACmpS => true
  end.
Fixpoint valid_aops (s : list N) (ops : list aop) : bool :=
  match ops with [] => true | q :: r => valid_aop s q && valid_aops (t_astep s q) r end.

(* ---------------------------------------------------------------- the scenario language of the check, extended *)
Inductive xscn := XOld (s : scn) | XAlias (a : list N) (ops : list aop).
Definition run_x (x : xscn) : obs :=
  match x with XOld s => run_scn s | XAlias a ops => {| o_val := valias a ops; o_ref := true; o_paired := true |} end.
Definition valid_x (x : xscn) : bool :=
  match x with XOld s => valid_scn s | XAlias a ops => nonul a && valid_aops a ops end.
Definition expected_x (x : xscn) : oval :=
  match x with XOld s => expected_scn s | XAlias a ops => VL (t_arun a ops) end.
Definition spec_x (x : xscn) (ob : obs) : bool :=
  match x with XOld s => spec_scn s ob | XAlias a ops => oval_eqb (o_val ob) (expected_x x) && o_ref ob && o_paired ob end.
