From Coq Require Import ExtrOcamlBasic ZArith.
From CppUVerif Require Import C05_Model.
Extraction "c05_model.ml" C05_Model.run C05_Model.run_v C05_Model.spec C05_Model.valid C05_Model.old_D2 BinInt.Z.of_N.
