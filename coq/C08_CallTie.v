(* C08: the MATCHING STEPS OF AN ACTUAL CALL, MockCheckedActualCall (src/CppUTestExt/MockActualCall.cpp), as TRANSLATED from /repo on
   every run (the src_acall_* definitions of gen/Gen_HeapC08L.v), against the hand-written model of property C08 (C08_Model.v:
   complete, discard, with_name, check_input, check_output, on_object, check_call).

   Representation (arep / acall_at): the call object is the 9-cell block cb
     [functionName_; callOrder_; reporter_; state_; expectationsChecked_; matchingExpectation_; head_ of the candidate list;
      allExpectations_; outputParameterExpectations_]
   state_ = 0 / 1 / 2 for InProgress / Failed / Succeeded (the enum values the generated code compares with), matchingExpectation_ =
   idof j for THE position j with e_cur, 0 (NULL) when there is none (more than one: not representable -- the model's operations
   keep "at most one" when they start from "none" where the source overwrites the pointer, see complete_two_cur); the candidate list
   embedded at cell 6 represents the e_pot sub-list of the master list (gcand_rep of C08_CallRep.v, k = 6).  functionName_ is an
   opaque text id (what it has to do with the model's c_name is in the oracle's answers to relatesTo, as in C08_ListTie.v);
   reporter_, allExpectations_, outputParameterExpectations_ are not interpreted (c_outs of the model is not represented: what
   copyOutputParameters does is the event LCopyOutputs e).

   The oracle stream of every theorem is EXACTLY the list of answers the model's expectations give to the questions the step asks,
   each at the moment it is asked (complete_answers, discard_answers, with_name_answers, ck_answers, oo_answers, ce_answers below:
   model_answers / search_answers of C08_ListTie.v / C08_CallRep.v composed along the step, on the master list as the model has
   updated it by then -- reset_e / mark / mark_out / pass_obj / set_fin / call_was_made), followed by an arbitrary rest that is handed
   back untouched.  Every theorem also gives the exact events recorded (X_events), the nodes the candidate list is left with (X_nodes),
   and the frame (cframe: every block but the call object and the old nodes is unchanged, the heap keeps its length).

   Contents: 1 setState / setName / isFulfilled / hasFailed / failTest / callHasSucceeded (.._eq);  2 completeCallWhenMatchIsFound_tie;
   3 discardCurrentlyMatchingExpectations_tie;  4 fail_class, fails;  5 withName_tie;  6 checkInputParameter_tie / _failed,
   checkOutputParameter_tie / _failed (one proof for the common shape Gcheck);  7 onObject_tie / _failed;  8 checkExpectations_tie;
   9 call_inv, inv_*, cannot_happen_unreachable, no_abort, abort_iff_cannot_happen;  10 reports_at_most_once, failTest_once;
   11 examples.
   Hypotheses beyond the representation, and why: `existsb e_cur es = false` for complete / withName (the source overwrites
   matchingExpectation_, the model's take_first only adds an e_cur: complete_two_cur), and for checkExpectations in state InProgress
   (same reason; call_inv provides it); `c_state c <> Failed` for the parameter / object steps (the failed case is the separate
   _failed lemma: the member returns at once); fuel > number of candidates. *)
From Coq Require Import String.
From Coq Require Import ZArith NArith Bool List Lia.
From CppUVerif Require Import lib.CSem lib.CMem lib.CMemFacts lib.CHeap gen.Gen_HeapC08L C08_Model C08_ListRep C08_ListTie C08_CallRep.
Import ListNotations.
Local Open Scope Z_scope.

(* ================================================================== 0. representation of the call object *)
Lemma acall_layout_is_the_source :
  off_MockCheckedActualCall_functionName_ = 0 /\ off_MockCheckedActualCall_callOrder_ = 1 /\ off_MockCheckedActualCall_reporter_ = 2 /\
  off_MockCheckedActualCall_state_ = 3 /\ off_MockCheckedActualCall_expectationsChecked_ = 4 /\
  off_MockCheckedActualCall_matchingExpectation_ = 5 /\ off_MockCheckedActualCall_potentiallyMatchingExpectations_ = 6 /\
  off_MockCheckedActualCall_allExpectations_ = 7 /\ off_MockCheckedActualCall_outputParameterExpectations_ = 8 /\
  cells_MockCheckedActualCall = 9.
Proof. repeat split; reflexivity. Qed.

(* enum ActualCallState { CALL_IN_PROGRESS, CALL_FAILED, CALL_SUCCEED } *)
Definition scode (s : cstate) : Z := match s with InProgress => 0 | Failed => 1 | Succeeded => 2 end.

Record cblk := { b_nm : Z; b_ord : Z; b_rep : Z; b_st : cstate; b_chk : bool; b_cur : Z; b_all : val; b_outs : Z }.
Definition cells (b : cblk) (hd : hptr) : list val :=
  [VInt (b_nm b); VInt (b_ord b); VInt (b_rep b); VInt (scode (b_st b)); VInt (b2z (b_chk b)); VInt (b_cur b); VPtr hd; b_all b;
   VInt (b_outs b)].
Definition with_nm (b : cblk) (v : Z) : cblk :=
  {| b_nm := v; b_ord := b_ord b; b_rep := b_rep b; b_st := b_st b; b_chk := b_chk b; b_cur := b_cur b; b_all := b_all b; b_outs := b_outs b |}.
Definition with_st (b : cblk) (s : cstate) : cblk :=
  {| b_nm := b_nm b; b_ord := b_ord b; b_rep := b_rep b; b_st := s; b_chk := b_chk b; b_cur := b_cur b; b_all := b_all b; b_outs := b_outs b |}.
Definition with_chk (b : cblk) (v : bool) : cblk :=
  {| b_nm := b_nm b; b_ord := b_ord b; b_rep := b_rep b; b_st := b_st b; b_chk := v; b_cur := b_cur b; b_all := b_all b; b_outs := b_outs b |}.
Definition with_cur (b : cblk) (v : Z) : cblk :=
  {| b_nm := b_nm b; b_ord := b_ord b; b_rep := b_rep b; b_st := b_st b; b_chk := b_chk b; b_cur := v; b_all := b_all b; b_outs := b_outs b |}.

(* matchingExpectation_: the identity of the position with e_cur; NULL when none; two or more are not representable *)
Definition cur_code (idof : nat -> Z) (es : list expn) : option Z :=
  match pos_from e_cur 0 es with [] => Some 0 | [j] => Some (idof j) | _ => None end.

Definition arep (h : heap) (cb : nat) (b : cblk) (es : list expn) (idof : nat -> Z) (nodes : list nat) : Prop :=
  exists hd, hblock h cb = cells b hd /\ gcand_rep h cb 6 es idof nodes /\ cur_code idof es = Some (b_cur b).

(* the cells the model does not interpret *)
Record cenv := { x_rep : Z; x_all : val; x_outs : Z }.
Definition blk_of (nm : Z) (c : acall) (x : cenv) (cur : Z) : cblk :=
  {| b_nm := nm; b_ord := Z.of_N (c_order c); b_rep := x_rep x; b_st := c_state c; b_chk := c_checked c; b_cur := cur;
     b_all := x_all x; b_outs := x_outs x |}.
(* block cb holds the call record c (all but c_outs) over the master list es *)
Definition acall_at (h : heap) (cb : nat) (es : list expn) (idof : nat -> Z) (nodes : list nat) (c : acall) (nm : Z) (x : cenv) : Prop :=
  exists cur, arep h cb (blk_of nm c x cur) es idof nodes.

(* what a step leaves alone: every block but the call object and the nodes the list had; the nodes afterwards are among them *)
Definition cframe (h h' : heap) (cb : nat) (nodes nodes' : list nat) : Prop :=
  length h' = length h /\ (forall b, b <> cb -> ~ In b nodes -> hblock h' b = hblock h b) /\ incl nodes' nodes.
Lemma cframe_refl h cb nodes : cframe h h cb nodes nodes.
Proof. split; [reflexivity|]. split; [intros; reflexivity | apply incl_refl]. Qed.
Lemma cframe_trans h h1 h2 cb n n1 n2 : cframe h h1 cb n n1 -> cframe h1 h2 cb n1 n2 -> cframe h h2 cb n n2.
Proof.
  intros [L1 [F1 I1]] [L2 [F2 I2]]. split; [rewrite L2; exact L1|]. split; [|exact (incl_tran I2 I1)].
  intros b Hne Hn. rewrite F2; [apply F1; assumption | exact Hne|]. intro Hin. apply Hn. apply I1. exact Hin.
Qed.
Lemma gframe_cframe h h' cb nodes nodes' : gframe h h' cb 6 nodes -> incl nodes' nodes -> cframe h h' cb nodes nodes'.
Proof. intros [L [_ F]] I. split; [exact L|]. split; [exact F | exact I]. Qed.
Lemma keep_by_incl {A} (xs : list A) ds : incl (keep_by xs ds) xs.
Proof. intros x Hx. exact (keep_by_in _ _ _ Hx). Qed.

(* ------------------------------------------------------------------ cells of the call object *)
Lemma cells_padd h cb b hd j : hblock h cb = cells b hd -> 0 <= j <= 9 -> hpadd h (HPtr cb 0) j = Some (HPtr cb j).
Proof.
  intros Hb Hj. unfold hpadd. rewrite Hb. cbn [cells length]. rewrite Z.add_0_l.
  replace (0 <=? j) with true by (symmetry; apply Z.leb_le; lia). replace (j <=? Z.of_nat 9) with true by (symmetry; apply Z.leb_le; lia).
  reflexivity.
Qed.
Lemma cells_lt h cb b hd : hblock h cb = cells b hd -> (cb < length h)%nat.
Proof. intro Hb. apply hblock_lt. rewrite Hb. discriminate. Qed.
Lemma cells_store h cb b hd (k : nat) v : hblock h cb = cells b hd -> (k < 9)%nat ->
  hstore h (HPtr cb (Z.of_nat k)) v = Some (upd h cb (upd (cells b hd) k v)).
Proof. intros Hb Hk. exact (hstore_at h cb k v (cells b hd) Hb Hk). Qed.
Lemma cells_ghead h cb b hd : hblock h cb = cells b hd -> ghead h cb 6 hd.
Proof. intro Hb. unfold ghead. rewrite Hb. reflexivity. Qed.

(* a representation only depends on the call block, the nodes and nothing else *)
Lemma gcand_rep_frame h h' lb k es idof nodes : gcand_rep h lb k es idof nodes ->
  nth_error (hblock h' lb) k = nth_error (hblock h lb) k -> (forall b, In b nodes -> hblock h' b = hblock h b) ->
  gcand_rep h' lb k es idof nodes.
Proof.
  intros [[[hd [Hl [Hc [Hnd Hnin]]]] Hnz] Hid] Hk Hf. split; [|exact Hid]. split; [|exact Hnz]. exists hd.
  split; [unfold ghead in *; rewrite Hk; exact Hl|]. split; [exact (mchain_frame h h' _ _ _ Hf Hc)|]. split; assumption.
Qed.
Lemma gcand_rep_not_in h lb k es idof nodes : gcand_rep h lb k es idof nodes -> ~ In lb nodes.
Proof. intros [[[hd [_ [_ [_ Hnin]]]] _] _]. exact Hnin. Qed.

(* rewriting scalar cells of the call block *)
Lemma arep_set h cb b b' es idof nodes hd : hblock h cb = cells b hd -> gcand_rep h cb 6 es idof nodes ->
  let h' := upd h cb (cells b' hd) in
  hblock h' cb = cells b' hd /\ gcand_rep h' cb 6 es idof nodes /\ cframe h h' cb nodes nodes.
Proof.
  intros Hb Hrep h'. pose proof (cells_lt h cb b hd Hb) as Hlt.
  assert (Hb' : hblock h' cb = cells b' hd) by (unfold h'; apply hblock_upd_same; exact Hlt).
  split; [exact Hb'|]. split.
  - apply (gcand_rep_frame h h' cb 6 es idof nodes Hrep); [rewrite Hb', Hb; reflexivity|].
    intros n Hin. unfold h'. apply hblock_upd_other. intro E. subst n. exact (gcand_rep_not_in _ _ _ _ _ _ Hrep Hin).
  - split; [unfold h'; apply heap_upd_length|]. split; [|apply incl_refl].
    intros n Hne _. unfold h'. apply hblock_upd_other. intro E. apply Hne. symmetry. exact E.
Qed.

(* flags that a map over the master list leaves alone keep their positions *)
Lemma pos_from_map (p : expn -> bool) (f : expn -> expn) : (forall e, p (f e) = p e) -> forall es k,
  pos_from p k (map f es) = pos_from p k es.
Proof. intros Hp. induction es as [|e r IH]; intro k; [reflexivity|]. cbn [map pos_from]. rewrite Hp, IH. reflexivity. Qed.
Lemma cur_code_map idof (f : expn -> expn) es : (forall e, e_cur (f e) = e_cur e) -> cur_code idof (map f es) = cur_code idof es.
Proof. intro Hf. unfold cur_code. rewrite (pos_from_map e_cur f Hf). reflexivity. Qed.
Lemma cids_map idof (f : expn -> expn) es : (forall e, e_pot (f e) = e_pot e) -> cids idof (map f es) = cids idof es.
Proof. intro Hf. unfold cids. rewrite (pos_from_map e_pot f Hf). reflexivity. Qed.
Lemma cur_code_keep_if idof pred es : cur_code idof (keep_if pred es) = cur_code idof es.
Proof. apply cur_code_map. intro e. destruct (e_pot e && negb (pred e)); reflexivity. Qed.
Lemma cur_code_for_pot idof f es : (forall e, e_cur (f e) = e_cur e) -> cur_code idof (for_pot f es) = cur_code idof es.
Proof. intro Hf. apply cur_code_map. intro e. destruct (e_pot e); [apply Hf | reflexivity]. Qed.
Lemma cur_code_unmatching idof es : cur_code idof (only_keep_unmatching es) = cur_code idof es.
Proof. apply cur_code_map. intro e. destruct (e_pot e && is_matching_fin e); reflexivity. Qed.
Lemma nocur_code idof es : existsb e_cur es = false -> cur_code idof es = Some 0.
Proof.
  intro E. unfold cur_code. pose proof (pos_from_nil_iff e_cur es 0) as H. rewrite E in H. destruct (pos_from e_cur 0 es); [reflexivity | discriminate H].
Qed.
(* the identity of a position of the master list is not NULL *)
Lemma pos_from_lt p : forall es k j, In j (pos_from p k es) -> (j < k + length es)%nat.
Proof.
  intros es k j Hin. apply pos_from_in in Hin. destruct Hin as [e [L [Hn _]]].
  assert ((j - k < length es)%nat) by (apply nth_error_Some; rewrite Hn; discriminate). lia.
Qed.
Lemma cur_code_zero idof es cur : idof_ok idof (length es) -> cur_code idof es = Some cur -> (cur = 0 <-> existsb e_cur es = false).
Proof.
  intros [Hnz _] Hc. unfold cur_code in Hc. pose proof (pos_from_nil_iff e_cur es 0) as H.
  pose proof (pos_from_lt e_cur es 0) as Hlt. destruct (pos_from e_cur 0 es) as [|j [|j' l]]; [| |discriminate Hc].
  - inversion Hc. split; [intros _|reflexivity]. destruct (existsb e_cur es); [discriminate H | reflexivity].
  - inversion Hc; subst cur. split; [intro E; exfalso; apply (Hnz j); [apply (Hlt j); left; reflexivity | exact E]|].
    intro E. rewrite E in H. discriminate H.
Qed.

(* block and candidate list, without the reading of matchingExpectation_ *)
Definition brep (h : heap) (cb : nat) (b : cblk) (es : list expn) (idof : nat -> Z) (nodes : list nat) : Prop :=
  exists hd, hblock h cb = cells b hd /\ gcand_rep h cb 6 es idof nodes.
Lemma arep_brep h cb b es idof nodes : arep h cb b es idof nodes <-> brep h cb b es idof nodes /\ cur_code idof es = Some (b_cur b).
Proof.
  split.
  - intros [hd [H1 [H2 H3]]]. split; [exists hd; split; assumption | exact H3].
  - intros [[hd [H1 H2]] H3]. exists hd. split; [exact H1 | split; [exact H2 | exact H3]].
Qed.
Lemma brep_idof h cb b es idof nodes : brep h cb b es idof nodes -> idof_ok idof (length es).
Proof. intros [hd [_ [_ H]]]. exact H. Qed.
(* the master list may change where the list and the block do not look *)
Lemma brep_es h cb b es es' idof nodes : brep h cb b es idof nodes -> cids idof es' = cids idof es -> length es' = length es ->
  brep h cb b es' idof nodes.
Proof. intros [hd [Hb [Hg Hid]]] Hc Hl. exists hd. split; [exact Hb|]. split; [rewrite Hc; exact Hg | rewrite Hl; exact Hid]. Qed.

(* ================================================================== 1. the small members *)
Definition is_failed (s : cstate) : bool := match s with Failed => true | _ => false end.
Definition is_succeeded (s : cstate) : bool := match s with Succeeded => true | _ => false end.

Lemma cells_storeZ h cb b hd j v : hblock h cb = cells b hd -> 0 <= j < 9 ->
  hstore h (HPtr cb j) v = Some (upd h cb (upd (cells b hd) (Z.to_nat j) v)).
Proof. intros Hb Hj. rewrite <- (Z2Nat.id j) at 1 by lia. apply (cells_store h cb b hd (Z.to_nat j) v Hb). lia. Qed.
Lemma load_ord h cb b hd : hblock h cb = cells b hd -> hload_int h (HPtr cb 1) = Some (b_ord b).
Proof. intro Hb. unfold hload_int, hload. rewrite Hb. reflexivity. Qed.
Lemma load_st h cb b hd : hblock h cb = cells b hd -> hload_int h (HPtr cb 3) = Some (scode (b_st b)).
Proof. intro Hb. unfold hload_int, hload. rewrite Hb. reflexivity. Qed.
Lemma load_chk h cb b hd : hblock h cb = cells b hd -> hload_int h (HPtr cb 4) = Some (b2z (b_chk b)).
Proof. intro Hb. unfold hload_int, hload. rewrite Hb. reflexivity. Qed.
Lemma load_cur h cb b hd : hblock h cb = cells b hd -> hload_int h (HPtr cb 5) = Some (b_cur b).
Proof. intro Hb. unfold hload_int, hload. rewrite Hb. reflexivity. Qed.

Lemma setState_eq fuel h cb b hd evs ans s v : v = scode s -> hblock h cb = cells b hd ->
  src_acall_setState fuel h evs ans (HPtr cb 0) v = FOk (tt, upd h cb (cells (with_st b s) hd), evs, ans).
Proof.
  intros -> Hb. unfold src_acall_setState. rewrite (cells_padd h cb b hd 3 Hb) by lia.
  rewrite (cells_storeZ h cb b hd 3 (VInt (scode s)) Hb) by lia. reflexivity.
Qed.
Lemma setName_eq fuel h cb b hd evs ans nm : hblock h cb = cells b hd ->
  src_acall_setName fuel h evs ans (HPtr cb 0) nm = FOk (tt, upd h cb (cells (with_nm b nm) hd), evs, ans).
Proof. intro Hb. unfold src_acall_setName. rewrite (cells_storeZ h cb b hd 0 (VInt nm) Hb) by lia. reflexivity. Qed.
Lemma hasFailed_eq fuel h cb b hd evs ans : hblock h cb = cells b hd ->
  src_acall_hasFailed fuel h evs ans (HPtr cb 0) = FOk (b2z (is_failed (b_st b)), h, evs, ans).
Proof.
  intro Hb. unfold src_acall_hasFailed. rewrite (cells_padd h cb b hd 3 Hb) by lia. rewrite (load_st h cb b hd Hb).
  destruct (b_st b); reflexivity.
Qed.
Lemma isFulfilled_eq fuel h cb b hd evs ans : hblock h cb = cells b hd ->
  src_acall_isFulfilled fuel h evs ans (HPtr cb 0) = FOk (b2z (is_succeeded (b_st b)), h, evs, ans).
Proof.
  intro Hb. unfold src_acall_isFulfilled. rewrite (cells_padd h cb b hd 3 Hb) by lia. rewrite (load_st h cb b hd Hb).
  destruct (b_st b); reflexivity.
Qed.
(* failTest: the report goes out, and the state becomes Failed, only when the call has not failed yet *)
Lemma failTest_eq fuel h cb b hd evs ans : hblock h cb = cells b hd ->
  src_acall_failTest fuel h evs ans (HPtr cb 0) =
  if is_failed (b_st b) then FOk (tt, h, evs, ans)
  else FOk (tt, upd h cb (cells (with_st b Failed) hd), evs ++ [LReport], ans).
Proof.
  intro Hb. unfold src_acall_failTest. rewrite (hasFailed_eq fuel h cb b hd evs ans Hb). cbv beta iota. rewrite z2b_lnot, b2z_z2b.
  destruct (is_failed (b_st b)); cbn [negb]; [reflexivity|].
  rewrite (setState_eq fuel h cb b hd evs ans Failed 1 eq_refl Hb). reflexivity.
Qed.
Lemma callHasSucceeded_eq fuel h cb b hd evs ans : hblock h cb = cells b hd ->
  src_acall_callHasSucceeded fuel h evs ans (HPtr cb 0) = FOk (tt, upd h cb (cells (with_st b Succeeded) hd), evs, ans).
Proof. intro Hb. unfold src_acall_callHasSucceeded. rewrite (setState_eq fuel h cb b hd evs ans Succeeded 2 eq_refl Hb). reflexivity. Qed.

(* the same on a represented call *)
Lemma brep_set h cb b b' es idof nodes hd : hblock h cb = cells b hd -> gcand_rep h cb 6 es idof nodes ->
  brep (upd h cb (cells b' hd)) cb b' es idof nodes /\ cframe h (upd h cb (cells b' hd)) cb nodes nodes.
Proof.
  intros Hb Hg. destruct (arep_set h cb b b' es idof nodes hd Hb Hg) as [H1 [H2 H3]]. split; [exists hd; split; assumption | exact H3].
Qed.
Lemma B_setState fuel h cb b es idof nodes evs ans s v : v = scode s -> brep h cb b es idof nodes ->
  exists h', src_acall_setState fuel h evs ans (HPtr cb 0) v = FOk (tt, h', evs, ans) /\
             brep h' cb (with_st b s) es idof nodes /\ cframe h h' cb nodes nodes.
Proof.
  intros Hv [hd [Hb Hg]]. exists (upd h cb (cells (with_st b s) hd)). split; [exact (setState_eq fuel h cb b hd evs ans s v Hv Hb)|].
  exact (brep_set h cb b _ es idof nodes hd Hb Hg).
Qed.
Lemma B_setName fuel h cb b es idof nodes evs ans nm : brep h cb b es idof nodes ->
  exists h', src_acall_setName fuel h evs ans (HPtr cb 0) nm = FOk (tt, h', evs, ans) /\
             brep h' cb (with_nm b nm) es idof nodes /\ cframe h h' cb nodes nodes.
Proof.
  intros [hd [Hb Hg]]. exists (upd h cb (cells (with_nm b nm) hd)). split; [exact (setName_eq fuel h cb b hd evs ans nm Hb)|].
  exact (brep_set h cb b _ es idof nodes hd Hb Hg).
Qed.
Lemma B_hasFailed fuel h cb b es idof nodes evs ans : brep h cb b es idof nodes ->
  src_acall_hasFailed fuel h evs ans (HPtr cb 0) = FOk (b2z (is_failed (b_st b)), h, evs, ans).
Proof. intros [hd [Hb _]]. exact (hasFailed_eq fuel h cb b hd evs ans Hb). Qed.
Lemma B_failTest fuel h cb b es idof nodes evs ans : brep h cb b es idof nodes ->
  exists h', src_acall_failTest fuel h evs ans (HPtr cb 0) =
               FOk (tt, h', evs ++ (if is_failed (b_st b) then [] else [LReport]), ans) /\
             brep h' cb (with_st b Failed) es idof nodes /\ cframe h h' cb nodes nodes.
Proof.
  intros [hd [Hb Hg]]. rewrite (failTest_eq fuel h cb b hd evs ans Hb). destruct (b_st b) eqn:Es; cbn [is_failed].
  - exists (upd h cb (cells (with_st b Failed) hd)). split; [reflexivity|]. exact (brep_set h cb b _ es idof nodes hd Hb Hg).
  - exists (upd h cb (cells (with_st b Failed) hd)). split; [reflexivity|]. exact (brep_set h cb b _ es idof nodes hd Hb Hg).
  - exists h. rewrite app_nil_r. split; [reflexivity|]. split; [|apply cframe_refl]. exists hd. split; [|exact Hg].
    rewrite Hb. unfold cells, with_st. cbn. rewrite Es. reflexivity.
Qed.
Lemma B_callHasSucceeded fuel h cb b es idof nodes evs ans : brep h cb b es idof nodes ->
  exists h', src_acall_callHasSucceeded fuel h evs ans (HPtr cb 0) = FOk (tt, h', evs, ans) /\
             brep h' cb (with_st b Succeeded) es idof nodes /\ cframe h h' cb nodes nodes.
Proof.
  intros [hd [Hb Hg]]. exists (upd h cb (cells (with_st b Succeeded) hd)). split; [exact (callHasSucceeded_eq fuel h cb b hd evs ans Hb)|].
  exact (brep_set h cb b _ es idof nodes hd Hb Hg).
Qed.
(* the scalar cells read and written directly *)
Lemma B_padd h cb b es idof nodes j : brep h cb b es idof nodes -> 0 <= j <= 9 -> hpadd h (HPtr cb 0) j = Some (HPtr cb j).
Proof. intros [hd [Hb _]] Hj. exact (cells_padd h cb b hd j Hb Hj). Qed.
Lemma B_load_cur h cb b es idof nodes : brep h cb b es idof nodes -> hload_int h (HPtr cb 5) = Some (b_cur b).
Proof. intros [hd [Hb _]]. exact (load_cur h cb b hd Hb). Qed.
Lemma B_load_ord h cb b es idof nodes : brep h cb b es idof nodes -> hload_int h (HPtr cb 1) = Some (b_ord b).
Proof. intros [hd [Hb _]]. exact (load_ord h cb b hd Hb). Qed.
Lemma B_load_st h cb b es idof nodes : brep h cb b es idof nodes -> hload_int h (HPtr cb 3) = Some (scode (b_st b)).
Proof. intros [hd [Hb _]]. exact (load_st h cb b hd Hb). Qed.
Lemma B_load_chk h cb b es idof nodes : brep h cb b es idof nodes -> hload_int h (HPtr cb 4) = Some (b2z (b_chk b)).
Proof. intros [hd [Hb _]]. exact (load_chk h cb b hd Hb). Qed.
Lemma B_store_cur h cb b es idof nodes v : brep h cb b es idof nodes ->
  exists h', hstore h (HPtr cb 5) (VInt v) = Some h' /\ brep h' cb (with_cur b v) es idof nodes /\ cframe h h' cb nodes nodes.
Proof.
  intros [hd [Hb Hg]]. exists (upd h cb (cells (with_cur b v) hd)). split; [exact (cells_storeZ h cb b hd 5 (VInt v) Hb ltac:(lia))|].
  exact (brep_set h cb b _ es idof nodes hd Hb Hg).
Qed.
Lemma B_store_chk h cb b es idof nodes : brep h cb b es idof nodes ->
  exists h', hstore h (HPtr cb 4) (VInt 1) = Some h' /\ brep h' cb (with_chk b true) es idof nodes /\ cframe h h' cb nodes nodes.
Proof.
  intros [hd [Hb Hg]]. exists (upd h cb (cells (with_chk b true) hd)). split; [exact (cells_storeZ h cb b hd 4 (VInt 1) Hb ltac:(lia))|].
  exact (brep_set h cb b _ es idof nodes hd Hb Hg).
Qed.

(* ------------------------------------------------------------------ the candidate list of a represented call *)
Lemma brep_after_list h h' cb b es es' idof nodes nodes' : brep h cb b es idof nodes -> gframe h h' cb 6 nodes ->
  gcand_rep h' cb 6 es' idof nodes' -> incl nodes' nodes -> brep h' cb b es' idof nodes' /\ cframe h h' cb nodes nodes'.
Proof.
  intros [hd [Hb Hg]] Hfr Hg' Hi. split; [|exact (gframe_cframe h h' cb nodes nodes' Hfr Hi)].
  destruct Hfr as [_ [[hd' Hh] _]]. exists hd'. split; [rewrite Hh, Hb; reflexivity | exact Hg'].
Qed.
Lemma brep_gcand h cb b es idof nodes : brep h cb b es idof nodes -> gcand_rep h cb 6 es idof nodes.
Proof. intros [hd [_ Hg]]. exact Hg. Qed.

Definition ldel (bs : list nat) : list lev := map (fun b => LDelete (HPtr b 0)) bs.

Lemma B_keep run mk pred : gkeeps_like run mk pred -> forall fuel h cb b es idof nodes evs rest,
  brep h cb b es idof nodes -> (length (filter e_pot es) < fuel)%nat ->
  let drops := map drops_zero (model_answers pred es) in
  exists h',
    run fuel h evs (model_answers pred es ++ rest) (HPtr cb 6) =
      FOk (tt, h', evs ++ zipw mk (cids idof es) (model_answers pred es) ++ ldel (drop_by nodes drops), rest) /\
    brep h' cb b (keep_if pred es) idof (keep_by nodes drops) /\ cframe h h' cb nodes (keep_by nodes drops).
Proof.
  intros Hk fuel h cb b es idof nodes evs rest Hb Hf drops.
  destruct (Hk fuel h cb 6%nat es idof nodes evs rest (brep_gcand _ _ _ _ _ _ Hb) Hf) as [h' [Hrun [Hg' Hfr]]].
  exists h'. split; [exact Hrun|]. exact (brep_after_list h h' cb b es _ idof nodes _ Hb Hfr Hg' (keep_by_incl _ _)).
Qed.
Lemma B_unmatching fuel h cb b es idof nodes evs rest :
  brep h cb b es idof nodes -> (length (filter e_pot es) < fuel)%nat ->
  let drops := map z2b (model_answers is_matching_fin es) in
  exists h',
    src_mlist_onlyKeepUnmatchingExpectations fuel h evs (model_answers is_matching_fin es ++ rest) (HPtr cb 6) =
      FOk (tt, h', evs ++ unm_events (cids idof es) (model_answers is_matching_fin es) ++ ldel (drop_by nodes drops), rest) /\
    brep h' cb b (only_keep_unmatching es) idof (keep_by nodes drops) /\ cframe h h' cb nodes (keep_by nodes drops).
Proof.
  intros Hb Hf drops.
  destruct (gonlyKeepUnmatchingExpectations_model fuel h cb 6%nat es idof nodes evs rest (brep_gcand _ _ _ _ _ _ Hb) Hf) as [h' [Hrun [Hg' Hfr]]].
  exists h'. split; [exact Hrun|]. exact (brep_after_list h h' cb b es _ idof nodes _ Hb Hfr Hg' (keep_by_incl _ _)).
Qed.
Lemma B_isEmpty fuel h cb b es idof nodes evs ans : brep h cb b es idof nodes ->
  src_mlist_isEmpty fuel h evs ans (HPtr cb 6) = FOk (b2z (pot_empty es), h, evs, ans).
Proof. intro Hb. exact (gisEmpty_model fuel h cb 6%nat es idof nodes evs ans (brep_gcand _ _ _ _ _ _ Hb)). Qed.
Lemma B_tell run mk : gtells_like run mk -> forall (f : expn -> expn) fuel h cb b es idof nodes evs ans,
  (forall e, e_pot (f e) = e_pot e) -> brep h cb b es idof nodes -> (length (filter e_pot es) < fuel)%nat ->
  run fuel h evs ans (HPtr cb 6) = FOk (tt, h, evs ++ map mk (cids idof es), ans) /\ brep h cb b (for_pot f es) idof nodes.
Proof.
  intros Ht f fuel h cb b es idof nodes evs ans Hf Hb Hl. pose proof Hb as [hd [Hbl Hg]].
  destruct (Ht f fuel h cb 6%nat es idof nodes evs ans Hf Hg Hl) as [Hrun Hg']. split; [exact Hrun|]. exists hd. split; assumption.
Qed.
Lemma B_getFirst fuel h cb b es idof nodes evs rest : brep h cb b es idof nodes -> (length (filter e_pot es) < fuel)%nat ->
  src_mlist_getFirstMatchingExpectation fuel h evs (search_answers is_matching es ++ rest) (HPtr cb 6) =
    FOk (found_id idof is_matching es, h, evs ++ zipw (LAsk "isMatchingActualCall") (cids idof es) (search_answers is_matching es), rest).
Proof. intros Hb Hf. exact (ggetFirstMatchingExpectation_model fuel h cb 6%nat es idof nodes evs rest (brep_gcand _ _ _ _ _ _ Hb) Hf). Qed.
Lemma B_has run mk t q ans : ghas_like run mk t q ans -> forall fuel h cb b es idof nodes evs rest,
  brep h cb b es idof nodes -> (length (filter e_pot es) < fuel)%nat ->
  let sa := upto_first t (map ans (filter e_pot es)) in
  run fuel h evs (sa ++ rest) (HPtr cb 6) = FOk (b2z (existsb (fun e => e_pot e && q e) es), h, evs ++ zipw mk (cids idof es) sa, rest).
Proof. intros Hh fuel h cb b es idof nodes evs rest Hb Hf. exact (Hh fuel h cb 6%nat es idof nodes evs rest (brep_gcand _ _ _ _ _ _ Hb) Hf). Qed.
Lemma B_remove run q pred : gremoves_like run q pred -> forall (g : expn -> expn) fuel h cb b es idof nodes evs rest,
  (forall e, e_pot (g e) = e_pot e) -> brep h cb b es idof nodes -> (length (filter e_pot es) < fuel)%nat ->
  let sa := search_answers pred es in
  let flags := first_flag yes (model_answers pred es) in
  match take_first pred g es with
  | Some es' =>
      exists h' j e,
        found_pos pred es = Some j /\ nth_error es j = Some e /\ nth_error es' j = Some (g (set_cur (drop e) true)) /\
        run fuel h evs (sa ++ rest) (HPtr cb 6) =
          FOk (idof j, h', evs ++ zipw (LAsk q) (cids idof es) sa ++ ldel (drop_by nodes flags), rest) /\
        brep h' cb b es' idof (keep_by nodes flags) /\ cframe h h' cb nodes (keep_by nodes flags)
  | None =>
      found_pos pred es = None /\
      run fuel h evs (sa ++ rest) (HPtr cb 6) = FOk (0, h, evs ++ zipw (LAsk q) (cids idof es) sa, rest)
  end.
Proof.
  intros Hr g fuel h cb b es idof nodes evs rest Hg Hb Hf sa flags.
  pose proof (Hr g fuel h cb 6%nat es idof nodes evs rest Hg (brep_gcand _ _ _ _ _ _ Hb) Hf) as H. cbv zeta in H. fold sa flags in H.
  destruct (take_first pred g es) as [es'|]; [|exact H].
  destruct H as [h' [j [e [H1 [H2 [H3 [Hrun [Hg' [_ Hfr]]]]]]]]]. exists h', j, e.
  split; [exact H1|]. split; [exact H2|]. split; [exact H3|]. split; [exact Hrun|].
  exact (brep_after_list h h' cb b es es' idof nodes _ Hb Hfr Hg' (keep_by_incl _ _)).
Qed.

Lemma z2b_cne0 v : z2b (c_ne v 0) = negb (v =? 0).
Proof. unfold c_ne. apply b2z_z2b. Qed.
Lemma idof_nz idof (es : list expn) j e : idof_ok idof (length es) -> nth_error es j = Some e -> (idof j =? 0) = false.
Proof. intros [Hnz _] Hn. apply Z.eqb_neq. apply Hnz. apply nth_error_Some. rewrite Hn. discriminate. Qed.

(* ================================================================== 2. completeCallWhenMatchIsFound ~ complete *)
Notation ASKFIN := (LAsk "isMatchingActualCallAndFinalized").
Notation ASKM := (LAsk "isMatchingActualCall").
(* the model's `complete`, master list and call record apart *)
Definition complete_es (es : list expn) : list expn :=
  match take_first is_matching_fin (fun e => e) es with Some es' => es' | None => es end.
Definition complete_call (es : list expn) (c : acall) : acall :=
  match first_pot is_matching_fin es with
  | Some e => set_state (set_couts c (copy_outputs e (c_outs c))) Succeeded
  | None => match first_pot is_matching es with Some e => set_couts c (copy_outputs e (c_outs c)) | None => c end
  end.
Lemma take_first_found pred g es : (forall e, e_pot (g e) = e_pot e) ->
  match take_first pred g es with
  | Some _ => exists j e, found_pos pred es = Some j /\ nth_error es j = Some e
  | None => found_pos pred es = None
  end.
Proof.
  intro Hg. pose proof (take_first_pos pred g [] Hg es 0) as H. unfold found_pos. destruct (take_first pred g es).
  - destruct H as [_ [_ [j [e [Hf [Hn _]]]]]]. rewrite Nat.sub_0_r in Hn. exists j, e. split; assumption.
  - exact H.
Qed.
Lemma complete_split es c : complete es c = (complete_es es, complete_call es c).
Proof.
  unfold complete, complete_es, complete_call. pose proof (take_first_found is_matching_fin (fun e => e) es ltac:(reflexivity)) as H.
  rewrite (first_pot_found is_matching_fin es). destruct (take_first is_matching_fin (fun e => e) es) as [es'|].
  - destruct H as [j [e [Hj Hn]]]. rewrite Hj, Hn. reflexivity.
  - rewrite H. destruct (first_pot is_matching es); reflexivity.
Qed.

(* the answers the step asks for, the events it records, the nodes left, the scalar cells afterwards *)
Definition complete_answers (es : list expn) : list Z :=
  search_answers is_matching_fin es ++
  match found_pos is_matching_fin es with Some _ => [] | None => search_answers is_matching es end.
Definition complete_nodes (nodes : list nat) (es : list expn) : list nat :=
  match found_pos is_matching_fin es with Some _ => keep_by nodes (first_flag yes (model_answers is_matching_fin es)) | None => nodes end.
Definition complete_events (idof : nat -> Z) (nodes : list nat) (es : list expn) : list lev :=
  zipw ASKFIN (cids idof es) (search_answers is_matching_fin es) ++
  match found_pos is_matching_fin es with
  | Some j => ldel (drop_by nodes (first_flag yes (model_answers is_matching_fin es))) ++ [LCopyOutputs (idof j)]
  | None => zipw ASKM (cids idof es) (search_answers is_matching es) ++
            match found_pos is_matching es with Some j => [LCopyOutputs (idof j)] | None => [] end
  end.
Definition complete_blk (b : cblk) (idof : nat -> Z) (es : list expn) : cblk :=
  match found_pos is_matching_fin es with Some j => with_st (with_cur b (idof j)) Succeeded | None => with_cur b 0 end.

Lemma B_complete fuel h cb b es idof nodes evs rest : brep h cb b es idof nodes -> (length (filter e_pot es) < fuel)%nat ->
  exists h',
    src_acall_completeCallWhenMatchIsFound fuel h evs (complete_answers es ++ rest) (HPtr cb 0) =
      FOk (tt, h', evs ++ complete_events idof nodes es, rest) /\
    brep h' cb (complete_blk b idof es) (complete_es es) idof (complete_nodes nodes es) /\
    cframe h h' cb nodes (complete_nodes nodes es).
Proof.
  intros Hb Hf. unfold src_acall_completeCallWhenMatchIsFound. rewrite (B_padd _ _ _ _ _ _ 6 Hb) by lia.
  pose proof (B_remove _ _ _ gremoveFirstFinalizedMatchingExpectation_model (fun e => e) fuel h cb b es idof nodes evs) as Hr.
  unfold complete_answers, complete_events, complete_nodes, complete_blk, complete_es.
  destruct (take_first is_matching_fin (fun e => e) es) as [es'|].
  - destruct (Hr rest ltac:(reflexivity) Hb Hf) as [h1 [j [e [Hfound [Hn [Hn' [Hrun [Hb1 Hfr1]]]]]]]]. clear Hr.
    rewrite Hfound. rewrite app_nil_r. rewrite Hrun. cbv beta iota zeta.
    rewrite (B_padd _ _ _ _ _ _ 5 Hb1) by lia.
    destruct (B_store_cur h1 cb b es' idof _ (idof j) Hb1) as [h2 [Hst [Hb2 Hfr2]]]. rewrite Hst. cbv beta iota zeta.
    rewrite (B_padd _ _ _ _ _ _ 5 Hb2) by lia. rewrite (B_load_cur _ _ _ _ _ _ Hb2). cbn [b_cur with_cur].
    rewrite z2b_cne0, (idof_nz idof es j e (brep_idof _ _ _ _ _ _ Hb) Hn). cbn [negb]. cbv beta iota zeta.
    destruct (B_callHasSucceeded fuel h2 cb _ es' idof _ (((evs ++ zipw ASKFIN (cids idof es) (search_answers is_matching_fin es) ++
                 ldel (drop_by nodes (first_flag yes (model_answers is_matching_fin es)))) ++ [LCopyOutputs (idof j)])) rest Hb2)
      as [h3 [Hcs [Hb3 Hfr3]]].
    rewrite Hcs. exists h3. split; [rewrite <- !app_assoc; reflexivity|]. split; [exact Hb3|].
    exact (cframe_trans _ _ _ _ _ _ _ Hfr1 (cframe_trans _ _ _ _ _ _ _ Hfr2 Hfr3)).
  - destruct (Hr (search_answers is_matching es ++ rest) ltac:(reflexivity) Hb Hf) as [Hfound Hrun]. clear Hr.
    rewrite Hfound. rewrite <- app_assoc. rewrite Hrun. cbv beta iota zeta.
    rewrite (B_padd _ _ _ _ _ _ 5 Hb) by lia.
    destruct (B_store_cur h cb b es idof _ 0 Hb) as [h2 [Hst [Hb2 Hfr2]]]. rewrite Hst. cbv beta iota zeta.
    rewrite (B_padd _ _ _ _ _ _ 5 Hb2) by lia. rewrite (B_load_cur _ _ _ _ _ _ Hb2). cbn [b_cur with_cur].
    change (z2b (c_ne 0 0)) with false. cbv beta iota zeta.
    rewrite (B_padd _ _ _ _ _ _ 6 Hb2) by lia.
    assert (Hf2 : (length (filter e_pot es) < fuel)%nat) by exact Hf.
    rewrite (B_getFirst fuel h2 cb _ es idof nodes _ rest Hb2 Hf2). cbv beta iota zeta.
    exists h2. split; [|split; [exact Hb2 | exact Hfr2]].
    unfold found_id. destruct (found_pos is_matching es) as [j|] eqn:Ej.
    + pose proof (find_pos_find (fun e => e_pot e && is_matching e) es 0) as Hj. unfold found_pos in Ej. rewrite Ej in Hj.
      destruct Hj as [_ Hj]. rewrite Nat.sub_0_r in Hj.
      assert (Hn : exists e, nth_error es j = Some e).
      { destruct (nth_error es j) as [e|] eqn:En; [exists e; reflexivity|]. exfalso.
        assert (Hin : In j (pos_from (fun e => e_pot e && is_matching e) 0 es)).
        { clear - Ej. revert Ej. generalize 0%nat. induction es as [|e r IH]; intros k Ej; [discriminate Ej|]. cbn in *.
          destruct (e_pot e && is_matching e); [inversion Ej; left; reflexivity | ]. apply IH. exact Ej. }
        apply pos_from_lt in Hin. apply nth_error_None in En. lia. }
      destruct Hn as [e Hn]. rewrite z2b_cne0, (idof_nz idof es j e (brep_idof _ _ _ _ _ _ Hb) Hn). cbn [negb].
      rewrite <- !app_assoc. reflexivity.
    + change (z2b (c_ne 0 0)) with false. cbv iota. rewrite app_nil_r. rewrite <- !app_assoc. reflexivity.
Qed.

(* the model on the reading of matchingExpectation_: from "none", complete leaves the one it found *)
Lemma take_first_cur pred g : (forall e, e_cur (g e) = e_cur e) -> forall es k, pos_from e_cur k es = [] ->
  match take_first pred g es with
  | Some es' => exists j, find_pos (fun e => e_pot e && pred e) k es = Some j /\ pos_from e_cur k es' = [j]
  | None => True
  end.
Proof.
  intros Hg. induction es as [|e r IH]; intros k Hn; [exact I|]. cbn [pos_from] in Hn. destruct (e_cur e) eqn:Ec; [discriminate Hn|].
  cbn [take_first find_pos]. destruct (e_pot e && pred e).
  - exists k. split; [reflexivity|]. cbn [pos_from]. rewrite Hg. change (e_cur (set_cur (drop e) true)) with true. cbv iota. rewrite Hn. reflexivity.
  - specialize (IH (S k) Hn). destruct (take_first pred g r) as [r'|]; [|exact I]. destruct IH as [j [Hj Hp]]. exists j.
    split; [exact Hj|]. cbn [pos_from]. rewrite Ec. exact Hp.
Qed.
Lemma nocur_pos es : existsb e_cur es = false -> pos_from e_cur 0 es = [].
Proof. intro E. pose proof (pos_from_nil_iff e_cur es 0) as H. rewrite E in H. destruct (pos_from e_cur 0 es); [reflexivity | discriminate H]. Qed.
Lemma complete_cur idof es : existsb e_cur es = false ->
  cur_code idof (complete_es es) = Some (match found_pos is_matching_fin es with Some j => idof j | None => 0 end).
Proof.
  intro E. unfold complete_es. pose proof (take_first_cur is_matching_fin (fun e => e) ltac:(reflexivity) es 0 (nocur_pos es E)) as H.
  pose proof (take_first_found is_matching_fin (fun e => e) es ltac:(reflexivity)) as H'.
  destruct (take_first is_matching_fin (fun e => e) es) as [es'|].
  - destruct H as [j [Hj Hp]]. unfold found_pos. rewrite Hj. unfold cur_code. rewrite Hp. reflexivity.
  - rewrite H'. apply nocur_code. exact E.
Qed.
(* how many candidates there are: the passes only remove some *)
Definition ncand (es : list expn) : nat := length (filter e_pot es).
Lemma ncand_map_le (f : expn -> expn) : (forall e, e_pot (f e) = true -> e_pot e = true) -> forall es, (ncand (map f es) <= ncand es)%nat.
Proof.
  intro Hf. unfold ncand. induction es as [|e r IH]; [cbn; lia|]. cbn [map filter]. destruct (e_pot (f e)) eqn:E.
  - rewrite (Hf e E). cbn [length]. lia.
  - destruct (e_pot e); cbn [length]; lia.
Qed.
Lemma ncand_keep_if pred es : (ncand (keep_if pred es) <= ncand es)%nat.
Proof. apply ncand_map_le. intro e. destruct (e_pot e) eqn:E; [reflexivity|]. cbn [andb]. rewrite E. discriminate. Qed.
Lemma ncand_unmatching es : (ncand (only_keep_unmatching es) <= ncand es)%nat.
Proof. apply ncand_map_le. intro e. destruct (e_pot e) eqn:E; [reflexivity|]. cbn [andb]. rewrite E. discriminate. Qed.
Lemma ncand_for_pot f es : (forall e, e_pot (f e) = e_pot e) -> ncand (for_pot f es) = ncand es.
Proof.
  intro Hf. unfold ncand. rewrite <- !(pos_from_length e_pot _ 0). unfold for_pot. rewrite pos_from_map; [reflexivity|].
  intro e. destruct (e_pot e) eqn:E; [rewrite Hf; exact E | exact E].
Qed.
Lemma ncand_for_cur f es : (forall e, e_pot (f e) = e_pot e) -> ncand (for_cur f es) = ncand es.
Proof.
  intro Hf. unfold ncand. rewrite <- !(pos_from_length e_pot _ 0). unfold for_cur. rewrite pos_from_map; [reflexivity|].
  intro e. destruct (e_cur e); [apply Hf | reflexivity].
Qed.

(* from the cells to the model's call record *)
Lemma complete_arep h cb nm c x cur es idof nodes :
  brep h cb (complete_blk (blk_of nm c x cur) idof es) (complete_es es) idof nodes -> existsb e_cur es = false ->
  acall_at h cb (fst (complete es c)) idof nodes (snd (complete es c)) nm x.
Proof.
  intros Hb' Hnc. rewrite complete_split. cbn [fst snd].
  exists (match found_pos is_matching_fin es with Some j => idof j | None => 0 end). apply arep_brep. split.
  - replace (blk_of nm (complete_call es c) x _) with (complete_blk (blk_of nm c x cur) idof es); [exact Hb'|].
    unfold complete_blk, complete_call. rewrite (first_pot_found is_matching_fin es).
    pose proof (take_first_found is_matching_fin (fun e => e) es ltac:(reflexivity)) as H.
    destruct (take_first is_matching_fin (fun e => e) es).
    + destruct H as [j [e [Hj Hn]]]. rewrite Hj, Hn. reflexivity.
    + rewrite H. destruct (first_pot is_matching es); reflexivity.
  - rewrite (complete_cur idof es Hnc). destruct (found_pos is_matching_fin es); reflexivity.
Qed.

(* THEOREM 1.  completeCallWhenMatchIsFound on a represented call that has no matching expectation yet does what `complete` says:
   with the answers the candidates give (isMatchingActualCallAndFinalized up to the first yes; without a yes isMatchingActualCall up
   to the first yes) the finalized match leaves the candidate list (one node deleted) and becomes matchingExpectation_ -- the
   position take_first marks e_cur --, copyOutputParameters is called for it and the state is Succeeded; otherwise
   copyOutputParameters is called for the first plain match, if there is one, and nothing else changes *)
Theorem completeCallWhenMatchIsFound_tie fuel h cb es idof nodes c nm x evs rest :
  acall_at h cb es idof nodes c nm x -> existsb e_cur es = false -> (ncand es < fuel)%nat ->
  exists h',
    src_acall_completeCallWhenMatchIsFound fuel h evs (complete_answers es ++ rest) (HPtr cb 0) =
      FOk (tt, h', evs ++ complete_events idof nodes es, rest) /\
    acall_at h' cb (fst (complete es c)) idof (complete_nodes nodes es) (snd (complete es c)) nm x /\
    cframe h h' cb nodes (complete_nodes nodes es).
Proof.
  intros [cur Ha] Hnc Hf. apply arep_brep in Ha. destruct Ha as [Hb _].
  destruct (B_complete fuel h cb _ es idof nodes evs rest Hb Hf) as [h' [Hrun [Hb' Hfr]]].
  exists h'. split; [exact Hrun|]. split; [|exact Hfr]. exact (complete_arep h' cb nm c x cur es idof _ Hb' Hnc).
Qed.
(* the hypothesis "no matching expectation yet" is needed: the source OVERWRITES matchingExpectation_, the model's take_first only
   sets e_cur on the expectation found; from a state with a current match the model has two (nothing the call block can hold).
   In the model's own flows `complete` is only reached from such states (after create, after discard, or guarded by nocur). *)
Definition ex_cur_e (pot cur : bool) : expn := set_cur (set_pot (mk_exp 1%N 5%N [] [] None None false 0%N 0%N) pot) cur.
Example complete_two_cur :
  let es := [ex_cur_e false true; ex_cur_e true false] in
  pos_from e_cur 0 (complete_es es) = [0; 1]%nat /\ cur_code (fun k => 11 + Z.of_nat k) (complete_es es) = None.
Proof. split; reflexivity. Qed.

(* ================================================================== 3. discardCurrentlyMatchingExpectations ~ discard *)
Definition uncur (e : expn) : expn := set_cur (reset_e e) false.
Lemma discard_eq es : discard es = only_keep_unmatching (for_cur uncur es).
Proof. reflexivity. Qed.
Definition discard_answers (es : list expn) : list Z := model_answers is_matching_fin (for_cur uncur es).
Definition discard_nodes (nodes : list nat) (es : list expn) : list nat := keep_by nodes (map z2b (discard_answers es)).
Definition discard_events (idof : nat -> Z) (nodes : list nat) (es : list expn) (cur : Z) : list lev :=
  (if cur =? 0 then [] else [LTell "resetActualCallMatchingState" cur]) ++
  unm_events (cids idof es) (discard_answers es) ++ ldel (drop_by nodes (map z2b (discard_answers es))).
Lemma brep_cur0 h cb b es idof nodes : brep h cb b es idof nodes -> b_cur b = 0 -> brep h cb (with_cur b 0) es idof nodes.
Proof. intros [hd [Hb Hg]] E. exists hd. split; [|exact Hg]. rewrite Hb. unfold cells, with_cur. cbn. rewrite E. reflexivity. Qed.
Lemma cids_for_cur idof f es : (forall e, e_pot (f e) = e_pot e) -> cids idof (for_cur f es) = cids idof es.
Proof. intro Hf. apply cids_map. intro e. destruct (e_cur e); [apply Hf | reflexivity]. Qed.

Lemma B_discard fuel h cb b es idof nodes evs rest : brep h cb b es idof nodes -> (ncand es < fuel)%nat ->
  exists h',
    src_acall_discardCurrentlyMatchingExpectations fuel h evs (discard_answers es ++ rest) (HPtr cb 0) =
      FOk (tt, h', evs ++ discard_events idof nodes es (b_cur b), rest) /\
    brep h' cb (with_cur b 0) (discard es) idof (discard_nodes nodes es) /\ cframe h h' cb nodes (discard_nodes nodes es).
Proof.
  intros Hb Hf. unfold src_acall_discardCurrentlyMatchingExpectations. rewrite (B_padd _ _ _ _ _ _ 5 Hb) by lia.
  rewrite (B_load_cur _ _ _ _ _ _ Hb). rewrite z2b_cne0. unfold discard_events, discard_nodes.
  assert (Hc : cids idof (for_cur uncur es) = cids idof es) by (apply cids_for_cur; reflexivity).
  assert (Hl : length (for_cur uncur es) = length es) by (unfold for_cur; apply map_length).
  assert (Hf1 : (ncand (for_cur uncur es) < fuel)%nat) by (rewrite ncand_for_cur by reflexivity; exact Hf).
  destruct (b_cur b =? 0) eqn:E; cbn [negb]; cbv beta iota zeta.
  - apply Z.eqb_eq in E. pose proof (brep_es _ _ _ _ _ _ _ (brep_cur0 _ _ _ _ _ _ Hb E) Hc Hl) as Hb1.
    rewrite (B_padd _ _ _ _ _ _ 6 Hb) by lia.
    destruct (B_unmatching fuel h cb _ _ idof nodes evs rest Hb1 Hf1) as [h' [Hrun [Hb' Hfr]]].
    unfold discard_answers. rewrite Hrun. rewrite Hc. exists h'. split; [reflexivity|]. split; [exact Hb' | exact Hfr].
  - destruct (B_store_cur h cb b es idof nodes 0 Hb) as [h1 [Hst [Hb1 Hfr1]]]. rewrite Hst. cbv beta iota zeta.
    pose proof (brep_es _ _ _ _ _ _ _ Hb1 Hc Hl) as Hb2.
    rewrite (B_padd _ _ _ _ _ _ 6 Hb1) by lia.
    destruct (B_unmatching fuel h1 cb _ _ idof nodes (evs ++ [LTell "resetActualCallMatchingState" (b_cur b)]) rest Hb2 Hf1)
      as [h' [Hrun [Hb' Hfr]]].
    unfold discard_answers. rewrite Hrun. rewrite Hc. exists h'. split; [rewrite <- !app_assoc; reflexivity|]. split; [exact Hb'|].
    exact (cframe_trans _ _ _ _ _ _ _ Hfr1 Hfr).
Qed.
Lemma discard_nocur es : existsb e_cur (discard es) = false.
Proof.
  unfold discard, only_keep_unmatching, for_cur. rewrite map_map. induction es as [|e r IH]; [reflexivity|]. cbn [map existsb]. rewrite IH.
  rewrite orb_false_r. destruct (e_cur e) eqn:Ec.
  - destruct (e_pot (set_cur (reset_e e) false) && is_matching_fin (set_cur (reset_e e) false)); reflexivity.
  - destruct (e_pot e && is_matching_fin e); exact Ec.
Qed.
(* THEOREM 2.  discardCurrentlyMatchingExpectations ~ discard: the matching expectation (the position with e_cur) is told
   resetActualCallMatchingState and forgotten, then the candidates that answer yes to isMatchingActualCallAndFinalized are told the
   same and leave the list *)
Theorem discardCurrentlyMatchingExpectations_tie fuel h cb es idof nodes c nm x evs rest cur :
  arep h cb (blk_of nm c x cur) es idof nodes -> (ncand es < fuel)%nat ->
  exists h',
    src_acall_discardCurrentlyMatchingExpectations fuel h evs (discard_answers es ++ rest) (HPtr cb 0) =
      FOk (tt, h', evs ++ discard_events idof nodes es cur, rest) /\
    arep h' cb (blk_of nm c x 0) (discard es) idof (discard_nodes nodes es) /\ cframe h h' cb nodes (discard_nodes nodes es) /\
    (cur = 0 <-> existsb e_cur es = false).
Proof.
  intros Ha Hf. apply arep_brep in Ha. destruct Ha as [Hb Hc].
  destruct (B_discard fuel h cb _ es idof nodes evs rest Hb Hf) as [h' [Hrun [Hb' Hfr]]].
  exists h'. split; [exact Hrun|]. split; [|split; [exact Hfr | exact (cur_code_zero idof es cur (brep_idof _ _ _ _ _ _ Hb) Hc)]].
  apply arep_brep. split; [exact Hb'|]. apply nocur_code. apply discard_nocur.
Qed.

(* ================================================================== 4. failures *)
(* the class of the failure object the source constructs for each failure of the model (the text inside -- e.g. "Unexpected call" /
   "Unexpected additional (nth) call", both MockUnexpectedCallHappenedFailure -- is made by the constructors, which are not translated) *)
Definition fail_class (k : fkind) : string :=
  match k with
  | FUnexpectedCall _ | FAdditionalCall _ _ => "MockUnexpectedCallHappenedFailure"
  | FParamName _ _ | FParamValue _ _ => "MockUnexpectedInputParameterFailure"
  | FOutName _ _ | FOutType _ _ => "MockUnexpectedOutputParameterFailure"
  | FObjectUnexpected _ => "MockUnexpectedObjectFailure"
  | FParamMissing _ _ => "MockExpectedParameterDidntHappenFailure"
  | FObjectMissing _ => "MockExpectedObjectDidntHappenFailure"
  | FNotFulfilled => "MockExpectedCallsDidntHappenFailure"
  | FOutOfOrder => "MockCallOrderFailure"
  | FCannotHappen => "FAIL"
  end%string.
(* the events by which a step fails the test *)
Definition is_fail (e : lev) : bool := match e with LFailure _ | LReport | LAbort => true | _ => false end.
Definition fails (evs : list lev) : list lev := filter is_fail evs.
Lemma fails_app a b : fails (a ++ b) = fails a ++ fails b. Proof. apply filter_app. Qed.
Lemma fails_cons_quiet e l : is_fail e = false -> fails (e :: l) = fails l.
Proof. intro H. unfold fails. cbn [filter]. rewrite H. reflexivity. Qed.
Lemma fails_zipw_ask q : forall ids answers, fails (zipw (LAsk q) ids answers) = [].
Proof. induction ids as [|i ids IH]; intros [|a r]; cbn; try reflexivity. apply IH. Qed.
Lemma fails_zipw_askarg q x : forall ids answers, fails (zipw (fun id a => LAskArg q id x a) ids answers) = [].
Proof. induction ids as [|i ids IH]; intros [|a r]; cbn; try reflexivity. apply IH. Qed.
Lemma fails_ldel bs : fails (ldel bs) = [].
Proof. induction bs as [|b bs IH]; [reflexivity | exact IH]. Qed.
Lemma fails_tell q ids : fails (map (LTell q) ids) = [].
Proof. induction ids as [|i ids IH]; [reflexivity | exact IH]. Qed.
Lemma fails_tellarg q x ids : fails (map (fun id => LTellArg q id x) ids) = [].
Proof. induction ids as [|i ids IH]; [reflexivity | exact IH]. Qed.
Lemma fails_unm : forall ids answers, fails (unm_events ids answers) = [].
Proof. induction ids as [|i ids IH]; intros [|a r]; cbn; try reflexivity. destruct (z2b a); cbn; apply IH. Qed.
Lemma fails_complete idof nodes es : fails (complete_events idof nodes es) = [].
Proof.
  unfold complete_events. rewrite fails_app, fails_zipw_ask. destruct (found_pos is_matching_fin es).
  - rewrite fails_app, fails_ldel. reflexivity.
  - rewrite fails_app, fails_zipw_ask. destruct (found_pos is_matching es); reflexivity.
Qed.
Lemma fails_discard idof nodes es cur : fails (discard_events idof nodes es cur) = [].
Proof. unfold discard_events. rewrite !fails_app, fails_unm, fails_ldel. destruct (cur =? 0); reflexivity. Qed.

(* ================================================================== 5. withName ~ with_name *)
Notation REL nm := (fun id a => LAskArg "relatesTo" id nm a).
Section WithName.
Variables (nm : Z) (f : name).
Definition wn_es1 (es : list expn) : list expn := keep_if (relates f) es.
Definition wn_nodes1 (nodes : list nat) (es : list expn) : list nat := keep_by nodes (map drops_zero (model_answers (relates f) es)).
Definition with_name_answers (es : list expn) : list Z :=
  model_answers (relates f) es ++ if pot_empty (wn_es1 es) then [] else complete_answers (wn_es1 es).
Definition with_name_nodes (nodes : list nat) (es : list expn) : list nat :=
  if pot_empty (wn_es1 es) then wn_nodes1 nodes es else complete_nodes (wn_nodes1 nodes es) (wn_es1 es).
Definition with_name_events (idof : nat -> Z) (nodes : list nat) (es : list expn) : list lev :=
  zipw (REL nm) (cids idof es) (model_answers (relates f) es) ++
  ldel (drop_by nodes (map drops_zero (model_answers (relates f) es))) ++
  if pot_empty (wn_es1 es) then [LFailure "MockUnexpectedCallHappenedFailure"; LReport]
  else complete_events idof (wn_nodes1 nodes es) (wn_es1 es).
Definition with_name_blk (b : cblk) (idof : nat -> Z) (es : list expn) : cblk :=
  let b1 := with_st (with_nm b nm) InProgress in
  if pot_empty (wn_es1 es) then with_st b1 Failed else complete_blk b1 idof (wn_es1 es).
Definition with_name_es (es : list expn) : list expn := if pot_empty (wn_es1 es) then wn_es1 es else complete_es (wn_es1 es).

Lemma B_withName fuel h cb b es idof nodes evs rest : brep h cb b es idof nodes -> (ncand es < fuel)%nat ->
  exists h',
    src_acall_withName fuel h evs (with_name_answers es ++ rest) (HPtr cb 0) nm =
      FOk (tt, h', evs ++ with_name_events idof nodes es, rest) /\
    brep h' cb (with_name_blk b idof es) (with_name_es es) idof (with_name_nodes nodes es) /\
    cframe h h' cb nodes (with_name_nodes nodes es).
Proof.
  intros Hb Hf. unfold src_acall_withName.
  destruct (B_setName fuel h cb b es idof nodes evs (with_name_answers es ++ rest) nm Hb) as [h1 [R1 [Hb1 F1]]]. rewrite R1. cbv beta iota zeta.
  destruct (B_setState fuel h1 cb _ es idof nodes evs (with_name_answers es ++ rest) InProgress 0 eq_refl Hb1) as [h2 [R2 [Hb2 F2]]].
  rewrite R2. cbv beta iota zeta. rewrite (B_padd _ _ _ _ _ _ 6 Hb2) by lia.
  unfold with_name_answers, with_name_events, with_name_blk, with_name_es, with_name_nodes. rewrite <- app_assoc.
  destruct (B_keep _ _ _ (gonlyKeepExpectationsRelatedTo_model nm f) fuel h2 cb _ es idof nodes evs
              ((if pot_empty (wn_es1 es) then [] else complete_answers (wn_es1 es)) ++ rest) Hb2 Hf) as [h3 [R3 [Hb3 F3]]].
  cbv beta in R3. rewrite R3. cbv beta iota zeta. fold (wn_es1 es) in Hb3. fold (wn_nodes1 nodes es) in Hb3, F3.
  rewrite (B_padd _ _ _ _ _ _ 6 Hb3) by lia. rewrite (B_isEmpty fuel h3 cb _ _ idof _ _ _ Hb3). cbv beta iota zeta. rewrite b2z_z2b.
  pose proof (cframe_trans _ _ _ _ _ _ _ F1 (cframe_trans _ _ _ _ _ _ _ F2 F3)) as F123.
  destruct (pot_empty (wn_es1 es)).
  - cbn [app].
    destruct (B_failTest fuel h3 cb _ _ idof _
                ((evs ++ zipw (REL nm) (cids idof es) (model_answers (relates f) es) ++
                  ldel (drop_by nodes (map drops_zero (model_answers (relates f) es)))) ++ [LFailure "MockUnexpectedCallHappenedFailure"])
                rest Hb3) as [h4 [R4 [Hb4 F4]]].
    rewrite R4. cbn [b_st with_st is_failed]. exists h4. split; [rewrite <- !app_assoc; reflexivity|]. split; [exact Hb4|].
    exact (cframe_trans _ _ _ _ _ _ _ F123 F4).
  - assert (Hf3 : (ncand (wn_es1 es) < fuel)%nat) by (pose proof (ncand_keep_if (relates f) es); unfold wn_es1; lia).
    destruct (B_complete fuel h3 cb _ _ idof _
                (evs ++ zipw (REL nm) (cids idof es) (model_answers (relates f) es) ++
                  ldel (drop_by nodes (map drops_zero (model_answers (relates f) es)))) rest Hb3 Hf3) as [h4 [R4 [Hb4 F4]]].
    rewrite R4. exists h4. split; [rewrite <- !app_assoc; reflexivity|]. split; [exact Hb4|].
    exact (cframe_trans _ _ _ _ _ _ _ F123 F4).
Qed.
End WithName.

(* THEOREM 3.  withName(nm) on a represented call without a matching expectation (a fresh call object), with the answers the
   candidates give to relatesTo(nm) being the model's relates (c_name c), then -- if a candidate is left -- the answers of `complete`:
   inl: the result of with_name is represented (functionName_ = nm);
   inr: the candidates are empty, exactly one failure object of class MockUnexpectedCallHappenedFailure is constructed and then
   reported (once), the state is Failed; the model says FAdditionalCall or FUnexpectedCall -- one class in the source, the
   difference is the text made by the constructor of the failure (amountOfActualCallsFulfilledFor on allExpectations_), not translated *)
Theorem withName_tie fuel h cb es idof nodes c nm0 nm x evs rest :
  acall_at h cb es idof nodes c nm0 x -> existsb e_cur es = false -> (ncand es < fuel)%nat ->
  let f := c_name c in
  exists h',
    src_acall_withName fuel h evs (with_name_answers f es ++ rest) (HPtr cb 0) nm =
      FOk (tt, h', evs ++ with_name_events nm f idof nodes es, rest) /\
    cframe h h' cb nodes (with_name_nodes f nodes es) /\
    match with_name es c with
    | inl (es', c') => acall_at h' cb es' idof (with_name_nodes f nodes es) c' nm x /\ fails (with_name_events nm f idof nodes es) = []
    | inr fl => acall_at h' cb (keep_if (relates f) es) idof (with_name_nodes f nodes es) (set_state c Failed) nm x /\
                fails (with_name_events nm f idof nodes es) = [LFailure (fail_class (f_kind fl)); LReport]
    end.
Proof.
  intros [cur Ha] Hnc Hf f. apply arep_brep in Ha. destruct Ha as [Hb Hc].
  destruct (B_withName nm f fuel h cb _ es idof nodes evs rest Hb Hf) as [h' [Hrun [Hb' Hfr]]].
  exists h'. split; [exact Hrun|]. split; [exact Hfr|].
  unfold with_name. change (c_name (set_state c InProgress)) with f. fold (wn_es1 f es).
  unfold with_name_blk, with_name_es, with_name_nodes, with_name_events in *. rewrite !fails_app, fails_zipw_askarg, fails_ldel. cbn [app].
  assert (Hnc1 : existsb e_cur (wn_es1 f es) = false).
  { pose proof (cur_code_keep_if (fun k => 1 + Z.of_nat k) (relates f) es) as H.
    rewrite (nocur_code _ es Hnc) in H. fold (wn_es1 f es) in H.
    assert (Hid : idof_ok (fun k => 1 + Z.of_nat k) (length (wn_es1 f es))) by (split; [intros; lia | intros; lia]).
    apply (cur_code_zero _ _ 0 Hid H). reflexivity. }
  destruct (pot_empty (wn_es1 f es)).
  - split.
    + exists cur. apply arep_brep. split; [exact Hb'|]. unfold wn_es1. rewrite cur_code_keep_if. exact Hc.
    + cbn [history f_kind]. destruct (0 <? fulfilled_for f (wn_es1 f es))%N; reflexivity.
  - pose proof (complete_arep h' cb nm (set_state c InProgress) x cur (wn_es1 f es) idof _ Hb' Hnc1) as H.
    destruct (complete (wn_es1 f es) (set_state c InProgress)) as [es' c']. cbn [fst snd] in H. split; [exact H | apply fails_complete].
Qed.

Lemma existsb_cur_map (f : expn -> expn) es : (forall e, e_cur (f e) = e_cur e) -> existsb e_cur (map f es) = existsb e_cur es.
Proof. intro Hf. induction es as [|e r IH]; [reflexivity|]. cbn [map existsb]. rewrite Hf, IH. reflexivity. Qed.
Lemma existsb_cur_keep_if pred es : existsb e_cur (keep_if pred es) = existsb e_cur es.
Proof. apply existsb_cur_map. intro e. destruct (e_pot e && negb (pred e)); reflexivity. Qed.
Lemma existsb_cur_for_pot f es : (forall e, e_cur (f e) = e_cur e) -> existsb e_cur (for_pot f es) = existsb e_cur es.
Proof. intro Hf. apply existsb_cur_map. intro e. destruct (e_pot e); [apply Hf | reflexivity]. Qed.

(* ================================================================== 6. checkInputParameter / checkOutputParameter ~ check_input / check_output *)
(* the two members have one shape: the pass, the failure class and the tell differ *)
Definition Gcheck (keep tell : nat -> heap -> list lev -> list Z -> hptr -> Z -> fres (unit * heap * list lev * list Z)) (cls : string)
    (value_name : Z -> Z) (fuel0 : nat) (mem : heap) (evs : list lev) (answers : list Z) (this_ : hptr) (actualParameter : Z)
  : fres (unit * heap * list lev * list Z) :=
  finish (R := (unit * heap * list lev * list Z)) (A := unit)
    (match src_acall_hasFailed fuel0 mem evs answers this_ with FOk (r1, mem, evs, answers) =>
     (if z2b r1 then (Done (tt, mem, evs, answers)) else
      (match src_acall_setState fuel0 mem evs answers this_ 0 with FOk (r2, mem, evs, answers) =>
       (match src_acall_discardCurrentlyMatchingExpectations fuel0 mem evs answers this_ with FOk (r3, mem, evs, answers) =>
        (match hpadd mem this_ 6 with None => Oob | Some q4 =>
         (match keep fuel0 mem evs answers q4 actualParameter with FOk (r5, mem, evs, answers) =>
          (match hpadd mem this_ 6 with None => Oob | Some q6 =>
           (match src_mlist_isEmpty fuel0 mem evs answers q6 with FOk (r7, mem, evs, answers) =>
            (if z2b r7 then
             (let evs := evs ++ [LFailure cls] in
              (match src_acall_failTest fuel0 mem evs answers this_ with FOk (r8, mem, evs, answers) => (Done (tt, mem, evs, answers)) | FOob => Oob | FNoFuel => NoFuel end)) else
             (match hpadd mem this_ 6 with None => Oob | Some q9 =>
              (match tell fuel0 mem evs answers q9 (value_name actualParameter) with FOk (r10, mem, evs, answers) =>
               (match src_acall_completeCallWhenMatchIsFound fuel0 mem evs answers this_ with FOk (r11, mem, evs, answers) => (Done (tt, mem, evs, answers)) | FOob => Oob | FNoFuel => NoFuel end) | FOob => Oob | FNoFuel => NoFuel end) end)) | FOob => Oob | FNoFuel => NoFuel end) end) | FOob => Oob | FNoFuel => NoFuel end) end) | FOob => Oob | FNoFuel => NoFuel end) | FOob => Oob | FNoFuel => NoFuel end)) | FOob => Oob | FNoFuel => NoFuel end).
Lemma checkInputParameter_shape vn :
  src_acall_checkInputParameter vn =
  Gcheck src_mlist_onlyKeepExpectationsWithInputParameter src_mlist_parameterWasPassed "MockUnexpectedInputParameterFailure" vn.
Proof. reflexivity. Qed.
Lemma checkOutputParameter_shape vn :
  src_acall_checkOutputParameter vn =
  Gcheck src_mlist_onlyKeepExpectationsWithOutputParameter src_mlist_outputParameterWasPassed "MockUnexpectedOutputParameterFailure" vn.
Proof. reflexivity. Qed.

Section Check.
Variables (keep tell : nat -> heap -> list lev -> list Z -> hptr -> Z -> fres (unit * heap * list lev * list Z)) (cls : string) (vn : Z -> Z).
Variables (pm : Z) (pred : expn -> bool) (markf : expn -> expn) (mk : Z -> Z -> lev) (tk : Z -> lev).
Hypothesis Hkeep : gkeeps_like (fun fuel h evs answers this_ => keep fuel h evs answers this_ pm) mk pred.
Hypothesis Htell : gtells_like (fun fuel h evs answers this_ => tell fuel h evs answers this_ (vn pm)) tk.
Hypothesis Hmark_pot : forall e, e_pot (markf e) = e_pot e.
Hypothesis Hmark_cur : forall e, e_cur (markf e) = e_cur e.
Hypothesis Hmk : forall ids answers, fails (zipw mk ids answers) = [].
Hypothesis Htk : forall ids, fails (map tk ids) = [].

Definition ck_es1 (es : list expn) : list expn := discard es.
Definition ck_es2 (es : list expn) : list expn := keep_if pred (ck_es1 es).
Definition ck_es3 (es : list expn) : list expn := for_pot markf (ck_es2 es).
Definition ck_nodes1 (nodes : list nat) (es : list expn) : list nat := discard_nodes nodes es.
Definition ck_nodes2 (nodes : list nat) (es : list expn) : list nat :=
  keep_by (ck_nodes1 nodes es) (map drops_zero (model_answers pred (ck_es1 es))).
(* the model's check_input / check_output after the part that only concerns c_outs: inr tt = the failure *)
Definition ck_model (es : list expn) (c : acall) : (list expn * acall) + unit :=
  if pot_empty (ck_es2 es) then inr tt else inl (complete (ck_es3 es) (set_state c InProgress)).
Definition ck_answers (es : list expn) : list Z :=
  discard_answers es ++ model_answers pred (ck_es1 es) ++ if pot_empty (ck_es2 es) then [] else complete_answers (ck_es3 es).
Definition ck_nodes (nodes : list nat) (es : list expn) : list nat :=
  if pot_empty (ck_es2 es) then ck_nodes2 nodes es else complete_nodes (ck_nodes2 nodes es) (ck_es3 es).
Definition ck_events (idof : nat -> Z) (nodes : list nat) (es : list expn) (cur : Z) : list lev :=
  discard_events idof nodes es cur ++
  zipw mk (cids idof (ck_es1 es)) (model_answers pred (ck_es1 es)) ++
  ldel (drop_by (ck_nodes1 nodes es) (map drops_zero (model_answers pred (ck_es1 es)))) ++
  if pot_empty (ck_es2 es) then [LFailure cls; LReport]
  else map tk (cids idof (ck_es2 es)) ++ complete_events idof (ck_nodes2 nodes es) (ck_es3 es).
Definition ck_blk (b : cblk) (idof : nat -> Z) (es : list expn) : cblk :=
  let b1 := with_cur (with_st b InProgress) 0 in
  if pot_empty (ck_es2 es) then with_st b1 Failed else complete_blk b1 idof (ck_es3 es).
Definition ck_es (es : list expn) : list expn := if pot_empty (ck_es2 es) then ck_es2 es else complete_es (ck_es3 es).

(* when the call has already failed the member does nothing (the model never gets there: its scenario stopped at the failure) *)
Lemma B_Gcheck_failed fuel h cb b es idof nodes evs ans : brep h cb b es idof nodes -> b_st b = Failed ->
  Gcheck keep tell cls vn fuel h evs ans (HPtr cb 0) pm = FOk (tt, h, evs, ans).
Proof. intros Hb Hs. unfold Gcheck. rewrite (B_hasFailed fuel h cb b es idof nodes evs ans Hb), Hs. reflexivity. Qed.

Lemma B_Gcheck fuel h cb b es idof nodes evs rest : brep h cb b es idof nodes -> is_failed (b_st b) = false -> (ncand es < fuel)%nat ->
  exists h',
    Gcheck keep tell cls vn fuel h evs (ck_answers es ++ rest) (HPtr cb 0) pm = FOk (tt, h', evs ++ ck_events idof nodes es (b_cur b), rest) /\
    brep h' cb (ck_blk b idof es) (ck_es es) idof (ck_nodes nodes es) /\ cframe h h' cb nodes (ck_nodes nodes es).
Proof.
  intros Hb Hs Hf. unfold Gcheck. rewrite (B_hasFailed fuel h cb b es idof nodes evs _ Hb), Hs. cbn [b2z]. change (z2b 0) with false. cbv beta iota zeta.
  destruct (B_setState fuel h cb _ es idof nodes evs (ck_answers es ++ rest) InProgress 0 eq_refl Hb) as [h1 [R1 [Hb1 F1]]].
  rewrite R1. cbv beta iota zeta.
  unfold ck_answers, ck_events, ck_blk, ck_es, ck_nodes. rewrite <- !app_assoc.
  set (tail := (if pot_empty (ck_es2 es) then [] else complete_answers (ck_es3 es)) ++ rest).
  destruct (B_discard fuel h1 cb _ es idof nodes evs (model_answers pred (ck_es1 es) ++ tail) Hb1 Hf) as [h2 [R2 [Hb2 F2]]].
  rewrite R2. cbv beta iota zeta. cbn [b_cur with_st] in *. fold (ck_es1 es) in Hb2. fold (ck_nodes1 nodes es) in Hb2, F2.
  rewrite (B_padd _ _ _ _ _ _ 6 Hb2) by lia.
  assert (Hf1 : (ncand (ck_es1 es) < fuel)%nat).
  { unfold ck_es1. rewrite discard_eq. pose proof (ncand_unmatching (for_cur uncur es)). rewrite ncand_for_cur in H by reflexivity. lia. }
  destruct (B_keep _ _ _ Hkeep fuel h2 cb _ (ck_es1 es) idof (ck_nodes1 nodes es) (evs ++ discard_events idof nodes es (b_cur b)) tail Hb2 Hf1)
    as [h3 [R3 [Hb3 F3]]].
  cbv beta in R3. rewrite R3. cbv beta iota zeta. fold (ck_es2 es) in Hb3. fold (ck_nodes2 nodes es) in Hb3, F3.
  rewrite (B_padd _ _ _ _ _ _ 6 Hb3) by lia. rewrite (B_isEmpty fuel h3 cb _ _ idof _ _ _ Hb3). cbv beta iota zeta. rewrite b2z_z2b.
  pose proof (cframe_trans _ _ _ _ _ _ _ F1 (cframe_trans _ _ _ _ _ _ _ F2 F3)) as F123. unfold tail.
  destruct (pot_empty (ck_es2 es)).
  - cbn [app].
    destruct (B_failTest fuel h3 cb _ _ idof _
                (((evs ++ discard_events idof nodes es (b_cur b)) ++ zipw mk (cids idof (ck_es1 es)) (model_answers pred (ck_es1 es)) ++
                  ldel (drop_by (ck_nodes1 nodes es) (map drops_zero (model_answers pred (ck_es1 es))))) ++ [LFailure cls])
                rest Hb3) as [h4 [R4 [Hb4 F4]]].
    rewrite R4. cbn [b_st with_st with_cur is_failed]. exists h4. split; [rewrite <- !app_assoc; reflexivity|]. split; [exact Hb4|].
    exact (cframe_trans _ _ _ _ _ _ _ F123 F4).
  - assert (Hf2 : (ncand (ck_es2 es) < fuel)%nat) by (pose proof (ncand_keep_if pred (ck_es1 es)); unfold ck_es2; lia).
    destruct (B_tell _ _ Htell markf fuel h3 cb _ (ck_es2 es) idof (ck_nodes2 nodes es)
                ((evs ++ discard_events idof nodes es (b_cur b)) ++ zipw mk (cids idof (ck_es1 es)) (model_answers pred (ck_es1 es)) ++
                  ldel (drop_by (ck_nodes1 nodes es) (map drops_zero (model_answers pred (ck_es1 es)))))
                (complete_answers (ck_es3 es) ++ rest) Hmark_pot Hb3 Hf2) as [R4 Hb4].
    cbv beta in R4. rewrite (B_padd _ _ _ _ _ _ 6 Hb3) by lia. rewrite R4. cbv beta iota zeta. fold (ck_es3 es) in Hb4.
    assert (Hf3 : (ncand (ck_es3 es) < fuel)%nat) by (unfold ck_es3; rewrite ncand_for_pot by exact Hmark_pot; exact Hf2).
    destruct (B_complete fuel h3 cb _ _ idof _
                (((evs ++ discard_events idof nodes es (b_cur b)) ++ zipw mk (cids idof (ck_es1 es)) (model_answers pred (ck_es1 es)) ++
                  ldel (drop_by (ck_nodes1 nodes es) (map drops_zero (model_answers pred (ck_es1 es))))) ++ map tk (cids idof (ck_es2 es)))
                rest Hb4 Hf3) as [h5 [R5 [Hb5 F5]]].
    rewrite R5. exists h5. split; [rewrite <- !app_assoc; reflexivity|]. split; [exact Hb5|].
    exact (cframe_trans _ _ _ _ _ _ _ F123 F5).
Qed.

Lemma ck_es3_nocur es : existsb e_cur (ck_es3 es) = false.
Proof. unfold ck_es3, ck_es2, ck_es1. rewrite existsb_cur_for_pot by exact Hmark_cur. rewrite existsb_cur_keep_if. apply discard_nocur. Qed.
Lemma ck_es2_nocur es : existsb e_cur (ck_es2 es) = false.
Proof. unfold ck_es2, ck_es1. rewrite existsb_cur_keep_if. apply discard_nocur. Qed.

(* on the model's call record *)
Lemma Gcheck_tie fuel h cb es idof nodes c nm x cur evs rest :
  arep h cb (blk_of nm c x cur) es idof nodes -> c_state c <> Failed -> (ncand es < fuel)%nat ->
  exists h',
    Gcheck keep tell cls vn fuel h evs (ck_answers es ++ rest) (HPtr cb 0) pm = FOk (tt, h', evs ++ ck_events idof nodes es cur, rest) /\
    cframe h h' cb nodes (ck_nodes nodes es) /\
    match ck_model es c with
    | inl (es', c') => acall_at h' cb es' idof (ck_nodes nodes es) c' nm x /\ fails (ck_events idof nodes es cur) = []
    | inr _ => acall_at h' cb (ck_es2 es) idof (ck_nodes nodes es) (set_state c Failed) nm x /\
               fails (ck_events idof nodes es cur) = [LFailure cls; LReport]
    end.
Proof.
  intros Ha Hs Hf. apply arep_brep in Ha. destruct Ha as [Hb Hc].
  assert (Hs' : is_failed (b_st (blk_of nm c x cur)) = false) by (cbn; destruct (c_state c); [reflexivity | reflexivity | contradiction]).
  destruct (B_Gcheck fuel h cb _ es idof nodes evs rest Hb Hs' Hf) as [h' [Hrun [Hb' Hfr]]]. cbn [b_cur blk_of] in Hrun.
  exists h'. split; [exact Hrun|]. split; [exact Hfr|].
  unfold ck_model, ck_blk, ck_es, ck_nodes, ck_events in *. rewrite !fails_app, fails_discard, Hmk, fails_ldel. cbn [app].
  destruct (pot_empty (ck_es2 es)).
  - split; [|reflexivity]. exists 0. apply arep_brep. split; [exact Hb'|]. apply nocur_code. apply ck_es2_nocur.
  - pose proof (complete_arep h' cb nm (set_state c InProgress) x 0 (ck_es3 es) idof _ Hb' (ck_es3_nocur es)) as H.
    destruct (complete (ck_es3 es) (set_state c InProgress)) as [es' c']. cbn [fst snd] in H. split; [exact H|].
    rewrite fails_app, Htk, fails_complete. reflexivity.
Qed.
End Check.

Notation ASKIN pm := (fun id a => LAskArg "hasInputParameter" id pm a).
Notation ASKOUT pm := (fun id a => LAskArg "hasOutputParameter" id pm a).
Notation TELLIN nmid := (fun id => LTellArg "inputParameterWasPassed" id nmid).
Notation TELLOUT nmid := (fun id => LTellArg "outputParameterWasPassed" id nmid).
Notation CLS_IN := "MockUnexpectedInputParameterFailure"%string.
Notation CLS_OUT := "MockUnexpectedOutputParameterFailure"%string.

Section Params.
Variable vn : Z -> Z.   (* value_name of the generated file: the name id of a named value *)

(* THEOREM 4a.  checkInputParameter(pm) (pm: the named value; the model's name n and value v of it are in the oracle's answers to
   hasInputParameter(pm)) on a represented call that has not failed ~ check_input n v:
   answers: the ones of discard (on the list where the current match is reset), hasInputParameter of the candidates left, then -- if
   a candidate is left -- the ones of complete on the list where inputParameterWasPassed(value_name pm) has marked the candidates;
   inl: represented result; inr: one MockUnexpectedInputParameterFailure constructed and reported, state Failed (model: FParamValue or
   FParamName, one class, the text is the constructor's) *)
Theorem checkInputParameter_tie fuel h cb es idof nodes c nm x cur evs rest pm n v :
  arep h cb (blk_of nm c x cur) es idof nodes -> c_state c <> Failed -> (ncand es < fuel)%nat ->
  let A := ck_answers (has_input n v) (mark n) es in
  let E := ck_events CLS_IN (has_input n v) (mark n) (ASKIN pm) (TELLIN (vn pm)) idof nodes es cur in
  let N := ck_nodes (has_input n v) (mark n) nodes es in
  exists h',
    src_acall_checkInputParameter vn fuel h evs (A ++ rest) (HPtr cb 0) pm = FOk (tt, h', evs ++ E, rest) /\
    cframe h h' cb nodes N /\
    match check_input n v es c with
    | inl (es', c') => acall_at h' cb es' idof N c' nm x /\ fails E = []
    | inr fl => acall_at h' cb (keep_if (has_input n v) (discard es)) idof N (set_state c Failed) nm x /\
                fails E = [LFailure (fail_class (f_kind fl)); LReport]
    end.
Proof.
  intros Ha Hs Hf A E N. rewrite checkInputParameter_shape.
  destruct (Gcheck_tie src_mlist_onlyKeepExpectationsWithInputParameter src_mlist_parameterWasPassed CLS_IN vn pm (has_input n v) (mark n)
              (ASKIN pm) (TELLIN (vn pm)) (gonlyKeepExpectationsWithInputParameter_model pm n v) (gparameterWasPassed_model (vn pm))
              (mark_pot n) ltac:(reflexivity) (fails_zipw_askarg _ pm) (fails_tellarg _ (vn pm))
              fuel h cb es idof nodes c nm x cur evs rest Ha Hs Hf) as [h' [Hrun [Hfr Hm]]].
  exists h'. split; [exact Hrun|]. split; [exact Hfr|]. fold E N in Hm.
  unfold check_input. unfold ck_model, ck_es3, ck_es2, ck_es1 in Hm. change (c_name (set_state c InProgress)) with (c_name c).
  destruct (pot_empty (keep_if (has_input n v) (discard es))); [|exact Hm].
  destruct Hm as [H1 H2]. split; [exact H1|]. rewrite H2. cbn [history_related history f_kind].
  destruct (existsb _ _); reflexivity.
Qed.
Theorem checkInputParameter_failed fuel h cb es idof nodes c nm x cur evs ans pm :
  arep h cb (blk_of nm c x cur) es idof nodes -> c_state c = Failed ->
  src_acall_checkInputParameter vn fuel h evs ans (HPtr cb 0) pm = FOk (tt, h, evs, ans).
Proof.
  intros Ha Hs. apply arep_brep in Ha. destruct Ha as [Hb _]. rewrite checkInputParameter_shape.
  exact (B_Gcheck_failed _ _ _ vn pm fuel h cb _ es idof nodes evs ans Hb Hs).
Qed.

(* THEOREM 4b.  checkOutputParameter ~ check_output after its first line (addOutputParameter, which only concerns c_outs, is not
   translated): the same with hasOutputParameter / outputParameterWasPassed / MockUnexpectedOutputParameterFailure (FOutType or FOutName) *)
Theorem checkOutputParameter_tie fuel h cb es idof nodes c nm x cur evs rest pm n buf :
  arep h cb (blk_of nm c x cur) es idof nodes -> c_state c <> Failed -> (ncand es < fuel)%nat ->
  let A := ck_answers (has_output n) (mark_out n) es in
  let E := ck_events CLS_OUT (has_output n) (mark_out n) (ASKOUT pm) (TELLOUT (vn pm)) idof nodes es cur in
  let N := ck_nodes (has_output n) (mark_out n) nodes es in
  exists h',
    src_acall_checkOutputParameter vn fuel h evs (A ++ rest) (HPtr cb 0) pm = FOk (tt, h', evs ++ E, rest) /\
    cframe h h' cb nodes N /\
    match check_output n buf es c with
    | inl (es', c') => acall_at h' cb es' idof N c' nm x /\ fails E = []
    | inr fl => acall_at h' cb (keep_if (has_output n) (discard es)) idof N (set_state c Failed) nm x /\
                fails E = [LFailure (fail_class (f_kind fl)); LReport]
    end.
Proof.
  intros Ha Hs Hf A E N. rewrite checkOutputParameter_shape.
  set (c0 := set_couts c (c_outs c ++ [(n, buf)])).
  change (blk_of nm c x cur) with (blk_of nm c0 x cur) in Ha.
  destruct (Gcheck_tie src_mlist_onlyKeepExpectationsWithOutputParameter src_mlist_outputParameterWasPassed CLS_OUT vn pm (has_output n) (mark_out n)
              (ASKOUT pm) (TELLOUT (vn pm)) (gonlyKeepExpectationsWithOutputParameter_model pm n) (goutputParameterWasPassed_model (vn pm))
              (mark_out_pot n) ltac:(reflexivity) (fails_zipw_askarg _ pm) (fails_tellarg _ (vn pm))
              fuel h cb es idof nodes c0 nm x cur evs rest Ha Hs Hf) as [h' [Hrun [Hfr Hm]]].
  exists h'. split; [exact Hrun|]. split; [exact Hfr|]. fold E N in Hm.
  unfold check_output. fold c0. unfold ck_model, ck_es3, ck_es2, ck_es1 in Hm. change (c_name (set_state c0 InProgress)) with (c_name c).
  destruct (pot_empty (keep_if (has_output n) (discard es))); [|exact Hm].
  destruct Hm as [H1 H2]. split; [exact H1|]. rewrite H2. cbn [history_related history f_kind].
  destruct (existsb _ _); reflexivity.
Qed.
Theorem checkOutputParameter_failed fuel h cb es idof nodes c nm x cur evs ans pm :
  arep h cb (blk_of nm c x cur) es idof nodes -> c_state c = Failed ->
  src_acall_checkOutputParameter vn fuel h evs ans (HPtr cb 0) pm = FOk (tt, h, evs, ans).
Proof.
  intros Ha Hs. apply arep_brep in Ha. destruct Ha as [Hb _]. rewrite checkOutputParameter_shape.
  exact (B_Gcheck_failed _ _ _ vn pm fuel h cb _ es idof nodes evs ans Hb Hs).
Qed.
End Params.

(* ================================================================== 7. onObject ~ on_object *)
Notation ASKOBJ ob := (fun id a => LAskArg "relatesToObject" id ob a).
Notation CLS_OBJ := "MockUnexpectedObjectFailure"%string.
Section OnObject.
Variables (ob : Z) (a : Z).   (* the object pointer as the heap sees it / as the model sees it: related by the oracle's answers *)
Definition oo_es1 (es : list expn) : list expn := keep_if (relates_obj a) es.
Definition oo_es2 (es : list expn) : list expn := for_pot pass_obj (oo_es1 es).
Definition oo_nodes1 (nodes : list nat) (es : list expn) : list nat := keep_by nodes (map drops_zero (model_answers (relates_obj a) es)).
(* nocur: the call has no matching expectation (matchingExpectation_ == NULL) *)
Definition oo_answers (nocur : bool) (es : list expn) : list Z :=
  model_answers (relates_obj a) es ++ if nocur && negb (pot_empty (oo_es1 es)) then complete_answers (oo_es2 es) else [].
Definition oo_nodes (nocur : bool) (nodes : list nat) (es : list expn) : list nat :=
  if nocur && negb (pot_empty (oo_es1 es)) then complete_nodes (oo_nodes1 nodes es) (oo_es2 es) else oo_nodes1 nodes es.
Definition oo_events (nocur : bool) (idof : nat -> Z) (nodes : list nat) (es : list expn) : list lev :=
  zipw (ASKOBJ ob) (cids idof es) (model_answers (relates_obj a) es) ++
  ldel (drop_by nodes (map drops_zero (model_answers (relates_obj a) es))) ++
  if nocur && pot_empty (oo_es1 es) then [LFailure CLS_OBJ; LReport]
  else map (LTell "wasPassedToObject") (cids idof (oo_es1 es)) ++
       if nocur then complete_events idof (oo_nodes1 nodes es) (oo_es2 es) else [].
Definition oo_blk (nocur : bool) (b : cblk) (idof : nat -> Z) (es : list expn) : cblk :=
  if nocur then (if pot_empty (oo_es1 es) then with_st b Failed else complete_blk b idof (oo_es2 es)) else b.
Definition oo_es (nocur : bool) (es : list expn) : list expn :=
  if nocur then (if pot_empty (oo_es1 es) then oo_es1 es else complete_es (oo_es2 es)) else oo_es2 es.

Lemma B_onObject_failed fuel h cb b es idof nodes evs ans : brep h cb b es idof nodes -> b_st b = Failed ->
  src_acall_onObject fuel h evs ans (HPtr cb 0) ob = FOk (tt, h, evs, ans).
Proof. intros Hb Hs. unfold src_acall_onObject. rewrite (B_hasFailed fuel h cb b es idof nodes evs ans Hb), Hs. reflexivity. Qed.

Lemma B_onObject fuel h cb b es idof nodes evs rest : brep h cb b es idof nodes -> is_failed (b_st b) = false -> (ncand es < fuel)%nat ->
  let nocur := b_cur b =? 0 in
  exists h',
    src_acall_onObject fuel h evs (oo_answers nocur es ++ rest) (HPtr cb 0) ob = FOk (tt, h', evs ++ oo_events nocur idof nodes es, rest) /\
    brep h' cb (oo_blk nocur b idof es) (oo_es nocur es) idof (oo_nodes nocur nodes es) /\ cframe h h' cb nodes (oo_nodes nocur nodes es).
Proof.
  intros Hb Hs Hf nocur. unfold src_acall_onObject.
  rewrite (B_hasFailed fuel h cb b es idof nodes evs _ Hb), Hs. cbn [b2z]. change (z2b 0) with false. cbv beta iota zeta.
  rewrite (B_padd _ _ _ _ _ _ 6 Hb) by lia.
  unfold oo_answers, oo_events, oo_blk, oo_es, oo_nodes. rewrite <- app_assoc.
  set (tail := (if nocur && negb (pot_empty (oo_es1 es)) then complete_answers (oo_es2 es) else []) ++ rest).
  destruct (B_keep _ _ _ (gonlyKeepExpectationsOnObject_model ob a) fuel h cb _ es idof nodes evs tail Hb Hf) as [h1 [R1 [Hb1 F1]]].
  cbv beta in R1. rewrite R1. cbv beta iota zeta. fold (oo_es1 es) in Hb1. fold (oo_nodes1 nodes es) in Hb1, F1.
  rewrite (B_padd _ _ _ _ _ _ 5 Hb1) by lia. rewrite (B_load_cur _ _ _ _ _ _ Hb1). rewrite z2b_lnot, z2b_cne0, negb_involutive. fold nocur.
  assert (Hf1 : (ncand (oo_es1 es) < fuel)%nat) by (pose proof (ncand_keep_if (relates_obj a) es); unfold oo_es1; lia).
  set (evs1 := evs ++ zipw (ASKOBJ ob) (cids idof es) (model_answers (relates_obj a) es) ++
                ldel (drop_by nodes (map drops_zero (model_answers (relates_obj a) es)))).
  assert (Eevs : forall t, evs ++ zipw (ASKOBJ ob) (cids idof es) (model_answers (relates_obj a) es) ++
                  ldel (drop_by nodes (map drops_zero (model_answers (relates_obj a) es))) ++ t = evs1 ++ t)
    by (intro t; unfold evs1; rewrite <- !app_assoc; reflexivity).
  rewrite Eevs. fold evs1 in R1 |- *. unfold tail.
  destruct nocur eqn:En; cbn [andb]; cbv beta iota zeta.
  - rewrite (B_padd _ _ _ _ _ _ 6 Hb1) by lia. rewrite (B_isEmpty fuel h1 cb _ _ idof _ _ _ Hb1). cbv beta iota zeta. rewrite b2z_z2b.
    destruct (pot_empty (oo_es1 es)); cbn [negb]; cbv beta iota zeta.
    + cbn [app].
      destruct (B_failTest fuel h1 cb _ _ idof _ (evs1 ++ [LFailure CLS_OBJ]) rest Hb1) as [h2 [R2 [Hb2 F2]]].
      rewrite R2, Hs. exists h2. split; [rewrite <- !app_assoc; reflexivity|]. split; [exact Hb2|]. exact (cframe_trans _ _ _ _ _ _ _ F1 F2).
    + rewrite (B_padd _ _ _ _ _ _ 6 Hb1) by lia.
      destruct (B_tell _ _ gwasPassedToObject_model pass_obj fuel h1 cb _ (oo_es1 es) idof _ evs1 (complete_answers (oo_es2 es) ++ rest)
                  pass_obj_pot Hb1 Hf1) as [R2 Hb2].
      rewrite R2. cbv beta iota zeta. fold (oo_es2 es) in Hb2.
      rewrite (B_padd _ _ _ _ _ _ 5 Hb1) by lia. rewrite (B_load_cur _ _ _ _ _ _ Hb1). rewrite z2b_lnot, z2b_cne0, negb_involutive. fold nocur. rewrite En.
      assert (Hf2 : (ncand (oo_es2 es) < fuel)%nat) by (unfold oo_es2; rewrite ncand_for_pot by exact pass_obj_pot; exact Hf1).
      destruct (B_complete fuel h1 cb _ _ idof _ (evs1 ++ map (LTell "wasPassedToObject") (cids idof (oo_es1 es))) rest Hb2 Hf2)
        as [h3 [R3 [Hb3 F3]]].
      rewrite R3. cbv beta iota zeta. exists h3. split; [rewrite <- !app_assoc; reflexivity|]. split; [exact Hb3|].
      exact (cframe_trans _ _ _ _ _ _ _ F1 F3).
  - rewrite (B_padd _ _ _ _ _ _ 6 Hb1) by lia. cbn [app].
    destruct (B_tell _ _ gwasPassedToObject_model pass_obj fuel h1 cb _ (oo_es1 es) idof _ evs1 rest pass_obj_pot Hb1 Hf1) as [R2 Hb2].
    rewrite R2. cbv beta iota zeta. fold (oo_es2 es) in Hb2.
    rewrite (B_padd _ _ _ _ _ _ 5 Hb1) by lia. rewrite (B_load_cur _ _ _ _ _ _ Hb1). rewrite z2b_lnot, z2b_cne0, negb_involutive. fold nocur. rewrite En.
    cbv beta iota zeta. exists h1. split; [rewrite app_nil_r; reflexivity|]. split; [exact Hb2 | exact F1].
Qed.
End OnObject.

(* THEOREM 4c.  onObject(ob) on a represented call that has not failed ~ on_object a: relatesToObject asked of every candidate; without
   a current match and without a candidate left: one MockUnexpectedObjectFailure constructed and reported, state Failed
   (FObjectUnexpected); otherwise the candidates left are told wasPassedToObject, and `complete` follows only when there is no
   current match (the state is not touched) *)
Theorem onObject_tie fuel h cb es idof nodes c nm x cur evs rest ob a :
  arep h cb (blk_of nm c x cur) es idof nodes -> c_state c <> Failed -> (ncand es < fuel)%nat ->
  let nocur := negb (existsb e_cur es) in
  let A := oo_answers a nocur es in let E := oo_events ob a nocur idof nodes es in let N := oo_nodes a nocur nodes es in
  exists h',
    src_acall_onObject fuel h evs (A ++ rest) (HPtr cb 0) ob = FOk (tt, h', evs ++ E, rest) /\
    cframe h h' cb nodes N /\
    match on_object a es c with
    | inl (es', c') => acall_at h' cb es' idof N c' nm x /\ fails E = []
    | inr fl => acall_at h' cb (keep_if (relates_obj a) es) idof N (set_state c Failed) nm x /\
                fails E = [LFailure (fail_class (f_kind fl)); LReport]
    end.
Proof.
  intros Ha Hs Hf nocur A E N. apply arep_brep in Ha. destruct Ha as [Hb Hc]. cbn [b_cur blk_of] in Hc.
  assert (Hs' : is_failed (b_st (blk_of nm c x cur)) = false) by (cbn; destruct (c_state c); [reflexivity | reflexivity | contradiction]).
  pose proof (cur_code_zero idof es cur (brep_idof _ _ _ _ _ _ Hb) Hc) as Hz.
  assert (Hn : (cur =? 0) = nocur).
  { unfold nocur. destruct (existsb e_cur es) eqn:Ee; cbn [negb].
    - apply Z.eqb_neq. intro E0. apply Hz in E0. discriminate E0.
    - apply Z.eqb_eq. apply Hz. reflexivity. }
  destruct (B_onObject ob a fuel h cb _ es idof nodes evs rest Hb Hs' Hf) as [h' [Hrun [Hb' Hfr]]]. cbn [b_cur blk_of] in Hrun, Hb', Hfr.
  rewrite Hn in Hrun, Hb', Hfr. exists h'. split; [exact Hrun|]. split; [exact Hfr|].
  unfold on_object. rewrite existsb_cur_keep_if. fold nocur. fold (oo_es1 a es). fold (oo_es2 a es).
  unfold E, N, oo_events, oo_nodes, oo_blk, oo_es in *. rewrite !fails_app, fails_zipw_askarg, fails_ldel. cbn [app].
  destruct nocur eqn:En; cbn [andb].
  - assert (Hnc2 : existsb e_cur (oo_es2 a es) = false).
    { unfold oo_es2, oo_es1. rewrite existsb_cur_for_pot by reflexivity. rewrite existsb_cur_keep_if.
      unfold nocur in En. destruct (existsb e_cur es); [discriminate En | reflexivity]. }
    destruct (pot_empty (oo_es1 a es)); cbn [negb] in *.
    + split; [|reflexivity]. exists cur. apply arep_brep. split; [exact Hb'|]. unfold oo_es1. rewrite cur_code_keep_if. exact Hc.
    + pose proof (complete_arep h' cb nm c x cur (oo_es2 a es) idof _ Hb' Hnc2) as H.
      destruct (complete (oo_es2 a es) c) as [es' c']. cbn [fst snd] in H. split; [exact H|].
      rewrite fails_app, fails_tell, fails_complete. reflexivity.
  - split; [|rewrite fails_app, fails_tell; reflexivity]. exists cur. apply arep_brep. split; [exact Hb'|].
    unfold oo_es2, oo_es1. rewrite cur_code_for_pot by reflexivity. rewrite cur_code_keep_if. exact Hc.
Qed.
Theorem onObject_failed fuel h cb es idof nodes c nm x cur evs ans ob :
  arep h cb (blk_of nm c x cur) es idof nodes -> c_state c = Failed ->
  src_acall_onObject fuel h evs ans (HPtr cb 0) ob = FOk (tt, h, evs, ans).
Proof. intros Ha Hs. apply arep_brep in Ha. destruct Ha as [Hb _]. exact (B_onObject_failed ob fuel h cb _ es idof nodes evs ans Hb Hs). Qed.

(* ================================================================== 8. checkExpectations ~ check_call *)
Notation RESET := (LTell "resetActualCallMatchingState").
Notation ASKP := (LAsk "areParametersMatchingActualCall").
Notation CLS_PARAM := "MockExpectedParameterDidntHappenFailure"%string.
Notation CLS_NOOBJ := "MockExpectedObjectDidntHappenFailure"%string.
Lemma st_ne0 s : z2b (c_ne (cw 32 true (scode s)) 0) = match s with InProgress => false | _ => true end.
Proof. destruct s; reflexivity. Qed.
Lemma st_eq2 s : z2b (c_eq (cw 32 true (scode s)) 2) = is_succeeded s.
Proof. destruct s; reflexivity. Qed.

Definition ce_has_fin (es : list expn) : bool := existsb (fun e => e_pot e && is_matching_fin e) es.
Definition ce_missing (es : list expn) : bool := existsb (fun e => e_pot e && negb (params_matching e)) es.
Definition ce_sp (es : list expn) : list Z := upto_first no (map (fun e => b2z (params_matching e)) (filter e_pot es)).
Definition ce_flags (es : list expn) : list bool := first_flag yes (model_answers is_matching es).

Section CheckExpectations.
(* g: what the model does to the expectation checkExpectations finalizes (finalizeActualCallMatch, callWasMade);
   fc: what it does to the matching expectation of a call that has succeeded (callWasMade) -- both are the expectation's business *)
Variables (g fc : expn -> expn).
Hypothesis Hg : forall e, e_pot (g e) = e_pot e.
Hypothesis Hfc : forall e, e_pot (fc e) = e_pot e.
Definition ce_taken (es : list expn) : option (list expn) := take_first is_matching g es.

Definition ce_answers (chk : bool) (st : cstate) (es : list expn) : list Z :=
  if chk then [] else
  match st with
  | InProgress =>
      search_answers is_matching_fin es ++
      if ce_has_fin es then []
      else search_answers is_matching es ++ match ce_taken es with Some _ => [] | None => ce_sp es end
  | _ => []
  end.
Definition ce_events (chk : bool) (st : cstate) (cur ord : Z) (idof : nat -> Z) (nodes : list nat) (es : list expn) : list lev :=
  if chk then [] else
  match st with
  | Succeeded => [LTellArg "callWasMade" cur ord] ++ map RESET (cids idof es)
  | Failed => map RESET (cids idof es)
  | InProgress =>
      zipw ASKFIN (cids idof es) (search_answers is_matching_fin es) ++
      if ce_has_fin es then [LAbort]
      else zipw ASKM (cids idof es) (search_answers is_matching es) ++
           match ce_taken es with
           | Some es' =>
               ldel (drop_by nodes (ce_flags es)) ++
               [LTell "finalizeActualCallMatch" (found_id idof is_matching es);
                LTellArg "callWasMade" (found_id idof is_matching es) ord] ++ map RESET (cids idof es')
           | None => zipw ASKP (cids idof es) (ce_sp es) ++ [LFailure (if ce_missing es then CLS_PARAM else CLS_NOOBJ); LReport]
           end
  end.
Definition ce_es (chk : bool) (st : cstate) (es : list expn) : list expn :=
  if chk then es else
  match st with
  | Succeeded => for_pot reset_e (for_cur fc es)
  | Failed => for_pot reset_e es
  | InProgress => if ce_has_fin es then es else match ce_taken es with Some es' => for_pot reset_e es' | None => es end
  end.
Definition ce_nodes (chk : bool) (st : cstate) (nodes : list nat) (es : list expn) : list nat :=
  if chk then nodes else
  match st with
  | InProgress => if ce_has_fin es then nodes else match ce_taken es with Some _ => keep_by nodes (ce_flags es) | None => nodes end
  | _ => nodes
  end.
Definition ce_blk (b : cblk) (idof : nat -> Z) (es : list expn) : cblk :=
  if b_chk b then b else
  let b1 := with_chk b true in
  match b_st b with
  | InProgress =>
      if ce_has_fin es then b1
      else match ce_taken es with
           | Some _ => with_st (with_cur b1 (found_id idof is_matching es)) Succeeded
           | None => with_st (with_cur b1 0) Failed
           end
  | _ => b1
  end.

Lemma B_checkExpectations fuel h cb b es idof nodes evs rest : brep h cb b es idof nodes -> (ncand es < fuel)%nat ->
  exists h',
    src_acall_checkExpectations fuel h evs (ce_answers (b_chk b) (b_st b) es ++ rest) (HPtr cb 0) =
      FOk (tt, h', evs ++ ce_events (b_chk b) (b_st b) (b_cur b) (b_ord b) idof nodes es, rest) /\
    brep h' cb (ce_blk b idof es) (ce_es (b_chk b) (b_st b) es) idof (ce_nodes (b_chk b) (b_st b) nodes es) /\
    cframe h h' cb nodes (ce_nodes (b_chk b) (b_st b) nodes es).
Proof.
  intros Hb Hf. unfold src_acall_checkExpectations. rewrite (B_padd _ _ _ _ _ _ 4 Hb) by lia. rewrite (B_load_chk _ _ _ _ _ _ Hb), b2z_z2b.
  unfold ce_answers, ce_events, ce_es, ce_nodes, ce_blk.
  destruct (b_chk b) eqn:Ec.
  - exists h. cbn [app]. rewrite app_nil_r. split; [reflexivity|]. split; [exact Hb | apply cframe_refl].
  - destruct (B_store_chk h cb b es idof nodes Hb) as [h1 [S1 [Hb1 F1]]]. rewrite S1. cbv beta iota zeta.
    rewrite (B_padd _ _ _ _ _ _ 3 Hb1) by lia. rewrite (B_load_st _ _ _ _ _ _ Hb1). cbn [b_st with_chk]. rewrite st_ne0, st_eq2.
    destruct (b_st b) eqn:Es; cbn [is_succeeded]; cbv beta iota zeta.
    + (* InProgress *)
      rewrite (B_padd _ _ _ _ _ _ 6 Hb1) by lia. rewrite <- app_assoc.
      pose proof (B_has _ _ _ _ _ ghasFinalizedMatchingExpectations_model fuel h1 cb (with_chk b true) es idof nodes evs) as Hh. cbv zeta in Hh.
      change (upto_first yes (map (fun e => b2z (is_matching_fin e)) (filter e_pot es))) with (search_answers is_matching_fin es) in Hh.
      rewrite (Hh _ Hb1 Hf). clear Hh. cbv beta iota zeta. rewrite b2z_z2b. fold (ce_has_fin es).
      destruct (ce_has_fin es) eqn:Ef.
      * destruct fuel as [|fuel']; [lia|]. cbn [src_acall_checkExpectations_loop1 app]. cbv beta iota zeta.
        exists h1. split; [rewrite <- !app_assoc; reflexivity|]. split; [exact Hb1 | exact F1].
      * cbv beta iota zeta. rewrite (B_padd _ _ _ _ _ _ 6 Hb1) by lia. rewrite <- app_assoc.
        pose proof (B_remove _ _ _ gremoveFirstMatchingExpectation_model g fuel h1 cb (with_chk b true) es idof nodes
                      (evs ++ zipw ASKFIN (cids idof es) (search_answers is_matching_fin es))) as Hr. cbv zeta in Hr.
        fold (ce_taken es) in Hr. fold (ce_flags es) in Hr.
        destruct (ce_taken es) as [es'|] eqn:Et.
        -- destruct (Hr rest Hg Hb1 Hf) as [h2 [j [e [Hfound [Hn [Hn' [R2 [Hb2 F2]]]]]]]]. clear Hr. cbn [app].
           rewrite R2. cbv beta iota zeta. unfold found_id. rewrite Hfound.
           rewrite (B_padd _ _ _ _ _ _ 5 Hb2) by lia.
           destruct (B_store_cur h2 cb _ es' idof _ (idof j) Hb2) as [h3 [S3 [Hb3 F3]]]. rewrite S3. cbv beta iota zeta.
           rewrite (B_padd _ _ _ _ _ _ 5 Hb3) by lia. rewrite (B_load_cur _ _ _ _ _ _ Hb3). cbn [b_cur with_cur].
           rewrite z2b_cne0, (idof_nz idof es j e (brep_idof _ _ _ _ _ _ Hb) Hn). cbn [negb]. cbv beta iota zeta.
           set (evs3 := ((evs ++ zipw ASKFIN (cids idof es) (search_answers is_matching_fin es)) ++
                         zipw ASKM (cids idof es) (search_answers is_matching es) ++ ldel (drop_by nodes (ce_flags es))) ++
                        [LTell "finalizeActualCallMatch" (idof j)]).
           destruct (B_callHasSucceeded fuel h3 cb _ es' idof _ evs3 rest Hb3) as [h4 [R4 [Hb4 F4]]]. rewrite R4. cbv beta iota zeta.
           rewrite (B_padd _ _ _ _ _ _ 5 Hb4) by lia. rewrite (B_load_cur _ _ _ _ _ _ Hb4). cbn [b_cur with_cur with_st].
           rewrite (B_padd _ _ _ _ _ _ 1 Hb4) by lia. rewrite (B_load_ord _ _ _ _ _ _ Hb4). cbn [b_ord with_cur with_st with_chk].
           cbv beta iota zeta. rewrite (B_padd _ _ _ _ _ _ 6 Hb4) by lia.
           assert (Hf4 : (ncand es' < fuel)%nat).
           { pose proof (take_first_pos is_matching g [] Hg es 0) as Ht. unfold ce_taken in Et. rewrite Et in Ht. destruct Ht as [_ [Hp _]].
             unfold ncand. rewrite <- (pos_from_length e_pot es' 0), Hp.
             assert (L : forall (xs : list nat) ds, (length (keep_by xs ds) <= length xs)%nat).
             { clear. induction xs as [|x xs IH]; intros [|d ds]; cbn; try lia. specialize (IH ds). destruct d; cbn; lia. }
             pose proof (L (pos_from e_pot 0 es) (first_flag yes (model_answers is_matching es ++ []))) as L'.
             rewrite pos_from_length in L'. unfold ncand in Hf. lia. }
           destruct (B_tell _ _ gresetActualCallMatchingState_model reset_e fuel h4 cb _ es' idof _
                       (evs3 ++ [LTellArg "callWasMade" (idof j) (b_ord b)]) rest reset_e_pot Hb4 Hf4) as [R5 Hb5].
           rewrite R5. cbv beta iota zeta. exists h4. split; [unfold evs3; rewrite <- !app_assoc; reflexivity|]. split; [exact Hb5|].
           exact (cframe_trans _ _ _ _ _ _ _ F1 (cframe_trans _ _ _ _ _ _ _ F2 (cframe_trans _ _ _ _ _ _ _ F3 F4))).
        -- destruct (Hr (ce_sp es ++ rest) Hg Hb1 Hf) as [Hfound R2]. clear Hr. rewrite R2. cbv beta iota zeta.
           rewrite (B_padd _ _ _ _ _ _ 5 Hb1) by lia.
           destruct (B_store_cur h1 cb _ es idof _ 0 Hb1) as [h3 [S3 [Hb3 F3]]]. rewrite S3. cbv beta iota zeta.
           rewrite (B_padd _ _ _ _ _ _ 5 Hb3) by lia. rewrite (B_load_cur _ _ _ _ _ _ Hb3). cbn [b_cur with_cur].
           change (z2b (c_ne 0 0)) with false. cbv beta iota zeta. rewrite (B_padd _ _ _ _ _ _ 6 Hb3) by lia.
           pose proof (B_has _ _ _ _ _ ghasUnmatchingExpectationsBecauseOfMissingParameters_model fuel h3 cb _ es idof nodes
                         ((evs ++ zipw ASKFIN (cids idof es) (search_answers is_matching_fin es)) ++
                          zipw ASKM (cids idof es) (search_answers is_matching es)) rest Hb3 Hf) as Hh. cbv zeta in Hh.
           fold (ce_sp es) in Hh. rewrite Hh. clear Hh. cbv beta iota zeta. rewrite b2z_z2b. fold (ce_missing es).
           set (evs3 := ((evs ++ zipw ASKFIN (cids idof es) (search_answers is_matching_fin es)) ++
                         zipw ASKM (cids idof es) (search_answers is_matching es)) ++ zipw ASKP (cids idof es) (ce_sp es)).
           destruct (ce_missing es).
           ++ destruct (B_failTest fuel h3 cb _ es idof nodes (evs3 ++ [LFailure CLS_PARAM]) rest Hb3) as [h4 [R4 [Hb4 F4]]].
              rewrite R4. cbn [b_st with_cur with_chk is_failed]. rewrite Es. cbn [is_failed].
              exists h4. split; [unfold evs3; rewrite <- !app_assoc; reflexivity|]. split; [exact Hb4|].
              exact (cframe_trans _ _ _ _ _ _ _ F1 (cframe_trans _ _ _ _ _ _ _ F3 F4)).
           ++ destruct (B_failTest fuel h3 cb _ es idof nodes (evs3 ++ [LFailure CLS_NOOBJ]) rest Hb3) as [h4 [R4 [Hb4 F4]]].
              rewrite R4. cbn [b_st with_cur with_chk is_failed]. rewrite Es. cbn [is_failed].
              exists h4. split; [unfold evs3; rewrite <- !app_assoc; reflexivity|]. split; [exact Hb4|].
              exact (cframe_trans _ _ _ _ _ _ _ F1 (cframe_trans _ _ _ _ _ _ _ F3 F4)).
    + (* Succeeded *)
      rewrite (B_padd _ _ _ _ _ _ 5 Hb1) by lia. rewrite (B_load_cur _ _ _ _ _ _ Hb1).
      rewrite (B_padd _ _ _ _ _ _ 1 Hb1) by lia. rewrite (B_load_ord _ _ _ _ _ _ Hb1). cbn [b_cur b_ord with_chk]. cbv beta iota zeta.
      rewrite (B_padd _ _ _ _ _ _ 6 Hb1) by lia.
      assert (Hb2 : brep h1 cb (with_chk b true) (for_cur fc es) idof nodes).
      { apply (brep_es _ _ _ _ _ _ _ Hb1); [apply cids_for_cur; exact Hfc | unfold for_cur; apply map_length]. }
      assert (Hf2 : (ncand (for_cur fc es) < fuel)%nat) by (rewrite ncand_for_cur by exact Hfc; exact Hf).
      destruct (B_tell _ _ gresetActualCallMatchingState_model reset_e fuel h1 cb _ (for_cur fc es) idof nodes
                  (evs ++ [LTellArg "callWasMade" (b_cur b) (b_ord b)]) ([] ++ rest) reset_e_pot Hb2 Hf2) as [R5 Hb5].
      rewrite R5. rewrite (cids_for_cur idof fc es Hfc). exists h1. split; [rewrite <- !app_assoc; reflexivity|]. split; [exact Hb5 | exact F1].
    + (* Failed *)
      rewrite (B_padd _ _ _ _ _ _ 6 Hb1) by lia.
      destruct (B_tell _ _ gresetActualCallMatchingState_model reset_e fuel h1 cb _ es idof nodes evs ([] ++ rest) reset_e_pot Hb1 Hf) as [R5 Hb5].
      rewrite R5. exists h1. split; [reflexivity|]. split; [exact Hb5 | exact F1].
Qed.
End CheckExpectations.

(* what the model does to the expectations when the call is checked *)
Definition g_check (order : N) (e : expn) : expn := call_was_made order (set_fin e true).
Lemma ce_taken_cur order idof es : existsb e_cur es = false ->
  match ce_taken (g_check order) es with
  | Some es' => cur_code idof (for_pot reset_e es') = Some (found_id idof is_matching es)
  | None => True
  end.
Proof.
  intro E. pose proof (take_first_cur is_matching (g_check order) ltac:(reflexivity) es 0 (nocur_pos es E)) as H. unfold ce_taken.
  destruct (take_first is_matching (g_check order) es) as [es'|]; [|exact I]. destruct H as [j [Hj Hp]].
  rewrite cur_code_for_pot by reflexivity. unfold cur_code, found_id, found_pos. rewrite Hp, Hj. reflexivity.
Qed.

(* THEOREM 5.  checkExpectations on a represented call ~ check_call (the oracle gives the candidates' answers to
   isMatchingActualCallAndFinalized up to the first yes, then isMatchingActualCall up to the first yes, then -- without a yes --
   areParametersMatchingActualCall up to the first no):
   - a second call does nothing;
   - Succeeded: matchingExpectation_ is told callWasMade(callOrder_) (cur = 0, a NULL receiver in the source, is excluded by call_inv
     below: a succeeded call has a matching expectation), then every candidate is told resetActualCallMatchingState;
   - Failed: the candidates are reset, nothing else;
   - InProgress (the model has no matching expectation then): FCannotHappen iff the LAbort event (and nothing else happens);
     otherwise the first plain match leaves the list, becomes matchingExpectation_, is told finalizeActualCallMatch and
     callWasMade(callOrder_), the state is Succeeded, the candidates left are reset; without a match one failure object --
     MockExpectedParameterDidntHappenFailure exactly when the model says FParamMissing, MockExpectedObjectDidntHappenFailure when it says
     FObjectMissing -- is constructed and reported, state Failed *)
Theorem checkExpectations_tie fuel h cb es idof nodes c nm x cur evs rest :
  arep h cb (blk_of nm c x cur) es idof nodes -> (c_state c = InProgress -> existsb e_cur es = false) -> (ncand es < fuel)%nat ->
  let g := g_check (c_order c) in let fc := call_was_made (c_order c) in
  let A := ce_answers g (c_checked c) (c_state c) es in
  let E := ce_events g (c_checked c) (c_state c) cur (Z.of_N (c_order c)) idof nodes es in
  let N := ce_nodes g (c_checked c) (c_state c) nodes es in
  exists h',
    src_acall_checkExpectations fuel h evs (A ++ rest) (HPtr cb 0) = FOk (tt, h', evs ++ E, rest) /\
    cframe h h' cb nodes N /\
    match check_call es c with
    | inl (es', c') => acall_at h' cb es' idof N c' nm x /\ fails E = []
    | inr fl =>
        match f_kind fl with
        | FCannotHappen => acall_at h' cb es idof N (set_checked c) nm x /\ fails E = [LAbort]
        | k => acall_at h' cb es idof N (set_state (set_checked c) Failed) nm x /\ fails E = [LFailure (fail_class k); LReport]
        end
    end.
Proof.
  intros Ha Hnc Hf g fc A E N. apply arep_brep in Ha. destruct Ha as [Hb Hc]. cbn [b_cur blk_of] in Hc.
  destruct (B_checkExpectations g fc ltac:(reflexivity) ltac:(reflexivity) fuel h cb _ es idof nodes evs rest Hb Hf) as [h' [Hrun [Hb' Hfr]]].
  cbn [b_chk b_st b_cur b_ord blk_of] in Hrun, Hb', Hfr. fold A E N in Hrun, Hfr. fold N in Hb'.
  exists h'. split; [exact Hrun|]. split; [exact Hfr|].
  unfold check_call. unfold ce_blk in Hb'. cbn [b_chk b_st blk_of] in Hb'. unfold E, ce_events, ce_es in *.
  destruct (c_checked c) eqn:Ec.
  - split; [|reflexivity]. exists cur. apply arep_brep. split; [exact Hb' | exact Hc].
  - change (c_state (set_checked c)) with (c_state c). change (c_order (set_checked c)) with (c_order c). cbv zeta in Hb'.
    assert (Hblk : with_chk (blk_of nm c x cur) true = blk_of nm (set_checked c) x cur) by reflexivity.
    destruct (c_state c) eqn:Es.
    + fold (ce_has_fin es). rewrite fails_app, fails_zipw_ask. cbn [app]. destruct (ce_has_fin es).
      * cbn [history f_kind]. split; [|reflexivity]. exists cur. apply arep_brep. split; [|exact Hc]. rewrite <- Hblk. exact Hb'.
      * rewrite fails_app, fails_zipw_ask. cbn [app].
        change (take_first is_matching (fun e => call_was_made (c_order c) (set_fin e true)) es) with (ce_taken g es).
        pose proof (ce_taken_cur (c_order c) idof es (Hnc eq_refl)) as Hcur. fold g in Hcur.
        destruct (ce_taken g es) as [es'|].
        -- split; [|rewrite fails_app, fails_ldel, !fails_cons_quiet by reflexivity; rewrite fails_tell; reflexivity].
           exists (found_id idof is_matching es). apply arep_brep. split; [|exact Hcur].
           replace (blk_of nm (set_state (set_checked c) Succeeded) x (found_id idof is_matching es))
             with (with_st (with_cur (with_chk (blk_of nm c x cur) true) (found_id idof is_matching es)) Succeeded) by reflexivity.
           exact Hb'.
        -- assert (Hf0 : acall_at h' cb es idof N (set_state (set_checked c) Failed) nm x).
           { exists 0. apply arep_brep. split; [|apply nocur_code; exact (Hnc eq_refl)].
             replace (blk_of nm (set_state (set_checked c) Failed) x 0) with (with_st (with_cur (with_chk (blk_of nm c x cur) true) 0) Failed)
               by reflexivity.
             exact Hb'. }
           fold (ce_missing es). rewrite fails_app, fails_zipw_ask. cbn [app]. destruct (ce_missing es); cbn [history_related history f_kind].
           ++ split; [exact Hf0 | reflexivity].
           ++ split; [exact Hf0 | reflexivity].
    + split; [|cbn [app]; rewrite fails_cons_quiet by reflexivity; rewrite fails_tell; reflexivity]. exists cur. apply arep_brep. split.
      * rewrite <- Hblk. exact Hb'.
      * rewrite cur_code_for_pot by reflexivity. unfold for_cur. rewrite cur_code_map; [exact Hc|]. intro e. destruct (e_cur e) eqn:Ee; exact Ee.
    + split; [|rewrite fails_tell; reflexivity]. exists cur. apply arep_brep. split.
      * rewrite <- Hblk. exact Hb'.
      * rewrite cur_code_for_pot by reflexivity. exact Hc.
Qed.

(* ================================================================== 9. the "cannot happen" branch is not reachable *)
(* what the steps keep between them (on the model): a succeeded call has exactly one matching expectation, any other none, and a call
   in progress has no finalized match among its candidates *)
Definition call_inv (es : list expn) (c : acall) : Prop :=
  (c_state c = Succeeded -> exists j, pos_from e_cur 0 es = [j]) /\
  (c_state c <> Succeeded -> existsb e_cur es = false) /\
  (c_state c = InProgress -> ce_has_fin es = false).
Lemma find_pos_none f : forall es k, find_pos f k es = None -> existsb f es = false.
Proof. induction es as [|e r IH]; intros k H; [reflexivity|]. cbn in *. destruct (f e); [discriminate H | exact (IH _ H)]. Qed.
Lemma one_cur_exists es j : pos_from e_cur 0 es = [j] -> existsb e_cur es = true.
Proof. intro H. pose proof (pos_from_nil_iff e_cur es 0) as N. rewrite H in N. destruct (existsb e_cur es); [reflexivity | discriminate N]. Qed.
Lemma inv_complete es c : existsb e_cur es = false -> c_state c <> Succeeded -> call_inv (fst (complete es c)) (snd (complete es c)).
Proof.
  intros Hnc Hs. rewrite complete_split. cbn [fst snd]. unfold complete_es, complete_call. rewrite (first_pot_found is_matching_fin es).
  pose proof (take_first_cur is_matching_fin (fun e => e) ltac:(reflexivity) es 0 (nocur_pos es Hnc)) as Hcur.
  pose proof (take_first_found is_matching_fin (fun e => e) es ltac:(reflexivity)) as Hfound.
  destruct (take_first is_matching_fin (fun e => e) es) as [es'|].
  - destruct Hfound as [j [e [Hj Hn]]]. rewrite Hj, Hn. destruct Hcur as [j' [_ Hp]].
    split; [intros _; exists j'; exact Hp|]. split; [intro H; exfalso; apply H; reflexivity | intro H; discriminate H].
  - rewrite Hfound. pose proof (find_pos_none _ es 0 Hfound) as Hnf.
    destruct (first_pot is_matching es); (split; [intro H; contradiction|]; split; [intros _; exact Hnc | intros _; exact Hnf]).
Qed.
Lemma inv_with_name es c : existsb e_cur es = false ->
  match with_name es c with inl (es', c') => call_inv es' c' | inr _ => True end.
Proof.
  intro Hnc. unfold with_name. destruct (pot_empty _); [exact I|].
  pose proof (inv_complete (keep_if (relates (c_name (set_state c InProgress))) es) (set_state c InProgress)) as H.
  rewrite existsb_cur_keep_if in H. specialize (H Hnc ltac:(discriminate)). destruct (complete _ _) as [es' c']. exact H.
Qed.
Lemma inv_check_input n v es c : match check_input n v es c with inl (es', c') => call_inv es' c' | inr _ => True end.
Proof.
  unfold check_input. destruct (pot_empty _); [exact I|].
  pose proof (inv_complete (for_pot (mark n) (keep_if (has_input n v) (discard es))) (set_state c InProgress)) as H.
  rewrite existsb_cur_for_pot, existsb_cur_keep_if, discard_nocur in H by reflexivity. specialize (H eq_refl ltac:(discriminate)).
  destruct (complete _ _) as [es' c']. exact H.
Qed.
Lemma inv_check_output n buf es c : match check_output n buf es c with inl (es', c') => call_inv es' c' | inr _ => True end.
Proof.
  unfold check_output. destruct (pot_empty _); [exact I|].
  pose proof (inv_complete (for_pot (mark_out n) (keep_if (has_output n) (discard es)))
                (set_state (set_couts c (c_outs c ++ [(n, buf)])) InProgress)) as H.
  rewrite existsb_cur_for_pot, existsb_cur_keep_if, discard_nocur in H by reflexivity. specialize (H eq_refl ltac:(discriminate)).
  destruct (complete _ _) as [es' c']. exact H.
Qed.
Lemma inv_on_object a es c : call_inv es c -> match on_object a es c with inl (es', c') => call_inv es' c' | inr _ => True end.
Proof.
  intros [I1 [I2 I3]]. unfold on_object. rewrite existsb_cur_keep_if. destruct (existsb e_cur es) eqn:Ec; cbn [negb andb].
  - assert (Hs : c_state c = Succeeded).
    { destruct (c_state c) eqn:Es; [|reflexivity|]; exfalso; assert (X : true = false) by (apply I2; discriminate); discriminate X. }
    split; [|split; [intro H; contradiction | intro H; rewrite Hs in H; discriminate H]].
    intros _. destruct (I1 Hs) as [j Hj]. exists j. unfold for_pot, keep_if. rewrite !pos_from_map; [exact Hj| |].
    + intro e. destruct (e_pot e && negb (relates_obj a e)); reflexivity.
    + intro e. destruct (e_pot e); reflexivity.
  - destruct (pot_empty _); [exact I|].
    assert (Hs : c_state c <> Succeeded).
    { intro Hs. destruct (I1 Hs) as [j Hj]. rewrite (one_cur_exists es j Hj) in Ec. discriminate Ec. }
    pose proof (inv_complete (for_pot pass_obj (keep_if (relates_obj a) es)) c) as H.
    rewrite existsb_cur_for_pot, existsb_cur_keep_if in H by reflexivity. specialize (H Ec Hs). destruct (complete _ _) as [es' c']. exact H.
Qed.
(* from such a state check_call never says FCannotHappen, and the translated checkExpectations never reaches LAbort *)
Theorem cannot_happen_unreachable es c fl : call_inv es c -> check_call es c = inr fl -> f_kind fl <> FCannotHappen.
Proof.
  intros [_ [_ I3]] H. unfold check_call in H. destruct (c_checked c); [discriminate H|].
  change (c_state (set_checked c)) with (c_state c) in H. destruct (c_state c) eqn:Es; try discriminate H.
  fold (ce_has_fin es) in H. rewrite (I3 eq_refl) in H. destruct (take_first _ _ es); [discriminate H|].
  destruct (existsb _ es); inversion H; cbn; discriminate.
Qed.
Theorem no_abort g es c cur idof nodes : call_inv es c ->
  ~ In LAbort (ce_events g (c_checked c) (c_state c) cur (Z.of_N (c_order c)) idof nodes es).
Proof.
  intros [_ [_ I3]] Hin. assert (Hf : In LAbort (fails (ce_events g (c_checked c) (c_state c) cur (Z.of_N (c_order c)) idof nodes es)))
    by (apply filter_In; split; [exact Hin | reflexivity]).
  clear Hin. unfold ce_events in Hf. destruct (c_checked c); [destruct Hf|]. destruct (c_state c) eqn:Es.
  - rewrite (I3 eq_refl) in Hf. rewrite !fails_app, !fails_zipw_ask in Hf. cbn [app] in Hf. destruct (ce_taken g es).
    + rewrite fails_app, fails_ldel, !fails_cons_quiet, fails_tell in Hf by reflexivity. destruct Hf.
    + rewrite fails_app, fails_zipw_ask in Hf. cbn in Hf. destruct Hf as [H|[H|[]]]; discriminate H.
  - cbn [app] in Hf. rewrite fails_cons_quiet, fails_tell in Hf by reflexivity. destruct Hf.
  - rewrite fails_tell in Hf. destruct Hf.
Qed.
(* in general: the LAbort event is recorded exactly when the model says FCannotHappen *)
Theorem abort_iff_cannot_happen es c cur idof nodes :
  In LAbort (ce_events (g_check (c_order c)) (c_checked c) (c_state c) cur (Z.of_N (c_order c)) idof nodes es) <->
  exists fl, check_call es c = inr fl /\ f_kind fl = FCannotHappen.
Proof.
  unfold check_call, ce_events. change (c_state (set_checked c)) with (c_state c). change (c_order (set_checked c)) with (c_order c).
  change (take_first is_matching (fun e => call_was_made (c_order c) (set_fin e true)) es) with (ce_taken (g_check (c_order c)) es).
  fold (ce_has_fin es). split.
  - intro Hin. match type of Hin with In _ ?E => assert (Hf : In LAbort (fails E)) by (apply filter_In; split; [exact Hin | reflexivity]) end.
    clear Hin. destruct (c_checked c); [destruct Hf|]. destruct (c_state c).
    + destruct (ce_has_fin es); [eexists; split; reflexivity|]. exfalso.
      rewrite !fails_app, !fails_zipw_ask in Hf. cbn [app] in Hf. destruct (ce_taken _ es).
      * rewrite fails_app, fails_ldel, !fails_cons_quiet, fails_tell in Hf by reflexivity. destruct Hf.
      * rewrite fails_app, fails_zipw_ask in Hf. cbn in Hf. destruct Hf as [H|[H|[]]]; discriminate H.
    + exfalso. cbn [app] in Hf. rewrite fails_cons_quiet, fails_tell in Hf by reflexivity. destruct Hf.
    + exfalso. rewrite fails_tell in Hf. destruct Hf.
  - intros [fl [H Hk]]. destruct (c_checked c); [discriminate H|]. destruct (c_state c); try discriminate H.
    destruct (ce_has_fin es).
    + apply in_or_app. right. left. reflexivity.
    + exfalso. destruct (ce_taken _ es); [discriminate H|]. destruct (existsb _ es); inversion H; subst fl; discriminate Hk.
Qed.
(* the same state gives checkExpectations_tie its hypothesis, and a succeeded call a receiver for callWasMade *)
Lemma call_inv_in_progress es c : call_inv es c -> c_state c = InProgress -> existsb e_cur es = false.
Proof. intros [_ [I2 _]] Hs. apply I2. rewrite Hs. discriminate. Qed.
Lemma call_inv_succeeded es c idof cur : call_inv es c -> idof_ok idof (length es) -> cur_code idof es = Some cur ->
  c_state c = Succeeded -> cur <> 0.
Proof.
  intros [I1 _] Hid Hc Hs E. destruct (I1 Hs) as [j Hj]. apply (cur_code_zero idof es cur Hid Hc) in E.
  rewrite (one_cur_exists es j Hj) in E. discriminate E.
Qed.

(* ================================================================== 10. a call reports at most once *)
(* the members that can follow a failure on the same call object (withName is not among them: it starts the matching again --
   setState(CALL_IN_PROGRESS) -- and can report once more: ex_withName_reports_again below) *)
Inductive lstep := SIn (pm : Z) | SOut (pm : Z) | SObj (ob : Z) | SCheck.
Section Later.
Variable vn : Z -> Z.
Definition run_step (fuel : nat) (s : lstep) (h : heap) (evs : list lev) (ans : list Z) (cb : nat) : fres (unit * heap * list lev * list Z) :=
  match s with
  | SIn pm => src_acall_checkInputParameter vn fuel h evs ans (HPtr cb 0) pm
  | SOut pm => src_acall_checkOutputParameter vn fuel h evs ans (HPtr cb 0) pm
  | SObj ob => src_acall_onObject fuel h evs ans (HPtr cb 0) ob
  | SCheck => src_acall_checkExpectations fuel h evs ans (HPtr cb 0)
  end.
Fixpoint run_steps (fuel : nat) (ss : list lstep) (h : heap) (evs : list lev) (ans : list Z) (cb : nat) : fres (unit * heap * list lev * list Z) :=
  match ss with
  | [] => FOk (tt, h, evs, ans)
  | s :: r => match run_step fuel s h evs ans cb with
              | FOk (_, h', evs', ans') => run_steps fuel r h' evs' ans' cb
              | FOob => FOob
              | FNoFuel => FNoFuel
              end
  end.
(* THEOREM 6.  Once a call has failed (state Failed: failTest has reported), whatever is done with it afterwards -- parameters, output
   parameters, objects, checkExpectations, in any number and order -- constructs no failure object, reports nothing, asks the oracle
   nothing and leaves the call failed; all that can still happen is the reset of the candidates by the first checkExpectations *)
Theorem reports_at_most_once fuel cb idof nodes nm x : forall ss h es c cur evs ans,
  arep h cb (blk_of nm c x cur) es idof nodes -> c_state c = Failed -> (ncand es < fuel)%nat ->
  exists h' evs' es' c',
    run_steps fuel ss h evs ans cb = FOk (tt, h', evs ++ evs', ans) /\ fails evs' = [] /\
    arep h' cb (blk_of nm c' x cur) es' idof nodes /\ c_state c' = Failed /\ cframe h h' cb nodes nodes.
Proof.
  induction ss as [|s r IH]; intros h es c cur evs ans Ha Hs Hf.
  - exists h, [], es, c. rewrite app_nil_r. split; [reflexivity|]. split; [reflexivity|]. split; [exact Ha|]. split; [exact Hs | apply cframe_refl].
  - cbn [run_steps].
    assert (Hnoop : run_step fuel s h evs ans cb = FOk (tt, h, evs, ans) ->
                    exists h' evs' es' c', run_steps fuel r h evs ans cb = FOk (tt, h', evs ++ evs', ans) /\ fails evs' = [] /\
                      arep h' cb (blk_of nm c' x cur) es' idof nodes /\ c_state c' = Failed /\ cframe h h' cb nodes nodes)
      by (intros _; exact (IH h es c cur evs ans Ha Hs Hf)).
    destruct s as [pm|pm|ob|].
    + cbn [run_step] in *. rewrite (checkInputParameter_failed vn fuel h cb es idof nodes c nm x cur evs ans pm Ha Hs) in *.
      exact (Hnoop eq_refl).
    + cbn [run_step] in *. rewrite (checkOutputParameter_failed vn fuel h cb es idof nodes c nm x cur evs ans pm Ha Hs) in *.
      exact (Hnoop eq_refl).
    + cbn [run_step] in *. rewrite (onObject_failed fuel h cb es idof nodes c nm x cur evs ans ob Ha Hs) in *. exact (Hnoop eq_refl).
    + clear Hnoop. cbn [run_step].
      assert (Hnc : c_state c = InProgress -> existsb e_cur es = false) by (intro E; rewrite Hs in E; discriminate E).
      destruct (checkExpectations_tie fuel h cb es idof nodes c nm x cur evs ans Ha Hnc Hf) as [h1 [R1 [F1 M1]]]. cbv zeta in R1, F1, M1.
      unfold ce_answers, ce_events, ce_nodes, check_call in *. change (c_state (set_checked c)) with (c_state c) in M1. rewrite Hs in *.
      destruct (c_checked c) eqn:Ec.
      * cbn [app] in R1. rewrite R1. destruct M1 as [[cur1 Ha1] _]. rewrite app_nil_r.
        assert (Ecur : cur1 = cur).
        { apply arep_brep in Ha. apply arep_brep in Ha1. destruct Ha as [_ H0]. destruct Ha1 as [_ H1]. cbn [b_cur blk_of] in H0, H1. congruence. }
        subst cur1. destruct (IH h1 es c cur evs ans Ha1 Hs Hf) as [h' [evs' [es' [c' [R2 [Q2 [Ha2 [Hs2 F2]]]]]]]].
        exists h', evs', es', c'. split; [exact R2|]. split; [exact Q2|]. split; [exact Ha2|]. split; [exact Hs2|].
        exact (cframe_trans _ _ _ _ _ _ _ F1 F2).
      * cbn [app] in R1. rewrite R1. destruct M1 as [[cur1 Ha1] Hq].
        assert (Ecur : cur1 = cur).
        { apply arep_brep in Ha. apply arep_brep in Ha1. destruct Ha as [_ H0]. destruct Ha1 as [_ H1]. cbn [b_cur blk_of] in H0, H1.
          rewrite cur_code_for_pot in H1 by reflexivity. congruence. }
        subst cur1.
        assert (Hf1 : (ncand (for_pot reset_e es) < fuel)%nat) by (rewrite ncand_for_pot by reflexivity; exact Hf).
        destruct (IH h1 (for_pot reset_e es) (set_checked c) cur (evs ++ map RESET (cids idof es)) ans Ha1 Hs Hf1)
          as [h' [evs' [es' [c' [R2 [Q2 [Ha2 [Hs2 F2]]]]]]]].
        exists h', (map RESET (cids idof es) ++ evs'), es', c'. split; [rewrite R2, <- app_assoc; reflexivity|].
        split; [rewrite fails_app, Hq, Q2; reflexivity|]. split; [exact Ha2|]. split; [exact Hs2|].
        exact (cframe_trans _ _ _ _ _ _ _ F1 F2).
Qed.
End Later.
(* failTest itself, in that state: nothing *)
Theorem failTest_once fuel h cb es idof nodes c nm x cur evs ans : arep h cb (blk_of nm c x cur) es idof nodes -> c_state c = Failed ->
  src_acall_failTest fuel h evs ans (HPtr cb 0) = FOk (tt, h, evs, ans).
Proof.
  intros Ha Hs. apply arep_brep in Ha. destruct Ha as [[hd [Hb _]] _]. rewrite (failTest_eq fuel h cb _ hd evs ans Hb). cbn [b_st blk_of].
  rewrite Hs. reflexivity.
Qed.

(* ================================================================== 11. examples (vm_compute): the statements are not vacuous *)
(* two expectations of function 5 that differ in the value of parameter 7 (1 / 2), both candidates of a fresh call object:
   block 0 the call object (callOrder_ 1, reporter_ 900, state CALL_SUCCEED as the constructor leaves it, no matching expectation,
   candidate nodes 1 -> 2, allExpectations_ -> block 3), blocks 3 4 5 the master list; identities 11 12; value_name p = p + 1000 *)
Definition xe (v : Z) : expn := set_pot (mk_exp 1%N 5%N [(7%N, PInt lib.CInt.TInt v)] [] None None false 0%N 0%N) true.
Definition xes : list expn := [xe 1; xe 2].
Definition xid (k : nat) : Z := 11 + Z.of_nat k.
Definition xvn (p : Z) : Z := p + 1000.
Definition xh : heap :=
  [[VInt 0; VInt 1; VInt 900; VInt 2; VInt 0; VInt 0; VPtr (HPtr 1 0); VPtr (HPtr 3 0); VInt 0];
   mnode 11 (HPtr 2 0); mnode 12 HNull; [VPtr (HPtr 4 0)]; mnode 11 (HPtr 5 0); mnode 12 HNull].
Definition xc : acall := {| c_name := 5%N; c_order := 1%N; c_state := Succeeded; c_checked := false; c_outs := [] |}.
Definition xx : cenv := {| x_rep := 900; x_all := VPtr (HPtr 3 0); x_outs := 0 |}.
Example ex_acall_at : acall_at xh 0 xes xid [1; 2]%nat xc 0 xx.
Proof.
  exists 0. exists (HPtr 1 0). split; [reflexivity|]. split; [|reflexivity]. split.
  - split; [|repeat constructor; discriminate]. exists (HPtr 1 0). split; [reflexivity|]. split.
    + cbn. split; [reflexivity|]. exists (HPtr 2 0). split; [reflexivity|]. split; [reflexivity|]. exists HNull. split; reflexivity.
    + split; [repeat constructor; cbn; intuition discriminate | cbn; intuition discriminate].
  - split; [intros i _; unfold xid; lia | intros i j _ _; unfold xid; lia].
Qed.
(* withName(77): both relate; nobody matches yet (the parameter has not been passed): state CALL_IN_PROGRESS, nothing else changes *)
Example ex_withName_answers : with_name_answers 5%N xes = [1; 1; 0; 0; 0; 0]. Proof. reflexivity. Qed.
Definition xh1 : heap :=
  [[VInt 77; VInt 1; VInt 900; VInt 0; VInt 0; VInt 0; VPtr (HPtr 1 0); VPtr (HPtr 3 0); VInt 0];
   mnode 11 (HPtr 2 0); mnode 12 HNull; [VPtr (HPtr 4 0)]; mnode 11 (HPtr 5 0); mnode 12 HNull].
Example ex_withName :
  src_acall_withName 10 xh [] (with_name_answers 5%N xes) (HPtr 0 0) 77 =
  FOk (tt, xh1, [LAskArg "relatesTo" 11 77 1; LAskArg "relatesTo" 12 77 1; ASKFIN 11 0; ASKFIN 12 0; ASKM 11 0; ASKM 12 0], []).
Proof. vm_compute. reflexivity. Qed.
Definition xes1 : list expn := match with_name xes xc with inl r => fst r | inr _ => [] end.
Definition xc1 : acall := match with_name xes xc with inl r => snd r | inr _ => xc end.
Example ex_withName_model : c_state xc1 = InProgress /\ map e_pot xes1 = [true; true] /\ map e_cur xes1 = [false; false].
Proof. repeat split; reflexivity. Qed.
(* the theorem applies to it *)
Example ex_withName_by_theorem : exists h',
  src_acall_withName 10 xh [] (with_name_answers 5%N xes ++ []) (HPtr 0 0) 77 = FOk (tt, h', [] ++ with_name_events 77 5%N xid [1; 2]%nat xes, []) /\
  acall_at h' 0 xes1 xid [1; 2]%nat xc1 77 xx.
Proof.
  destruct (withName_tie 10 xh 0 xes xid [1; 2]%nat xc 0 77 xx [] [] ex_acall_at eq_refl ltac:(cbn; lia)) as [h' [R [_ M]]].
  exists h'. split; [exact R|]. exact (proj1 M).
Qed.
(* withParameter(7, 2) as the named value 42: the current match (none) is discarded, the first expectation does not have the value and
   leaves the list, the second is told the parameter was passed, matches, is removed from the candidates and becomes
   matchingExpectation_; state CALL_SUCCEED *)
Example ex_checkInput_answers : ck_answers (has_input 7%N (PInt lib.CInt.TInt 2)) (mark 7%N) xes1 = [0; 0; 0; 1; 1]. Proof. reflexivity. Qed.
Definition xh2 : heap :=
  [[VInt 77; VInt 1; VInt 900; VInt 2; VInt 0; VInt 12; VPtr HNull; VPtr (HPtr 3 0); VInt 0];
   mnode 0 (HPtr 2 0); mnode 0 HNull; [VPtr (HPtr 4 0)]; mnode 11 (HPtr 5 0); mnode 12 HNull].
Example ex_checkInput :
  src_acall_checkInputParameter xvn 10 xh1 [] [0; 0; 0; 1; 1] (HPtr 0 0) 42 =
  FOk (tt, xh2,
       [ASKFIN 11 0; ASKFIN 12 0; LAskArg "hasInputParameter" 11 42 0; LAskArg "hasInputParameter" 12 42 1; LDelete (HPtr 1 0);
        LTellArg "inputParameterWasPassed" 12 1042; ASKFIN 12 1; LDelete (HPtr 2 0); LCopyOutputs 12], []).
Proof. vm_compute. reflexivity. Qed.
Definition xes2 : list expn := match check_input 7%N (PInt lib.CInt.TInt 2) xes1 xc1 with inl r => fst r | inr _ => [] end.
Definition xc2 : acall := match check_input 7%N (PInt lib.CInt.TInt 2) xes1 xc1 with inl r => snd r | inr _ => xc end.
Example ex_checkInput_model : c_state xc2 = Succeeded /\ map e_pot xes2 = [false; false] /\ map e_cur xes2 = [false; true] /\
                              cur_code xid xes2 = Some 12.
Proof. repeat split; reflexivity. Qed.
(* checkExpectations: the match is told callWasMade(1), expectationsChecked_ is set; nothing is asked; a second call does nothing *)
Definition xh3 : heap :=
  [[VInt 77; VInt 1; VInt 900; VInt 2; VInt 1; VInt 12; VPtr HNull; VPtr (HPtr 3 0); VInt 0];
   mnode 0 (HPtr 2 0); mnode 0 HNull; [VPtr (HPtr 4 0)]; mnode 11 (HPtr 5 0); mnode 12 HNull].
Example ex_checkExpectations :
  ce_answers (g_check 1%N) (c_checked xc2) (c_state xc2) xes2 = [] /\
  src_acall_checkExpectations 10 xh2 [] [] (HPtr 0 0) = FOk (tt, xh3, [LTellArg "callWasMade" 12 1], []) /\
  src_acall_checkExpectations 10 xh3 [] [] (HPtr 0 0) = FOk (tt, xh3, [], []).
Proof. split; [reflexivity|]. split; vm_compute; reflexivity. Qed.
(* a failing parameter: value 3 (named value 43) is in no expectation: both leave, one failure object, one report, state CALL_FAILED *)
Example ex_checkInput_fails_answers : ck_answers (has_input 7%N (PInt lib.CInt.TInt 3)) (mark 7%N) xes1 = [0; 0; 0; 0]. Proof. reflexivity. Qed.
Definition xh2f : heap :=
  [[VInt 77; VInt 1; VInt 900; VInt 1; VInt 0; VInt 0; VPtr HNull; VPtr (HPtr 3 0); VInt 0];
   mnode 0 (HPtr 2 0); mnode 0 HNull; [VPtr (HPtr 4 0)]; mnode 11 (HPtr 5 0); mnode 12 HNull].
Example ex_checkInput_fails :
  src_acall_checkInputParameter xvn 10 xh1 [] [0; 0; 0; 0] (HPtr 0 0) 43 =
  FOk (tt, xh2f,
       [ASKFIN 11 0; ASKFIN 12 0; LAskArg "hasInputParameter" 11 43 0; LAskArg "hasInputParameter" 12 43 0; LDelete (HPtr 1 0);
        LDelete (HPtr 2 0); LFailure "MockUnexpectedInputParameterFailure"; LReport], []) /\
  (match check_input 7%N (PInt lib.CInt.TInt 3) xes1 xc1 with inr fl => f_kind fl = FParamValue 5%N 7%N | inl _ => False end).
Proof. split; [vm_compute; reflexivity | reflexivity]. Qed.
(* after that: more parameters, an object, checkExpectations twice -- no second report, no failure object, no question *)
Example ex_second_report_suppressed :
  run_steps xvn 10 [SIn 44; SObj 8; SCheck; SOut 9; SCheck] xh2f [] [] 0 =
  FOk (tt,
       [[VInt 77; VInt 1; VInt 900; VInt 1; VInt 1; VInt 0; VPtr HNull; VPtr (HPtr 3 0); VInt 0];
        mnode 0 (HPtr 2 0); mnode 0 HNull; [VPtr (HPtr 4 0)]; mnode 11 (HPtr 5 0); mnode 12 HNull], [], []).
Proof. vm_compute. reflexivity. Qed.
(* but withName starts the matching again (setState(CALL_IN_PROGRESS)) and reports again: it is not one of the "later steps" *)
Example ex_withName_reports_again :
  exists h', src_acall_withName 10 xh2f [] [] (HPtr 0 0) 78 = FOk (tt, h', [LFailure "MockUnexpectedCallHappenedFailure"; LReport], []).
Proof. eexists. vm_compute. reflexivity. Qed.
(* checkExpectations while the parameter is still missing: nobody matches, areParametersMatchingActualCall of the first is no:
   MockExpectedParameterDidntHappenFailure, as the model's FParamMissing *)
Example ex_checkExpectations_in_progress :
  ce_answers (g_check 1%N) false InProgress xes1 = [0; 0; 0; 0; 0] /\
  (exists h', src_acall_checkExpectations 10 xh1 [] [0; 0; 0; 0; 0] (HPtr 0 0) =
     FOk (tt, h', [ASKFIN 11 0; ASKFIN 12 0; ASKM 11 0; ASKM 12 0; ASKP 11 0; LFailure "MockExpectedParameterDidntHappenFailure"; LReport], [])) /\
  (match check_call xes1 xc1 with inr fl => f_kind fl = FParamMissing 5%N 2%N | inl _ => False end).
Proof. split; [reflexivity|]. split; [eexists; vm_compute; reflexivity | reflexivity]. Qed.
(* the branch that cannot happen, from a state the steps do not produce (in progress, yet a candidate says it matches and is finalized) *)
Example ex_abort :
  exists h', src_acall_checkExpectations 10 xh1 [] [1] (HPtr 0 0) = FOk (tt, h', [ASKFIN 11 1; LAbort], []).
Proof. eexists. vm_compute. reflexivity. Qed.
(* the small members *)
Example ex_small :
  src_acall_isFulfilled 10 xh2 [] [] (HPtr 0 0) = FOk (1, xh2, [], []) /\ src_acall_hasFailed 10 xh2 [] [] (HPtr 0 0) = FOk (0, xh2, [], []) /\
  src_acall_hasFailed 10 xh2f [] [] (HPtr 0 0) = FOk (1, xh2f, [], []) /\ src_acall_failTest 10 xh2f [] [] (HPtr 0 0) = FOk (tt, xh2f, [], []).
Proof. repeat split; vm_compute; reflexivity. Qed.
