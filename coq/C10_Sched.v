(* C10 -- the data invariant of every schedule: each thread's view of the table and each thread's future are those of
   its own script read alone; hence schedule independence and run_meets_spec. *)
From Coq Require Import NArith Arith Bool List Lia.
From CppUVerif Require Import C10_Wiring gen.Gen_C10 C10_Model C10_Steps C10_Lock C10_Data.
Import ListNotations.

(* what is left of the thread's script, with the state the textbook reading would continue from *)
Definition cont {A} (f : list op -> bool -> local -> A) (th : thread) : A :=
  match th_phase th, th_pc th with
  | PExit, _ :: r => f r false (th_loc th)
  | PFailing, _ :: r => f r true (record_fail (th_loc th))
  | PPrint, _ :: r => f r true (record_fail (th_loc th))
  | _, pc => f pc (th_skip th) (th_loc th)
  end.
Definition future (th : thread) : local := cont lrun th.
Definition ok_from (may : bool) (th : thread) : bool := cont (fun ops sk L => script_ok ops sk L may) th.

Definition sum_allocs (ths : list thread) : N := fold_right (fun th a => (l_allocs (th_loc th) + a)%N) 0%N ths.

Lemma sum_allocs_set_nth : forall ths t th th', nth_error ths t = Some th ->
  (sum_allocs (set_nth ths t th') + l_allocs (th_loc th) = sum_allocs ths + l_allocs (th_loc th'))%N.
Proof.
  intros ths t th th' H. destruct (set_nth_split _ _ _ th' _ H) as (l1 & l2 & -> & -> & _).
  clear H. induction l1; simpl; lia.
Qed.

Record DataInv (scripts : list (list op)) (st : state) : Prop := {
  di_len : length (st_threads st) = length scripts;
  di_future : forall t th sc, nth_error (st_threads st) t = Some th -> nth_error scripts t = Some sc -> future th = final_local sc;
  di_ok : forall t th, nth_error (st_threads st) t = Some th -> exists may, ok_from may th = true;
  di_agree : forall t th, nth_error (st_threads st) t = Some th -> agree t (th_loc th) (sh_table (st_sh st));
  di_tbl : TblInv (length (st_threads st)) (st_sh st);
  di_count : (sh_seq (st_sh st) = 1 + st_outallocs st + sum_allocs (st_threads st))%N
}.

Lemma datainv_update : forall scripts st t th th' sh' lk' oa',
  DataInv scripts st -> nth_error (st_threads st) t = Some th ->
  future th' = future th ->
  (forall may, ok_from may th = true -> ok_from may th' = true) ->
  agree t (th_loc th') (sh_table sh') ->
  (forall u Lu, u <> t -> agree u Lu (sh_table (st_sh st)) -> agree u Lu (sh_table sh')) ->
  TblInv (length (st_threads st)) sh' ->
  (sh_seq sh' + st_outallocs st + l_allocs (th_loc th) = sh_seq (st_sh st) + oa' + l_allocs (th_loc th'))%N ->
  DataInv scripts (mk_state sh' lk' (set_nth (st_threads st) t th') oa').
Proof.
  intros scripts st t th th' sh' lk' oa' D Hth Hfut Hok Hself Hoth Htbl Hcnt.
  constructor; unfold mk_state; cbn [st_threads st_sh st_lock st_outallocs].
  - rewrite set_nth_length. apply (di_len _ _ D).
  - intros u thu sc Hu Hsc. rewrite (nth_error_set_nth _ _ _ _ _ _ Hth) in Hu. destruct (Nat.eqb_spec t u).
    + inversion Hu; subst. rewrite Hfut. eapply di_future; eauto.
    + eapply di_future; eauto.
  - intros u thu Hu. rewrite (nth_error_set_nth _ _ _ _ _ _ Hth) in Hu. destruct (Nat.eqb_spec t u).
    + inversion Hu; subst. destruct (di_ok _ _ D _ _ Hth) as (may & Hm). exists may; auto.
    + eapply di_ok; eauto.
  - intros u thu Hu. rewrite (nth_error_set_nth _ _ _ _ _ _ Hth) in Hu. destruct (Nat.eqb_spec t u).
    + inversion Hu; subst. auto.
    + apply Hoth; auto. eapply di_agree; eauto.
  - rewrite set_nth_length. auto.
  - pose proof (di_count _ _ D) as C. pose proof (sum_allocs_set_nth _ _ _ th' Hth) as S. lia.
Qed.

Lemma tblinv_same_table : forall n sh sq, TblInv n sh -> (sh_seq sh <= sq)%N ->
  TblInv n {| sh_table := sh_table sh; sh_seq := sq |}.
Proof.
  intros n sh sq I H. destruct I as [Ho Hk Hs Hss Hp]. constructor; simpl; auto.
  - intros x Hx. specialize (Hs x Hx). lia.
  - lia.
Qed.

Lemma agree_overrun : forall t L tb k si, agree t L tb -> slot_get k (l_slots L) = Some si ->
  agree t (with_slots L (slot_set k {| s_size := s_size si; s_fam := s_fam si; s_bad := true |} (l_slots L))) tb.
Proof.
  intros t L tb k si H Hs k'. cbn [l_slots with_slots]. destruct (Nat.eq_dec k k').
  - subst. rewrite slot_get_set_same. rewrite (H k'), Hs. reflexivity.
  - rewrite slot_get_set_other by auto. apply H.
Qed.

Section Sched.
Variable c : cfg.
Hypothesis Hw : wiring_good c.
Hypothesis Hunl : cfg_reporter_unlocks c = true.
Variable scripts : list (list op).

Lemma datainv_step : forall t st st', LockInv st -> DataInv scripts st -> tstep c t st st' -> DataInv scripts st'.
Proof.
  intros t st st' I D H.
  pose proof (wiring_good_all_lock _ Hw) as Hlock.
  inversion H; subst; clear H; auto.
  - (* skip *)
    unfold upd_thread. eapply datainv_update with (th := th); eauto.
    + unfold future, cont. simpl. rewrite H1, H2, H3. destruct o; reflexivity.
    + intros may. unfold ok_from, cont. simpl. rewrite H1, H2, H3. simpl.
      intros Hs. apply andb_true_iff in Hs. destruct Hs as (_ & Hs). destruct o; auto.
    + simpl. destruct (is_boundary o); simpl; eapply di_agree; eauto.
    + apply (di_tbl _ _ D).
    + simpl. destruct (is_boundary o); simpl; lia.
  - (* local *)
    assert (Hnf : snd (lstep o (th_loc th)) = false).
    { destruct o; simpl in H4; try discriminate; simpl; auto. destruct (slot_get k (l_slots (th_loc th))); auto. }
    unfold upd_thread. eapply datainv_update with (th := th); eauto.
    + unfold future, cont. simpl. rewrite H1, H2, H3. simpl. destruct (lstep o (th_loc th)) as [L' f]. simpl in *. subst. reflexivity.
    + intros may. unfold ok_from, cont. simpl. rewrite H1, H2, H3. simpl.
      intros Hs. apply andb_true_iff in Hs. destruct Hs as (_ & Hs). apply andb_true_iff in Hs. destruct Hs as (_ & Hs).
      destruct (lstep o (th_loc th)) as [L' f]. simpl in *. subst. auto.
    + simpl. pose proof (di_agree _ _ D _ _ H0) as Ha.
      destruct o; simpl in H4; try discriminate; simpl; auto.
      destruct (slot_get k (l_slots (th_loc th))) eqn:Hs; simpl; auto. apply agree_overrun; auto.
    + apply (di_tbl _ _ D).
    + simpl. destruct o; simpl in H4; try discriminate; simpl; try lia.
      destruct (slot_get k (l_slots (th_loc th))); simpl; lia.
  - (* acquire *)
    eapply datainv_update with (th := th); eauto.
    + unfold future, cont. simpl. rewrite H1, H2, H3. reflexivity.
    + intros may. unfold ok_from, cont. simpl. rewrite H1, H2, H3. auto.
    + simpl. eapply di_agree; eauto.
    + apply (di_tbl _ _ D).
  - (* enter unlocked: excluded *)
    rewrite (Hlock _ _ H4) in H5. discriminate.
  - (* read *)
    destruct (li_shape _ I _ _ H0) as (Hsk & _). rewrite H2; discriminate.
    unfold upd_thread. eapply datainv_update with (th := th); eauto.
    + unfold future, cont. simpl. rewrite H1, H2, Hsk. reflexivity.
    + intros may. unfold ok_from, cont. simpl. rewrite H1, H2, Hsk. auto.
    + simpl. eapply di_agree; eauto.
    + apply (di_tbl _ _ D).
  - (* commit *)
    destruct (li_shape _ I _ _ H0) as (Hsk & o' & r' & e & Hp & He). rewrite H2; discriminate.
    rewrite H1 in Hp. inversion Hp; subst o' r'; clear Hp.
    pose proof (li_snap _ I _ _ _ H0 H2) as Hsnap. subst snap.
    destruct (di_ok _ _ D _ _ H0) as (may & Hm). unfold ok_from, cont in Hm. rewrite H1, H2, Hsk in Hm. simpl in Hm.
    apply andb_true_iff in Hm. destruct Hm as (Hshape & Hm). apply andb_true_iff in Hm. destruct Hm as (Hfresh & Hm).
    assert (Hopok : op_ok o (th_loc th)).
    { destruct o; simpl in *; auto.
      - split. repeat (apply andb_true_iff in Hshape; destruct Hshape as (Hshape & ?)); auto.
        destruct (slot_get k (l_slots (th_loc th))); auto; discriminate.
      - apply andb_true_iff in Hshape; tauto.
      - destruct (slot_get k (l_slots (th_loc th))) as [si|]; auto.
        apply andb_true_iff in Hfresh. destruct Hfresh as (F1 & F2). split.
        + apply fam_eqb_eq; auto.
        + destruct (s_bad si); auto; discriminate. }
    assert (Hlt : t < length (st_threads st)) by (apply nth_error_Some; congruence).
    destruct (detector_ok c Hw _ _ _ _ _ _ _ _ He Hopok Hlt (di_tbl _ _ D) (di_agree _ _ D _ _ H0) H3) as (Hf & Hself & Hoth & Htbl & Hcnt).
    eapply datainv_update with (th := th); eauto.
    + unfold future, cont. simpl. rewrite H1, H2, Hsk. simpl.
      destruct (lstep o (th_loc th)) as [L' f]. simpl in *. subst failed. destruct f; reflexivity.
    + intros may'. unfold ok_from, cont. simpl. rewrite H1, H2, Hsk. simpl.
      intros Hs. apply andb_true_iff in Hs. destruct Hs as (_ & Hs). apply andb_true_iff in Hs. destruct Hs as (_ & Hs).
      destruct (lstep o (th_loc th)) as [L' f]. simpl in *. subst failed. destruct f; auto.
      apply andb_true_iff in Hs. tauto.
    + simpl. lia.
  - (* exit *)
    eapply datainv_update with (th := th); eauto.
    + unfold future, cont. simpl. rewrite H1, H2. reflexivity.
    + intros may. unfold ok_from, cont. simpl. rewrite H1, H2. auto.
    + simpl. eapply di_agree; eauto.
    + apply (di_tbl _ _ D).
  - (* failing *)
    eapply datainv_update with (th := th); eauto.
    + unfold future, cont. simpl. rewrite H1, H2. reflexivity.
    + intros may. unfold ok_from, cont. simpl. rewrite H1, H2. auto.
    + simpl. eapply di_agree; eauto.
    + apply (di_tbl _ _ D).
  - (* print, allocating *)
    eapply datainv_update with (th := th); eauto.
    + unfold future, cont. simpl. rewrite H1, H2. reflexivity.
    + intros may. unfold ok_from, cont. simpl. rewrite H1, H2. auto.
    + simpl. eapply di_agree; eauto.
    + simpl. apply tblinv_same_table. apply (di_tbl _ _ D). lia.
    + simpl. lia.
  - (* print *)
    unfold upd_thread. eapply datainv_update with (th := th); eauto.
    + unfold future, cont. simpl. rewrite H1, H2. reflexivity.
    + intros may. unfold ok_from, cont. simpl. rewrite H1, H2. auto.
    + simpl. eapply di_agree; eauto.
    + apply (di_tbl _ _ D).
Qed.

Lemma both_exec : forall sched st, LockInv st -> DataInv scripts st ->
  LockInv (exec c sched st) /\ DataInv scripts (exec c sched st).
Proof.
  intros sched st I D.
  apply (exec_invariant c (fun s => LockInv s /\ DataInv scripts s)); auto.
  intros t s s' (I' & D') Hs. split.
  - eapply lockinv_step; eauto. apply wiring_good_all_lock; auto.
  - eapply datainv_step; eauto.
Qed.

Lemma both_drain : forall fuel st, LockInv st -> DataInv scripts st ->
  DataInv scripts (drain c fuel st).
Proof.
  induction fuel; simpl; intros st I D; auto.
  destruct (first_enabled c st); auto.
  apply IHfuel.
  - eapply lockinv_step; eauto. apply wiring_good_all_lock; auto. apply step_tstep.
  - eapply datainv_step; eauto. apply step_tstep.
Qed.

End Sched.
