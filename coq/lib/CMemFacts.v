(* Laws of the C integer wrap and of the byte memory used by the proofs about translated source (Cxx_SrcTie.v). *)
From Coq Require Import ZArith NArith Bool List Lia.
From CppUVerif Require Import lib.CSem lib.CMem.
Import ListNotations.
Local Open Scope Z_scope.

Lemma pow2_pos bits : 0 <= bits -> 0 < 2 ^ bits.
Proof. intro H. apply Z.pow_pos_nonneg; lia. Qed.

Lemma cw_u bits z : cw bits false z = z mod 2 ^ bits.
Proof. reflexivity. Qed.

Lemma cw_u_add_l bits x y : 0 <= bits -> cw bits false (cw bits false x + y) = cw bits false (x + y).
Proof. intro H. rewrite !cw_u. rewrite Zplus_mod_idemp_l. reflexivity. Qed.

Lemma cw_u_sub_l bits x y : 0 <= bits -> cw bits false (cw bits false x - y) = cw bits false (x - y).
Proof. intro H. rewrite !cw_u. rewrite Zminus_mod_idemp_l. reflexivity. Qed.

Lemma cw_u_small bits z : 0 <= z < 2 ^ bits -> cw bits false z = z.
Proof. intro H. rewrite cw_u. apply Z.mod_small. exact H. Qed.

Lemma cw_s_small bits z : 0 < bits -> - 2 ^ (bits - 1) <= z < 2 ^ (bits - 1) -> cw bits true z = z.
Proof. intros Hb H. apply cw_id; assumption. Qed.

(* bytes *)
Lemma schar_small c : (c < 128)%N -> schar c = Z.of_N c.
Proof. intro H. unfold schar. apply cw_s_small; [lia|]. change (2 ^ (8 - 1)) with 128. lia. Qed.
Lemma schar_big c : (128 <= c < 256)%N -> schar c = Z.of_N c - 256.
Proof.
  intro H. unfold schar, cw. change (2 ^ 8) with 256. change (2 ^ (8 - 1)) with 128.
  rewrite Z.mod_small by lia. cbn [andb]. destruct (128 <=? Z.of_N c) eqn:E; [reflexivity|]. apply Z.leb_gt in E. lia.
Qed.
Lemma schar_zero c : (c < 256)%N -> (schar c =? 0) = (c =? 0)%N.
Proof.
  intro H. destruct (N.lt_ge_cases c 128) as [L|L].
  - rewrite schar_small by exact L. destruct (N.eqb_spec c 0) as [->|Hn]; [reflexivity|]. apply Z.eqb_neq. lia.
  - rewrite schar_big by lia. destruct (N.eqb_spec c 0) as [->|Hn]; [lia|]. apply Z.eqb_neq. lia.
Qed.
Lemma schar_inj a b : (a < 256)%N -> (b < 256)%N -> (schar a =? schar b) = (a =? b)%N.
Proof.
  intros Ha Hb. destruct (N.eqb_spec a b) as [->|Hn]; [apply Z.eqb_refl|]. apply Z.eqb_neq.
  destruct (N.lt_ge_cases a 128) as [La|La]; destruct (N.lt_ge_cases b 128) as [Lb|Lb].
  - rewrite (schar_small a La), (schar_small b Lb). lia.
  - rewrite (schar_small a La), (schar_big b) by lia. lia.
  - rewrite (schar_big a), (schar_small b Lb) by lia. lia.
  - rewrite (schar_big a), (schar_big b) by lia. lia.
Qed.
Lemma uchar_inj a b : (uchar a =? uchar b) = (a =? b)%N.
Proof. unfold uchar. destruct (N.eqb_spec a b) as [->|Hn]; [apply Z.eqb_refl|]. apply Z.eqb_neq. lia. Qed.
Lemma byte_of_schar c : (c < 256)%N -> byte_of (schar c) = c.
Proof.
  intro H. unfold byte_of. destruct (N.lt_ge_cases c 128) as [L|L].
  - rewrite schar_small by exact L. rewrite Z.mod_small by lia. apply N2Z.id.
  - rewrite schar_big by lia. replace (Z.of_N c - 256) with (Z.of_N c + (-1) * 256) by lia.
    rewrite Z_mod_plus_full. rewrite Z.mod_small by lia. apply N2Z.id.
Qed.

(* the byte predicate on whole memories *)
Definition bytes_ok (l : list N) : Prop := Forall (fun c => (c < 256)%N) l.
Definition mem_ok (m : memory) : Prop := Forall bytes_ok m.
Lemma block_ok m b : mem_ok m -> bytes_ok (block m b).
Proof.
  intro H. unfold block. destruct (Nat.lt_ge_cases b (length m)) as [L|L].
  - eapply Forall_forall in H; [exact H|]. apply nth_In. exact L.
  - rewrite nth_overflow by exact L. constructor.
Qed.
Lemma skipn_ok n l : bytes_ok l -> bytes_ok (skipn n l).
Proof.
  revert l. induction n as [|n IH]; intros l H; [exact H|]. destruct l as [|x l]; [constructor|].
  cbn. apply IH. inversion H; assumption.
Qed.
Lemma view_ok m p : mem_ok m -> bytes_ok (view m p).
Proof.
  intro H. destruct p as [|b o]; cbn; [constructor|]. destruct (0 <=? o); [|constructor]. apply skipn_ok. apply block_ok. exact H.
Qed.

(* views *)
Lemma view_cons_load m b o c r : view m (Ptr b o) = c :: r -> load m (Ptr b o) = Some c.
Proof. intro H. rewrite load_view, H. reflexivity. Qed.
Lemma view_nil_load m p : view m p = [] -> load m p = None.
Proof. intro H. rewrite load_view, H. reflexivity. Qed.
Lemma view_cons_nonneg m b o c r : view m (Ptr b o) = c :: r -> 0 <= o.
Proof. cbn. destruct (0 <=? o) eqn:E; [intros _; apply Z.leb_le; exact E | discriminate]. Qed.
