(* Laws of the C integer wrap and of the byte memory used by the proofs about translated source (Cxx_SrcTie.v). *)
From Coq Require Import ZArith NArith Bool List Lia.
From CppUVerif Require Import lib.CSem lib.CMem.
Import ListNotations.
Local Open Scope Z_scope.

Lemma pow2_pos bits : 0 <= bits -> 0 < 2 ^ bits.
Proof. intro H. apply Z.pow_pos_nonneg; lia. Qed.

Lemma cw_u bits z : cw bits false z = z mod 2 ^ bits.
Proof. reflexivity. Qed.

Lemma cw_u_add_l bits x y : 0 <= bits -> cw bits false (cw bits false x + y) = cw bits false (x + y).
Proof. intro H. rewrite !cw_u. rewrite Zplus_mod_idemp_l. reflexivity. Qed.

Lemma cw_u_sub_l bits x y : 0 <= bits -> cw bits false (cw bits false x - y) = cw bits false (x - y).
Proof. intro H. rewrite !cw_u. rewrite Zminus_mod_idemp_l. reflexivity. Qed.

Lemma cw_u_small bits z : 0 <= z < 2 ^ bits -> cw bits false z = z.
Proof. intro H. rewrite cw_u. apply Z.mod_small. exact H. Qed.

Lemma cw_s_small bits z : 0 < bits -> - 2 ^ (bits - 1) <= z < 2 ^ (bits - 1) -> cw bits true z = z.
Proof. intros Hb H. apply cw_id; assumption. Qed.

(* bytes *)
Lemma schar_small c : (c < 128)%N -> schar c = Z.of_N c.
Proof. intro H. unfold schar. apply cw_s_small; [lia|]. change (2 ^ (8 - 1)) with 128. lia. Qed.
Lemma schar_big c : (128 <= c < 256)%N -> schar c = Z.of_N c - 256.
Proof.
  intro H. unfold schar, cw. change (2 ^ 8) with 256. change (2 ^ (8 - 1)) with 128.
  rewrite Z.mod_small by lia. cbn [andb]. destruct (128 <=? Z.of_N c) eqn:E; [reflexivity|]. apply Z.leb_gt in E. lia.
Qed.
Lemma schar_zero c : (c < 256)%N -> (schar c =? 0) = (c =? 0)%N.
Proof.
  intro H. destruct (N.lt_ge_cases c 128) as [L|L].
  - rewrite schar_small by exact L. destruct (N.eqb_spec c 0) as [->|Hn]; [reflexivity|]. apply Z.eqb_neq. lia.
  - rewrite schar_big by lia. destruct (N.eqb_spec c 0) as [->|Hn]; [lia|]. apply Z.eqb_neq. lia.
Qed.
Lemma schar_inj a b : (a < 256)%N -> (b < 256)%N -> (schar a =? schar b) = (a =? b)%N.
Proof.
  intros Ha Hb. destruct (N.eqb_spec a b) as [->|Hn]; [apply Z.eqb_refl|]. apply Z.eqb_neq.
  destruct (N.lt_ge_cases a 128) as [La|La]; destruct (N.lt_ge_cases b 128) as [Lb|Lb].
  - rewrite (schar_small a La), (schar_small b Lb). lia.
  - rewrite (schar_small a La), (schar_big b) by lia. lia.
  - rewrite (schar_big a), (schar_small b Lb) by lia. lia.
  - rewrite (schar_big a), (schar_big b) by lia. lia.
Qed.
Lemma uchar_inj a b : (uchar a =? uchar b) = (a =? b)%N.
Proof. unfold uchar. destruct (N.eqb_spec a b) as [->|Hn]; [apply Z.eqb_refl|]. apply Z.eqb_neq. lia. Qed.
Lemma byte_of_schar c : (c < 256)%N -> byte_of (schar c) = c.
Proof.
  intro H. unfold byte_of. destruct (N.lt_ge_cases c 128) as [L|L].
  - rewrite schar_small by exact L. rewrite Z.mod_small by lia. apply N2Z.id.
  - rewrite schar_big by lia. replace (Z.of_N c - 256) with (Z.of_N c + (-1) * 256) by lia.
    rewrite Z_mod_plus_full. rewrite Z.mod_small by lia. apply N2Z.id.
Qed.

(* the byte predicate on whole memories *)
Definition bytes_ok (l : list N) : Prop := Forall (fun c => (c < 256)%N) l.
Definition mem_ok (m : memory) : Prop := Forall bytes_ok m.
Lemma block_ok m b : mem_ok m -> bytes_ok (block m b).
Proof.
  intro H. unfold block. destruct (Nat.lt_ge_cases b (length m)) as [L|L].
  - eapply Forall_forall in H; [exact H|]. apply nth_In. exact L.
  - rewrite nth_overflow by exact L. constructor.
Qed.
Lemma skipn_ok n l : bytes_ok l -> bytes_ok (skipn n l).
Proof.
  revert l. induction n as [|n IH]; intros l H; [exact H|]. destruct l as [|x l]; [constructor|].
  cbn. apply IH. inversion H; assumption.
Qed.
Lemma view_ok m p : mem_ok m -> bytes_ok (view m p).
Proof.
  intro H. destruct p as [|b o]; cbn; [constructor|]. destruct (0 <=? o); [|constructor]. apply skipn_ok. apply block_ok. exact H.
Qed.

(* views *)
Lemma view_cons_load m b o c r : view m (Ptr b o) = c :: r -> load m (Ptr b o) = Some c.
Proof. intro H. rewrite load_view, H. reflexivity. Qed.
Lemma view_nil_load m p : view m p = [] -> load m p = None.
Proof. intro H. rewrite load_view, H. reflexivity. Qed.
Lemma view_cons_nonneg m b o c r : view m (Ptr b o) = c :: r -> 0 <= o.
Proof. cbn. destruct (0 <=? o) eqn:E; [intros _; apply Z.leb_le; exact E | discriminate]. Qed.

(* ------------------------------------------------------------------ updates, and loads / stores / pointer steps at non-negative offsets *)
Lemma upd_upd {A} : forall (l : list A) i a b, upd (upd l i a) i b = upd l i b.
Proof. induction l as [|x l IH]; intros [|i] a b; cbn; auto. f_equal. apply IH. Qed.

Lemma upd_nth_id {A} : forall (l : list A) i d, upd l i (nth i l d) = l.
Proof. induction l as [|x l IH]; intros [|i] d; cbn; auto. f_equal. apply IH. Qed.

Lemma Forall_upd {A} (P : A -> Prop) : forall l i v, Forall P l -> P v -> Forall P (upd l i v).
Proof.
  induction l as [|x l IH]; intros [|i] v Hl Hv; cbn; auto.
  - constructor; [exact Hv | exact (Forall_inv_tail Hl)].
  - constructor; [exact (Forall_inv Hl) | apply IH; [exact (Forall_inv_tail Hl) | exact Hv]].
Qed.

(* ------------------------------------------------------------------ memory: a store into block bd *)
Lemma block_upd_same m bd d : (bd < length m)%nat -> block (upd m bd d) bd = d.
Proof. intro H. unfold block. apply nth_upd_same. exact H. Qed.

Lemma block_upd_other m bd bs d : bd <> bs -> block (upd m bd d) bs = block m bs.
Proof. intro H. unfold block. apply nth_upd_other. exact H. Qed.

Lemma view_upd_other m bd bs os d : bd <> bs -> view (upd m bd d) (Ptr bs os) = view m (Ptr bs os).
Proof. intro H. cbn [view]. rewrite (block_upd_other m bd bs d H). reflexivity. Qed.

Lemma upd_block_id m b : upd m b (block m b) = m.
Proof. unfold block. apply upd_nth_id. Qed.

Lemma mem_ok_upd m b d : mem_ok m -> bytes_ok d -> mem_ok (upd m b d).
Proof. intros Hm Hd. unfold mem_ok. apply Forall_upd; assumption. Qed.

Lemma bytes_ok_upd d i c : bytes_ok d -> (c < 256)%N -> bytes_ok (upd d i c).
Proof. intros Hd Hc. unfold bytes_ok. apply Forall_upd; assumption. Qed.

(* loads, stores and pointer steps at a non-negative offset *)
Lemma load_nat m b o : load m (Ptr b (Z.of_nat o)) = nth_error (block m b) o.
Proof.
  cbn [load]. replace (0 <=? Z.of_nat o) with true by (symmetry; apply Z.leb_le; lia). rewrite Nat2Z.id. reflexivity.
Qed.

Lemma store_nat m b o v : store m (Ptr b (Z.of_nat o)) v =
  if Nat.ltb o (length (block m b)) && Nat.ltb b (length m) then Some (upd m b (upd (block m b) o v)) else None.
Proof.
  cbn [store]. replace (0 <=? Z.of_nat o) with true by (symmetry; apply Z.leb_le; lia). rewrite Nat2Z.id. cbn [andb].
  destruct (Nat.ltb_spec o (length (block m b))) as [L|L].
  - replace (Z.of_nat o <? Z.of_nat (length (block m b))) with true by (symmetry; apply Z.ltb_lt; lia). reflexivity.
  - replace (Z.of_nat o <? Z.of_nat (length (block m b))) with false by (symmetry; apply Z.ltb_ge; lia). reflexivity.
Qed.

Lemma padd1_nat m b o : (o < length (block m b))%nat -> padd m (Ptr b (Z.of_nat o)) 1 = Some (Ptr b (Z.of_nat (S o))).
Proof.
  intro L. cbn [padd]. replace (0 <=? Z.of_nat o + 1) with true by (symmetry; apply Z.leb_le; lia).
  replace (Z.of_nat o + 1 <=? Z.of_nat (length (block m b))) with true by (symmetry; apply Z.leb_le; lia).
  cbn [andb]. f_equal. f_equal. lia.
Qed.

Lemma upd_app_mid {A} : forall (a : list A) x t v, upd (a ++ x :: t) (length a) v = a ++ v :: t.
Proof. induction a as [|y a IH]; intros x t v; cbn; [reflexivity|]. f_equal. apply IH. Qed.

Lemma nth_error_app_mid {A} : forall (a : list A) x t, nth_error (a ++ x :: t) (length a) = Some x.
Proof. induction a as [|y a IH]; intros x t; cbn; [reflexivity|]. apply IH. Qed.

Lemma skipn_cons_ex {A} : forall (l : list A) k, (k < length l)%nat -> exists x, skipn k l = x :: skipn (S k) l.
Proof.
  induction l as [|y l IH]; intros [|k] H; cbn [length] in H; try lia.
  - exists y. reflexivity.
  - destruct (IH k) as [x Hx]; [lia|]. exists x. exact Hx.
Qed.

Lemma padd_nat m b o k : (o + k <= length (block m b))%nat ->
  padd m (Ptr b (Z.of_nat o)) (Z.of_nat k) = Some (Ptr b (Z.of_nat (o + k))).
Proof.
  intro L. cbn [padd]. replace (0 <=? Z.of_nat o + Z.of_nat k) with true by (symmetry; apply Z.leb_le; lia).
  replace (Z.of_nat o + Z.of_nat k <=? Z.of_nat (length (block m b))) with true by (symmetry; apply Z.leb_le; lia).
  cbn [andb]. f_equal. f_equal. lia.
Qed.

Lemma padd0_nat m b k : (k <= length (block m b))%nat -> padd m (Ptr b 0) (Z.of_nat k) = Some (Ptr b (Z.of_nat k)).
Proof. intro L. exact (padd_nat m b 0 k L). Qed.

(* a non-empty view is a suffix of its block *)
Lemma view_block m b o l : 0 <= o -> view m (Ptr b o) = l -> l <> [] ->
  block m b = firstn (Z.to_nat o) (block m b) ++ l /\ length (firstn (Z.to_nat o) (block m b)) = Z.to_nat o.
Proof.
  intros Ho Hv Hl. cbn [view] in Hv. replace (0 <=? o) with true in Hv by (symmetry; apply Z.leb_le; exact Ho).
  split.
  - rewrite <- Hv. symmetry. apply firstn_skipn.
  - apply firstn_length_le. destruct (Nat.le_gt_cases (Z.to_nat o) (length (block m b))) as [L|L]; [exact L|].
    rewrite skipn_all2 in Hv by lia. congruence.
Qed.

Lemma block_view m b o pre l : 0 <= o -> block m b = pre ++ l -> length pre = Z.to_nat o -> view m (Ptr b o) = l.
Proof.
  intros Ho Hb Hl. cbn [view]. replace (0 <=? o) with true by (symmetry; apply Z.leb_le; exact Ho).
  rewrite Hb, <- Hl. rewrite skipn_app, skipn_all, Nat.sub_diag. reflexivity.
Qed.
