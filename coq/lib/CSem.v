(* C/C++ integer expression semantics used by the GENERATED leaf-function translations (tools/cxx2coq.py -> gen/Gen_Leaf.v).
   Every value is a Z inside the range of its C type; every arithmetic result is wrapped to the type clang's AST gives the
   node (LP64, two's complement; signed overflow is modelled as wrapping -- the translated leaves never overflow, and the
   wrap makes the definitions total). bool is 0/1. No proofs about the source here: only the vocabulary and its basic laws. *)
From Coq Require Import ZArith Bool List Lia String.
Local Open Scope Z_scope.

Definition cw (bits : Z) (sg : bool) (z : Z) : Z :=
  let m := z mod 2 ^ bits in
  if sg && (2 ^ (bits - 1) <=? m) then m - 2 ^ bits else m.

Definition b2z (b : bool) : Z := if b then 1 else 0.
Definition z2b (z : Z) : bool := negb (z =? 0).

Definition c_lt (a b : Z) : Z := b2z (a <? b).
Definition c_le (a b : Z) : Z := b2z (a <=? b).
Definition c_gt (a b : Z) : Z := b2z (b <? a).
Definition c_ge (a b : Z) : Z := b2z (b <=? a).
Definition c_eq (a b : Z) : Z := b2z (a =? b).
Definition c_ne (a b : Z) : Z := b2z (negb (a =? b)).
Definition c_land (a b : Z) : Z := if z2b a then b2z (z2b b) else 0.   (* && : b is only demanded when a holds *)
Definition c_lor (a b : Z) : Z := if z2b a then 1 else b2z (z2b b).    (* || *)
Definition c_lnot (a : Z) : Z := b2z (negb (z2b a)).
Definition c_cond (c a b : Z) : Z := if z2b c then a else b.
Definition c_div (a b : Z) : Z := Z.quot a b.                           (* truncation toward zero *)
Definition c_rem (a b : Z) : Z := Z.rem a b.

(* effect trace of a translated void function: callee (with the string literals among its arguments) and integer arguments *)
Definition cevent : Type := (string * list Z)%type.

Lemma cw_id bits (sg : bool) z : 0 < bits ->
  (if sg return Prop then - 2 ^ (bits - 1) <= z < 2 ^ (bits - 1) else 0 <= z < 2 ^ bits) -> cw bits sg z = z.
Proof.
  intros Hb H. unfold cw. assert (Hp : 2 ^ bits = 2 * 2 ^ (bits - 1)).
  { replace bits with (Z.succ (bits - 1)) at 1 by lia. rewrite Z.pow_succ_r by lia. reflexivity. }
  assert (0 < 2 ^ (bits - 1)) by (apply Z.pow_pos_nonneg; lia).
  destruct sg; cbn [andb].
  - destruct (Z_lt_le_dec z 0).
    + assert (E : z mod 2 ^ bits = z + 2 ^ bits).
      { symmetry. apply Z.mod_unique with (q := -1); lia. }
      rewrite E. destruct (2 ^ (bits - 1) <=? z + 2 ^ bits) eqn:C; [lia|]. apply Z.leb_gt in C. lia.
    + rewrite Z.mod_small by lia. destruct (2 ^ (bits - 1) <=? z) eqn:C; [apply Z.leb_le in C; lia|reflexivity].
  - apply Z.mod_small. lia.
Qed.

Lemma b2z_z2b b : z2b (b2z b) = b. Proof. destruct b; reflexivity. Qed.
