(* C integer types of the LP64 data model used by this sandbox (g++ 12, x86-64):
   conversions are "mod 2^w" (with two's complement reinterpretation for signed targets, as g++ defines it),
   comparisons go through the usual arithmetic conversions. *)
From Coq Require Import ZArith Bool Lia.
Local Open Scope Z_scope.

Inductive ity := TInt | TUInt | TLong | TULong | TLLong | TULLong.

Definition width (t : ity) : Z := match t with TInt | TUInt => 32 | _ => 64 end.
Definition signed (t : ity) : bool := match t with TInt | TLong | TLLong => true | _ => false end.
Definition rank (t : ity) : Z := match t with TInt | TUInt => 1 | TLong | TULong => 2 | _ => 3 end.
Definition to_unsigned (t : ity) : ity :=
  match t with TInt => TUInt | TLong => TULong | TLLong => TULLong | u => u end.

Definition tmin (t : ity) : Z := if signed t then - 2 ^ (width t - 1) else 0.
Definition tmax (t : ity) : Z := if signed t then 2 ^ (width t - 1) - 1 else 2 ^ (width t) - 1.
Definition in_range (t : ity) (z : Z) : bool := (tmin t <=? z) && (z <=? tmax t).

(* conversion of the mathematical integer z to type t *)
Definition cast (t : ity) (z : Z) : Z :=
  let m := z mod 2 ^ (width t) in
  if signed t && (2 ^ (width t - 1) <=? m) then m - 2 ^ (width t) else m.

(* common type of the usual arithmetic conversions (C11 6.3.1.8; no operand has rank below int here) *)
Definition common (a b : ity) : ity :=
  if Bool.eqb (signed a) (signed b) then (if rank a <? rank b then b else a)
  else
    let u := if signed a then b else a in
    let s := if signed a then a else b in
    if rank s <=? rank u then u
    else if width u <? width s then s
    else to_unsigned s.

(* C's  x == y  with x : a, y : b  (values given as mathematical integers in range of their types) *)
Definition c_eq (a : ity) (x : Z) (b : ity) (y : Z) : bool :=
  let t := common a b in cast t x =? cast t y.

Definition ity_eqb (a b : ity) : bool :=
  match a, b with
  | TInt, TInt | TUInt, TUInt | TLong, TLong | TULong, TULong | TLLong, TLLong | TULLong, TULLong => true
  | _, _ => false
  end.

Lemma ity_eqb_eq a b : ity_eqb a b = true <-> a = b.
Proof. destruct a, b; simpl; split; intro H; try reflexivity; try discriminate. Qed.

Lemma cast_id t z : in_range t z = true -> cast t z = z.
Proof.
  unfold in_range, cast, tmin, tmax. intro H.
  apply andb_true_iff in H. destruct H as [H1 H2].
  apply Z.leb_le in H1. apply Z.leb_le in H2.
  destruct t; simpl in *;
    repeat match goal with |- context [Z.pow_pos ?a ?b] => let v := eval vm_compute in (Z.pow_pos a b) in change (Z.pow_pos a b) with v end;
    repeat match goal with H : context [Z.pow_pos ?a ?b] |- _ => let v := eval vm_compute in (Z.pow_pos a b) in change (Z.pow_pos a b) with v in H end.
  all: try (rewrite Z.mod_small by lia; reflexivity).
  all: destruct (Z.ltb_spec z 0) as [Hn|Hn].
  all: try (rewrite Z.mod_small by lia; destruct (Z.leb_spec 2147483648 z); try lia; reflexivity).
  all: try (rewrite Z.mod_small by lia; destruct (Z.leb_spec 9223372036854775808 z); try lia; reflexivity).
  - replace z with ((z + 4294967296) + (-1) * 4294967296) by lia.
    rewrite Z.mod_add by lia. rewrite Z.mod_small by lia.
    destruct (Z.leb_spec 2147483648 (z + 4294967296)); lia.
  - replace z with ((z + 18446744073709551616) + (-1) * 18446744073709551616) by lia.
    rewrite Z.mod_add by lia. rewrite Z.mod_small by lia.
    destruct (Z.leb_spec 9223372036854775808 (z + 18446744073709551616)); lia.
  - replace z with ((z + 18446744073709551616) + (-1) * 18446744073709551616) by lia.
    rewrite Z.mod_add by lia. rewrite Z.mod_small by lia.
    destruct (Z.leb_spec 9223372036854775808 (z + 18446744073709551616)); lia.
Qed.

(* numeral forms of the bounds, convenient for lia *)
Definition lo (t : ity) : Z := match t with TInt => -2147483648 | TLong | TLLong => -9223372036854775808 | _ => 0 end.
Definition hi (t : ity) : Z :=
  match t with TInt => 2147483647 | TUInt => 4294967295 | TLong | TLLong => 9223372036854775807
             | TULong | TULLong => 18446744073709551615 end.
Lemma tmin_lo t : tmin t = lo t. Proof. destruct t; reflexivity. Qed.
Lemma tmax_hi t : tmax t = hi t. Proof. destruct t; reflexivity. Qed.
Lemma in_range_iff t z : in_range t z = true <-> lo t <= z <= hi t.
Proof.
  unfold in_range. rewrite andb_true_iff, !Z.leb_le, tmin_lo, tmax_hi. tauto.
Qed.
Lemma cast_id' t z : lo t <= z <= hi t -> cast t z = z.
Proof. intro H. apply cast_id. apply in_range_iff. exact H. Qed.
(* a value outside a type's range never survives the cast unchanged *)
Lemma cast_in_range t z : lo t <= cast t z <= hi t.
Proof.
  unfold cast.
  assert (Hm : 0 <= z mod 2 ^ width t < 2 ^ width t) by (apply Z.mod_pos_bound; destruct t; reflexivity).
  destruct t; cbn [signed width lo hi andb] in *;
  change (2 ^ 32) with 4294967296 in *; change (2 ^ (32 - 1)) with 2147483648 in *;
  change (2 ^ 64) with 18446744073709551616 in *; change (2 ^ (64 - 1)) with 9223372036854775808 in *;
  try lia.
  all: match goal with |- context [?a <=? ?b] => destruct (Z.leb_spec a b) end; lia.
Qed.
