(* Output effect of translated code: the C string at a pointer is appended to a ghost output (lib/CMem.v memory). *)
From Coq Require Import ZArith NArith Bool List String.
From CppUVerif Require Import lib.CSem lib.CMem lib.Str.
Import ListNotations.

(* the bytes of the NUL-terminated string held by a list of cells; None when no terminator is found *)
Fixpoint cstring (l : list N) : option (list N) :=
  match l with
  | [] => None
  | c :: r => if (c =? 0)%N then Some [] else option_map (cons c) (cstring r)
  end.
(* printBuffer(p): the output grows by the C string at p *)
Definition emit (m : memory) (p : ptr) (out : list N) : option (list N) := option_map (app out) (cstring (view m p)).

Lemma cstring_app s r : ~ In 0%N s -> cstring (s ++ 0%N :: r) = Some s.
Proof.
  induction s as [|c s IH]; intro H; cbn; [reflexivity|].
  destruct (N.eqb_spec c 0) as [->|_]; [exfalso; apply H; left; reflexivity|].
  rewrite IH by (intro X; apply H; right; exact X). reflexivity.
Qed.

(* ghost events of the translated check functions: the check was counted / a failure of that class was recorded at file:line and the
   test was left *)
Inductive aev := ACount | AFail (cls : string) (file : ptr) (line : Z).

(* operations of SimpleString objects built from C strings, by their textbook meaning on the strings at the pointers (the allocating
   operations themselves are not translated; C13's theorems relate the model of these operations to the same textbook functions) *)
Definition cstr_at_ptr (m : memory) (p : ptr) : list N := cut_nul (view m p).
Definition eq_nocase_at (m : memory) (p q : ptr) : Z := b2z (bytes_eqb (lower (cstr_at_ptr m p)) (lower (cstr_at_ptr m q))).
Definition contains_at (m : memory) (p q : ptr) : Z := b2z (contains (cstr_at_ptr m p) (cstr_at_ptr m q)).
Definition contains_nocase_at (m : memory) (p q : ptr) : Z := b2z (contains (lower (cstr_at_ptr m p)) (lower (cstr_at_ptr m q))).
