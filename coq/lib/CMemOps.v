(* memcpy / memset over the byte memory of lib/CMem.v, with the calling convention of the generated functions (fuel0 mem args ->
   fres (result * memory)), so that translated code can call them where the source calls PlatformSpecificMemCpy / PlatformSpecificMemset.
   Every byte touched must lie inside its block (Oob otherwise); memcpy reads the n source bytes before it writes (source and
   destination are different blocks in every use, where the order cannot matter).  Vocabulary and basic laws only. *)
From Coq Require Import ZArith NArith Bool List Lia.
From CppUVerif Require Import lib.CSem lib.CMem.
Import ListNotations.
Local Open Scope Z_scope.

(* the n bytes at p *)
Definition mem_read (m : memory) (p : ptr) (n : Z) : option (list N) :=
  match p with
  | Null => None
  | Ptr b o =>
      if (0 <=? o) && (0 <=? n) && (o + n <=? Z.of_nat (length (block m b)))
      then Some (firstn (Z.to_nat n) (skipn (Z.to_nat o) (block m b))) else None
  end.
(* the bytes bs written at p *)
Definition mem_write (m : memory) (p : ptr) (bs : list N) : option memory :=
  match p with
  | Null => None
  | Ptr b o =>
      if (0 <=? o) && (o + Z.of_nat (length bs) <=? Z.of_nat (length (block m b))) && (Nat.ltb b (length m))
      then Some (upd m b (firstn (Z.to_nat o) (block m b) ++ bs ++ skipn (Z.to_nat o + length bs) (block m b))) else None
  end.

Definition mem_copy (fuel0 : nat) (m : memory) (dst src : ptr) (n : Z) : fres (ptr * memory) :=
  match mem_read m src n with
  | None => FOob
  | Some bs => match mem_write m dst bs with None => FOob | Some m' => FOk (dst, m') end
  end.
Definition mem_set (fuel0 : nat) (m : memory) (dst : ptr) (c n : Z) : fres (ptr * memory) :=
  if 0 <=? n then
    match mem_write m dst (repeat (Z.to_N (c mod 256)) (Z.to_nat n)) with None => FOob | Some m' => FOk (dst, m') end
  else FOob.

Lemma mem_read_length m p n bs : mem_read m p n = Some bs -> length bs = Z.to_nat n.
Proof.
  destruct p as [|b o]; cbn [mem_read]; [discriminate|].
  destruct ((0 <=? o) && (0 <=? n) && (o + n <=? Z.of_nat (length (block m b)))) eqn:E; [|discriminate].
  intro H. inversion H; subst. apply andb_true_iff in E. destruct E as [E1 E3]. apply andb_true_iff in E1. destruct E1 as [E1 E2].
  apply Z.leb_le in E1, E2, E3. rewrite firstn_length, skipn_length. lia.
Qed.
Lemma mem_write_block m b o bs m' : mem_write m (Ptr b o) bs = Some m' ->
  block m' b = firstn (Z.to_nat o) (block m b) ++ bs ++ skipn (Z.to_nat o + length bs) (block m b) /\ length m' = length m /\
  forall b', b' <> b -> block m' b' = block m b'.
Proof.
  cbn [mem_write].
  destruct ((0 <=? o) && (o + Z.of_nat (length bs) <=? Z.of_nat (length (block m b))) && (Nat.ltb b (length m))) eqn:E; [|discriminate].
  intro H. inversion H; subst. apply andb_true_iff in E. destruct E as [_ E]. apply Nat.ltb_lt in E.
  unfold block. split; [apply nth_upd_same; exact E|]. split; [apply upd_length|].
  intros b' Hb. apply nth_upd_other. intro K. apply Hb. symmetry. exact K.
Qed.
