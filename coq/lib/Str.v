(* Textbook byte-string functions (bytes are N in 0..255; a string is a list of bytes without terminator).
   These are the *specifications* the string-level models are proved against (C13) and that other models reuse. *)
From Coq Require Import NArith Bool List Lia.
Import ListNotations.
Local Open Scope N_scope.

Fixpoint bytes_eqb (a b : list N) : bool :=
  match a, b with
  | [], [] => true
  | x :: a', y :: b' => (x =? y) && bytes_eqb a' b'
  | _, _ => false
  end.

Lemma bytes_eqb_eq a : forall b, bytes_eqb a b = true <-> a = b.
Proof.
  induction a as [|x a IH]; destruct b as [|y b]; cbn; split; intro H; try reflexivity; try discriminate H.
  - apply andb_true_iff in H. destruct H as [Hx Hr]. apply N.eqb_eq in Hx. apply IH in Hr. subst. reflexivity.
  - inversion H; subst. rewrite N.eqb_refl. cbn. apply IH. reflexivity.
Qed.
Lemma bytes_eqb_refl a : bytes_eqb a a = true. Proof. apply bytes_eqb_eq. reflexivity. Qed.
Lemma bytes_eqb_neq a b : bytes_eqb a b = false <-> a <> b.
Proof.
  split; intro H.
  - intro E. apply bytes_eqb_eq in E. congruence.
  - destruct (bytes_eqb a b) eqn:E; [|reflexivity]. apply bytes_eqb_eq in E. contradiction.
Qed.
Lemma bytes_eqb_sym a b : bytes_eqb a b = bytes_eqb b a.
Proof.
  destruct (bytes_eqb a b) eqn:E.
  - apply bytes_eqb_eq in E. subst. symmetry. apply bytes_eqb_refl.
  - symmetry. apply bytes_eqb_neq. apply bytes_eqb_neq in E. congruence.
Qed.

(* C string held in a byte array: the content stops at the first NUL *)
Fixpoint cut_nul (s : list N) : list N :=
  match s with [] => [] | c :: r => if c =? 0 then [] else c :: cut_nul r end.
Lemma cut_nul_no_nul s : ~ In 0 (cut_nul s).
Proof.
  induction s as [|c r IH]; cbn; [tauto|]. destruct (N.eqb_spec c 0); cbn; [tauto|]. intros [H|H]; [congruence|tauto].
Qed.
Lemma cut_nul_id s : ~ In 0 s -> cut_nul s = s.
Proof.
  induction s as [|c r IH]; cbn; intro H; [reflexivity|].
  destruct (N.eqb_spec c 0); [exfalso; apply H; left; assumption|]. f_equal. apply IH. tauto.
Qed.

(* prefix *)
Fixpoint is_prefix (p s : list N) : bool :=
  match p, s with
  | [], _ => true
  | x :: p', y :: s' => (x =? y) && is_prefix p' s'
  | _ :: _, [] => false
  end.
Lemma is_prefix_spec p : forall s, is_prefix p s = true <-> exists q, s = p ++ q.
Proof.
  induction p as [|x p IH]; intro s; cbn.
  - split; [intros _; exists s; reflexivity | reflexivity].
  - destruct s as [|y s]; split; intro H; try discriminate H.
    + destruct H as [q Hq]. discriminate Hq.
    + apply andb_true_iff in H. destruct H as [Hx Hr]. apply N.eqb_eq in Hx. apply IH in Hr.
      destruct Hr as [q ->]. subst. exists q. reflexivity.
    + destruct H as [q Hq]. inversion Hq; subst. rewrite N.eqb_refl. cbn. apply IH. exists q. reflexivity.
Qed.

(* substring: textbook "s = pre ++ t ++ post" *)
Fixpoint contains (s t : list N) : bool :=
  is_prefix t s || match s with [] => false | _ :: s' => contains s' t end.
Lemma contains_spec s : forall t, contains s t = true <-> exists p q, s = p ++ t ++ q.
Proof.
  induction s as [|c s IH]; intro t; cbn [contains].
  - rewrite orb_false_r. rewrite is_prefix_spec. split.
    + intros [q Hq]. exists [], q. exact Hq.
    + intros [p [q H]]. destruct p; [exists q; exact H | discriminate H].
  - rewrite orb_true_iff, is_prefix_spec, IH. split.
    + intros [[q Hq] | [p [q Hq]]].
      * exists [], q. exact Hq.
      * exists (c :: p), q. cbn. f_equal. exact Hq.
    + intros [p [q H]]. destruct p as [|x p].
      * left. exists q. exact H.
      * right. inversion H; subst. exists p, q. reflexivity.
Qed.

(* first index at which t occurs in s *)
Fixpoint find_sub (s t : list N) : option nat :=
  if is_prefix t s then Some 0%nat
  else match s with [] => None | _ :: s' => option_map S (find_sub s' t) end.
Lemma find_sub_contains s : forall t, (exists i, find_sub s t = Some i) <-> contains s t = true.
Proof.
  induction s as [|c s IH]; intro t; cbn [find_sub contains].
  - destruct (is_prefix t []); cbn; split; intro H; try reflexivity; try discriminate H.
    + exists 0%nat. reflexivity.
    + destruct H as [i H]. discriminate H.
  - destruct (is_prefix t (c :: s)); cbn [orb].
    + split; [reflexivity | intros _; exists 0%nat; reflexivity].
    + rewrite <- IH. split; intros [i H].
      * destruct (find_sub s t) as [j|]; [exists j; reflexivity | discriminate H].
      * rewrite H. exists (S i). reflexivity.
Qed.

(* ASCII case folding as in SimpleString::ToLower *)
Definition to_lower (c : N) : N := if (65 <=? c) && (c <=? 90) then c + 32 else c.
Definition lower (s : list N) : list N := map to_lower s.

(* lexicographic comparison of byte strings as unsigned bytes: -1 / 0 / 1 *)
Fixpoint str_cmp (a b : list N) : comparison :=
  match a, b with
  | [], [] => Eq
  | [], _ :: _ => Lt
  | _ :: _, [] => Gt
  | x :: a', y :: b' => match x ?= y with Eq => str_cmp a' b' | c => c end
  end.
Lemma str_cmp_eq a : forall b, str_cmp a b = Eq <-> a = b.
Proof.
  induction a as [|x a IH]; destruct b as [|y b]; cbn; split; intro H; try reflexivity; try discriminate H.
  - destruct (x ?= y) eqn:E; try discriminate H. apply N.compare_eq in E. apply IH in H. subst. reflexivity.
  - inversion H; subst. rewrite N.compare_refl. apply IH. reflexivity.
Qed.
