(* Byte memory, pointers and the result type used by the GENERATED translations of looping C/C++ functions
   (tools/cxx2gal.py -> gen/Gen_Loop<X>.v).  A memory is a list of blocks of bytes, a pointer is Null or (block, offset);
   forming a pointer outside [0, length of the block] is an error (C allows one-past-the-end), reading or writing at an
   offset outside [0, length) is an error.  Every loop of the source becomes a Fixpoint on explicit fuel.
   Only vocabulary and its basic laws here: no statement about the source. *)
From Coq Require Import ZArith NArith Bool List Lia.
From CppUVerif Require Import lib.CSem.
Import ListNotations.
Local Open Scope Z_scope.

Inductive ptr := Null | Ptr (b : nat) (o : Z).
Definition memory := list (list N).

(* R = type of the value a `return` carries, A = type of the state a statement hands to what follows it *)
Inductive cres (R A : Type) := Go (a : A) | Done (r : R) | Oob | NoFuel.
Arguments Go {R A} a. Arguments Done {R A} r. Arguments Oob {R A}. Arguments NoFuel {R A}.

(* result of a whole function *)
Inductive fres (R : Type) := FOk (r : R) | FOob | FNoFuel.
Arguments FOk {R} r. Arguments FOob {R}. Arguments FNoFuel {R}.
Definition finish {R A} (c : cres R A) : fres R :=
  match c with
  | Done r => FOk r
  | Go _ => FOob               (* not produced: the translator ends every path with Done or Oob *)
  | Oob => FOob
  | NoFuel => FNoFuel
  end.

Definition block (m : memory) (b : nat) : list N := nth b m [].

Definition load (m : memory) (p : ptr) : option N :=
  match p with
  | Null => None
  | Ptr b o => if 0 <=? o then nth_error (block m b) (Z.to_nat o) else None
  end.

Fixpoint upd {A} (l : list A) (i : nat) (v : A) : list A :=
  match l, i with
  | [], _ => []
  | _ :: r, O => v :: r
  | x :: r, S i' => x :: upd r i' v
  end.

Definition store (m : memory) (p : ptr) (v : N) : option memory :=
  match p with
  | Null => None
  | Ptr b o =>
      if (0 <=? o) && (o <? Z.of_nat (length (block m b))) && (Nat.ltb b (length m))
      then Some (upd m b (upd (block m b) (Z.to_nat o) v)) else None
  end.

(* p + k : only positions 0 .. length of the block (one past the end) may be formed *)
Definition padd (m : memory) (p : ptr) (k : Z) : option ptr :=
  match p with
  | Null => None
  | Ptr b o => if (0 <=? o + k) && (o + k <=? Z.of_nat (length (block m b))) then Some (Ptr b (o + k)) else None
  end.

Definition ptr_eqb (p q : ptr) : bool :=
  match p, q with
  | Null, Null => true
  | Ptr b o, Ptr b' o' => Nat.eqb b b' && (o =? o')
  | _, _ => false
  end.
Definition p_eq (p q : ptr) : Z := b2z (ptr_eqb p q).
Definition p_ne (p q : ptr) : Z := b2z (negb (ptr_eqb p q)).
Definition p_bool (p : ptr) : Z := p_ne p Null.

(* the value of a byte read through `char` (signed on this platform) / `unsigned char`; the byte a value is stored as *)
Definition schar (c : N) : Z := cw 8 true (Z.of_N c).
Definition uchar (c : N) : Z := Z.of_N c.
Definition byte_of (v : Z) : N := Z.to_N (v mod 256).

(* the cells from a pointer to the end of its block: the `const char*` of the hand-written string models *)
Definition view (m : memory) (p : ptr) : list N :=
  match p with Null => [] | Ptr b o => if 0 <=? o then skipn (Z.to_nat o) (block m b) else [] end.

Lemma upd_length {A} (l : list A) : forall i v, length (upd l i v) = length l.
Proof. induction l as [|x l IH]; intros [|i] v; cbn; auto. Qed.
Lemma nth_error_upd_same {A} (l : list A) : forall i v, (i < length l)%nat -> nth_error (upd l i v) i = Some v.
Proof. induction l as [|x l IH]; intros [|i] v H; cbn in *; try lia; auto. apply IH. lia. Qed.
Lemma nth_error_upd_other {A} (l : list A) : forall i j v, i <> j -> nth_error (upd l i v) j = nth_error l j.
Proof. induction l as [|x l IH]; intros [|i] [|j] v H; cbn; auto; try congruence. Qed.
Lemma nth_upd_same {A} (l : list A) i v d : (i < length l)%nat -> nth i (upd l i v) d = v.
Proof. intro H. apply nth_error_nth. apply nth_error_upd_same. exact H. Qed.
Lemma nth_upd_other {A} (l : list A) : forall i j v d, i <> j -> nth j (upd l i v) d = nth j l d.
Proof. induction l as [|x l IH]; intros [|i] [|j] v d H; cbn; auto; try congruence. Qed.

Lemma load_view m p : load m p = match view m p with [] => None | c :: _ => Some c end.
Proof.
  destruct p as [|b o]; cbn; [reflexivity|]. destruct (0 <=? o); [|reflexivity].
  generalize (Z.to_nat o) (block m b). intros n l. revert n. induction l as [|x l IH]; intros [|n]; cbn; auto.
Qed.

Lemma view_padd1 m b o c r : view m (Ptr b o) = c :: r ->
  padd m (Ptr b o) 1 = Some (Ptr b (o + 1)) /\ view m (Ptr b (o + 1)) = r.
Proof.
  cbn. destruct (0 <=? o) eqn:Ho; [|discriminate]. apply Z.leb_le in Ho. intro H.
  assert (L : (Z.to_nat o < length (block m b))%nat).
  { destruct (Nat.lt_ge_cases (Z.to_nat o) (length (block m b))) as [L|L]; [exact L|].
    rewrite skipn_all2 in H by exact L. discriminate H. }
  replace (0 <=? o + 1) with true by (symmetry; apply Z.leb_le; lia).
  replace (o + 1 <=? Z.of_nat (length (block m b))) with true by (symmetry; apply Z.leb_le; lia).
  split; [reflexivity|]. cbn [andb].
  replace (Z.to_nat (o + 1)) with (S (Z.to_nat o)) by lia.
  revert H. generalize (Z.to_nat o) (block m b). intros n l. revert n.
  induction l as [|x l IH]; intros [|n] H; cbn in *; try discriminate; try (inversion H; reflexivity).
  apply IH. exact H.
Qed.

Lemma view_nil_padd1 m b o : view m (Ptr b o) = [] -> load m (Ptr b o) = None.
Proof. intro H. rewrite load_view, H. reflexivity. Qed.
