(* IEEE-754 binary64 via Flocq (single-NaN view: NaN payloads are irrelevant to every modelled function).
   doubles_equal mirrors src/CppUTest/Utest.cpp. *)
From Coq Require Import ZArith Bool.
From Flocq Require Import Core.Core IEEE754.BinarySingleNaN IEEE754.Binary IEEE754.Bits.
Local Open Scope Z_scope.

Definition dbl := BinarySingleNaN.binary_float 53 1024.
Definition dbl_of_bits (n : Z) : dbl := Binary.B2BSN 53 1024 (b64_of_bits n).

Definition d_is_nan (d : dbl) : bool := BinarySingleNaN.is_nan d.
Definition d_is_inf (d : dbl) : bool := match d with BinarySingleNaN.B754_infinity _ => true | _ => false end.
Definition d_sign (d : dbl) : bool := BinarySingleNaN.Bsign d.
Lemma Hprec64 : FLX.Prec_gt_0 53. Proof. unfold FLX.Prec_gt_0; reflexivity. Qed.
Lemma Hmax64 : BinarySingleNaN.Prec_lt_emax 53 1024. Proof. unfold BinarySingleNaN.Prec_lt_emax; reflexivity. Qed.
Definition d_minus (a b : dbl) : dbl := BinarySingleNaN.Bminus (prec:=53) (emax:=1024) (prec_gt_0_:=Hprec64) (prec_lt_emax_:=Hmax64) mode_NE a b.
Definition d_abs (a : dbl) : dbl := BinarySingleNaN.Babs a.
Definition d_cmp (a b : dbl) : option comparison := BinarySingleNaN.Bcompare a b.
(* C's a <= b and a == b on doubles (false when unordered) *)
Definition d_le (a b : dbl) : bool := match d_cmp a b with Some Lt | Some Eq => true | _ => false end.
Definition d_eq (a b : dbl) : bool := match d_cmp a b with Some Eq => true | _ => false end.

(* bool doubles_equal(double d1, double d2, double threshold)   -- Utest.cpp, after the D1 repair *)
Definition doubles_equal (d1 d2 t : dbl) : bool :=
  if d_is_nan d1 || d_is_nan d2 || d_is_nan t then false
  else if d_is_inf d1 && d_is_inf d2 && d_eq d1 d2 then true
  else d_le (d_abs (d_minus d1 d2)) t.

(* the code before the repair (kept for the refutation lemma and for replaying the old defect) *)
Definition doubles_equal_old (d1 d2 t : dbl) : bool :=
  if d_is_nan d1 || d_is_nan d2 || d_is_nan t then false
  else if d_is_inf d1 && d_is_inf d2 then true
  else d_le (d_abs (d_minus d1 d2)) t.
