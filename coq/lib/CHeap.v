(* Object heap used by the GENERATED translations of functions that walk and relink STRUCTS (tools/cxx2heap.py ->
   gen/Gen_Heap<X>.v).  A heap is a list of blocks of cells; an object (struct, array of structs, array of scalars) is a block
   with one cell per scalar member in declaration order (nested structs and arrays are flattened); a cell holds an integer or a
   pointer into the heap.  Pointers to modelled record types are `hptr` (block, cell index); every other pointer of the source
   (e.g. the `char* memory_` of a leak record, never dereferenced by the translated functions) is an opaque integer address.
   Forming a pointer outside [0, number of cells] or reading/writing outside [0, number of cells), or reading a cell at the
   wrong kind, is an error (Oob).  Result types cres / fres are those of lib/CMem.v.  Only vocabulary and basic laws here. *)
From Coq Require Import ZArith NArith Bool List Lia.
From CppUVerif Require Import lib.CSem lib.CMem.
Import ListNotations.
Local Open Scope Z_scope.

Inductive hptr := HNull | HPtr (b : nat) (i : Z).
Inductive val := VInt (z : Z) | VPtr (p : hptr).
Definition heap := list (list val).

(* calls on an underlying allocator made by translated code: ghost events; id = the ordinal of the allocation *)
Inductive hev :=
| HAllocRec (id : Z) (p : hptr) (sz : Z)     (* a record object obtained from the allocator (a new heap block) *)
| HAllocBuf (id : Z) (sz : Z)                (* a byte buffer: the opaque address handed out is its ordinal *)
| HFreeRec (p : hptr) (sz : Z)
| HFreeBuf (a : Z) (sz : Z)
| HWarn
| HFail.                                      (* the test was failed (and left) through UtestShell::fail *)

Definition hblock (h : heap) (b : nat) : list val := nth b h [].

Definition hload (h : heap) (p : hptr) : option val :=
  match p with
  | HNull => None
  | HPtr b i => if 0 <=? i then nth_error (hblock h b) (Z.to_nat i) else None
  end.
Definition hload_int (h : heap) (p : hptr) : option Z := match hload h p with Some (VInt z) => Some z | _ => None end.
Definition hload_ptr (h : heap) (p : hptr) : option hptr := match hload h p with Some (VPtr q) => Some q | _ => None end.

Definition hstore (h : heap) (p : hptr) (v : val) : option heap :=
  match p with
  | HNull => None
  | HPtr b i =>
      if (0 <=? i) && (i <? Z.of_nat (length (hblock h b))) && (Nat.ltb b (length h))
      then Some (upd h b (upd (hblock h b) (Z.to_nat i) v)) else None
  end.

Definition hpadd (h : heap) (p : hptr) (k : Z) : option hptr :=
  match p with
  | HNull => None
  | HPtr b i => if (0 <=? i + k) && (i + k <=? Z.of_nat (length (hblock h b))) then Some (HPtr b (i + k)) else None
  end.

Definition hptr_eqb (p q : hptr) : bool :=
  match p, q with
  | HNull, HNull => true
  | HPtr b i, HPtr b' i' => Nat.eqb b b' && (i =? i')
  | _, _ => false
  end.
Definition hp_eq (p q : hptr) : Z := b2z (hptr_eqb p q).
Definition hp_ne (p q : hptr) : Z := b2z (negb (hptr_eqb p q)).
Definition hp_bool (p : hptr) : Z := hp_ne p HNull.

Lemma hptr_eqb_eq p q : hptr_eqb p q = true <-> p = q.
Proof.
  destruct p as [|b i], q as [|b' i']; cbn; split; intro H; try reflexivity; try discriminate H.
  - apply andb_true_iff in H. destruct H as [H1 H2]. apply Nat.eqb_eq in H1. apply Z.eqb_eq in H2. subst. reflexivity.
  - inversion H; subst. rewrite Nat.eqb_refl, Z.eqb_refl. reflexivity.
Qed.
Lemma hptr_eqb_refl p : hptr_eqb p p = true. Proof. apply hptr_eqb_eq. reflexivity. Qed.
Lemma hp_bool_null : hp_bool HNull = 0. Proof. reflexivity. Qed.
Lemma hp_bool_ptr b i : hp_bool (HPtr b i) = 1. Proof. reflexivity. Qed.

(* cell k of block b *)
Definition cell (h : heap) (b : nat) (k : nat) : option val := nth_error (hblock h b) k.
Lemma hload_cell h b k : hload h (HPtr b (Z.of_nat k)) = cell h b k.
Proof. cbn [hload]. replace (0 <=? Z.of_nat k) with true by (symmetry; apply Z.leb_le; lia). rewrite Nat2Z.id. reflexivity. Qed.
Lemma hpadd_cell h b i k : (i + k <= length (hblock h b))%nat ->
  hpadd h (HPtr b (Z.of_nat i)) (Z.of_nat k) = Some (HPtr b (Z.of_nat (i + k))).
Proof.
  intro L. cbn [hpadd]. replace (0 <=? Z.of_nat i + Z.of_nat k) with true by (symmetry; apply Z.leb_le; lia).
  replace (Z.of_nat i + Z.of_nat k <=? Z.of_nat (length (hblock h b))) with true by (symmetry; apply Z.leb_le; lia).
  cbn [andb]. f_equal. f_equal. lia.
Qed.
Lemma hstore_cell h b k v : hstore h (HPtr b (Z.of_nat k)) v =
  if Nat.ltb k (length (hblock h b)) && Nat.ltb b (length h) then Some (upd h b (upd (hblock h b) k v)) else None.
Proof.
  cbn [hstore]. replace (0 <=? Z.of_nat k) with true by (symmetry; apply Z.leb_le; lia). rewrite Nat2Z.id. cbn [andb].
  destruct (Nat.ltb_spec k (length (hblock h b))) as [L|L].
  - replace (Z.of_nat k <? Z.of_nat (length (hblock h b))) with true by (symmetry; apply Z.ltb_lt; lia). reflexivity.
  - replace (Z.of_nat k <? Z.of_nat (length (hblock h b))) with false by (symmetry; apply Z.ltb_ge; lia). reflexivity.
Qed.
Lemma hblock_upd_same (h : heap) b d : (b < length h)%nat -> hblock (upd h b d) b = d.
Proof. intro H. unfold hblock. apply nth_upd_same. exact H. Qed.
Lemma hblock_upd_other (h : heap) b b' d : b <> b' -> hblock (upd h b d) b' = hblock h b'.
Proof. intro H. unfold hblock. apply nth_upd_other. exact H. Qed.
Lemma heap_upd_length (h : heap) b d : length (upd h b d) = length h.
Proof. apply upd_length. Qed.

(* the n cells of the object at p (copying a record: `new T(other)`) *)
Definition hcells (h : heap) (p : hptr) (n : nat) : option (list val) :=
  match p with
  | HNull => None
  | HPtr b i =>
      if (0 <=? i) && (i + Z.of_nat n <=? Z.of_nat (length (hblock h b)))
      then Some (firstn n (skipn (Z.to_nat i) (hblock h b))) else None
  end.
Lemma hcells_whole h b n : n = length (hblock h b) -> hcells h (HPtr b 0) n = Some (hblock h b).
Proof.
  intros ->. cbn [hcells]. replace (0 <=? 0) with true by reflexivity.
  replace (0 + Z.of_nat (length (hblock h b)) <=? Z.of_nat (length (hblock h b))) with true by (symmetry; apply Z.leb_le; lia).
  cbn [andb Z.to_nat skipn]. rewrite firstn_all. reflexivity.
Qed.
