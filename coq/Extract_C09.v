From Coq Require Import ExtrOcamlBasic.
From CppUVerif Require Import lib.CInt lib.Dbl C09_Model C09_Access C09_Reuse C09_Edge C09_Stale.
Extraction "c09_model.ml" C09_Model.run C09_Model.spec C09_Model.valid C09_Model.sc_run C09_Model.sc_spec C09_Model.sc_valid C09_Access.x_run C09_Access.x_spec C09_Access.x_valid C09_Reuse.z_run C09_Reuse.z_spec C09_Reuse.z_valid C09_Edge.w_run C09_Edge.w_spec C09_Edge.w_valid C09_Stale.v_run C09_Stale.v_spec C09_Stale.v_valid Dbl.dbl_of_bits.
