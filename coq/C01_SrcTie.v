(* C01: the C++ code that counts, summarises and turns a run into an exit value, as TRANSLATED from /repo on every run
   (gen/Gen_HeapC01.v: TestResult::count* / addFailure / get* / isFailure, TestOutput::printTestsEnded;
    gen/Gen_HeapC01X.v: CommandLineTestRunner::runAllTests), computes what the hand-written model C01_Model.v says:
   cnt / cadd / one_test .. one_ign, is_failure, mk_summary, the accumulators ft / fe of runner_loop, exit_value.

   Representation.  `result_rep h rb o c time r`: block rb of the heap is the 13 cells of a TestResult: cell 0 (the reference
   member output_) = o (opaque), cells 1..6 = VInt of k_tests, k_run, k_checks, k_fail, k_filt, k_ign of the model counters c,
   cell 7 = VInt time (totalExecutionTime_), cells 8..12 = r (the five other time members, opaque, never read or written here).
   `result_at h rb c time` hides o and r.  `output_rep h ob d v color p`: block ob is the 4 cells of a TestOutput
   [dotCount_; verbose_; VInt (b2z color); progressIndication_]; `output_at h ob color` hides the other three.

   Sections: 0 layout, 1 representation, 2 counters and getters, 3 isFailure, 4 printTestsEnded and the text it prints,
   5 runAllTests (events, accumulators, exit value), 6 the model's runner_loop accumulates the same sums, 7 examples,
   8 corollaries.  All Qed; nothing assumed.

   Theorems:
     result_layout_is_the_source
     src_result_get{Test,Run,Check,Failure,FilteredOut,Ignored}Count_spec, src_result_getTotalExecutionTime_spec   (heap unchanged)
     src_result_count{Test,Run,Check,FilteredOut,Ignored}_spec, src_result_addFailure_spec  (new heap = upd h rb (cells of cadd c one_X);
       hypothesis: the counter + 1 < 2^64; addFailure appends exactly [QPrintFailure]); the same on result_at: ..._at
     src_result_isFailure_spec   (= b2z (is_failure c); hypothesis k_run + k_ign < 2^64; isFailure_without_the_bound_differs: needed)
     src_output_printTestsEnded_spec / _at  (events added = summary_text color c time; only dotCount_ := 0 is stored)
     summary_text_denotes_mk_summary (parse_summary), summary_text_OK / _Errors (+ _In), summary_text_after_Errors,
       summary_text_numbers, m_ok_iff                                                         (all for every c)
     src_runner_list1/2/3, src_runner_runAllTests_spec (events = run_events, value = exit_value ft fe), run_events_reps,
       run_events_counts, reverse_before_every_run, exit_zero_iff, src_runner_exit_zero_iff, exit_value_wraps (refuted form)
     runner_loop_accumulates, src_runner_agrees_with_runner_loop, stream_values_are_the_getters *)
From Coq Require Import String Ascii ZArith NArith Bool List Lia.
From CppUVerif Require Import lib.CInt lib.CSem lib.CMem lib.CMemFacts lib.CHeap gen.Gen_Common gen.Gen_HeapC01 gen.Gen_HeapC01X
  C01_Model.
Import ListNotations.
Local Open Scope Z_scope.
Local Notation length := Datatypes.length.

(* ================================================================== 0: the layout, as re-read from the class definitions *)
Lemma result_layout_is_the_source :
  off_TestResult_output_ = 0 /\ off_TestResult_testCount_ = 1 /\ off_TestResult_runCount_ = 2 /\
  off_TestResult_checkCount_ = 3 /\ off_TestResult_failureCount_ = 4 /\ off_TestResult_filteredOutCount_ = 5 /\
  off_TestResult_ignoredCount_ = 6 /\ off_TestResult_totalExecutionTime_ = 7 /\ cells_TestResult = 13 /\
  off_TestOutput_dotCount_ = 0 /\ off_TestOutput_verbose_ = 1 /\ off_TestOutput_color_ = 2 /\
  off_TestOutput_progressIndication_ = 3 /\ cells_TestOutput = 4.
Proof. repeat split; reflexivity. Qed.

(* ================================================================== 1: representation *)
Definition result_cells (o : val) (c : cnt) (time : Z) (r : list val) : list val :=
  o :: VInt (Z.of_N (k_tests c)) :: VInt (Z.of_N (k_run c)) :: VInt (Z.of_N (k_checks c)) :: VInt (Z.of_N (k_fail c))
    :: VInt (Z.of_N (k_filt c)) :: VInt (Z.of_N (k_ign c)) :: VInt time :: r.
Definition result_rep (h : heap) (rb : nat) (o : val) (c : cnt) (time : Z) (r : list val) : Prop :=
  (rb < length h)%nat /\ length r = 5%nat /\ hblock h rb = result_cells o c time r.
Definition result_at (h : heap) (rb : nat) (c : cnt) (time : Z) : Prop := exists o r, result_rep h rb o c time r.
(* every counter is a value of its C type (unsigned long) *)
Definition cnt_ok (c : cnt) : Prop :=
  Z.of_N (k_tests c) < 2 ^ 64 /\ Z.of_N (k_run c) < 2 ^ 64 /\ Z.of_N (k_checks c) < 2 ^ 64 /\ Z.of_N (k_fail c) < 2 ^ 64 /\
  Z.of_N (k_filt c) < 2 ^ 64 /\ Z.of_N (k_ign c) < 2 ^ 64.

Definition output_cells (d v : val) (color : bool) (p : val) : list val := [d; v; VInt (b2z color); p].
Definition output_rep (h : heap) (ob : nat) (d v : val) (color : bool) (p : val) : Prop :=
  (ob < length h)%nat /\ hblock h ob = output_cells d v color p.
Definition output_at (h : heap) (ob : nat) (color : bool) : Prop := exists d v p, output_rep h ob d v color p.

Lemma result_cells_length o c t r : length r = 5%nat -> Z.of_nat (length (result_cells o c t r)) = cells_TestResult.
Proof. intro H. cbn [result_cells length]. rewrite H. reflexivity. Qed.
Lemma output_cells_length d v color p : Z.of_nat (length (output_cells d v color p)) = cells_TestOutput.
Proof. reflexivity. Qed.

(* pointer step / load / store inside a block whose contents are known *)
Lemma blk_padd h b l k : hblock h b = l -> 0 <= k <= Z.of_nat (length l) -> hpadd h (HPtr b 0) k = Some (HPtr b k).
Proof.
  intros <- H. unfold hpadd. rewrite Z.add_0_l. replace (0 <=? k) with true by (symmetry; apply Z.leb_le; lia).
  replace (k <=? Z.of_nat (length (hblock h b))) with true by (symmetry; apply Z.leb_le; lia). reflexivity.
Qed.
Lemma blk_load_int h b l k z : hblock h b = l -> 0 <= k -> nth_error l (Z.to_nat k) = Some (VInt z) ->
  hload_int h (HPtr b k) = Some z.
Proof.
  intros <- H0 Hn. unfold hload_int, hload. replace (0 <=? k) with true by (symmetry; apply Z.leb_le; lia).
  rewrite Hn. reflexivity.
Qed.
Lemma blk_store h b l k v : hblock h b = l -> 0 <= k < Z.of_nat (length l) -> (b < length h)%nat ->
  hstore h (HPtr b k) v = Some (upd h b (upd l (Z.to_nat k) v)).
Proof.
  intros <- Hk Hb. unfold hstore. replace (0 <=? k) with true by (symmetry; apply Z.leb_le; lia).
  replace (k <? Z.of_nat (length (hblock h b))) with true by (symmetry; apply Z.ltb_lt; lia).
  replace (Nat.ltb b (length h)) with true by (symmetry; apply Nat.ltb_lt; exact Hb). reflexivity.
Qed.

(* writing the block of a TestResult keeps the representation and every other block *)
Lemma result_rep_upd h rb o c c' t t' r :
  result_rep h rb o c t r ->
  result_rep (upd h rb (result_cells o c' t' r)) rb o c' t' r /\
  length (upd h rb (result_cells o c' t' r)) = length h /\
  (forall b, b <> rb -> hblock (upd h rb (result_cells o c' t' r)) b = hblock h b).
Proof.
  intros [Hlt [Hr Hb]]. split; [|split].
  - split; [rewrite heap_upd_length; exact Hlt|]. split; [exact Hr|]. apply hblock_upd_same. exact Hlt.
  - apply heap_upd_length.
  - intros b Hne. apply hblock_upd_other. intro E. apply Hne. symmetry. exact E.
Qed.

(* ================================================================== 2: getters and counters *)
Section Getters.
Variables (fuel : nat) (h : heap) (evs : list qev) (fcs ifs : list Z) (rb : nat) (o : val) (c : cnt) (t : Z) (r : list val).
Hypothesis Hrep : result_rep h rb o c t r.

Ltac getter k :=
  destruct Hrep as [_ [Hr Hb]];
  rewrite (blk_padd h rb _ k Hb) by (rewrite (result_cells_length _ _ _ _ Hr); unfold cells_TestResult; lia);
  rewrite (blk_load_int h rb _ k _ Hb ltac:(lia) eq_refl); reflexivity.

Lemma src_result_getTestCount_spec :
  src_result_getTestCount fuel h evs fcs ifs (HPtr rb 0) = FOk (Z.of_N (k_tests c), h, evs, fcs, ifs).
Proof. unfold src_result_getTestCount. getter 1. Qed.
Lemma src_result_getRunCount_spec :
  src_result_getRunCount fuel h evs fcs ifs (HPtr rb 0) = FOk (Z.of_N (k_run c), h, evs, fcs, ifs).
Proof. unfold src_result_getRunCount. getter 2. Qed.
Lemma src_result_getCheckCount_spec :
  src_result_getCheckCount fuel h evs fcs ifs (HPtr rb 0) = FOk (Z.of_N (k_checks c), h, evs, fcs, ifs).
Proof. unfold src_result_getCheckCount. getter 3. Qed.
Lemma src_result_getFailureCount_spec :
  src_result_getFailureCount fuel h evs fcs ifs (HPtr rb 0) = FOk (Z.of_N (k_fail c), h, evs, fcs, ifs).
Proof. unfold src_result_getFailureCount. getter 4. Qed.
Lemma src_result_getFilteredOutCount_spec :
  src_result_getFilteredOutCount fuel h evs fcs ifs (HPtr rb 0) = FOk (Z.of_N (k_filt c), h, evs, fcs, ifs).
Proof. unfold src_result_getFilteredOutCount. getter 5. Qed.
Lemma src_result_getIgnoredCount_spec :
  src_result_getIgnoredCount fuel h evs fcs ifs (HPtr rb 0) = FOk (Z.of_N (k_ign c), h, evs, fcs, ifs).
Proof. unfold src_result_getIgnoredCount. getter 6. Qed.
Lemma src_result_getTotalExecutionTime_spec :
  src_result_getTotalExecutionTime fuel h evs fcs ifs (HPtr rb 0) = FOk (t, h, evs, fcs, ifs).
Proof. unfold src_result_getTotalExecutionTime. getter 7. Qed.

(* the six ++ : the heap afterwards is EXACTLY the old heap with block rb = the cells of (cadd c one_X) *)
Lemma cells_step k (x : cnt) v :
  upd (result_cells o c t r) (Z.to_nat k) (VInt v) = result_cells o x t r ->
  0 < k < 8 -> 0 <= v ->
  nth_error (result_cells o c t r) (Z.to_nat k) = Some (VInt (v - 1)) -> v < 2 ^ 64 ->
  finish (R := unit * heap * list qev * list Z * list Z) (A := unit)
    (match hpadd h (HPtr rb 0) k with None => Oob | Some q1 =>
     match hload_int h q1 with None => Oob | Some v2 =>
       let v3 := cw 64 false (v2 + 1) in
       match hstore h q1 (VInt v3) with None => Oob | Some mem => Done (tt, mem, evs, fcs, ifs) end end end)
  = FOk (tt, upd h rb (result_cells o x t r), evs, fcs, ifs).
Proof.
  intros Hupd Hk Hv Hn Hlt. destruct Hrep as [Hrb [Hr Hb]].
  assert (L : Z.of_nat (length (result_cells o c t r)) = 13) by (apply result_cells_length; exact Hr).
  rewrite (blk_padd h rb _ k Hb) by lia.
  rewrite (blk_load_int h rb _ k _ Hb ltac:(lia) Hn). cbv zeta.
  replace (v - 1 + 1) with v by lia. rewrite cw_u_small by lia.
  rewrite (blk_store h rb _ k _ Hb) by (lia || assumption). rewrite Hupd. reflexivity.
Qed.

Ltac counter k v :=
  let n := eval vm_compute in (Z.to_nat k) in
  apply (cells_step k _ v); change (Z.to_nat k) with n;
  [ destruct c; unfold result_cells, cadd, one_test, one_run, one_check, one_fail, one_filt, one_ign; cbn;
    rewrite ?N.add_0_r, ?N2Z.inj_add; reflexivity | lia | lia | cbn; f_equal; f_equal; lia | assumption ].

Lemma src_result_countTest_spec : Z.of_N (k_tests c) + 1 < 2 ^ 64 ->
  src_result_countTest fuel h evs fcs ifs (HPtr rb 0) = FOk (tt, upd h rb (result_cells o (cadd c one_test) t r), evs, fcs, ifs).
Proof. intro H. unfold src_result_countTest. counter 1 (Z.of_N (k_tests c) + 1). Qed.
Lemma src_result_countRun_spec : Z.of_N (k_run c) + 1 < 2 ^ 64 ->
  src_result_countRun fuel h evs fcs ifs (HPtr rb 0) = FOk (tt, upd h rb (result_cells o (cadd c one_run) t r), evs, fcs, ifs).
Proof. intro H. unfold src_result_countRun. counter 2 (Z.of_N (k_run c) + 1). Qed.
Lemma src_result_countCheck_spec : Z.of_N (k_checks c) + 1 < 2 ^ 64 ->
  src_result_countCheck fuel h evs fcs ifs (HPtr rb 0) = FOk (tt, upd h rb (result_cells o (cadd c one_check) t r), evs, fcs, ifs).
Proof. intro H. unfold src_result_countCheck. counter 3 (Z.of_N (k_checks c) + 1). Qed.
Lemma src_result_countFilteredOut_spec : Z.of_N (k_filt c) + 1 < 2 ^ 64 ->
  src_result_countFilteredOut fuel h evs fcs ifs (HPtr rb 0) = FOk (tt, upd h rb (result_cells o (cadd c one_filt) t r), evs, fcs, ifs).
Proof. intro H. unfold src_result_countFilteredOut. counter 5 (Z.of_N (k_filt c) + 1). Qed.
Lemma src_result_countIgnored_spec : Z.of_N (k_ign c) + 1 < 2 ^ 64 ->
  src_result_countIgnored fuel h evs fcs ifs (HPtr rb 0) = FOk (tt, upd h rb (result_cells o (cadd c one_ign) t r), evs, fcs, ifs).
Proof. intro H. unfold src_result_countIgnored. counter 6 (Z.of_N (k_ign c) + 1). Qed.
End Getters.

(* addFailure: the failure is printed exactly once (before the count), failureCount_++ *)
Lemma src_result_addFailure_spec fuel h evs fcs ifs rb o c t r :
  result_rep h rb o c t r -> Z.of_N (k_fail c) + 1 < 2 ^ 64 ->
  src_result_addFailure fuel h evs fcs ifs (HPtr rb 0) =
  FOk (tt, upd h rb (result_cells o (cadd c one_fail) t r), evs ++ [QPrintFailure], fcs, ifs).
Proof.
  intros Hrep H. unfold src_result_addFailure. cbv zeta.
  let n := eval vm_compute in (Z.to_nat 4) in
  apply (cells_step h (evs ++ [QPrintFailure]) fcs ifs rb o c t r Hrep 4 _ (Z.of_N (k_fail c) + 1)); change (Z.to_nat 4) with n;
  [ destruct c; unfold result_cells, cadd, one_fail; cbn; rewrite ?N.add_0_r, ?N2Z.inj_add; reflexivity
  | lia | lia | cbn; f_equal; f_equal; lia | assumption ].
Qed.

(* the same statements on `result_at` (opaque cells hidden): the new heap represents cadd c d, has the same number of blocks,
   and every other block is unchanged *)
Definition counts_as (f : nat -> heap -> list qev -> list Z -> list Z -> hptr -> fres (unit * heap * list qev * list Z * list Z))
  (d : cnt) (printed : list qev) (field : cnt -> N) : Prop :=
  forall fuel h evs fcs ifs rb c t, result_at h rb c t -> Z.of_N (field c) + 1 < 2 ^ 64 ->
  exists h', f fuel h evs fcs ifs (HPtr rb 0) = FOk (tt, h', evs ++ printed, fcs, ifs) /\
             result_at h' rb (cadd c d) t /\ length h' = length h /\ (forall b, b <> rb -> hblock h' b = hblock h b).
Ltac counts_at L d :=
  intros fuel h evs fcs ifs rb c t [o [r Hrep]] Hlt; eexists; split;
  [ rewrite ?app_nil_r; apply (L fuel h evs fcs ifs rb o c t r Hrep Hlt)
  | destruct (result_rep_upd h rb o c (cadd c d) t t r Hrep) as [A [B C]]; split; [exists o, r; exact A | split; [exact B | exact C]] ].
Theorem src_result_countTest_at : counts_as src_result_countTest one_test [] k_tests.
Proof. counts_at src_result_countTest_spec one_test. Qed.
Theorem src_result_countRun_at : counts_as src_result_countRun one_run [] k_run.
Proof. counts_at src_result_countRun_spec one_run. Qed.
Theorem src_result_countCheck_at : counts_as src_result_countCheck one_check [] k_checks.
Proof. counts_at src_result_countCheck_spec one_check. Qed.
Theorem src_result_countFilteredOut_at : counts_as src_result_countFilteredOut one_filt [] k_filt.
Proof. counts_at src_result_countFilteredOut_spec one_filt. Qed.
Theorem src_result_countIgnored_at : counts_as src_result_countIgnored one_ign [] k_ign.
Proof. counts_at src_result_countIgnored_spec one_ign. Qed.
Theorem src_result_addFailure_at : counts_as src_result_addFailure one_fail [QPrintFailure] k_fail.
Proof. counts_at src_result_addFailure_spec one_fail. Qed.

(* ================================================================== 3: isFailure *)
Lemma ZofN_eqb0 x : (Z.of_N x =? 0) = (x =? 0)%N.
Proof. destruct x; reflexivity. Qed.
Lemma ZofN_ltb0 x : (0 <? Z.of_N x) = (0 <? x)%N.
Proof. destruct x; reflexivity. Qed.

Lemma src_result_isFailure_spec fuel h evs fcs ifs rb o c t r :
  result_rep h rb o c t r -> Z.of_N (k_run c) + Z.of_N (k_ign c) < 2 ^ 64 ->
  src_result_isFailure fuel h evs fcs ifs (HPtr rb 0) = FOk (b2z (is_failure c), h, evs, fcs, ifs).
Proof.
  intros Hrep Hs. unfold src_result_isFailure.
  rewrite (src_result_getFailureCount_spec fuel h evs fcs ifs rb o c t r Hrep). cbv beta iota.
  unfold c_ne. rewrite b2z_z2b, ZofN_eqb0. unfold is_failure.
  destruct (k_fail c =? 0)%N; cbn [negb orb]; [|reflexivity].
  rewrite (src_result_getRunCount_spec fuel h evs fcs ifs rb o c t r Hrep). cbv beta iota.
  rewrite (src_result_getIgnoredCount_spec fuel h evs fcs ifs rb o c t r Hrep). cbv beta iota.
  rewrite cw_u_small by lia. unfold CSem.c_eq. rewrite <- N2Z.inj_add, ZofN_eqb0. reflexivity.
Qed.
(* without the hypothesis the statement is FALSE: runCount_ + ignoredCount_ is computed in size_t and wraps.
   2^64 - 1 tests run and 1 ignored, no failure: the source says "failure" (the sum is 0), the model does not.
   (Every single counter is in range; reaching this needs 2^64 registered tests.) *)
Definition wrap_cnt : cnt := mkCnt 0 (2 ^ 64 - 1) 0 0 0 1.
Definition wrap_heap : heap := [result_cells (VInt 0) wrap_cnt 0 [VInt 0; VInt 0; VInt 0; VInt 0; VInt 0]].
Example isFailure_without_the_bound_differs :
  result_rep wrap_heap 0 (VInt 0) wrap_cnt 0 [VInt 0; VInt 0; VInt 0; VInt 0; VInt 0] /\ cnt_ok wrap_cnt /\
  is_failure wrap_cnt = false /\
  src_result_isFailure 0 wrap_heap [] [] [] (HPtr 0 0) = FOk (1, wrap_heap, [], [], []).
Proof.
  split; [split; [cbn; lia | split; reflexivity]|]. split; [unfold cnt_ok, wrap_cnt; cbn; lia|].
  split; vm_compute; reflexivity.
Qed.

(* ================================================================== 4: printTestsEnded *)
Local Open Scope string_scope.
Definition s_nl : string := String (ascii_of_nat 10) EmptyString.
Definition s_red : string := String (ascii_of_nat 27) EmptyString ++ "[31;1m".
Definition s_green : string := String (ascii_of_nat 27) EmptyString ++ "[32;1m".
Definition s_reset : string := String (ascii_of_nat 27) EmptyString ++ "[m".
Definition s_note : string :=
  s_nl ++ "Note: test run failed because no tests were run or ignored. Assuming something went wrong. This often happens because of linking errors or typos in test filter.".
Local Close Scope string_scope.

(* what is printed, as a function of the colour flag, the verdict and the numbers *)
Definition summary_textZ (color isf : bool) (kf kt kr kc ki kfi time : Z) : list qev :=
  [PText s_nl]
  ++ (if isf
      then (if color then [PText s_red] else []) ++ [PText "Errors ("%string]
           ++ (if 0 <? kf then [PNum kf; PText " failures, "%string] else [PText "ran nothing, "%string])
      else (if color then [PText s_green] else []) ++ [PText "OK ("%string])
  ++ [PNum kt; PText " tests, "%string; PNum kr; PText " ran, "%string; PNum kc; PText " checks, "%string;
      PNum ki; PText " ignored, "%string; PNum kfi; PText " filtered out, "%string; PNum time; PText " ms)"%string]
  ++ (if color then [PText s_reset] else [])
  ++ (if isf && (kf =? 0) then [PText s_note] else [])
  ++ [PText (s_nl ++ s_nl)%string].
Definition summary_text (color : bool) (c : cnt) (time : Z) : list qev :=
  summary_textZ color (is_failure c) (Z.of_N (k_fail c)) (Z.of_N (k_tests c)) (Z.of_N (k_run c)) (Z.of_N (k_checks c))
                (Z.of_N (k_ign c)) (Z.of_N (k_filt c)) time.

Lemma z2b_c_gt a b : z2b (c_gt a b) = (b <? a). Proof. apply b2z_z2b. Qed.
Lemma z2b_c_eq a b : z2b (CSem.c_eq a b) = (a =? b). Proof. apply b2z_z2b. Qed.

Theorem src_output_printTestsEnded_spec fuel h evs fcs ifs rb o c t r ob d v color p :
  result_rep h rb o c t r -> output_rep h ob d v color p -> Z.of_N (k_run c) + Z.of_N (k_ign c) < 2 ^ 64 ->
  src_output_printTestsEnded fuel h evs fcs ifs (HPtr ob 0) (HPtr rb 0) =
  FOk (tt, upd h ob (output_cells (VInt 0) v color p), evs ++ summary_text color c t, fcs, ifs).
Proof.
  intros Hrep [Hol Hob] Hs. unfold src_output_printTestsEnded. cbv zeta.
  rewrite (src_result_isFailure_spec fuel h _ fcs ifs rb o c t r Hrep Hs). cbv beta iota zeta.
  rewrite (src_result_getFailureCount_spec fuel h _ fcs ifs rb o c t r Hrep). cbv beta iota zeta.
  rewrite !(blk_padd h ob _ 2 Hob) by (rewrite output_cells_length; unfold cells_TestOutput; lia). cbv beta iota zeta.
  rewrite !(blk_load_int h ob _ 2 (b2z color) Hob ltac:(lia) eq_refl). cbv beta iota zeta.
  rewrite !b2z_z2b, z2b_c_gt.
  unfold summary_text.
  destruct (is_failure c) eqn:Eis; destruct (k_fail c) as [|kf] eqn:Ekf; destruct color;
    cbv beta iota zeta; rewrite ?z2b_c_eq;
    cbn [Z.of_N Z.ltb Z.eqb Z.compare];
    cbv beta iota zeta;
    rewrite (src_result_getTestCount_spec fuel h _ fcs ifs rb o c t r Hrep); cbv beta iota zeta;
    rewrite (src_result_getRunCount_spec fuel h _ fcs ifs rb o c t r Hrep); cbv beta iota zeta;
    rewrite (src_result_getCheckCount_spec fuel h _ fcs ifs rb o c t r Hrep); cbv beta iota zeta;
    rewrite (src_result_getIgnoredCount_spec fuel h _ fcs ifs rb o c t r Hrep); cbv beta iota zeta;
    rewrite (src_result_getFilteredOutCount_spec fuel h _ fcs ifs rb o c t r Hrep); cbv beta iota zeta;
    rewrite (src_result_getTotalExecutionTime_spec fuel h _ fcs ifs rb o c t r Hrep); cbv beta iota zeta;
    rewrite (blk_padd h ob _ 2 Hob) by (rewrite output_cells_length; unfold cells_TestOutput; lia); cbv beta iota zeta;
    rewrite (blk_load_int h ob _ 2 _ Hob ltac:(lia) eq_refl); cbv beta iota zeta;
    rewrite ?b2z_z2b; cbv beta iota zeta; rewrite ?z2b_c_eq; change (z2b 0) with false;
    cbn [Z.of_N Z.ltb Z.eqb Z.compare]; cbv beta iota zeta;
    rewrite (blk_store h ob _ 0 (VInt 0) Hob) by (rewrite ?output_cells_length; unfold cells_TestOutput; lia || exact Hol);
    unfold finish, summary_textZ; rewrite <- !app_assoc; reflexivity.
Qed.

(* on the hidden-cell form: only cell 0 (dotCount_) of the output object is written, it becomes 0; the TestResult is only read *)
Theorem src_output_printTestsEnded_at fuel h evs fcs ifs rb c t ob color :
  result_at h rb c t -> output_at h ob color -> Z.of_N (k_run c) + Z.of_N (k_ign c) < 2 ^ 64 ->
  exists h', src_output_printTestsEnded fuel h evs fcs ifs (HPtr ob 0) (HPtr rb 0) = FOk (tt, h', evs ++ summary_text color c t, fcs, ifs) /\
             output_at h' ob color /\ result_at h' rb c t /\ length h' = length h /\
             nth_error (hblock h' ob) 0 = Some (VInt 0) /\
             (forall k, k <> 0%nat -> nth_error (hblock h' ob) k = nth_error (hblock h ob) k) /\
             (forall b, b <> ob -> hblock h' b = hblock h b).
Proof.
  intros [o [r Hrep]] [d [v [p Hout]]] Hs. eexists. split; [apply (src_output_printTestsEnded_spec fuel h evs fcs ifs rb o c t r ob d v color p Hrep Hout Hs)|].
  destruct Hout as [Hol Hob]. pose proof Hrep as [Hrl [Hr Hrb]].
  assert (Hne : ob <> rb).
  { intro E. subst ob. rewrite Hrb in Hob. apply (f_equal (@Datatypes.length val)) in Hob.
    cbn [result_cells output_cells Datatypes.length] in Hob. rewrite Hr in Hob. discriminate Hob. }
  split; [exists (VInt 0), v, p; split; [rewrite heap_upd_length; exact Hol | apply hblock_upd_same; exact Hol]|].
  split; [exists o, r; split; [rewrite heap_upd_length; exact Hrl | split; [exact Hr | rewrite hblock_upd_other by exact Hne; exact Hrb]]|].
  split; [apply heap_upd_length|]. rewrite hblock_upd_same by exact Hol. split; [reflexivity|]. split.
  - intros [|k] Hk; [congruence|]. rewrite Hob. reflexivity.
  - intros b Hb. apply hblock_upd_other. intro E. apply Hb. symmetry. exact E.
Qed.

(* ------------------------------------------------------------------ the text denotes mk_summary c *)
Definition qev_eqb (a b : qev) : bool :=
  match a, b with
  | PText s, PText s' => String.eqb s s'
  | PNum n, PNum n' => n =? n'
  | QPrintFailure, QPrintFailure | QInit, QInit | QReverse, QReverse | QNewResult, QNewResult | QRunAll, QRunAll => true
  | QList k, QList k' => k =? k'
  | QShuffle s, QShuffle s' => s =? s'
  | QPrintTestRun i n, QPrintTestRun i' n' => (i =? i') && (n =? n')
  | _, _ => false
  end.
Lemma qev_eqb_eq a b : qev_eqb a b = true <-> a = b.
Proof.
  destruct a, b; cbn [qev_eqb]; split; intro H; try discriminate H; try reflexivity;
  try (apply String.eqb_eq in H; subst; reflexivity);
  try (apply Z.eqb_eq in H; subst; reflexivity);
  try (apply andb_true_iff in H; destruct H as [H1 H2]; apply Z.eqb_eq in H1; apply Z.eqb_eq in H2; subst; reflexivity);
  inversion H; subst; first [apply String.eqb_refl | apply Z.eqb_refl | rewrite !Z.eqb_refl; reflexivity].
Qed.
Definition qev_eq_dec (a b : qev) : {a = b} + {a <> b}.
Proof. destruct (qev_eqb a b) eqn:E; [left; apply qev_eqb_eq; exact E | right; intro H; apply qev_eqb_eq in H; congruence]. Defined.

Definition has (a : qev) (l : list qev) : bool := existsb (qev_eqb a) l.
Lemma has_In a l : has a l = true <-> In a l.
Proof.
  unfold has. rewrite existsb_exists. split.
  - intros [x [Hx E]]. apply qev_eqb_eq in E. subst. exact Hx.
  - intro H. exists a. split; [exact H | apply qev_eqb_eq; reflexivity].
Qed.
(* the event that directly follows the first occurrence of a *)
Fixpoint next_after (a : qev) (l : list qev) : option qev :=
  match l with
  | [] => None
  | x :: r => if qev_eqb x a then match r with y :: _ => Some y | [] => None end else next_after a r
  end.
(* every number printed, with the text printed directly after it *)
Fixpoint nums_labels (l : list qev) : list (Z * string) :=
  match l with
  | [] => []
  | x :: r => match x, r with PNum n, PText s :: _ => (n, s) :: nums_labels r | _, _ => nums_labels r end
  end.

(* a reader of the line: "\n", an optional colour code, "OK (" or "Errors (" n " failures, " or "Errors (" "ran nothing, ",
   then the six numbers with their labels; what it returns is a model `summary` and the time *)
Definition parse_tail (ok : bool) (nf : option N) (l : list qev) : option (summary * Z) :=
  match l with
  | PNum a :: PText s1 :: PNum b :: PText s2 :: PNum c :: PText s3 :: PNum d :: PText s4 :: PNum e :: PText s5 :: PNum t :: PText s6 :: _ =>
      if String.eqb s1 " tests, " && String.eqb s2 " ran, " && String.eqb s3 " checks, " && String.eqb s4 " ignored, "
         && String.eqb s5 " filtered out, " && String.eqb s6 " ms)"
      then Some (mkSum ok nf (Z.to_N a) (Z.to_N b) (Z.to_N c) (Z.to_N d) (Z.to_N e), t) else None
  | _ => None
  end.
Definition parse_head (l : list qev) : option (summary * Z) :=
  match l with
  | PText s :: r =>
      if String.eqb s "OK (" then parse_tail true None r
      else if String.eqb s "Errors (" then
        match r with
        | PNum n :: PText s' :: r' => if String.eqb s' " failures, " then parse_tail false (Some (Z.to_N n)) r' else None
        | PText s' :: r' => if String.eqb s' "ran nothing, " then parse_tail false None r' else None
        | _ => None
        end
      else None
  | _ => None
  end.
Definition is_color (e : qev) : bool := match e with PText s => String.eqb s s_red || String.eqb s s_green | _ => false end.
Definition parse_summary (l : list qev) : option (summary * Z) :=
  match l with
  | PText s :: x :: r => if String.eqb s s_nl then if is_color x then parse_head r else parse_head (x :: r) else None
  | _ => None
  end.

Lemma parse_summary_textZ color isf kf kt kr kc ki kfi t :
  parse_summary (summary_textZ color isf kf kt kr kc ki kfi t) =
  Some (mkSum (negb isf) (if isf then if 0 <? kf then Some (Z.to_N kf) else None else None)
              (Z.to_N kt) (Z.to_N kr) (Z.to_N kc) (Z.to_N ki) (Z.to_N kfi), t).
Proof. unfold summary_textZ. destruct color, isf, (0 <? kf); reflexivity. Qed.

(* for ALL counters c (no range hypothesis): reading the printed line back gives the model's summary *)
Theorem summary_text_denotes_mk_summary color c t : parse_summary (summary_text color c t) = Some (mk_summary c, t).
Proof.
  unfold summary_text. rewrite parse_summary_textZ. unfold mk_summary. rewrite ZofN_ltb0, !N2Z.id. reflexivity.
Qed.

(* positional facts, for all c *)
Theorem m_ok_iff c : m_ok (mk_summary c) = true <-> (k_fail c = 0 /\ 0 < k_run c + k_ign c)%N.
Proof.
  unfold mk_summary, is_failure. cbn [m_ok]. rewrite negb_true_iff, orb_false_iff, negb_false_iff, N.eqb_eq, N.eqb_neq. lia.
Qed.
Theorem summary_text_OK color c t : has (PText "OK (") (summary_text color c t) = m_ok (mk_summary c).
Proof. unfold summary_text, summary_textZ, mk_summary. cbn [m_ok]. destruct color, (is_failure c), (0 <? Z.of_N (k_fail c)), (Z.of_N (k_fail c) =? 0); reflexivity. Qed.
Theorem summary_text_Errors color c t : has (PText "Errors (") (summary_text color c t) = negb (m_ok (mk_summary c)).
Proof. unfold summary_text, summary_textZ, mk_summary. cbn [m_ok]. destruct color, (is_failure c), (0 <? Z.of_N (k_fail c)), (Z.of_N (k_fail c) =? 0); reflexivity. Qed.
Corollary summary_text_OK_In color c t :
  In (PText "OK (") (summary_text color c t) <-> (k_fail c = 0 /\ 0 < k_run c + k_ign c)%N.
Proof. rewrite <- has_In, summary_text_OK. apply m_ok_iff. Qed.
Corollary summary_text_Errors_In color c t :
  In (PText "Errors (") (summary_text color c t) <-> ~ (k_fail c = 0 /\ 0 < k_run c + k_ign c)%N.
Proof. rewrite <- has_In, summary_text_Errors, negb_true_iff, <- m_ok_iff. symmetry. apply not_true_iff_false. Qed.
(* what follows "Errors (": the number of failures when there is one, "ran nothing, " otherwise; absent when OK *)
Theorem summary_text_after_Errors color c t :
  next_after (PText "Errors (") (summary_text color c t) =
  if is_failure c then Some (if (0 <? k_fail c)%N then PNum (Z.of_N (k_fail c)) else PText "ran nothing, ") else None.
Proof.
  unfold summary_text, summary_textZ. rewrite ZofN_ltb0.
  destruct color, (is_failure c), (0 <? k_fail c)%N, (Z.of_N (k_fail c) =? 0); reflexivity.
Qed.
(* the numbers, in order, each with its label *)
Theorem summary_text_numbers color c t :
  nums_labels (summary_text color c t) =
  (if is_failure c && (0 <? k_fail c)%N then [(Z.of_N (k_fail c), " failures, "%string)] else []) ++
  [(Z.of_N (k_tests c), " tests, "%string); (Z.of_N (k_run c), " ran, "%string); (Z.of_N (k_checks c), " checks, "%string);
   (Z.of_N (k_ign c), " ignored, "%string); (Z.of_N (k_filt c), " filtered out, "%string); (t, " ms)"%string)].
Proof.
  unfold summary_text, summary_textZ. rewrite ZofN_ltb0.
  destruct color, (is_failure c), (0 <? k_fail c)%N, (Z.of_N (k_fail c) =? 0); reflexivity.
Qed.

(* ================================================================== 5: CommandLineTestRunner::runAllTests *)
Fixpoint sumz (l : list Z) : Z := match l with [] => 0 | x :: r => x + sumz r end.
Fixpoint cntnz (l : list Z) : Z := match l with [] => 0 | x :: r => (if z2b x then 1 else 0) + cntnz r end.
Definition nonneg (l : list Z) : Prop := Forall (fun z => 0 <= z) l.
Definition all0 (l : list Z) : Prop := Forall (fun z => z = 0) l.

Lemma sumz_nonneg l : nonneg l -> 0 <= sumz l.
Proof. induction 1 as [|x l Hx _ IH]; cbn [sumz]; lia. Qed.
Lemma cntnz_bounds l : 0 <= cntnz l <= Z.of_nat (length l).
Proof. induction l as [|x l IH]; cbn [cntnz length]; [lia|]. destruct (z2b x); lia. Qed.
Lemma sumz_zero_iff l : nonneg l -> (sumz l = 0 <-> all0 l).
Proof.
  induction 1 as [|x l Hx Hl IH]; cbn [sumz]; [split; [constructor | reflexivity]|].
  pose proof (sumz_nonneg l Hl). split.
  - intro E. constructor; [lia|]. apply IH. lia.
  - intro A. inversion A; subst. apply IH in H3. lia.
Qed.
Lemma cntnz_zero_iff l : cntnz l = 0 <-> all0 l.
Proof.
  induction l as [|x l IH]; cbn [cntnz]; [split; [constructor | reflexivity]|].
  pose proof (cntnz_bounds l). unfold z2b. destruct (Z.eqb_spec x 0) as [E|E]; cbn [negb]; split.
  - intro H0. constructor; [exact E|]. apply IH. lia.
  - intro A. inversion A; subst. apply IH in H3. lia.
  - lia.
  - intro A. inversion A; subst. congruence.
Qed.

(* the events of one repetition (loopCount already incremented: i = 1 .. n), and of repetitions i+1 .. i+k *)
Definition rep_events (sh seed n i : Z) : list qev :=
  (if z2b sh then [QShuffle seed] else []) ++ [QPrintTestRun i n; QNewResult; QRunAll].
Fixpoint reps_from (sh seed n i : Z) (k : nat) : list qev :=
  match k with O => [] | S k' => rep_events sh seed n (i + 1) ++ reps_from sh seed n (i + 1) k' end.
Lemma reps_from_flat_map sh seed n : forall k a,
  reps_from sh seed n (Z.of_nat a) k = flat_map (fun j => rep_events sh seed n (Z.of_nat j)) (seq (S a) k).
Proof.
  induction k as [|k IH]; intro a; [reflexivity|]. cbn [reps_from seq flat_map].
  replace (Z.of_nat a + 1) with (Z.of_nat (S a)) by lia. rewrite IH. reflexivity.
Qed.

Lemma runner_loop1_spec fuel0 mem this n rp l1 l2 l3 rv sh seed :
  forall (k : nat) fuel i evs fcs ifs ft fe,
  0 <= i -> i + Z.of_nat k = n -> n < 2 ^ 64 -> (k < fuel)%nat ->
  (k <= length fcs)%nat -> (k <= length ifs)%nat -> nonneg (firstn k fcs) ->
  0 <= ft -> ft + sumz (firstn k fcs) < 2 ^ 64 -> 0 <= fe -> fe + Z.of_nat k < 2 ^ 64 ->
  src_runner_runAllTests_loop1 fuel0 fuel mem this n evs fcs ifs rp l1 l2 l3 rv sh seed i ft fe =
  Go (evs ++ reps_from sh seed n i k, skipn k fcs, skipn k ifs, rp, l1, l2, l3, rv, sh, seed, cw 64 false (n + 1),
      ft + sumz (firstn k fcs), fe + cntnz (firstn k ifs)).
Proof.
  induction k as [|k IH]; intros fuel i evs fcs ifs ft fe Hi Hn Hn64 Hf Hlf Hli Hnn Hft Hsum Hfe Hfek.
  - destruct fuel as [|fuel]; [lia|]. cbn [src_runner_runAllTests_loop1]. cbv zeta.
    unfold c_lt. rewrite b2z_z2b. replace (i <? n) with false by (symmetry; apply Z.ltb_ge; lia).
    cbn [firstn skipn sumz cntnz reps_from]. rewrite app_nil_r, !Z.add_0_r. replace i with n by lia. reflexivity.
  - destruct fuel as [|fuel]; [lia|]. cbn [src_runner_runAllTests_loop1]. cbv zeta.
    unfold c_lt. rewrite b2z_z2b. replace (i <? n) with true by (symmetry; apply Z.ltb_lt; lia).
    destruct fcs as [|f fcs]; [cbn [length] in Hlf; lia|]. destruct ifs as [|b ifs]; [cbn [length] in Hli; lia|].
    cbn [length] in Hlf, Hli. cbn [firstn] in Hnn, Hsum. cbn [sumz] in Hsum.
    assert (Hf0 : 0 <= f) by (inversion Hnn; assumption).
    assert (Hnn' : nonneg (firstn k fcs)) by (inversion Hnn; assumption).
    pose proof (sumz_nonneg _ Hnn') as Hs0.
    rewrite (cw_u_small 64 (i + 1)) by lia.
    cbn [firstn skipn sumz cntnz reps_from]. unfold rep_events.
    destruct (z2b sh) eqn:Esh; cbv beta iota zeta;
      rewrite (cw_u_small 64 (ft + f)) by lia; rewrite (cw_u_small 64 (ft + f)) by lia;
      destruct (z2b b) eqn:Eb;
      try rewrite (cw_u_small 64 (fe + 1)) by lia;
      rewrite IH by (lia || assumption); rewrite <- !app_assoc; cbn [app];
      rewrite ?Z.add_assoc, ?Z.add_0_r; reflexivity.
Qed.

(* what the run prints / calls after the events already there *)
Definition run_events (rv sh seed n : Z) : list qev :=
  [QInit] ++ (if z2b rv then [QReverse] else [])
  ++ (if z2b sh then [PText "Test order shuffling enabled with seed: "%string; PNum seed; PText s_nl] else [])
  ++ reps_from sh seed n 0 (Z.to_nat n).

(* cast of lib/CInt.v and cw of lib/CSem.v are the same function *)
Lemma cast_TInt_cw z : cast TInt z = cw 32 true z. Proof. reflexivity. Qed.
Lemma exit_value_src ft fe : 0 <= ft < 2 ^ 64 -> 0 <= fe < 2 ^ 64 ->
  (if z2b (c_ne ft 0) then cw 32 true ft else cw 32 true fe) = exit_value (Z.to_N ft) (Z.to_N fe).
Proof.
  intros Hft Hfe. unfold exit_value, c_ne. rewrite b2z_z2b, cast_TInt_cw.
  replace (Z.to_N ft =? 0)%N with (ft =? 0) by (rewrite <- ZofN_eqb0, Z2N.id by lia; reflexivity).
  destruct (ft =? 0); cbn [negb]; rewrite Z2N.id by lia; rewrite cast_id' by (cbn [lo hi]; lia); reflexivity.
Qed.

(* the list modes, in the priority of the source *)
Theorem src_runner_list1 fuel mem evs fcs ifs n l1 l2 l3 rv sh seed this : l1 <> 0 ->
  src_runner_runAllTests fuel mem evs fcs ifs n l1 l2 l3 rv sh seed this =
  FOk (0, mem, evs ++ [QInit; QNewResult; QList 1], fcs, ifs, n, l1, l2, l3, rv, sh, seed).
Proof.
  intro H. unfold src_runner_runAllTests. cbv zeta. unfold z2b at 1. replace (l1 =? 0) with false by (symmetry; apply Z.eqb_neq; exact H).
  cbn [negb finish]. rewrite <- !app_assoc. reflexivity.
Qed.
Theorem src_runner_list2 fuel mem evs fcs ifs n l2 l3 rv sh seed this : l2 <> 0 ->
  src_runner_runAllTests fuel mem evs fcs ifs n 0 l2 l3 rv sh seed this =
  FOk (0, mem, evs ++ [QInit; QNewResult; QList 2], fcs, ifs, n, 0, l2, l3, rv, sh, seed).
Proof.
  intro H. unfold src_runner_runAllTests. cbv zeta. change (z2b 0) with false. cbv iota.
  unfold z2b at 1. replace (l2 =? 0) with false by (symmetry; apply Z.eqb_neq; exact H).
  cbn [negb finish]. rewrite <- !app_assoc. reflexivity.
Qed.
Theorem src_runner_list3 fuel mem evs fcs ifs n l3 rv sh seed this : l3 <> 0 ->
  src_runner_runAllTests fuel mem evs fcs ifs n 0 0 l3 rv sh seed this =
  FOk (0, mem, evs ++ [QInit; QNewResult; QList 3], fcs, ifs, n, 0, 0, l3, rv, sh, seed).
Proof.
  intro H. unfold src_runner_runAllTests. cbv zeta. change (z2b 0) with false. cbv iota.
  unfold z2b at 1. replace (l3 =? 0) with false by (symmetry; apply Z.eqb_neq; exact H).
  cbn [negb finish]. rewrite <- !app_assoc. reflexivity.
Qed.

(* the run: n = the repeat count as the code reads it *)
Theorem src_runner_runAllTests_spec fuel mem evs fcs ifs n rv sh seed this :
  0 <= n < 2 ^ 64 -> (Z.to_nat n < fuel)%nat ->
  (Z.to_nat n <= length fcs)%nat -> (Z.to_nat n <= length ifs)%nat ->
  nonneg (firstn (Z.to_nat n) fcs) -> sumz (firstn (Z.to_nat n) fcs) < 2 ^ 64 ->
  src_runner_runAllTests fuel mem evs fcs ifs n 0 0 0 rv sh seed this =
  FOk (exit_value (Z.to_N (sumz (firstn (Z.to_nat n) fcs))) (Z.to_N (cntnz (firstn (Z.to_nat n) ifs))),
       mem, evs ++ run_events rv sh seed n, skipn (Z.to_nat n) fcs, skipn (Z.to_nat n) ifs, n, 0, 0, 0, rv, sh, seed).
Proof.
  intros Hn Hfuel Hlf Hli Hnn Hsum. unfold src_runner_runAllTests. cbv zeta. change (z2b 0) with false. cbv iota.
  pose proof (sumz_nonneg _ Hnn) as Hs0. pose proof (cntnz_bounds (firstn (Z.to_nat n) ifs)) as Hc.
  rewrite firstn_length_le in Hc by exact Hli.
  unfold run_events.
  destruct (z2b rv); destruct (z2b sh) eqn:Esh; cbv beta iota zeta;
    rewrite (runner_loop1_spec fuel mem this n n 0 0 0 rv sh seed (Z.to_nat n)) by (lia || assumption);
    cbv beta iota; rewrite !Z.add_0_l;
    rewrite <- (exit_value_src (sumz (firstn (Z.to_nat n) fcs)) (cntnz (firstn (Z.to_nat n) ifs))) by lia;
    destruct (z2b (c_ne (sumz (firstn (Z.to_nat n) fcs)) 0)); cbn [finish]; rewrite <- !app_assoc; reflexivity.
Qed.

(* the repetitions are numbered 1 .. n *)
Corollary run_events_reps rv sh seed n : 0 <= n ->
  run_events rv sh seed n =
  [QInit] ++ (if z2b rv then [QReverse] else [])
  ++ (if z2b sh then [PText "Test order shuffling enabled with seed: "%string; PNum seed; PText s_nl] else [])
  ++ flat_map (fun j => (if z2b sh then [QShuffle seed] else []) ++ [QPrintTestRun (Z.of_nat j) n; QNewResult; QRunAll])
              (seq 1 (Z.to_nat n)).
Proof. intro H. unfold run_events. change 0 with (Z.of_nat 0) at 1. rewrite (reps_from_flat_map sh seed n (Z.to_nat n) 0). reflexivity. Qed.

(* ------------------------------------------------------------------ counting the events *)
Definition occ (a : qev) (l : list qev) : nat := length (filter (qev_eqb a) l).
Lemma count_occ_occ a l : count_occ qev_eq_dec l a = occ a l.
Proof.
  unfold occ. induction l as [|x l IH]; [reflexivity|]. cbn [count_occ filter].
  destruct (qev_eq_dec x a) as [E|E].
  - subst x. replace (qev_eqb a a) with true by (symmetry; apply qev_eqb_eq; reflexivity). cbn [length]. rewrite IH. reflexivity.
  - replace (qev_eqb a x) with false; [exact IH|]. symmetry. apply not_true_iff_false. intro H. apply qev_eqb_eq in H. congruence.
Qed.
Lemma occ_app a l1 l2 : occ a (l1 ++ l2) = (occ a l1 + occ a l2)%nat.
Proof. unfold occ. rewrite filter_app, app_length. reflexivity. Qed.
Lemma occ_0_not_In a l : occ a l = 0%nat <-> ~ In a l.
Proof.
  rewrite <- count_occ_occ. symmetry. apply count_occ_not_In.
Qed.
Lemma reps_from_occ sh seed n : forall k i,
  occ QRunAll (reps_from sh seed n i k) = k /\ occ QNewResult (reps_from sh seed n i k) = k /\
  occ QReverse (reps_from sh seed n i k) = 0%nat /\ occ QInit (reps_from sh seed n i k) = 0%nat /\
  occ (QShuffle seed) (reps_from sh seed n i k) = (if z2b sh then k else 0%nat).
Proof.
  induction k as [|k IH]; intro i; [destruct (z2b sh); repeat split; reflexivity|].
  cbn [reps_from]. rewrite !occ_app. destruct (IH (i + 1)) as [A [B [C [D E]]]]. rewrite A, B, C, D, E.
  unfold rep_events, occ. destruct (z2b sh); cbn [app filter qev_eqb length]; rewrite ?Z.eqb_refl; cbn [length]; repeat split; lia.
Qed.

Theorem run_events_counts rv sh seed n : 0 <= n ->
  count_occ qev_eq_dec (run_events rv sh seed n) QRunAll = Z.to_nat n /\
  count_occ qev_eq_dec (run_events rv sh seed n) QNewResult = Z.to_nat n /\
  count_occ qev_eq_dec (run_events rv sh seed n) QReverse = (if z2b rv then 1 else 0)%nat /\
  count_occ qev_eq_dec (run_events rv sh seed n) QInit = 1%nat /\
  count_occ qev_eq_dec (run_events rv sh seed n) (QShuffle seed) = (if z2b sh then Z.to_nat n else 0)%nat.
Proof.
  intro H. rewrite !count_occ_occ. unfold run_events. rewrite !occ_app.
  destruct (reps_from_occ sh seed n (Z.to_nat n) 0) as [A [B [C [D E]]]]. rewrite A, B, C, D, E.
  destruct (z2b rv), (z2b sh); cbn; repeat split; lia.
Qed.

(* wherever a QRunAll stands, the QReverse (when reversing) stands before it and none after it; QInit likewise *)
Lemma app_split_notin {T} (x : T) : forall pre post l1 l2, pre ++ post = l1 ++ x :: l2 -> ~ In x pre ->
  exists l1', l1 = pre ++ l1' /\ post = l1' ++ x :: l2.
Proof.
  induction pre as [|y pre IH]; intros post l1 l2 E Hn; [exists l1; split; [reflexivity | exact E]|].
  destruct l1 as [|z l1]; cbn [app] in E.
  - injection E as E1 E2. exfalso. apply Hn. left. exact E1.
  - injection E as E1 E2. subst z. destruct (IH post l1 l2 E2) as [l1' [A B]]; [intro H; apply Hn; right; exact H|].
    exists l1'. split; [cbn [app]; rewrite A; reflexivity | exact B].
Qed.
Theorem reverse_before_every_run rv sh seed n l1 l2 : 0 <= n ->
  run_events rv sh seed n = l1 ++ QRunAll :: l2 ->
  In QInit l1 /\ (z2b rv = true -> In QReverse l1) /\ ~ In QReverse l2 /\ ~ In QInit l2.
Proof.
  intros Hn E. unfold run_events in E. rewrite !app_assoc in E.
  apply app_split_notin in E.
  - destruct E as [l1' [A B]]. subst l1.
    destruct (reps_from_occ sh seed n (Z.to_nat n) 0) as [_ [_ [C [D _]]]]. rewrite B in C, D. rewrite occ_app in C, D.
    split; [apply in_or_app; left; apply in_or_app; left; apply in_or_app; left; left; reflexivity|].
    split; [intro R; rewrite R; apply in_or_app; left; apply in_or_app; left; apply in_or_app; right; left; reflexivity|].
    split; apply occ_0_not_In.
    + assert (X : occ QReverse (QRunAll :: l2) = occ QReverse l2) by reflexivity. lia.
    + assert (X : occ QInit (QRunAll :: l2) = occ QInit l2) by reflexivity. lia.
  - destruct (z2b rv), (z2b sh); cbn; intuition discriminate.
Qed.

(* ------------------------------------------------------------------ when the value returned is zero *)
Lemma cw32_zero x : 0 <= x < 2 ^ 32 -> (cw 32 true x = 0 <-> x = 0).
Proof.
  intro H. unfold cw. change (2 ^ 32) with 4294967296 in *. change (2 ^ (32 - 1)) with 2147483648.
  rewrite Z.mod_small by lia. cbn [andb]. destruct (2147483648 <=? x) eqn:E; [apply Z.leb_le in E | apply Z.leb_gt in E]; lia.
Qed.
Lemma exit_value_zero ft fe : 0 <= ft < 2 ^ 32 -> 0 <= fe < 2 ^ 32 ->
  (exit_value (Z.to_N ft) (Z.to_N fe) = 0 <-> ft = 0 /\ fe = 0).
Proof.
  intros Hft Hfe. rewrite <- exit_value_src by lia. unfold c_ne. rewrite b2z_z2b.
  destruct (Z.eqb_spec ft 0) as [E|E]; cbn [negb]; rewrite cw32_zero by lia; lia.
Qed.
(* no wrap in the (int) cast: the value is 0 iff every repetition had no failure and was not a failed execution *)
Theorem exit_zero_iff (n : nat) fcs ifs :
  nonneg (firstn n fcs) -> sumz (firstn n fcs) < 2 ^ 32 -> cntnz (firstn n ifs) < 2 ^ 32 ->
  (exit_value (Z.to_N (sumz (firstn n fcs))) (Z.to_N (cntnz (firstn n ifs))) = 0 <-> all0 (firstn n fcs) /\ all0 (firstn n ifs)).
Proof.
  intros Hnn Hs Hc. pose proof (sumz_nonneg _ Hnn). pose proof (cntnz_bounds (firstn n ifs)).
  rewrite exit_value_zero by lia. rewrite (sumz_zero_iff _ Hnn), cntnz_zero_iff. reflexivity.
Qed.
(* the unrestricted form is FALSE: 2^32 failures in one repetition are returned as 0 *)
Example exit_value_wraps :
  exit_value (Z.to_N (sumz [2 ^ 32])) (Z.to_N (cntnz [1])) = 0 /\ ~ all0 [2 ^ 32] /\
  src_runner_runAllTests 2 [] [] [2 ^ 32] [1] 1 0 0 0 0 0 0 HNull =
  FOk (0, [], [QInit; QPrintTestRun 1 1; QNewResult; QRunAll], [], [], 1, 0, 0, 0, 0, 0, 0).
Proof. split; [vm_compute; reflexivity|]. split; [intro A; inversion A; subst; discriminate | vm_compute; reflexivity]. Qed.

(* ================================================================== 6: the model's runner_loop accumulates the same sums *)
(* the counters of the TestResult of each repetition of a run of the model that is not cut short *)
Fixpoint rep_cnts (exc : bool) (cfg : config) (tests : list rtest) (n : nat) (loop : N) (s : st) : list cnt :=
  match n with
  | O => []
  | S n' => let '(s1, o) := run_rep exc cfg (prog_at loop tests) s in
            match o with ONormal => cn s1 :: rep_cnts exc cfg tests n' (loop + 1)%N s1 | _ => [] end
  end.
Definition ft_of (cs : list cnt) : N := fold_right (fun c a => (k_fail c + a)%N) 0%N cs.
Definition fe_of (cs : list cnt) : N := N.of_nat (length (filter is_failure cs)).
(* what the translated source is given for a repetition whose TestResult holds c: getFailureCount(), isFailure() *)
Definition fcount_of (c : cnt) : Z := Z.of_N (k_fail c).
Definition isfail_of (c : cnt) : Z := b2z (is_failure c).

Lemma runner_loop_accumulates exc cfg tests : forall n loop s ft fe rs s2 a b,
  runner_loop exc cfg tests n loop s ft fe = (rs, s2, a, b, ONormal) ->
  length (rep_cnts exc cfg tests n loop s) = n /\
  a = (ft + ft_of (rep_cnts exc cfg tests n loop s))%N /\ b = (fe + fe_of (rep_cnts exc cfg tests n loop s))%N.
Proof.
  induction n as [|n IH]; intros loop s ft fe rs s2 a b H; cbn [runner_loop] in H.
  - inversion H; subst. cbn [rep_cnts length ft_of fold_right]. unfold fe_of. cbn [filter length N.of_nat]. repeat split; lia.
  - cbn [rep_cnts]. destruct (run_rep exc cfg (prog_at loop tests) s) as [s1 o] eqn:E.
    destruct o; [|discriminate H|discriminate H].
    destruct (runner_loop exc cfg tests n (loop + 1)%N s1 (ft + k_fail (cn s1))%N (if is_failure (cn s1) then (fe + 1)%N else fe))
      as [[[[rs' s2'] a'] b'] o2] eqn:E2.
    inversion H; subst. destruct (IH _ _ _ _ _ _ _ _ E2) as [L [A B]].
    cbn [length ft_of fe_of fold_right filter]. fold (ft_of (rep_cnts exc cfg tests n (loop + 1)%N s1)).
    split; [rewrite L; reflexivity|]. split; [rewrite A; lia|]. rewrite B. unfold fe_of.
    cbn [filter]. destruct (is_failure (cn s1)); cbn [length]; lia.
Qed.
Lemma sumz_fcounts cs : sumz (map fcount_of cs) = Z.of_N (ft_of cs) /\ nonneg (map fcount_of cs).
Proof.
  induction cs as [|c cs [IH1 IH2]]; [split; [reflexivity | constructor]|]. cbn [map sumz ft_of fold_right].
  fold (ft_of cs). rewrite IH1. split; [unfold fcount_of; lia | constructor; [unfold fcount_of; lia | exact IH2]].
Qed.
Lemma cntnz_isfails cs : cntnz (map isfail_of cs) = Z.of_N (fe_of cs).
Proof.
  unfold fe_of. induction cs as [|c cs IH]; [reflexivity|]. cbn [map cntnz filter]. rewrite IH. unfold isfail_of. rewrite b2z_z2b.
  destruct (is_failure c); cbn [length]; lia.
Qed.

(* a run of the model's repeat loop that ends normally with accumulators (a, b), and the translated runAllTests given, for
   every repetition, the getFailureCount() / isFailure() of that repetition's TestResult: the source returns exit_value a b *)
Theorem src_runner_agrees_with_runner_loop exc cfg tests (n : nat) s rs s2 a b fuel mem evs rv sh seed this :
  runner_loop exc cfg tests n 0%N s 0%N 0%N = (rs, s2, a, b, ONormal) ->
  Z.of_nat n < 2 ^ 64 -> Z.of_N a < 2 ^ 64 -> (n < fuel)%nat ->
  let cs := rep_cnts exc cfg tests n 0%N s in
  src_runner_runAllTests fuel mem evs (map fcount_of cs) (map isfail_of cs) (Z.of_nat n) 0 0 0 rv sh seed this =
  FOk (exit_value a b, mem, evs ++ run_events rv sh seed (Z.of_nat n), [], [], Z.of_nat n, 0, 0, 0, rv, sh, seed).
Proof.
  intros H Hn Ha Hf cs. destruct (runner_loop_accumulates _ _ _ _ _ _ _ _ _ _ _ _ H) as [L [A B]]. fold cs in L, A, B.
  rewrite N.add_0_l in A, B. destruct (sumz_fcounts cs) as [S1 S2].
  assert (F1 : firstn n (map fcount_of cs) = map fcount_of cs) by (apply firstn_all2; rewrite map_length; lia).
  assert (F2 : firstn n (map isfail_of cs) = map isfail_of cs) by (apply firstn_all2; rewrite map_length; lia).
  pose proof (src_runner_runAllTests_spec fuel mem evs (map fcount_of cs) (map isfail_of cs) (Z.of_nat n) rv sh seed this) as R.
  rewrite Nat2Z.id, !map_length, F1, F2, S1 in R. rewrite <- A in R.
  rewrite R by (lia || assumption).
  rewrite cntnz_isfails, !N2Z.id, <- B. rewrite !skipn_all2 by (rewrite map_length; lia). reflexivity.
Qed.

(* ================================================================== 7: concrete heaps and streams (vm_compute) *)
Definition ex_cnt : cnt := mkCnt 5 3 7 1 1 1.
Definition ex_heap : heap :=
  [ [VInt 0; VInt 1; VInt 1; VInt 0];                                                          (* a TestOutput, colour on *)
    result_cells (VInt 99) ex_cnt 12 [VInt 0; VInt 0; VInt 0; VInt 0; VInt 0];                 (* a TestResult *)
    [VInt 50; VInt 0; VInt 0; VInt 0] ].                                                        (* a TestOutput, colour off, dotCount_ 50 *)
Example ex_rep : result_rep ex_heap 1 (VInt 99) ex_cnt 12 [VInt 0; VInt 0; VInt 0; VInt 0; VInt 0] /\
                 output_rep ex_heap 0 (VInt 0) (VInt 1) true (VInt 0) /\ output_rep ex_heap 2 (VInt 50) (VInt 0) false (VInt 0).
Proof. repeat split; cbn; lia. Qed.
Example ex_countCheck :
  src_result_countCheck 0 ex_heap [] [] [] (HPtr 1 0) =
  FOk (tt, upd ex_heap 1 (result_cells (VInt 99) (cadd ex_cnt one_check) 12 [VInt 0; VInt 0; VInt 0; VInt 0; VInt 0]), [], [], []).
Proof. vm_compute. reflexivity. Qed.
Example ex_addFailure :
  src_result_addFailure 0 ex_heap [] [] [] (HPtr 1 0) =
  FOk (tt, upd ex_heap 1 (result_cells (VInt 99) (mkCnt 5 3 7 2 1 1) 12 [VInt 0; VInt 0; VInt 0; VInt 0; VInt 0]), [QPrintFailure], [], []).
Proof. vm_compute. reflexivity. Qed.
Example ex_getters :
  src_result_getTestCount 0 ex_heap [] [] [] (HPtr 1 0) = FOk (5, ex_heap, [], [], []) /\
  src_result_getIgnoredCount 0 ex_heap [] [] [] (HPtr 1 0) = FOk (1, ex_heap, [], [], []) /\
  src_result_getTotalExecutionTime 0 ex_heap [] [] [] (HPtr 1 0) = FOk (12, ex_heap, [], [], []) /\
  src_result_isFailure 0 ex_heap [] [] [] (HPtr 1 0) = FOk (1, ex_heap, [], [], []).
Proof. repeat split; vm_compute; reflexivity. Qed.
Example ex_printTestsEnded_failed :
  src_output_printTestsEnded 0 ex_heap [] [] [] (HPtr 2 0) (HPtr 1 0) =
  FOk (tt, upd ex_heap 2 [VInt 0; VInt 0; VInt 0; VInt 0],
       [PText s_nl; PText "Errors ("%string; PNum 1; PText " failures, "%string; PNum 5; PText " tests, "%string; PNum 3; PText " ran, "%string;
        PNum 7; PText " checks, "%string; PNum 1; PText " ignored, "%string; PNum 1; PText " filtered out, "%string; PNum 12; PText " ms)"%string;
        PText (s_nl ++ s_nl)%string], [], []).
Proof. vm_compute. reflexivity. Qed.
Example ex_printTestsEnded_ok_colour :
  let h := upd ex_heap 1 (result_cells (VInt 99) (mkCnt 5 3 7 0 1 1) 12 [VInt 0; VInt 0; VInt 0; VInt 0; VInt 0]) in
  src_output_printTestsEnded 0 h [] [] [] (HPtr 0 0) (HPtr 1 0) =
  FOk (tt, h, [PText s_nl; PText s_green; PText "OK ("%string; PNum 5; PText " tests, "%string; PNum 3; PText " ran, "%string;
        PNum 7; PText " checks, "%string; PNum 1; PText " ignored, "%string; PNum 1; PText " filtered out, "%string; PNum 12; PText " ms)"%string;
        PText s_reset; PText (s_nl ++ s_nl)%string], [], []) /\
  parse_summary (summary_text true (mkCnt 5 3 7 0 1 1) 12) = Some (mkSum true None 5 3 7 1 1, 12).
Proof. split; vm_compute; reflexivity. Qed.
Example ex_printTestsEnded_ran_nothing :
  parse_summary (summary_text false (mkCnt 4 0 0 0 4 0) 0) = Some (mkSum false None 4 0 0 0 4, 0) /\
  has (PText s_note) (summary_text false (mkCnt 4 0 0 0 4 0) 0) = true.
Proof. split; vm_compute; reflexivity. Qed.
(* three repetitions, reversed and shuffled with seed 7; the second has 2 failures, the third is a failed execution without a
   counted failure (nothing ran): the value returned is the total number of failures *)
Example ex_runAllTests :
  src_runner_runAllTests 4 [] [] [0; 2; 0; 9] [0; 1; 1; 9] 3 0 0 0 1 1 7 HNull =
  FOk (2, [], [QInit; QReverse; PText "Test order shuffling enabled with seed: "%string; PNum 7; PText s_nl;
               QShuffle 7; QPrintTestRun 1 3; QNewResult; QRunAll; QShuffle 7; QPrintTestRun 2 3; QNewResult; QRunAll;
               QShuffle 7; QPrintTestRun 3 3; QNewResult; QRunAll], [9], [9], 3, 0, 0, 0, 1, 1, 7) /\
  exit_value 2 2 = 2.
Proof. split; vm_compute; reflexivity. Qed.
(* no failure counted but two failed executions: their number is returned *)
Example ex_runAllTests_failed_executions :
  src_runner_runAllTests 3 [] [] [0; 0] [1; 1] 2 0 0 0 0 0 0 HNull =
  FOk (2, [], [QInit; QPrintTestRun 1 2; QNewResult; QRunAll; QPrintTestRun 2 2; QNewResult; QRunAll], [], [], 2, 0, 0, 0, 0, 0, 0).
Proof. vm_compute. reflexivity. Qed.
Example ex_runAllTests_listing :
  src_runner_runAllTests 0 [] [] [] [] 3 0 1 1 1 1 7 HNull = FOk (0, [], [QInit; QNewResult; QList 2], [], [], 3, 0, 1, 1, 1, 1, 7).
Proof. vm_compute. reflexivity. Qed.
(* fuel must exceed the repeat count; the streams must be long enough *)
Example ex_runAllTests_nofuel : src_runner_runAllTests 2 [] [] [0; 0] [0; 0] 2 0 0 0 0 0 0 HNull = FNoFuel.
Proof. vm_compute. reflexivity. Qed.

(* ================================================================== 8: putting the pieces together *)
(* the two stream values of a repetition are what the translated getters return on that repetition's TestResult *)
Theorem stream_values_are_the_getters fuel h evs fcs ifs rb o c t r :
  result_rep h rb o c t r -> Z.of_N (k_run c) + Z.of_N (k_ign c) < 2 ^ 64 ->
  src_result_getFailureCount fuel h evs fcs ifs (HPtr rb 0) = FOk (fcount_of c, h, evs, fcs, ifs) /\
  src_result_isFailure fuel h evs fcs ifs (HPtr rb 0) = FOk (isfail_of c, h, evs, fcs, ifs).
Proof.
  intros Hrep Hs. split; [apply (src_result_getFailureCount_spec fuel h evs fcs ifs rb o c t r Hrep)|].
  apply (src_result_isFailure_spec fuel h evs fcs ifs rb o c t r Hrep Hs).
Qed.
(* the value the translated runAllTests returns is zero exactly when every repetition was clean, as long as the (int) cast
   cannot wrap: fewer than 2^32 repetitions and fewer than 2^32 failures in total *)
Corollary src_runner_exit_zero_iff fuel mem evs fcs ifs n rv sh seed this :
  0 <= n < 2 ^ 32 -> (Z.to_nat n < fuel)%nat -> (Z.to_nat n <= length fcs)%nat -> (Z.to_nat n <= length ifs)%nat ->
  nonneg (firstn (Z.to_nat n) fcs) -> sumz (firstn (Z.to_nat n) fcs) < 2 ^ 32 ->
  exists v, src_runner_runAllTests fuel mem evs fcs ifs n 0 0 0 rv sh seed this =
            FOk (v, mem, evs ++ run_events rv sh seed n, skipn (Z.to_nat n) fcs, skipn (Z.to_nat n) ifs, n, 0, 0, 0, rv, sh, seed) /\
            (v = 0 <-> all0 (firstn (Z.to_nat n) fcs) /\ all0 (firstn (Z.to_nat n) ifs)).
Proof.
  intros Hn Hf Hlf Hli Hnn Hs. eexists. split.
  - apply src_runner_runAllTests_spec; try assumption; lia.
  - apply exit_zero_iff; [exact Hnn | exact Hs|]. pose proof (cntnz_bounds (firstn (Z.to_nat n) ifs)) as Hc.
    rewrite firstn_length_le in Hc by exact Hli. lia.
Qed.
