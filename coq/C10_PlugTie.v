(* C10 <-> the function-pointer wiring as read from clang's AST (gen/Gen_PlugC06.v, tools/gen/PlugC06.py).
   gen/Gen_C10.v (tools/gen/C10.py) reads the same wiring from the TEXT of MemoryLeakWarningPlugin.cpp with regular expressions.
   Here a C10 table is DERIVED from the AST tables -- for every pointer variable the switch function assigns, the handler assigned
   to it; for the handler, whether it declares a MemLeakScopedMutex first and which detector call with which current-allocator
   getter it makes -- and proved equal to the regex-extracted one: two independent extractions of the same source agree on every
   run, so the theorems of C10 about ts_table / default_table / off_table / dispatch_table are theorems about what the compiler's
   front end sees.  Every statement here is closed by computation on the two generated files of this run. *)
From Coq Require Import List Bool String.
From CppUVerif Require Import C10_Wiring gen.Gen_C10 gen.Gen_PlugC06.
Import ListNotations.
Local Open Scope string_scope.

Definition var_entry : list (string * entry) :=
  [("operator_new_fptr", ENew); ("operator_new_nothrow_fptr", ENewNothrow); ("operator_new_debug_fptr", ENewDebug);
   ("operator_new_array_fptr", ENewArr); ("operator_new_array_nothrow_fptr", ENewArrNothrow); ("operator_new_array_debug_fptr", ENewArrDebug);
   ("operator_delete_fptr", EDelete); ("operator_delete_array_fptr", EDeleteArr);
   ("malloc_fptr", EMalloc); ("realloc_fptr", ERealloc); ("free_fptr", EFree)].

Fixpoint assoc {A} (k : string) (l : list (string * A)) : option A :=
  match l with [] => None | (k', v) :: r => if String.eqb k' k then Some v else assoc k r end.

Definition fam_of_getter (g : string) : option fam :=
  if String.eqb g "getCurrentNewAllocator" then Some FNew
  else if String.eqb g "getCurrentNewArrayAllocator" then Some FNewArr
  else if String.eqb g "getCurrentMallocAllocator" then Some FMalloc else None.

(* the action of a handler, from the calls the AST shows in its body *)
Definition action_of_calls (cs : list (string * string * string)) : option action :=
  match cs with
  | [(m, g, _)] =>
      if String.eqb m "allocMemory" then option_map AAlloc (fam_of_getter g)
      else if String.eqb m "reallocMemory" then option_map ARealloc (fam_of_getter g)
      else if String.eqb m "PlatformSpecificMalloc" || String.eqb m "PlatformSpecificRealloc" || String.eqb m "PlatformSpecificFree" then Some APlain
      else None
  | [(m1, g1, _); (m2, g2, _)] =>
      if String.eqb m1 "invalidateMemory" && String.eqb g1 "" && String.eqb m2 "deallocMemory" then option_map ARelease (fam_of_getter g2) else None
  | _ => None
  end.

Definition wrapper_of (fn : string) : option wrapper :=
  match assoc fn src_handlers with
  | Some (locks, cs) => option_map (fun a => {| w_locks := locks; w_action := a |}) (action_of_calls cs)
  | None => None
  end.

(* the table a switch function installs: its assignments, in source order *)
Fixpoint derive (src : list (string * string)) : option wtable :=
  match src with
  | [] => Some []
  | (v, fn) :: r =>
      match assoc v var_entry, wrapper_of fn, derive r with
      | Some e, Some w, Some t => Some ((e, w) :: t)
      | _, _, _ => None
      end
  end.

Definition wrapper_eqb (a b : wrapper) : bool := Bool.eqb (w_locks a) (w_locks b) && action_eqb (w_action a) (w_action b).
Fixpoint wtable_eqb (a b : wtable) : bool :=
  match a, b with
  | [], [] => true
  | (e, w) :: r, (e', w') :: r' => entry_eqb e e' && wrapper_eqb w w' && wtable_eqb r r'
  | _, _ => false
  end.
Definition derived_is (src : list (string * string)) (t : wtable) : bool :=
  match derive src with Some d => wtable_eqb d t | None => false end.

Lemma action_eqb_eq a b : action_eqb a b = true -> a = b.
Proof. destruct a as [f|f|f|], b as [g|g|g|]; cbn; try discriminate; try reflexivity; destruct f, g; cbn; try discriminate; reflexivity. Qed.
Lemma entry_eqb_eq a b : entry_eqb a b = true -> a = b.
Proof. destruct a, b; cbn; try discriminate; reflexivity. Qed.
Lemma wtable_eqb_eq : forall a b, wtable_eqb a b = true -> a = b.
Proof.
  induction a as [|[e w] r IH]; intros [|[e' w'] r'] H; cbn in H; try discriminate; [reflexivity|].
  apply andb_true_iff in H. destruct H as [H H3]. apply andb_true_iff in H. destruct H as [H1 H2].
  apply entry_eqb_eq in H1. unfold wrapper_eqb in H2. apply andb_true_iff in H2. destruct H2 as [H2 H4].
  apply Bool.eqb_prop in H2. apply action_eqb_eq in H4. destruct w, w'. cbn in H2, H4. subst. f_equal. apply IH. exact H3.
Qed.

(* the three tables of Gen_C10.v are what the AST says the three switch functions install *)
Theorem thread_safe_table_is_the_ast : derive src_turnOnThreadSafeNewDeleteOverloads = Some ts_table.
Proof.
  assert (H : derived_is src_turnOnThreadSafeNewDeleteOverloads ts_table = true) by (vm_compute; reflexivity).
  unfold derived_is in H. destruct (derive src_turnOnThreadSafeNewDeleteOverloads); [|discriminate]. f_equal. apply wtable_eqb_eq. exact H.
Qed.
Theorem default_table_is_the_ast : derive src_turnOnDefaultNotThreadSafeNewDeleteOverloads = Some default_table.
Proof.
  assert (H : derived_is src_turnOnDefaultNotThreadSafeNewDeleteOverloads default_table = true) by (vm_compute; reflexivity).
  unfold derived_is in H. destruct (derive src_turnOnDefaultNotThreadSafeNewDeleteOverloads); [|discriminate]. f_equal. apply wtable_eqb_eq. exact H.
Qed.
Theorem off_table_is_the_ast : derive src_turnOffNewDeleteOverloads = Some off_table.
Proof.
  assert (H : derived_is src_turnOffNewDeleteOverloads off_table = true) by (vm_compute; reflexivity).
  unfold derived_is in H. destruct (derive src_turnOffNewDeleteOverloads); [|discriminate]. f_equal. apply wtable_eqb_eq. exact H.
Qed.

(* every handler of the thread-safe group declares the scoped lock, no handler of the two other groups does, and a handler that
   locks is only ever reachable through the thread-safe switch *)
Definition starts_with (p s : string) : bool := String.eqb p (substring 0 (String.length p) s).
Definition is_threadsafe_name (s : string) : bool := starts_with "threadsafe_" s.     (* the handler's name begins with threadsafe_ *)
Theorem lock_declared_iff_thread_safe_handler :
  forallb (fun h => Bool.eqb (fst (snd h)) (is_threadsafe_name (fst h))) src_handlers = true.
Proof. vm_compute. reflexivity. Qed.
Theorem thread_safe_switch_assigns_only_thread_safe_handlers :
  forallb (fun a => is_threadsafe_name (snd a)) src_turnOnThreadSafeNewDeleteOverloads = true /\
  forallb (fun a => negb (is_threadsafe_name (snd a))) (src_turnOnDefaultNotThreadSafeNewDeleteOverloads ++ src_turnOffNewDeleteOverloads) = true /\
  forallb (fun a => negb (is_threadsafe_name (snd a))) src_fptr_init = true.
Proof. vm_compute. repeat split; reflexivity. Qed.

(* every switch assigns each of the eleven pointers exactly once *)
Definition assigns_each_once (src : list (string * string)) : bool :=
  forallb (fun ve => Nat.eqb (List.length (filter (fun a => String.eqb (fst a) (fst ve)) src)) 1) var_entry &&
  Nat.eqb (List.length src) (List.length var_entry).
Theorem switches_assign_each_pointer_once :
  assigns_each_once src_turnOnThreadSafeNewDeleteOverloads = true /\
  assigns_each_once src_turnOnDefaultNotThreadSafeNewDeleteOverloads = true /\
  assigns_each_once src_turnOffNewDeleteOverloads = true.
Proof. vm_compute. repeat split; reflexivity. Qed.

(* the global overloads: every entry point the AST shows calls the pointer variable whose entry Gen_C10's dispatch_table pairs it
   with itself; the set of pointer variables called is the set of the eleven entries *)
Definition dispatch_diagonal : bool := forallb (fun p => entry_eqb (fst p) (snd p)) dispatch_table.
Definition ast_entry_points_cover : bool :=
  forallb (fun ve => existsb (fun p => String.eqb (snd p) (fst ve)) src_entry_points) var_entry &&
  forallb (fun p => match assoc (snd p) var_entry with Some _ => true | None => false end) src_entry_points.
Theorem entry_points_agree : dispatch_diagonal = true /\ ast_entry_points_cover = true /\
  List.length dispatch_table = List.length src_entry_points.
Proof. vm_compute. repeat split; reflexivity. Qed.

(* C10's wiring theorem about the table derived from the AST: each of the eleven pointers the thread-safe switch assigns is a
   function that declares the scoped lock first and performs the textbook detector action of that entry point *)
Theorem ast_thread_safe_wiring_ok : exists t, derive src_turnOnThreadSafeNewDeleteOverloads = Some t /\ wiring_ok t = true.
Proof. exists ts_table. split; [exact thread_safe_table_is_the_ast | vm_compute; reflexivity]. Qed.

(* a wiring slip in the source is rejected by the derivation: the nothrow array form given the scalar handler *)
Definition slipped_switch : list (string * string) :=      (* operator_new_array_nothrow_fptr = threadsafe_mem_leak_operator_new_nothrow *)
  map (fun a => if String.eqb (fst a) "operator_new_array_nothrow_fptr" then (fst a, "threadsafe_mem_leak_operator_new_nothrow") else a)
      src_turnOnThreadSafeNewDeleteOverloads.
Example a_slip_is_seen : match derive slipped_switch with Some t => wiring_ok t | None => true end = false.
Proof. vm_compute. reflexivity. Qed.
