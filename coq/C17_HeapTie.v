(* C17: CppUTestStore and SetPointerPlugin::postTestAction, as translated from source on every run (gen/Gen_HeapC17.v), run on a
   heap that REPRESENTS a model state (C17_Model.v: a pool of pointer variables and the table of recorded (location, original
   value) pairs) return FOk and a heap that represents the model's new state:
     - CppUTestStore(&pool[l]) records (l, pool[l]) -- the table part of the model's `SSet` statement -- and touches nothing else;
     - CppUTestStore on a full table (MAX_SET = 32 entries) appends the ghost event HFail and leaves the heap UNCHANGED;
     - postTestAction leaves the pool block equal to the model's `restore table pool` and the index at 0.
   Representation.  The pool is one block bp with cells `VInt (Z.of_N v)`; location l is the pointer HPtr bp l; the file-static
   pointerTableIndex is the one-cell block bi; the file-static setlist[32] is the 64-cell block bs.  The model's table is
   NEWEST FIRST (SSet conses, restore walks from the head); the source stores entry k at setlist[k] (oldest first) and
   walks the index downwards: the heap holds the entries of `rev table`, entry k in cells 2k (orig) and 2k+1 (orig_value). *)
From Coq Require Import ZArith NArith Bool List Lia.
From CppUVerif Require Import lib.CSem lib.CMem lib.CMemFacts lib.CHeap gen.Gen_HeapC17 C17_Model.
From CppUVerif Require C17_Proofs.
Import ListNotations.
Local Open Scope Z_scope.

(* ------------------------------------------------------------------ the limit, as re-read from the header on every run *)
Lemma max_set_32 : max_set = 32%nat.
Proof. reflexivity. Qed.

(* ------------------------------------------------------------------ pointer steps, loads, stores at a known position *)
Lemma t_padd h b i k : 0 <= i + k <= Z.of_nat (length (hblock h b)) -> hpadd h (HPtr b i) k = Some (HPtr b (i + k)).
Proof.
  intro H. unfold hpadd. replace (0 <=? i + k) with true by (symmetry; apply Z.leb_le; lia).
  replace (i + k <=? Z.of_nat (length (hblock h b))) with true by (symmetry; apply Z.leb_le; lia). reflexivity.
Qed.

Lemma t_load h b i pre x t : hblock h b = pre ++ x :: t -> i = Z.of_nat (length pre) -> hload h (HPtr b i) = Some x.
Proof. intros Hb E. subst i. rewrite hload_cell. unfold cell. rewrite Hb. apply nth_error_app_mid. Qed.

Lemma t_load_int h b i pre z t : hblock h b = pre ++ VInt z :: t -> i = Z.of_nat (length pre) -> hload_int h (HPtr b i) = Some z.
Proof. intros Hb E. unfold hload_int. rewrite (t_load h b i pre (VInt z) t Hb E). reflexivity. Qed.

Lemma t_load_ptr h b i pre p t : hblock h b = pre ++ VPtr p :: t -> i = Z.of_nat (length pre) -> hload_ptr h (HPtr b i) = Some p.
Proof. intros Hb E. unfold hload_ptr. rewrite (t_load h b i pre (VPtr p) t Hb E). reflexivity. Qed.

Lemma t_store h b i pre x t v : hblock h b = pre ++ x :: t -> i = Z.of_nat (length pre) -> (b < length h)%nat ->
  exists h', hstore h (HPtr b i) v = Some h' /\ hblock h' b = pre ++ v :: t /\ length h' = length h /\
             length (hblock h' b) = length (hblock h b) /\
             (forall b', b' <> b -> hblock h' b' = hblock h b').
Proof.
  intros Hb E L. subst i. exists (CMem.upd h b (pre ++ v :: t)).
  assert (Hu : CMem.upd (hblock h b) (length pre) v = pre ++ v :: t) by (rewrite Hb; apply upd_app_mid).
  split; [|split; [|split; [|split]]].
  - rewrite hstore_cell. rewrite Hu.
    replace (Nat.ltb (length pre) (length (hblock h b))) with true
      by (symmetry; apply Nat.ltb_lt; rewrite Hb, app_length; cbn [length]; lia).
    replace (Nat.ltb b (length h)) with true by (symmetry; apply Nat.ltb_lt; exact L). reflexivity.
  - apply hblock_upd_same. exact L.
  - apply heap_upd_length.
  - rewrite hblock_upd_same by exact L. rewrite Hb, !app_length. reflexivity.
  - intros b' Hne. apply hblock_upd_other. intro E. apply Hne. symmetry. exact E.
Qed.

Lemma t_cw z : -1 <= z <= 64 -> cw 32 true z = z.
Proof. intro H. apply cw_s_small; [lia | change (2 ^ (32 - 1)) with 2147483648; lia]. Qed.

(* ------------------------------------------------------------------ how a heap represents (pool, table) *)
Definition pool_cells (pool : C17_Model.mem) : list CHeap.val := map (fun v => VInt (Z.of_N v)) pool.
Definition loc_ptr (bp : nat) (l : loc) : hptr := HPtr bp (Z.of_nat l).
(* one cpputest_pair {void** orig; void* orig_value} *)
Definition entry_cells (bp : nat) (e : loc * C17_Model.val) : list CHeap.val := [VPtr (loc_ptr bp (fst e)); VInt (Z.of_N (snd e))].
(* the pairs setlist[0], setlist[1], ... in STORE order *)
Definition entries_cells (bp : nat) (es : list (loc * C17_Model.val)) : list CHeap.val := flat_map (entry_cells bp) es.
(* the model's table is newest first: the store order is its reverse *)
Definition store_order (tb : table) : list (loc * C17_Model.val) := rev tb.

Definition rep (h : heap) (bp bi bs : nat) (pool : C17_Model.mem) (tb : table) : Prop :=
  bp <> bi /\ bp <> bs /\ bi <> bs /\
  (bp < length h)%nat /\ (bi < length h)%nat /\ (bs < length h)%nat /\
  hblock h bp = pool_cells pool /\
  hblock h bi = [VInt (Z.of_nat (length tb))] /\
  (exists rest, hblock h bs = entries_cells bp (store_order tb) ++ rest) /\
  length (hblock h bs) = 64%nat /\
  (* every recorded location is a location of the pool (a `void**` into the pool block) *)
  Forall (fun e => (fst e < length pool)%nat) tb.

Lemma entries_length bp es : length (entries_cells bp es) = (2 * length es)%nat.
Proof.
  induction es as [|e es IH]; [reflexivity|].
  change (entries_cells bp (e :: es)) with (entry_cells bp e ++ entries_cells bp es).
  rewrite app_length, IH. cbn [entry_cells length]. lia.
Qed.

Lemma entries_snoc bp es l v :
  entries_cells bp (es ++ [(l, v)]) = entries_cells bp es ++ [VPtr (loc_ptr bp l); VInt (Z.of_N v)].
Proof. unfold entries_cells. rewrite flat_map_app. reflexivity. Qed.

(* a representable table respects the limit *)
Lemma rep_bound h bp bi bs pool tb : rep h bp bi bs pool tb -> (length tb <= max_set)%nat.
Proof.
  intros (_ & _ & _ & _ & _ & _ & _ & _ & [rest Hs] & H64 & _). rewrite max_set_32.
  rewrite Hs, app_length, entries_length in H64. unfold store_order in H64. rewrite rev_length in H64. lia.
Qed.

(* the cell of location l, and the pool block after an assignment to that location *)
Lemma pool_split : forall (pool : C17_Model.mem) (l : loc), (l < length pool)%nat ->
  exists pre t, pool_cells pool = pre ++ VInt (Z.of_N (rd pool l)) :: t /\ length pre = l /\
                forall v, pool_cells (C17_Model.upd pool l v) = pre ++ VInt (Z.of_N v) :: t.
Proof.
  induction pool as [|x pool IH]; intros [|l] H; cbn [length] in H; try lia.
  - exists [], (pool_cells pool). split; [reflexivity|]. split; [reflexivity|]. intro v. reflexivity.
  - destruct (IH l) as (pre & t & E & Lp & U); [lia|]. exists (VInt (Z.of_N x) :: pre), t. split; [|split].
    + change (rd (x :: pool) (S l)) with (rd pool l). change (pool_cells (x :: pool)) with (VInt (Z.of_N x) :: pool_cells pool).
      rewrite E. reflexivity.
    + cbn [length]. rewrite Lp. reflexivity.
    + intro v. change (pool_cells (C17_Model.upd (x :: pool) (S l) v)) with (VInt (Z.of_N x) :: pool_cells (C17_Model.upd pool l v)).
      rewrite U. reflexivity.
Qed.

Lemma pool_cells_length pool : length (pool_cells pool) = length pool.
Proof. apply map_length. Qed.

Lemma pool_cell pool l : (l < length pool)%nat -> nth_error (pool_cells pool) l = Some (VInt (Z.of_N (rd pool l))).
Proof.
  intro H. destruct (pool_split pool l H) as (pre & t & E & Lp & _). rewrite E, <- Lp. apply nth_error_app_mid.
Qed.

(* ------------------------------------------------------------------ the model's Set statement, table part *)
Lemma model_set_below pool tb l v : (length tb < max_set)%nat ->
  exec_stmt pool tb (SSet l v) = (C17_Model.upd pool l v, (l, rd pool l) :: tb, true).
Proof. intro H. cbn [exec_stmt]. destruct (Nat.leb_spec max_set (length tb)); [lia|reflexivity]. Qed.
Lemma model_set_full pool tb l v : length tb = max_set -> exec_stmt pool tb (SSet l v) = (pool, tb, false).
Proof. intro H. cbn [exec_stmt]. destruct (Nat.leb_spec max_set (length tb)); [reflexivity|lia]. Qed.

(* ================================================================== CppUTestStore, table not full *)
Theorem src_CppUTestStore_spec fuel h evs nx bp bi bs pool tb l :
  rep h bp bi bs pool tb -> (length tb < max_set)%nat -> (l < length pool)%nat ->
  exists h',
    src_CppUTestStore fuel h evs nx (HPtr bi 0) (HPtr bs 0) (loc_ptr bp l) = FOk (tt, h', evs, nx) /\
    rep h' bp bi bs pool ((l, rd pool l) :: tb) /\
    hblock h' bp = hblock h bp /\
    hblock h' bs = CMem.upd (CMem.upd (hblock h bs) (2 * length tb + 1) (VInt (Z.of_N (rd pool l))))
                            (2 * length tb) (VPtr (loc_ptr bp l)) /\
    length h' = length h /\
    (forall b, b <> bi -> b <> bs -> hblock h' b = hblock h b).
Proof.
  intros R Hn Hl. rewrite max_set_32 in Hn.
  destruct R as (Npi & Nps & Nis & Lp & Li & Ls & Hp & Hi & [rest Hs] & H64 & Hf).
  assert (Hlen : length (entries_cells bp (store_order tb)) = (2 * length tb)%nat).
  { rewrite entries_length. unfold store_order. rewrite rev_length. reflexivity. }
  destruct rest as [|x rest]; [rewrite Hs, app_length, Hlen in H64; cbn [length] in H64; lia|].
  destruct rest as [|y rest]; [rewrite Hs, app_length, Hlen in H64; cbn [length] in H64; lia|].
  destruct (pool_split pool l Hl) as (pre & t & Hsplit & Hpre & _).
  set (E := entries_cells bp (store_order tb)) in *.
  set (n := Z.of_nat (length tb)).
  assert (E1 : hload_int h (HPtr bi 0) = Some n).
  { apply (t_load_int h bi 0 [] n []); [exact Hi|reflexivity]. }
  assert (E2 : z2b (c_ge n 32) = false).
  { unfold c_ge. rewrite b2z_z2b. apply Z.leb_gt. unfold n. lia. }
  assert (E3 : hload_int h (loc_ptr bp l) = Some (Z.of_N (rd pool l))).
  { apply (t_load_int h bp (Z.of_nat l) pre _ t); [rewrite Hp; exact Hsplit|rewrite Hpre; reflexivity]. }
  assert (E4 : hpadd h (HPtr bs 0) (n * 2) = Some (HPtr bs (0 + n * 2))).
  { apply t_padd. rewrite H64. unfold n. lia. }
  assert (E5 : hpadd h (HPtr bs (0 + n * 2)) 1 = Some (HPtr bs (0 + n * 2 + 1))).
  { apply t_padd. rewrite H64. unfold n. lia. }
  destruct (t_store h bs (0 + n * 2 + 1) (E ++ [x]) y rest (VInt (Z.of_N (rd pool l)))) as (h1 & S1 & B1 & L1 & K1 & O1).
  { rewrite Hs, <- app_assoc. reflexivity. }
  { rewrite app_length, Hlen. cbn [length]. unfold n. lia. }
  { exact Ls. }
  assert (E6 : hload_int h1 (HPtr bi 0) = Some n).
  { apply (t_load_int h1 bi 0 [] n []); [rewrite (O1 bi Nis); exact Hi|reflexivity]. }
  assert (E7 : hpadd h1 (HPtr bs 0) (n * 2) = Some (HPtr bs (0 + n * 2))).
  { apply t_padd. rewrite K1, H64. unfold n. lia. }
  destruct (t_store h1 bs (0 + n * 2) E x (VInt (Z.of_N (rd pool l)) :: rest) (VPtr (loc_ptr bp l))) as (h2 & S2 & B2 & L2 & K2 & O2).
  { rewrite B1, <- app_assoc. reflexivity. }
  { rewrite Hlen. unfold n. lia. }
  { rewrite L1. exact Ls. }
  assert (E8 : hload_int h2 (HPtr bi 0) = Some n).
  { apply (t_load_int h2 bi 0 [] n []); [rewrite (O2 bi Nis), (O1 bi Nis); exact Hi|reflexivity]. }
  assert (E9 : cw 32 true (n + 1) = n + 1) by (apply t_cw; unfold n; lia).
  destruct (t_store h2 bi 0 [] (VInt n) [] (VInt (n + 1))) as (h3 & S3 & B3 & L3 & K3 & O3).
  { rewrite (O2 bi Nis), (O1 bi Nis). exact Hi. }
  { reflexivity. }
  { rewrite L2, L1. exact Li. }
  exists h3. split; [|split; [|split; [|split; [|split]]]].
  - unfold src_CppUTestStore. rewrite E1. cbv beta iota. rewrite E2. cbv beta iota.
    rewrite E3. cbv beta iota. rewrite E4. cbv beta iota. rewrite E5. cbv beta iota. rewrite S1. cbv beta iota.
    rewrite E6. cbv beta iota. rewrite E7. cbv beta iota. rewrite S2. cbv beta iota.
    rewrite E8. cbv beta iota zeta. rewrite E9. rewrite S3. reflexivity.
  - assert (Nsi : bs <> bi) by (intro Q; apply Nis; symmetry; exact Q).
    assert (Nip : bi <> bp) by (intro Q; apply Npi; symmetry; exact Q).
    assert (Nsp : bs <> bp) by (intro Q; apply Nps; symmetry; exact Q).
    unfold rep. rewrite L3, L2, L1.
    split; [exact Npi|]. split; [exact Nps|]. split; [exact Nis|]. split; [exact Lp|]. split; [exact Li|]. split; [exact Ls|].
    split; [rewrite (O3 bp Npi), (O2 bp Nps), (O1 bp Nps); exact Hp|].
    split.
    { rewrite B3. cbn [app length]. unfold n. do 2 f_equal. lia. }
    split.
    { exists rest. rewrite (O3 bs Nsi), B2. unfold store_order. cbn [rev]. rewrite entries_snoc, <- app_assoc. reflexivity. }
    split; [rewrite (O3 bs Nsi), K2, K1; exact H64|].
    constructor; [exact Hl|exact Hf].
  - assert (Nip : bi <> bp) by (intro Q; apply Npi; symmetry; exact Q).
    rewrite (O3 bp Npi), (O2 bp Nps), (O1 bp Nps). reflexivity.
  - assert (Nsi : bs <> bi) by (intro Q; apply Nis; symmetry; exact Q).
    rewrite (O3 bs Nsi), B2, Hs.
    replace (2 * length tb + 1)%nat with (length (E ++ [x])) by (rewrite app_length, Hlen; cbn [length]; lia).
    replace (E ++ x :: y :: rest) with ((E ++ [x]) ++ y :: rest) by (rewrite <- app_assoc; reflexivity).
    rewrite upd_app_mid, <- app_assoc. cbn [app]. rewrite <- Hlen. rewrite upd_app_mid. reflexivity.
  - rewrite L3, L2, L1. reflexivity.
  - intros b Hbi Hbs. rewrite (O3 b Hbi), (O2 b Hbs), (O1 b Hbs). reflexivity.
Qed.

(* ================================================================== CppUTestStore, table full: HFail, nothing written *)
(* the fuel pays for the translator's one-trip wrapper around the statement that leaves the function: 1 is enough *)
Lemma src_CppUTestStore_full_gen fuel h evs nx gi gs f n :
  hload_int h gi = Some n -> 32 <= n -> (0 < fuel)%nat ->
  src_CppUTestStore fuel h evs nx gi gs f = FOk (tt, h, evs ++ [HFail], nx).
Proof.
  intros E1 Hn Hfu. destruct fuel as [|fuel]; [lia|].
  unfold src_CppUTestStore. rewrite E1. cbv beta iota.
  replace (z2b (c_ge n 32)) with true by (symmetry; unfold c_ge; rewrite b2z_z2b; apply Z.leb_le; exact Hn).
  cbn [src_CppUTestStore_loop1]. reflexivity.
Qed.

Theorem src_CppUTestStore_full_spec fuel h evs nx bp bi bs pool tb f :
  rep h bp bi bs pool tb -> length tb = max_set -> (0 < fuel)%nat ->
  src_CppUTestStore fuel h evs nx (HPtr bi 0) (HPtr bs 0) f = FOk (tt, h, evs ++ [HFail], nx).
Proof.
  intros R Hn Hfu. rewrite max_set_32 in Hn. destruct R as (_ & _ & _ & _ & _ & _ & _ & Hi & _).
  apply (src_CppUTestStore_full_gen fuel h evs nx (HPtr bi 0) (HPtr bs 0) f (Z.of_nat (length tb))); [|lia|exact Hfu].
  apply (t_load_int h bi 0 [] _ []); [exact Hi|reflexivity].
Qed.

(* ================================================================== SetPointerPlugin::postTestAction *)
(* the loop, from index (length tb - 1) down to 0: by induction on the model table (newest first = highest index first) *)
Lemma post_loop_spec bp bs (Nps : bp <> bs) (tb : table) : forall fuel0 fuel h (pool : C17_Model.mem) rest,
  (bp < length h)%nat -> hblock h bp = pool_cells pool ->
  hblock h bs = entries_cells bp (store_order tb) ++ rest ->
  Forall (fun e => (fst e < length pool)%nat) tb -> (length tb <= 32)%nat -> (length tb < fuel)%nat ->
  exists h',
    src_SetPointer_postTestAction_loop1 fuel0 fuel (HPtr bs 0) h (Z.of_nat (length tb) - 1) = Go (h', -1) /\
    hblock h' bp = pool_cells (restore tb pool) /\ length h' = length h /\
    (forall b, b <> bp -> hblock h' b = hblock h b).
Proof.
  induction tb as [|[l v] r IH]; intros fuel0 fuel h pool rest Lp Hp Hs Hf Hn Hfu.
  - destruct fuel as [|fuel]; [cbn in Hfu; lia|].
    change (Z.of_nat (length (@nil (loc * C17_Model.val))) - 1) with (-1).
    cbn [src_SetPointer_postTestAction_loop1]. change (z2b (c_ge (-1) 0)) with false. cbv beta iota.
    exists h. split; [reflexivity|]. split; [exact Hp|]. split; [reflexivity|]. intros b _. reflexivity.
  - cbn [length] in Hn, Hfu. destruct fuel as [|fuel]; [lia|].
    replace (Z.of_nat (length ((l, v) :: r)) - 1) with (Z.of_nat (length r)) by (cbn [length]; lia).
    set (n := Z.of_nat (length r)).
    unfold store_order in Hs. cbn [rev] in Hs. rewrite entries_snoc, <- app_assoc in Hs. cbn [app] in Hs.
    fold (store_order r) in Hs.
    set (E := entries_cells bp (store_order r)) in *.
    assert (Hlen : length E = (2 * length r)%nat).
    { unfold E. rewrite entries_length. unfold store_order. rewrite rev_length. reflexivity. }
    assert (Hblen : (2 * length r + 2 <= length (hblock h bs))%nat).
    { rewrite Hs, app_length, Hlen. cbn [length]. lia. }
    pose proof (Forall_inv Hf) as Hl. cbn [fst] in Hl. pose proof (Forall_inv_tail Hf) as Hf'.
    destruct (pool_split pool l Hl) as (pre & t & Hsplit & Hpre & Hupd).
    assert (E0 : z2b (c_ge n 0) = true).
    { unfold c_ge. rewrite b2z_z2b. apply Z.leb_le. unfold n. lia. }
    assert (E1 : hpadd h (HPtr bs 0) (n * 2) = Some (HPtr bs (0 + n * 2))).
    { apply t_padd. unfold n. lia. }
    assert (E2 : hpadd h (HPtr bs (0 + n * 2)) 1 = Some (HPtr bs (0 + n * 2 + 1))).
    { apply t_padd. unfold n. lia. }
    assert (E3 : hload_int h (HPtr bs (0 + n * 2 + 1)) = Some (Z.of_N v)).
    { apply (t_load_int h bs _ (E ++ [VPtr (loc_ptr bp l)]) _ rest).
      - rewrite Hs, <- app_assoc. reflexivity.
      - rewrite app_length, Hlen. cbn [length]. unfold n. lia. }
    assert (E4 : hload_ptr h (HPtr bs (0 + n * 2)) = Some (loc_ptr bp l)).
    { apply (t_load_ptr h bs _ E _ (VInt (Z.of_N v) :: rest)); [exact Hs|rewrite Hlen; unfold n; lia]. }
    destruct (t_store h bp (Z.of_nat l) pre (VInt (Z.of_N (rd pool l))) t (VInt (Z.of_N v))) as (h1 & S1 & B1 & L1 & K1 & O1).
    { rewrite Hp. exact Hsplit. }
    { rewrite Hpre. reflexivity. }
    { exact Lp. }
    assert (E5 : cw 32 true (n - 1) = n - 1) by (apply t_cw; unfold n; lia).
    destruct (IH fuel0 fuel h1 (C17_Model.upd pool l v) (VPtr (loc_ptr bp l) :: VInt (Z.of_N v) :: rest)) as (h2 & EL & B2 & L2 & O2).
    { rewrite L1. exact Lp. }
    { rewrite B1, Hupd. reflexivity. }
    { assert (Nsp : bs <> bp) by (intro Q; apply Nps; symmetry; exact Q). rewrite (O1 bs Nsp). exact Hs. }
    { rewrite C17_Proofs.upd_length. exact Hf'. }
    { lia. }
    { lia. }
    exists h2. split; [|split; [|split]].
    + cbn [src_SetPointer_postTestAction_loop1]. rewrite E0. cbv beta iota. rewrite E1. cbv beta iota.
      rewrite E2. cbv beta iota. rewrite E3. cbv beta iota. rewrite E4. cbv beta iota.
      unfold loc_ptr at 1. rewrite S1. cbv beta iota zeta. rewrite E5. exact EL.
    + cbn [restore]. exact B2.
    + rewrite L2, L1. reflexivity.
    + intros b Hb. rewrite (O2 b Hb), (O1 b Hb). reflexivity.
Qed.

Theorem src_SetPointer_postTestAction_spec fuel h evs nx this_ bp bi bs pool tb :
  rep h bp bi bs pool tb -> (length tb < fuel)%nat ->
  exists h',
    src_SetPointer_postTestAction fuel h evs nx this_ (HPtr bi 0) (HPtr bs 0) = FOk (tt, h', evs, nx) /\
    rep h' bp bi bs (restore tb pool) [] /\
    hblock h' bp = pool_cells (restore tb pool) /\
    hblock h' bi = [VInt 0] /\
    hblock h' bs = hblock h bs /\              (* the 64 table cells keep their (now stale) content *)
    length h' = length h /\
    (forall b, b <> bp -> b <> bi -> hblock h' b = hblock h b).
Proof.
  intros R Hfu. pose proof (rep_bound _ _ _ _ _ _ R) as Hn. rewrite max_set_32 in Hn.
  destruct R as (Npi & Nps & Nis & Lp & Li & Ls & Hp & Hi & [rest Hs] & H64 & Hf).
  set (n := Z.of_nat (length tb)).
  assert (E1 : hload_int h (HPtr bi 0) = Some n).
  { apply (t_load_int h bi 0 [] n []); [exact Hi|reflexivity]. }
  assert (E2 : cw 32 true (n - 1) = n - 1) by (apply t_cw; unfold n; lia).
  destruct (post_loop_spec bp bs Nps tb fuel fuel h pool rest Lp Hp Hs Hf Hn Hfu) as (h1 & EL & B1 & L1 & O1).
  assert (Nip : bi <> bp) by (intro Q; apply Npi; symmetry; exact Q).
  assert (Nsp : bs <> bp) by (intro Q; apply Nps; symmetry; exact Q).
  assert (Nsi : bs <> bi) by (intro Q; apply Nis; symmetry; exact Q).
  destruct (t_store h1 bi 0 [] (VInt n) [] (VInt 0)) as (h2 & S2 & B2 & L2 & K2 & O2).
  { rewrite (O1 bi Nip). exact Hi. }
  { reflexivity. }
  { rewrite L1. exact Li. }
  exists h2.
  assert (Hbp : hblock h2 bp = pool_cells (restore tb pool)) by (rewrite (O2 bp Npi); exact B1).
  assert (Hbs : hblock h2 bs = hblock h bs) by (rewrite (O2 bs Nsi), (O1 bs Nsp); reflexivity).
  split; [|split; [|split; [|split; [|split; [|split]]]]].
  - unfold src_SetPointer_postTestAction. rewrite E1. cbv beta iota zeta. rewrite E2. fold n in EL. rewrite EL.
    cbv beta iota. rewrite S2. reflexivity.
  - unfold rep. rewrite L2, L1.
    split; [exact Npi|]. split; [exact Nps|]. split; [exact Nis|]. split; [exact Lp|]. split; [exact Li|]. split; [exact Ls|].
    split; [exact Hbp|]. split; [exact B2|].
    split; [exists (hblock h bs); rewrite Hbs; reflexivity|].
    split; [rewrite Hbs; exact H64|]. constructor.
  - exact Hbp.
  - exact B2.
  - exact Hbs.
  - rewrite L2, L1. reflexivity.
  - intros b Hbp' Hbi. rewrite (O2 b Hbi), (O1 b Hbp'). reflexivity.
Qed.

(* the property's reading of it: after the post action the cell of every location holds the value recorded at its FIRST
   redirection (the oldest entry for it), or is untouched when it was never redirected (model level: C17_Proofs.restore_rd) *)
Corollary src_SetPointer_postTestAction_first_value fuel h evs nx this_ bp bi bs pool tb :
  rep h bp bi bs pool tb -> (length tb < fuel)%nat ->
  exists h',
    src_SetPointer_postTestAction fuel h evs nx this_ (HPtr bi 0) (HPtr bs 0) = FOk (tt, h', evs, nx) /\
    forall l, (l < length pool)%nat ->
      cell h' bp l = Some (VInt (Z.of_N (match C17_Proofs.oldest tb l with Some v => v | None => rd pool l end))).
Proof.
  intros R Hfu. destruct (src_SetPointer_postTestAction_spec fuel h evs nx this_ bp bi bs pool tb R Hfu) as (h' & EQ & _ & Hbp & _).
  exists h'. split; [exact EQ|]. intros l Hl. unfold cell. rewrite Hbp.
  rewrite pool_cell by (rewrite C17_Proofs.restore_length; exact Hl).
  rewrite C17_Proofs.restore_rd by exact Hl. reflexivity.
Qed.

(* ================================================================== UT_PTR_SET(pool[l], v) = CppUTestStore(&pool[l]); pool[l] = v *)
(* the translated CppUTestStore followed by the assignment of the macro (a store of the new value through the same pointer)
   is the model's SSet statement, on both components of the state *)
Theorem ut_ptr_set_spec fuel h evs nx bp bi bs pool tb l v :
  rep h bp bi bs pool tb -> (length tb < max_set)%nat -> (l < length pool)%nat ->
  exists h' h'',
    src_CppUTestStore fuel h evs nx (HPtr bi 0) (HPtr bs 0) (loc_ptr bp l) = FOk (tt, h', evs, nx) /\
    hstore h' (loc_ptr bp l) (VInt (Z.of_N v)) = Some h'' /\
    exec_stmt pool tb (SSet l v) = (C17_Model.upd pool l v, (l, rd pool l) :: tb, true) /\
    rep h'' bp bi bs (C17_Model.upd pool l v) ((l, rd pool l) :: tb) /\
    (forall b, b <> bp -> b <> bi -> b <> bs -> hblock h'' b = hblock h b).
Proof.
  intros R Hn Hl.
  destruct (src_CppUTestStore_spec fuel h evs nx bp bi bs pool tb l R Hn Hl) as (h1 & EQ & R1 & Hbp & _ & L1 & O1).
  destruct R1 as (Npi & Nps & Nis & Lp & Li & Ls & Hp & Hi & Hs & H64 & Hf).
  destruct (pool_split pool l Hl) as (pre & t & Hsplit & Hpre & Hupd).
  destruct (t_store h1 bp (Z.of_nat l) pre (VInt (Z.of_N (rd pool l))) t (VInt (Z.of_N v))) as (h2 & S2 & B2 & L2 & K2 & O2).
  { rewrite Hp. exact Hsplit. }
  { rewrite Hpre. reflexivity. }
  { exact Lp. }
  assert (Nip : bi <> bp) by (intro Q; apply Npi; symmetry; exact Q).
  assert (Nsp : bs <> bp) by (intro Q; apply Nps; symmetry; exact Q).
  exists h1, h2. split; [exact EQ|]. split; [exact S2|]. split; [apply model_set_below; exact Hn|]. split.
  - unfold rep. rewrite L2.
    split; [exact Npi|]. split; [exact Nps|]. split; [exact Nis|]. split; [exact Lp|]. split; [exact Li|]. split; [exact Ls|].
    split; [rewrite B2, Hupd; reflexivity|]. split; [rewrite (O2 bi Nip); exact Hi|].
    split; [rewrite (O2 bs Nsp); exact Hs|]. split; [rewrite (O2 bs Nsp); exact H64|].
    rewrite C17_Proofs.upd_length. exact Hf.
  - intros b Hb1 Hb2 Hb3. rewrite (O2 b Hb1), (O1 b Hb2 Hb3). reflexivity.
Qed.

(* ================================================================== examples (non-vacuity), by computation *)
(* block 0 = pool of 3 pointer variables, block 1 = pointerTableIndex, block 2 = setlist (64 cells), block 3 = a bystander *)
Definition ex_heap (pool : list Z) (n : Z) (entries : list CHeap.val) : heap :=
  [ map VInt pool; [VInt n]; entries ++ repeat (VInt 0) (64 - length entries); [VInt 77] ].
Definition ex_e (l v : Z) : list CHeap.val := [VPtr (HPtr 0 l); VInt v].

(* the pool was [10;20;30]; location 1 redirected to 21, location 0 to 11: the table holds (1,20) then (0,10) *)
Definition ex_h2 : heap := ex_heap [11; 21; 30] 2 (ex_e 1 20 ++ ex_e 0 10).

Example ex_rep : rep ex_h2 0 1 2 [11; 21; 30]%N [(0%nat, 10%N); (1%nat, 20%N)].
Proof.
  unfold rep. cbn [length]. repeat split; try discriminate; try (cbn; lia).
  - exists (repeat (VInt 0) 60). reflexivity.
  - repeat constructor.
Qed.

(* store into a table with 2 entries: location 1 redirected again (it now holds 21): entry 2 = (1, 21), index 3 *)
Example ex_store :
  src_CppUTestStore 0 ex_h2 [] 0 (HPtr 1 0) (HPtr 2 0) (HPtr 0 1)
  = FOk (tt, ex_heap [11; 21; 30] 3 (ex_e 1 20 ++ ex_e 0 10 ++ ex_e 1 21), [], 0).
Proof. vm_compute. reflexivity. Qed.

(* a full table: 32 entries, index 32: HFail and the same heap, nothing written past the table *)
Definition ex_full : heap := ex_heap [11; 21; 30] 32 (flat_map (fun k => ex_e 2 (Z.of_nat k)) (seq 0 32)).
Example ex_store_full :
  src_CppUTestStore 1 ex_full [] 0 (HPtr 1 0) (HPtr 2 0) (HPtr 0 1) = FOk (tt, ex_full, [HFail], 0).
Proof. vm_compute. reflexivity. Qed.
(* without the unit of fuel for the translator's wrapper the run is inconclusive, not wrong *)
Example ex_store_full_nofuel :
  src_CppUTestStore 0 ex_full [] 0 (HPtr 1 0) (HPtr 2 0) (HPtr 0 1) = FNoFuel.
Proof. vm_compute. reflexivity. Qed.

(* restore: location 1 redirected twice (20 -> 21 -> 22), location 0 once (10 -> 11); store order (1,20) (0,10) (1,21) *)
Definition ex_h3 : heap := ex_heap [11; 22; 30] 3 (ex_e 1 20 ++ ex_e 0 10 ++ ex_e 1 21).
Example ex_restore :
  src_SetPointer_postTestAction 4 ex_h3 [] 0 HNull (HPtr 1 0) (HPtr 2 0)
  = FOk (tt, ex_heap [10; 20; 30] 0 (ex_e 1 20 ++ ex_e 0 10 ++ ex_e 1 21), [], 0).
Proof. vm_compute. reflexivity. Qed.
(* the model on the same state (table newest first): location 1 ends with 20, the value before its FIRST redirection *)
Example ex_restore_model :
  restore [(1%nat, 21%N); (0%nat, 10%N); (1%nat, 20%N)] [11; 22; 30]%N = [10; 20; 30]%N.
Proof. vm_compute. reflexivity. Qed.
(* walking the same entries oldest first would leave 21 there: the order matters and the source has the right one *)
Example ex_restore_wrong_order :
  restore (rev [(1%nat, 21%N); (0%nat, 10%N); (1%nat, 20%N)]) [11; 22; 30]%N = [10; 21; 30]%N.
Proof. vm_compute. reflexivity. Qed.

(* why rep demands recorded locations inside the pool: a recorded pointer past the pool block is a store out of bounds in the
   translated source (FOob), while the model's upd ignores it -- such a table does not come from UT_PTR_SET on pool variables *)
Example ex_restore_dangling :
  src_SetPointer_postTestAction 4 (ex_heap [11; 22; 30] 1 (ex_e 3 20)) [] 0 HNull (HPtr 1 0) (HPtr 2 0) = FOob.
Proof. vm_compute. reflexivity. Qed.
