(* C11 -- GccPlatformSpecificRunTestInASeperateProcess as translated from src/Platforms/Gcc/UtestPlatform.cpp on every run
   (gen/Gen_LoopC11.v, with the leaf SetTestFailureByStatusCode of gen/Gen_LeafC11.v) does what the hand-written model
   C11_Model.v says: fork failure, child branch, and the parent's wait loop over a stream of waitpid outcomes.

   Reading of the ghost interface.  A model outcome `wout` is concretised as a waitpid triple (result, status, errno):
     WEintr  -> (-1, st, 4)        st arbitrary (the code does not read status after a failing wait)
     WErr    -> (-1, st, e)        st arbitrary, e <> 4 arbitrary
     WStat w -> (pid, Z.of_N w, e) e arbitrary (errno is not read after a successful wait), pid <> -1
   The theorems QUANTIFY over the unread components (relation `is_conc`, lists related by Forall2); `conc_wait` is the
   instance with the unread components fixed (st = 0, e = 5 for WErr, e = 0 for WStat) and satisfies `is_conc`. *)
From Coq Require Import ZArith NArith Bool List Lia String.
From CppUVerif Require Import lib.CSem lib.CMem gen.Gen_C11 gen.Gen_LeafC11 gen.Gen_LoopC11 C11_Model.
From CppUVerif Require Import C11_Loop.
Import ListNotations.
Local Open Scope Z_scope.

(* ------------------------------------------------------------------------------------------------------------------
   1. the status macros of the translated source are the model's, for every word
   ------------------------------------------------------------------------------------------------------------------ *)
Lemma of_N_eqb a b : (Z.of_N a =? Z.of_N b) = (a =? b)%N.
Proof. destruct (Z.eqb_spec (Z.of_N a) (Z.of_N b)); destruct (N.eqb_spec a b); try reflexivity; lia. Qed.

Lemma land_of_N w m : Z.land (Z.of_N w) (Z.of_N m) = Z.of_N (N.land w m).
Proof.
  apply Z.bits_inj'. intros n Hn. rewrite Z.land_spec, !Z.testbit_of_N' by exact Hn. rewrite N.land_spec. reflexivity.
Qed.
Lemma shiftr_of_N w k : Z.shiftr (Z.of_N w) (Z.of_N k) = Z.of_N (N.shiftr w k).
Proof.
  apply Z.bits_inj'. intros n Hn. rewrite Z.shiftr_spec by exact Hn.
  rewrite !Z.testbit_of_N' by lia. rewrite N.shiftr_spec by apply N.le_0_l. f_equal. lia.
Qed.

Lemma land127_bound w : (N.land w 127 < 128)%N.
Proof. change 127%N with (N.ones 7). rewrite N.land_ones. apply N.mod_lt. discriminate. Qed.

Lemma src_wifexited w : z2b (c_eq (Z.land (Z.of_N w) 127) 0) = wifexited w.
Proof.
  unfold c_eq. rewrite b2z_z2b. change 127 with (Z.of_N 127). rewrite land_of_N.
  change 0 with (Z.of_N 0). rewrite of_N_eqb. reflexivity.
Qed.

Lemma src_wifstopped w : z2b (c_eq (Z.land (Z.of_N w) 255) 127) = wifstopped w.
Proof.
  unfold c_eq. rewrite b2z_z2b. change 255 with (Z.of_N 255). rewrite land_of_N.
  change 127 with (Z.of_N 127). rewrite of_N_eqb. reflexivity.
Qed.

Lemma src_schar_cast x : 0 <= x < 128 ->
  cw 8 true (cw 32 true (x + 1)) = (if 128 <=? x + 1 then x + 1 - 256 else x + 1).
Proof.
  intro H.
  assert (E : cw 32 true (x + 1) = x + 1).
  { apply cw_id; [lia|]. cbv beta iota. change (2 ^ (32 - 1)) with 2147483648. lia. }
  rewrite E. unfold cw. change (2 ^ 8) with 256. change (2 ^ (8 - 1)) with 128.
  rewrite Z.mod_small by lia. reflexivity.
Qed.

Lemma src_wifsignaled w :
  z2b (c_gt (Z.shiftr (cw 8 true (cw 32 true (Z.land (Z.of_N w) 127 + 1))) 1) 0) = wifsignaled w.
Proof.
  unfold c_gt. rewrite b2z_z2b. unfold wifsignaled. cbv zeta.
  change 127 with (Z.of_N 127) at 1. rewrite land_of_N.
  pose proof (land127_bound w) as B.
  rewrite src_schar_cast by lia. reflexivity.
Qed.

Lemma src_wexitstatus_ne0 w : z2b (c_ne (Z.shiftr (Z.land (Z.of_N w) 65280) 8) 0) = negb (wexitstatus w =? 0)%N.
Proof.
  unfold c_ne. rewrite b2z_z2b. change 65280 with (Z.of_N 65280). rewrite land_of_N.
  change 8 with (Z.of_N 8). rewrite shiftr_of_N. change 0 with (Z.of_N 0). rewrite of_N_eqb. reflexivity.
Qed.

Lemma src_wtermsig w : Z.land (Z.of_N w) 127 = Z.of_N (wtermsig w).
Proof. change 127 with (Z.of_N 127). rewrite land_of_N. reflexivity. Qed.

(* ------------------------------------------------------------------------------------------------------------------
   2. the events of one failure category; the leaf SetTestFailureByStatusCode against set_failure_by_status
   ------------------------------------------------------------------------------------------------------------------ *)
Definition ev_giveup : cevent :=
  ("addFailure:Call to waitpid() failed with EINTR. Tried 30 times and giving up! Sometimes happens in debugger"%string, []).
Definition ev_waitfail : cevent := ("addFailure:Call to waitpid() failed"%string, []).
Definition ev_forkfail : cevent := ("addFailure:Call to fork() failed"%string, []).
Definition ev_kill (pid : Z) : cevent := ("kill"%string, [pid; 18]).

(* the event list by which the translated source records one failure of each category *)
Definition fail_events (f : failure) : list cevent :=
  match f with
  | FExit => [("SimpleString:Failed in separate process"%string, []); ("TestFailure"%string, []); ("addFailure"%string, [])]
  | FKilled s => [("SimpleString:Failed in separate process - killed by signal "%string, []);
                  ("StringFrom"%string, [Z.of_N s]); ("operator+="%string, []);
                  ("TestFailure"%string, []); ("addFailure"%string, [])]
  | FStopped => [("SimpleString:Stopped in separate process - continuing"%string, []); ("TestFailure"%string, []);
                 ("addFailure"%string, [])]
  | FFork => [ev_forkfail]
  | FEintr => [ev_giveup]
  | FWait => [ev_waitfail]
  | FCheck => []
  | FOther => []
  end.

(* the leaf tie: SetTestFailureByStatusCode(status) records exactly the model's failures, for EVERY word *)
Theorem leaf_SetTestFailureByStatusCode_tie : forall w : N,
  leaf_SetTestFailureByStatusCode (Z.of_N w) = flat_map fail_events (set_failure_by_status w).
Proof.
  intro w. unfold leaf_SetTestFailureByStatusCode, set_failure_by_status.
  rewrite src_wifsignaled, src_wifstopped.
  assert (E : z2b (c_land (c_eq (Z.land (Z.of_N w) 127) 0) (c_ne (Z.shiftr (Z.land (Z.of_N w) 65280) 8) 0))
              = wifexited w && negb (wexitstatus w =? 0)%N).
  { unfold c_land. rewrite src_wifexited. destruct (wifexited w); [|reflexivity].
    rewrite b2z_z2b. rewrite src_wexitstatus_ne0. reflexivity. }
  rewrite E. rewrite src_wtermsig.
  destruct (wifexited w && negb (wexitstatus w =? 0)%N); [reflexivity|].
  destruct (wifsignaled w); [reflexivity|].
  destruct (wifstopped w); reflexivity.
Qed.

(* classification of events *)
Definition is_kill (e : cevent) : bool := String.eqb (fst e) "kill".
Definition is_addFailure (e : cevent) : bool := String.prefix "addFailure" (fst e).
Definition count_addFailure (evs : list cevent) : nat := List.length (filter is_addFailure evs).

(* every model category produced by the loop is recorded by exactly one addFailure call and no kill *)
Lemma fail_events_one f : match f with FCheck | FOther => False | _ => True end ->
  count_addFailure (fail_events f) = 1%nat /\ filter is_kill (fail_events f) = [].
Proof. destruct f; intro H; try contradiction; split; reflexivity. Qed.

Lemma set_failure_cases w :
  set_failure_by_status w = [] \/ set_failure_by_status w = [FExit] \/
  set_failure_by_status w = [FKilled (wtermsig w)] \/ set_failure_by_status w = [FStopped].
Proof.
  unfold set_failure_by_status.
  destruct (wifexited w && negb (wexitstatus w =? 0)%N); [auto|].
  destruct (wifsignaled w); [auto|]. destruct (wifstopped w); auto.
Qed.

(* ------------------------------------------------------------------------------------------------------------------
   3. concretisation of the model's outcome stream; the expected events of a loop result
   ------------------------------------------------------------------------------------------------------------------ *)
Inductive is_conc (pid : Z) : wout -> Z * Z * Z -> Prop :=
| conc_eintr : forall st, is_conc pid WEintr (-1, st, 4)
| conc_err : forall st e, e <> 4 -> is_conc pid WErr (-1, st, e)
| conc_stat : forall w e, is_conc pid (WStat w) (pid, Z.of_N w, e).

Definition conc_wait (pid : Z) (o : wout) : Z * Z * Z :=
  match o with
  | WEintr => (-1, 0, 4)
  | WErr => (-1, 0, 5)
  | WStat w => (pid, Z.of_N w, 0)
  end.

Lemma conc_wait_is_conc pid o : is_conc pid o (conc_wait pid o).
Proof. destruct o; constructor. discriminate. Qed.
Lemma conc_waits_is_conc pid ws : Forall2 (is_conc pid) ws (map (conc_wait pid) ws).
Proof. induction ws; constructor; [apply conc_wait_is_conc | assumption]. Qed.

(* what one processed outcome appends (an interrupted wait that is retried appends nothing) *)
Definition out_events (pid : Z) (o : wout) : list cevent :=
  match o with
  | WEintr => []
  | WErr => [ev_waitfail]
  | WStat w => leaf_SetTestFailureByStatusCode (Z.of_N w) ++ (if wifstopped w then [ev_kill pid] else [])
  end.
(* the interrupted wait on which the loop gives up is the last processed one: its failure comes last *)
Definition end_events (e : ending) : list cevent := match e with EndGaveUp => [ev_giveup] | _ => [] end.

(* the model's loop result read as the expected event list: the processed outcomes are the first lr_calls of the stream *)
Definition events_of_loop (pid : Z) (res : loop_res) (ws : list wout) : list cevent :=
  flat_map (out_events pid) (firstn (lr_calls res) ws) ++ end_events (lr_end res).

Lemma events_of_loop_step pid fs c res o tl :
  events_of_loop pid (step_res fs c res) (o :: tl) = out_events pid o ++ events_of_loop pid res tl.
Proof. unfold events_of_loop. cbn [step_res lr_calls lr_end firstn flat_map]. rewrite app_assoc. reflexivity. Qed.

(* errno / status / retry counter after a run of waits *)
Definition errno_after (e0 : Z) (ts : list (Z * Z * Z)) : Z := fold_left (fun _ t => snd t) ts e0.
Definition status_after (s0 : Z) (ts : list (Z * Z * Z)) : Z := fold_left (fun _ t => snd (fst t)) ts s0.
Definition n_eintr (os : list wout) : N := N.of_nat (count_eintr os).

(* ------------------------------------------------------------------------------------------------------------------
   4. exact correspondence between the expected events and the model's accounting
   ------------------------------------------------------------------------------------------------------------------ *)
Lemma out_events_stat pid w :
  filter (fun e => negb (is_kill e)) (out_events pid (WStat w)) = flat_map fail_events (set_failure_by_status w) /\
  filter is_kill (out_events pid (WStat w)) = repeat (ev_kill pid) (if wifstopped w then 1 else 0)%nat /\
  count_addFailure (out_events pid (WStat w)) = List.length (set_failure_by_status w).
Proof.
  unfold out_events, count_addFailure. rewrite leaf_SetTestFailureByStatusCode_tie. rewrite !filter_app.
  destruct (set_failure_cases w) as [E|[E|[E|E]]]; rewrite E; destruct (wifstopped w); repeat split; reflexivity.
Qed.

Theorem events_of_loop_tie : forall ws r pid,
  let res := parent_loop r ws in
  let evs := events_of_loop pid res ws in
  filter (fun e => negb (is_kill e)) evs = flat_map fail_events (lr_fails res) /\
  filter is_kill evs = repeat (ev_kill pid) (lr_conts res) /\
  count_addFailure evs = List.length (lr_fails res) /\
  Forall (fun f => match f with FExit | FKilled _ | FStopped | FEintr | FWait => True | _ => False end) (lr_fails res).
Proof.
  induction ws as [|o tl IH]; intros r pid; cbv zeta; [repeat split; constructor|].
  destruct o as [| |w]; cbn [parent_loop].
  - destruct (gives_up r).
    + repeat split; try reflexivity. repeat constructor.
    + rewrite events_of_loop_step. cbn [out_events app step_res lr_fails lr_conts plus].
      exact (IH (r + 1)%N pid).
  - repeat split; try reflexivity. repeat constructor.
  - destruct (out_events_stat pid w) as [A [B C]].
    assert (D : Forall (fun f => match f with FExit | FKilled _ | FStopped | FEintr | FWait => True | _ => False end)
                       (set_failure_by_status w)).
    { destruct (set_failure_cases w) as [E|[E|[E|E]]]; rewrite E; repeat constructor. }
    destruct (wifexited w || wifsignaled w).
    + unfold events_of_loop. cbn [lr_calls lr_end lr_fails lr_conts firstn flat_map end_events].
      rewrite !app_nil_r. repeat split; assumption.
    + rewrite events_of_loop_step. cbn [step_res lr_fails lr_conts].
      destruct (IH r pid) as [A' [B' [C' D']]]. unfold count_addFailure in *.
      rewrite !filter_app, A, A', B, B', flat_map_app, !app_length, C, C', repeat_app.
      repeat split; try reflexivity. apply Forall_app. split; assumption.
Qed.

(* ------------------------------------------------------------------------------------------------------------------
   5. the retry counter: `amountOfRetries > 30` is the model's `gives_up` (bound and comparison regenerated in Gen_C11)
   ------------------------------------------------------------------------------------------------------------------ *)
Example regenerated_bound : (eintr_bound, eintr_bound_strict) = (30%N, true).
Proof. vm_compute. reflexivity. Qed.

Lemma gives_up_src r : z2b (c_gt (Z.of_N r) 30) = gives_up r.
Proof.
  unfold c_gt, gives_up, eintr_bound_strict, eintr_bound. rewrite b2z_z2b. cbv iota.
  destruct (Z.ltb_spec 30 (Z.of_N r)); destruct (N.ltb_spec 30 r); try reflexivity; lia.
Qed.

(* amountOfRetries++ on a size_t never wraps where the loop increments it *)
Lemma retries_incr_src r : gives_up r = false -> cw 64 false (Z.of_N r + 1) = Z.of_N (r + 1).
Proof.
  unfold gives_up, eintr_bound_strict, eintr_bound. cbv iota. intro H. apply N.ltb_ge in H.
  unfold cw. cbn [andb]. change (2 ^ 64) with 18446744073709551616. rewrite Z.mod_small by lia. lia.
Qed.

(* ------------------------------------------------------------------------------------------------------------------
   6. the translated wait loop
   ------------------------------------------------------------------------------------------------------------------ *)
Section Loop.
Variables (fuel0 : nat) (mem : memory) (forks counts : list Z) (shell result : ptr).

Local Notation L fuel pid evs waits e w st rz :=
  (src_runInSeparateProcess_loop1 fuel0 fuel mem forks counts shell result (-1) pid evs waits e w st rz).

Lemma step_eintr fuel pid evs st ts e0 w0 st0 rz :
  L (S fuel) pid evs ((-1, st, 4) :: ts) e0 w0 st0 rz =
  if z2b (c_gt rz 30) then Done (tt, mem, evs ++ [ev_giveup], forks, counts, ts, 4)
  else L fuel pid evs ts 4 (-1) st (cw 64 false (rz + 1)).
Proof.
  cbn [src_runInSeparateProcess_loop1].
  change (z2b (c_eq (-1) (-1))) with true. change (z2b (c_eq 4 4)) with true. cbv iota. reflexivity.
Qed.

Lemma step_err fuel pid evs st e ts e0 w0 st0 rz : e <> 4 ->
  L (S fuel) pid evs ((-1, st, e) :: ts) e0 w0 st0 rz = Done (tt, mem, evs ++ [ev_waitfail], forks, counts, ts, e).
Proof.
  intro H. cbn [src_runInSeparateProcess_loop1].
  change (z2b (c_eq (-1) (-1))) with true. cbv iota.
  assert (E : z2b (c_eq 4 e) = false).
  { unfold c_eq. rewrite b2z_z2b. apply Z.eqb_neq. congruence. }
  rewrite E. reflexivity.
Qed.

Lemma step_stat fuel pid evs w e ts e0 w0 st0 rz : pid <> -1 ->
  L (S fuel) pid evs ((pid, Z.of_N w, e) :: ts) e0 w0 st0 rz =
  let evs' := (evs ++ leaf_SetTestFailureByStatusCode (Z.of_N w)) ++ (if wifstopped w then [ev_kill pid] else []) in
  if wifexited w || wifsignaled w then Go (evs', ts, e, pid, Z.of_N w, rz)
  else L fuel pid evs' ts e pid (Z.of_N w) rz.
Proof.
  intro H. cbn [src_runInSeparateProcess_loop1].
  assert (E : z2b (c_eq pid (-1)) = false).
  { unfold c_eq. rewrite b2z_z2b. apply Z.eqb_neq. exact H. }
  rewrite !E.
  assert (X : forall b, z2b (c_lnot (b2z b)) = negb b) by (intros []; reflexivity).
  assert (NE : z2b (c_lnot (c_eq (Z.land (Z.of_N w) 127) 0)) = negb (wifexited w)).
  { rewrite <- src_wifexited. unfold c_eq. rewrite X, b2z_z2b. reflexivity. }
  assert (NS : z2b (c_lnot (c_gt (Z.shiftr (cw 8 true (cw 32 true (Z.land (Z.of_N w) 127 + 1))) 1) 0))
               = negb (wifsignaled w)).
  { rewrite <- src_wifsignaled. unfold c_gt. rewrite X, b2z_z2b. reflexivity. }
  rewrite !NE, !NS, src_wifstopped. cbv zeta. unfold ev_kill.
  destruct (wifstopped w); destruct (wifexited w); destruct (wifsignaled w); cbn [negb orb]; rewrite ?app_nil_r; reflexivity.
Qed.

(* what the loop must return on a concretised stream *)
Definition loop_expected (pid : Z) (r : N) (ws : list wout) (ts rest : list (Z * Z * Z)) (evs : list cevent) (e0 st0 : Z)
  : cres (unit * memory * list cevent * list Z * list Z * list (Z * Z * Z) * Z)
         (list cevent * list (Z * Z * Z) * Z * Z * Z * Z) :=
  let res := parent_loop r ws in
  let n := lr_calls res in
  let evs' := evs ++ events_of_loop pid res ws in
  let rem := skipn n ts ++ rest in
  let e' := errno_after e0 (firstn n ts) in
  match lr_end res with
  | EndReaped => Go (evs', rem, e', pid, status_after st0 (firstn n ts), Z.of_N (r + n_eintr (firstn n ws)))
  | _ => Done (tt, mem, evs', forks, counts, rem, e')
  end.

Lemma loop_expected_step pid r r' fs c o tl t ts rest evs e0 st0 :
  parent_loop r (o :: tl) = step_res fs c (parent_loop r' tl) ->
  (r + n_eintr [o] = r')%N ->
  loop_expected pid r (o :: tl) (t :: ts) rest evs e0 st0 =
  loop_expected pid r' tl ts rest (evs ++ out_events pid o) (snd t) (snd (fst t)).
Proof.
  intros E R. unfold loop_expected. rewrite E. rewrite events_of_loop_step.
  cbn [step_res lr_calls lr_end firstn skipn errno_after status_after fold_left].
  rewrite <- app_assoc.
  replace (r + n_eintr (o :: firstn (lr_calls (parent_loop r' tl)) tl))%N
    with (r' + n_eintr (firstn (lr_calls (parent_loop r' tl)) tl))%N; [reflexivity|].
  subst r'. unfold n_eintr, count_eintr. cbn [filter]. destruct (is_eintr o); cbn [List.length]; lia.
Qed.

Theorem src_wait_loop_spec : forall ws r pid ts rest fuel evs e0 w0 st0,
  pid <> -1 ->
  Forall2 (is_conc pid) ws ts ->
  lr_end (parent_loop r ws) <> EndStreamOut ->
  (List.length ws < fuel)%nat ->
  L fuel pid evs (ts ++ rest) e0 w0 st0 (Z.of_N r) = loop_expected pid r ws ts rest evs e0 st0.
Proof.
  induction ws as [|o tl IH]; intros r pid ts rest fuel evs e0 w0 st0 Hpid HC HE HF.
  { cbn [parent_loop lr_end] in HE. congruence. }
  inversion HC as [|o' t tl' ts' Hc HC' E1 E2]. subst o' tl' ts. clear HC.
  destruct fuel as [|fuel]; [cbn in HF; lia|]. cbn [List.length] in HF. apply Nat.succ_lt_mono in HF.
  cbn [app].
  inversion Hc as [st Eo Et | st e He Eo Et | w e Eo Et]; subst o t; clear Hc.
  - (* an interrupted wait *)
    rewrite step_eintr. rewrite gives_up_src.
    cbn [parent_loop] in HE.
    destruct (gives_up r) eqn:G.
    + unfold loop_expected. cbn [parent_loop]. rewrite G. reflexivity.
    + cbn [step_res lr_end] in HE.
      rewrite (retries_incr_src r G).
      rewrite (IH (r + 1)%N pid ts' rest fuel evs 4 (-1) st Hpid HC' HE HF).
      rewrite (loop_expected_step pid r (r + 1)%N [] 0%nat WEintr tl (-1, st, 4) ts' rest evs e0 st0).
      * cbn [out_events snd fst]. rewrite app_nil_r. reflexivity.
      * cbn [parent_loop]. rewrite G. reflexivity.
      * reflexivity.
  - (* a failing wait *)
    rewrite step_err by exact He. reflexivity.
  - (* a status *)
    rewrite step_stat by exact Hpid. cbv zeta.
    cbn [parent_loop] in HE. cbv zeta in HE.
    destruct (wifexited w || wifsignaled w) eqn:G.
    + unfold loop_expected. cbn [parent_loop]. cbv zeta. rewrite G.
      unfold events_of_loop.
      cbn [lr_calls lr_end firstn skipn flat_map end_events errno_after status_after fold_left snd fst n_eintr].
      rewrite !app_nil_r. unfold out_events. rewrite app_assoc.
      replace (r + n_eintr [WStat w])%N with r by (unfold n_eintr, count_eintr; cbn; lia). reflexivity.
    + cbn [step_res lr_end] in HE.
      rewrite (IH r pid ts' rest fuel _ e pid (Z.of_N w) Hpid HC' HE HF).
      rewrite (loop_expected_step pid r r (set_failure_by_status w) (if wifstopped w then 1 else 0)%nat
                 (WStat w) tl (pid, Z.of_N w, e) ts' rest evs e0 st0).
      * cbn [out_events snd fst]. rewrite app_assoc. reflexivity.
      * cbn [parent_loop]. cbv zeta. rewrite G. reflexivity.
      * unfold n_eintr, count_eintr. cbn. lia.
Qed.

End Loop.

(* the loop's verdict in words: Go exactly when the model reaped the child, Done when it gave up or the wait failed;
   exactly lr_calls triples are consumed and the rest of the stream is returned untouched *)
Corollary src_wait_loop_ends fuel0 mem forks counts shell result : forall ws r pid ts rest fuel evs e0 w0 st0,
  pid <> -1 -> Forall2 (is_conc pid) ws ts -> lr_end (parent_loop r ws) <> EndStreamOut -> (List.length ws < fuel)%nat ->
  let res := parent_loop r ws in
  let out := src_runInSeparateProcess_loop1 fuel0 fuel mem forks counts shell result (-1) pid evs (ts ++ rest) e0 w0 st0 (Z.of_N r) in
  let evs' := evs ++ events_of_loop pid res ws in
  let rem := skipn (lr_calls res) ts ++ rest in
  (lr_end res = EndReaped -> exists e' st' r', out = Go (evs', rem, e', pid, st', r')) /\
  (lr_end res = EndGaveUp \/ lr_end res = EndWaitErr -> exists e', out = Done (tt, mem, evs', forks, counts, rem, e')) /\
  filter is_kill (events_of_loop pid res ws) = repeat (ev_kill pid) (lr_conts res) /\
  List.length (skipn (lr_calls res) ts) = (List.length ts - lr_calls res)%nat.
Proof.
  intros ws r pid ts rest fuel evs e0 w0 st0 Hpid HC HE HF. cbv zeta.
  rewrite (src_wait_loop_spec fuel0 mem forks counts shell result ws r pid ts rest fuel evs e0 w0 st0 Hpid HC HE HF).
  unfold loop_expected.
  split; [|split; [|split]].
  - intro E. rewrite E. eauto.
  - intros [E|E]; rewrite E; eauto.
  - apply (events_of_loop_tie ws r pid).
  - apply skipn_length.
Qed.

(* ------------------------------------------------------------------------------------------------------------------
   7. the whole function: parent, fork failure, child
   ------------------------------------------------------------------------------------------------------------------ *)
Theorem src_runInSeparateProcess_parent_spec :
  forall ws pid ts rest fuel mem evs forks counts errno0 shell plugin result,
  pid > 0 ->
  Forall2 (is_conc pid) ws ts ->
  lr_end (parent_loop 0 ws) <> EndStreamOut ->
  (List.length ws < fuel)%nat ->
  let res := parent_loop 0 ws in
  src_runInSeparateProcess fuel mem evs (pid :: forks) counts (ts ++ rest) errno0 shell plugin result =
  FOk (tt, mem, evs ++ events_of_loop pid res ws, forks, counts, skipn (lr_calls res) ts ++ rest,
       errno_after errno0 (firstn (lr_calls res) ts)).
Proof.
  intros ws pid ts rest fuel mem evs forks counts errno0 shell plugin result Hpid HC HE HF. cbv zeta.
  unfold src_runInSeparateProcess. cbv beta iota zeta.
  change (cw 32 true (- 1)) with (-1).
  assert (E1 : z2b (c_eq pid (-1)) = false).
  { unfold c_eq. rewrite b2z_z2b. apply Z.eqb_neq. lia. }
  assert (E0 : z2b (c_eq pid 0) = false).
  { unfold c_eq. rewrite b2z_z2b. apply Z.eqb_neq. lia. }
  rewrite E1, E0.
  change 0 with (Z.of_N 0) at 3.
  rewrite (src_wait_loop_spec fuel mem forks counts shell result ws 0%N pid ts rest fuel evs errno0 0 0); try assumption; [|lia].
  unfold loop_expected.
  destruct (lr_end (parent_loop 0 ws)); reflexivity.
Qed.

(* the events of the parent branch against the model's accounting (run_test's item for a scripted / real child is
   item_of_loop of this loop result): the failures recorded are exactly lr_fails, category by category and in order
   (FExit, FKilled s with the signal number as the argument of StringFrom, FStopped through the leaf; FEintr, FWait by
   the addFailure calls of this function), the SIGCONTs sent are exactly lr_conts, the waits made exactly lr_calls *)
Theorem src_runInSeparateProcess_parent_model :
  forall ws pid ts rest fuel mem evs forks counts errno0 shell plugin result real,
  pid > 0 -> Forall2 (is_conc pid) ws ts -> lr_end (parent_loop 0 ws) <> EndStreamOut -> (List.length ws < fuel)%nat ->
  let it := item_of_loop real (parent_loop 0 ws) in
  exists new e',
    src_runInSeparateProcess fuel mem evs (pid :: forks) counts (ts ++ rest) errno0 shell plugin result =
      FOk (tt, mem, evs ++ new, forks, counts, skipn (i_calls it) ts ++ rest, e') /\
    filter (fun e => negb (is_kill e)) new = flat_map fail_events (i_fails it) /\
    count_addFailure new = List.length (i_fails it) /\
    filter is_kill new = repeat (ev_kill pid) (lr_conts (parent_loop 0 ws)) /\
    (real = false -> List.length (filter is_kill new) = i_conts it) /\
    Forall (fun f => match f with FExit | FKilled _ | FStopped | FEintr | FWait => True | _ => False end) (i_fails it).
Proof.
  intros ws pid ts rest fuel mem evs forks counts errno0 shell plugin result real Hpid HC HE HF. cbv zeta.
  destruct (events_of_loop_tie ws 0%N pid) as [A [B [C D]]]. cbv zeta in A, B, C, D.
  eexists. eexists. split.
  - apply (src_runInSeparateProcess_parent_spec ws pid ts rest fuel mem evs forks counts errno0 shell plugin result Hpid HC HE HF).
  - cbn [item_of_loop i_fails i_calls i_conts].
    repeat split; try assumption.
    intros ->. rewrite B. apply repeat_length.
Qed.

Theorem src_runInSeparateProcess_fork_failed_spec :
  forall fuel mem evs forks counts waits errno0 shell plugin result,
  src_runInSeparateProcess fuel mem evs (-1 :: forks) counts waits errno0 shell plugin result =
  FOk (tt, mem, evs ++ [("addFailure:Call to fork() failed"%string, [])], forks, counts, waits, errno0).
Proof. intros. reflexivity. Qed.

(* the model's item for a failed fork: the one failure FFork, no wait, nothing sent *)
Lemma fork_failed_model all_sep count ss :
  let it := run_test all_sep count (TScripted false ss) in
  flat_map fail_events (i_fails it) = [("addFailure:Call to fork() failed"%string, [])] /\
  i_calls it = 0%nat /\ i_conts it = 0%nat.
Proof. repeat split; reflexivity. Qed.

Theorem src_runInSeparateProcess_child_spec :
  forall fuel mem evs forks i f counts waits errno0 shell plugin result,
  src_runInSeparateProcess fuel mem evs (0 :: forks) (i :: f :: counts) waits errno0 shell plugin result =
  FOk (tt, mem, evs ++ [("runOneTestInCurrentProcess"%string, []); ("_exit"%string, [b2z (i <? f)])],
       forks, counts, waits, errno0).
Proof.
  intros. unfold src_runInSeparateProcess. cbv beta iota zeta.
  change (z2b (c_eq 0 (cw 32 true (- 1)))) with false. change (z2b (c_eq 0 0)) with true. cbv iota.
  unfold finish. rewrite <- app_assoc. reflexivity.
Qed.

(* the child's verdict is the model's child_final: a child that ran to the end with n new failures on top of `initial`
   exits with the status the model says *)
Definition exit_code (e : ev) : Z := match e with EvExit k => Z.of_N k | _ => -1 end.
Theorem src_runInSeparateProcess_child_model :
  forall (initial n : N) fuel mem evs forks counts waits errno0 shell plugin result,
  child_final initial (FateDone n) = EvExit (if (initial <? initial + n)%N then 1 else 0)%N /\
  src_runInSeparateProcess fuel mem evs (0 :: forks) (Z.of_N initial :: Z.of_N (initial + n) :: counts) waits errno0
    shell plugin result =
  FOk (tt, mem, evs ++ [("runOneTestInCurrentProcess"%string, []);
                        ("_exit"%string, [exit_code (child_final initial (FateDone n))])],
       forks, counts, waits, errno0).
Proof.
  intros. split; [reflexivity|]. rewrite src_runInSeparateProcess_child_spec.
  cbn [child_final exit_code].
  replace (Z.of_N initial <? Z.of_N (initial + n)) with (initial <? initial + n)%N.
  - destruct (initial <? initial + n)%N; reflexivity.
  - destruct (N.ltb_spec initial (initial + n)); destruct (Z.ltb_spec (Z.of_N initial) (Z.of_N (initial + n)));
      try reflexivity; lia.
Qed.

(* ------------------------------------------------------------------------------------------------------------------
   8. run_test's scripted tests: the stream `map conc ss ++ [WStat 0]` always ends the loop
   ------------------------------------------------------------------------------------------------------------------ *)
Theorem src_run_test_scripted :
  forall ss all_sep count pid ts rest fuel mem evs forks counts errno0 shell plugin result,
  pid > 0 ->
  let ws := (map conc ss ++ [WStat 0])%list in
  Forall2 (is_conc pid) ws ts -> (List.length ws < fuel)%nat ->
  let it := run_test all_sep count (TScripted true ss) in
  exists new e',
    src_runInSeparateProcess fuel mem evs (pid :: forks) counts (ts ++ rest) errno0 shell plugin result =
      FOk (tt, mem, evs ++ new, forks, counts, skipn (i_calls it) ts ++ rest, e') /\
    filter (fun e => negb (is_kill e)) new = flat_map fail_events (i_fails it) /\
    count_addFailure new = List.length (i_fails it) /\
    List.length (filter is_kill new) = i_conts it.
Proof.
  intros ss all_sep count pid ts rest fuel mem evs forks counts errno0 shell plugin result Hpid ws HC HF. cbv zeta.
  assert (HE : lr_end (parent_loop 0 ws) <> EndStreamOut).
  { apply (terminal_ends (map conc ss) (WStat 0) [] 0%N). reflexivity. }
  destruct (src_runInSeparateProcess_parent_model ws pid ts rest fuel mem evs forks counts errno0 shell plugin result false
              Hpid HC HE HF) as [new [e' [A [B [C [_ [D _]]]]]]].
  exists new, e'. cbn [run_test]. repeat split; try assumption. apply D. reflexivity.
Qed.

(* ------------------------------------------------------------------------------------------------------------------
   9. the texts of the events are the model's rendered messages (bytes re-read from the source in Gen_C11)
   ------------------------------------------------------------------------------------------------------------------ *)
Fixpoint bytes (s : string) : list N :=
  match s with EmptyString => [] | String a tl => Ascii.N_of_ascii a :: bytes tl end.
Example text_exit : bytes "Failed in separate process" = render FExit. Proof. vm_compute. reflexivity. Qed.
Example text_killed : forall s, (bytes "Failed in separate process - killed by signal " ++ decimal s)%list = render (FKilled s).
Proof. intro s. reflexivity. Qed.
Example text_stopped : bytes "Stopped in separate process - continuing" = render FStopped. Proof. vm_compute. reflexivity. Qed.
Example text_fork : bytes "Call to fork() failed" = render FFork. Proof. vm_compute. reflexivity. Qed.
Example text_eintr :
  bytes "Call to waitpid() failed with EINTR. Tried 30 times and giving up! Sometimes happens in debugger" = render FEintr.
Proof. vm_compute. reflexivity. Qed.
Example text_wait : bytes "Call to waitpid() failed" = render FWait. Proof. vm_compute. reflexivity. Qed.

(* ------------------------------------------------------------------------------------------------------------------
   10. non-vacuity: the translated function evaluated on concrete streams
   ------------------------------------------------------------------------------------------------------------------ *)
Definition ex_mem : memory := [].
(* two EINTRs, a stop (SIGSTOP = 19: word 19*256+127 = 4991), then death by signal 11; one more triple left untouched *)
Definition ex_ws1 : list wout := [WEintr; WEintr; WStat 4991; WStat 11].
Example ex_parent_model : parent_loop 0 ex_ws1 =
  {| lr_fails := [FStopped; FKilled 11]; lr_calls := 4; lr_conts := 1; lr_end := EndReaped |}.
Proof. vm_compute. reflexivity. Qed.
Example ex_parent :
  src_runInSeparateProcess 10 ex_mem [] [4242; 77] [5] (map (conc_wait 4242) ex_ws1 ++ [(9, 9, 9)]) 0 Null Null Null =
  FOk (tt, ex_mem,
       [("SimpleString:Stopped in separate process - continuing"%string, []); ("TestFailure"%string, []);
        ("addFailure"%string, []); ("kill"%string, [4242; 18]);
        ("SimpleString:Failed in separate process - killed by signal "%string, []); ("StringFrom"%string, [11]);
        ("operator+="%string, []); ("TestFailure"%string, []); ("addFailure"%string, [])],
       [77], [5], [(9, 9, 9)], 0).
Proof. vm_compute. reflexivity. Qed.
Example ex_parent_events :
  events_of_loop 4242 (parent_loop 0 ex_ws1) ex_ws1 =
  (fail_events FStopped ++ [ev_kill 4242] ++ fail_events (FKilled 11))%list.
Proof. vm_compute. reflexivity. Qed.

(* 32 EINTRs: 31 are retried (retries 0..30), the 32nd (retries = 31 > 30) gives up; a 33rd triple is left untouched *)
Definition ex_ws2 : list wout := repeat WEintr 32.
Example ex_giveup_model : parent_loop 0 (ex_ws2 ++ [WStat 0]) =
  {| lr_fails := [FEintr]; lr_calls := 32; lr_conts := 0; lr_end := EndGaveUp |}.
Proof. vm_compute. reflexivity. Qed.
Example ex_giveup :
  src_runInSeparateProcess 40 ex_mem [] [4242] [] (map (conc_wait 4242) ex_ws2 ++ [(4242, 0, 0)]) 0 Null Null Null =
  FOk (tt, ex_mem, [ev_giveup], [], [], [(4242, 0, 0)], 4).
Proof. vm_compute. reflexivity. Qed.
(* 31 EINTRs then a clean exit: all retried, no failure *)
Example ex_31_eintr :
  src_runInSeparateProcess 40 ex_mem [] [4242] [] (map (conc_wait 4242) (repeat WEintr 31 ++ [WStat 0])) 0 Null Null Null =
  FOk (tt, ex_mem, [], [], [], [], 0).
Proof. vm_compute. reflexivity. Qed.
(* a failing wait *)
Example ex_waiterr :
  src_runInSeparateProcess 5 ex_mem [] [4242] [] (map (conc_wait 4242) [WEintr; WErr; WStat 0]) 0 Null Null Null =
  FOk (tt, ex_mem, [ev_waitfail], [], [], [(4242, 0, 0)], 5).
Proof. vm_compute. reflexivity. Qed.
(* fork failure: no wait call (the stream is returned whole) *)
Example ex_fork_failed :
  src_runInSeparateProcess 0 ex_mem [] [-1] [3; 4] [(1, 2, 3)] 7 Null Null Null =
  FOk (tt, ex_mem, [("addFailure:Call to fork() failed"%string, [])], [], [3; 4], [(1, 2, 3)], 7).
Proof. vm_compute. reflexivity. Qed.
(* the child: one new failure -> _exit(1); none -> _exit(0) *)
Example ex_child_failed :
  src_runInSeparateProcess 0 ex_mem [] [0] [3; 4] [(1, 2, 3)] 7 Null Null Null =
  FOk (tt, ex_mem, [("runOneTestInCurrentProcess"%string, []); ("_exit"%string, [1])], [], [], [(1, 2, 3)], 7).
Proof. vm_compute. reflexivity. Qed.
Example ex_child_passed :
  src_runInSeparateProcess 0 ex_mem [] [0] [3; 3] [] 7 Null Null Null =
  FOk (tt, ex_mem, [("runOneTestInCurrentProcess"%string, []); ("_exit"%string, [0])], [], [], [], 7).
Proof. vm_compute. reflexivity. Qed.
(* out of oracle: not a behaviour of the code, reported as Oob (why the theorems exclude EndStreamOut) *)
Example ex_stream_out :
  src_runInSeparateProcess 5 ex_mem [] [4242] [] (map (conc_wait 4242) [WEintr; WStat 4991]) 0 Null Null Null = FOob.
Proof. vm_compute. reflexivity. Qed.
