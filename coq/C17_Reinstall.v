(* C17 -- plugin objects that are removed and installed again: what the chain level says, that the links follow, which
   histories are outside the property (an object that IS in the chain installed once more: the chain becomes circular) *)
From Coq Require Import NArith Arith Bool List Lia Permutation.
From CppUVerif Require Import gen.Gen_Common C17_Model C17_Proofs C17_Links C17_Chain C17_Run.
Import ListNotations.

(* ================================================================= the chain level *)
(* installing an object that is outside the chain: it is the new head (most recently installed first), with the flags it
   carries; nothing else moves *)
Lemma reinstall_head r i p : find_id i (r_out r) = Some p ->
  r_chain (reg_act remove_by_name r (AReinstall i)) = p :: r_chain r /\ p_id p = i /\
  r_out (reg_act remove_by_name r (AReinstall i)) = take_id i (r_out r).
Proof.
  intro Ef. destruct (find_id_some _ _ _ Ef) as [_ Eid]. cbn [reg_act]. rewrite Ef. cbn [reg_set r_chain r_out]. repeat split. exact Eid.
Qed.

Lemma find_id_out r p : wf r -> In p (r_out r) -> find_id (p_id p) (r_out r) = Some p.
Proof.
  intros Hw Hin. apply find_id_in; [|exact Hin]. pose proof (wf_all_nodup _ Hw) as Hn. unfold all in Hn. rewrite map_app in Hn.
  apply (nodup_app_tail _ _ Hn).
Qed.

(* a plugin removed by name -- wherever it stood: head, middle, tail -- exists on, outside the chain, and can be installed again *)
Lemma removed_can_return r n p : wf r -> In p (r_chain r) -> p_name p = n -> is_runner p = false ->
  In p (r_out (reg_act without r (ARemove n))) /\ reinst_ok (reg_act without r (ARemove n)) (p_id p) = true.
Proof.
  intros Hw Hin En Hr.
  assert (Ho : In p (r_out (reg_act without r (ARemove n)))).
  { cbn [reg_act reg_set r_out]. apply in_or_app. left. apply filter_In. split; [exact Hin|]. unfold named. rewrite En. apply N.eqb_refl. }
  split; [exact Ho|]. unfold reinst_ok. rewrite (find_id_out _ p (wf_act r (ARemove n) Hw) Ho), Hr. reflexivity.
Qed.
(* ... and so can every plugin that resetPlugins dropped *)
Lemma reset_can_return r p : wf r -> In p (r_chain r) -> is_runner p = false ->
  reinst_ok (reg_act without r AReset) (p_id p) = true.
Proof.
  intros Hw Hin Hr.
  assert (Ho : In p (r_out (reg_act without r AReset))) by (cbn [reg_act reg_set r_out]; apply in_or_app; left; exact Hin).
  unfold reinst_ok. rewrite (find_id_out _ p (wf_act r AReset Hw) Ho), Hr. reflexivity.
Qed.

(* an enabled recording plugin that is installed again logs first from the next test on *)
Lemma reinstall_logs_first r i p : find_id i (r_out r) = Some p -> p_on p = true -> logs p = true ->
  log_ids (r_chain (reg_act remove_by_name r (AReinstall i))) = i :: log_ids (r_chain r).
Proof.
  intros Ef Hon Hl. destruct (reinstall_head r i p Ef) as [E1 [E2 _]]. rewrite E1. unfold log_ids. cbn [filter]. rewrite Hon, Hl. cbn [andb map].
  rewrite E2. reflexivity.
Qed.

(* several objects handed back one after the other: the chain lists them most recently installed first, in front of the
   chain as it was *)
Lemma find_id_take i a : i <> a -> forall c, find_id i (take_id a c) = find_id i c.
Proof.
  intros Hne c. unfold find_id, take_id. induction c as [|p c IH]; [reflexivity|]. cbn [filter find].
  destruct (Nat.eqb_spec (p_id p) a) as [Ea|Na]; cbn [negb].
  - destruct (Nat.eqb_spec (p_id p) i) as [Ei|_]; [exfalso; apply Hne; rewrite <- Ei; exact Ea|exact IH].
  - cbn [find]. destruct (Nat.eqb (p_id p) i); [reflexivity|exact IH].
Qed.

Lemma reinstall_order_gen l : forall rT, NoDup l -> (forall i, In i l -> exists p, find_id i (r_out (fst rT)) = Some p) ->
  map p_id (r_chain (fst (tb_acts rT (map AReinstall l)))) = rev l ++ map p_id (r_chain (fst rT)).
Proof.
  induction l as [|a l IH]; intros rT Hnd Hin; [reflexivity|]. inversion Hnd as [|x xs Hna Hnd']; subst.
  destruct (Hin a (or_introl eq_refl)) as [p Ef]. destruct (find_id_some _ _ _ Ef) as [_ Eid].
  cbn [map]. change (tb_acts rT (AReinstall a :: map AReinstall l)) with (tb_acts (tb_step rT (AReinstall a)) (map AReinstall l)).
  rewrite IH; [|exact Hnd'|].
  - cbn [tb_step fst reg_act]. rewrite Ef. cbn [reg_set r_chain map rev]. rewrite Eid, <- app_assoc. reflexivity.
  - intros i Hi. destruct (Hin i (or_intror Hi)) as [q Eq]. exists q. cbn [tb_step fst reg_act]. rewrite Ef. cbn [reg_set r_out].
    rewrite find_id_take; [exact Eq|]. intro E. subst i. contradiction.
Qed.
Lemma reinstall_order l r T : NoDup l -> (forall i, In i l -> exists p, find_id i (r_out r) = Some p) ->
  map p_id (r_chain (fst (tb_acts (r, T) (map AReinstall l)))) = rev l ++ map p_id (r_chain r).
Proof. intros H1 H2. apply (reinstall_order_gen l (r, T) H1 H2). Qed.

Lemma links_follow_registry l r T : wf r -> linked r -> acts_ok r l = true ->
  linked (fst (tb_acts (r, T) l)) /\ wf (fst (tb_acts (r, T) l)).
Proof. intros Hw Hl Ho. split; [exact (linked_acts l r T Hw Hl Ho)|exact (wf_acts l (r, T) Hw)]. Qed.

(* ================================================================= the walks over the links *)
Definition on_of (c : chain) (i : nat) : bool := match find_id i c with Some p => p_on p | None => false end.

Lemma filter_on_of c0 : NoDup (map p_id c0) -> forall c, incl c c0 -> filter (on_of c0) (map p_id c) = map p_id (filter p_on c).
Proof.
  intros Hnd c. induction c as [|p c IH]; intro Hs; [reflexivity|]. cbn [map filter].
  assert (E : on_of c0 (p_id p) = p_on p) by (unfold on_of; rewrite (find_id_in c0 p Hnd (Hs p (or_introl eq_refl))); reflexivity).
  rewrite E, IH by (intros q Hq; apply Hs; right; exact Hq). destruct (p_on p); reflexivity.
Qed.

(* TestPlugin::runAllPreTestAction / runAllPostTestAction over the links of a registry whose links are the chain: they come
   to an end, the pre actions reach exactly the enabled plugins of the chain, head first, the post actions the exact reverse;
   every enabled plugin of the chain exactly once, a disabled one or one outside the chain never *)
Lemma link_walks r : wf r -> linked r ->
  l_pre (remove_fuel r) (l_objs (r_lnk r)) (on_of (r_chain r)) (l_first (r_lnk r)) = Some (pre_all (r_chain r)) /\
  l_post (remove_fuel r) (l_objs (r_lnk r)) (on_of (r_chain r)) (l_first (r_lnk r)) = Some (rev (pre_all (r_chain r))) /\
  (forall p, In p (r_chain r) -> p_on p = true -> count_occ Nat.eq_dec (pre_all (r_chain r)) (p_id p) = 1) /\
  (forall i, (forall p, In p (r_chain r) -> p_on p = true -> p_id p <> i) -> count_occ Nat.eq_dec (pre_all (r_chain r)) i = 0).
Proof.
  intros Hw [P _].
  assert (Hl : length (map p_id (r_chain r)) < remove_fuel r) by (rewrite map_length; unfold remove_fuel; pose proof (chain_short r Hw); lia).
  assert (E : filter (on_of (r_chain r)) (map p_id (r_chain r)) = pre_all (r_chain r)).
  { rewrite (filter_on_of _ (wf_nodup _ Hw) _ (incl_refl _)), pre_all_enabled. reflexivity. }
  split; [rewrite (path_pre _ _ _ _ _ P Hl), E; reflexivity|]. split; [rewrite (path_post _ _ _ _ _ P Hl), E; reflexivity|].
  rewrite pre_all_enabled. unfold enabled_ids. split.
  - intros p Hp Hon. apply NoDup_count_occ'; [apply nodup_map_filter; apply wf_nodup; exact Hw|].
    apply in_map. apply filter_In. split; assumption.
  - intros i Hi. apply count_occ_not_In. intro Hin. apply in_map_iff in Hin. destruct Hin as [p [Ep Hp]]. apply filter_In in Hp.
    apply (Hi p (proj1 Hp) (proj2 Hp) Ep).
Qed.

(* ================================================================= examples: re-installing from every position *)
(* chain 2 -> 1 -> 0 (names 3, 2, 1; object 1 is disabled while it is outside); each object is removed by name and installed
   again, one of them twice, one after resetPlugins; a test after every step *)
Definition ex_re : list op :=
  [OInstall 1%N KPlain; OInstall 2%N KPlain; OInstall 3%N KPlain;
   ORemove 2%N; OTest quiet; OReinstall 1; OTest quiet;            (* the middle one: 1 -> 2 -> 0 *)
   ORemove 3%N; OReinstall 2; OTest quiet;                          (* the (old) head: 2 -> 1 -> 0 *)
   ORemove 1%N; ODisable 0; OReinstall 0; OEnable 0; OTest quiet;   (* the tail: 0 -> 2 -> 1, disabled and enabled again *)
   ORemove 1%N; OReinstall 0; OTest quiet;                          (* the same object a second time *)
   OReset; OReinstall 1; OInstall 4%N KPlain; OReinstall 2; OTest quiet].   (* after resetPlugins, a new object in between *)
Example ex_re_valid : valid ex_re = true.
Proof. vm_compute. reflexivity. Qed.
Example ex_re_obs : run ex_re =
  [IChain [2; 0]; ITest false [2; 0] [0; 2] init_mem; IChain [1; 2; 0]; ITest false [1; 2; 0] [0; 2; 1] init_mem;
   IChain [1; 0]; IChain [2; 1; 0]; ITest false [2; 1; 0] [0; 1; 2] init_mem;
   IChain [2; 1]; IChain [0; 2; 1]; ITest false [0; 2; 1] [1; 2; 0] init_mem;
   IChain [2; 1]; IChain [0; 2; 1]; ITest false [0; 2; 1] [1; 2; 0] init_mem;
   IChain []; IChain [1]; IChain [2; 3; 1]; ITest false [2; 3; 1] [1; 3; 2] init_mem].
Proof. vm_compute. reflexivity. Qed.
(* inside a run: the first test removes the middle plugin, the third installs the same object again *)
Definition ex_re_run : list op :=
  [OInstall 1%N KPlain; OInstall 2%N KPlain; OInstall 3%N KPlain;
   ORun [body [XA (ARemove 2%N)]; quiet; body [XA (AReinstall 1)]; quiet]].
Example ex_re_run_valid : valid ex_re_run = true.
Proof. vm_compute. reflexivity. Qed.
Example ex_re_run_obs : run ex_re_run =
  [ITest false [2; 0] [0; 2] init_mem; ITest false [2; 0] [0; 2] init_mem; ITest false [2; 0] [0; 2] init_mem;
   ITest false [1; 2; 0] [0; 2; 1] init_mem; IChain [1; 2; 0]].
Proof. vm_compute. reflexivity. Qed.

Definition ex_reg (l : list act) : reg := fst (tb_acts (init_reg, []) l).
Example ex_reinstall_order : map p_id (r_chain (ex_reg ([AInstall 1%N KPlain; AInstall 2%N KPlain; AInstall 3%N KPlain; AReset] ++ map AReinstall [1; 2; 0]))) = [0; 2; 1].
Proof. vm_compute. reflexivity. Qed.
Example ex_reinstall_hyp : find_id 1 (r_out (ex_reg [AInstall 1%N KPlain; AInstall 2%N KPlain; AInstall 3%N KPlain; ARemove 2%N])) = Some (mkp 1 2%N KPlain RRec).
Proof. vm_compute. reflexivity. Qed.
Example ex_wf_linked : wf (ex_reg [AInstall 1%N KPlain; AInstall 2%N KPlain; ARemove 1%N; AReinstall 0]) /\
                       linked (ex_reg [AInstall 1%N KPlain; AInstall 2%N KPlain; ARemove 1%N; AReinstall 0]).
Proof.
  split; [apply (wf_acts _ (init_reg, [])); exact wf_init|].
  apply linked_acts; [exact wf_init|exact linked_init|vm_compute; reflexivity].
Qed.

(* ================================================================= outside the property: an object of the chain installed once more *)
(* the chain 1 -> 0; object 0 (the tail) is handed to installPlugin again: 0 -> 1 -> 0 -> ...; the chain level keeps [1; 0] *)
Definition ex_twice : reg := ex_reg [AInstall 1%N KPlain; AInstall 2%N KPlain; AReinstall 0].
Example ex_twice_chain : map p_id (r_chain ex_twice) = [1; 0].
Proof. vm_compute. reflexivity. Qed.
Example ex_twice_links : nxt (l_objs (r_lnk ex_twice)) 0 = Some 1 /\ nxt (l_objs (r_lnk ex_twice)) 1 = Some 0 /\ l_first (r_lnk ex_twice) = Some 0.
Proof. vm_compute. repeat split. Qed.
Lemma twice_read : forall fuel, l_read fuel (l_objs (r_lnk ex_twice)) (Some 0) = None /\ l_read fuel (l_objs (r_lnk ex_twice)) (Some 1) = None.
Proof.
  induction fuel as [|k [I0 I1]]; [split; reflexivity|]. cbn [l_read].
  change (nxt (l_objs (r_lnk ex_twice)) 0) with (Some 1). change (nxt (l_objs (r_lnk ex_twice)) 1) with (Some 0). rewrite I0, I1. split; reflexivity.
Qed.
Lemma twice_pre on : forall fuel, l_pre fuel (l_objs (r_lnk ex_twice)) on (Some 0) = None /\ l_pre fuel (l_objs (r_lnk ex_twice)) on (Some 1) = None.
Proof.
  induction fuel as [|k [I0 I1]]; [split; reflexivity|]. cbn [l_pre].
  change (nxt (l_objs (r_lnk ex_twice)) 0) with (Some 1). change (nxt (l_objs (r_lnk ex_twice)) 1) with (Some 0). rewrite I0, I1. split; reflexivity.
Qed.

Lemma twice_never_ends : forall fuel on,
  l_read fuel (l_objs (r_lnk ex_twice)) (l_first (r_lnk ex_twice)) = None /\
  l_pre fuel (l_objs (r_lnk ex_twice)) on (l_first (r_lnk ex_twice)) = None.
Proof. intros fuel on. split; [exact (proj1 (twice_read fuel))|exact (proj1 (twice_pre on fuel))]. Qed.

(* "whatever object installPlugin is handed, the links stay the chain" is false: `valid` excludes such sessions *)
Definition install_any_object_stmt : Prop :=
  forall r i, wf r -> linked r -> i < r_next r -> linked (reg_act remove_by_name r (AReinstall i)).
Lemma install_any_object_refuted : ~ install_any_object_stmt.
Proof.
  intro H.
  assert (Hw : wf (ex_reg [AInstall 1%N KPlain; AInstall 2%N KPlain])) by (apply (wf_acts _ (init_reg, [])); exact wf_init).
  assert (Hl : linked (ex_reg [AInstall 1%N KPlain; AInstall 2%N KPlain])) by (apply linked_acts; [exact wf_init|exact linked_init|reflexivity]).
  specialize (H _ 0 Hw Hl). destruct H as [P _]; [vm_compute; lia|].
  apply (path_read _ _ _ 3) in P; [|vm_compute; lia]. vm_compute in P. discriminate P.
Qed.
Example ex_twice_not_valid : valid [OInstall 1%N KPlain; OInstall 2%N KPlain; OReinstall 0] = false /\
                             valid [OInstall 1%N KPlain; OReinstall 0] = false /\ valid [OReinstall 0] = false.
Proof. vm_compute. repeat split. Qed.
(* nor may the command line runner's own plugin (destroyed when the runner returns) be installed again *)
Example ex_runner_gone : valid [ORunner 1 [quiet]; OReinstall 0] = false.
Proof. vm_compute. reflexivity. Qed.
