(* C18 -- the invariant that ties the cache's lists to the allocator's books and to the buffers in use *)
From Coq Require Import NArith Arith Bool List Lia.
From CppUVerif Require Import gen.Gen_C18 C18_Model C18_Lists.
Import ListNotations.
Local Open Scope N_scope.

(* ---------------------------------------------------------------- the generated table *)
Lemma bound_has_class : existsb (fun s => cached_bound <=? s) class_sizes = true.
Proof. reflexivity. Qed.
Fixpoint nodupb (l : list N) : bool := match l with [] => true | x :: r => negb (memN x r) && nodupb r end.
Lemma nodupb_NoDup : forall l, nodupb l = true -> NoDup l.
Proof.
  induction l as [|x r IH]; intros H; [constructor|]. simpl in H. apply andb_true_iff in H. destruct H as [H1 H2].
  constructor; [|apply IH; exact H2]. apply memN_false. destruct (memN x r); [discriminate | reflexivity].
Qed.
Lemma classes_distinct : NoDup class_sizes.
Proof. apply nodupb_NoDup. reflexivity. Qed.
Lemma hdr_small : block_hdr_size <= cached_bound.
Proof. apply N.leb_le. reflexivity. Qed.

(* ---------------------------------------------------------------- counting *)
Definition cnt (l : list N) (id : N) : nat := count_occ N.eq_dec l id.
Lemma cnt_app : forall a b id, cnt (a ++ b) id = (cnt a id + cnt b id)%nat.
Proof. intros. apply count_occ_app. Qed.
Lemma cnt_nil : forall id, cnt [] id = O. Proof. reflexivity. Qed.
Lemma cnt_cons : forall x l id, cnt (x :: l) id = ((if N.eq_dec x id then 1 else 0) + cnt l id)%nat.
Proof. intros. unfold cnt. simpl. destruct (N.eq_dec x id); reflexivity. Qed.
Lemma cnt_In : forall l id, In id l <-> (cnt l id > 0)%nat.
Proof. intros. apply count_occ_In. Qed.
Lemma cnt_notIn : forall l id, ~ In id l <-> cnt l id = O.
Proof. intros. apply count_occ_not_In. Qed.
Lemma cnt_bids_cons : forall b l id, cnt (bids (b :: l)) id = (cnt [b_hdr b; b_mem b] id + cnt (bids l) id)%nat.
Proof. intros. change (bids (b :: l)) with ([b_hdr b; b_mem b] ++ bids l). apply cnt_app. Qed.
Lemma cnt_bids_app : forall a b id, cnt (bids (a ++ b)) id = (cnt (bids a) id + cnt (bids b) id)%nat.
Proof. intros. rewrite bids_app. apply cnt_app. Qed.
Lemma flat_map_mid : forall (l1 : list node) nd l2,
  flat_map node_ids (l1 ++ nd :: l2) = flat_map node_ids l1 ++ node_ids nd ++ flat_map node_ids l2.
Proof. intros. rewrite flat_map_app. reflexivity. Qed.

(* ---------------------------------------------------------------- the invariant *)
Definition blk_ok (sizes : list N) (a : N) (b : block) : Prop :=
  szof sizes (b_hdr b) = Some block_hdr_size /\ szof sizes (b_mem b) = Some a.
Definition node_ok (sizes : list N) (seen : list (N * option N)) (nd : node) : Prop :=
  forall b, In b (n_free nd ++ n_used nd) -> blk_ok sizes (n_size nd) b /\ seen_cls seen (b_mem b) = Some (Some (n_size nd)).
Definition non_ok (sizes : list N) (seen : list (N * option N)) (b : block) : Prop :=
  exists a, cached_bound < a /\ blk_ok sizes a b /\ seen_cls seen (b_mem b) = Some None.
Definition in_used (c : list node) (id sz : N) : Prop :=
  exists nd, In nd c /\ n_size nd = sz /\ In id (mems (n_used nd)).
Definition in_free (c : list node) (id : N) : Prop := exists nd, In nd c /\ In id (mems (n_free nd)).
Definition live_loc (c : list node) (non : list block) (e : N * N * N) : Prop :=
  snd (fst e) = 0 /\ match cls (snd e) with Some sz => in_used c (fst (fst e)) sz | None => In (fst (fst e)) (mems non) end.

Record R (st : state) (s : sstate) : Prop := {
  r_sizes : map n_size (s_cache st) = class_sizes;
  r_next : s_next st = N.of_nat (length (fst (a_bk s)));
  r_warn : s_warned st = a_warned s;
  r_nodup : forall id, (cnt (all_ids st) id <= 1)%nat;
  r_ids : forall id, In id (all_ids st) -> 0 < id /\ ~ In id (snd (a_bk s));
  r_out : forall id, 0 < id -> id < s_next st -> In id (all_ids st) \/ In id (snd (a_bk s));
  r_freed : forall id, In id (snd (a_bk s)) -> id < s_next st;
  r_fnd : NoDup (snd (a_bk s));
  r_zero : szof (fst (a_bk s)) 0 = Some node_array_size /\ ~ In 0 (snd (a_bk s));
  r_nodes : Forall (node_ok (fst (a_bk s)) (a_seen s)) (s_cache st);
  r_non : Forall (non_ok (fst (a_bk s)) (a_seen s)) (s_non st);
  r_live_a : forall e, In e (a_live s) -> live_loc (s_cache st) (s_non st) e;
  r_live_nd : NoDup (ids_of (a_live s));
  r_live_b : forall nd id, In nd (s_cache st) -> In id (mems (n_used nd)) ->
             exists req, In (id, 0, req) (a_live s) /\ cls req = Some (n_size nd);
  r_live_c : forall id, In id (mems (s_non st)) -> exists req, In (id, 0, req) (a_live s) /\ cls req = None;
  r_seen : forall id c, In (id, c) (a_seen s) ->
           In id (snd (a_bk s)) \/ in_free (s_cache st) id \/ In id (ids_of (a_live s))
}.

(* ---------------------------------------------------------------- class lookup *)
Lemma class_lookup : forall c n, map n_size c = class_sizes -> is_cached n = true ->
  exists l1 nd l2, c = l1 ++ nd :: l2 /\ nth (index_for c n) c dnode = nd /\
    (forall x, set_nth (index_for c n) x c = l1 ++ x :: l2) /\ n <= n_size nd /\ cls n = Some (n_size nd).
Proof.
  intros c n Hs Hc. unfold index_for. destruct (index_from 0 c n) as [i|] eqn:E.
  - apply index_from_spec in E. rewrite Nat.sub_0_r in E. destruct E as [_ [H2 [H3 H4]]].
    destruct (set_nth_split i c H2) as [l1 [l2 [H5 H6]]].
    exists l1, (nth i c dnode), l2. repeat split; auto.
    unfold cls. unfold is_cached in Hc. rewrite Hc. rewrite <- Hs. exact H4.
  - exfalso. pose proof bound_has_class as Hb. apply existsb_exists in Hb. destruct Hb as [s [Hs1 Hs2]].
    rewrite <- Hs in Hs1. apply in_map_iff in Hs1. destruct Hs1 as [nd [Hn1 Hn2]].
    pose proof (index_from_none _ _ _ E nd Hn2) as Hlt. unfold is_cached in Hc.
    apply N.leb_le in Hc. apply N.leb_le in Hs2. lia.
Qed.
Lemma cls_not_cached : forall n, is_cached n = false -> cls n = None.
Proof. intros n H. unfold cls. unfold is_cached in H. rewrite H. reflexivity. Qed.
Lemma cls_some_cached : forall n sz, cls n = Some sz -> n <= cached_bound /\ n <= sz.
Proof.
  intros n sz H. unfold cls in H. destruct (n <=? cached_bound) eqn:E; [|discriminate].
  apply N.leb_le in E. apply find_some in H. destruct H as [_ H]. apply N.leb_le in H. auto.
Qed.
Lemma same_size_same_node : forall (c : list node) x y, NoDup (map n_size c) -> In x c -> In y c -> n_size x = n_size y -> x = y.
Proof.
  induction c as [|h r IH]; intros x y Hn Hx Hy He; [destruct Hx|].
  simpl in Hn. inversion Hn as [|? ? Hh Hr]; subst.
  destruct Hx as [<-|Hx], Hy as [<-|Hy]; auto.
  - elim Hh. rewrite He. apply in_map. exact Hy.
  - elim Hh. rewrite <- He. apply in_map. exact Hx.
Qed.

(* ---------------------------------------------------------------- the books under the cache's calls *)
Lemma apply_evs_app : forall caller prot l1 l2 bk,
  apply_evs caller prot bk (l1 ++ l2) =
  match apply_evs caller prot bk l1 with Some bk1 => apply_evs caller prot bk1 l2 | None => None end.
Proof.
  induction l1 as [|e r IH]; intros l2 bk; simpl; [reflexivity|].
  destruct (apply_ev caller prot bk e); [apply IH | reflexivity].
Qed.

Lemma apply_create : forall caller prot sizes freed sz,
  apply_evs caller prot (sizes, freed)
    [EA (N.of_nat (length sizes)) block_hdr_size; EA (N.of_nat (length sizes) + 1) sz]
  = Some ((sizes ++ [block_hdr_size]) ++ [sz], freed).
Proof.
  intros. simpl. rewrite N.eqb_refl. simpl.
  replace (N.of_nat (length sizes) + 1 =? N.of_nat (length (sizes ++ [block_hdr_size]))) with true; [reflexivity|].
  symmetry. apply N.eqb_eq. rewrite app_length. simpl. lia.
Qed.

Lemma size_ok_same : forall a c, size_ok a a c = true.
Proof. intros. unfold size_ok. rewrite N.eqb_refl. reflexivity. Qed.

Lemma apply_ef_ok : forall caller prot sizes freed id sz a,
  szof sizes id = Some a -> ~ In id freed -> ~ In id prot -> size_ok a sz caller = true ->
  apply_ev caller prot (sizes, freed) (EF id sz) = Some (sizes, id :: freed).
Proof.
  intros caller prot sizes freed id sz a Ha Hf Hp Hok. unfold apply_ev. cbn [fst snd]. rewrite Ha.
  apply memN_false in Hf. apply memN_false in Hp. rewrite Hf, Hp, Hok. reflexivity.
Qed.

(* destroySimpleStringMemoryBlockList on the books: every block of the list goes back, nothing else changes *)
Lemma apply_destroy_list : forall l caller prot sizes freed szarg,
  (forall b, In b l -> szof sizes (b_hdr b) = Some block_hdr_size /\
                       exists a, szof sizes (b_mem b) = Some a /\ size_ok a szarg caller = true) ->
  (forall id, (cnt (bids l) id <= 1)%nat) ->
  (forall id, In id (bids l) -> ~ In id freed /\ ~ In id prot) ->
  exists freed', apply_evs caller prot (sizes, freed) (destroy_list szarg l) = Some (sizes, freed') /\
                 (forall id, In id freed' <-> In id freed \/ In id (bids l)) /\ (NoDup freed -> NoDup freed').
Proof.
  induction l as [|b r IH]; intros caller prot sizes freed szarg Hs Hn Hf.
  - exists freed. simpl. split; [reflexivity|]. split; [intros; tauto | auto].
  - assert (Hb : In b (b :: r)) by (left; reflexivity).
    destruct (Hs b Hb) as [Hh [a [Ha Hok]]].
    assert (Hne : b_hdr b <> b_mem b).
    { intros E. specialize (Hn (b_mem b)). rewrite cnt_bids_cons, !cnt_cons, E in Hn.
      destruct (N.eq_dec (b_mem b) (b_mem b)); [simpl in Hn; lia | congruence]. }
    assert (Hm : ~ In (b_mem b) freed /\ ~ In (b_mem b) prot) by (apply Hf; simpl; auto).
    assert (Hhd : ~ In (b_hdr b) freed /\ ~ In (b_hdr b) prot) by (apply Hf; simpl; auto).
    destruct (IH caller prot sizes (b_hdr b :: b_mem b :: freed) szarg) as [freed' [H1 [H2 H3]]].
    + intros x Hx. apply Hs. right; exact Hx.
    + intros id. specialize (Hn id). rewrite cnt_bids_cons in Hn. lia.
    + intros id Hid.
      assert (Hc : (cnt (bids (b :: r)) id <= 1)%nat) by apply Hn.
      rewrite cnt_bids_cons, !cnt_cons in Hc. apply cnt_In in Hid.
      destruct (Hf id) as [Hf1 Hf2]; [simpl; right; right; apply cnt_In; exact Hid|].
      split; [|exact Hf2]. simpl. intros [E|[E|E]]; [| |auto].
      * destruct (N.eq_dec (b_hdr b) id); [simpl in Hc; lia | congruence].
      * destruct (N.eq_dec (b_mem b) id); [destruct (N.eq_dec (b_hdr b) id); simpl in Hc; lia | congruence].
    + exists freed'. split; [|split].
      * change (destroy_list szarg (b :: r)) with (EF (b_mem b) szarg :: EF (b_hdr b) block_hdr_size :: destroy_list szarg r).
        cbn [apply_evs].
        rewrite (apply_ef_ok caller prot sizes freed (b_mem b) szarg a); [|auto|tauto|tauto|auto].
        rewrite (apply_ef_ok caller prot sizes (b_mem b :: freed) (b_hdr b) block_hdr_size block_hdr_size);
          [exact H1 | auto | simpl; intros [E|E]; [congruence | tauto] | tauto | apply size_ok_same].
      * intros id. rewrite H2. simpl. tauto.
      * intros Hnd. apply H3. constructor; [simpl; intros [E|E]; [congruence | tauto]|].
        constructor; [tauto | exact Hnd].
Qed.
