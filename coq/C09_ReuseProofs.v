(* C09 -- re-used value objects: every read and both comparisons are functions of the LAST store.
   The cell keeps the stale bytes of the earlier stores (they are really there: ex_stale_bytes_kept); a setter writes the tag and
   the member the tag names, a getter reads the member the tag names (store_decode) -- so nothing of the earlier stores is read. *)
From Coq Require Import ZArith Bool List Lia.
From CppUVerif Require Import lib.CInt lib.Dbl lib.Str C09_Model C09_Proofs C09_AliasProofs C09_Access C09_AccessProofs C09_Reuse.
Import ListNotations.
Local Open Scope Z_scope.

Lemma pow2_pos bits : 0 <= bits -> 0 < 2 ^ bits.
Proof. intro H. apply Z.pow_pos_nonneg; lia. Qed.

Lemma lowb_putb bits w x : 0 <= bits -> lowb bits (putb bits w x) = x mod 2 ^ bits.
Proof.
  intro H. pose proof (pow2_pos bits H) as Hp. unfold lowb, putb.
  rewrite Z.add_comm, Z.mod_add by lia. apply Z.mod_mod. lia.
Qed.

Lemma width_nonneg t : 0 <= width t.
Proof. destruct t; cbn; lia. Qed.

Lemma cast_mod t z : cast t (z mod 2 ^ width t) = cast t z.
Proof.
  unfold cast. rewrite Z.mod_mod; [reflexivity|]. pose proof (pow2_pos (width t) (width_nonneg t)). lia.
Qed.

(* the member written is the member read: the integer comes back whatever the word held *)
Lemma member_putb t w z : in_range t z = true -> member t (putb (width t) w z) = z.
Proof.
  intro H. unfold member. rewrite lowb_putb by apply width_nonneg. rewrite cast_mod. apply cast_id. exact H.
Qed.

Lemma u64_mod a : is_u64 a = true -> a mod 2 ^ 64 = a.
Proof.
  unfold is_u64. intro H. apply andb_true_iff in H. destruct H as [H1 H2].
  apply Z.leb_le in H1. apply Z.ltb_lt in H2. change (2 ^ 64) with 18446744073709551616. apply Z.mod_small. lia.
Qed.

Lemma low64_putb w a : is_u64 a = true -> lowb 64 (putb 64 w a) = a.
Proof. intro H. rewrite lowb_putb by lia. apply u64_mod. exact H. Qed.

(* ---- one store, then any read: what is decoded is what was stored, whatever the object held before ---- *)
Lemma store_decode h c s : c_valid s = true -> decode h (cell_store c s) = cabs h s.
Proof.
  intro Hv. destruct s as [b|t z|b tl|a|a|a|a|a n]; cbn [c_valid] in Hv;
    unfold decode; cbn [cell_store with_w0 k_tag k_w0 k_w1 k_size cabs].
  - rewrite lowb_putb by lia. destruct b; reflexivity.
  - rewrite (member_putb t (k_w0 c) z Hv). reflexivity.
  - apply andb_true_iff in Hv. destruct Hv as [H1 H2]. rewrite !low64_putb by assumption. reflexivity.
  - rewrite !low64_putb by assumption. reflexivity.
  - rewrite !low64_putb by assumption. reflexivity.
  - rewrite !low64_putb by assumption. reflexivity.
  - rewrite !low64_putb by assumption. reflexivity.
  - apply andb_true_iff in Hv. destruct Hv as [H1 H2]. rewrite !low64_putb by assumption. reflexivity.
Qed.

(* any number of earlier stores into any object: the read sees the last store only *)
Lemma cell_reads_last_store h c pre s :
  c_valid s = true -> decode h (cell_store (cell_after c pre) s) = cabs h s.
Proof. intro H. apply store_decode. exact H. Qed.

Lemma cell_history_irrelevant h c c' pre pre' s :
  c_valid s = true ->
  decode h (cell_store (cell_after c pre) s) = decode h (cell_store (cell_after c' pre') s).
Proof. intro H. rewrite !cell_reads_last_store by exact H. reflexivity. Qed.

(* the integer clause on a re-used object: a getter hands back exactly the LAST stored integer, or fails *)
Lemma reuse_getter_exact h c pre t z g z' :
  in_range t z = true -> get g (decode h (cell_store (cell_after c pre) (CInt t z))) = Some z' -> z' = z.
Proof.
  intros Hr H. rewrite cell_reads_last_store in H by exact Hr. cbn [cabs] in H. exact (getter_exact g t z z' Hr H).
Qed.

Lemma reuse_getter_total_on_fit h c pre t z g :
  in_range t z = true -> accepts g t = true -> in_range (gty g) z = true ->
  get g (decode h (cell_store (cell_after c pre) (CInt t z))) = Some z.
Proof.
  intros Hr Ha Hf. rewrite cell_reads_last_store by exact Hr. cbn [cabs]. exact (getter_total_on_fit g t z Hr Ha Hf).
Qed.

(* a non-integer stored last never reads back as a number, whatever integer lay there before *)
Lemma reuse_non_integer_fails h c pre s g :
  c_valid s = true -> (forall t z, s <> CInt t z) -> get g (decode h (cell_store (cell_after c pre) s)) = None.
Proof.
  intros Hv Hn. rewrite cell_reads_last_store by exact Hv. apply get_non_int.
  intros t z. destruct s; cbn [cabs]; try discriminate. intro H. exact (Hn t0 z0 eq_refl).
Qed.

Lemma cabs_valid h s : c_valid s = true -> valid (cabs h s) = true.
Proof. destruct s; cbn [cabs valid c_valid]; intro H; try reflexivity. exact H. Qed.

(* equality of two re-used objects is the mathematical answer for their last stores, both ways *)
Lemma reuse_equals_math h ca cb pa pb sa sb e :
  c_valid sa = true -> c_valid sb = true -> math_equal (cabs h sa) (cabs h sb) = Some e ->
  equals (decode h (cell_store (cell_after ca pa) sa)) (decode h (cell_store (cell_after cb pb) sb)) = e.
Proof.
  intros Ha Hb He. rewrite !cell_reads_last_store by assumption.
  exact (equals_math _ _ e (cabs_valid h sa Ha) (cabs_valid h sb Hb) He).
Qed.

Lemma reuse_int_equal_iff h ca cb pa pb t1 z1 t2 z2 :
  in_range t1 z1 = true -> in_range t2 z2 = true ->
  equals (decode h (cell_store (cell_after ca pa) (CInt t1 z1))) (decode h (cell_store (cell_after cb pb) (CInt t2 z2))) = (z1 =? z2)
  /\ equals (decode h (cell_store (cell_after cb pb) (CInt t2 z2))) (decode h (cell_store (cell_after ca pa) (CInt t1 z1))) = (z1 =? z2).
Proof.
  intros H1 H2. rewrite !cell_reads_last_store by assumption. cbn [cabs]. split.
  - exact (int_equals_math t1 t2 z1 z2 H1 H2).
  - rewrite Z.eqb_sym. exact (int_equals_math t2 t1 z2 z1 H2 H1).
Qed.

(* ---- the red-team getter (C09-3, round 4): exact on a cleared new object, a different number on a re-used one ---- *)
Definition wide_member_read_stmt : Prop :=
  forall h pre s z', c_valid s = true ->
    get_ullong_wide h (cell_store (cell_after cell_zero pre) s) = Some z' -> getter_ok (cabs h s) (Some z') = true.
Lemma wide_member_read_refuted : ~ wide_member_read_stmt.
Proof.
  intro H. specialize (H (fun _ => []) [CInt TULong 4294967303] (CInt TUInt 7) 4294967303 eq_refl eq_refl). discriminate H.
Qed.
(* why the project's tests (new objects only) do not see it *)
Lemma wide_member_read_exact_on_new h s z' :
  c_valid s = true -> get_ullong_wide h (cell_store cell_zero s) = Some z' -> getter_ok (cabs h s) (Some z') = true.
Proof.
  intros Hv H.
  assert (Hd : get_ullong (decode h (cell_store cell_zero s)) = Some z' -> getter_ok (cabs h s) (Some z') = true).
  { rewrite store_decode by exact Hv. intro H'. unfold getter_ok.
    destruct s as [b|t z|b tl|a|a|a|a|a n]; cbn [cabs] in *; try discriminate H'.
    rewrite (getter_exact GULLong t z z' Hv H'). apply Z.eqb_refl. }
  destruct s as [b|t z|b tl|a|a|a|a|a n]; try exact (Hd H).
  destruct t; try exact (Hd H).
  (* unsigned int on a cleared object: the upper half is zero, the 8-byte read gives the same number *)
  cbn [c_valid] in Hv. apply in_range_iff in Hv. cbn [lo hi] in Hv.
  unfold get_ullong_wide in H. cbn [cell_store with_w0 k_tag k_w0] in H. inversion H as [H']. clear H.
  cbn [cabs getter_ok]. apply Z.eqb_eq.
  unfold member, lowb, putb, cell_zero, cell_new. cbn [k_w0 width].
  change (2 ^ 32) with 4294967296. change (2 ^ 64) with 18446744073709551616.
  change ((0 / 4294967296 * 4294967296 + 0 mod 4294967296) / 4294967296 * 4294967296) with 0.
  rewrite Z.add_0_l. rewrite (Z.mod_small z 4294967296) by lia. rewrite (Z.mod_small z 18446744073709551616) by lia.
  apply cast_id'. cbn [lo hi]. lia.
Qed.

(* ---- the layout the executable model uses: the i-th payload of the scenario in an allocation of its own ---- *)
Lemma heap_of_addr l i : heap_of l (addr_of i) = payload_bytes (nth i l (SBool false)).
Proof.
  unfold heap_of, addr_of. replace (heap_base + 256 * Z.of_nat i - heap_base) with (Z.of_nat i * 256) by lia.
  rewrite Z.div_mul by lia. rewrite Nat2Z.id. reflexivity.
Qed.

Lemma addr_of_nonzero i : (addr_of i =? 0) = false.
Proof. apply Z.eqb_neq. unfold addr_of, heap_base. lia. Qed.

Lemma place_abs l i s : nth_error l i = Some s -> cabs (heap_of l) (place i s) = abs s.
Proof.
  intro H. pose proof (nth_error_nth l i (SBool false) H) as Hn.
  destruct s as [b|t z|b tl|[st|]|a|a|a|m]; cbn [place cabs abs]; try reflexivity.
  - rewrite addr_of_nonzero, heap_of_addr, Hn. reflexivity.
  - rewrite heap_of_addr, Hn. cbn [payload_bytes]. rewrite Nat2Z.id, firstn_all. reflexivity.
Qed.

Lemma place_valid i s : Z.of_nat i < 4294967296 -> s_valid s = true -> c_valid (place i s) = true.
Proof.
  intros Hi H. destruct s as [b|t z|b tl|[st|]|a|a|a|m]; cbn [place c_valid s_valid] in *; try exact H; try reflexivity.
  - unfold is_u64, addr_of, heap_base. apply andb_true_iff. split; [apply Z.leb_le | apply Z.ltb_lt]; lia.
  - apply andb_true_iff. split; [|apply Z.leb_le; lia].
    unfold is_u64, addr_of, heap_base. apply andb_true_iff. split; [apply Z.leb_le | apply Z.ltb_lt]; lia.
Qed.

Lemma nth_error_mid {A} (l1 : list A) x l2 : nth_error (l1 ++ x :: l2) (length l1) = Some x.
Proof. rewrite nth_error_app2 by lia. rewrite Nat.sub_diag. reflexivity. Qed.

Lemma ru_objects_last r : nth_error (ru_objects r) (length (ru_before r)) = Some (ru_last r).
Proof. unfold ru_objects. apply nth_error_mid. Qed.

Lemma ru_objects_other r :
  nth_error (ru_objects r) (S (length (ru_before r)) + length (ru_obefore r)) = Some (ru_other r).
Proof.
  unfold ru_objects.
  replace (ru_before r ++ ru_last r :: ru_obefore r ++ [ru_other r])
    with ((ru_before r ++ ru_last r :: ru_obefore r) ++ ru_other r :: []) by (rewrite <- app_assoc; reflexivity).
  replace (S (length (ru_before r)) + length (ru_obefore r))%nat with (length (ru_before r ++ ru_last r :: ru_obefore r)).
  - apply nth_error_mid.
  - rewrite app_length. cbn [length]. lia.
Qed.

Lemma forallb_last {A} (p : A -> bool) l x : forallb p (l ++ [x]) = true -> p x = true.
Proof. rewrite forallb_app. cbn [forallb]. intro H. apply andb_true_iff in H. destruct H as [_ H]. rewrite andb_true_r in H. exact H. Qed.

Lemma ru_valid_parts r :
  ru_valid r = true ->
  s_valid (ru_last r) = true /\ s_valid (ru_other r) = true /\ Z.of_nat (length (ru_objects r)) < 4294967296.
Proof.
  unfold ru_valid. intro H.
  apply andb_true_iff in H. destruct H as [H Hn].
  apply andb_true_iff in H. destruct H as [H Hb].
  apply andb_true_iff in H. destruct H as [_ Ha].
  apply forallb_last in Ha. apply andb_true_iff in Ha. destruct Ha as [Ha _].
  apply forallb_last in Hb. apply Z.ltb_lt in Hn. auto.
Qed.

Lemma ru_objects_length r :
  length (ru_objects r) = (S (S (length (ru_before r) + length (ru_obefore r))))%nat.
Proof. unfold ru_objects. rewrite app_length. cbn [length]. rewrite app_length. cbn [length]. lia. Qed.

(* the run on the cells (stale bytes and all) IS the run on the abstract state *)
Lemma ru_decode_a r : ru_valid r = true -> decode (heap_of (ru_objects r)) (ru_cell_a r) = abs (ru_last r).
Proof.
  intro Hv. destruct (ru_valid_parts r Hv) as [Hl [_ Hn]]. rewrite ru_objects_length in Hn.
  unfold ru_cell_a. rewrite cell_reads_last_store by (apply place_valid; [lia | exact Hl]).
  apply place_abs. apply ru_objects_last.
Qed.

Lemma ru_decode_b r : ru_valid r = true -> decode (heap_of (ru_objects r)) (ru_cell_b r) = abs (ru_other r).
Proof.
  intro Hv. destruct (ru_valid_parts r Hv) as [_ [Ho Hn]]. rewrite ru_objects_length in Hn.
  unfold ru_cell_b. cbv zeta. rewrite cell_reads_last_store by (apply place_valid; [lia | exact Ho]).
  apply place_abs. apply ru_objects_other.
Qed.

Lemma ru_run_refines r : ru_valid r = true -> ru_run r = ru_run_abs r.
Proof. intro Hv. unfold ru_run, ru_run_abs. cbv zeta. rewrite (ru_decode_a r Hv), (ru_decode_b r Hv). reflexivity. Qed.

(* two scenarios that differ in the EARLIER stores only are answered alike *)
Lemma ru_history_irrelevant r r' :
  ru_valid r = true -> ru_valid r' = true ->
  ru_fam r = ru_fam r' -> ru_last r = ru_last r' -> ru_other r = ru_other r' -> ru_run r = ru_run r'.
Proof.
  intros Hv Hv' Hf Hl Ho. rewrite (ru_run_refines r Hv), (ru_run_refines r' Hv'). unfold ru_run_abs. rewrite Hf, Hl, Ho. reflexivity.
Qed.

(* ---- the oracle accepts the model's observation ---- *)
Lemma abs_valid s : s_valid s = true -> valid (abs s) = true.
Proof. destruct s; cbn [abs valid s_valid]; intro H; try reflexivity. exact H. Qed.

Lemma read_ok_none v a : read_ok (Some v) a None = true.
Proof. destruct a; reflexivity. Qed.

Lemma forallb_combine_map {A B} (p : A -> B -> bool) (g : A -> B) l :
  (forall a, p a (g a) = true) -> forallb (fun q => p (fst q) (snd q)) (combine l (map g l)) = true.
Proof. intro H. induction l as [|a l IH]; cbn [map combine forallb fst snd]; [reflexivity|]. rewrite H, IH. reflexivity. Qed.

Lemma ru_abs_meets_spec r : ru_valid r = true -> ru_spec r (ru_run_abs r) = true.
Proof.
  intro Hv. destruct (ru_valid_parts r Hv) as [Hl [Ho _]].
  pose proof (abs_valid _ Hl) as Va. pose proof (abs_valid _ Ho) as Vb.
  unfold ru_spec, ru_run_abs, ru_obs. cbv zeta. cbn [q_ab q_ba q_get].
  assert (H1 : eq_ok (math_equal (abs (ru_last r)) (abs (ru_other r))) (equals (abs (ru_last r)) (abs (ru_other r))) = true).
  { unfold eq_ok. destruct (math_equal (abs (ru_last r)) (abs (ru_other r))) eqn:E; [|reflexivity].
    rewrite (equals_math _ _ b Va Vb E). apply eqb_reflx. }
  assert (H2 : eq_ok (math_equal (abs (ru_other r)) (abs (ru_last r))) (equals (abs (ru_other r)) (abs (ru_last r))) = true).
  { unfold eq_ok. destruct (math_equal (abs (ru_other r)) (abs (ru_last r))) eqn:E; [|reflexivity].
    rewrite (equals_math _ _ b Vb Va E). apply eqb_reflx. }
  rewrite H1, H2, map_length. cbn [all_accs length Nat.eqb andb].
  apply (forallb_combine_map (fun a res => read_ok (Some (abs (ru_last r))) a res)).
  intro a. destruct (offers (ru_fam r) a); [|apply read_ok_none].
  apply (read_meets_spec (ru_fam r) a (Some (abs (ru_last r))) (RInt 0)). exact Va.
Qed.

Lemma ru_run_meets_spec r : ru_valid r = true -> ru_spec r (ru_run r) = true.
Proof. intro Hv. rewrite (ru_run_refines r Hv). exact (ru_abs_meets_spec r Hv). Qed.

Lemma z_run_meets_spec s : z_valid s = true -> z_spec s (z_run s) = true.
Proof.
  destruct s as [s|r]; cbn [z_valid z_run z_spec]; intro H.
  - exact (x_run_meets_spec s H).
  - exact (ru_run_meets_spec r H).
Qed.

(* the spec never looks at the earlier stores *)
Lemma ru_spec_last_only r r' o :
  ru_last r = ru_last r' -> ru_other r = ru_other r' -> ru_spec r o = ru_spec r' o.
Proof. intros Hl Ho. unfold ru_spec. rewrite Hl, Ho. reflexivity. Qed.

(* ---- non-vacuity ---- *)
(* the stale bytes are really in the model's state: 7u stored over 2^32+7 leaves the upper half where it was ... *)
Example ex_stale_bytes_kept :
  k_w0 (cell_after cell_zero [CInt TULong 4294967303; CInt TUInt 7]) = 4294967303
  /\ k_w0 (cell_after cell_zero [CInt TLLong (-1); CInt TUInt 4294967295]) = 18446744073709551615
  /\ k_w0 (cell_after cell_zero [CPtr 105553116266512; CBool true]) = 105553116266497.
Proof. repeat split; reflexivity. Qed.
(* ... and no read sees it; the red-team getter does *)
Example ex_reuse_reads :
  let c := cell_after cell_zero [CInt TULong 4294967303; CInt TUInt 7] in
  get GULLong (decode (fun _ => []) c) = Some 7 /\ get GULong (decode (fun _ => []) c) = Some 7
  /\ get GInt (decode (fun _ => []) c) = None /\ get_ullong_wide (fun _ => []) c = Some 4294967303.
Proof. repeat split; reflexivity. Qed.
Example ex_reuse_valid :
  let r := {| ru_box := BReturn; ru_fam := FActual; ru_before := [SInt TULLong 18446744069414584320; SStr (Some [97%N])];
              ru_last := SInt TUInt 5; ru_obefore := [SDbl 4609434218613702656 0]; ru_other := SInt TLLong 5 |} in
  ru_valid r = true /\ q_ab (ru_run r) = true /\ q_ba (ru_run r) = true
  /\ nth 6 (q_get (ru_run r)) None = Some (RInt 5) /\ nth 1 (q_get (ru_run r)) None = None.
Proof. vm_compute. repeat split; reflexivity. Qed.
Example ex_reuse_strings :
  let r := {| ru_box := BNamed; ru_fam := FNamed; ru_before := [SInt TLLong (-1)]; ru_last := SStr (Some [97%N; 98%N]);
              ru_obefore := [SMem [1%N; 2%N; 3%N]]; ru_other := SStr (Some [97%N; 98%N; 0%N; 99%N]) |} in
  ru_valid r = true /\ q_ab (ru_run r) = true /\ nth 8 (q_get (ru_run r)) None = Some (RStr (Some [97%N; 98%N])).
Proof. vm_compute. repeat split; reflexivity. Qed.
