(* C11 -- real children waited for through the REAL fork / waitpid implementations under a process-level configuration of the
   program (SIGCHLD ignored / SA_NOCLDWAIT / a handler that reaps first / a handler that only counts, other children of the
   process ending meanwhile, signals interrupting the wait):  whatever the wait answers, only "exited with status 0" lets a
   test pass; a child that did not end with exit status 0 is never recorded as passed; a wait that fails because the child
   was taken away is a failure of the test; a wrapper that turns the failing wait into a clean status is refuted. *)
From Coq Require Import NArith ZArith List Bool Arith Lia ZifyBool.
From CppUVerif Require Import gen.Gen_C11 lib.Str C11_Model C11_Words C11_Proofs C11_Loop C11_Compose C11_Passes.
Import ListNotations.
Local Open Scope N_scope.

(* ---- 1. the loop on ANY list of answers (any result, any status word, no well-formedness asked) ---- *)
Definition clean_exit (o : wout) : bool :=
  match o with WStat w => wifexited w && (wexitstatus w =? 0) | _ => false end.
(* an answer that is consumed without a failure and without ending the wait: an interrupted wait within the bound, or a word
   of no class (0xffff "continued", never reported without WCONTINUED) *)
Definition silent (o : wout) : bool :=
  match o with
  | WEintr => true
  | WErr => false
  | WStat w => negb (wifexited w) && negb (wifsignaled w) && negb (wifstopped w)
  end.

Lemma only_clean_exit_passes : forall ws r,
  lr_end (parent_loop r ws) <> EndStreamOut -> lr_fails (parent_loop r ws) = [] ->
  exists pre o post, ws = pre ++ o :: post /\ forallb silent pre = true /\ clean_exit o = true /\
                     lr_end (parent_loop r ws) = EndReaped /\ lr_calls (parent_loop r ws) = S (length pre).
Proof.
  induction ws as [|o tl IH]; intros r E F; [simpl in E; congruence|].
  destruct o as [| |w]; cbn [parent_loop] in *.
  - destruct (gives_up r); [discriminate|]. cbn [step_res lr_end lr_fails app] in E, F.
    destruct (IH (r + 1) E F) as [pre [o [post [-> [S [C [EN CA]]]]]]].
    exists (WEintr :: pre), o, post. cbn [step_res lr_end lr_calls length forallb silent app andb]. rewrite EN, CA. repeat split; assumption.
  - discriminate.
  - destruct (wifexited w || wifsignaled w) eqn:G.
    + cbn [lr_fails] in F. exists [], (WStat w), tl. cbn [app length forallb lr_end lr_calls clean_exit].
      repeat split. unfold set_failure_by_status in F.
      destruct (wifexited w) eqn:X; destruct (wexitstatus w =? 0) eqn:Z; cbn [andb negb] in *; try reflexivity; try discriminate.
      * cbn [orb] in G. rewrite G in F. discriminate.
      * cbn [orb] in G. rewrite G in F. discriminate.
    + cbn [step_res lr_end lr_fails] in E, F. apply app_eq_nil in F. destruct F as [F1 F2].
      destruct (IH r E F2) as [pre [o [post [-> [S [C [EN CA]]]]]]].
      exists (WStat w :: pre), o, post. cbn [step_res lr_end lr_calls length forallb silent app]. rewrite EN, CA, S.
      apply orb_false_iff in G. destruct G as [G1 G2]. rewrite G1, G2. cbn [negb andb].
      unfold set_failure_by_status in F1. rewrite G1, G2 in F1. cbn [andb] in F1.
      destruct (wifstopped w); [discriminate|]. repeat split; assumption.
Qed.

(* every answer other than "exited with 0" yields a failure: if no answer of the list is a clean exit, the test has a failure *)
Lemma every_other_answer_fails ws r :
  forallb (fun o => negb (clean_exit o)) ws = true -> lr_end (parent_loop r ws) <> EndStreamOut ->
  lr_fails (parent_loop r ws) <> [].
Proof.
  intros N E F. destruct (only_clean_exit_passes ws r E F) as [pre [o [post [-> [_ [C _]]]]]].
  rewrite forallb_app in N. apply andb_prop in N. destruct N as [_ N]. cbn in N. rewrite C in N. discriminate.
Qed.

(* the error answer in particular, behind any number of tolerated interruptions and reported stops: exactly one more failure *)
Lemma echild_is_a_failure n (stops : list N) : (n <= tolerated)%nat -> forallb (fun s => s <? 256) stops = true ->
  let lr := parent_loop 0 (repeat WEintr n ++ map (fun s => WStat (encode (EvStop s))) stops ++ [WErr]) in
  lr_fails lr = map (fun _ => FStopped) stops ++ [FWait] /\ lr_calls lr = (n + length stops + 1)%nat /\ lr_end lr = EndWaitErr.
Proof.
  intros L HS. cbv zeta.
  assert (ST : forall r, let lr := parent_loop r (map (fun s => WStat (encode (EvStop s))) stops ++ [WErr]) in
          lr_fails lr = map (fun _ => FStopped) stops ++ [FWait] /\ lr_calls lr = (length stops + 1)%nat /\ lr_end lr = EndWaitErr).
  { induction stops as [|s tl IH]; intro r; [repeat split|].
    cbn in HS. apply andb_prop in HS. destruct HS as [S1 S2]. cbn [map app]. cbv zeta.
    rewrite (loop_step_ev r (EvStop s) _ S1). destruct (IH S2 r) as [I1 [I2 I3]]. unfold step_res. cbn [lr_fails lr_calls lr_end length].
    rewrite I1, I2, I3. repeat split. }
  assert (EI : forall k r, (k <= budget_of r)%nat -> forall tl,
          parent_loop r (repeat WEintr k ++ tl) =
          {| lr_fails := lr_fails (parent_loop (r + N.of_nat k) tl); lr_calls := (k + lr_calls (parent_loop (r + N.of_nat k) tl))%nat;
             lr_conts := lr_conts (parent_loop (r + N.of_nat k) tl); lr_end := lr_end (parent_loop (r + N.of_nat k) tl) |}).
  { induction k as [|k IH]; intros r B tl.
    - cbn [repeat app]. replace (r + N.of_nat 0) with r by lia. destruct (parent_loop r tl); reflexivity.
    - cbn [repeat app parent_loop]. rewrite gives_up_budget. destruct (budget_of r) as [|b] eqn:BB; [lia|]. cbn [Nat.eqb].
      rewrite (IH (r + 1)) by (rewrite (budget_succ _ _ BB); lia).
      replace (r + 1 + N.of_nat k) with (r + N.of_nat (S k)) by lia. unfold step_res. cbn. reflexivity. }
  rewrite (EI n 0) by (rewrite budget_0; exact L). cbn [lr_fails lr_calls lr_end].
  destruct (ST (0 + N.of_nat n)) as [I1 [I2 I3]]. rewrite I1, I2, I3. repeat split. lia.
Qed.

(* ---- 2. a real child under a configuration: contained, and accounted for exactly as the property's oracle asks ---- *)
Lemma env_final_ends e f : fate_ok f = true ->
  ends_loop (conc (if auto_reaped (e_chld e) then SErr c_ECHILD else fate_sout f)) = true.
Proof. intro H. destruct (auto_reaped (e_chld e)); [reflexivity|apply fate_ends; exact H]. Qed.

Lemma env_child_contained all_sep run_ign count ig e p inject :
  env_ok e = true -> prog_ok p = true -> ig && negb run_ign = false ->
  let lr := parent_loop 0 (map conc (env_stream e p inject)) in
  run_case all_sep run_ign count {| c_ign := ig; c_test := TEnv e p inject |} = env_item e lr /\
  forallb sout_ok (env_stream e p inject) = true /\
  lr_end lr <> EndStreamOut /\
  expect tolerated (env_stream e p inject) = (length (lr_fails lr), lr_calls lr, reaped_end (lr_end lr)) /\
  (unclean p = true -> lr_fails lr <> []) /\
  (auto_reaped (e_chld e) = true -> i_lost (env_item e lr) = false).
Proof.
  intros He Hp Hi lr.
  assert (L : expect tolerated (env_stream e p inject) = (length (lr_fails lr), lr_calls lr, reaped_end (lr_end lr))).
  { pose proof (loop_expect (env_stream e p inject) 0 (env_stream_ok e p inject Hp)) as L. cbv zeta in L.
    rewrite budget_0 in L. exact L. }
  split; [|split; [|split; [|split; [|split]]]].
  - unfold run_case. cbn [c_ign c_test]. destruct ig; [destruct run_ign; [|discriminate]|]; cbn [run_test]; apply run_env_stream.
  - apply env_stream_ok. exact Hp.
  - unfold lr, env_stream. destruct (child_trace_ok p Hp) as [_ F]. destruct (child_trace p) as [st f]. simpl in F.
    rewrite app_assoc. apply smerge_never_out. apply env_final_ends. exact F.
  - exact L.
  - intros U E. pose proof (never_env e p inject _ _ _ L U) as N. rewrite E in N. discriminate.
  - intro A. unfold env_item. cbn. rewrite A. reflexivity.
Qed.

(* the oracle itself enforces the clause on whatever the implementation reports: an observation the oracle accepts for a real
   child (with or without a configuration) that did not end with exit status 0 carries at least one failure *)
Lemma oracle_never_passed all_sep t it p : item_ok all_sep t it = true ->
  (exists inject, t = TReal p inject) \/ (exists e inject, t = TEnv e p inject) ->
  unclean p = true -> i_fails it <> [].
Proof.
  intros H T U E. unfold item_ok in H. destruct (expected all_sep t) as [[f c] reaped].
  apply andb_prop in H. destruct H as [_ H]. unfold never_passed_ok in H.
  destruct T as [[inject ->]|[e [inject ->]]]; rewrite U, E in H; discriminate.
Qed.

(* when the kernel or the program's handler takes the child away, the wait fails and the test has a failure -- also when the
   child had ended cleanly; without injected faults and with the interruptions within the bound the record is exactly: one
   failure per stop, then the failing wait *)
Lemma auto_reaped_record count e p : prog_ok p = true -> auto_reaped (e_chld e) = true -> (e_eintr e <= tolerated)%nat ->
  let it := run_env count e p [] in
  i_fails it = map (fun _ => FStopped) (fst (child_trace p)) ++ [FWait] /\
  i_calls it = (e_eintr e + length (fst (child_trace p)) + 1)%nat /\ i_lost it = false.
Proof.
  intros Hp A L. cbv zeta. unfold run_env. destruct (child_trace_ok p Hp) as [S _].
  destruct (child_trace p) as [st f]. cbn [fst] in *. cbn [wmerge]. unfold env_answers, kernel_answers. rewrite A.
  destruct (echild_is_a_failure (e_eintr e) st L S) as [I1 [I2 I3]]. unfold env_item. cbn. rewrite A.
  cbn in I1, I2. rewrite I1, I2. repeat split.
Qed.

(* the other children of the process do not matter (the wait names the child's own pid), a handler that only counts does
   not matter, and the configuration that changes nothing is the plain real child *)
Lemma env_neutral count c sibs sibs' n p inject :
  run_env count {| e_chld := c; e_sibs := sibs; e_eintr := n |} p inject =
    run_env count {| e_chld := c; e_sibs := sibs'; e_eintr := n |} p inject /\
  run_env count {| e_chld := CHandler; e_sibs := sibs; e_eintr := n |} p inject =
    run_env count {| e_chld := CDefault; e_sibs := sibs; e_eintr := n |} p inject /\
  run_env count {| e_chld := CDefault; e_sibs := sibs; e_eintr := 0 |} p inject = run_real count p inject /\
  expected false (TEnv {| e_chld := CDefault; e_sibs := sibs; e_eintr := 0 |} p inject) = expected false (TReal p inject).
Proof.
  split; [reflexivity|]. split; [|split].
  - unfold run_env. destruct (child_trace p) as [st f]. reflexivity.
  - rewrite (run_env_stream count). unfold run_real. rewrite <- (real_stream_merge count p inject). unfold env_stream, real_stream.
    destruct (child_trace p) as [st f]. cbn [e_eintr e_chld repeat app auto_reaped]. unfold env_item, item_of_loop.
    cbn [e_chld auto_reaped i_started i_fails i_calls i_conts i_lost]. reflexivity.
  - cbn [expected]. unfold env_stream, real_stream. destruct (child_trace p) as [st f]. reflexivity.
Qed.

(* ---- 3. the wrapper that turns the ECHILD answer into "exited with status 0", as a model: the oracle refuses it ---- *)
Definition fabricate (o : wout) : wout := match o with WErr => WStat 0 | x => x end.
Definition run_env_fabricating (count : N) (e : env) (p : prog) (inject : list inj) : item :=
  let (st, f) := child_trace p in
  env_item e (parent_loop 0 (wmerge inject (map fabricate (env_answers e st (child_final count f))))).
Definition fabricating_wrapper_stmt : Prop :=
  forall count e p inject, env_ok e = true -> prog_ok p = true ->
    item_ok true (TEnv e p inject) (run_env_fabricating count e p inject) = true.

Definition ex_kill9 : prog := {| p_pre := []; p_setup := []; p_body := [ARaise 9]; p_teardown := []; p_post := [] |}.
Definition ex_env_ign : env := {| e_chld := CIgnore; e_sibs := [SibExit false 0]; e_eintr := 0 |}.
Lemma fabricating_wrapper_refuted : ~ fabricating_wrapper_stmt.
Proof. intro H. specialize (H 0 ex_env_ign ex_kill9 [] eq_refl eq_refl). vm_compute in H. discriminate. Qed.

(* ---- examples ---- *)
Definition tenv (e : env) (p : prog) : tcase := {| c_ign := false; c_test := TEnv e p [] |}.
Definition ex_stop_kill : prog := {| p_pre := []; p_setup := [ARaise 19]; p_body := [ARaise 11]; p_teardown := []; p_post := [] |}.
Definition ex_env_scn : scenario :=
  {| s_all_sep := true; s_run_ign := false;
     s_tests := [tenv ex_env_ign ex_kill9;
                 tenv {| e_chld := CReapFirst; e_sibs := [SibKill true 9; SibExit false 3]; e_eintr := 2 |} ex_stop_kill;
                 tenv {| e_chld := CNoCldWait; e_sibs := []; e_eintr := 0 |} (plain_prog false);
                 tenv {| e_chld := CHandler; e_sibs := [SibExit false 0]; e_eintr := 0 |} ex_kill9;
                 tenv {| e_chld := CDefault; e_sibs := []; e_eintr := 40 |} ex_kill9;
                 {| c_ign := false; c_test := TPlain false |}] |}.
Example ex_env_valid : valid ex_env_scn = true /\ valid_m (embed ex_env_scn) = true. Proof. split; reflexivity. Qed.
Example ex_env_run : map (fun it => (i_fails it, i_calls it, i_lost it)) (o_items (run ex_env_scn)) =
  [([FWait], 1%nat, false); ([FStopped; FWait], 4%nat, false); ([FWait], 1%nat, false); ([FKilled 9], 1%nat, false);
   ([FEintr], S tolerated, true); ([], 1%nat, false)] /\ o_total (run ex_env_scn) = 6 /\ o_failed (run ex_env_scn) = true.
Proof. vm_compute. repeat split. Qed.
(* the oracle refuses the killed child recorded as passed under SIGCHLD ignored (what the fabricating wrapper produces), and
   accepts exactly one failure *)
Definition ex_one : scenario := {| s_all_sep := true; s_run_ign := false; s_tests := [tenv ex_env_ign ex_kill9] |}.
Example ex_env_spec_rejects :
  spec ex_one {| o_items := [mk_item [] 1]; o_total := 0; o_failed := false; o_run := 1; o_ign := 0; o_late := false |} = false /\
  spec ex_one {| o_items := [mk_item [FWait; FWait] 2]; o_total := 2; o_failed := true; o_run := 1; o_ign := 0; o_late := false |} = false /\
  spec ex_one {| o_items := [mk_item [FWait] 1]; o_total := 1; o_failed := true; o_run := 1; o_ign := 0; o_late := false |} = true /\
  run_env_fabricating 0 ex_env_ign ex_kill9 [] = mk_item [] 1.
Proof. vm_compute. repeat split. Qed.
Example ex_every_other_answer_hyps :
  forallb (fun o => negb (clean_exit o)) [WEintr; WStat 0x137f; WStat 0xffff; WErr] = true /\
  lr_end (parent_loop 0 [WEintr; WStat 0x137f; WStat 0xffff; WErr]) = EndWaitErr /\
  clean_exit (WStat 0) = true /\ silent (WStat 0xffff) = true /\ silent (WStat 0x137f) = false.
Proof. vm_compute. repeat split. Qed.
Example ex_env_contained_hyps :
  env_ok ex_env_ign = true /\ prog_ok ex_kill9 = true /\ unclean ex_kill9 = true /\ unclean (plain_prog false) = false /\
  auto_reaped (e_chld ex_env_ign) = true.
Proof. vm_compute. repeat split. Qed.
