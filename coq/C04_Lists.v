(* C04 -- lemmas about one bucket / flat lists of nodes: the walks of the code equal their textbook meaning *)
From Coq Require Import NArith List Bool Lia Permutation.
From CppUVerif Require Import gen.Gen_Common C04_Model.
Import ListNotations.
Local Open Scope N_scope.

Definition addrs (l : list node) : list N := map n_addr l.

(* first node with key a removed *)
Fixpoint rm (a : N) (l : list node) : list node :=
  match l with [] => [] | c :: r => if n_addr c =? a then r else c :: rm a r end.

Lemma in_period_applies n p : is_in_period n p = applies p n.
Proof. unfold is_in_period, applies. destruct p, (n_period n); reflexivity. Qed.

Lemma in_period_checking n : is_in_period n PChecking = true -> n_period n = SChecking.
Proof. unfold is_in_period. destruct (n_period n); cbn; congruence. Qed.

(* ---------------- the walks *)
Lemma remove_walk_spec a : forall cur acc, l_remove_walk a acc cur = (l_retrieve a cur, rev acc ++ rm a cur).
Proof.
  induction cur as [|c nxt IH]; intros acc; cbn.
  - rewrite app_nil_r. reflexivity.
  - destruct (n_addr c =? a); [reflexivity|].
    rewrite IH. cbn. rewrite <- app_assoc. reflexivity.
Qed.

Lemma l_remove_spec a b : l_remove a b = (l_retrieve a b, rm a b).
Proof. unfold l_remove. rewrite remove_walk_spec. reflexivity. Qed.

Lemma clear_walk_spec p : forall cur acc,
  l_clear_walk p acc cur = rev acc ++ filter (fun c => negb (is_in_period c p)) cur.
Proof.
  induction cur as [|c nxt IH]; intros acc; cbn.
  - rewrite app_nil_r. reflexivity.
  - destruct (is_in_period c p); cbn.
    + destruct acc; apply IH.
    + rewrite IH. cbn. rewrite <- app_assoc. reflexivity.
Qed.

Lemma l_clear_spec p b : l_clear p b = filter (fun c => negb (is_in_period c p)) b.
Proof. unfold l_clear. rewrite clear_walk_spec. reflexivity. Qed.

Lemma l_total_spec p : forall l, l_total p l = N.of_nat (length (filter (fun c => is_in_period c p) l)).
Proof.
  induction l as [|c r IH]; cbn; [reflexivity|].
  rewrite IH. destruct (is_in_period c p); cbn [length]; lia.
Qed.

(* ---------------- membership of a key *)
Lemma live_in a l : live a l = true <-> In a (addrs l).
Proof.
  unfold live, addrs. rewrite existsb_exists, in_map_iff. unfold has_addr.
  split; intros (x & H1 & H2).
  - exists x. apply N.eqb_eq in H2. tauto.
  - exists x. split; [tauto|]. apply N.eqb_eq. tauto.
Qed.
Lemma live_false a l : live a l = false <-> ~ In a (addrs l).
Proof. rewrite <- live_in. destruct (live a l); split; congruence. Qed.

Lemma addrs_app x y : addrs (x ++ y) = addrs x ++ addrs y.
Proof. apply map_app. Qed.

Lemma notin_app a x y : ~ In a (addrs (x ++ y)) <-> ~ In a (addrs x) /\ ~ In a (addrs y).
Proof. rewrite addrs_app, in_app_iff. tauto. Qed.

(* ---------------- retrieve *)
Lemma retrieve_notin a : forall l, ~ In a (addrs l) -> l_retrieve a l = None.
Proof.
  induction l as [|c r IH]; cbn; intros H; [reflexivity|].
  destruct (N.eqb_spec (n_addr c) a); [tauto|]. apply IH. tauto.
Qed.
Lemma retrieve_app a : forall x y,
  l_retrieve a (x ++ y) = match l_retrieve a x with Some n => Some n | None => l_retrieve a y end.
Proof. induction x as [|c r IH]; cbn; intros; [reflexivity|]. destruct (n_addr c =? a); auto. Qed.
Lemma retrieve_some a : forall l n, l_retrieve a l = Some n ->
  exists A B, l = A ++ n :: B /\ n_addr n = a /\ ~ In a (addrs A) /\ rm a l = A ++ B.
Proof.
  induction l as [|c r IH]; cbn; intros n H; [discriminate|].
  destruct (N.eqb_spec (n_addr c) a).
  - inversion H; subst. exists [], r. cbn. tauto.
  - destruct (IH _ H) as (A & B & -> & Ha & Hn & Hr).
    exists (c :: A), B. cbn. rewrite Hr. repeat split; auto. tauto.
Qed.
Lemma retrieve_none a : forall l, l_retrieve a l = None -> ~ In a (addrs l).
Proof.
  induction l as [|c r IH]; cbn; intros H; [tauto|].
  destruct (N.eqb_spec (n_addr c) a); [discriminate|]. intros [?|?]; [congruence|]. apply IH; assumption.
Qed.

(* ---------------- rm *)
Lemma rm_notin a : forall l, ~ In a (addrs l) -> rm a l = l.
Proof.
  induction l as [|c r IH]; cbn; intros H; [reflexivity|].
  destruct (N.eqb_spec (n_addr c) a); [tauto|]. f_equal. apply IH. tauto.
Qed.
Lemma rm_app_r a : forall x y, ~ In a (addrs y) -> rm a (x ++ y) = rm a x ++ y.
Proof.
  induction x as [|c r IH]; cbn; intros y H.
  - apply rm_notin; assumption.
  - destruct (n_addr c =? a); [reflexivity|]. rewrite IH by assumption. reflexivity.
Qed.
Lemma rm_app_l a : forall x y, ~ In a (addrs x) -> rm a (x ++ y) = x ++ rm a y.
Proof.
  induction x as [|c r IH]; cbn; intros y H; [reflexivity|].
  destruct (N.eqb_spec (n_addr c) a); [tauto|]. rewrite IH by tauto. reflexivity.
Qed.
Lemma rm_here a x n y : n_addr n = a -> ~ In a (addrs x) -> rm a (x ++ n :: y) = x ++ y.
Proof. intros H1 H2. rewrite rm_app_l by assumption. cbn. rewrite (proj2 (N.eqb_eq _ _) H1). reflexivity. Qed.
Lemma rm_incl a : forall l x, In x (rm a l) -> In x l.
Proof.
  induction l as [|c r IH]; cbn; intros x H; [assumption|].
  destruct (n_addr c =? a); [tauto|]. destruct H; [tauto|]. right. apply IH. assumption.
Qed.

Lemma drop_notin a : forall l, ~ In a (addrs l) -> drop a l = l.
Proof.
  induction l as [|c r IH]; cbn; intros H; [reflexivity|]. unfold has_addr at 1.
  destruct (N.eqb_spec (n_addr c) a); [tauto|]. cbn. f_equal. apply IH. tauto.
Qed.
Lemma rm_drop a : forall l, NoDup (addrs l) -> rm a l = drop a l.
Proof.
  induction l as [|c r IH]; cbn; intros H; [reflexivity|]. inversion H; subst. unfold has_addr at 1.
  destruct (N.eqb_spec (n_addr c) a); cbn.
  - subst. symmetry. apply drop_notin. assumption.
  - f_equal. apply IH. assumption.
Qed.

(* ---------------- NoDup of keys under filter / permutation *)
Lemma addrs_filter_incl g : forall l a, In a (addrs (filter g l)) -> In a (addrs l).
Proof.
  unfold addrs. intros l a H. apply in_map_iff in H. destruct H as (x & <- & Hx).
  apply filter_In in Hx. apply in_map. tauto.
Qed.
Lemma nodup_filter g : forall l, NoDup (addrs l) -> NoDup (addrs (filter g l)).
Proof.
  induction l as [|c r IH]; cbn; intros H; [constructor|]. inversion H; subst.
  destruct (g c); cbn; auto. constructor; auto. intros Hc. apply addrs_filter_incl in Hc. tauto.
Qed.
Lemma perm_filter (g : node -> bool) : forall l m, Permutation l m -> Permutation (filter g l) (filter g m).
Proof.
  induction 1; cbn.
  - constructor.
  - destruct (g x); auto.
  - destruct (g x), (g y); auto. constructor.
  - eapply perm_trans; eassumption.
Qed.
Lemma perm_addrs l m : Permutation l m -> Permutation (addrs l) (addrs m).
Proof. apply Permutation_map. Qed.
Lemma perm_live a l m : Permutation l m -> live a l = live a m.
Proof.
  intros H. destruct (live a m) eqn:E.
  - apply live_in. apply live_in in E. eapply Permutation_in; [apply Permutation_sym, perm_addrs; eassumption|assumption].
  - apply live_false. apply live_false in E. intros Hc. apply E. eapply Permutation_in; [apply perm_addrs; eassumption|assumption].
Qed.

(* ---------------- first leak from a position; successor *)
Lemma leak_from_app f : forall x y,
  l_leak_from f (x ++ y) = match l_leak_from f x with Some n => Some n | None => l_leak_from f y end.
Proof. induction x as [|c r IH]; cbn; intros; [reflexivity|]. destruct (f c); auto. Qed.
Lemma leak_from_some f : forall l n, l_leak_from f l = Some n ->
  exists l1 l2, l = l1 ++ n :: l2 /\ f n = true /\ filter f l1 = [].
Proof.
  induction l as [|c r IH]; cbn; intros n H; [discriminate|].
  destruct (f c) eqn:E.
  - inversion H; subst. exists [], r. auto.
  - destruct (IH _ H) as (l1 & l2 & -> & Hf & Hn). exists (c :: l1), l2. cbn. rewrite E. auto.
Qed.
Lemma leak_from_none f : forall l, l_leak_from f l = None -> filter f l = [].
Proof. induction l as [|c r IH]; cbn; intros H; [reflexivity|]. destruct (f c); [discriminate|auto]. Qed.

Lemma after_app_l a : forall x y, ~ In a (addrs x) -> l_after a (x ++ y) = l_after a y.
Proof.
  induction x as [|c r IH]; cbn; intros y H; [reflexivity|].
  destruct (N.eqb_spec (n_addr c) a); [tauto|]. apply IH. tauto.
Qed.
Lemma after_app_r a : forall x y, In a (addrs x) -> l_after a (x ++ y) = l_after a x ++ y.
Proof.
  induction x as [|c r IH]; cbn; intros y H; [tauto|].
  destruct (N.eqb_spec (n_addr c) a); [reflexivity|]. apply IH. destruct H; [congruence|assumption].
Qed.
Lemma after_here a x n y : n_addr n = a -> ~ In a (addrs x) -> l_after a (x ++ n :: y) = y.
Proof. intros H1 H2. rewrite after_app_l by assumption. cbn. rewrite (proj2 (N.eqb_eq _ _) H1). reflexivity. Qed.

(* ---------------- filter facts *)
Lemma filter_nil_neg (f : node -> bool) : forall l, filter f l = [] -> filter (fun c => negb (f c)) l = l.
Proof.
  induction l as [|c r IH]; cbn; intros H; [reflexivity|].
  destruct (f c); [discriminate|]. cbn. f_equal. auto.
Qed.
Lemma filter_nil_forall (f : node -> bool) : forall l, filter f l = [] -> forall c, In c l -> f c = false.
Proof.
  induction l as [|c r IH]; cbn; intros H x Hx; [tauto|].
  destruct (f c) eqn:E; [discriminate|]. destruct Hx; [subst; assumption|auto].
Qed.

(* ---------------- demotion through the pointer *)
Definition dm (a : N) (l : list node) : list node := map (fun c => if n_addr c =? a then demote c else c) l.
Lemma demote_addr c : n_addr (demote c) = n_addr c.
Proof. unfold demote. destruct (n_period c); reflexivity. Qed.
Lemma dm_notin a : forall l, ~ In a (addrs l) -> dm a l = l.
Proof.
  induction l as [|c r IH]; cbn; intros H; [reflexivity|].
  destruct (N.eqb_spec (n_addr c) a); [tauto|]. f_equal. apply IH. tauto.
Qed.
Lemma dm_app a x y : dm a (x ++ y) = dm a x ++ dm a y.
Proof. apply map_app. Qed.
Lemma dm_addrs a l : addrs (dm a l) = addrs l.
Proof.
  unfold addrs, dm. rewrite map_map. apply map_ext. intros c.
  destruct (n_addr c =? a); [apply demote_addr|reflexivity].
Qed.
Lemma addrs_map_demote l : addrs (map demote l) = addrs l.
Proof. unfold addrs. rewrite map_map. apply map_ext. intros; apply demote_addr. Qed.
Lemma demote_id c : n_period c <> SChecking -> demote c = c.
Proof. unfold demote. destruct (n_period c); congruence. Qed.
Lemma map_demote_id : forall l, filter (fun c => is_in_period c PChecking) l = [] -> map demote l = l.
Proof.
  intros l H. rewrite <- (map_id l) at 2. apply map_ext_in. intros c Hc.
  apply demote_id. pose proof (filter_nil_forall _ _ H c Hc) as Hf. cbn in Hf.
  unfold is_in_period in Hf. destruct (n_period c); cbn in Hf; congruence.
Qed.
