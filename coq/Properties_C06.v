From Coq Require Import NArith Bool List.
From CppUVerif Require Import C06_Model C06_Proofs C06_Sim C06_Period C06_Examples C06_Wrap.
Theorem C06_category_exact : C06_category_exact_stmt. Proof. exact category_exact. Qed.
Print Assumptions C06_category_exact.
Theorem C06_user_writes_silent : C06_user_writes_silent_stmt. Proof. exact user_writes_silent. Qed.
Print Assumptions C06_user_writes_silent.
Theorem C06_every_guard_byte : C06_every_guard_byte_stmt. Proof. exact every_guard_byte. Qed.
Print Assumptions C06_every_guard_byte.
Theorem C06_null_silent : C06_null_silent_stmt. Proof. exact null_silent. Qed.
Print Assumptions C06_null_silent.
Theorem C06_paired_silent : C06_paired_silent_stmt. Proof. exact paired_silent. Qed.
Print Assumptions C06_paired_silent.
Theorem C06_poison_before_free : C06_poison_before_free_stmt. Proof. exact poison_before_free. Qed.
Print Assumptions C06_poison_before_free.
Theorem C06_block_removed_after_report : C06_block_removed_after_report_stmt. Proof. exact block_removed_after_report. Qed.
Print Assumptions C06_block_removed_after_report.
Theorem C06_run_meets_spec : C06_run_meets_spec_stmt. Proof. exact run_meets_spec. Qed.
Print Assumptions C06_run_meets_spec.
Theorem C06_wrappers_transparent : C06_wrappers_transparent_stmt. Proof. exact wrappers_transparent. Qed.
Print Assumptions C06_wrappers_transparent.
Theorem C06_period_independent : C06_period_independent_stmt. Proof. exact period_independent. Qed.
Print Assumptions C06_period_independent.
Theorem C06_release_in_any_period : C06_release_in_any_period_stmt. Proof. exact release_in_any_period. Qed.
Print Assumptions C06_release_in_any_period.
