From Coq Require Import NArith Bool List.
From CppUVerif Require Import C06_Model C06_Proofs C06_Sim C06_Period C06_Examples C06_Wrap C06_Plug C06_PlugProofs C06_PlugExamples.
From CppUVerif Require Import C06_Edge C06_EdgeProofs C06_EdgeSim C06_EdgeThms.
Theorem C06_category_exact : C06_category_exact_stmt. Proof. exact category_exact. Qed.
Print Assumptions C06_category_exact.
Theorem C06_user_writes_silent : C06_user_writes_silent_stmt. Proof. exact user_writes_silent. Qed.
Print Assumptions C06_user_writes_silent.
Theorem C06_every_guard_byte : C06_every_guard_byte_stmt. Proof. exact every_guard_byte. Qed.
Print Assumptions C06_every_guard_byte.
Theorem C06_null_silent : C06_null_silent_stmt. Proof. exact null_silent. Qed.
Print Assumptions C06_null_silent.
Theorem C06_paired_silent : C06_paired_silent_stmt. Proof. exact paired_silent. Qed.
Print Assumptions C06_paired_silent.
Theorem C06_poison_before_free : C06_poison_before_free_stmt. Proof. exact poison_before_free. Qed.
Print Assumptions C06_poison_before_free.
Theorem C06_block_removed_after_report : C06_block_removed_after_report_stmt. Proof. exact block_removed_after_report. Qed.
Print Assumptions C06_block_removed_after_report.
(* the scenario language of the check (plugin level: every form of operator new / delete, the malloc wrappers, the overload switches) *)
(* both kinds of scenario of the check: the plugin-level language, and the sizes at the edges (C06_Edge.v) *)
Theorem C06_run_meets_spec : C06_yrun_meets_yspec_stmt. Proof. exact yrun_meets_yspec. Qed.
Print Assumptions C06_run_meets_spec.
Theorem C06_plugin_run_meets_spec : C06_prun_meets_spec_stmt. Proof. exact prun_meets_spec. Qed.
Print Assumptions C06_plugin_run_meets_spec.
Theorem C06_edge_run_meets_spec : C06_erun_meets_espec_stmt. Proof. exact erun_meets_espec. Qed.
Print Assumptions C06_edge_run_meets_spec.
(* the detector-level language underneath it *)
Theorem C06_detector_run_meets_spec : C06_run_meets_spec_stmt. Proof. exact run_meets_spec. Qed.
Print Assumptions C06_detector_run_meets_spec.
Theorem C06_wrappers_transparent : C06_wrappers_transparent_stmt. Proof. exact wrappers_transparent. Qed.
Print Assumptions C06_wrappers_transparent.
Theorem C06_period_independent : C06_period_independent_stmt. Proof. exact period_independent. Qed.
Print Assumptions C06_period_independent.
Theorem C06_release_in_any_period : C06_release_in_any_period_stmt. Proof. exact release_in_any_period. Qed.
Print Assumptions C06_release_in_any_period.
(* the plugin layer: entry point table and overload-switch histories *)
Theorem C06_wiring_coherent : C06_wiring_coherent_stmt. Proof. exact wiring_coherent. Qed.
Print Assumptions C06_wiring_coherent.
Theorem C06_entry_family : C06_entry_family_stmt. Proof. exact entry_family. Qed.
Print Assumptions C06_entry_family.
Theorem C06_lowering_is_property_view : C06_lowering_is_property_view_stmt. Proof. exact lowering_is_property_view. Qed.
Print Assumptions C06_lowering_is_property_view.
Theorem C06_form_pair_exact : C06_form_pair_exact_stmt. Proof. exact form_pair_exact. Qed.
Print Assumptions C06_form_pair_exact.
Theorem C06_form_pair_by_family : C06_form_pair_by_family_stmt. Proof. exact form_pair_by_family. Qed.
Print Assumptions C06_form_pair_by_family.
Theorem C06_old_language_embedded : C06_old_language_embedded_stmt. Proof. exact old_language_embedded. Qed.
Print Assumptions C06_old_language_embedded.

(* ------------------------------------------------------------------------------------------------------------------
   Sizes at the edges (C06_Edge.v): sizes are unbounded N, the user bytes of a block are runs.
   ------------------------------------------------------------------------------------------------------------------ *)
(* sizeLeavesRoomForAccountingInformation as translated from MemoryLeakDetector.cpp on every run is the model's room test *)
Theorem C06_room_test_is_the_source : C06_room_test_is_the_source_stmt. Proof. exact room_test_is_the_source. Qed.
Print Assumptions C06_room_test_is_the_source.
(* a request without room (malloc / new / realloc of anything): the state after is the state before, no report, NULL *)
Theorem C06_refused_request_changes_nothing : C06_refused_request_changes_nothing_stmt. Proof. exact refused_request_changes_nothing. Qed.
Print Assumptions C06_refused_request_changes_nothing.
(* a realloc that is not granted (no room / no memory) keeps the record: same lookups, same categories for every later release *)
Theorem C06_failed_realloc_keeps_block : C06_failed_realloc_keeps_block_stmt. Proof. exact failed_realloc_keeps_block. Qed.
Print Assumptions C06_failed_realloc_keeps_block.
Theorem C06_release_after_failed_realloc : C06_release_after_failed_realloc_stmt. Proof. exact release_after_failed_realloc. Qed.
Print Assumptions C06_release_after_failed_realloc.
(* EVERY user byte of a block of ANY size is poison when the block reaches free_memory, also when the release is reported *)
Theorem C06_all_user_bytes_poisoned : C06_all_user_bytes_poisoned_stmt. Proof. exact all_user_bytes_poisoned. Qed.
Print Assumptions C06_all_user_bytes_poisoned.
(* the two seeded variants of round 6 are not this model: computed witnesses *)
Theorem C06_capped_poison_refuted : ~ capped_poison_stmt. Proof. exact capped_poison_refuted. Qed.
Print Assumptions C06_capped_poison_refuted.
Theorem C06_late_room_test_refuted : ~ late_room_test_stmt. Proof. exact late_room_test_refuted. Qed.
Print Assumptions C06_late_room_test_refuted.

(* ------------------------------------------------------------------------------------------------------------------
   The guard check of the model IS the source: validMemoryCorruptionInformation as tools/cxx2gal.py regenerates it from
   MemoryLeakDetector.cpp on every run (gen/Gen_LoopC06.v, byte memory of lib/CMem.v; GuardBytes is the pointer g) returns
   true exactly when each of the G cells behind the user bytes equals the pattern -- the model's valid_guard on those cells --
   reads nothing else, and needs only those G cells to exist.
   ------------------------------------------------------------------------------------------------------------------ *)
From Coq Require Import ZArith.
From CppUVerif Require Import lib.CSem lib.CMem lib.CMemFacts gen.Gen_C06 gen.Gen_LoopC06 C06_SrcTie.
Theorem C06_src_guard_check_is_the_model : forall fuel (m : CMem.memory) g bg og b o c0 c1 c2 r,
  mem_ok m -> g = Ptr bg og -> view m g = c06_guard_bytes ->
  view m (Ptr b o) = c0 :: c1 :: c2 :: r -> (3 < fuel)%nat ->
  src_validGuard fuel m g (Ptr b o) = FOk (b2z (guard_ok (c0 :: c1 :: c2 :: r))).
Proof. exact src_validGuard_spec. Qed.
Print Assumptions C06_src_guard_check_is_the_model.
Theorem C06_guard_ok_is_valid_guard : forall (mm : C06_Model.memory) p cells,
  (forall i, (i < G)%nat -> mread mm (p + N.of_nat i) = nth i cells 0%N) -> valid_guard mm p = guard_ok cells.
Proof. exact guard_ok_is_valid_guard. Qed.
Print Assumptions C06_guard_ok_is_valid_guard.
(* addMemoryCorruptionInformation stores exactly the model's `pattern` into the G cells at its argument; every other cell of every
   block keeps its value (the resulting memory differs from m only there) *)
Theorem C06_src_guard_write_is_the_model : forall fuel (m : CMem.memory) bg og b pre c0 c1 c2 r,
  mem_ok m -> bg <> b -> (b < length m)%nat -> view m (Ptr bg og) = c06_guard_bytes ->
  block m b = pre ++ c0 :: c1 :: c2 :: r -> (3 < fuel)%nat ->
  src_addGuard fuel m (Ptr bg og) (Ptr b (Z.of_nat (length pre))) = FOk (tt, upd m b (pre ++ pattern ++ r)).
Proof. exact src_addGuard_spec. Qed.
Print Assumptions C06_src_guard_write_is_the_model.

(* --------------------------------------------------------------------------------------------------------------
   THE POINTER TABLES OF THE PLUGIN LAYER ARE THE SOURCE: gen/Gen_PlugC06.v is read from clang's AST of MemoryLeakWarningPlugin.cpp on every run (static initialisers of the 22 function-pointer variables, the assignments of the five switch functions, what each of the 33 handler functions calls, the pointer each of the 21 global entry points calls) and the hand-written tables of C06_Plug.v are proved equal to it
   -------------------------------------------------------------------------------------------------------------- *)
From CppUVerif Require Import C06_Plug gen.Gen_PlugC06 C06_PlugTie.
Local Open Scope Z_scope.
Theorem C06_initial_wiring_is_the_source :
  init_ok false wire_initial = true /\ init_ok true wire_saved_initial = true.
Proof. exact initial_wiring_is_the_source. Qed.
Print Assumptions C06_initial_wiring_is_the_source.

Theorem C06_no_other_pointer_variables :
  forallb
  (fun p : String.string * String.string =>
  existsb (fun s : slot => String.eqb (fst p) (var_name false s) || String.eqb (fst p) (var_name true s))
  all_slots) src_fptr_init = true /\ length src_fptr_init = 22%nat.
Proof. exact no_other_pointer_variables. Qed.
Print Assumptions C06_no_other_pointer_variables.

Theorem C06_turnOff_is_the_source :
  assigns_table src_turnOffNewDeleteOverloads wire_off = true.
Proof. exact turnOff_is_the_source. Qed.
Print Assumptions C06_turnOff_is_the_source.

Theorem C06_turnOnDefault_is_the_source :
  assigns_table src_turnOnDefaultNotThreadSafeNewDeleteOverloads wire_default = true.
Proof. exact turnOnDefault_is_the_source. Qed.
Print Assumptions C06_turnOnDefault_is_the_source.

Theorem C06_turnOnThreadSafe_is_the_source :
  assigns_table src_turnOnThreadSafeNewDeleteOverloads wire_safe = true.
Proof. exact turnOnThreadSafe_is_the_source. Qed.
Print Assumptions C06_turnOnThreadSafe_is_the_source.

Theorem C06_save_restore_are_the_source :
  save_shape = true /\ restore_shape = true.
Proof. exact save_restore_are_the_source. Qed.
Print Assumptions C06_save_restore_are_the_source.

Theorem C06_save_runs_as_sw_step :
  forall g1 g2 : hgroup,
  let cur := fun s : slot => (g1, s) in
  let sav := fun s : slot => (g2, s) in
  let
  '(c1, s1) := run_assigns src_saveAndDisableNewDeleteOverloads cur sav in
  let
  '(c2, _) := run_assigns src_turnOffNewDeleteOverloads c1 s1 in
  let o := sw_step {| ov_cur := cur; ov_saved := sav; ov_count := 0 |} SwSave in
  tables_eqb c2 (ov_cur o) = true /\ tables_eqb s1 (ov_saved o) = true.
Proof. exact save_runs_as_sw_step. Qed.
Print Assumptions C06_save_runs_as_sw_step.

Theorem C06_restore_runs_as_sw_step :
  forall g1 g2 : hgroup,
  let cur := fun s : slot => (g1, s) in
  let sav := fun s : slot => (g2, s) in
  let
  '(c1, s1) := run_assigns src_restoreNewDeleteOverloads cur sav in
  let o := sw_step {| ov_cur := cur; ov_saved := sav; ov_count := 1 |} SwRestore in
  tables_eqb c1 (ov_cur o) = true /\ tables_eqb s1 (ov_saved o) = true.
Proof. exact restore_runs_as_sw_step. Qed.
Print Assumptions C06_restore_runs_as_sw_step.

Theorem C06_handlers_are_the_source :
  forallb handler_ok
  (flat_map (fun g : hgroup => map (fun s : slot => (g, s)) all_slots) (HNormal :: HLeak :: HSafe :: nil)) =
  true /\ length src_handlers = 33%nat.
Proof. exact handlers_are_the_source. Qed.
Print Assumptions C06_handlers_are_the_source.

Theorem C06_separate_records_iff_malloc_family :
  forallb
  (fun '(_, (_, calls)) =>
  forallb
  (fun '(_, g, sep) =>
  if
  String.eqb g
  (String.String (Ascii.Ascii true true true false false true true false)
  (String.String (Ascii.Ascii true false true false false true true false)
  (String.String (Ascii.Ascii false false true false true true true false)
  (String.String (Ascii.Ascii true true false false false false true false)
  (String.String (Ascii.Ascii true false true false true true true false)
  (String.String (Ascii.Ascii false true false false true true true false)
  (String.String (Ascii.Ascii false true false false true true true false)
  (String.String (Ascii.Ascii true false true false false true true false)
  (String.String (Ascii.Ascii false true true true false true true false)
  (String.String (Ascii.Ascii false false true false true true true false)
  (String.String
  (Ascii.Ascii true false true true false false true false)
  (String.String
  (Ascii.Ascii true false false false false true true false)
  (String.String
  (Ascii.Ascii false false true true false true true false)
  (String.String
  (Ascii.Ascii false false true true false true true false)
  (String.String
  (Ascii.Ascii true true true true false true true false)
  (String.String
  (Ascii.Ascii true true false false false true true
  false)
  (String.String
  (Ascii.Ascii true false false false false false
  true false)
  (String.String
  (Ascii.Ascii false false true true false true
  true false)
  (String.String
  (Ascii.Ascii false false true true false
  true true false)
  (String.String
  (Ascii.Ascii true true true true false
  true true false)
  (String.String
  (Ascii.Ascii true true false false
  false true true false)
  (String.String
  (Ascii.Ascii true false false false
  false true true false)
  (String.String
  (Ascii.Ascii false false true
  false true true true false)
  (String.String
  (Ascii.Ascii true true true
  true false true true false)
  (String.String
  (Ascii.Ascii false true false
  false true true true false)
  String.EmptyString)))))))))))))))))))))))))
  then
  String.eqb sep
  (String.String (Ascii.Ascii false false true false true true true false)
  (String.String (Ascii.Ascii false true false false true true true false)
  (String.String (Ascii.Ascii true false true false true true true false)
  (String.String (Ascii.Ascii true false true false false true true false) String.EmptyString))))
  else String.eqb sep String.EmptyString) calls) src_handlers = true.
Proof. exact separate_records_iff_malloc_family. Qed.
Print Assumptions C06_separate_records_iff_malloc_family.

Theorem C06_entry_points_are_the_source :
  forallb (fun f : aform => entry_ok (aform_sig f) (aform_slot f)) all_aforms = true /\
  forallb (fun f : rform => entry_ok (rform_sig f) (rform_slot f)) all_rforms = true /\
  entry_ok
  (Some
  (String.String (Ascii.Ascii true true false false false true true false)
  (String.String (Ascii.Ascii false false false false true true true false)
  (String.String (Ascii.Ascii false false false false true true true false)
  (String.String (Ascii.Ascii true false true false true true true false)
  (String.String (Ascii.Ascii false false true false true true true false)
  (String.String (Ascii.Ascii true false true false false true true false)
  (String.String (Ascii.Ascii true true false false true true true false)
  (String.String (Ascii.Ascii false false true false true true true false)
  (String.String (Ascii.Ascii true true true true true false true false)
  (String.String (Ascii.Ascii false true false false true true true false)
  (String.String (Ascii.Ascii true false true false false true true false)
  (String.String
  (Ascii.Ascii true false false false false true true false)
  (String.String
  (Ascii.Ascii false false true true false true true false)
  (String.String
  (Ascii.Ascii false false true true false true true false)
  (String.String
  (Ascii.Ascii true true true true false true true false)
  (String.String
  (Ascii.Ascii true true false false false true true false)
  (String.String
  (Ascii.Ascii true true true true true false true false)
  (String.String
  (Ascii.Ascii false false true true false true true
  false)
  (String.String
  (Ascii.Ascii true true true true false true true
  false)
  (String.String
  (Ascii.Ascii true true false false false true
  true false)
  (String.String
  (Ascii.Ascii true false false false false
  true true false)
  (String.String
  (Ascii.Ascii false false true false
  true true true false)
  (String.String
  (Ascii.Ascii true false false true
  false true true false)
  (String.String
  (Ascii.Ascii true true true true
  false true true false)
  (String.String
  (Ascii.Ascii false true true
  true false true true false)
  (String.String
  (Ascii.Ascii true true true
  true true false true false)
  (String.String
  (Ascii.Ascii true true true
  false true true true false)
  (String.String
  (Ascii.Ascii true false false
  true false true true false)
  (String.String
  (Ascii.Ascii false false true
  false true true true false)
  (String.String
  (Ascii.Ascii false false
  false true false true true
  false)
  (String.String
  (Ascii.Ascii true true true
  true true false true false)
  (String.String
  (Ascii.Ascii false false true
  true false true true false)
  (String.String
  (Ascii.Ascii true false true
  false false true true false)
  (String.String
  (Ascii.Ascii true false false
  false false true true false)
  (String.String
  (Ascii.Ascii true true false
  true false true true false)
  (String.String
  (Ascii.Ascii true true true
  true true false true false)
  (String.String
  (Ascii.Ascii false false true
  false false true true false)
  (String.String
  (Ascii.Ascii true false true
  false false true true false)
  (String.String
  (Ascii.Ascii false false true
  false true true true false)
  (String.String
  (Ascii.Ascii true false true
  false false true true false)
  (String.String
  (Ascii.Ascii true true false
  false false true true false)
  (String.String
  (Ascii.Ascii false false true
  false true true true false)
  (String.String
  (Ascii.Ascii true false false
  true false true true false)
  (String.String
  (Ascii.Ascii true true true
  true false true true false)
  (String.String
  (Ascii.Ascii false true true
  true false true true false)
  (String.String
  (Ascii.Ascii false false
  false true false true false
  false)
  (String.String
  (Ascii.Ascii false true true
  false true true true false)
  (String.String
  (Ascii.Ascii true true true
  true false true true false)
  (String.String
  (Ascii.Ascii true false false
  true false true true false)
  (String.String
  (Ascii.Ascii false false true
  false false true true false)
  (String.String
  (Ascii.Ascii false false
  false false false true false
  false)
  (String.String
  (Ascii.Ascii false true false
  true false true false false)
  (String.String
  (Ascii.Ascii false false true
  true false true false false)
  (String.String
  (Ascii.Ascii false false
  false false false true false
  false)
  (String.String
  (Ascii.Ascii true true false
  false true true true false)
  (String.String
  (Ascii.Ascii true false false
  true false true true false)
  (String.String
  (Ascii.Ascii false true false
  true true true true false)
  (String.String
  (Ascii.Ascii true false true
  false false true true false)
  (String.String
  (Ascii.Ascii true true true
  true true false true false)
  (String.String
  (Ascii.Ascii false false true
  false true true true false)
  (String.String
  (Ascii.Ascii false false true
  true false true false false)
  (String.String
  (Ascii.Ascii false false
  false false false true false
  false)
  (String.String
  (Ascii.Ascii true true false
  false false true true false)
  (String.String
  (Ascii.Ascii true true true
  true false true true false)
  (String.String
  (Ascii.Ascii false true true
  true false true true false)
  (String.String
  (Ascii.Ascii true true false
  false true true true false)
  (String.String
  (Ascii.Ascii false false true
  false true true true false)
  (String.String
  (Ascii.Ascii false false
  false false false true false
  false)
  (String.String
  (Ascii.Ascii true true false
  false false true true false)
  (String.String
  (Ascii.Ascii false false
  false true false true true
  false)
  (String.String
  (Ascii.Ascii true false false
  false false true true false)
  (String.String
  (Ascii.Ascii false true false
  false true true true false)
  (String.String
  (Ascii.Ascii false false
  false false false true false
  false)
  (String.String
  (Ascii.Ascii false true false
  true false true false false)
  (String.String
  (Ascii.Ascii false false true
  true false true false false)
  (String.String
  (Ascii.Ascii false false
  false false false true false
  false)
  (String.String
  (Ascii.Ascii true true false
  false true true true false)
  (String.String
  (Ascii.Ascii true false false
  true false true true false)
  (String.String
  (Ascii.Ascii false true false
  true true true true false)
  (String.String
  (Ascii.Ascii true false true
  false false true true false)
  (String.String
  (Ascii.Ascii true true true
  true true false true false)
  (String.String
  (Ascii.Ascii false false true
  false true true true false)
  (String.String
  (Ascii.Ascii true false false
  true false true false false)
  String.EmptyString))))))))))))))))))))))))))))))))))))))))))))))))))))))))))))))))))))))))))))))))))))
  SRealloc = true /\ length src_entry_points = 21%nat.
Proof. exact entry_points_are_the_source. Qed.
Print Assumptions C06_entry_points_are_the_source.

Theorem C06_plugin_wiring_is_the_source :
  init_ok false wire_initial = true /\
  init_ok true wire_saved_initial = true /\
  assigns_table src_turnOffNewDeleteOverloads wire_off = true /\
  assigns_table src_turnOnDefaultNotThreadSafeNewDeleteOverloads wire_default = true /\
  assigns_table src_turnOnThreadSafeNewDeleteOverloads wire_safe = true /\
  save_shape = true /\
  restore_shape = true /\
  forallb handler_ok
  (flat_map (fun g : hgroup => map (fun s : slot => (g, s)) all_slots) (HNormal :: HLeak :: HSafe :: nil)) =
  true /\
  forallb (fun f : aform => entry_ok (aform_sig f) (aform_slot f)) all_aforms = true /\
  forallb (fun f : rform => entry_ok (rform_sig f) (rform_slot f)) all_rforms = true.
Proof. exact plugin_wiring_is_the_source. Qed.
Print Assumptions C06_plugin_wiring_is_the_source.

Theorem C06_a_wiring_slip_is_rejected :
  assigns_table
  (map
  (fun p : String.string * String.string =>
  if
  String.eqb (fst p)
  (String.String (Ascii.Ascii true true true true false true true false)
  (String.String (Ascii.Ascii false false false false true true true false)
  (String.String (Ascii.Ascii true false true false false true true false)
  (String.String (Ascii.Ascii false true false false true true true false)
  (String.String (Ascii.Ascii true false false false false true true false)
  (String.String (Ascii.Ascii false false true false true true true false)
  (String.String (Ascii.Ascii true true true true false true true false)
  (String.String (Ascii.Ascii false true false false true true true false)
  (String.String (Ascii.Ascii true true true true true false true false)
  (String.String (Ascii.Ascii false true true true false true true false)
  (String.String
  (Ascii.Ascii true false true false false true true false)
  (String.String
  (Ascii.Ascii true true true false true true true false)
  (String.String
  (Ascii.Ascii true true true true true false true false)
  (String.String
  (Ascii.Ascii true false false false false true true false)
  (String.String
  (Ascii.Ascii false true false false true true true false)
  (String.String
  (Ascii.Ascii false true false false true true true
  false)
  (String.String
  (Ascii.Ascii true false false false false true
  true false)
  (String.String
  (Ascii.Ascii true false false true true true
  true false)
  (String.String
  (Ascii.Ascii true true true true true false
  true false)
  (String.String
  (Ascii.Ascii false true true true false
  true true false)
  (String.String
  (Ascii.Ascii true true true true false
  true true false)
  (String.String
  (Ascii.Ascii false false true false
  true true true false)
  (String.String
  (Ascii.Ascii false false false
  true false true true false)
  (String.String
  (Ascii.Ascii false true false
  false true true true false)
  (String.String
  (Ascii.Ascii true true true
  true false true true false)
  (String.String
  (Ascii.Ascii true true true
  false true true true false)
  (String.String
  (Ascii.Ascii true true true
  true true false true false)
  (String.String
  (Ascii.Ascii false true true
  false false true true false)
  (String.String
  (Ascii.Ascii false false
  false false true true true
  false)
  (String.String
  (Ascii.Ascii false false true
  false true true true false)
  (String.String
  (Ascii.Ascii false true false
  false true true true false)
  String.EmptyString)))))))))))))))))))))))))))))))
  then
  (fst p,
  String.String (Ascii.Ascii true false true true false true true false)
  (String.String (Ascii.Ascii true false true false false true true false)
  (String.String (Ascii.Ascii true false true true false true true false)
  (String.String (Ascii.Ascii true true true true true false true false)
  (String.String (Ascii.Ascii false false true true false true true false)
  (String.String (Ascii.Ascii true false true false false true true false)
  (String.String (Ascii.Ascii true false false false false true true false)
  (String.String (Ascii.Ascii true true false true false true true false)
  (String.String (Ascii.Ascii true true true true true false true false)
  (String.String (Ascii.Ascii true true true true false true true false)
  (String.String (Ascii.Ascii false false false false true true true false)
  (String.String
  (Ascii.Ascii true false true false false true true false)
  (String.String
  (Ascii.Ascii false true false false true true true false)
  (String.String
  (Ascii.Ascii true false false false false true true false)
  (String.String
  (Ascii.Ascii false false true false true true true false)
  (String.String
  (Ascii.Ascii true true true true false true true false)
  (String.String
  (Ascii.Ascii false true false false true true true
  false)
  (String.String
  (Ascii.Ascii true true true true true false true
  false)
  (String.String
  (Ascii.Ascii false true true true false true
  true false)
  (String.String
  (Ascii.Ascii true false true false false
  true true false)
  (String.String
  (Ascii.Ascii true true true false true
  true true false)
  (String.String
  (Ascii.Ascii true true true true true
  false true false)
  (String.String
  (Ascii.Ascii false true true true
  false true true false)
  (String.String
  (Ascii.Ascii true true true
  true false true true false)
  (String.String
  (Ascii.Ascii false false true
  false true true true false)
  (String.String
  (Ascii.Ascii false false
  false true false true true
  false)
  (String.String
  (Ascii.Ascii false true false
  false true true true false)
  (String.String
  (Ascii.Ascii true true true
  true false true true false)
  (String.String
  (Ascii.Ascii true true true
  false true true true false)
  String.EmptyString)))))))))))))))))))))))))))))
  else p) src_turnOnDefaultNotThreadSafeNewDeleteOverloads) wire_default = false.
Proof. exact a_wiring_slip_is_rejected. Qed.
Print Assumptions C06_a_wiring_slip_is_rejected.
