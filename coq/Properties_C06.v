From Coq Require Import NArith Bool List.
From CppUVerif Require Import C06_Model C06_Proofs C06_Sim C06_Period C06_Examples C06_Wrap C06_Plug C06_PlugProofs C06_PlugExamples.
Theorem C06_category_exact : C06_category_exact_stmt. Proof. exact category_exact. Qed.
Print Assumptions C06_category_exact.
Theorem C06_user_writes_silent : C06_user_writes_silent_stmt. Proof. exact user_writes_silent. Qed.
Print Assumptions C06_user_writes_silent.
Theorem C06_every_guard_byte : C06_every_guard_byte_stmt. Proof. exact every_guard_byte. Qed.
Print Assumptions C06_every_guard_byte.
Theorem C06_null_silent : C06_null_silent_stmt. Proof. exact null_silent. Qed.
Print Assumptions C06_null_silent.
Theorem C06_paired_silent : C06_paired_silent_stmt. Proof. exact paired_silent. Qed.
Print Assumptions C06_paired_silent.
Theorem C06_poison_before_free : C06_poison_before_free_stmt. Proof. exact poison_before_free. Qed.
Print Assumptions C06_poison_before_free.
Theorem C06_block_removed_after_report : C06_block_removed_after_report_stmt. Proof. exact block_removed_after_report. Qed.
Print Assumptions C06_block_removed_after_report.
(* the scenario language of the check (plugin level: every form of operator new / delete, the malloc wrappers, the overload switches) *)
Theorem C06_run_meets_spec : C06_prun_meets_spec_stmt. Proof. exact prun_meets_spec. Qed.
Print Assumptions C06_run_meets_spec.
(* the detector-level language underneath it *)
Theorem C06_detector_run_meets_spec : C06_run_meets_spec_stmt. Proof. exact run_meets_spec. Qed.
Print Assumptions C06_detector_run_meets_spec.
Theorem C06_wrappers_transparent : C06_wrappers_transparent_stmt. Proof. exact wrappers_transparent. Qed.
Print Assumptions C06_wrappers_transparent.
Theorem C06_period_independent : C06_period_independent_stmt. Proof. exact period_independent. Qed.
Print Assumptions C06_period_independent.
Theorem C06_release_in_any_period : C06_release_in_any_period_stmt. Proof. exact release_in_any_period. Qed.
Print Assumptions C06_release_in_any_period.
(* the plugin layer: entry point table and overload-switch histories *)
Theorem C06_wiring_coherent : C06_wiring_coherent_stmt. Proof. exact wiring_coherent. Qed.
Print Assumptions C06_wiring_coherent.
Theorem C06_entry_family : C06_entry_family_stmt. Proof. exact entry_family. Qed.
Print Assumptions C06_entry_family.
Theorem C06_lowering_is_property_view : C06_lowering_is_property_view_stmt. Proof. exact lowering_is_property_view. Qed.
Print Assumptions C06_lowering_is_property_view.
Theorem C06_form_pair_exact : C06_form_pair_exact_stmt. Proof. exact form_pair_exact. Qed.
Print Assumptions C06_form_pair_exact.
Theorem C06_form_pair_by_family : C06_form_pair_by_family_stmt. Proof. exact form_pair_by_family. Qed.
Print Assumptions C06_form_pair_by_family.
Theorem C06_old_language_embedded : C06_old_language_embedded_stmt. Proof. exact old_language_embedded. Qed.
Print Assumptions C06_old_language_embedded.

(* ------------------------------------------------------------------------------------------------------------------
   The guard check of the model IS the source: validMemoryCorruptionInformation as tools/cxx2gal.py regenerates it from
   MemoryLeakDetector.cpp on every run (gen/Gen_LoopC06.v, byte memory of lib/CMem.v; GuardBytes is the pointer g) returns
   true exactly when each of the G cells behind the user bytes equals the pattern -- the model's valid_guard on those cells --
   reads nothing else, and needs only those G cells to exist.
   ------------------------------------------------------------------------------------------------------------------ *)
From Coq Require Import ZArith.
From CppUVerif Require Import lib.CSem lib.CMem lib.CMemFacts gen.Gen_C06 gen.Gen_LoopC06 C06_SrcTie.
Theorem C06_src_guard_check_is_the_model : forall fuel (m : CMem.memory) g bg og b o c0 c1 c2 r,
  mem_ok m -> g = Ptr bg og -> view m g = c06_guard_bytes ->
  view m (Ptr b o) = c0 :: c1 :: c2 :: r -> (3 < fuel)%nat ->
  src_validGuard fuel m g (Ptr b o) = FOk (b2z (guard_ok (c0 :: c1 :: c2 :: r))).
Proof. exact src_validGuard_spec. Qed.
Print Assumptions C06_src_guard_check_is_the_model.
Theorem C06_guard_ok_is_valid_guard : forall (mm : C06_Model.memory) p cells,
  (forall i, (i < G)%nat -> mread mm (p + N.of_nat i) = nth i cells 0%N) -> valid_guard mm p = guard_ok cells.
Proof. exact guard_ok_is_valid_guard. Qed.
Print Assumptions C06_guard_ok_is_valid_guard.
(* addMemoryCorruptionInformation stores exactly the model's `pattern` into the G cells at its argument; every other cell of every
   block keeps its value (the resulting memory differs from m only there) *)
Theorem C06_src_guard_write_is_the_model : forall fuel (m : CMem.memory) bg og b pre c0 c1 c2 r,
  mem_ok m -> bg <> b -> (b < length m)%nat -> view m (Ptr bg og) = c06_guard_bytes ->
  block m b = pre ++ c0 :: c1 :: c2 :: r -> (3 < fuel)%nat ->
  src_addGuard fuel m (Ptr bg og) (Ptr b (Z.of_nat (length pre))) = FOk (tt, upd m b (pre ++ pattern ++ r)).
Proof. exact src_addGuard_spec. Qed.
Print Assumptions C06_src_guard_write_is_the_model.
