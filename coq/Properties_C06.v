From Coq Require Import NArith Bool List.
From CppUVerif Require Import C06_Model C06_Proofs.
Theorem C06_null_silent : C06_null_silent_stmt. Proof. exact null_silent. Qed.
Print Assumptions C06_null_silent.
