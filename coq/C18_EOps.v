(* C18 -- environment mode: every operation of the model keeps the invariants and passes the oracle's checks:
   a request / a release at the cache under a re-entering allocator, requests / releases straight at an allocator,
   construction, destruction. *)
From Coq Require Import NArith Arith Bool List Lia Permutation.
From CppUVerif Require Import gen.Gen_C18 C18_Model C18_Lists C18_Inv C18_Sim C18_ModelG C18_GInv C18_GSim C18_ModelE C18_EInv C18_EBooks C18_ELife.
Import ListNotations.
Local Open Scope N_scope.

(* ---------------------------------------------------------------- buffers in use *)
Lemma lvk_app : forall a b t, lvk (a ++ b) t = lvk a t ++ lvk b t.
Proof. intros. unfold lvk. rewrite filter_app, map_app. reflexivity. Qed.
Lemma lvk_cons_own : forall e live t, le_own e = t -> lvk (e :: live) t = (le_id e, cls (le_req e)) :: lvk live t.
Proof. intros e live t H. unfold lvk. simpl. unfold owned_by at 1. rewrite H, N.eqb_refl. reflexivity. Qed.
Lemma lvk_cons_other : forall e live t, le_own e <> t -> lvk (e :: live) t = lvk live t.
Proof. intros e live t H. unfold lvk. simpl. unfold owned_by at 1. apply N.eqb_neq in H. rewrite H. reflexivity. Qed.
Lemma is_dir_false : forall e t, le_own e = t -> 2 <= t -> is_dir e = false.
Proof. intros e t H1 H2. unfold is_dir. apply N.ltb_ge. lia. Qed.
Lemma is_dir_true : forall e, le_own e < 2 -> is_dir e = true.
Proof. intros e H. unfold is_dir. apply N.ltb_lt. exact H. Qed.

Lemma KI_live : forall st tab t b live live', KI st tab t b live -> lvk live' t = lvk live t ->
  (forall e, In e live' -> le_own e = t -> In e live) -> KI st tab t b live'.
Proof.
  intros st tab t b live live' [K1 K2 K3 K4 K5 K6] E H. constructor; auto; try (rewrite E; exact K3).
Qed.
Lemma KIo_live : forall o t b live live', KIo o t b live -> lvk live' t = lvk live t ->
  (forall e, In e live' -> le_own e = t -> In e live) -> KIo o t b live'.
Proof. intros [[st tab]|] t b live live' K E H; simpl in *; [eapply KI_live; eauto | exact I]. Qed.
Lemma KIo_grow : forall o t b b' live, bgrow b b' -> KIo o t b live -> KIo o t b' live.
Proof. intros [[st tab]|] t b b' live G K; simpl in *; [eapply KI_grow; eauto | exact I]. Qed.

(* a buffer comes into use on the cache's account *)
Lemma BI_live_cache : forall pend o t base b live e, BI pend o t base b live -> o <> None -> le_own e = t -> 2 <= t ->
  ~ In (le_id e) (lids live) -> BI pend o t base b (e :: live).
Proof.
  intros pend o t base b live e [B1 B2 B3 B4 B5 B6 B7 B8 B9] Ho He Ht Hn.
  assert (D : dir_ids (e :: live) = dir_ids live) by (rewrite dir_ids_cons, (is_dir_false e t He Ht); reflexivity).
  constructor; auto; rewrite ?D; auto.
  - intros x [<-|H] Hx; [lia | apply B5; assumption].
  - intros x [<-|H]; [right; auto | apply B6; exact H].
  - cbn [lids map]. constructor; [exact Hn | exact B8].
Qed.
(* ... goes out of use *)
Lemma BI_drop_cache : forall pend o t base b l1 e l2, BI pend o t base b (l1 ++ e :: l2) -> 2 <= le_own e -> BI pend o t base b (l1 ++ l2).
Proof.
  intros pend o t base b l1 e l2 [B1 B2 B3 B4 B5 B6 B7 B8 B9] He.
  assert (D : dir_ids (l1 ++ e :: l2) = dir_ids (l1 ++ l2)).
  { rewrite !dir_ids_app, dir_ids_cons. replace (is_dir e) with false; [reflexivity|]. symmetry. unfold is_dir. apply N.ltb_ge. exact He. }
  rewrite D in *. constructor; auto.
  - intros x H. apply B5. apply in_app_iff in H. apply in_or_app. destruct H; [left | right; right]; assumption.
  - intros x H. apply B6. apply in_app_iff in H. apply in_or_app. destruct H; [left | right; right]; assumption.
  - rewrite lids_app in *. cbn [lids map] in B8. eapply NoDup_remove_1. exact B8.
Qed.
(* a pending block becomes the block of a buffer in use that an allocator served directly *)
Lemma BI_adopt : forall pend o t base b live id n tg, BI (id :: pend) o t base b live -> tg < 2 ->
  xszof (xo b) id = Some (who_of_tag tg, n) -> ~ In id (lids live) -> BI pend o t base b ((id, 0, n, tg) :: live).
Proof.
  intros pend o t base b live id n tg [B1 B2 B3 B4 B5 B6 B7 B8 B9] Ht Ho Hn.
  assert (D : dir_ids ((id, 0, n, tg) :: live) = id :: dir_ids live).
  { rewrite dir_ids_cons. rewrite is_dir_true; [reflexivity | exact Ht]. }
  constructor; auto; rewrite ?D.
  - simpl in B1. eapply Permutation_NoDup; [|exact B1]. rewrite !app_assoc. apply Permutation_middle.
  - intros x H. apply B2. right. exact H.
  - intros x H1 H2. destruct (B3 x H1 H2) as [G|[G|G]]; [left; exact G | | right; right; right; exact G].
    destruct G as [<-|G]; [right; right; left; reflexivity | right; left; exact G].
  - intros e [<-|H] He.
    + unfold le_off, le_id, le_req, le_own. cbn [fst snd]. split; [reflexivity|]. split; [exact Ho|]. apply (B2 id). left. reflexivity.
    + apply B5; assumption.
  - intros e [<-|H]; [left; exact Ht | apply B6; exact H].
  - cbn [lids map le_id fst]. constructor; [exact Hn | exact B8].
Qed.
(* ... and back: the buffer is released, its block is pending again *)
Lemma BI_unadopt : forall pend o t base b l1 e l2, BI pend o t base b (l1 ++ e :: l2) -> le_own e < 2 -> BI (le_id e :: pend) o t base b (l1 ++ l2).
Proof.
  intros pend o t base b l1 e l2 [B1 B2 B3 B4 B5 B6 B7 B8 B9] He.
  assert (D : Permutation (dir_ids (l1 ++ e :: l2)) (le_id e :: dir_ids (l1 ++ l2))).
  { rewrite !dir_ids_app, dir_ids_cons, (is_dir_true e He). apply Permutation_sym. apply Permutation_middle. }
  assert (Hin : In e (l1 ++ e :: l2)) by (apply in_or_app; right; left; reflexivity).
  destruct (B5 e Hin He) as [G1 [G2 G3]].
  assert (Hsub : forall x, In x (l1 ++ l2) -> In x (l1 ++ e :: l2)).
  { intros x H. apply in_app_iff in H. apply in_or_app. destruct H; [left | right; right]; assumption. }
  constructor.
  - simpl. eapply Permutation_NoDup; [|exact B1].
    eapply perm_trans; [apply Permutation_app_head; apply Permutation_app_head; exact D|].
    rewrite !app_assoc. apply Permutation_sym. apply Permutation_middle.
  - intros x [<-|H]; [|apply B2; exact H]. split; [eapply xszof_lt; exact G2 | exact G3].
  - intros x H1 H2. destruct (B3 x H1 H2) as [G|[G|G]]; [left; exact G | right; left; right; exact G|].
    eapply Permutation_in in G; [|exact D]. destruct G as [<-|G]; [right; left; left; reflexivity | right; right; exact G].
  - exact B4.
  - intros x H. apply B5. apply Hsub. exact H.
  - intros x H. apply B6. apply Hsub. exact H.
  - exact B7.
  - rewrite lids_app in *. cbn [lids map] in B8. eapply NoDup_remove_1. exact B8.
  - exact B9.
Qed.

(* ---------------------------------------------------------------- a request at the cache *)
Lemma pend_not_live : forall pend st tab t base b live id, BI pend (Some (st, tab)) t base b live -> KI st tab t b live ->
  In id pend -> ~ In id (lids live).
Proof.
  intros pend st tab t base b live id B K H. eapply idle_not_live; [exact B | exact K | apply in_or_app; left; exact H|].
  intros G. apply outk_in_ids in G. pose proof (bi_nodup _ _ _ _ _ _ B) as N.
  eapply (NoDup_app_mid _ pend (held (Some (st, tab))) (dir_ids live) id N H). simpl. right. exact G.
Qed.

Lemma add_used_ok : forall st2 st' tab t base b live n h m k,
  BI [m; h] (Some (st2, tab)) t base b live -> KI st2 tab t b live ->
  map n_size (s_cache st') = class_sizes ->
  Permutation (kblocks st') ((k, {| b_hdr := h; b_mem := m |}) :: kblocks st2) ->
  Permutation (ublocks st') ((k, {| b_hdr := h; b_mem := m |}) :: ublocks st2) ->
  k = cls n -> seen_cls (xs b) m = None ->
  blk_sat (see b m (cls n)) (k, {| b_hdr := h; b_mem := m |}) ->
  BI [] (Some (st', tab)) t base (see b m (cls n)) ((m, 0, n, t) :: live) /\ KI st' tab t (see b m (cls n)) ((m, 0, n, t) :: live).
Proof.
  intros st2 st' tab t base b live n h m k B K Hs Pk Pu Hk S0 Hsat.
  assert (Hm : m < xlen b) by (apply (bi_rng _ _ _ _ _ _ B m); left; reflexivity).
  assert (Hnl : ~ In m (lids live)) by (eapply pend_not_live; [exact B | exact K | left; reflexivity]).
  assert (G : bgrow b (see b m (cls n))) by (apply bgrow_see; exact S0).
  split.
  - apply BI_live_cache; [|discriminate | reflexivity | exact (ki_tag _ _ _ _ _ K) | exact Hnl].
    apply (BI_move [m; h] [] (Some (st2, tab)) (Some (st', tab))); [|split; discriminate | apply BI_see; [exact Hm | exact B]].
    simpl. apply (ids_perm st2 st' [(k, {| b_hdr := h; b_mem := m |})]) in Pk. cbn [flat_map kb_ids snd b_hdr b_mem app] in Pk.
    eapply perm_trans; [apply perm_swap|].
    change (h :: m :: tab :: ids st2) with ([h; m] ++ tab :: ids st2).
    eapply perm_trans; [apply Permutation_sym; apply Permutation_middle|]. constructor. apply Permutation_sym. exact Pk.
  - constructor.
    + exact Hs.
    + intros kb Hkb. eapply Permutation_in in Hkb; [|exact Pk]. destruct Hkb as [<-|Hkb]; [exact Hsat|].
      eapply blk_sat_grow; [exact G|]. apply (ki_blk _ _ _ _ _ K). exact Hkb.
    + rewrite lvk_cons_own; [|reflexivity]. unfold le_id, le_req. cbn [fst snd].
      apply (outk_perm st2 st' [(k, {| b_hdr := h; b_mem := m |})]) in Pu. cbn [map snd fst b_mem app] in Pu.
      eapply perm_trans; [exact Pu|]. rewrite Hk. constructor. exact (ki_live _ _ _ _ _ K).
    + destruct G as [G _]. apply G. exact (ki_tab _ _ _ _ _ K).
    + intros e [<-|H] He; [reflexivity | eapply (ki_off _ _ _ _ _ K); eauto].
    + exact (ki_tag _ _ _ _ _ K).
Qed.

Lemma link_ok : forall st0 st2 tab t base b live n h m sz,
  BI [m; h] (Some (st2, tab)) t base b live -> KI st2 tab t b live -> s_non st2 = s_non st0 ->
  xszof (xo b) h = Some (who_U, block_hdr_size) -> xszof (xo b) m = Some (who_U, sz) -> seen_cls (xs b) m = None ->
  (cls n = Some sz \/ (is_cached n = false /\ sz = n)) ->
  handout live b m 0 n = Some (see b m (cls n)) /\
  BI [] (Some (link st0 st2 n h m, tab)) t base (see b m (cls n)) ((m, 0, n, t) :: live) /\
  KI (link st0 st2 n h m) tab t (see b m (cls n)) ((m, 0, n, t) :: live).
Proof.
  intros st0 st2 tab t base b live n h m sz B K Hnon Oh Om S0 Hc.
  assert (Hnl : ~ In m (lids live)) by (eapply pend_not_live; [exact B | exact K | left; reflexivity]).
  assert (Hnf : ~ In m (xf b)) by (apply (bi_rng _ _ _ _ _ _ B m); left; reflexivity).
  assert (Hle : n <= sz) by (destruct Hc as [Hc|[_ Hc]]; [apply cls_some_cached in Hc; tauto | lia]).
  split; [unfold see; eapply handout_fresh; eauto|].
  pose proof (ki_sizes _ _ _ _ _ K) as Hs.
  destruct Hc as [Hc|[Hc1 Hc2]].
  - assert (C : is_cached n = true) by (apply is_cached_cls; eauto).
    destruct (class_lookup _ n Hs C) as [l1 [nd [l2 [H1 [_ [_ [_ H5]]]]]]].
    assert (Es : sz = n_size nd) by congruence. subst sz.
    rewrite (link_cached_at st0 st2 l1 nd l2 n h m Hs H1 H5).
    set (nb := {| b_hdr := h; b_mem := m |}).
    set (nd' := {| n_size := n_size nd; n_free := n_free nd; n_used := nb :: n_used nd |}).
    apply (add_used_ok st2 _ tab t base b live n h m (Some (n_size nd))); auto.
    + cbn [with_cache s_cache]. rewrite <- Hs, H1. apply map_mid_size. reflexivity.
    + apply (kblocks_node st2 _ l1 nd nd' l2 [(Some (n_size nd), nb)]); auto.
      unfold kb_node. cbn [nd' n_size n_free n_used]. rewrite !map_app. simpl. apply Permutation_sym. apply Permutation_middle.
    + apply (ublocks_node st2 _ l1 nd nd' l2 [(Some (n_size nd), nb)]); auto.
    + split; [|split]; cbn [fst snd b_hdr b_mem see xo xs]; [exact Oh | exact Om|]. rewrite seen_cls_here. f_equal. exact Hc.
  - subst sz. rewrite (link_non st0 st2 n h m Hc1).
    set (nb := {| b_hdr := h; b_mem := m |}).
    set (st' := {| s_cache := s_cache st2; s_non := nb :: s_non st0; s_warned := s_warned st2; s_next := s_next st2 |}).
    destruct (kblocks_non st2 st' nb eq_refl) as [Pk Pu]; [cbn [st' s_non]; rewrite Hnon; reflexivity|].
    apply (add_used_ok st2 st' tab t base b live n h m None); auto.
    + symmetry. apply cls_not_cached. exact Hc1.
    + split; [|split]; cbn [fst snd b_hdr b_mem see xo xs]; [exact Oh | |].
      * exists n. split; [|exact Om]. unfold is_cached in Hc1. apply N.leb_gt in Hc1. exact Hc1.
      * rewrite seen_cls_here. f_equal. apply cls_not_cached. exact Hc1.
Qed.

Lemma alloc_hit_ok : forall st tab t base b live n st' p,
  BI [] (Some (st, tab)) t base b live -> KI st tab t b live -> need st n = None -> alloc_hit st n = (st', p) ->
  handout live b p 0 n = Some b /\ BI [] (Some (st', tab)) t base b ((p, 0, n, t) :: live) /\ KI st' tab t b ((p, 0, n, t) :: live).
Proof.
  intros st tab t base b live n st' p B K Hn Ha. pose proof (ki_sizes _ _ _ _ _ K) as Hs.
  destruct (need_none st n Hs Hn) as [l1 [nd [l2 [blk [fr [H1 [H2 [H3 H4]]]]]]]]. rewrite H4 in Ha. inversion Ha; subst st' p. clear Ha.
  set (nd' := {| n_size := n_size nd; n_free := fr; n_used := blk :: n_used nd |}).
  assert (Hk : In (Some (n_size nd), blk) (kblocks st)) by (eapply in_kblocks_node; [exact H1 | rewrite H2; left; reflexivity]).
  destruct (ki_blk _ _ _ _ _ K _ Hk) as [_ [Hm Hseen]]. cbn [fst snd] in Hm, Hseen.
  destruct (in_ids_kb _ _ _ Hk) as [_ Hi]. destruct (held_fresh _ _ _ _ _ _ _ _ B Hi) as [_ Hnf].
  assert (Hnd : In nd (s_cache st)) by (rewrite H1; apply in_or_app; right; left; reflexivity).
  assert (Hnl : ~ In (b_mem blk) (lids live)).
  { eapply idle_not_live; [exact B | exact K | apply in_or_app; right; simpl; right; exact Hi|].
    apply rest_not_out; [eapply BI_ids_nodup; exact B|]. eapply free_in_rest; [exact Hnd | rewrite H2; left; reflexivity]. }
  assert (Pk : Permutation (kblocks (with_cache st (l1 ++ nd' :: l2))) ([] ++ kblocks st)).
  { apply (kblocks_node st _ l1 nd nd' l2 []); auto. unfold kb_node. cbn [nd' n_size n_free n_used app]. rewrite H2.
    apply Permutation_map. apply Permutation_sym. apply Permutation_middle. }
  assert (Pu : Permutation (ublocks (with_cache st (l1 ++ nd' :: l2))) ([(Some (n_size nd), blk)] ++ ublocks st)).
  { apply (ublocks_node st _ l1 nd nd' l2 [(Some (n_size nd), blk)]); auto. }
  split; [|split].
  - apply (handout_seen live b (b_mem blk) n who_U (n_size nd)); auto.
    + apply cls_some_cached in H3. tauto.
    + rewrite Hseen, H3. reflexivity.
  - apply BI_live_cache; [|discriminate | reflexivity | exact (ki_tag _ _ _ _ _ K) | exact Hnl].
    apply (BI_move [] [] (Some (st, tab)) (Some (with_cache st (l1 ++ nd' :: l2), tab))); [|split; discriminate | exact B].
    simpl. constructor. apply Permutation_sym. apply (ids_perm st _ []) in Pk. exact Pk.
  - constructor.
    + cbn [with_cache s_cache]. rewrite <- Hs, H1. apply map_mid_size. reflexivity.
    + intros kb Hkb. eapply Permutation_in in Hkb; [|exact Pk]. apply (ki_blk _ _ _ _ _ K). exact Hkb.
    + rewrite lvk_cons_own; [|reflexivity]. unfold le_id, le_req. cbn [fst snd].
      apply (outk_perm st _ [(Some (n_size nd), blk)]) in Pu. cbn [map snd fst app] in Pu.
      eapply perm_trans; [exact Pu|]. rewrite H3. constructor. exact (ki_live _ _ _ _ _ K).
    + exact (ki_tab _ _ _ _ _ K).
    + intros e [<-|H] He; [reflexivity | eapply (ki_off _ _ _ _ _ K); eauto].
    + exact (ki_tag _ _ _ _ _ K).
Qed.

Definition alloc_post (st' : state) (tab t base : N) (b : xbk) (live : list lentry) (p n nx' : N) (b' : xbk) : Prop :=
  nx' = xlen b' /\ bgrow b b' /\ ~ In p (lids live) /\
  BI [] (Some (st', tab)) t base b' ((p, 0, n, t) :: live) /\ KI st' tab t b' ((p, 0, n, t) :: live).

Lemma r_alloc_ok : forall st tab t base b live ra n st' nx' p e,
  BI [] (Some (st, tab)) t base b live -> KI st tab t b live -> r_alloc ra st (xlen b) n = (st', nx', p, e) ->
  exists b1 b', x_applies 0 live b e = Some b1 /\ handout live b1 p 0 n = Some b' /\ alloc_post st' tab t base b live p n nx' b'.
Proof.
  intros st tab t base b live ra n st' nx' p e B K R. unfold r_alloc in R. pose proof (ki_sizes _ _ _ _ _ K) as Hs.
  destruct (need st n) as [sz|] eqn:Nd.
  - set (nx := xlen b) in *.
    destruct (olife ra st (nx + 1)) as [[st1 nx1] e1] eqn:L1. destruct (olife ra st1 (nx1 + 1)) as [[st2 nx2] e2] eqn:L2.
    inversion R; subst st' nx' p e. clear R.
    (* the header *)
    set (bA := grow1 b who_U block_hdr_size).
    assert (LA : xlen bA = nx + 1) by apply xlen_grow1.
    assert (BA : BI [nx] (Some (st, tab)) t base bA live) by (apply BI_XA; exact B).
    assert (KA : KI st tab t bA live) by (eapply KI_grow; [apply bgrow_grow1 | exact K]).
    rewrite <- LA in L1. destruct (olife_ok [nx] st tab t base bA live ra 0 st1 nx1 e1 BA KA L1) as [bB [XB [PB1 [PB2 [PB3 [PB4 [PB5 PB6]]]]]]].
    (* the buffer *)
    set (bC := grow1 bB who_U sz).
    assert (LC : xlen bC = nx1 + 1) by (unfold bC; rewrite xlen_grow1, PB1; reflexivity).
    assert (BC : BI [nx1; nx] (Some (st1, tab)) t base bC live) by (rewrite PB1; apply BI_XA; exact PB3).
    assert (KC : KI st1 tab t bC live) by (eapply KI_grow; [apply bgrow_grow1 | exact PB4]).
    rewrite <- LC in L2. destruct (olife_ok [nx1; nx] st1 tab t base bC live ra 0 st2 nx2 e2 BC KC L2) as [bD [XD [PD1 [PD2 [PD3 [PD4 [PD5 PD6]]]]]]].
    assert (GAD : bgrow bA bD).
    { eapply bgrow_trans; [exact PB2|]. eapply bgrow_trans; [apply bgrow_grow1 | exact PD2]. }
    assert (Oh : xszof (xo bD) nx = Some (who_U, block_hdr_size)) by (destruct GAD as [G _]; apply G; apply grow1_new).
    assert (Om : xszof (xo bD) nx1 = Some (who_U, sz)).
    { destruct PD2 as [G _]. apply G. rewrite PB1. apply grow1_new. }
    assert (S0 : seen_cls (xs bD) nx1 = None).
    { rewrite PD6; [|left; reflexivity]. cbn [bC grow1 xs]. eapply seen_lt_none; [exact (bi_seenp _ _ _ _ _ _ PB3) | lia]. }
    assert (Hc : cls n = Some sz \/ (is_cached n = false /\ sz = n)).
    { destruct (need_some st n sz Hs Nd) as [[l1 [nd [l2 [C [_ [_ [H5 [H6 _]]]]]]]]|[C [H6 _]]]; [left; congruence | right; auto]. }
    destruct (link_ok st st2 tab t base bD live n nx nx1 sz PD3 PD4) as [HO [BF KF]]; auto; [congruence|].
    exists bD, (see bD nx1 (cls n)). split; [|split; [exact HO|]].
    + cbn [x_applies]. unfold nx. rewrite apply_XA. fold bA. rewrite x_applies_app, XB. cbn [x_applies]. rewrite PB1, apply_XA. fold bC. exact XD.
    + split; [unfold see, xlen; cbn [xo]; exact PD1|]. split; [|split; [|split; [exact BF | exact KF]]].
      * eapply bgrow_trans; [apply bgrow_grow1|]. eapply bgrow_trans; [exact GAD|]. apply bgrow_see. exact S0.
      * eapply pend_not_live; [exact PD3 | exact PD4 | left; reflexivity].
  - destruct (alloc_hit st n) as [st1 p1] eqn:Ah. inversion R; subst st' nx' p e. clear R.
    destruct (alloc_hit_ok st tab t base b live n st1 p1 B K Nd Ah) as [HO [BF KF]].
    exists b, b. split; [reflexivity|]. split; [exact HO|]. split; [reflexivity|]. split; [apply bgrow_refl|]. split; [|split; [exact BF | exact KF]].
    pose proof (bi_lnd _ _ _ _ _ _ BF) as N. cbn [lids map] in N. inversion N; assumption.
Qed.

(* ---------------------------------------------------------------- a release at the cache *)
Lemma in_ublocks_cases : forall st k blk, In (k, blk) (ublocks st) ->
  (exists l1 nd l2, s_cache st = l1 ++ nd :: l2 /\ k = Some (n_size nd) /\ In blk (n_used nd)) \/ (k = None /\ In blk (s_non st)).
Proof.
  intros st k blk H. unfold ublocks in H. apply in_app_iff in H. destruct H as [H|H].
  - left. apply in_flat_map in H. destruct H as [nd [H1 H2]]. unfold ub_node in H2. apply in_map_iff in H2. destruct H2 as [x [E H2]].
    inversion E; subst. apply in_split in H1. destruct H1 as [l1 [l2 H1]]. exists l1, nd, l2. auto.
  - right. apply in_map_iff in H. destruct H as [x [E H]]. inversion E; subst. auto.
Qed.

Definition rel_post (st' : state) (tab t base : N) (b : xbk) (live' : list lentry) (nx' : N) (b' : xbk) : Prop :=
  nx' = xlen b' /\ bgrow b b' /\ BI [] (Some (st', tab)) t base b' live' /\ KI st' tab t b' live'.

Lemma r_dealloc_ok : forall st tab t base b l1 l2 id n rf st' nx' e wn,
  BI [] (Some (st, tab)) t base b (l1 ++ (id, 0, n, t) :: l2) -> KI st tab t b (l1 ++ (id, 0, n, t) :: l2) ->
  r_dealloc rf st (xlen b) (PId id) n = (st', nx', e, wn) ->
  exists b', x_applies n (l1 ++ l2) b e = Some b' /\ wn = false /\ rel_post st' tab t base b (l1 ++ l2) nx' b'.
Proof.
  intros st tab t base b l1 l2 id n rf st' nx' e wn B K R. pose proof (ki_sizes _ _ _ _ _ K) as Hs.
  set (e0 := (id, 0, n, t)) in *. set (live := l1 ++ e0 :: l2) in *. set (live' := l1 ++ l2).
  assert (Ht : 2 <= t) by exact (ki_tag _ _ _ _ _ K).
  assert (E0 : In (id, cls n) (outk st)).
  { eapply Permutation_in; [apply Permutation_sym; exact (ki_live _ _ _ _ _ K)|]. apply in_lvk. exists e0.
    split; [apply in_or_app; right; left; reflexivity | auto]. }
  apply in_outk in E0. destruct E0 as [blk [Hu Eid]].
  assert (Lk : Permutation (lvk live t) ((id, cls n) :: lvk live' t)).
  { unfold live, live'. rewrite !lvk_app. rewrite lvk_cons_own; [|reflexivity]. apply Permutation_sym. apply Permutation_middle. }
  assert (B' : BI [] (Some (st, tab)) t base b live') by (eapply BI_drop_cache; [exact B | exact Ht]).
  assert (Hoff : forall x, In x live' -> le_own x = t -> le_off x = 0).
  { intros x H. apply (ki_off _ _ _ _ _ K). unfold live', live in *. apply in_app_iff in H. apply in_or_app. destruct H; [left | right; right]; assumption. }
  unfold r_dealloc in R.
  destruct (in_ublocks_cases _ _ _ Hu) as [[c1 [nd [c2 [H1 [H2 H3]]]]]|[H2 H3]].
  - (* a cached buffer: the block moves to the idle list of its class, no allocator call *)
    assert (Hin : In id (mems (n_used nd))) by (apply in_mems; exists blk; auto).
    destruct (dealloc_cached_at st c1 nd c2 n id Hs H1 H2 Hin) as [blk' [u1 [u2 [U1 [U2 U3]]]]].
    rewrite U3 in R. cbn [o_evs mk_out frees_with_lives o_warn] in R. inversion R; subst st' nx' e wn. clear R.
    set (nd' := {| n_size := n_size nd; n_free := blk' :: n_free nd; n_used := u1 ++ u2 |}).
    set (st' := with_cache st (c1 ++ nd' :: c2)).
    assert (Pk : Permutation (kblocks st') ([] ++ kblocks st)).
    { apply (kblocks_node st st' c1 nd nd' c2 []); auto. unfold kb_node. cbn [nd' n_size n_free n_used app]. rewrite U1.
      apply Permutation_map. simpl. rewrite !app_assoc. apply Permutation_middle. }
    assert (Pu : Permutation (ublocks st) ([(Some (n_size nd), blk')] ++ ublocks st')).
    { apply (ublocks_node st' st c1 nd' nd c2 [(Some (n_size nd), blk')]); auto. unfold ub_node. cbn [nd' n_size n_used]. rewrite U1.
      rewrite !map_app. simpl. apply Permutation_sym. apply Permutation_middle. }
    exists b. split; [reflexivity|]. split; [reflexivity|]. split; [reflexivity|]. split; [apply bgrow_refl|]. split.
    + apply (BI_move [] [] (Some (st, tab)) (Some (st', tab))); [|split; discriminate | exact B'].
      simpl. constructor. apply Permutation_sym. apply (ids_perm st st' []) in Pk. exact Pk.
    + constructor.
      * cbn [st' with_cache s_cache]. rewrite <- Hs, H1. apply map_mid_size. reflexivity.
      * intros kb Hkb. eapply Permutation_in in Hkb; [|exact Pk]. apply (ki_blk _ _ _ _ _ K). exact Hkb.
      * apply (outk_perm st' st [(Some (n_size nd), blk')]) in Pu. cbn [map snd fst app] in Pu. rewrite U2, <- H2 in Pu.
        apply (Permutation_cons_inv (a := (id, cls n))).
        eapply perm_trans; [apply Permutation_sym; exact Pu|]. eapply perm_trans; [exact (ki_live _ _ _ _ _ K) | exact Lk].
      * exact (ki_tab _ _ _ _ _ K).
      * exact Hoff.
      * exact Ht.
  - (* a buffer above the bound: unlinked, then buffer and header go back, each followed by the allocator's own string *)
    assert (C : is_cached n = false).
    { destruct (is_cached n) eqn:C; [|reflexivity]. apply is_cached_cls in C. destruct C as [s C]. congruence. }
    assert (Hin : In id (mems (s_non st))) by (apply in_mems; exists blk; auto).
    destruct (dealloc_non_at st n id C Hin) as [blk' [u1 [u2 [U1 [U2 U3]]]]].
    rewrite U3 in R. cbn [o_evs mk_out destroy_block frees_with_lives o_warn] in R.
    set (st1 := {| s_cache := s_cache st; s_non := u1 ++ u2; s_warned := s_warned st; s_next := s_next st |}) in *.
    set (nx := xlen b) in *.
    destruct (olife rf st1 nx) as [[st2 nx1] e1] eqn:L1. destruct (olife rf st2 nx1) as [[st3 nx2] e2] eqn:L2.
    inversion R; subst st' nx' e wn. clear R.
    destruct (kblocks_non_mid st st1 u1 blk' u2 eq_refl U1 eq_refl) as [Pk Pu].
    assert (Hk : In (None, blk') (kblocks st)) by (eapply Permutation_in; [apply Permutation_sym; exact Pk | left; reflexivity]).
    destruct (ki_blk _ _ _ _ _ K _ Hk) as [Oh [[a [Ha Om]] _]]. cbn [fst snd] in Oh, Om. rewrite U2 in Om.
    (* unlinked: both blocks are pending *)
    assert (B1 : BI [id; b_hdr blk'] (Some (st1, tab)) t base b live').
    { apply (BI_move [] [id; b_hdr blk'] (Some (st, tab)) (Some (st1, tab))); [|split; discriminate | exact B'].
      simpl. apply (ids_perm st1 st [(None, blk')]) in Pk. cbn [flat_map kb_ids snd app] in Pk. rewrite U2 in Pk.
      eapply perm_trans; [|apply perm_swap].
      change (b_hdr blk' :: id :: tab :: ids st1) with ([b_hdr blk'; id] ++ tab :: ids st1).
      eapply perm_trans; [|apply Permutation_middle]. constructor. exact Pk. }
    assert (K1 : KI st1 tab t b live').
    { constructor.
      - exact Hs.
      - intros kb Hkb. apply (ki_blk _ _ _ _ _ K). eapply Permutation_in; [apply Permutation_sym; exact Pk | right; exact Hkb].
      - apply (outk_perm st1 st [(None, blk')]) in Pu. cbn [map snd fst app] in Pu. rewrite U2, <- H2 in Pu.
        apply (Permutation_cons_inv (a := (id, cls n))).
        eapply perm_trans; [apply Permutation_sym; exact Pu|]. eapply perm_trans; [exact (ki_live _ _ _ _ _ K) | exact Lk].
      - exact (ki_tab _ _ _ _ _ K).
      - exact Hoff.
      - exact Ht. }
    (* the buffer goes back *)
    set (bA := free1 b id).
    assert (XA1 : x_apply n live' b (XF who_U id n) = Some bA).
    { apply (apply_XF n live' b who_U a id n Om).
      - apply (bi_rng _ _ _ _ _ _ B1 id). left. reflexivity.
      - unfold size_ok. replace (cached_bound <? a) with true by (symmetry; apply N.ltb_lt; exact Ha). rewrite N.eqb_refl. apply orb_true_r.
      - eapply pend_not_live; [exact B1 | exact K1 | left; reflexivity]. }
    assert (BA : BI [b_hdr blk'] (Some (st1, tab)) t base bA live') by (eapply BI_XF; [apply Permutation_refl | exact B1]).
    assert (KA : KI st1 tab t bA live') by (eapply KI_grow; [apply bgrow_free1 | exact K1]).
    assert (LA : xlen bA = nx) by reflexivity.
    rewrite <- LA in L1. destruct (olife_ok [b_hdr blk'] st1 tab t base bA live' rf n st2 nx1 e1 BA KA L1) as [bB [XB [PB1 [PB2 [PB3 [PB4 [PB5 PB6]]]]]]].
    (* the header goes back *)
    set (bC := free1 bB (b_hdr blk')).
    assert (XC : x_apply n live' bB (XF who_U (b_hdr blk') block_hdr_size) = Some bC).
    { apply (apply_XF n live' bB who_U block_hdr_size (b_hdr blk') block_hdr_size).
      - destruct PB2 as [G _]. apply G. exact Oh.
      - apply (bi_rng _ _ _ _ _ _ PB3 (b_hdr blk')). left. reflexivity.
      - apply size_ok_same.
      - eapply pend_not_live; [exact PB3 | exact PB4 | left; reflexivity]. }
    assert (BC : BI [] (Some (st2, tab)) t base bC live') by (eapply BI_XF; [apply Permutation_refl | exact PB3]).
    assert (KC : KI st2 tab t bC live') by (eapply KI_grow; [apply bgrow_free1 | exact PB4]).
    assert (LC : xlen bC = nx1) by (rewrite PB1; reflexivity).
    rewrite <- LC in L2. destruct (olife_ok [] st2 tab t base bC live' rf n st3 nx2 e2 BC KC L2) as [bD [XD [PD1 [PD2 [PD3 [PD4 [PD5 PD6]]]]]]].
    exists bD. split; [|split; [reflexivity|]].
    + cbn [x_applies]. rewrite U2, XA1. rewrite x_applies_app, XB. cbn [x_applies]. rewrite XC. rewrite app_nil_r. exact XD.
    + split; [exact PD1|]. split; [|split; [exact PD3 | exact PD4]].
      eapply bgrow_trans; [apply bgrow_free1|]. eapply bgrow_trans; [exact PB2|]. eapply bgrow_trans; [apply bgrow_free1 | exact PD2].
Qed.

(* ---------------------------------------------------------------- requests and releases straight at an allocator *)
Lemma lids_all_dir : forall pend t base b live id, BI pend None t base b live -> In id (lids live) -> In id (dir_ids live).
Proof.
  intros pend t base b live id B H. unfold lids in H. apply in_map_iff in H. destruct H as [e [E H]].
  destruct (bi_own _ _ _ _ _ _ B e H) as [D|[D _]]; [|congruence]. apply in_dir_ids. exists e. auto.
Qed.
Lemma BI_lt_facts : forall pend o t base b live, BI pend o t base b live -> KIo o t b live ->
  (forall id k, In (id, k) (xs b) -> id < xlen b) /\ (forall id, In id (xf b) -> id < xlen b) /\ (forall id, In id (lids live) -> id < xlen b).
Proof.
  intros pend o t base b live B K. split; [exact (bi_seenp _ _ _ _ _ _ B)|]. split; [exact (bi_freed _ _ _ _ _ _ B)|].
  intros id H. eapply live_lt; eauto.
Qed.

(* the allocator's own string while the allocator itself is in force *)
Lemma odlife_ok : forall pend o t base b live r c e nx', BI pend o t base b live -> KIo o t b live -> dlife r (xlen b) = (e, nx') ->
  exists b', x_applies c live b e = Some b' /\ nx' = xlen b' /\ bgrow b b' /\ BI pend o t base b' live /\ KIo o t b' live /\
             (forall id, id < xlen b -> seen_cls (xs b') id = seen_cls (xs b) id) /\ (forall id, In id (xf b') -> In id (xf b) \/ xlen b <= id).
Proof.
  intros pend o t base b live [r|] c e nx' B K D.
  - destruct (BI_lt_facts _ _ _ _ _ _ B K) as [F1 [F2 F3]].
    pose proof (dlife_apply c live b r F1 F2 F3) as A. rewrite D in A. cbn [fst] in A.
    cbn [dlife] in D. inversion D; subst e nx'. exists (dlife1 b r). split; [exact A|]. split; [rewrite xlen_dlife1; reflexivity|].
    assert (G : bgrow b (dlife1 b r)) by (apply bgrow_dlife1; exact F1).
    split; [exact G|]. split; [apply BI_dlife1; exact B|]. split; [eapply KIo_grow; eauto|]. split.
    + intros id H. cbn [dlife1 xs]. apply seen_cls_skip. lia.
    + cbn [dlife1 xf]. intros id [<-|H]; [right; lia | left; exact H].
  - cbn [dlife] in D. inversion D; subst e nx'. exists b. split; [reflexivity|]. split; [reflexivity|]. split; [apply bgrow_refl|]. auto.
Qed.

Definition dalloc_post (o : option (state * N)) (t base : N) (b : xbk) (live : list lentry) (id n tg nx' : N) (b' : xbk) : Prop :=
  nx' = xlen b' /\ bgrow b b' /\ ~ In id (lids live) /\ BI [] o t base b' ((id, 0, n, tg) :: live) /\ KIo o t b' ((id, 0, n, tg) :: live).

Lemma KIo_dir_cons : forall o t b live e, KIo o t b live -> le_own e < 2 -> KIo o t b (e :: live).
Proof.
  intros [[st tab]|] t b live e K He; simpl in *; [|exact I]. pose proof (ki_tag _ _ _ _ _ K) as Ht.
  eapply KI_live; [exact K | apply lvk_cons_other; lia|]. intros x [<-|H] Hx; [lia | exact H].
Qed.
Lemma KIo_dir_drop : forall o t b l1 e l2, KIo o t b (l1 ++ e :: l2) -> le_own e < 2 -> KIo o t b (l1 ++ l2).
Proof.
  intros [[st tab]|] t b l1 e l2 K He; simpl in *; [|exact I]. pose proof (ki_tag _ _ _ _ _ K) as Ht.
  eapply KI_live; [exact K | rewrite !lvk_app, lvk_cons_other; [reflexivity | lia]|].
  intros x H _. apply in_app_iff in H. apply in_or_app. destruct H; [left | right; right]; assumption.
Qed.

Lemma direct_alloc_ok : forall o t base b live tg n r e nx', BI [] o t base b live -> KIo o t b live -> tg < 2 ->
  dlife r (xlen b + 1) = (e, nx') ->
  exists b1 b', x_applies 0 live b (XA (who_of_tag tg) (xlen b) n :: e) = Some b1 /\ handout live b1 (xlen b) 0 n = Some b' /\
                dalloc_post o t base b live (xlen b) n tg nx' b'.
Proof.
  intros o t base b live tg n r e nx' B K Ht D. set (nx := xlen b) in *.
  set (bA := grow1 b (who_of_tag tg) n).
  assert (LA : xlen bA = nx + 1) by apply xlen_grow1.
  assert (BA : BI [nx] o t base bA live) by (apply BI_XA; exact B).
  assert (KA : KIo o t bA live) by (eapply KIo_grow; [apply bgrow_grow1 | exact K]).
  rewrite <- LA in D. destruct (odlife_ok [nx] o t base bA live r 0 e nx' BA KA D) as [bB [XB [PB1 [PB2 [PB3 [PB4 [PB5 PB6]]]]]]].
  destruct (BI_lt_facts _ _ _ _ _ _ B K) as [F1 [F2 F3]].
  assert (Hnl : ~ In nx (lids live)) by (intros H; apply F3 in H; lia).
  assert (Om : xszof (xo bB) nx = Some (who_of_tag tg, n)) by (destruct PB2 as [G _]; apply G; apply grow1_new).
  assert (S0 : seen_cls (xs bB) nx = None).
  { rewrite PB5; [|lia]. cbn [bA grow1 xs]. eapply seen_lt_none; [exact F1 | lia]. }
  assert (Hnf : ~ In nx (xf bB)).
  { intros H. apply PB6 in H. destruct H as [H|H]; [cbn [bA grow1 xf] in H; apply F2 in H; lia | lia]. }
  exists bB, (see bB nx (cls n)). split; [|split].
  - cbn [x_applies]. unfold nx. rewrite apply_XA. fold bA. exact XB.
  - unfold see. eapply handout_fresh; eauto. lia.
  - split; [unfold see, xlen; cbn [xo]; exact PB1|]. split; [|split; [exact Hnl|]].
    + eapply bgrow_trans; [apply bgrow_grow1|]. eapply bgrow_trans; [exact PB2 | apply bgrow_see; exact S0].
    + split.
      * apply BI_adopt; [apply BI_see; [|exact PB3] | exact Ht | exact Om | exact Hnl]. destruct PB2 as [_ [_ G]]. lia.
      * apply KIo_dir_cons; [|exact Ht]. eapply KIo_grow; [apply bgrow_see; exact S0 | exact PB4].
Qed.

Lemma direct_rel_ok : forall o t base b l1 l2 id n tg r e nx', BI [] o t base b (l1 ++ (id, 0, n, tg) :: l2) -> KIo o t b (l1 ++ (id, 0, n, tg) :: l2) ->
  tg < 2 -> dlife r (xlen b) = (e, nx') ->
  exists b', x_applies n (l1 ++ l2) b (XF (who_of_tag tg) id n :: e) = Some b' /\ nx' = xlen b' /\ bgrow b b' /\
             BI [] o t base b' (l1 ++ l2) /\ KIo o t b' (l1 ++ l2).
Proof.
  intros o t base b l1 l2 id n tg r e nx' B K Ht D. set (e0 := (id, 0, n, tg)) in *.
  assert (Hin : In e0 (l1 ++ e0 :: l2)) by (apply in_or_app; right; left; reflexivity).
  destruct (bi_dir _ _ _ _ _ _ B e0 Hin Ht) as [_ [Om Hnf]]. unfold e0, le_id, le_req, le_own in Om, Hnf. cbn [fst snd] in Om, Hnf.
  assert (B1 : BI [id] o t base b (l1 ++ l2)) by (apply (BI_unadopt [] o t base b l1 e0 l2 B Ht)).
  assert (K1 : KIo o t b (l1 ++ l2)) by (eapply KIo_dir_drop; [exact K | exact Ht]).
  assert (Hnl : ~ In id (lids (l1 ++ l2))).
  { pose proof (bi_lnd _ _ _ _ _ _ B) as N. rewrite lids_app in N. cbn [lids map] in N. apply NoDup_remove_2 in N. rewrite lids_app. exact N. }
  set (bA := free1 b id).
  assert (XA1 : x_apply n (l1 ++ l2) b (XF (who_of_tag tg) id n) = Some bA) by (eapply apply_XF; eauto; apply size_ok_same).
  assert (BA : BI [] o t base bA (l1 ++ l2)) by (eapply BI_XF; [apply Permutation_refl | exact B1]).
  assert (KA : KIo o t bA (l1 ++ l2)) by (eapply KIo_grow; [apply bgrow_free1 | exact K1]).
  assert (LA : xlen bA = xlen b) by reflexivity.
  rewrite <- LA in D. destruct (odlife_ok [] o t base bA (l1 ++ l2) r n e nx' BA KA D) as [bB [XB [PB1 [PB2 [PB3 [PB4 _]]]]]].
  exists bB. split; [cbn [x_applies]; rewrite XA1; exact XB|]. split; [exact PB1|]. split; [|split; assumption].
  eapply bgrow_trans; [apply bgrow_free1 | exact PB2].
Qed.
