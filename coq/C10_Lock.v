(* C10 -- the lock discipline: invariant of every schedule, mutual exclusion, the lock is free whenever its last holder is
   between operations (also after a misuse report), absence of deadlock, every schedule can be run to the end. *)
From Coq Require Import NArith Arith Bool List Lia.
From CppUVerif Require Import C10_Wiring gen.Gen_C10 C10_Model C10_Steps.
Import ListNotations.

(* in_cs (C10_Model.v): the phases between the return of Lock() and the call of Unlock() *)

(* every entry point of the wiring takes the lock first *)
Definition all_lock (c : cfg) : Prop := forall o e, op_entry o = Some e -> op_locks c o = true.

Record LockInv (st : state) : Prop := {
  li_holder : forall t th, nth_error (st_threads st) t = Some th -> in_cs (th_phase th) = true -> st_lock st = LHeld t;
  li_held : forall t, st_lock st = LHeld t -> exists th, nth_error (st_threads st) t = Some th /\ in_cs (th_phase th) = true;
  li_snap : forall t th snap, nth_error (st_threads st) t = Some th -> th_phase th = PRead snap -> snap = st_sh st;
  li_shape : forall t th, nth_error (st_threads st) t = Some th -> th_phase th <> PIdle ->
             th_skip th = false /\ exists o r e, th_pc th = o :: r /\ op_entry o = Some e
}.

Lemma lockinv_update : forall st t th th' sh' lk' oa',
  LockInv st -> nth_error (st_threads st) t = Some th ->
  (in_cs (th_phase th') = true <-> lk' = LHeld t) ->
  (forall u, u <> t -> (lk' = LHeld u <-> st_lock st = LHeld u)) ->
  (sh' = st_sh st \/ st_lock st = LHeld t \/ st_lock st = LFree) ->
  (forall snap, th_phase th' = PRead snap -> snap = sh') ->
  (th_phase th' <> PIdle -> th_skip th' = false /\ exists o r e, th_pc th' = o :: r /\ op_entry o = Some e) ->
  LockInv (mk_state sh' lk' (set_nth (st_threads st) t th') oa').
Proof.
  intros st t th th' sh' lk' oa' I Hth H1 H2 H3 H4 H5.
  constructor; simpl.
  - intros u thu Hu Hcs. rewrite (nth_error_set_nth _ _ _ _ _ _ Hth) in Hu.
    destruct (Nat.eqb_spec t u).
    + subst. inversion Hu; subst. apply H1; auto.
    + apply H2; auto. eapply li_holder; eauto.
  - intros u Hl. destruct (Nat.eq_dec u t).
    + subst. exists th'. split. eapply nth_error_set_nth_same; eauto. apply H1; auto.
    + apply H2 in Hl; auto. destruct (li_held _ I _ Hl) as (thu & Hu & Hcs).
      exists thu. split; auto. rewrite nth_error_set_nth_other; auto.
  - intros u thu snap Hu Hp. rewrite (nth_error_set_nth _ _ _ _ _ _ Hth) in Hu.
    destruct (Nat.eqb_spec t u).
    + inversion Hu; subst. auto.
    + pose proof (li_snap _ I _ _ _ Hu Hp) as E. pose proof (li_holder _ I u thu Hu) as Hh. rewrite Hp in Hh. specialize (Hh eq_refl).
      destruct H3 as [-> | [E2 | E2]]; auto; rewrite Hh in E2; inversion E2; congruence.
  - intros u thu Hu Hp. rewrite (nth_error_set_nth _ _ _ _ _ _ Hth) in Hu.
    destruct (Nat.eqb_spec t u).
    + inversion Hu; subst. auto.
    + eapply li_shape; eauto.
Qed.

Lemma LHeld_inj : forall a b, LHeld a = LHeld b -> a = b.
Proof. intros. inversion H; auto. Qed.

Lemma held_by_refl : forall t, held_by t (LHeld t) = true.
Proof. intros. simpl. apply Nat.eqb_refl. Qed.

Section Lock.
Variable c : cfg.
Hypothesis Hlock : all_lock c.
Hypothesis Hunl : cfg_reporter_unlocks c = true.

Lemma lockinv_step : forall t st st', LockInv st -> tstep c t st st' -> LockInv st'.
Proof.
  intros t st st' I H.
  inversion H; subst; clear H; auto.
  - (* skip *)
    unfold upd_thread. fold (mk_state (st_sh st) (st_lock st) (set_nth (st_threads st) t (mk_thread r PIdle (if is_boundary o then next_test (th_loc th) else th_loc th) (negb (is_boundary o)))) (st_outallocs st)).
    eapply lockinv_update; eauto; simpl.
    + split; [discriminate|]. intros E. destruct (li_held _ I _ E) as (th2 & Hn & Hc). rewrite H0 in Hn. inversion Hn; subst. rewrite H2 in Hc. discriminate.
    + intros; tauto.
    + discriminate.
    + congruence.
  - (* local *)
    unfold upd_thread. fold (mk_state (st_sh st) (st_lock st) (set_nth (st_threads st) t (mk_thread r PIdle (fst (lstep o (th_loc th))) false)) (st_outallocs st)).
    eapply lockinv_update; eauto; simpl.
    + split; [discriminate|]. intros E. destruct (li_held _ I _ E) as (th2 & Hn & Hc). rewrite H0 in Hn. inversion Hn; subst. rewrite H2 in Hc. discriminate.
    + intros; tauto.
    + discriminate.
    + congruence.
  - (* acquire *)
    eapply lockinv_update; eauto; simpl.
    + tauto.
    + intros u Hu. rewrite H6. split; intros E; inversion E. congruence.
    + discriminate.
    + intros _. split; auto. eauto.
  - (* enter unlocked: excluded *)
    rewrite (Hlock _ _ H4) in H5. discriminate.
  - (* read *)
    unfold upd_thread. fold (mk_state (st_sh st) (st_lock st) (set_nth (st_threads st) t (mk_thread (o :: r) (PRead (st_sh st)) (th_loc th) false)) (st_outallocs st)).
    assert (Hh : st_lock st = LHeld t) by (eapply li_holder; eauto; rewrite H2; reflexivity).
    eapply lockinv_update; eauto; simpl.
    + tauto.
    + intros; tauto.
    + intros snap E. inversion E; auto.
    + intros _. destruct (li_shape _ I _ _ H0) as (_ & o' & r' & e & Hp & He). rewrite H2; discriminate.
      rewrite H1 in Hp. inversion Hp; subst. split; auto. eauto.
  - (* commit *)
    assert (Hh : st_lock st = LHeld t) by (eapply li_holder; eauto; rewrite H2; reflexivity).
    eapply lockinv_update; eauto; simpl.
    + destruct failed; simpl; tauto.
    + intros; tauto.
    + destruct failed; discriminate.
    + intros _. destruct (li_shape _ I _ _ H0) as (_ & o' & r' & e & Hp & He). rewrite H2; discriminate.
      rewrite H1 in Hp. inversion Hp; subst. split; auto. eauto.
  - (* exit *)
    assert (Hh : st_lock st = LHeld t) by (eapply li_holder; eauto; rewrite H2; reflexivity).
    destruct (li_shape _ I _ _ H0) as (_ & o' & r' & e & Hp & He). rewrite H2; discriminate.
    rewrite H1 in Hp. inversion Hp; subst.
    rewrite (Hlock _ _ He), Hh, held_by_refl. simpl.
    eapply lockinv_update; eauto; simpl.
    + split; discriminate.
    + intros u Hu. rewrite Hh. split; intros E; inversion E. congruence.
    + discriminate.
    + congruence.
  - (* failing *)
    assert (Hh : st_lock st = LHeld t) by (eapply li_holder; eauto; rewrite H2; reflexivity).
    rewrite Hunl, Hh, held_by_refl. simpl.
    eapply lockinv_update; eauto; simpl.
    + split; discriminate.
    + intros u Hu. rewrite Hh. split; intros E; inversion E. congruence.
    + discriminate.
    + intros _. destruct (li_shape _ I _ _ H0) as (_ & o' & r' & e & Hp & He). rewrite H2; discriminate.
      rewrite H1 in Hp. inversion Hp; subst. split; auto. eauto.
  - (* print, allocating *)
    eapply lockinv_update; eauto; simpl.
    + rewrite H4. split; discriminate.
    + intros; tauto.
    + discriminate.
    + congruence.
  - (* print *)
    unfold upd_thread. fold (mk_state (st_sh st) (st_lock st) (set_nth (st_threads st) t (mk_thread r PIdle (record_fail (th_loc th)) true)) (st_outallocs st)).
    eapply lockinv_update; eauto; simpl.
    + split; [discriminate|]. intros E. destruct (li_held _ I _ E) as (th2 & Hn & Hc). rewrite H0 in Hn. inversion Hn; subst. rewrite H2 in Hc. discriminate.
    + intros; tauto.
    + discriminate.
    + congruence.
Qed.

Lemma lockinv_init : forall s, LockInv (init_state s).
Proof.
  intros s. unfold init_state. constructor; simpl.
  - intros t th Hn Hc. apply nth_error_In in Hn. apply in_map_iff in Hn. destruct Hn as (sc & <- & _). discriminate.
  - discriminate.
  - intros t th snap Hn Hp. apply nth_error_In in Hn. apply in_map_iff in Hn. destruct Hn as (sc & <- & _). discriminate.
  - intros t th Hn Hp. apply nth_error_In in Hn. apply in_map_iff in Hn. destruct Hn as (sc & <- & _). simpl in Hp. congruence.
Qed.

Lemma lockinv_exec : forall sched st, LockInv st -> LockInv (exec c sched st).
Proof. intros. apply exec_invariant with (P := LockInv); auto. intros. eapply lockinv_step; eauto. Qed.

(* ---------------- mutual exclusion *)
Lemma mutex_of_inv : forall st t1 t2 th1 th2, LockInv st ->
  nth_error (st_threads st) t1 = Some th1 -> nth_error (st_threads st) t2 = Some th2 ->
  in_cs (th_phase th1) = true -> in_cs (th_phase th2) = true -> t1 = t2.
Proof.
  intros st t1 t2 th1 th2 I H1 H2 C1 C2.
  pose proof (li_holder _ I _ _ H1 C1) as E1. pose proof (li_holder _ I _ _ H2 C2) as E2. rewrite E1 in E2. inversion E2; auto.
Qed.

(* ---------------- the lock is never left held by a thread that is between operations / printing a failure / finished *)
Lemma lock_free_outside : forall st, LockInv st ->
  (forall t th, nth_error (st_threads st) t = Some th -> in_cs (th_phase th) = false) -> st_lock st = LFree.
Proof.
  intros st I H. destruct (st_lock st) eqn:E; auto.
  destruct (li_held _ I _ E) as (th & Hn & Hc). rewrite (H _ _ Hn) in Hc. discriminate.
Qed.

(* ---------------- progress *)
Lemma weight_set_nth : forall ths t th th', nth_error ths t = Some th ->
  fold_right (fun th a => thread_weight th + a) 0 (set_nth ths t th') + thread_weight th
  = fold_right (fun th a => thread_weight th + a) 0 ths + thread_weight th'.
Proof.
  intros ths t th th' H. destruct (set_nth_split _ _ _ th' _ H) as (l1 & l2 & -> & -> & _).
  clear H. induction l1; simpl; lia.
Qed.

Lemma tstep_weight : forall t st st', tstep c t st st' -> st' = st \/ weight st' < weight st.
Proof.
  intros t st st' H. inversion H; subst; clear H; auto; right; unfold weight; simpl;
    match goal with Hn : nth_error (st_threads st) t = Some ?th |- context [set_nth _ _ ?th'] =>
      pose proof (weight_set_nth _ _ _ th' Hn) as W; assert (thread_weight th' < thread_weight th); [|lia] end;
    unfold thread_weight; simpl;
    repeat match goal with Hp : th_pc _ = _ |- _ => rewrite Hp; clear Hp end;
    repeat match goal with Hp : th_phase _ = _ |- _ => rewrite Hp; clear Hp end; simpl;
    try (destruct r; simpl; lia); try (destruct failed; simpl; lia).
Qed.

Lemma enabled_step_moves : forall t st, enabled c st t = true -> step c t st <> st.
Proof.
  intros t st He Heq. unfold enabled in He. unfold step in Heq.
  destruct (nth_error (st_threads st) t) as [th|] eqn:Hth; [|discriminate].
  assert (Hdiff : forall th' sh lk oa, mk_state sh lk (set_nth (st_threads st) t th') oa = st -> th' = th).
  { intros th' sh lk oa E. apply (f_equal st_threads) in E. simpl in E.
    pose proof (nth_error_set_nth_same _ _ _ th' _ Hth) as E2. rewrite E in E2. congruence. }
  destruct (th_pc th) as [|o r] eqn:Hpc; [discriminate|].
  destruct (th_phase th) eqn:Hph.
  - destruct (th_skip th) eqn:Hsk.
    + assert (E : upd_thread st t (mk_thread r PIdle (if is_boundary o then next_test (th_loc th) else th_loc th) (negb (is_boundary o))) = st)
        by (destruct o; exact Heq).
      apply Hdiff in E. rewrite <- E in Hpc. simpl in Hpc. clear -Hpc. induction r; inversion Hpc; auto.
    + simpl in He. destruct (op_entry o).
      * destruct (op_locks c o); simpl in He.
        -- rewrite He in Heq. apply Hdiff in Heq. rewrite <- Heq in Hph. discriminate.
        -- apply Hdiff in Heq. rewrite <- Heq in Hph. discriminate.
      * apply Hdiff in Heq. rewrite <- Heq in Hpc. simpl in Hpc. clear -Hpc. induction r; inversion Hpc; auto.
  - apply Hdiff in Heq. rewrite <- Heq in Hph. discriminate.
  - destruct (detector c t o (th_loc th) snap) as [sh' failed]. apply Hdiff in Heq. rewrite <- Heq in Hph. destruct failed; discriminate.
  - apply Hdiff in Heq. rewrite <- Heq in Hph. discriminate.
  - apply Hdiff in Heq. rewrite <- Heq in Hph. discriminate.
  - destruct (cfg_outalloc c); simpl in He.
    + rewrite He in Heq. apply Hdiff in Heq. rewrite <- Heq in Hph. discriminate.
    + apply Hdiff in Heq. rewrite <- Heq in Hph. discriminate.
Qed.

(* no reachable deadlock: while some thread has operations left, some thread can move *)
Lemma no_deadlock_of_inv : forall st, LockInv st -> all_done st = false -> exists t, first_enabled c st = Some t.
Proof.
  intros st I Hnd.
  assert (Hex : exists t, t < length (st_threads st) /\ enabled c st t = true).
  { destruct (st_lock st) eqn:Hl.
    - (* free: any unfinished thread can move *)
      unfold all_done in Hnd. apply Bool.not_true_iff_false in Hnd.
      rewrite forallb_forall in Hnd.
      assert (exists th, In th (st_threads st) /\ thread_done th = false) as (th & Hin & Hd).
      { clear -Hnd. induction (st_threads st) as [|a l IH].
        - exfalso. apply Hnd. intros x [].
        - destruct (thread_done a) eqn:Ha.
          + destruct IH as (th & Hin & Hd). { intros Hall. apply Hnd. intros x [<-|Hx]; auto. }
            exists th. split; auto. right; auto.
          + exists a. split; auto. left; auto. }
      apply In_nth_error in Hin. destruct Hin as (t & Ht). exists t. split.
      + apply nth_error_Some. congruence.
      + unfold enabled. rewrite Ht. unfold thread_done in Hd. destruct (th_pc th); [discriminate|].
        rewrite Hl. destruct (th_phase th); simpl; auto; rewrite ?orb_true_r; auto.
    - (* held: the holder is inside its critical section and can always move *)
      destruct (li_held _ I _ Hl) as (th & Ht & Hc). exists t. split.
      + apply nth_error_Some. congruence.
      + unfold enabled. rewrite Ht.
        destruct (li_shape _ I _ _ Ht) as (_ & o & r & e & Hp & _). { intros E. rewrite E in Hc. discriminate. }
        rewrite Hp. destruct (th_phase th); simpl in *; auto; discriminate. }
  destruct Hex as (t & Hlt & Hen). unfold first_enabled.
  destruct (find (enabled c st) (seq 0 (length (st_threads st)))) eqn:Hf; eauto.
  exfalso. eapply find_none in Hf. 2: { apply in_seq. split; [lia|]. simpl. exact Hlt. } congruence.
Qed.

Lemma drain_done : forall fuel st, LockInv st -> weight st <= fuel -> all_done (drain c fuel st) = true /\ LockInv (drain c fuel st).
Proof.
  induction fuel; intros st I Hw.
  - simpl. split; auto. destruct (all_done st) eqn:Hd; auto.
    destruct (no_deadlock_of_inv _ I Hd) as (t & Hf). unfold first_enabled in Hf. apply find_some in Hf. destruct Hf as (_ & He).
    pose proof (enabled_step_moves _ _ He) as Hm. destruct (tstep_weight _ _ _ (step_tstep c t st)); [congruence|lia].
  - simpl. destruct (first_enabled c st) as [t|] eqn:Hf.
    + unfold first_enabled in Hf. apply find_some in Hf. destruct Hf as (_ & He).
      pose proof (enabled_step_moves _ _ He) as Hm. destruct (tstep_weight _ _ _ (step_tstep c t st)); [congruence|].
      apply IHfuel. eapply lockinv_step; eauto. apply step_tstep. lia.
    + split; auto. destruct (all_done st) eqn:Hd; auto.
      destruct (no_deadlock_of_inv _ I Hd) as (t & Hf2). congruence.
Qed.

Lemma complete_done : forall st, LockInv st -> all_done (complete c st) = true /\ LockInv (complete c st).
Proof. intros. apply drain_done; auto. Qed.

End Lock.

(* ---------------- occupancy of the locked region: never more than one thread, in any state an execution goes through *)
Lemma filter_nil_of : forall A (p : A -> bool) (l : list A), (forall x, In x l -> p x = false) -> filter p l = [].
Proof. induction l as [|a l IH]; simpl; intros H; auto. rewrite (H a) by auto. apply IH. auto. Qed.

Lemma filter_at_most_one : forall A (p : A -> bool) (l : list A),
  (forall i j x y, nth_error l i = Some x -> nth_error l j = Some y -> p x = true -> p y = true -> i = j) ->
  length (filter p l) <= 1.
Proof.
  induction l as [|a l IH]; simpl; intros H; [lia|].
  destruct (p a) eqn:Ha.
  - rewrite filter_nil_of; [simpl; lia|].
    intros x Hx. destruct (p x) eqn:Hp; auto. apply In_nth_error in Hx. destruct Hx as (j & Hj).
    specialize (H 0 (S j) a x eq_refl Hj Ha Hp). discriminate.
  - apply IH. intros i j x y Hi Hj Hx Hy. specialize (H (S i) (S j) x y Hi Hj Hx Hy). lia.
Qed.

Lemma occupancy_le_1 : forall st, LockInv st -> occupancy st <= 1.
Proof.
  intros st I. unfold occupancy. apply filter_at_most_one.
  intros i j x y Hi Hj Hx Hy. eapply mutex_of_inv; eauto.
Qed.

Lemma exec_peak_le_1 : forall c, all_lock c -> cfg_reporter_unlocks c = true ->
  forall sched st, LockInv st -> exec_peak c sched st <= 1.
Proof.
  intros c Hl Hu. induction sched as [|t r IH]; simpl; intros st I.
  - apply occupancy_le_1; auto.
  - apply Nat.max_lub. apply occupancy_le_1; auto. apply IH. eapply lockinv_step; eauto. apply step_tstep.
Qed.

Lemma drain_peak_le_1 : forall c, all_lock c -> cfg_reporter_unlocks c = true ->
  forall fuel st, LockInv st -> drain_peak c fuel st <= 1.
Proof.
  intros c Hl Hu. induction fuel as [|f IH]; simpl; intros st I.
  - apply occupancy_le_1; auto.
  - destruct (first_enabled c st) as [t|].
    + apply Nat.max_lub. apply occupancy_le_1; auto. apply IH. eapply lockinv_step; eauto. apply step_tstep.
    + apply occupancy_le_1; auto.
Qed.

Lemma run_peak_le_1 : forall c, all_lock c -> cfg_reporter_unlocks c = true ->
  forall sched st, LockInv st -> run_peak c sched st <= 1.
Proof.
  intros c Hl Hu sched st I. unfold run_peak. apply Nat.max_lub.
  - apply exec_peak_le_1; auto.
  - apply drain_peak_le_1; auto. apply lockinv_exec; auto.
Qed.
