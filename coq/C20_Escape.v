(* C20 -- the escape of printEscaped against the textbook decoding of a TeamCity value. *)
From Coq Require Import NArith Bool List Lia Arith.
From CppUVerif Require Import lib.Str C16_Events C20_Model.
Import ListNotations.
Local Open Scope N_scope.

(* ---- case analysis of one byte *)
Inductive esc_case (c : N) : Prop :=
| EcSelf : (c = 39 \/ c = 124 \/ c = 91 \/ c = 93) -> tc_esc c = [124; c] -> esc_case c
| EcCr : c = 13 -> tc_esc c = [124; 114] -> esc_case c
| EcLf : c = 10 -> tc_esc c = [124; 110] -> esc_case c
| EcPlain : c <> 124 -> raw_forbidden c = false -> tc_esc c = [c] -> esc_case c.

Lemma esc_cases c : esc_case c.
Proof.
  destruct (N.eqb_spec c 39) as [->|H39]; [apply EcSelf; [tauto | reflexivity]|].
  destruct (N.eqb_spec c 124) as [->|H124]; [apply EcSelf; [tauto | reflexivity]|].
  destruct (N.eqb_spec c 91) as [->|H91]; [apply EcSelf; [tauto | reflexivity]|].
  destruct (N.eqb_spec c 93) as [->|H93]; [apply EcSelf; [tauto | reflexivity]|].
  destruct (N.eqb_spec c 13) as [->|H13]; [apply EcCr; reflexivity|].
  destruct (N.eqb_spec c 10) as [->|H10]; [apply EcLf; reflexivity|].
  apply N.eqb_neq in H39, H124, H91, H93, H13, H10.
  apply EcPlain.
  - apply N.eqb_neq. exact H124.
  - unfold raw_forbidden. rewrite H39, H91, H93, H10, H13. reflexivity.
  - unfold tc_esc. rewrite H39, H124, H91, H93, H13, H10. reflexivity.
Qed.

Lemma tc_escape_cons c s : tc_escape (c :: s) = tc_esc c ++ tc_escape s.
Proof. reflexivity. Qed.

Lemma tc_escape_app a b : tc_escape (a ++ b) = tc_escape a ++ tc_escape b.
Proof. unfold tc_escape. apply flat_map_app. Qed.

(* ---- decoding the escaped text returns the text: all byte strings *)
Lemma unescape_escape s : tc_unescape (tc_escape s) = Some s.
Proof.
  induction s as [|c s IH]; [reflexivity|].
  rewrite tc_escape_cons.
  destruct (esc_cases c) as [Hc E | Hc E | Hc E | Hn Hf E]; rewrite E.
  - cbn [app tc_unescape]. rewrite IH.
    destruct Hc as [->|[->|[->| ->]]]; reflexivity.
  - subst. cbn [app tc_unescape]. rewrite IH. reflexivity.
  - subst. cbn [app tc_unescape]. rewrite IH. reflexivity.
  - cbn [app tc_unescape]. rewrite IH, Hf.
    destruct (N.eqb_spec c 124); [contradiction|]. reflexivity.
Qed.

(* ---- the escaped text has no ' [ ] LF CR that is not introduced by | *)
Lemma escape_no_raw_special s : no_raw_special (tc_escape s) = true.
Proof.
  unfold no_raw_special.
  induction s as [|c s IH]; [reflexivity|].
  rewrite tc_escape_cons.
  destruct (esc_cases c) as [Hc E | Hc E | Hc E | Hn Hf E]; rewrite E.
  - cbn [app no_raw_special_go]. cbn. exact IH.
  - cbn [app no_raw_special_go]. cbn. exact IH.
  - cbn [app no_raw_special_go]. cbn. exact IH.
  - cbn [app no_raw_special_go]. destruct (N.eqb_spec c 124); [contradiction|]. rewrite Hf. cbn. exact IH.
Qed.

(* the escaped text contains no byte with a meaning of its own at all: no ' [ ] LF CR, and every | is followed by one of ' | [ ] n r *)
Lemma escape_no_lf s : ~ In 10 (tc_escape s).
Proof.
  induction s as [|c s IH]; [intros []|].
  rewrite tc_escape_cons. intro H. apply in_app_or in H. destruct H as [H|H]; [|exact (IH H)].
  destruct (esc_cases c) as [Hc E | Hc E | Hc E | Hn Hf E]; rewrite E in H; cbn in H.
  - destruct H as [H|[H|[]]]; [discriminate H|]. subst c. destruct Hc as [Hc|[Hc|[Hc|Hc]]]; discriminate Hc.
  - destruct H as [H|[H|[]]]; discriminate H.
  - destruct H as [H|[H|[]]]; discriminate H.
  - destruct H as [H|[]]. subst c. discriminate Hf.
Qed.

(* ---- decoding is compositional (needed because a value is printed in pieces) *)
Lemma tc_unescape_app_len n : forall a a' b b', (length a <= n)%nat ->
  tc_unescape a = Some a' -> tc_unescape b = Some b' -> tc_unescape (a ++ b) = Some (a' ++ b').
Proof.
  induction n as [|n IH]; intros a a' b b' Hl Ha Hb.
  - destruct a; [|cbn in Hl; lia]. cbn in Ha. injection Ha as <-. exact Hb.
  - destruct a as [|c r]; [cbn in Ha; injection Ha as <-; exact Hb|].
    cbn [tc_unescape] in Ha. cbn [app tc_unescape].
    destruct (c =? 124).
    + destruct r as [|d r']; [discriminate Ha|]. cbn [app].
      destruct (unesc_char d) as [x|]; [|discriminate Ha].
      destruct (tc_unescape r') as [u|] eqn:Er; [|discriminate Ha].
      injection Ha as <-.
      rewrite (IH r' u b b'); [reflexivity | cbn in Hl; lia | exact Er | exact Hb].
    + destruct (raw_forbidden c); [discriminate Ha|].
      destruct (tc_unescape r) as [u|] eqn:Er; [|discriminate Ha].
      injection Ha as <-.
      rewrite (IH r u b b'); [reflexivity | cbn in Hl; lia | exact Er | exact Hb].
Qed.
Lemma tc_unescape_app a a' b b' :
  tc_unescape a = Some a' -> tc_unescape b = Some b' -> tc_unescape (a ++ b) = Some (a' ++ b').
Proof. apply (tc_unescape_app_len (length a)). lia. Qed.

(* a well-formed value has no raw special character *)
Lemma unescape_some_no_raw_len n : forall v u, (length v <= n)%nat -> tc_unescape v = Some u -> no_raw_special v = true.
Proof.
  unfold no_raw_special.
  induction n as [|n IH]; intros v u Hl Hv.
  - destruct v; [reflexivity | cbn in Hl; lia].
  - destruct v as [|c r]; [reflexivity|].
    cbn [tc_unescape] in Hv. cbn [no_raw_special_go].
    destruct (c =? 124).
    + destruct r as [|d r']; [discriminate Hv|].
      destruct (unesc_char d); [|discriminate Hv].
      destruct (tc_unescape r') as [u'|] eqn:Er; [|discriminate Hv].
      cbn [no_raw_special_go]. apply (IH r' u'); [cbn in Hl; lia | exact Er].
    + destruct (raw_forbidden c); [discriminate Hv|].
      destruct (tc_unescape r) as [u'|] eqn:Er; [|discriminate Hv].
      cbn. apply (IH r u'); [cbn in Hl; lia | exact Er].
Qed.
Lemma unescape_some_no_raw v u : tc_unescape v = Some u -> no_raw_special v = true.
Proof. apply (unescape_some_no_raw_len (length v)). lia. Qed.

(* ---- text printed without escaping: harmless exactly when it has no | and no special character *)
Definition plain_raw (s : bytes) : bool := forallb (fun c => negb (c =? 124) && negb (raw_forbidden c)) s.
Lemma plain_raw_unescape s : plain_raw s = true -> tc_unescape s = Some s.
Proof.
  induction s as [|c s IH]; [reflexivity|].
  cbn [plain_raw forallb]. intro H. apply andb_true_iff in H. destruct H as [Hc Hs].
  apply andb_true_iff in Hc. destruct Hc as [H1 H2].
  cbn [tc_unescape]. destruct (c =? 124); [discriminate H1|]. destruct (raw_forbidden c); [discriminate H2|].
  rewrite (IH Hs). reflexivity.
Qed.

(* decimal numbers are digits *)
Definition is_digit (c : N) : bool := (48 <=? c) && (c <=? 57).
Lemma dec_go_digits fuel : forall n acc, forallb is_digit acc = true -> forallb is_digit (dec_go fuel n acc) = true.
Proof.
  induction fuel as [|f IH]; intros n acc Ha; [exact Ha|].
  cbn [dec_go].
  assert (Hd : forallb is_digit ((48 + n mod 10) :: acc) = true).
  { cbn [forallb]. rewrite Ha, andb_true_r. unfold is_digit.
    assert (Hk : n mod 10 < 10) by (apply N.mod_lt; discriminate).
    generalize dependent (n mod 10). intros k Hk.
    apply andb_true_iff. split; apply N.leb_le; lia. }
  destruct (n / 10 =? 0); [exact Hd | apply IH; exact Hd].
Qed.
Lemma dec_digits n : forallb is_digit (dec n) = true.
Proof. apply dec_go_digits. reflexivity. Qed.
Lemma digits_plain_raw s : forallb is_digit s = true -> plain_raw s = true.
Proof.
  unfold plain_raw. intro H. rewrite forallb_forall in *. intros c Hc. specialize (H c Hc).
  unfold is_digit in H. apply andb_true_iff in H. destruct H as [H1 H2]. apply N.leb_le in H1. apply N.leb_le in H2.
  unfold raw_forbidden.
  repeat match goal with |- context [?a =? ?b] => destruct (N.eqb_spec a b); [lia|] end. reflexivity.
Qed.
Lemma dec_plain_raw n : plain_raw (dec n) = true.
Proof. apply digits_plain_raw, dec_digits. Qed.

(* ---- a value printed in segments decodes to the concatenation of the original pieces *)
Definition seg_ok (x : seg) : bool := match x with Raw s => plain_raw s | Esc _ => true end.
Lemma segs_unescape l : forallb seg_ok l = true -> tc_unescape (segs_print l) = Some (flat_map seg_dec l).
Proof.
  induction l as [|x l IH]; [reflexivity|].
  cbn [forallb]. intro H. apply andb_true_iff in H. destruct H as [Hx Hl].
  unfold segs_print. cbn [flat_map]. apply tc_unescape_app; [|apply IH; exact Hl].
  destruct x as [s|s]; cbn [seg_print seg_dec].
  - apply plain_raw_unescape. exact Hx.
  - apply unescape_escape.
Qed.
