(* C13 -- operations on a buffer WITH SLACK: the C string s followed by its terminator and then arbitrary cells r (what a
   truncating subString, a replace(char) or the adoption of a larger block leaves in an object: the recorded buffer size is larger
   than size() + 1).  Every operation that can be applied to a returned object in place reads the string up to the FIRST
   terminator only and returns the textbook value, whatever r is.  (StrLen, StrCmp, StrStr, contains/startsWith/endsWith/count/
   equal, findFrom, newFrom, lowerCase, subString, append, plus, copyToBuffer, padding were proved in this generality already;
   this file adds replace(char), replace(str, str), printable, subStringFromTill, split, and closure lemmas of the textbook side.) *)
From Coq Require Import NArith ZArith Bool List Lia ZifyBool.
From CppUVerif Require Import lib.Str C13_Text C13_Alloc C13_Model C13_Proofs C13_Replace C13_Printable C13_Concat C13_Atoi C13_Main
                              C13_Pool C13_PoolProofs C13_Life C13_LifeProofs C13_LifeProofs2 C13_LifeSplit.
From CppUVerif Require C12_Model C12_Safe.
Import ListNotations.
Local Open Scope N_scope.

(* a buffer that holds the C string s, with any slack behind the terminator *)
Definition LB (buf s : list N) : Prop := exists r, buf = s ++ 0 :: r.
Lemma LB_cs s : LB (cs s) s.
Proof. exists []. reflexivity. Qed.
Lemma LB_of_cstr buf s : cstr_of buf = Some s -> LB buf s /\ NN s.
Proof. intro H. destruct (cstr_of_inv _ _ H) as [r [E Hn]]. split; [exists r; exact E | exact Hn]. Qed.

(* ---------------- replace(char, char) *)
Lemma replaceChar_okg s r c1 c2 : NN s -> replaceChar_m (s ++ 0 :: r) c1 c2 = Ok (t_repl_char c1 c2 s ++ 0 :: r).
Proof.
  intro Hs. unfold replaceChar_m. rewrite StrLen_ok by assumption. cbn [bind].
  apply (replc_loop_ok c1 c2 (length s) [] s (0 :: r)). reflexivity.
Qed.

(* ---------------- replace(const char*, const char* ) *)
Lemma adv_midg pre s r0 : adv (length pre) ((pre ++ s) ++ 0 :: r0) = Ok (s ++ 0 :: r0).
Proof. rewrite adv_cs by (rewrite app_length; lia). rewrite skipn_app, skipn_all, Nat.sub_diag. reflexivity. Qed.

Lemma nonoverlap_count_okg r0 fuel : forall s pre a i len to rb c n,
  a = pre ++ s -> i = length pre -> len = (length pre + length s)%nat ->
  NN a -> NN to -> to <> [] -> (length s < fuel)%nat -> (length s <= n)%nat ->
  nonoverlap_count fuel (a ++ 0 :: r0) i len (to ++ 0 :: rb) (length to) c = Ok (c + t_nmatch n s to)%nat.
Proof.
  induction fuel as [|f IH]; intros s pre a i len to rb c n Ea Ei El Ha Hto Hne Lf Ln; [lia|]. subst a i len.
  cbn [nonoverlap_count]. destruct s as [|x s].
  - cbn [length]. replace (Nat.ltb (length pre) (length pre + 0)) with false by lia. rewrite nmatch_nil. f_equal. lia.
  - replace (Nat.ltb (length pre) (length pre + length (x :: s))) with true by (cbn [length]; lia).
    rewrite adv_midg. cbn [bind]. apply NN_app in Ha as Ha'. destruct Ha' as [Hpre Hs].
    destruct (StrNCmp_prefix to (x :: s) r0 rb Hs Hto) as [d [E Z]]. rewrite E. cbn [bind]. rewrite Z.
    destruct n as [|n]; [cbn [length] in Ln; lia|]. cbn [t_nmatch].
    destruct (is_prefix to (x :: s)) eqn:P.
    + pose proof (is_prefix_len _ _ P) as PL. pose proof (len_pos to Hne) as TL. pose proof (is_prefix_split _ _ P) as Sp.
      rewrite (IH (skipn (length to) (x :: s)) (pre ++ to) _ _ _ to rb (S c) n); try assumption.
      * f_equal. lia.
      * rewrite Sp at 1. rewrite app_assoc. reflexivity.
      * rewrite app_length. reflexivity.
      * rewrite app_length, skipn_length. lia.
      * rewrite skipn_length. cbn [length] in *. lia.
      * rewrite skipn_length. cbn [length] in *. lia.
    + rewrite (IH s (pre ++ [x]) _ _ _ to rb c n); try assumption.
      * reflexivity.
      * rewrite <- app_assoc. reflexivity.
      * rewrite app_length. cbn [length]. lia.
      * rewrite app_length. cbn [length]. lia.
      * cbn [length] in *. lia.
      * cbn [length] in *. lia.
Qed.

Lemma repl_copy_okg r0 fuel : forall s pre a i len out rest nb j to w rb rw n,
  a = pre ++ s -> i = length pre -> len = (length pre + length s)%nat -> nb = out ++ rest -> j = length out ->
  NN a -> NN to -> to <> [] -> NN w -> (length s < fuel)%nat -> (length s <= n)%nat ->
  (length (t_repl n s to w) + 1 <= length rest)%nat ->
  exists rest', repl_copy fuel (a ++ 0 :: r0) nb i j len (to ++ 0 :: rb) (w ++ 0 :: rw) (length to) (length w)
                = Ok (out ++ t_repl n s to w ++ rest') /\ length rest' = (length rest - length (t_repl n s to w))%nat.
Proof.
  induction fuel as [|f IH]; intros s pre a i len out rest nb j to w rb rw n Ea Ei El Enb Ej Ha Hto Hne Hw Lf Ln Lr; [lia|].
  subst a i len nb j. cbn [repl_copy]. destruct s as [|x s].
  - cbn [length]. replace (Nat.ltb (length pre) (length pre + 0)) with false by lia. rewrite repl_nil.
    exists rest. split; [reflexivity | cbn; lia].
  - replace (Nat.ltb (length pre) (length pre + length (x :: s))) with true by (cbn [length]; lia).
    rewrite adv_midg. cbn [bind]. apply NN_app in Ha as Ha'. destruct Ha' as [Hpre Hs].
    destruct (StrNCmp_prefix to (x :: s) r0 rb Hs Hto) as [d [E Z]]. rewrite E. cbn [bind]. rewrite Z.
    destruct n as [|n]; [cbn [length] in Ln; lia|]. cbn [t_repl] in *.
    destruct (is_prefix to (x :: s)) eqn:P.
    + pose proof (is_prefix_len _ _ P) as PL. pose proof (len_pos to Hne) as TL. pose proof (is_prefix_split _ _ P) as Sp.
      rewrite app_length in Lr.
      unfold StrNCpy. cbn [Nat.eqb].
      replace (out ++ rest) with (out ++ firstn (S (length w)) rest ++ skipn (S (length w)) rest) by (rewrite firstn_skipn; reflexivity).
      rewrite (StrNCpy_loop_ok (S (length w)) w rw out (firstn (S (length w)) rest) (skipn (S (length w)) rest));
        [| lia | assumption | rewrite firstn_length; lia].
      cbn [bind]. rewrite firstn_length. replace (Nat.min (S (length w)) (length rest)) with (S (length w)) by lia.
      replace (firstn (S (length w)) (w ++ [0])) with (w ++ [0]) by (rewrite firstn_all2; [reflexivity | rewrite app_length; cbn; lia]).
      destruct (IH (skipn (length to) (x :: s)) (pre ++ to) ((pre ++ to) ++ skipn (length to) (x :: s))
                   (length pre + length to)%nat (length pre + length (x :: s))%nat (out ++ w) (0 :: skipn (S (length w)) rest)
                   (out ++ (w ++ [0]) ++ skipn (S (length w)) rest) (length out + length w)%nat to w rb rw n) as [rest' [R L]];
        try assumption; try reflexivity.
      * rewrite app_length. reflexivity.
      * rewrite !app_length, skipn_length. lia.
      * rewrite <- !app_assoc. reflexivity.
      * rewrite app_length. reflexivity.
      * rewrite <- app_assoc, <- Sp. assumption.
      * rewrite skipn_length. cbn [length] in *. lia.
      * rewrite skipn_length. cbn [length] in *. lia.
      * cbn [length]. rewrite skipn_length. lia.
      * replace ((pre ++ to) ++ skipn (length to) (x :: s)) with (pre ++ x :: s) in R by (rewrite <- app_assoc, <- Sp; reflexivity).
        rewrite R. exists rest'. split; [rewrite <- !app_assoc; reflexivity|].
        rewrite L. cbn [length]. rewrite skipn_length, app_length. lia.
    + cbn [rd app bind]. destruct rest as [|q0 rest]; [cbn [length] in Lr; lia|]. rewrite wr_mid. cbn [bind].
      destruct (IH s (pre ++ [x]) ((pre ++ [x]) ++ s) (S (length pre)) (length pre + length (x :: s))%nat (out ++ [x]) rest
                   (out ++ x :: rest) (S (length out)) to w rb rw n) as [rest' [R L]]; try assumption; try reflexivity.
      * rewrite app_length. cbn; lia.
      * rewrite app_length. cbn [length]. lia.
      * rewrite <- app_assoc. reflexivity.
      * rewrite app_length. cbn; lia.
      * rewrite <- app_assoc. assumption.
      * cbn [length] in *. lia.
      * cbn [length] in *. lia.
      * cbn [length] in *. lia.
      * replace ((pre ++ [x]) ++ s) with (pre ++ x :: s) in R by (rewrite <- app_assoc; reflexivity).
        rewrite R. exists rest'. split; [rewrite <- !app_assoc; reflexivity|]. rewrite L. cbn [length]. lia.
Qed.

(* nothing matched: the object keeps its buffer (slack included); otherwise it adopts a block of exactly new length + 1 cells *)
Lemma replaceStr_okg a r0 to w : NN a -> NN to -> NN w ->
  exists r', replaceStr_m (a ++ 0 :: r0) (cs to) (cs w) = Ok (t_replace a to w ++ 0 :: r').
Proof.
  intros Ha Hto Hw. unfold replaceStr_m, cs. rewrite !StrLen_ok by assumption. cbn [bind].
  destruct to as [|y to].
  - cbn [length Nat.eqb t_replace]. exists r0. reflexivity.
  - cbn [Nat.eqb length]. change (S (length to)) with (length (y :: to)). set (t := y :: to) in *.
    assert (Hne : t <> []) by discriminate.
    rewrite (nonoverlap_count_okg r0 (S (length a)) a [] a 0%nat (length a) t [] 0%nat (length a)); try assumption; try reflexivity; try lia.
    cbn [bind Nat.add]. unfold replace_tail, t_replace. fold t.
    pose proof (repl_length (length a) a t w Hne (le_n _)) as RL.
    set (c := t_nmatch (length a) a t) in *. set (R := t_repl (length a) a t w) in *.
    destruct (Nat.eqb c 0) eqn:C0.
    + exists r0. f_equal. f_equal. symmetry. apply repl_nomatch. lia.
    + replace (length a + length w * c - length t * c + 1)%nat with (length R + 1)%nat by nia.
      destruct (Nat.ltb 1 (length R + 1)) eqn:L1.
      * destruct (repl_copy_okg r0 (S (length a)) a [] a 0%nat (length a) [] (fresh (length R + 1)) (fresh (length R + 1)) 0%nat t w [] []
                                (length a)) as [rest' [E L]]; try assumption; try reflexivity; try lia.
        { fold R. rewrite fresh_length. lia. }
        fold R in E, L. rewrite fresh_length in L. rewrite E. cbn [bind app].
        destruct rest' as [|q0 rest']; [cbn [length] in L; lia|]. destruct rest'; [|cbn [length] in L; lia].
        replace (length R + 1 - 1)%nat with (length R) by lia. rewrite wr_mid. exists []. reflexivity.
      * exists []. destruct R; [reflexivity | cbn [length] in L1; lia].
Qed.

(* ---------------- printable() *)
Lemma printable_okg a r : BY a -> NN a -> exists buf, printable_m (a ++ 0 :: r) = Ok buf /\ cstr_of buf = Some (t_printable a).
Proof.
  intros B Hn. unfold printable_m, printable_gen. rewrite StrLen_ok by assumption. cbn [bind].
  rewrite printableSize_ok by assumption. cbn [bind]. pose proof (len_printable a) as LP.
  replace (length a + (length (t_printable a) - length a) + 1)%nat with (S (length (t_printable a))) by lia.
  pose proof (wr_mid [] 205 (fresh (length (t_printable a))) 0) as W. cbn [app length] in W.
  change (fresh (S (length (t_printable a)))) with (205 :: fresh (length (t_printable a))).
  rewrite W. cbn [bind app].
  destruct (printable_loop_ok a (0 :: r) [] (0 :: fresh (length (t_printable a))) B Hn) as [rest' R];
    [cbn [length]; rewrite fresh_length; lia|].
  cbn [app length] in R. rewrite R. eexists. split; [reflexivity|]. apply cstr_of_cs. apply NN_printable; assumption.
Qed.

(* ---------------- subStringFromTill *)
Lemma fromTill_okg a r c1 c2 : NN a -> N.of_nat (length a) < NPOS ->
  exists buf, subStringFromTill_m (a ++ 0 :: r) c1 c2 = Ok buf /\ cstr_of buf = Some (t_from_till a c1 c2).
Proof.
  intros Ha Hl. unfold subStringFromTill_m, find_m, t_from_till. rewrite findFrom_ok by exact Ha. cbn [bind].
  unfold t_find_from at 1. rewrite skipN0. pose proof (index_from c1 a) as IF. destruct (t_index c1 a) as [i|]; cbn [option_map].
  - destruct IF as [EF Li]. rewrite EF. rewrite findFrom_ok by exact Ha. cbn [bind]. unfold t_find_from.
    assert (SK : t_skipN (0 + N.of_nat i) a = skipn i a).
    { unfold t_skipN. replace (N.of_nat (length a) <=? 0 + N.of_nat i) with false by lia. f_equal. lia. }
    rewrite SK. pose proof (index_until c2 (skipn i a)) as IU. destruct (t_index c2 (skipn i a)) as [k|]; cbn [option_map].
    + destruct IU as [EU Lk]. destruct (subString_ok a r (0 + N.of_nat i) (0 + N.of_nat i + N.of_nat k - (0 + N.of_nat i)) Ha) as [buf [E C]].
      exists buf. split; [exact E|]. rewrite C. f_equal. unfold t_substr. rewrite SK, EU. unfold t_takeN.
      replace (N.of_nat (length (skipn i a)) <=? 0 + N.of_nat i + N.of_nat k - (0 + N.of_nat i)) with false by lia. f_equal. lia.
    + destruct (subString_ok a r (0 + N.of_nat i) NPOS Ha) as [buf [E C]]. exists buf. split; [exact E|]. rewrite C. f_equal.
      unfold t_substr. rewrite SK, IU. unfold t_takeN. rewrite skipn_length.
      replace (N.of_nat (length a - i) <=? NPOS) with true by lia. reflexivity.
  - rewrite IF. change emptyString with (@nil N ++ 0 :: []). rewrite (newFrom_ok [] []) by constructor. exists [0]. split; reflexivity.
Qed.

(* ---------------- split *)
Lemma split_okg a r d : NN a -> d <> 0 ->
  exists bufs, split_m (a ++ 0 :: r) (cs [d]) = Ok bufs /\ Forall2 C12_Safe.holds bufs (t_split_all d a).
Proof.
  intros Ha Dnz. assert (Hd : NN [d]) by (constructor; [exact Dnz | constructor]).
  rewrite tsplit_all_incl, C12_Safe.split_incl_cut. cbn zeta. unfold C12_Safe.ew.
  unfold split_m. unfold cs. rewrite count_ok by assumption. cbn [bind]. rewrite endsWith_ok by assumption. cbn [bind].
  destruct (C12_Safe.split_loop_ok d Dnz (t_count a [d]) a r [] Ha eq_refl) as [bufs [E F]].
  unfold cs in E. rewrite E. cbn [bind rev app fst snd]. destruct (t_ends_with a [d]).
  - exists bufs. split; [reflexivity | exact F].
  - pose proof (C12_Safe.cut_NN d (t_count a [d]) a Ha) as Hr. rewrite newFrom_ok by exact Hr. cbn [bind].
    eexists. split; [reflexivity|]. apply Forall2_app; [exact F|]. constructor; [exists []; split; [reflexivity | exact Hr] | constructor].
Qed.
Lemma holds_nth k : forall bufs texts, Forall2 C12_Safe.holds bufs texts -> C12_Safe.holds (nth k bufs emptyString) (nth k texts []).
Proof.
  induction k as [|k IH]; intros bufs texts F; inversion F; subst; cbn [nth]; try assumption;
    try (exists []; split; [reflexivity | constructor]). apply IH. assumption.
Qed.

(* ---------------- closure of the well-formed byte strings under the remaining textbook functions *)
Lemma OKS_Forall s : OKS s <-> Forall (fun c => c <> 0 /\ c < 256) s.
Proof.
  unfold OKS, NN, BY. rewrite !Forall_forall. split.
  - intros [H1 H2] x Hx. split; [apply H1 | apply H2]; exact Hx.
  - intro H. split; intros x Hx; apply (H x Hx).
Qed.
Lemma OKS_skipn k s : OKS s -> OKS (skipn k s).
Proof. intros [H1 H2]. split; [apply NN_skipn; exact H1 | apply Forall_skipn_g; exact H2]. Qed.
Lemma OKS_from s ch : OKS s -> forall r, t_from ch s = Some r -> OKS r.
Proof.
  induction s as [|c s IH]; intros H r E; [discriminate E|]. cbn [t_from] in E. destruct (c =? ch); [inversion E; subst; exact H|].
  apply IH; [|exact E]. apply (OKS_skipn 1 (c :: s)). exact H.
Qed.
Lemma OKS_until s ch : OKS s -> OKS (t_until ch s).
Proof.
  rewrite !OKS_Forall. induction s as [|c s IH]; intro H; [constructor|]. inversion H; subst. cbn [t_until].
  destruct (c =? ch); [constructor | constructor; auto].
Qed.
Lemma OKS_from_till s c1 c2 : OKS s -> OKS (t_from_till s c1 c2).
Proof.
  intro H. unfold t_from_till. destruct (t_from c1 s) as [r|] eqn:E; [|apply OKS_nil]. apply OKS_until. apply (OKS_from s c1 H r E).
Qed.
Lemma OKS_rev s : OKS s -> OKS (rev s).
Proof. rewrite !OKS_Forall. intro H. apply Forall_rev. exact H. Qed.
Lemma OKS_split d : forall s cur, OKS s -> OKS cur -> Forall OKS (t_split d s cur).
Proof.
  induction s as [|c s IH]; intros cur Hs Hc; cbn [t_split].
  - destruct cur; [constructor|]. constructor; [apply OKS_rev; exact Hc | constructor].
  - assert (Hc1 : OKS (c :: cur)).
    { rewrite OKS_Forall in *. inversion Hs; subst. constructor; assumption. }
    assert (Hs' : OKS s) by (apply (OKS_skipn 1 (c :: s)); exact Hs).
    destruct (c =? d).
    + constructor; [apply OKS_rev; exact Hc1 | apply IH; [exact Hs' | apply OKS_nil]].
    + apply IH; assumption.
Qed.
Lemma OKS_split_nth d s k : OKS s -> OKS (nth k (t_split_all d s) []).
Proof.
  intro H. apply Forall_nth_d; [apply OKS_nil|]. unfold t_split_all. destruct s; [constructor; [apply OKS_nil | constructor]|].
  apply OKS_split; [exact H | apply OKS_nil].
Qed.
Lemma Forall_flat_map {A B} (P : B -> Prop) (f : A -> list B) l : (forall x, Forall P (f x)) -> Forall P (flat_map f l).
Proof. intro H. induction l as [|x l IH]; [constructor|]. cbn [flat_map]. apply Forall_app. split; [apply H | exact IH]. Qed.
Lemma Forall_removelast {A} (P : A -> Prop) l : Forall P l -> Forall P (removelast l).
Proof.
  induction l as [|x l IH]; intro H; [constructor|]. inversion H; subst. cbn [removelast]. destruct l; [constructor|].
  constructor; [assumption | apply IH; assumption].
Qed.
Lemma t_hex_nz d : t_hex d <> 0.
Proof.
  unfold t_hex. assert (F : Forall (fun x => x <> 0) [48;49;50;51;52;53;54;55;56;57;65;66;67;68;69;70]) by (repeat constructor; lia).
  apply Forall_nth_d; [lia | exact F].
Qed.
Lemma OKS_binary bytes : OKS (t_binary bytes).
Proof.
  rewrite OKS_Forall. unfold t_binary. apply Forall_removelast. apply Forall_flat_map. intro c.
  pose proof (t_hex_byte (c / 16)). pose proof (t_hex_byte (c mod 16)). pose proof (t_hex_nz (c / 16)). pose proof (t_hex_nz (c mod 16)).
  repeat constructor; try assumption; lia.
Qed.
Lemma OKS_masked v m bc : OKS (t_masked v m bc).
Proof.
  rewrite OKS_Forall. unfold t_masked. apply Forall_flat_map. intro i. unfold t_bit_char.
  repeat match goal with |- context [if ?b then _ else _] => destruct b end; repeat constructor; lia.
Qed.
Lemma OKS_dec_fuel f : forall n, OKS (t_dec_fuel f n).
Proof.
  induction f as [|f IH]; intro n; [apply OKS_nil|]. cbn [t_dec_fuel]. apply OKS_app.
  - destruct (n <? 10); [apply OKS_nil | apply IH].
  - rewrite OKS_Forall. assert (n mod 10 < 10) by (apply N.mod_lt; lia). generalize dependent (n mod 10). intros k Hk.
    constructor; [split; lia | constructor].
Qed.
Lemma OKS_ordinal n : OKS (t_ordinal n).
Proof.
  unfold t_ordinal. apply OKS_app; [apply OKS_dec_fuel|]. rewrite OKS_Forall.
  destruct ((n mod 100 =? 11) || (n mod 100 =? 12) || (n mod 100 =? 13)); [repeat constructor; lia|].
  destruct (n mod 10) as [|p]; [repeat constructor; lia|].
  destruct p as [[?|?|]|[?|?|]|]; repeat constructor; lia.
Qed.

(* ---------------- the log encodings *)
Lemma rd_nth v r : forall p, (p <= length v)%nat -> rd (skipn p v ++ 0 :: r) = Ok (nth p v 0).
Proof.
  induction v as [|c v IH]; intros p L.
  - cbn [length] in L. assert (p = 0%nat) by lia. subst p. reflexivity.
  - destruct p as [|p]; [reflexivity|]. cbn [skipn nth]. apply IH. cbn [length] in L. lia.
Qed.
