(* C08 -- Mock verdict is exact: passes iff actual calls match the expectations.
   Only statements; every proof is `exact <lemma>` into C08_Proofs*.v / C08_Scopes.v.
   Proved fragment: expectNCalls/expectOneCall with typed input parameters, output parameters (withOutputParameterReturning), onObject
   and return values; actualCall + withParameter / withOutputParameter / onObject in ANY order + returnValue; checkExpectations,
   strictOrder, ignoreOtherCalls; on mock() and on named scopes mock("s") -- canonical scenarios (configuration of any scope,
   expectations of any scope, interleaved calls, final mock().checkExpectations()) whose actual calls pass no parameter name twice
   and at most one object, and whose functions are uniform in naming an object; the verdict clause (multiset / strict sequence in
   every scope) is proved outright (C08_Count.v).  The same scenarios ending with the end-of-test check of MockSupportPlugin
   (reporter that records and returns) instead of mock().checkExpectations(): the list of failures that check delivers
   (C08_Post.v).  For EVERY scenario (any operations, ignoreOtherParameters, ambiguous sets, names passed twice): the return value
   and the output bytes a call hands back are those of one expectation, the one it consumed (C08_Outs.v).  NOT covered by the
   theorems beyond that clause (model = implementation agreement only): which expectation a call consumes and the diagnoses under
   ignoreOtherParameters, expectations without object called on an object, intermediate clear/check/expectedCallsLeft,
   enable/disable, expectations added between calls; not modelled: custom comparators/copiers, tracing, nested scopes.
   A RUN of several tests sharing one TestResult with the MockSupportPlugin installed (C08_Runs.v): every test is the scenario "its
   mock operations, then the plugin's check" on a new mock, whatever the earlier tests did; the object of a call as a value (the
   null object is an object; no onObject is not).
   Tests WITH A TEARDOWN (mock().checkExpectations() / mock().clear() on mock() or a scope) under the library's default reporter
   (C08_ModelTd.v, C08_Calm.v, C08_Teardown.v): the teardown runs on what the body left in mock(); a test that has failed is not
   failed again; with the usual teardown the test is the scenario "its mock operations, then mock().checkExpectations()". *)
From Coq Require Import ZArith NArith Bool List Permutation.
From CppUVerif Require Import lib.CInt lib.Str C08_Model C08_Proofs C08_Proofs2 C08_Scopes C08_Count C08_Outs C08_Post C08_Proofs3 C08_Runs C08_ModelTd C08_Calm C08_Teardown.
From CppUVerif Require C09_Model.
Import ListNotations.

(* L refines M on one mock: the flag/candidate-list machinery of the code (model L) delivers, on every judged scenario -- for
   arbitrary, also overlapping, expectation sets -- the same failing operation, the same diagnosis and the same returned values as
   the flag-free reference semantics M (remaining capacities, first open expectation that is exactly the call), and every output
   buffer begins with the bytes of the consumed expectation, whatever the order of withParameter / withOutputParameter / onObject. *)
Theorem C08_L_refines_M : forall ops k,
  parse ops = Some k -> judged k = true ->
  proj (run ops) = lift (expected k) /\ outs_ok (expected_outs k) (o_outs (run ops)) = true.
Proof. exact L_refines_M. Qed.
Print Assumptions C08_L_refines_M.

(* the same over mock() and its named scopes: configuration (strictOrder reaches mock() and the scopes created later,
   ignoreOtherCalls every scope), per-scope expectations, interleaved calls, the final mock().checkExpectations() that finishes
   every scope's last call in creation order and reports an unfulfilled / out-of-order expectation of ANY scope *)
Theorem C08_W_refines_M : forall ops k,
  parsew ops = Some k -> judgedw k = true ->
  proj (runw ops) = lift (mr_fail (expectedw k), mr_rets (expectedw k)) /\ outs_ok (mr_outs (expectedw k)) (o_outs (runw ops)) = true.
Proof. exact W_refines_M. Qed.
Print Assumptions C08_W_refines_M.

(* on M the scenario over the scopes passes iff every scope's own scenario passes ... *)
Theorem C08_verdict_scopes : forall k,
  mr_fail (expectedw k) = None <-> forall s, In s (0%N :: scopes_of k) -> mr_fail (expected_res (scope_canon k s)) = None.
Proof. exact verdict_scopes. Qed.
Print Assumptions C08_verdict_scopes.

(* ... hence the model passes a judged scenario iff in EVERY scope the reference semantics passes that scope's calls against that
   scope's expectations *)
Theorem C08_verdict_every_scope : forall ops k,
  parsew ops = Some k -> judgedw k = true ->
  (o_fail (runw ops) = None <-> forall s, In s (0%N :: scopes_of k) -> fst (expected (scope_canon k s)) = None).
Proof. exact verdict_every_scope. Qed.
Print Assumptions C08_verdict_every_scope.

(* the counting theorem on M: for a judged scenario of one scope the reference semantics passes iff the multiset of checked calls
   equals the multiset of expectations expanded by their counts (keyed by call shape: function, object, parameter names and
   values, output names), independent of call order; with strict ordering iff the calls follow the expanded expectation sequence *)
Theorem C08_verdict_counting : forall k, judged k = true ->
  verdict_ok k = match fst (expected k) with None => true | Some _ => false end.
Proof. exact verdict_counting. Qed.
Print Assumptions C08_verdict_counting.

(* the verdict clause, one mock: a judged scenario passes iff the multisets (strict: the sequences) agree *)
Theorem C08_verdict_multiset : forall ops k,
  parse ops = Some k -> judged k = true -> (o_fail (run ops) = None <-> verdict_ok k = true).
Proof. exact verdict_exact. Qed.
Print Assumptions C08_verdict_multiset.

(* the verdict clause over the scopes: a judged scenario passes iff in EVERY scope the actual calls match that scope's expectations
   one-to-one (multisets, strict: sequences) *)
Theorem C08_verdict_multiset_scopes : forall ops k,
  parsew ops = Some k -> judgedw k = true ->
  (o_fail (runw ops) = None <-> forall s, In s (0%N :: scopes_of k) -> verdict_ok (scope_canon k s) = true).
Proof. exact verdict_exact_scopes. Qed.
Print Assumptions C08_verdict_multiset_scopes.

(* specw s (runw s) = true for EVERY scenario (runw / specw are the functions the check runs): verdict, first deviation with the
   matching diagnosis (explicit check or the plugin's end-of-test check: the failures it delivers), returned values and output
   bytes of the consumed expectation (reference semantics on judged scenarios, coherence clause on all) *)
Theorem C08_runw_meets_specw : forall ops, specw ops (runw ops) = true.
Proof. exact runw_meets_specw. Qed.
Print Assumptions C08_runw_meets_specw.

(* the same for one mock *)
Theorem C08_run_meets_spec : forall ops, spec ops (run ops) = true.
Proof. exact run_meets_spec. Qed.
Print Assumptions C08_run_meets_spec.

(* operations on mock() only, with no scope ever created, are the one-mock model *)
Theorem C08_runw_global : forall ops, runw (map (pair 0%N) ops) = run ops.
Proof. exact runw_global. Qed.
Print Assumptions C08_runw_global.

(* first deviation: a judged scenario fails with exactly M's diagnosis at M's operation; the FAIL("This cannot happen") of
   MockCheckedActualCall::checkExpectations is unreachable *)
Theorem C08_first_deviation : forall ops k i fl,
  parse ops = Some k -> judged k = true -> o_fail (run ops) = Some (i, fl) ->
  f_kind fl <> FCannotHappen /\ exists d, fst (expected k) = Some (i, d) /\ dkind_of (f_kind fl) = Some d.
Proof. exact no_impossible_failure. Qed.
Print Assumptions C08_first_deviation.

(* when no expectation names an object (the fragment of the first version of this check) the object diagnoses are unreachable too *)
Theorem C08_first_deviation_no_object : forall ops k i fl,
  parse ops = Some k -> judged k = true -> (forall e, In e (k_exps k) -> sx_obj e = None) -> o_fail (run ops) = Some (i, fl) ->
  (forall f, f_kind fl <> FObjectMissing f) /\ (forall f, f_kind fl <> FObjectUnexpected f).
Proof. exact no_object_failure. Qed.
Print Assumptions C08_first_deviation_no_object.

(* within one actual call: between the items the candidates are exactly the open expectations agreeing with the items passed so
   far, their flags say which parameters / whether the object were passed, nothing is finalized (appendix A1), and finishing the call
   consumes the first open expectation that is exactly the call, returning its value and having filled every output buffer passed
   with its bytes; otherwise the failure is the missing parameter or, when only the object is missing, the missing object *)
Theorem C08_call_consumes_exact : forall f P es c,
  Inv f P es c -> Forall wfE es ->
  match check_call es c with
  | inl (es', c') => exists e, consume f P (c_order c) (map abs es) = Some (map abs es', e) /\ cur_ret es' = sx_ret e /\
                               outs_ok (out_bytes e P) (map snd (c_outs c')) = true /\
                               c_state c' = Succeeded /\ c_checked c' = true /\ Forall wfE es'
  | inr fl => consume f P (c_order c) (map abs es) = None /\
              f_kind fl = (if existsb (fun e => liveL f P e && negb (pcoveredL P e)) es
                           then FParamMissing f (N.of_nat (length (filter e_pot es))) else FObjectMissing f) /\
              exists e, In e es /\ liveL f P e = true
  end.
Proof. exact finish_inv. Qed.
Print Assumptions C08_call_consumes_exact.

(* the invariant is established by the constructor + withName from ANY flag state (this is what the repair guarantees) ... *)
Theorem C08_call_starts_clean : forall f es c,
  (forall e, In e es -> e_ign e = false) -> c_name c = f -> c_checked c = false -> c_outs c = [] ->
  match with_name (create true es) c with
  | inr fl => (forall e, In e es -> can_match e && relates f e = false) /\
              f_kind fl = (let n := fulfilled_for f es in if (0 <? n)%N then FAdditionalCall f (n + 1)%N else FUnexpectedCall f)
  | inl (es', c') => Inv f [] es' c' /\ map stat es' = map stat es /\ c_order c' = c_order c /\
                     exists e, In e es /\ can_match e && relates f e = true
  end.
Proof. exact with_name_inv. Qed.
Print Assumptions C08_call_starts_clean.

(* ... preserved by every input / output parameter not passed before ... *)
Theorem C08_parameter_preserves_invariant : forall f P it es c,
  Inv f P es c -> fresh P it = true -> is_param it = true ->
  match with_item it es c with
  | inr fl => (forall e, In e es -> liveL f (P ++ [it]) e = false) /\ f_kind fl = fail_kind f it es
  | inl (es', c') => Inv f (P ++ [it]) es' c' /\ map stat es' = map stat es /\ c_order c' = c_order c /\
                     exists e, In e es /\ liveL f (P ++ [it]) e = true
  end.
Proof. exact with_item_param_inv. Qed.
Print Assumptions C08_parameter_preserves_invariant.

(* ... and by onObject, wherever it stands among the parameters, when the function's expectations are uniform in naming an object *)
Theorem C08_object_preserves_invariant : forall f P a es c,
  Inv f P es c -> passed_obj P = false -> unif f es ->
  match on_object a es c with
  | inr fl => (forall e, In e es -> liveL f (P ++ [IObj a]) e = false) /\ f_kind fl = FObjectUnexpected f
  | inl (es', c') => Inv f (P ++ [IObj a]) es' c' /\ map stat es' = map stat es /\ c_order c' = c_order c /\
                     exists e, In e es /\ liveL f (P ++ [IObj a]) e = true
  end.
Proof. exact on_object_inv. Qed.
Print Assumptions C08_object_preserves_invariant.

(* a call succeeds iff some unfulfilled expectation of that function is exactly the call (object, parameter set, outputs) *)
Theorem C08_call_succeeds_iff : forall f ps o xs,
  (exists xs' v, consume f ps o xs = Some (xs', v)) <-> (exists x, In x xs /\ x_open x = true /\ matches (x_e x) f ps = true).
Proof. exact call_succeeds_iff. Qed.
Print Assumptions C08_call_succeeds_iff.

(* a checked call that is not deferred hands back the return value and the output bytes of the expectation it consumed *)
Theorem C08_returns_consumed : forall ign kn st c st' rv,
  m_call ign kn st c = inl (st', rv) -> ign && negb (kn (sc_f c)) = false -> s_pend st' = None ->
  exists e, consume (sc_f c) (sc_items c) (s_order st + 1)%N (s_xs st) = Some (s_xs st', e) /\
            fst rv = (if sc_want c then Some (sx_ret e) else None) /\ snd rv = out_bytes e (sc_items c).
Proof. exact call_returns_consumed. Qed.
Print Assumptions C08_returns_consumed.

(* the verdict clause of the spec is independent of the order of the actual calls *)
Theorem C08_verdict_permutation_invariant : forall es cs cs', Permutation cs cs' -> multiset_ok es cs = multiset_ok es cs'.
Proof. exact multiset_ok_perm. Qed.
Print Assumptions C08_verdict_permutation_invariant.

(* parameter equality used here is MockNamedValue::equals as modelled and proved in C09 *)
Theorem C08_veq_is_C09_equals : forall a b, pv_valid a = true -> pv_valid b = true -> veq a b = C09_Model.equals (emb a) (emb b).
Proof. exact veq_is_C09_equals. Qed.
Print Assumptions C08_veq_is_C09_equals.

(* the code before the repair f9780ee (stale matched-flags of expectations pruned in the middle of a call) violated the spec *)
Theorem C08_run_old_refuted : ~ run_old_meets_spec_stmt.
Proof. exact run_old_refuted. Qed.
Print Assumptions C08_run_old_refuted.

(* ---------------------------------------------------------------- the end-of-test check of MockSupportPlugin (reporter records and returns) *)

(* L refines M on every judged scenario that ends with the plugin's check: a call that deviates at once leaves the test there with
   M's diagnosis and the check delivers nothing; otherwise no operation fails and the check delivers exactly M's list m_post --
   every incomplete last call once, in creation order of the scopes, never "not fulfilled" on top of it *)
Theorem C08_post_refines_M : forall ops ops' k,
  post_to_check ops = Some ops' -> parsew ops' = Some k -> judgedw k = true ->
  let o := runw ops in let r := expectedw k in
  o_rets o = mr_rets r /\ outs_ok (mr_outs r) (o_outs o) = true /\
  match mw_end k (sts0 k) (kw_calls k) with
  | Some sts => o_fail o = None /\ kinds (o_post o) = map Some (m_post (map snd sts)) /\
                mr_fail r = match m_final (map snd sts) with Some d => Some (N.of_nat (length (kw_cfg k) + length (kw_exps k)) + N.of_nat (length (kw_calls k)), d)%N | None => None end
  | None => proj o = lift (mr_fail r, mr_rets r) /\ o_post o = [] /\ mr_fail r <> None
  end.
Proof. exact W_post_refines_M. Qed.
Print Assumptions C08_post_refines_M.

(* exactly one failure: every call went through, nothing out of order, at most one scope's last call incomplete -- the check
   delivers one failure iff some scope's last call is incomplete or some expectation is unfulfilled, none otherwise, and that
   failure is the one mock().checkExpectations() reports *)
Theorem C08_post_fails_once : forall ops ops' k sts,
  post_to_check ops = Some ops' -> parsew ops' = Some k -> judgedw k = true ->
  mw_end k (sts0 k) (kw_calls k) = Some sts ->
  existsb (fun st => existsb x_ooo (s_xs st)) (map snd sts) = false -> (length (flat_map pend_of (map snd sts)) <= 1)%nat ->
  o_fail (runw ops) = None /\
  kinds (o_post (runw ops)) = match m_final (map snd sts) with Some d => [Some d] | None => [] end /\
  (length (o_post (runw ops)) = 1%nat <-> exists st, In st (map snd sts) /\ (s_pend st <> None \/ existsb x_open (s_xs st) = true)) /\
  (length (o_post (runw ops)) <= 1)%nat.
Proof. exact post_fails_once. Qed.
Print Assumptions C08_post_fails_once.

(* on M: the recording check begins with the failure the leaving check reports ... *)
Theorem C08_post_first_is_final : forall sts, hd_error (m_post sts) = m_final sts.
Proof. exact m_post_head. Qed.
Print Assumptions C08_post_first_is_final.
(* ... delivers nothing iff that check passes ... *)
Theorem C08_post_passes_iff : forall sts, m_post sts = [] <-> m_final sts = None.
Proof. exact m_post_nil. Qed.
Print Assumptions C08_post_passes_iff.
(* ... and with incomplete last calls delivers exactly their diagnoses, then at most "out of order" *)
Theorem C08_post_pending : forall sts d ps,
  flat_map pend_of sts = d :: ps ->
  m_post sts = (d :: ps) ++ (if existsb (fun st => existsb x_ooo (s_xs st)) sts then [DOutOfOrder] else []).
Proof. exact m_post_pending. Qed.
Print Assumptions C08_post_pending.

(* on L, for EVERY world (any state of mock() and its scopes): the failure that leaves the test at mock().checkExpectations() is
   the first one the plugin's check records, and the plugin's check records nothing iff that check passes *)
Theorem C08_post_head_is_check : forall w,
  match check_world w with
  | inr fl => exists rest, post_world w = fl :: rest
  | inl _ => post_world w = []
  end.
Proof. exact post_head_is_check. Qed.
Print Assumptions C08_post_head_is_check.

(* ---------------------------------------------------------------- outputs and return value of the consumed expectation, unconditionally *)

(* one actual call that asks for its return value, in ANY state of the mock, with ANY expectations (ignoreOtherParameters or not,
   ambiguous or not) and ANY items (unexpected / ignored output and input parameters, names passed twice, any order): either it
   was discarded (disabled / ignoreOtherCalls: no value, buffers untouched) or it consumed an expectation e of that function and
   got e's return value and, in every output buffer it passed, the bytes e defines for that name (copyOutputParameters goes
   through ALL output parameters passed) *)
Theorem C08_call_delivers_consumed : forall m f its m' r,
  actual_call true m f its true = inl (m', r) ->
  (r_ret r = Some None /\ r_outs r = bufs_of its)
  \/ exists e, In e (m_exps m') /\ e_cur e = true /\ e_name e = f /\ r_ret r = Some (e_ret e) /\
               outs_ok (out_bytes (sx_of e) its) (r_outs r) = true.
Proof. exact call_delivers_consumed. Qed.
Print Assumptions C08_call_delivers_consumed.

(* the coherence clause of the spec (return value and output bytes of one declared expectation of that function and scope) holds
   of every run of the model, whatever the operations *)
Theorem C08_coherent_every_run : forall ops, coherent ops (runw ops) = true.
Proof. exact coherent_run. Qed.
Print Assumptions C08_coherent_every_run.

(* ---------------------------------------------------------------- a run of several tests, one TestResult, the MockSupportPlugin installed *)

(* the run meets its specification: every test whose own checks pass is judged as the scenario "its mock operations, then the
   plugin's end-of-test check" (specw) whatever happened in the tests before it; a test left at its own failing check fails exactly
   once and nothing is added by the plugin; every failure observed in a test is counted once in the run's failure counter *)
Theorem C08_runs_meet_spec : forall ts, valid_run ts = true -> spec_run ts (runs ts) = true.
Proof. exact runs_meet_spec. Qed.
Print Assumptions C08_runs_meet_spec.

(* C08_run_meets_spec for every valid scenario of the extended language: a single scenario (operations on mock() and its scopes)
   or a run of tests *)
Theorem C08_run_top_meets_spec : forall s, valid_top s = true -> spec_top s (run_top s) = true.
Proof. exact run_top_meets_spec. Qed.
Print Assumptions C08_run_top_meets_spec.

(* the verdict of test k depends on test k only: the observation of a run is the list of the observations of its tests run ALONE
   (each on a new mock and a new TestResult), the failure counter summed up -- nothing else passes from one test to the next *)
Theorem C08_run_tests_independent : forall ts, runs ts = sums 0 (map run_alone ts).
Proof. exact runs_independent. Qed.
Print Assumptions C08_run_tests_independent.
Theorem C08_run_test_alone : forall ts k t o, nth_error ts k = Some t -> nth_error (runs ts) k = Some o ->
  to_obs o = to_obs (run_alone t) /\ to_own o = to_own (run_alone t) /\
  to_total o = (fold_right (fun x s => to_total (run_alone x) + s) 0 (firstn k ts) + to_total (run_alone t))%N.
Proof. exact run_test_alone. Qed.
Print Assumptions C08_run_test_alone.

(* expectations do not leak: however a test ended (passed, failed by the plugin, left at a mock failure or at its own check), the
   plugin leaves mock() as a new one, so every test of a run starts on a new mock *)
Theorem C08_run_test_leaves_mock_clear : forall st t, rs_world (fst (run_one plugin_post true st t)) = world0.
Proof. exact run_one_clears. Qed.
Print Assumptions C08_run_test_leaves_mock_clear.
Theorem C08_run_ends_clear : forall ts st, rs_world st = world0 -> rs_world (fst (run_tests plugin_post true st ts)) = world0.
Proof. exact run_tests_clean. Qed.
Print Assumptions C08_run_ends_clear.

(* a test whose own checks pass IS the single scenario that ends with the plugin's check (so C08_post_refines_M, C08_post_fails_once
   ... speak about every test of a run) *)
Theorem C08_run_test_is_scenario : forall t, own_fails t = false ->
  to_obs (run_alone t) = runw (ops_before t ++ [(0%N, OPost)]) /\ to_own (run_alone t) = false.
Proof. exact run_alone_is_scenario. Qed.
Print Assumptions C08_run_test_is_scenario.

(* its own earlier failure suppresses the mock failure: a test with a failing check of its own is the operations before that
   check and fails exactly once -- at that check, or at the mock failure an operation before it raised *)
Theorem C08_run_own_failure_once : forall t, own_fails t = true ->
  to_obs (run_alone t) = runw (ops_before t) /\ to_total (run_alone t) = 1%N /\
  to_own (run_alone t) = passed_obs (to_obs (run_alone t)).
Proof. exact run_alone_own_failure. Qed.
Print Assumptions C08_run_own_failure_once.

(* the failures a test adds to the TestResult are exactly the failures observed in it *)
Theorem C08_run_counts_failures : forall t, forallb step_valid t = true -> to_total (run_alone t) = failures_in (run_alone t).
Proof. exact run_alone_counts. Qed.
Print Assumptions C08_run_counts_failures.

(* verdict of a test of a run on the reference semantics: a test whose own checks pass and whose mock script is canonical and
   judged adds NO failure to the run iff in every scope the multiset (strict order: the sequence) of its actual calls is that of
   its expectations *)
Theorem C08_run_test_verdict : forall t k, forallb step_valid t = true -> own_fails t = false ->
  parsew (ops_before t ++ [(0%N, OCheck)]) = Some k -> judgedw k = true ->
  (to_total (run_alone t) = 0%N <-> verdictw_ok k = true).
Proof. exact run_alone_verdict. Qed.
Print Assumptions C08_run_test_verdict.

(* variants of the post action that do not have the property: deciding from the run's failure count, checking although the test
   has failed, clearing only after a check *)
Theorem C08_plugin_runwide_refuted : ~ plugin_ok plugin_runwide.
Proof. exact plugin_runwide_refuted. Qed.
Print Assumptions C08_plugin_runwide_refuted.
Theorem C08_plugin_always_refuted : ~ plugin_ok plugin_always.
Proof. exact plugin_always_refuted. Qed.
Print Assumptions C08_plugin_always_refuted.
Theorem C08_plugin_noclear_refuted : ~ plugin_ok plugin_noclear.
Proof. exact plugin_noclear_refuted. Qed.
Print Assumptions C08_plugin_noclear_refuted.

(* ---------------------------------------------------------------- the object of a call is a value *)

(* relatesToObject: an expectation relates to object a iff it names no object or names exactly a -- naming the null object is
   naming an object *)
Theorem C08_relates_object_iff : forall a e, relates_obj a e = true <-> (e_obj e = None \/ e_obj e = Some a).
Proof. exact relates_obj_iff. Qed.
Print Assumptions C08_relates_object_iff.
Theorem C08_null_object_is_an_object : forall e, e_obj e = Some 0%Z -> forall a, relates_obj a e = true <-> a = 0%Z.
Proof. exact relates_null_object. Qed.
Print Assumptions C08_null_object_is_an_object.

(* on the reference semantics: a call is what an expectation on object b describes only if it passes an object and every object it
   passes is b *)
Theorem C08_matches_object_value : forall e f its b, sx_obj e = Some b -> matches e f its = true ->
  objs_of its <> [] /\ forall a, In a (objs_of its) -> a = b.
Proof. exact matches_object. Qed.
Print Assumptions C08_matches_object_value.

(* one expectation on object b (any b, the null object included), one call: passes iff the call is made on b; on another object it
   fails at once with "unexpected object"; on no object it fails at the check with "expected call on object did not happen" *)
Theorem C08_object_verdict : forall b a,
  (passed_obs (runw (obj_scenario b [IObj a])) = true <-> a = b) /\
  (a <> b -> exists fl, o_fail (runw (obj_scenario b [IObj a])) = Some (1%N, fl) /\ f_kind fl = FObjectUnexpected 0%N) /\
  (exists fl, o_fail (runw (obj_scenario b [])) = Some (2%N, fl) /\ f_kind fl = FObjectMissing 0%N).
Proof. exact object_verdict. Qed.
Print Assumptions C08_object_verdict.
(* an expectation that names no object accepts the call on any object and on none *)
Theorem C08_no_object_expected : forall a,
  passed_obs (runw (noobj_scenario [IObj a])) = true /\ passed_obs (runw (noobj_scenario [])) = true.
Proof. exact no_object_expected. Qed.
Print Assumptions C08_no_object_expected.

(* ---------------------------------------------------------------- tests with a teardown, the library's default mock failure reporter
   (MockFailureReporter::failTest: a test that has failed is not failed again) -- "the first deviation fails the test ONCE" *)

(* the run meets its specification (spec_runt: ONCE -- nothing is delivered by the teardown or the plugin to a test that failed in
   its body, a failure delivered in the teardown is the only one; every failure counted once; the usual teardown's check is the
   scenario's final check and after it has passed nothing more fails) *)
Theorem C08_runs_t_meet_spec : forall ts, valid_runt ts = true -> spec_runt ts (runs_t ts) = true.
Proof. exact runs_t_meet_spec. Qed.
Print Assumptions C08_runs_t_meet_spec.

(* C08_run_meets_spec for every valid scenario of the language as extended here: single scenario, run of tests, run of tests with
   teardowns *)
Theorem C08_run_x_meets_spec : forall s, valid_x s = true -> spec_x s (run_x s) = true.
Proof. exact run_x_meets_spec. Qed.
Print Assumptions C08_run_x_meets_spec.

(* whatever mock() holds and whatever the teardown does: once the test has failed the default reporter delivers nothing *)
Theorem C08_teardown_dropped_when_failed : forall td fx w j, snd (td_from rep_default fx true w j td) = [].
Proof. exact td_dropped. Qed.
Print Assumptions C08_teardown_dropped_when_failed.

(* a delivered failure leaves the teardown: at most one per teardown, for ANY reporter *)
Theorem C08_teardown_at_most_one : forall rep td fx failed w j, (length (snd (td_from rep fx failed w j td)) <= 1)%nat.
Proof. exact td_at_most_one. Qed.
Print Assumptions C08_teardown_at_most_one.

(* a test that failed in its body (own check, or the first deviation that fails at the call): nothing from the teardown -- whatever
   its checks still find in mock(): calls out of order, unfulfilled expectations or incomplete calls of other scopes --, nothing
   from the plugin, exactly ONE failure *)
Theorem C08_failed_test_not_failed_again : forall t, forallb step_valid (tt_body t) = true ->
  failed_in_body (run_alone_t t) = true ->
  x_td (run_alone_t t) = [] /\ o_post (x_obs (run_alone_t t)) = [] /\ x_total (run_alone_t t) = 1%N.
Proof. exact failed_test_not_failed_again. Qed.
Print Assumptions C08_failed_test_not_failed_again.

(* a failure delivered while the teardown runs (the deviation only its check diagnoses) is the only failure of the test *)
Theorem C08_teardown_failure_is_the_only_one : forall t, forallb step_valid (tt_body t) = true ->
  x_td (run_alone_t t) <> [] ->
  (length (x_td (run_alone_t t)) = 1)%nat /\ failed_in_body (run_alone_t t) = false /\
  o_post (x_obs (run_alone_t t)) = [] /\ x_total (run_alone_t t) = 1%N.
Proof. exact teardown_failure_is_the_only_one. Qed.
Print Assumptions C08_teardown_failure_is_the_only_one.

(* every failure observed in the test (own check, failing operation, teardown, plugin) is counted once *)
Theorem C08_teardown_counts_failures : forall t, forallb step_valid (tt_body t) = true ->
  x_total (run_alone_t t) = failures_in_x (run_alone_t t).
Proof. exact run_alone_t_counts. Qed.
Print Assumptions C08_teardown_counts_failures.

(* the test with the usual teardown IS the scenario X = "its mock operations, then mock().checkExpectations()": same values, same
   failure (delivered in the body, or by the teardown's first operation when the check fails), exactly one failure when X fails
   and none at all when X passes -- nothing from the rest of the teardown, nothing from the plugin *)
Theorem C08_usual_teardown_is_scenario : forall t r,
  ttest_valid t = true -> own_fails (tt_body t) = false -> tt_td t = (0%N, OCheck) :: r ->
  let o := run_alone_t t in
  let X := ops_before (tt_body t) ++ [(0%N, OCheck)] in
  with_fail (x_obs o) (o_fail (runw X)) = runw X /\ x_own o = false /\
  match o_fail (runw X) with
  | None => x_total o = 0%N /\ x_td o = [] /\ o_fail (x_obs o) = None /\ o_post (x_obs o) = []
  | Some (i, fl) =>
      x_total o = 1%N /\ o_post (x_obs o) = [] /\
      ((i < N.of_nat (length (ops_before (tt_body t))))%N /\ o_fail (x_obs o) = Some (i, fl) /\ x_td o = [] \/
       i = N.of_nat (length (ops_before (tt_body t))) /\ o_fail (x_obs o) = None /\ x_td o = [(0%N, fl)])
  end.
Proof. exact usual_teardown_is_scenario. Qed.
Print Assumptions C08_usual_teardown_is_scenario.

(* its verdict (canonical judged mock script): no failure iff the multisets / strict sequences agree in every scope *)
Theorem C08_usual_teardown_verdict : forall t r k,
  ttest_valid t = true -> own_fails (tt_body t) = false -> tt_td t = (0%N, OCheck) :: r ->
  parsew (ops_before (tt_body t) ++ [(0%N, OCheck)]) = Some k -> judgedw k = true ->
  (x_total (run_alone_t t) = 0%N <-> verdictw_ok k = true).
Proof. exact usual_teardown_verdict. Qed.
Print Assumptions C08_usual_teardown_verdict.

(* a mock().checkExpectations() that passed (on a world reached by operations that went through) leaves nothing to report: every
   later checkExpectations() / clear() of the teardown passes and the plugin's check delivers nothing *)
Theorem C08_passed_check_leaves_calm : forall w w', ok_world w = true -> check_world w = inl w' -> calm_world w' = true.
Proof. exact check_world_calm. Qed.
Print Assumptions C08_passed_check_leaves_calm.
Theorem C08_calm_teardown_is_quiet : forall td w j, calm_world w = true -> td_valid td = true ->
  exists w', td_from rep_default true false w j td = (w', []) /\ calm_world w' = true.
Proof. exact td_calm. Qed.
Print Assumptions C08_calm_teardown_is_quiet.
Theorem C08_calm_plugin_check_is_quiet : forall w, calm_world w = true -> post_world w = [].
Proof. exact post_world_calm. Qed.
Print Assumptions C08_calm_plugin_check_is_quiet.
(* no last actual call is CALL_FAILED in a world reached by operations that went through (the failure left the test) *)
Theorem C08_no_failed_call_while_running : forall w so w' rv, ok_world w = true -> stepw true w so = inl (w', rv) -> ok_world w' = true.
Proof. exact stepw_ok. Qed.
Print Assumptions C08_no_failed_call_while_running.

(* the plugin's end-of-test check is mock().checkExpectations() with a reporter that returns *)
Theorem C08_plugin_check_is_returning_check : forall w, post_world w = snd (stepw_nl w (0%N, OCheck)).
Proof. exact post_world_is_check_nl. Qed.
Print Assumptions C08_plugin_check_is_returning_check.

(* a run of tests with teardowns is the list of its tests run alone, the counter summed; the plugin leaves mock() new after each *)
Theorem C08_runs_t_independent : forall ts, runs_t ts = sumsx 0 (map run_alone_t ts).
Proof. exact runs_t_independent. Qed.
Print Assumptions C08_runs_t_independent.
Theorem C08_run_t_leaves_mock_clear : forall st t, rs_world (fst (run_one_t rep_default plugin_post true st t)) = world0.
Proof. exact run_one_t_clears. Qed.
Print Assumptions C08_run_t_leaves_mock_clear.

(* without teardown the test is the test of C08_Runs *)
Theorem C08_teardown_empty_is_run : forall t, run_alone_t {| tt_body := t; tt_td := [] |} =
  {| x_obs := to_obs (run_alone t); x_own := to_own (run_alone t); x_td := []; x_total := to_total (run_alone t) |}.
Proof. exact teardown_empty_is_run. Qed.
Print Assumptions C08_teardown_empty_is_run.

(* a reporter that fails the test without asking whether it has already failed does NOT have the property: the test that calls out
   of order and then makes an unexpected call is failed twice when its teardown checks *)
Theorem C08_reporter_always_refuted : ~ reporter_ok rep_always.
Proof. exact reporter_always_refuted. Qed.
Print Assumptions C08_reporter_always_refuted.

(* --------------------------------------------------------------------------------------------------------------
   SOURCE TIE: the expectation list MockExpectedCallsList (src/CppUTestExt/MockExpectedCallsList.cpp, 30 member functions) as translated on every run into gen/Gen_HeapC08L.v -- on the heap representation (a chain of 2-cell nodes) each function asks every expectation once in list order, keeps / removes / appends exactly what the answers say and frees exactly the dropped nodes (_spec); for the answers the model's expectations give, the candidate list represents the model's keep_if / only_keep_unmatching / take_first / first_pot / create / for_pot / fulfilled_for (_model)
   -------------------------------------------------------------------------------------------------------------- *)
From CppUVerif Require gen.Gen_HeapC08L C08_ListRep C08_ListTie.
Local Open Scope Z_scope.
Theorem C08_pruneEmptyNodeFromList_spec :
  forall (fuel : nat) (h : CHeap.heap) (lb : nat) (ids : list Z) (nodes : list nat)
  (evs : list Gen_HeapC08L.lev) (answers : list Z),
  C08_ListRep.mlist0_at h lb ids nodes ->
  (length ids < fuel)%nat ->
  exists h' : CHeap.heap,
  Gen_HeapC08L.src_mlist_pruneEmptyNodeFromList fuel h evs answers (CHeap.HPtr lb 0) =
  CMem.FOk
  (tt, h',
  evs ++ map (fun b : nat => Gen_HeapC08L.LDelete (CHeap.HPtr b 0)) (C08_ListRep.dead_nodes ids nodes),
  answers) /\
  C08_ListRep.mlist_at h' lb (C08_ListRep.live_ids ids) (C08_ListRep.live_nodes ids nodes) /\
  length h' = length h /\
  (forall b : nat,
  b <> lb -> ~ In b (C08_ListRep.live_nodes ids nodes) -> CHeap.hblock h' b = CHeap.hblock h b) /\
  (forall b : nat, In b nodes -> nth_error (CHeap.hblock h' b) 0 = nth_error (CHeap.hblock h b) 0).
Proof. exact C08_ListRep.pruneEmptyNodeFromList_spec. Qed.
Print Assumptions C08_pruneEmptyNodeFromList_spec.

Theorem C08_onlyKeepExpectationsRelatedTo_spec :
  forall name : Z,
  C08_ListRep.only_keep_ok
  (fun (fuel : nat) (h : CHeap.heap) (evs : list Gen_HeapC08L.lev) (answers : list Z) (this_ : CHeap.hptr) =>
  Gen_HeapC08L.src_mlist_onlyKeepExpectationsRelatedTo fuel h evs answers this_ name)
  (C08_ListRep.zipw
  (fun id a : Z =>
  Gen_HeapC08L.LAskArg
  (String.String (Ascii.Ascii false true false false true true true false)
  (String.String (Ascii.Ascii true false true false false true true false)
  (String.String (Ascii.Ascii false false true true false true true false)
  (String.String (Ascii.Ascii true false false false false true true false)
  (String.String (Ascii.Ascii false false true false true true true false)
  (String.String (Ascii.Ascii true false true false false true true false)
  (String.String (Ascii.Ascii true true false false true true true false)
  (String.String (Ascii.Ascii false false true false true false true false)
  (String.String (Ascii.Ascii true true true true false true true false)
  String.EmptyString))))))))) id name a)) C08_ListRep.drops_zero.
Proof. exact C08_ListRep.onlyKeepExpectationsRelatedTo_spec. Qed.
Print Assumptions C08_onlyKeepExpectationsRelatedTo_spec.

Theorem C08_onlyKeepUnmatchingExpectations_spec :
  C08_ListRep.only_keep_ok Gen_HeapC08L.src_mlist_onlyKeepUnmatchingExpectations C08_ListRep.unm_events CSem.z2b.
Proof. exact C08_ListRep.onlyKeepUnmatchingExpectations_spec. Qed.
Print Assumptions C08_onlyKeepUnmatchingExpectations_spec.

Theorem C08_hasExpectationWithName_spec :
  forall name : Z,
  C08_ListRep.has_ok
  (fun (fuel : nat) (h : CHeap.heap) (evs : list Gen_HeapC08L.lev) (answers : list Z) (this_ : CHeap.hptr) =>
  Gen_HeapC08L.src_mlist_hasExpectationWithName fuel h evs answers this_ name)
  (fun id a : Z =>
  Gen_HeapC08L.LAskArg
  (String.String (Ascii.Ascii false true false false true true true false)
  (String.String (Ascii.Ascii true false true false false true true false)
  (String.String (Ascii.Ascii false false true true false true true false)
  (String.String (Ascii.Ascii true false false false false true true false)
  (String.String (Ascii.Ascii false false true false true true true false)
  (String.String (Ascii.Ascii true false true false false true true false)
  (String.String (Ascii.Ascii true true false false true true true false)
  (String.String (Ascii.Ascii false false true false true false true false)
  (String.String (Ascii.Ascii true true true true false true true false)
  String.EmptyString))))))))) id name a) C08_ListRep.yes.
Proof. exact C08_ListRep.hasExpectationWithName_spec. Qed.
Print Assumptions C08_hasExpectationWithName_spec.

Theorem C08_getFirstMatchingExpectation_spec :
  forall (fuel : nat) (h : CHeap.heap) (lb : nat) (ids : list Z) (nodes : list nat)
  (evs : list Gen_HeapC08L.lev) (answers : list Z),
  C08_ListRep.mlist0_at h lb ids nodes ->
  (length ids < fuel)%nat ->
  let asks := C08_ListRep.asked C08_ListRep.yes ids answers in
  (existsb C08_ListRep.yes asks = true \/ (length ids <= length answers)%nat ->
  Gen_HeapC08L.src_mlist_getFirstMatchingExpectation fuel h evs answers (CHeap.HPtr lb 0) =
  CMem.FOk
  (C08_ListRep.first_id C08_ListRep.yes ids answers, h,
  evs ++
  C08_ListRep.zipw
  (Gen_HeapC08L.LAsk
  (String.String (Ascii.Ascii true false false true false true true false)
  (String.String (Ascii.Ascii true true false false true true true false)
  (String.String (Ascii.Ascii true false true true false false true false)
  (String.String (Ascii.Ascii true false false false false true true false)
  (String.String (Ascii.Ascii false false true false true true true false)
  (String.String (Ascii.Ascii true true false false false true true false)
  (String.String (Ascii.Ascii false false false true false true true false)
  (String.String (Ascii.Ascii true false false true false true true false)
  (String.String (Ascii.Ascii false true true true false true true false)
  (String.String (Ascii.Ascii true true true false false true true false)
  (String.String
  (Ascii.Ascii true false false false false false true false)
  (String.String
  (Ascii.Ascii true true false false false true true false)
  (String.String
  (Ascii.Ascii false false true false true true true false)
  (String.String
  (Ascii.Ascii true false true false true true true false)
  (String.String
  (Ascii.Ascii true false false false false true true
  false)
  (String.String
  (Ascii.Ascii false false true true false true true
  false)
  (String.String
  (Ascii.Ascii true true false false false false
  true false)
  (String.String
  (Ascii.Ascii true false false false false true
  true false)
  (String.String
  (Ascii.Ascii false false true true false
  true true false)
  (String.String
  (Ascii.Ascii false false true true false
  true true false) String.EmptyString)))))))))))))))))))))
  ids asks, skipn (length asks) answers)) /\
  (existsb C08_ListRep.yes asks = false ->
  (length answers < length ids)%nat ->
  Gen_HeapC08L.src_mlist_getFirstMatchingExpectation fuel h evs answers (CHeap.HPtr lb 0) = CMem.FOob).
Proof. exact C08_ListRep.getFirstMatchingExpectation_spec. Qed.
Print Assumptions C08_getFirstMatchingExpectation_spec.

Theorem C08_removeFirstMatchingExpectation_spec :
  C08_ListRep.remove_first_ok Gen_HeapC08L.src_mlist_removeFirstMatchingExpectation
  (String.String (Ascii.Ascii true false false true false true true false)
  (String.String (Ascii.Ascii true true false false true true true false)
  (String.String (Ascii.Ascii true false true true false false true false)
  (String.String (Ascii.Ascii true false false false false true true false)
  (String.String (Ascii.Ascii false false true false true true true false)
  (String.String (Ascii.Ascii true true false false false true true false)
  (String.String (Ascii.Ascii false false false true false true true false)
  (String.String (Ascii.Ascii true false false true false true true false)
  (String.String (Ascii.Ascii false true true true false true true false)
  (String.String (Ascii.Ascii true true true false false true true false)
  (String.String (Ascii.Ascii true false false false false false true false)
  (String.String (Ascii.Ascii true true false false false true true false)
  (String.String (Ascii.Ascii false false true false true true true false)
  (String.String
  (Ascii.Ascii true false true false true true true false)
  (String.String
  (Ascii.Ascii true false false false false true true false)
  (String.String
  (Ascii.Ascii false false true true false true true false)
  (String.String
  (Ascii.Ascii true true false false false false true false)
  (String.String
  (Ascii.Ascii true false false false false true true
  false)
  (String.String
  (Ascii.Ascii false false true true false true true
  false)
  (String.String
  (Ascii.Ascii false false true true false true
  true false) String.EmptyString)))))))))))))))))))).
Proof. exact C08_ListRep.removeFirstMatchingExpectation_spec. Qed.
Print Assumptions C08_removeFirstMatchingExpectation_spec.

Theorem C08_size_spec :
  forall (fuel : nat) (h : CHeap.heap) (lb : nat) (ids : list Z) (nodes : list nat)
  (evs : list Gen_HeapC08L.lev) (answers : list Z),
  C08_ListRep.mlist0_at h lb ids nodes ->
  (length ids < fuel)%nat ->
  Gen_HeapC08L.src_mlist_size fuel h evs answers (CHeap.HPtr lb 0) =
  CMem.FOk (Z.of_nat (length ids) mod 2 ^ 32, h, evs, answers).
Proof. exact C08_ListRep.size_spec. Qed.
Print Assumptions C08_size_spec.

Theorem C08_size_wraps :
  forall (fuel : nat) (h : CHeap.heap) (lb : nat) (ids : list Z) (nodes : list nat)
  (evs : list Gen_HeapC08L.lev) (answers : list Z) (k r : Z),
  C08_ListRep.mlist0_at h lb ids nodes ->
  (length ids < fuel)%nat ->
  Z.of_nat (length ids) = k * 2 ^ 32 + r ->
  0 <= r < 2 ^ 32 ->
  Gen_HeapC08L.src_mlist_size fuel h evs answers (CHeap.HPtr lb 0) = CMem.FOk (r, h, evs, answers).
Proof. exact C08_ListRep.size_wraps. Qed.
Print Assumptions C08_size_wraps.

Theorem C08_isEmpty_spec :
  forall (fuel : nat) (h : CHeap.heap) (lb : nat) (ids : list Z) (nodes : list nat)
  (evs : list Gen_HeapC08L.lev) (answers : list Z),
  C08_ListRep.mlist0_at h lb ids nodes ->
  Gen_HeapC08L.src_mlist_isEmpty fuel h evs answers (CHeap.HPtr lb 0) =
  CMem.FOk (CSem.b2z match ids with
  | [] => true
  | _ :: _ => false
  end, h, evs, answers).
Proof. exact C08_ListRep.isEmpty_spec. Qed.
Print Assumptions C08_isEmpty_spec.

Theorem C08_amountOfActualCallsFulfilledFor_spec :
  forall (fuel : nat) (h : CHeap.heap) (lb : nat) (ids : list Z) (nodes : list nat)
  (evs : list Gen_HeapC08L.lev) (answers : list Z) (name : Z),
  C08_ListRep.mlist0_at h lb ids nodes ->
  (length ids < fuel)%nat ->
  Gen_HeapC08L.src_mlist_amountOfActualCallsFulfilledFor fuel h evs answers (CHeap.HPtr lb 0) name =
  match C08_ListRep.ful_run name ids answers with
  | Some (ev, s, rest) => CMem.FOk (s mod 2 ^ 32, h, evs ++ ev, rest)
  | None => CMem.FOob
  end.
Proof. exact C08_ListRep.amountOfActualCallsFulfilledFor_spec. Qed.
Print Assumptions C08_amountOfActualCallsFulfilledFor_spec.

Theorem C08_addExpectedCall_spec_le :
  forall (fuel : nat) (h : CHeap.heap) (lb : nat) (ids : list Z) (nodes : list nat)
  (evs : list Gen_HeapC08L.lev) (answers : list Z) (call : Z),
  C08_ListRep.mlist0_at h lb ids nodes ->
  (length ids <= fuel)%nat ->
  exists h' : CHeap.heap,
  Gen_HeapC08L.src_mlist_addExpectedCall fuel h evs answers (CHeap.HPtr lb 0) call =
  CMem.FOk (tt, h', evs ++ [Gen_HeapC08L.LNew (CHeap.HPtr (length h) 0)], answers) /\
  C08_ListRep.mlist0_at h' lb (ids ++ [call]) (nodes ++ [length h]) /\
  length h' = S (length h) /\
  (forall b : nat,
  (b < length h)%nat -> b <> C08_ListRep.tail_block lb nodes -> CHeap.hblock h' b = CHeap.hblock h b).
Proof. exact C08_ListRep.addExpectedCall_spec_le. Qed.
Print Assumptions C08_addExpectedCall_spec_le.

Theorem C08_addPotentiallyMatchingExpectations_spec :
  C08_ListRep.add_filtered_ok Gen_HeapC08L.src_mlist_addPotentiallyMatchingExpectations
  (Gen_HeapC08L.LAsk
  (String.String (Ascii.Ascii true true false false false true true false)
  (String.String (Ascii.Ascii true false false false false true true false)
  (String.String (Ascii.Ascii false true true true false true true false)
  (String.String (Ascii.Ascii true false true true false false true false)
  (String.String (Ascii.Ascii true false false false false true true false)
  (String.String (Ascii.Ascii false false true false true true true false)
  (String.String (Ascii.Ascii true true false false false true true false)
  (String.String (Ascii.Ascii false false false true false true true false)
  (String.String (Ascii.Ascii true false false false false false true false)
  (String.String (Ascii.Ascii true true false false false true true false)
  (String.String (Ascii.Ascii false false true false true true true false)
  (String.String (Ascii.Ascii true false true false true true true false)
  (String.String
  (Ascii.Ascii true false false false false true true false)
  (String.String
  (Ascii.Ascii false false true true false true true false)
  (String.String
  (Ascii.Ascii true true false false false false true false)
  (String.String
  (Ascii.Ascii true false false false false true true false)
  (String.String
  (Ascii.Ascii false false true true false true true
  false)
  (String.String
  (Ascii.Ascii false false true true false true true
  false)
  (String.String
  (Ascii.Ascii true true false false true true
  true false) String.EmptyString)))))))))))))))))))).
Proof. exact C08_ListRep.addPotentiallyMatchingExpectations_spec. Qed.
Print Assumptions C08_addPotentiallyMatchingExpectations_spec.

Theorem C08_addExpectations_spec :
  forall (fuel : nat) (h : CHeap.heap) (lb : nat) (ids : list Z) (nodes : list nat)
  (olb : nat) (oids : list Z) (onodes : list nat) (evs : list Gen_HeapC08L.lev) (answers : list Z),
  C08_ListRep.two_lists h lb ids nodes olb oids onodes ->
  (length ids + length oids < fuel)%nat ->
  exists h' : CHeap.heap,
  Gen_HeapC08L.src_mlist_addExpectations fuel h evs answers (CHeap.HPtr lb 0) (CHeap.HPtr olb 0) =
  CMem.FOk
  (tt, h', evs ++ map (fun n : nat => Gen_HeapC08L.LNew (CHeap.HPtr n 0)) (seq (length h) (length oids)),
  answers) /\
  C08_ListRep.mlist_at h' lb (ids ++ oids) (nodes ++ seq (length h) (length oids)) /\
  C08_ListRep.mlist_at h' olb oids onodes /\
  length h' = (length h + length oids)%nat /\
  (forall b : nat, (b < length h)%nat -> b <> lb -> ~ In b nodes -> CHeap.hblock h' b = CHeap.hblock h b).
Proof. exact C08_ListRep.addExpectations_spec. Qed.
Print Assumptions C08_addExpectations_spec.

Theorem C08_addExpectations_self :
  forall (fuel : nat) (h : CHeap.heap) (lb : nat) (ids : list Z) (nodes : list nat)
  (evs : list Gen_HeapC08L.lev) (answers : list Z),
  C08_ListRep.mlist_at h lb ids nodes ->
  ids <> [] ->
  Gen_HeapC08L.src_mlist_addExpectations fuel h evs answers (CHeap.HPtr lb 0) (CHeap.HPtr lb 0) = CMem.FNoFuel.
Proof. exact C08_ListRep.addExpectations_self. Qed.
Print Assumptions C08_addExpectations_self.

Theorem C08_deleteAllExpectationsAndClearList_spec :
  forall (fuel : nat) (h : CHeap.heap) (lb : nat) (ids : list Z) (nodes : list nat)
  (evs : list Gen_HeapC08L.lev) (answers : list Z),
  C08_ListRep.mlist0_at h lb ids nodes ->
  (length ids < fuel)%nat ->
  exists h' : CHeap.heap,
  Gen_HeapC08L.src_mlist_deleteAllExpectationsAndClearList fuel h evs answers (CHeap.HPtr lb 0) =
  CMem.FOk (tt, h', evs ++ C08_ListRep.del_events ids nodes, answers) /\
  C08_ListRep.mlist_at h' lb [] [] /\
  length h' = length h /\ (forall b : nat, b <> lb -> CHeap.hblock h' b = CHeap.hblock h b).
Proof. exact C08_ListRep.deleteAllExpectationsAndClearList_spec. Qed.
Print Assumptions C08_deleteAllExpectationsAndClearList_spec.

Theorem C08_resetActualCallMatchingState_spec :
  C08_ListRep.tell_ok Gen_HeapC08L.src_mlist_resetActualCallMatchingState
  (Gen_HeapC08L.LTell
  (String.String (Ascii.Ascii false true false false true true true false)
  (String.String (Ascii.Ascii true false true false false true true false)
  (String.String (Ascii.Ascii true true false false true true true false)
  (String.String (Ascii.Ascii true false true false false true true false)
  (String.String (Ascii.Ascii false false true false true true true false)
  (String.String (Ascii.Ascii true false false false false false true false)
  (String.String (Ascii.Ascii true true false false false true true false)
  (String.String (Ascii.Ascii false false true false true true true false)
  (String.String (Ascii.Ascii true false true false true true true false)
  (String.String (Ascii.Ascii true false false false false true true false)
  (String.String (Ascii.Ascii false false true true false true true false)
  (String.String
  (Ascii.Ascii true true false false false false true false)
  (String.String
  (Ascii.Ascii true false false false false true true false)
  (String.String
  (Ascii.Ascii false false true true false true true false)
  (String.String
  (Ascii.Ascii false false true true false true true false)
  (String.String
  (Ascii.Ascii true false true true false false true false)
  (String.String
  (Ascii.Ascii true false false false false true true
  false)
  (String.String
  (Ascii.Ascii false false true false true true true
  false)
  (String.String
  (Ascii.Ascii true true false false false true
  true false)
  (String.String
  (Ascii.Ascii false false false true false
  true true false)
  (String.String
  (Ascii.Ascii true false false true false
  true true false)
  (String.String
  (Ascii.Ascii false true true true false
  true true false)
  (String.String
  (Ascii.Ascii true true true false
  false true true false)
  (String.String
  (Ascii.Ascii true true false
  false true false true false)
  (String.String
  (Ascii.Ascii false false true
  false true true true false)
  (String.String
  (Ascii.Ascii true false false
  false false true true false)
  (String.String
  (Ascii.Ascii false false true
  false true true true false)
  (String.String
  (Ascii.Ascii true false true
  false false true true false)
  String.EmptyString))))))))))))))))))))))))))))).
Proof. exact C08_ListRep.resetActualCallMatchingState_spec. Qed.
Print Assumptions C08_resetActualCallMatchingState_spec.

Theorem C08_mlist_layout_is_the_source :
  Gen_HeapC08L.off_MockExpectedCallsListNode_expectedCall_ = 0 /\
  Gen_HeapC08L.off_MockExpectedCallsListNode_next_ = 1 /\
  Gen_HeapC08L.cells_MockExpectedCallsListNode = 2 /\
  Gen_HeapC08L.off_MockExpectedCallsList_head_ = 0 /\ Gen_HeapC08L.cells_MockExpectedCallsList = 1.
Proof. exact C08_ListRep.mlist_layout_is_the_source. Qed.
Print Assumptions C08_mlist_layout_is_the_source.

Theorem C08_onlyKeepExpectationsRelatedTo_model :
  forall (nm : Z) (f : name),
  C08_ListTie.keeps_like
  (fun (fuel : nat) (h : CHeap.heap) (evs : list Gen_HeapC08L.lev) (answers : list Z) (this_ : CHeap.hptr) =>
  Gen_HeapC08L.src_mlist_onlyKeepExpectationsRelatedTo fuel h evs answers this_ nm)
  (fun id a : Z =>
  Gen_HeapC08L.LAskArg
  (String.String (Ascii.Ascii false true false false true true true false)
  (String.String (Ascii.Ascii true false true false false true true false)
  (String.String (Ascii.Ascii false false true true false true true false)
  (String.String (Ascii.Ascii true false false false false true true false)
  (String.String (Ascii.Ascii false false true false true true true false)
  (String.String (Ascii.Ascii true false true false false true true false)
  (String.String (Ascii.Ascii true true false false true true true false)
  (String.String (Ascii.Ascii false false true false true false true false)
  (String.String (Ascii.Ascii true true true true false true true false)
  String.EmptyString))))))))) id nm a) (relates f).
Proof. exact C08_ListTie.onlyKeepExpectationsRelatedTo_model. Qed.
Print Assumptions C08_onlyKeepExpectationsRelatedTo_model.

Theorem C08_onlyKeepExpectationsWithInputParameter_model :
  forall (pm : Z) (n : name) (v : pv),
  C08_ListTie.keeps_like
  (fun (fuel : nat) (h : CHeap.heap) (evs : list Gen_HeapC08L.lev) (answers : list Z) (this_ : CHeap.hptr) =>
  Gen_HeapC08L.src_mlist_onlyKeepExpectationsWithInputParameter fuel h evs answers this_ pm)
  (fun id a : Z =>
  Gen_HeapC08L.LAskArg
  (String.String (Ascii.Ascii false false false true false true true false)
  (String.String (Ascii.Ascii true false false false false true true false)
  (String.String (Ascii.Ascii true true false false true true true false)
  (String.String (Ascii.Ascii true false false true false false true false)
  (String.String (Ascii.Ascii false true true true false true true false)
  (String.String (Ascii.Ascii false false false false true true true false)
  (String.String (Ascii.Ascii true false true false true true true false)
  (String.String (Ascii.Ascii false false true false true true true false)
  (String.String (Ascii.Ascii false false false false true false true false)
  (String.String (Ascii.Ascii true false false false false true true false)
  (String.String (Ascii.Ascii false true false false true true true false)
  (String.String
  (Ascii.Ascii true false false false false true true false)
  (String.String
  (Ascii.Ascii true false true true false true true false)
  (String.String
  (Ascii.Ascii true false true false false true true false)
  (String.String
  (Ascii.Ascii false false true false true true true false)
  (String.String
  (Ascii.Ascii true false true false false true true false)
  (String.String
  (Ascii.Ascii false true false false true true true
  false) String.EmptyString))))))))))))))))) id pm a)
  (has_input n v).
Proof. exact C08_ListTie.onlyKeepExpectationsWithInputParameter_model. Qed.
Print Assumptions C08_onlyKeepExpectationsWithInputParameter_model.

Theorem C08_onlyKeepExpectationsWithOutputParameter_model :
  forall (pm : Z) (n : name),
  C08_ListTie.keeps_like
  (fun (fuel : nat) (h : CHeap.heap) (evs : list Gen_HeapC08L.lev) (answers : list Z) (this_ : CHeap.hptr) =>
  Gen_HeapC08L.src_mlist_onlyKeepExpectationsWithOutputParameter fuel h evs answers this_ pm)
  (fun id a : Z =>
  Gen_HeapC08L.LAskArg
  (String.String (Ascii.Ascii false false false true false true true false)
  (String.String (Ascii.Ascii true false false false false true true false)
  (String.String (Ascii.Ascii true true false false true true true false)
  (String.String (Ascii.Ascii true true true true false false true false)
  (String.String (Ascii.Ascii true false true false true true true false)
  (String.String (Ascii.Ascii false false true false true true true false)
  (String.String (Ascii.Ascii false false false false true true true false)
  (String.String (Ascii.Ascii true false true false true true true false)
  (String.String (Ascii.Ascii false false true false true true true false)
  (String.String (Ascii.Ascii false false false false true false true false)
  (String.String (Ascii.Ascii true false false false false true true false)
  (String.String (Ascii.Ascii false true false false true true true false)
  (String.String
  (Ascii.Ascii true false false false false true true false)
  (String.String
  (Ascii.Ascii true false true true false true true false)
  (String.String
  (Ascii.Ascii true false true false false true true false)
  (String.String
  (Ascii.Ascii false false true false true true true false)
  (String.String
  (Ascii.Ascii true false true false false true true
  false)
  (String.String
  (Ascii.Ascii false true false false true true true
  false) String.EmptyString)))))))))))))))))) id
  pm a) (has_output n).
Proof. exact C08_ListTie.onlyKeepExpectationsWithOutputParameter_model. Qed.
Print Assumptions C08_onlyKeepExpectationsWithOutputParameter_model.

Theorem C08_onlyKeepExpectationsOnObject_model :
  forall ob a : Z,
  C08_ListTie.keeps_like
  (fun (fuel : nat) (h : CHeap.heap) (evs : list Gen_HeapC08L.lev) (answers : list Z) (this_ : CHeap.hptr) =>
  Gen_HeapC08L.src_mlist_onlyKeepExpectationsOnObject fuel h evs answers this_ ob)
  (fun id x : Z =>
  Gen_HeapC08L.LAskArg
  (String.String (Ascii.Ascii false true false false true true true false)
  (String.String (Ascii.Ascii true false true false false true true false)
  (String.String (Ascii.Ascii false false true true false true true false)
  (String.String (Ascii.Ascii true false false false false true true false)
  (String.String (Ascii.Ascii false false true false true true true false)
  (String.String (Ascii.Ascii true false true false false true true false)
  (String.String (Ascii.Ascii true true false false true true true false)
  (String.String (Ascii.Ascii false false true false true false true false)
  (String.String (Ascii.Ascii true true true true false true true false)
  (String.String (Ascii.Ascii true true true true false false true false)
  (String.String (Ascii.Ascii false true false false false true true false)
  (String.String (Ascii.Ascii false true false true false true true false)
  (String.String
  (Ascii.Ascii true false true false false true true false)
  (String.String
  (Ascii.Ascii true true false false false true true false)
  (String.String
  (Ascii.Ascii false false true false true true true false)
  String.EmptyString))))))))))))))) id ob x)
  (relates_obj a).
Proof. exact C08_ListTie.onlyKeepExpectationsOnObject_model. Qed.
Print Assumptions C08_onlyKeepExpectationsOnObject_model.

Theorem C08_onlyKeepExpectationsWithInputParameterName_model :
  forall (nm : Z) (n : name),
  C08_ListTie.keeps_like
  (fun (fuel : nat) (h : CHeap.heap) (evs : list Gen_HeapC08L.lev) (answers : list Z) (this_ : CHeap.hptr) =>
  Gen_HeapC08L.src_mlist_onlyKeepExpectationsWithInputParameterName fuel h evs answers this_ nm)
  (fun id a : Z =>
  Gen_HeapC08L.LAskArg
  (String.String (Ascii.Ascii false false false true false true true false)
  (String.String (Ascii.Ascii true false false false false true true false)
  (String.String (Ascii.Ascii true true false false true true true false)
  (String.String (Ascii.Ascii true false false true false false true false)
  (String.String (Ascii.Ascii false true true true false true true false)
  (String.String (Ascii.Ascii false false false false true true true false)
  (String.String (Ascii.Ascii true false true false true true true false)
  (String.String (Ascii.Ascii false false true false true true true false)
  (String.String (Ascii.Ascii false false false false true false true false)
  (String.String (Ascii.Ascii true false false false false true true false)
  (String.String (Ascii.Ascii false true false false true true true false)
  (String.String
  (Ascii.Ascii true false false false false true true false)
  (String.String
  (Ascii.Ascii true false true true false true true false)
  (String.String
  (Ascii.Ascii true false true false false true true false)
  (String.String
  (Ascii.Ascii false false true false true true true false)
  (String.String
  (Ascii.Ascii true false true false false true true false)
  (String.String
  (Ascii.Ascii false true false false true true true
  false)
  (String.String
  (Ascii.Ascii true true true false true false true
  false)
  (String.String
  (Ascii.Ascii true false false true false true
  true false)
  (String.String
  (Ascii.Ascii false false true false true true
  true false)
  (String.String
  (Ascii.Ascii false false false true false
  true true false)
  (String.String
  (Ascii.Ascii false true true true false
  false true false)
  (String.String
  (Ascii.Ascii true false false false
  false true true false)
  (String.String
  (Ascii.Ascii true false true true
  false true true false)
  (String.String
  (Ascii.Ascii true false true
  false false true true false)
  String.EmptyString)))))))))))))))))))))))))
  id nm a) (has_input_name n).
Proof. exact C08_ListTie.onlyKeepExpectationsWithInputParameterName_model. Qed.
Print Assumptions C08_onlyKeepExpectationsWithInputParameterName_model.

Theorem C08_onlyKeepExpectationsWithOutputParameterName_model :
  forall (nm : Z) (n : name),
  C08_ListTie.keeps_like
  (fun (fuel : nat) (h : CHeap.heap) (evs : list Gen_HeapC08L.lev) (answers : list Z) (this_ : CHeap.hptr) =>
  Gen_HeapC08L.src_mlist_onlyKeepExpectationsWithOutputParameterName fuel h evs answers this_ nm)
  (fun id a : Z =>
  Gen_HeapC08L.LAskArg
  (String.String (Ascii.Ascii false false false true false true true false)
  (String.String (Ascii.Ascii true false false false false true true false)
  (String.String (Ascii.Ascii true true false false true true true false)
  (String.String (Ascii.Ascii true true true true false false true false)
  (String.String (Ascii.Ascii true false true false true true true false)
  (String.String (Ascii.Ascii false false true false true true true false)
  (String.String (Ascii.Ascii false false false false true true true false)
  (String.String (Ascii.Ascii true false true false true true true false)
  (String.String (Ascii.Ascii false false true false true true true false)
  (String.String (Ascii.Ascii false false false false true false true false)
  (String.String (Ascii.Ascii true false false false false true true false)
  (String.String (Ascii.Ascii false true false false true true true false)
  (String.String
  (Ascii.Ascii true false false false false true true false)
  (String.String
  (Ascii.Ascii true false true true false true true false)
  (String.String
  (Ascii.Ascii true false true false false true true false)
  (String.String
  (Ascii.Ascii false false true false true true true false)
  (String.String
  (Ascii.Ascii true false true false false true true
  false)
  (String.String
  (Ascii.Ascii false true false false true true true
  false)
  (String.String
  (Ascii.Ascii true true true false true false
  true false)
  (String.String
  (Ascii.Ascii true false false true false true
  true false)
  (String.String
  (Ascii.Ascii false false true false true
  true true false)
  (String.String
  (Ascii.Ascii false false false true
  false true true false)
  (String.String
  (Ascii.Ascii false true true true
  false false true false)
  (String.String
  (Ascii.Ascii true false false
  false false true true false)
  (String.String
  (Ascii.Ascii true false true
  true false true true false)
  (String.String
  (Ascii.Ascii true false true
  false false true true false)
  String.EmptyString))))))))))))))))))))))))))
  id nm a) (has_output_name n).
Proof. exact C08_ListTie.onlyKeepExpectationsWithOutputParameterName_model. Qed.
Print Assumptions C08_onlyKeepExpectationsWithOutputParameterName_model.

Theorem C08_onlyKeepOutOfOrderExpectations_model :
  C08_ListTie.keeps_like Gen_HeapC08L.src_mlist_onlyKeepOutOfOrderExpectations
  (Gen_HeapC08L.LAsk
  (String.String (Ascii.Ascii true false false true false true true false)
  (String.String (Ascii.Ascii true true false false true true true false)
  (String.String (Ascii.Ascii true true true true false false true false)
  (String.String (Ascii.Ascii true false true false true true true false)
  (String.String (Ascii.Ascii false false true false true true true false)
  (String.String (Ascii.Ascii true true true true false false true false)
  (String.String (Ascii.Ascii false true true false false true true false)
  (String.String (Ascii.Ascii true true true true false false true false)
  (String.String (Ascii.Ascii false true false false true true true false)
  (String.String (Ascii.Ascii false false true false false true true false)
  (String.String (Ascii.Ascii true false true false false true true false)
  (String.String (Ascii.Ascii false true false false true true true false)
  String.EmptyString))))))))))))) e_ooo.
Proof. exact C08_ListTie.onlyKeepOutOfOrderExpectations_model. Qed.
Print Assumptions C08_onlyKeepOutOfOrderExpectations_model.

Theorem C08_onlyKeepUnmatchingExpectations_model :
  forall (fuel : nat) (h : CHeap.heap) (lb : nat) (es : list expn) (idof : nat -> Z)
  (nodes : list nat) (evs : list Gen_HeapC08L.lev) (rest : list Z),
  C08_ListTie.cand_rep h lb es idof nodes ->
  (length (filter e_pot es) < fuel)%nat ->
  exists h' : CHeap.heap,
  Gen_HeapC08L.src_mlist_onlyKeepUnmatchingExpectations fuel h evs
  (C08_ListTie.model_answers_of e_pot is_matching_fin es ++ rest) (CHeap.HPtr lb 0) =
  CMem.FOk
  (tt, h',
  evs ++
  C08_ListRep.unm_events (map idof (C08_ListTie.pos_from e_pot 0 es))
  (C08_ListTie.model_answers_of e_pot is_matching_fin es ++ rest) ++
  map (fun b : nat => Gen_HeapC08L.LDelete (CHeap.HPtr b 0))
  (C08_ListRep.drop_by nodes (map CSem.z2b (C08_ListTie.model_answers_of e_pot is_matching_fin es))),
  rest) /\
  C08_ListTie.cand_rep h' lb (only_keep_unmatching es) idof
  (C08_ListRep.keep_by nodes (map CSem.z2b (C08_ListTie.model_answers_of e_pot is_matching_fin es))) /\
  length h' = length h /\
  (forall b : nat, b <> lb -> ~ In b nodes -> CHeap.hblock h' b = CHeap.hblock h b) /\
  filter C08_ListRep.is_tell
  (C08_ListRep.unm_events (map idof (C08_ListTie.pos_from e_pot 0 es))
  (C08_ListTie.model_answers_of e_pot is_matching_fin es ++ rest)) =
  map
  (fun k : nat =>
  Gen_HeapC08L.LTell
  (String.String (Ascii.Ascii false true false false true true true false)
  (String.String (Ascii.Ascii true false true false false true true false)
  (String.String (Ascii.Ascii true true false false true true true false)
  (String.String (Ascii.Ascii true false true false false true true false)
  (String.String (Ascii.Ascii false false true false true true true false)
  (String.String (Ascii.Ascii true false false false false false true false)
  (String.String (Ascii.Ascii true true false false false true true false)
  (String.String (Ascii.Ascii false false true false true true true false)
  (String.String (Ascii.Ascii true false true false true true true false)
  (String.String (Ascii.Ascii true false false false false true true false)
  (String.String (Ascii.Ascii false false true true false true true false)
  (String.String
  (Ascii.Ascii true true false false false false true false)
  (String.String
  (Ascii.Ascii true false false false false true true false)
  (String.String
  (Ascii.Ascii false false true true false true true false)
  (String.String
  (Ascii.Ascii false false true true false true true false)
  (String.String
  (Ascii.Ascii true false true true false false true
  false)
  (String.String
  (Ascii.Ascii true false false false false true true
  false)
  (String.String
  (Ascii.Ascii false false true false true true
  true false)
  (String.String
  (Ascii.Ascii true true false false false true
  true false)
  (String.String
  (Ascii.Ascii false false false true false
  true true false)
  (String.String
  (Ascii.Ascii true false false true false
  true true false)
  (String.String
  (Ascii.Ascii false true true true
  false true true false)
  (String.String
  (Ascii.Ascii true true true false
  false true true false)
  (String.String
  (Ascii.Ascii true true false
  false true false true false)
  (String.String
  (Ascii.Ascii false false true
  false true true true false)
  (String.String
  (Ascii.Ascii true false false
  false false true true false)
  (String.String
  (Ascii.Ascii false false true
  false true true true false)
  (String.String
  (Ascii.Ascii true false true
  false false true true false)
  String.EmptyString))))))))))))))))))))))))))))
  (idof k)) (C08_ListTie.pos_from (fun e : expn => e_pot e && is_matching_fin e) 0 es).
Proof. exact C08_ListTie.onlyKeepUnmatchingExpectations_model. Qed.
Print Assumptions C08_onlyKeepUnmatchingExpectations_model.

Theorem C08_isEmpty_model :
  forall (fuel : nat) (h : CHeap.heap) (lb : nat) (es : list expn) (idof : nat -> Z)
  (nodes : list nat) (evs : list Gen_HeapC08L.lev) (answers : list Z),
  C08_ListTie.cand_rep h lb es idof nodes ->
  Gen_HeapC08L.src_mlist_isEmpty fuel h evs answers (CHeap.HPtr lb 0) =
  CMem.FOk (CSem.b2z (pot_empty es), h, evs, answers).
Proof. exact C08_ListTie.isEmpty_model. Qed.
Print Assumptions C08_isEmpty_model.

Theorem C08_getFirstMatchingExpectation_model :
  forall (fuel : nat) (h : CHeap.heap) (lb : nat) (es : list expn) (idof : nat -> Z)
  (nodes : list nat) (evs : list Gen_HeapC08L.lev) (rest : list Z),
  C08_ListTie.cand_rep h lb es idof nodes ->
  (length (filter e_pot es) < fuel)%nat ->
  let asks :=
  C08_ListRep.asked C08_ListRep.yes (map idof (C08_ListTie.pos_from e_pot 0 es))
  (C08_ListTie.model_answers_of e_pot is_matching es) in
  Gen_HeapC08L.src_mlist_getFirstMatchingExpectation fuel h evs
  (C08_ListTie.model_answers_of e_pot is_matching es ++ rest) (CHeap.HPtr lb 0) =
  CMem.FOk
  (match C08_ListTie.find_pos (fun e : expn => e_pot e && is_matching e) 0 es with
  | Some j => idof j
  | None => 0
  end, h,
  evs ++
  C08_ListRep.zipw
  (Gen_HeapC08L.LAsk
  (String.String (Ascii.Ascii true false false true false true true false)
  (String.String (Ascii.Ascii true true false false true true true false)
  (String.String (Ascii.Ascii true false true true false false true false)
  (String.String (Ascii.Ascii true false false false false true true false)
  (String.String (Ascii.Ascii false false true false true true true false)
  (String.String (Ascii.Ascii true true false false false true true false)
  (String.String (Ascii.Ascii false false false true false true true false)
  (String.String (Ascii.Ascii true false false true false true true false)
  (String.String (Ascii.Ascii false true true true false true true false)
  (String.String (Ascii.Ascii true true true false false true true false)
  (String.String
  (Ascii.Ascii true false false false false false true false)
  (String.String
  (Ascii.Ascii true true false false false true true false)
  (String.String
  (Ascii.Ascii false false true false true true true false)
  (String.String
  (Ascii.Ascii true false true false true true true false)
  (String.String
  (Ascii.Ascii true false false false false true true false)
  (String.String
  (Ascii.Ascii false false true true false true true
  false)
  (String.String
  (Ascii.Ascii true true false false false false true
  false)
  (String.String
  (Ascii.Ascii true false false false false true
  true false)
  (String.String
  (Ascii.Ascii false false true true false true
  true false)
  (String.String
  (Ascii.Ascii false false true true false
  true true false) String.EmptyString)))))))))))))))))))))
  (map idof (C08_ListTie.pos_from e_pot 0 es)) asks,
  skipn (length asks) (C08_ListTie.model_answers_of e_pot is_matching es ++ rest)) /\
  first_pot is_matching es =
  match C08_ListTie.find_pos (fun e : expn => e_pot e && is_matching e) 0 es with
  | Some j => nth_error es j
  | None => None
  end.
Proof. exact C08_ListTie.getFirstMatchingExpectation_model. Qed.
Print Assumptions C08_getFirstMatchingExpectation_model.

Theorem C08_removeFirstFinalizedMatchingExpectation_model :
  C08_ListTie.removes_like Gen_HeapC08L.src_mlist_removeFirstFinalizedMatchingExpectation
  (String.String (Ascii.Ascii true false false true false true true false)
  (String.String (Ascii.Ascii true true false false true true true false)
  (String.String (Ascii.Ascii true false true true false false true false)
  (String.String (Ascii.Ascii true false false false false true true false)
  (String.String (Ascii.Ascii false false true false true true true false)
  (String.String (Ascii.Ascii true true false false false true true false)
  (String.String (Ascii.Ascii false false false true false true true false)
  (String.String (Ascii.Ascii true false false true false true true false)
  (String.String (Ascii.Ascii false true true true false true true false)
  (String.String (Ascii.Ascii true true true false false true true false)
  (String.String (Ascii.Ascii true false false false false false true false)
  (String.String (Ascii.Ascii true true false false false true true false)
  (String.String (Ascii.Ascii false false true false true true true false)
  (String.String
  (Ascii.Ascii true false true false true true true false)
  (String.String
  (Ascii.Ascii true false false false false true true false)
  (String.String
  (Ascii.Ascii false false true true false true true false)
  (String.String
  (Ascii.Ascii true true false false false false true false)
  (String.String
  (Ascii.Ascii true false false false false true true
  false)
  (String.String
  (Ascii.Ascii false false true true false true true
  false)
  (String.String
  (Ascii.Ascii false false true true false true
  true false)
  (String.String
  (Ascii.Ascii true false false false false
  false true false)
  (String.String
  (Ascii.Ascii false true true true false
  true true false)
  (String.String
  (Ascii.Ascii false false true false
  false true true false)
  (String.String
  (Ascii.Ascii false true true false
  false false true false)
  (String.String
  (Ascii.Ascii true false false
  true false true true false)
  (String.String
  (Ascii.Ascii false true true
  true false true true false)
  (String.String
  (Ascii.Ascii true false false
  false false true true false)
  (String.String
  (Ascii.Ascii false false true
  true false true true false)
  (String.String
  (Ascii.Ascii true false false
  true false true true false)
  (String.String
  (Ascii.Ascii false true false
  true true true true false)
  (String.String
  (Ascii.Ascii true false true
  false false true true false)
  (String.String
  (Ascii.Ascii false false true
  false false true true false)
  String.EmptyString))))))))))))))))))))))))))))))))
  is_matching_fin.
Proof. exact C08_ListTie.removeFirstFinalizedMatchingExpectation_model. Qed.
Print Assumptions C08_removeFirstFinalizedMatchingExpectation_model.

Theorem C08_removeFirstMatchingExpectation_model :
  C08_ListTie.removes_like Gen_HeapC08L.src_mlist_removeFirstMatchingExpectation
  (String.String (Ascii.Ascii true false false true false true true false)
  (String.String (Ascii.Ascii true true false false true true true false)
  (String.String (Ascii.Ascii true false true true false false true false)
  (String.String (Ascii.Ascii true false false false false true true false)
  (String.String (Ascii.Ascii false false true false true true true false)
  (String.String (Ascii.Ascii true true false false false true true false)
  (String.String (Ascii.Ascii false false false true false true true false)
  (String.String (Ascii.Ascii true false false true false true true false)
  (String.String (Ascii.Ascii false true true true false true true false)
  (String.String (Ascii.Ascii true true true false false true true false)
  (String.String (Ascii.Ascii true false false false false false true false)
  (String.String (Ascii.Ascii true true false false false true true false)
  (String.String (Ascii.Ascii false false true false true true true false)
  (String.String
  (Ascii.Ascii true false true false true true true false)
  (String.String
  (Ascii.Ascii true false false false false true true false)
  (String.String
  (Ascii.Ascii false false true true false true true false)
  (String.String
  (Ascii.Ascii true true false false false false true false)
  (String.String
  (Ascii.Ascii true false false false false true true
  false)
  (String.String
  (Ascii.Ascii false false true true false true true
  false)
  (String.String
  (Ascii.Ascii false false true true false true
  true false) String.EmptyString))))))))))))))))))))
  is_matching.
Proof. exact C08_ListTie.removeFirstMatchingExpectation_model. Qed.
Print Assumptions C08_removeFirstMatchingExpectation_model.

Theorem C08_amountOfActualCallsFulfilledFor_model :
  forall (fuel : nat) (h : CHeap.heap) (lb : nat) (es : list expn) (idof : nat -> Z)
  (nodes : list nat) (evs : list Gen_HeapC08L.lev) (rest : list Z) (nm : Z) (f : name),
  C08_ListTie.master_rep h lb es idof nodes ->
  (length es < fuel)%nat ->
  Gen_HeapC08L.src_mlist_amountOfActualCallsFulfilledFor fuel h evs (C08_ListTie.ful_answers f es ++ rest)
  (CHeap.HPtr lb 0) nm =
  CMem.FOk (Z.of_N (fulfilled_for f es) mod 2 ^ 32, h, evs ++ C08_ListTie.ful_events nm idof f 0 es, rest).
Proof. exact C08_ListTie.amountOfActualCallsFulfilledFor_model. Qed.
Print Assumptions C08_amountOfActualCallsFulfilledFor_model.

Theorem C08_addPotentiallyMatchingExpectations_model :
  forall (fx : bool) (fuel : nat) (h : CHeap.heap) (lb mlb : nat) (es : list expn) (idof : nat -> Z)
  (mnodes : list nat) (evs : list Gen_HeapC08L.lev) (rest : list Z),
  C08_ListRep.two_lists h lb [] [] mlb (map idof (C08_ListTie.pos_from (fun _ : expn => true) 0 es)) mnodes ->
  C08_ListTie.idof_ok idof (length es) ->
  (length es < fuel)%nat ->
  let ans := C08_ListTie.model_answers_of (fun _ : expn => true) can_match es in
  exists h' : CHeap.heap,
  Gen_HeapC08L.src_mlist_addPotentiallyMatchingExpectations fuel h evs (ans ++ rest)
  (CHeap.HPtr lb 0) (CHeap.HPtr mlb 0) =
  CMem.FOk
  (tt, h',
  evs ++
  C08_ListRep.add_events
  (Gen_HeapC08L.LAsk
  (String.String (Ascii.Ascii true true false false false true true false)
  (String.String (Ascii.Ascii true false false false false true true false)
  (String.String (Ascii.Ascii false true true true false true true false)
  (String.String (Ascii.Ascii true false true true false false true false)
  (String.String (Ascii.Ascii true false false false false true true false)
  (String.String (Ascii.Ascii false false true false true true true false)
  (String.String (Ascii.Ascii true true false false false true true false)
  (String.String (Ascii.Ascii false false false true false true true false)
  (String.String (Ascii.Ascii true false false false false false true false)
  (String.String (Ascii.Ascii true true false false false true true false)
  (String.String
  (Ascii.Ascii false false true false true true true false)
  (String.String
  (Ascii.Ascii true false true false true true true false)
  (String.String
  (Ascii.Ascii true false false false false true true false)
  (String.String
  (Ascii.Ascii false false true true false true true false)
  (String.String
  (Ascii.Ascii true true false false false false true
  false)
  (String.String
  (Ascii.Ascii true false false false false true true
  false)
  (String.String
  (Ascii.Ascii false false true true false true
  true false)
  (String.String
  (Ascii.Ascii false false true true false true
  true false)
  (String.String
  (Ascii.Ascii true true false false true
  true true false) String.EmptyString))))))))))))))))))))
  (length h) (map idof (seq 0 (length es))) ans, rest) /\
  C08_ListTie.cand_rep h' lb (create fx es) idof (seq (length h) (length (filter can_match es))) /\
  C08_ListTie.master_rep h' mlb (create fx es) idof mnodes /\
  length h' = (length h + length (filter can_match es))%nat /\
  (forall b : nat, (b < length h)%nat -> b <> lb -> CHeap.hblock h' b = CHeap.hblock h b).
Proof. exact C08_ListTie.addPotentiallyMatchingExpectations_model. Qed.
Print Assumptions C08_addPotentiallyMatchingExpectations_model.

Theorem C08_resetActualCallMatchingState_model :
  C08_ListTie.tells_like Gen_HeapC08L.src_mlist_resetActualCallMatchingState
  (Gen_HeapC08L.LTell
  (String.String (Ascii.Ascii false true false false true true true false)
  (String.String (Ascii.Ascii true false true false false true true false)
  (String.String (Ascii.Ascii true true false false true true true false)
  (String.String (Ascii.Ascii true false true false false true true false)
  (String.String (Ascii.Ascii false false true false true true true false)
  (String.String (Ascii.Ascii true false false false false false true false)
  (String.String (Ascii.Ascii true true false false false true true false)
  (String.String (Ascii.Ascii false false true false true true true false)
  (String.String (Ascii.Ascii true false true false true true true false)
  (String.String (Ascii.Ascii true false false false false true true false)
  (String.String (Ascii.Ascii false false true true false true true false)
  (String.String
  (Ascii.Ascii true true false false false false true false)
  (String.String
  (Ascii.Ascii true false false false false true true false)
  (String.String
  (Ascii.Ascii false false true true false true true false)
  (String.String
  (Ascii.Ascii false false true true false true true false)
  (String.String
  (Ascii.Ascii true false true true false false true false)
  (String.String
  (Ascii.Ascii true false false false false true true
  false)
  (String.String
  (Ascii.Ascii false false true false true true true
  false)
  (String.String
  (Ascii.Ascii true true false false false true
  true false)
  (String.String
  (Ascii.Ascii false false false true false
  true true false)
  (String.String
  (Ascii.Ascii true false false true false
  true true false)
  (String.String
  (Ascii.Ascii false true true true false
  true true false)
  (String.String
  (Ascii.Ascii true true true false
  false true true false)
  (String.String
  (Ascii.Ascii true true false
  false true false true false)
  (String.String
  (Ascii.Ascii false false true
  false true true true false)
  (String.String
  (Ascii.Ascii true false false
  false false true true false)
  (String.String
  (Ascii.Ascii false false true
  false true true true false)
  (String.String
  (Ascii.Ascii true false true
  false false true true false)
  String.EmptyString))))))))))))))))))))))))))))).
Proof. exact C08_ListTie.resetActualCallMatchingState_model. Qed.
Print Assumptions C08_resetActualCallMatchingState_model.

Theorem C08_wasPassedToObject_model :
  C08_ListTie.tells_like Gen_HeapC08L.src_mlist_wasPassedToObject
  (Gen_HeapC08L.LTell
  (String.String (Ascii.Ascii true true true false true true true false)
  (String.String (Ascii.Ascii true false false false false true true false)
  (String.String (Ascii.Ascii true true false false true true true false)
  (String.String (Ascii.Ascii false false false false true false true false)
  (String.String (Ascii.Ascii true false false false false true true false)
  (String.String (Ascii.Ascii true true false false true true true false)
  (String.String (Ascii.Ascii true true false false true true true false)
  (String.String (Ascii.Ascii true false true false false true true false)
  (String.String (Ascii.Ascii false false true false false true true false)
  (String.String (Ascii.Ascii false false true false true false true false)
  (String.String (Ascii.Ascii true true true true false true true false)
  (String.String (Ascii.Ascii true true true true false false true false)
  (String.String
  (Ascii.Ascii false true false false false true true false)
  (String.String
  (Ascii.Ascii false true false true false true true false)
  (String.String
  (Ascii.Ascii true false true false false true true false)
  (String.String
  (Ascii.Ascii true true false false false true true false)
  (String.String
  (Ascii.Ascii false false true false true true true
  false) String.EmptyString)))))))))))))))))).
Proof. exact C08_ListTie.wasPassedToObject_model. Qed.
Print Assumptions C08_wasPassedToObject_model.

Theorem C08_parameterWasPassed_model :
  forall nm : Z,
  C08_ListTie.tells_like
  (fun (fuel : nat) (h : CHeap.heap) (evs : list Gen_HeapC08L.lev) (answers : list Z) (this_ : CHeap.hptr) =>
  Gen_HeapC08L.src_mlist_parameterWasPassed fuel h evs answers this_ nm)
  (fun id : Z =>
  Gen_HeapC08L.LTellArg
  (String.String (Ascii.Ascii true false false true false true true false)
  (String.String (Ascii.Ascii false true true true false true true false)
  (String.String (Ascii.Ascii false false false false true true true false)
  (String.String (Ascii.Ascii true false true false true true true false)
  (String.String (Ascii.Ascii false false true false true true true false)
  (String.String (Ascii.Ascii false false false false true false true false)
  (String.String (Ascii.Ascii true false false false false true true false)
  (String.String (Ascii.Ascii false true false false true true true false)
  (String.String (Ascii.Ascii true false false false false true true false)
  (String.String (Ascii.Ascii true false true true false true true false)
  (String.String (Ascii.Ascii true false true false false true true false)
  (String.String (Ascii.Ascii false false true false true true true false)
  (String.String
  (Ascii.Ascii true false true false false true true false)
  (String.String
  (Ascii.Ascii false true false false true true true false)
  (String.String
  (Ascii.Ascii true true true false true false true false)
  (String.String
  (Ascii.Ascii true false false false false true true false)
  (String.String
  (Ascii.Ascii true true false false true true true
  false)
  (String.String
  (Ascii.Ascii false false false false true false
  true false)
  (String.String
  (Ascii.Ascii true false false false false true
  true false)
  (String.String
  (Ascii.Ascii true true false false true true
  true false)
  (String.String
  (Ascii.Ascii true true false false true
  true true false)
  (String.String
  (Ascii.Ascii true false true false
  false true true false)
  (String.String
  (Ascii.Ascii false false true false
  false true true false)
  String.EmptyString)))))))))))))))))))))))
  id nm).
Proof. exact C08_ListTie.parameterWasPassed_model. Qed.
Print Assumptions C08_parameterWasPassed_model.

Theorem C08_outputParameterWasPassed_model :
  forall nm : Z,
  C08_ListTie.tells_like
  (fun (fuel : nat) (h : CHeap.heap) (evs : list Gen_HeapC08L.lev) (answers : list Z) (this_ : CHeap.hptr) =>
  Gen_HeapC08L.src_mlist_outputParameterWasPassed fuel h evs answers this_ nm)
  (fun id : Z =>
  Gen_HeapC08L.LTellArg
  (String.String (Ascii.Ascii true true true true false true true false)
  (String.String (Ascii.Ascii true false true false true true true false)
  (String.String (Ascii.Ascii false false true false true true true false)
  (String.String (Ascii.Ascii false false false false true true true false)
  (String.String (Ascii.Ascii true false true false true true true false)
  (String.String (Ascii.Ascii false false true false true true true false)
  (String.String (Ascii.Ascii false false false false true false true false)
  (String.String (Ascii.Ascii true false false false false true true false)
  (String.String (Ascii.Ascii false true false false true true true false)
  (String.String (Ascii.Ascii true false false false false true true false)
  (String.String (Ascii.Ascii true false true true false true true false)
  (String.String (Ascii.Ascii true false true false false true true false)
  (String.String
  (Ascii.Ascii false false true false true true true false)
  (String.String
  (Ascii.Ascii true false true false false true true false)
  (String.String
  (Ascii.Ascii false true false false true true true false)
  (String.String
  (Ascii.Ascii true true true false true false true false)
  (String.String
  (Ascii.Ascii true false false false false true true
  false)
  (String.String
  (Ascii.Ascii true true false false true true true
  false)
  (String.String
  (Ascii.Ascii false false false false true false
  true false)
  (String.String
  (Ascii.Ascii true false false false false
  true true false)
  (String.String
  (Ascii.Ascii true true false false true
  true true false)
  (String.String
  (Ascii.Ascii true true false false true
  true true false)
  (String.String
  (Ascii.Ascii true false true false
  false true true false)
  (String.String
  (Ascii.Ascii false false true
  false false true true false)
  String.EmptyString))))))))))))))))))))))))
  id nm).
Proof. exact C08_ListTie.outputParameterWasPassed_model. Qed.
Print Assumptions C08_outputParameterWasPassed_model.

Theorem C08_hasFinalizedMatchingExpectations_model :
  C08_ListTie.has_like Gen_HeapC08L.src_mlist_hasFinalizedMatchingExpectations
  (Gen_HeapC08L.LAsk
  (String.String (Ascii.Ascii true false false true false true true false)
  (String.String (Ascii.Ascii true true false false true true true false)
  (String.String (Ascii.Ascii true false true true false false true false)
  (String.String (Ascii.Ascii true false false false false true true false)
  (String.String (Ascii.Ascii false false true false true true true false)
  (String.String (Ascii.Ascii true true false false false true true false)
  (String.String (Ascii.Ascii false false false true false true true false)
  (String.String (Ascii.Ascii true false false true false true true false)
  (String.String (Ascii.Ascii false true true true false true true false)
  (String.String (Ascii.Ascii true true true false false true true false)
  (String.String (Ascii.Ascii true false false false false false true false)
  (String.String (Ascii.Ascii true true false false false true true false)
  (String.String
  (Ascii.Ascii false false true false true true true false)
  (String.String
  (Ascii.Ascii true false true false true true true false)
  (String.String
  (Ascii.Ascii true false false false false true true false)
  (String.String
  (Ascii.Ascii false false true true false true true false)
  (String.String
  (Ascii.Ascii true true false false false false true
  false)
  (String.String
  (Ascii.Ascii true false false false false true true
  false)
  (String.String
  (Ascii.Ascii false false true true false true
  true false)
  (String.String
  (Ascii.Ascii false false true true false true
  true false)
  (String.String
  (Ascii.Ascii true false false false false
  false true false)
  (String.String
  (Ascii.Ascii false true true true false
  true true false)
  (String.String
  (Ascii.Ascii false false true false
  false true true false)
  (String.String
  (Ascii.Ascii false true true
  false false false true false)
  (String.String
  (Ascii.Ascii true false false
  true false true true false)
  (String.String
  (Ascii.Ascii false true true
  true false true true false)
  (String.String
  (Ascii.Ascii true false false
  false false true true false)
  (String.String
  (Ascii.Ascii false false true
  true false true true false)
  (String.String
  (Ascii.Ascii true false false
  true false true true false)
  (String.String
  (Ascii.Ascii false true false
  true true true true false)
  (String.String
  (Ascii.Ascii true false true
  false false true true false)
  (String.String
  (Ascii.Ascii false false true
  false false true true false)
  String.EmptyString)))))))))))))))))))))))))))))))))
  C08_ListRep.yes e_pot is_matching_fin (fun e : expn => CSem.b2z (is_matching_fin e)).
Proof. exact C08_ListTie.hasFinalizedMatchingExpectations_model. Qed.
Print Assumptions C08_hasFinalizedMatchingExpectations_model.

Theorem C08_hasUnmatchingExpectationsBecauseOfMissingParameters_model :
  C08_ListTie.has_like Gen_HeapC08L.src_mlist_hasUnmatchingExpectationsBecauseOfMissingParameters
  (Gen_HeapC08L.LAsk
  (String.String (Ascii.Ascii true false false false false true true false)
  (String.String (Ascii.Ascii false true false false true true true false)
  (String.String (Ascii.Ascii true false true false false true true false)
  (String.String (Ascii.Ascii false false false false true false true false)
  (String.String (Ascii.Ascii true false false false false true true false)
  (String.String (Ascii.Ascii false true false false true true true false)
  (String.String (Ascii.Ascii true false false false false true true false)
  (String.String (Ascii.Ascii true false true true false true true false)
  (String.String (Ascii.Ascii true false true false false true true false)
  (String.String (Ascii.Ascii false false true false true true true false)
  (String.String (Ascii.Ascii true false true false false true true false)
  (String.String (Ascii.Ascii false true false false true true true false)
  (String.String
  (Ascii.Ascii true true false false true true true false)
  (String.String
  (Ascii.Ascii true false true true false false true false)
  (String.String
  (Ascii.Ascii true false false false false true true false)
  (String.String
  (Ascii.Ascii false false true false true true true false)
  (String.String
  (Ascii.Ascii true true false false false true true
  false)
  (String.String
  (Ascii.Ascii false false false true false true true
  false)
  (String.String
  (Ascii.Ascii true false false true false true
  true false)
  (String.String
  (Ascii.Ascii false true true true false true
  true false)
  (String.String
  (Ascii.Ascii true true true false false
  true true false)
  (String.String
  (Ascii.Ascii true false false false
  false false true false)
  (String.String
  (Ascii.Ascii true true false false
  false true true false)
  (String.String
  (Ascii.Ascii false false true
  false true true true false)
  (String.String
  (Ascii.Ascii true false true
  false true true true false)
  (String.String
  (Ascii.Ascii true false false
  false false true true false)
  (String.String
  (Ascii.Ascii false false true
  true false true true false)
  (String.String
  (Ascii.Ascii true true false
  false false false true false)
  (String.String
  (Ascii.Ascii true false false
  false false true true false)
  (String.String
  (Ascii.Ascii false false true
  true false true true false)
  (String.String
  (Ascii.Ascii false false true
  true false true true false)
  String.EmptyString))))))))))))))))))))))))))))))))
  C08_ListRep.no e_pot (fun e : expn => negb (params_matching e))
  (fun e : expn => CSem.b2z (params_matching e)).
Proof. exact C08_ListTie.hasUnmatchingExpectationsBecauseOfMissingParameters_model. Qed.
Print Assumptions C08_hasUnmatchingExpectationsBecauseOfMissingParameters_model.

Theorem C08_hasUnfulfilledExpectations_model :
  C08_ListTie.has_like Gen_HeapC08L.src_mlist_hasUnfulfilledExpectations
  (Gen_HeapC08L.LAsk
  (String.String (Ascii.Ascii true false false true false true true false)
  (String.String (Ascii.Ascii true true false false true true true false)
  (String.String (Ascii.Ascii false true true false false false true false)
  (String.String (Ascii.Ascii true false true false true true true false)
  (String.String (Ascii.Ascii false false true true false true true false)
  (String.String (Ascii.Ascii false true true false false true true false)
  (String.String (Ascii.Ascii true false false true false true true false)
  (String.String (Ascii.Ascii false false true true false true true false)
  (String.String (Ascii.Ascii false false true true false true true false)
  (String.String (Ascii.Ascii true false true false false true true false)
  (String.String (Ascii.Ascii false false true false false true true false)
  String.EmptyString)))))))))))) C08_ListRep.no
  (fun _ : expn => true) (fun e : expn => negb (is_fulfilled e)) (fun e : expn => CSem.b2z (is_fulfilled e)).
Proof. exact C08_ListTie.hasUnfulfilledExpectations_model. Qed.
Print Assumptions C08_hasUnfulfilledExpectations_model.

Theorem C08_hasCallsOutOfOrder_model :
  C08_ListTie.has_like Gen_HeapC08L.src_mlist_hasCallsOutOfOrder
  (Gen_HeapC08L.LAsk
  (String.String (Ascii.Ascii true false false true false true true false)
  (String.String (Ascii.Ascii true true false false true true true false)
  (String.String (Ascii.Ascii true true true true false false true false)
  (String.String (Ascii.Ascii true false true false true true true false)
  (String.String (Ascii.Ascii false false true false true true true false)
  (String.String (Ascii.Ascii true true true true false false true false)
  (String.String (Ascii.Ascii false true true false false true true false)
  (String.String (Ascii.Ascii true true true true false false true false)
  (String.String (Ascii.Ascii false true false false true true true false)
  (String.String (Ascii.Ascii false false true false false true true false)
  (String.String (Ascii.Ascii true false true false false true true false)
  (String.String (Ascii.Ascii false true false false true true true false)
  String.EmptyString))))))))))))) C08_ListRep.yes
  (fun _ : expn => true) e_ooo (fun e : expn => CSem.b2z (e_ooo e)).
Proof. exact C08_ListTie.hasCallsOutOfOrder_model. Qed.
Print Assumptions C08_hasCallsOutOfOrder_model.

Theorem C08_hasExpectationWithName_model :
  forall (nm : Z) (f : name),
  C08_ListTie.has_like
  (fun (fuel : nat) (h : CHeap.heap) (evs : list Gen_HeapC08L.lev) (answers : list Z) (this_ : CHeap.hptr) =>
  Gen_HeapC08L.src_mlist_hasExpectationWithName fuel h evs answers this_ nm)
  (fun id a : Z =>
  Gen_HeapC08L.LAskArg
  (String.String (Ascii.Ascii false true false false true true true false)
  (String.String (Ascii.Ascii true false true false false true true false)
  (String.String (Ascii.Ascii false false true true false true true false)
  (String.String (Ascii.Ascii true false false false false true true false)
  (String.String (Ascii.Ascii false false true false true true true false)
  (String.String (Ascii.Ascii true false true false false true true false)
  (String.String (Ascii.Ascii true true false false true true true false)
  (String.String (Ascii.Ascii false false true false true false true false)
  (String.String (Ascii.Ascii true true true true false true true false)
  String.EmptyString))))))))) id nm a) C08_ListRep.yes
  (fun _ : expn => true) (relates f) (fun e : expn => CSem.b2z (relates f e)).
Proof. exact C08_ListTie.hasExpectationWithName_model. Qed.
Print Assumptions C08_hasExpectationWithName_model.

(* --------------------------------------------------------------------------------------------------------------
   SOURCE TIE (actual call): the matching steps of MockCheckedActualCall (src/CppUTestExt/MockActualCall.cpp: withName, checkInputParameter, checkOutputParameter, onObject, checkExpectations, completeCallWhenMatchIsFound, discardCurrentlyMatchingExpectations, failTest) as translated on every run into gen/Gen_HeapC08L.v -- with the answers the model's expectations give at the moment each question is asked, every step leaves a heap that represents the model's complete / discard / with_name / check_input / check_output / on_object / check_call, reports the failure class of the model's failure kind exactly once, and the 'cannot happen' FAIL is unreachable from states the steps produce
   -------------------------------------------------------------------------------------------------------------- *)
From CppUVerif Require C08_CallRep C08_CallTie.
Local Open Scope Z_scope.
Theorem C08_completeCallWhenMatchIsFound_tie :
  forall (fuel : nat) (h : CHeap.heap) (cb : nat) (es : list expn) (idof : nat -> Z)
  (nodes : list nat) (c : acall) (nm : Z) (x : C08_CallTie.cenv) (evs : list Gen_HeapC08L.lev)
  (rest : list Z),
  C08_CallTie.acall_at h cb es idof nodes c nm x ->
  existsb e_cur es = false ->
  (C08_CallTie.ncand es < fuel)%nat ->
  exists h' : CHeap.heap,
  Gen_HeapC08L.src_acall_completeCallWhenMatchIsFound fuel h evs (C08_CallTie.complete_answers es ++ rest)
  (CHeap.HPtr cb 0) = CMem.FOk (tt, h', evs ++ C08_CallTie.complete_events idof nodes es, rest) /\
  C08_CallTie.acall_at h' cb (fst (complete es c)) idof (C08_CallTie.complete_nodes nodes es)
  (snd (complete es c)) nm x /\ C08_CallTie.cframe h h' cb nodes (C08_CallTie.complete_nodes nodes es).
Proof. exact C08_CallTie.completeCallWhenMatchIsFound_tie. Qed.
Print Assumptions C08_completeCallWhenMatchIsFound_tie.

Theorem C08_discardCurrentlyMatchingExpectations_tie :
  forall (fuel : nat) (h : CHeap.heap) (cb : nat) (es : list expn) (idof : nat -> Z)
  (nodes : list nat) (c : acall) (nm : Z) (x : C08_CallTie.cenv) (evs : list Gen_HeapC08L.lev)
  (rest : list Z) (cur : Z),
  C08_CallTie.arep h cb (C08_CallTie.blk_of nm c x cur) es idof nodes ->
  (C08_CallTie.ncand es < fuel)%nat ->
  exists h' : CHeap.heap,
  Gen_HeapC08L.src_acall_discardCurrentlyMatchingExpectations fuel h evs
  (C08_CallTie.discard_answers es ++ rest) (CHeap.HPtr cb 0) =
  CMem.FOk (tt, h', evs ++ C08_CallTie.discard_events idof nodes es cur, rest) /\
  C08_CallTie.arep h' cb (C08_CallTie.blk_of nm c x 0) (discard es) idof (C08_CallTie.discard_nodes nodes es) /\
  C08_CallTie.cframe h h' cb nodes (C08_CallTie.discard_nodes nodes es) /\
  (cur = 0 <-> existsb e_cur es = false).
Proof. exact C08_CallTie.discardCurrentlyMatchingExpectations_tie. Qed.
Print Assumptions C08_discardCurrentlyMatchingExpectations_tie.

Theorem C08_withName_tie :
  forall (fuel : nat) (h : CHeap.heap) (cb : nat) (es : list expn) (idof : nat -> Z)
  (nodes : list nat) (c : acall) (nm0 nm : Z) (x : C08_CallTie.cenv) (evs : list Gen_HeapC08L.lev)
  (rest : list Z),
  C08_CallTie.acall_at h cb es idof nodes c nm0 x ->
  existsb e_cur es = false ->
  (C08_CallTie.ncand es < fuel)%nat ->
  let f := c_name c in
  exists h' : CHeap.heap,
  Gen_HeapC08L.src_acall_withName fuel h evs (C08_CallTie.with_name_answers f es ++ rest) (CHeap.HPtr cb 0) nm =
  CMem.FOk (tt, h', evs ++ C08_CallTie.with_name_events nm f idof nodes es, rest) /\
  C08_CallTie.cframe h h' cb nodes (C08_CallTie.with_name_nodes f nodes es) /\
  match with_name es c with
  | inl (es', c') =>
  C08_CallTie.acall_at h' cb es' idof (C08_CallTie.with_name_nodes f nodes es) c' nm x /\
  C08_CallTie.fails (C08_CallTie.with_name_events nm f idof nodes es) = []
  | inr fl =>
  C08_CallTie.acall_at h' cb (keep_if (relates f) es) idof (C08_CallTie.with_name_nodes f nodes es)
  (set_state c Failed) nm x /\
  C08_CallTie.fails (C08_CallTie.with_name_events nm f idof nodes es) =
  [Gen_HeapC08L.LFailure (C08_CallTie.fail_class (f_kind fl)); Gen_HeapC08L.LReport]
  end.
Proof. exact C08_CallTie.withName_tie. Qed.
Print Assumptions C08_withName_tie.

Theorem C08_checkInputParameter_tie :
  forall (vn : Z -> Z) (fuel : nat) (h : CHeap.heap) (cb : nat) (es : list expn) (idof : nat -> Z)
  (nodes : list nat) (c : acall) (nm : Z) (x : C08_CallTie.cenv) (cur : Z) (evs : list Gen_HeapC08L.lev)
  (rest : list Z) (pm : Z) (n : name) (v : pv),
  C08_CallTie.arep h cb (C08_CallTie.blk_of nm c x cur) es idof nodes ->
  c_state c <> Failed ->
  (C08_CallTie.ncand es < fuel)%nat ->
  let A := C08_CallTie.ck_answers (has_input n v) (mark n) es in
  let E :=
  C08_CallTie.ck_events
  (String.String (Ascii.Ascii true false true true false false true false)
  (String.String (Ascii.Ascii true true true true false true true false)
  (String.String (Ascii.Ascii true true false false false true true false)
  (String.String (Ascii.Ascii true true false true false true true false)
  (String.String (Ascii.Ascii true false true false true false true false)
  (String.String (Ascii.Ascii false true true true false true true false)
  (String.String (Ascii.Ascii true false true false false true true false)
  (String.String (Ascii.Ascii false false false true true true true false)
  (String.String (Ascii.Ascii false false false false true true true false)
  (String.String (Ascii.Ascii true false true false false true true false)
  (String.String (Ascii.Ascii true true false false false true true false)
  (String.String (Ascii.Ascii false false true false true true true false)
  (String.String
  (Ascii.Ascii true false true false false true true false)
  (String.String
  (Ascii.Ascii false false true false false true true false)
  (String.String
  (Ascii.Ascii true false false true false false true false)
  (String.String
  (Ascii.Ascii false true true true false true true false)
  (String.String
  (Ascii.Ascii false false false false true true true
  false)
  (String.String
  (Ascii.Ascii true false true false true true true
  false)
  (String.String
  (Ascii.Ascii false false true false true true
  true false)
  (String.String
  (Ascii.Ascii false false false false true
  false true false)
  (String.String
  (Ascii.Ascii true false false false false
  true true false)
  (String.String
  (Ascii.Ascii false true false false true
  true true false)
  (String.String
  (Ascii.Ascii true false false false
  false true true false)
  (String.String
  (Ascii.Ascii true false true true
  false true true false)
  (String.String
  (Ascii.Ascii true false true
  false false true true false)
  (String.String
  (Ascii.Ascii false false true
  false true true true false)
  (String.String
  (Ascii.Ascii true false true
  false false true true false)
  (String.String
  (Ascii.Ascii false true false
  false true true true false)
  (String.String
  (Ascii.Ascii false true true
  false false false true false)
  (String.String
  (Ascii.Ascii true false false
  false false true true false)
  (String.String
  (Ascii.Ascii true false false
  true false true true false)
  (String.String
  (Ascii.Ascii false false true
  true false true true false)
  (String.String
  (Ascii.Ascii true false true
  false true true true false)
  (String.String
  (Ascii.Ascii false true false
  false true true true false)
  (String.String
  (Ascii.Ascii true false true
  false false true true false)
  String.EmptyString)))))))))))))))))))))))))))))))))))
  (has_input n v) (mark n)
  (fun id a : Z =>
  Gen_HeapC08L.LAskArg
  (String.String (Ascii.Ascii false false false true false true true false)
  (String.String (Ascii.Ascii true false false false false true true false)
  (String.String (Ascii.Ascii true true false false true true true false)
  (String.String (Ascii.Ascii true false false true false false true false)
  (String.String (Ascii.Ascii false true true true false true true false)
  (String.String (Ascii.Ascii false false false false true true true false)
  (String.String (Ascii.Ascii true false true false true true true false)
  (String.String (Ascii.Ascii false false true false true true true false)
  (String.String (Ascii.Ascii false false false false true false true false)
  (String.String (Ascii.Ascii true false false false false true true false)
  (String.String (Ascii.Ascii false true false false true true true false)
  (String.String
  (Ascii.Ascii true false false false false true true false)
  (String.String
  (Ascii.Ascii true false true true false true true false)
  (String.String
  (Ascii.Ascii true false true false false true true false)
  (String.String
  (Ascii.Ascii false false true false true true true false)
  (String.String
  (Ascii.Ascii true false true false false true true
  false)
  (String.String
  (Ascii.Ascii false true false false true true true
  false) String.EmptyString))))))))))))))))) id pm
  a)
  (fun id : Z =>
  Gen_HeapC08L.LTellArg
  (String.String (Ascii.Ascii true false false true false true true false)
  (String.String (Ascii.Ascii false true true true false true true false)
  (String.String (Ascii.Ascii false false false false true true true false)
  (String.String (Ascii.Ascii true false true false true true true false)
  (String.String (Ascii.Ascii false false true false true true true false)
  (String.String (Ascii.Ascii false false false false true false true false)
  (String.String (Ascii.Ascii true false false false false true true false)
  (String.String (Ascii.Ascii false true false false true true true false)
  (String.String (Ascii.Ascii true false false false false true true false)
  (String.String (Ascii.Ascii true false true true false true true false)
  (String.String (Ascii.Ascii true false true false false true true false)
  (String.String
  (Ascii.Ascii false false true false true true true false)
  (String.String
  (Ascii.Ascii true false true false false true true false)
  (String.String
  (Ascii.Ascii false true false false true true true false)
  (String.String
  (Ascii.Ascii true true true false true false true false)
  (String.String
  (Ascii.Ascii true false false false false true true
  false)
  (String.String
  (Ascii.Ascii true true false false true true true
  false)
  (String.String
  (Ascii.Ascii false false false false true false
  true false)
  (String.String
  (Ascii.Ascii true false false false false true
  true false)
  (String.String
  (Ascii.Ascii true true false false true
  true true false)
  (String.String
  (Ascii.Ascii true true false false true
  true true false)
  (String.String
  (Ascii.Ascii true false true false
  false true true false)
  (String.String
  (Ascii.Ascii false false true
  false false true true false)
  String.EmptyString)))))))))))))))))))))))
  id (vn pm)) idof nodes es cur in
  let N := C08_CallTie.ck_nodes (has_input n v) (mark n) nodes es in
  exists h' : CHeap.heap,
  Gen_HeapC08L.src_acall_checkInputParameter vn fuel h evs (A ++ rest) (CHeap.HPtr cb 0) pm =
  CMem.FOk (tt, h', evs ++ E, rest) /\
  C08_CallTie.cframe h h' cb nodes N /\
  match check_input n v es c with
  | inl (es', c') => C08_CallTie.acall_at h' cb es' idof N c' nm x /\ C08_CallTie.fails E = []
  | inr fl =>
  C08_CallTie.acall_at h' cb (keep_if (has_input n v) (discard es)) idof N (set_state c Failed) nm x /\
  C08_CallTie.fails E = [Gen_HeapC08L.LFailure (C08_CallTie.fail_class (f_kind fl)); Gen_HeapC08L.LReport]
  end.
Proof. exact C08_CallTie.checkInputParameter_tie. Qed.
Print Assumptions C08_checkInputParameter_tie.

Theorem C08_checkOutputParameter_tie :
  forall (vn : Z -> Z) (fuel : nat) (h : CHeap.heap) (cb : nat) (es : list expn) (idof : nat -> Z)
  (nodes : list nat) (c : acall) (nm : Z) (x : C08_CallTie.cenv) (cur : Z) (evs : list Gen_HeapC08L.lev)
  (rest : list Z) (pm : Z) (n : name) (buf : list N),
  C08_CallTie.arep h cb (C08_CallTie.blk_of nm c x cur) es idof nodes ->
  c_state c <> Failed ->
  (C08_CallTie.ncand es < fuel)%nat ->
  let A := C08_CallTie.ck_answers (has_output n) (mark_out n) es in
  let E :=
  C08_CallTie.ck_events
  (String.String (Ascii.Ascii true false true true false false true false)
  (String.String (Ascii.Ascii true true true true false true true false)
  (String.String (Ascii.Ascii true true false false false true true false)
  (String.String (Ascii.Ascii true true false true false true true false)
  (String.String (Ascii.Ascii true false true false true false true false)
  (String.String (Ascii.Ascii false true true true false true true false)
  (String.String (Ascii.Ascii true false true false false true true false)
  (String.String (Ascii.Ascii false false false true true true true false)
  (String.String (Ascii.Ascii false false false false true true true false)
  (String.String (Ascii.Ascii true false true false false true true false)
  (String.String (Ascii.Ascii true true false false false true true false)
  (String.String (Ascii.Ascii false false true false true true true false)
  (String.String
  (Ascii.Ascii true false true false false true true false)
  (String.String
  (Ascii.Ascii false false true false false true true false)
  (String.String
  (Ascii.Ascii true true true true false false true false)
  (String.String
  (Ascii.Ascii true false true false true true true false)
  (String.String
  (Ascii.Ascii false false true false true true true
  false)
  (String.String
  (Ascii.Ascii false false false false true true true
  false)
  (String.String
  (Ascii.Ascii true false true false true true true
  false)
  (String.String
  (Ascii.Ascii false false true false true true
  true false)
  (String.String
  (Ascii.Ascii false false false false true
  false true false)
  (String.String
  (Ascii.Ascii true false false false
  false true true false)
  (String.String
  (Ascii.Ascii false true false false
  true true true false)
  (String.String
  (Ascii.Ascii true false false
  false false true true false)
  (String.String
  (Ascii.Ascii true false true
  true false true true false)
  (String.String
  (Ascii.Ascii true false true
  false false true true false)
  (String.String
  (Ascii.Ascii false false true
  false true true true false)
  (String.String
  (Ascii.Ascii true false true
  false false true true false)
  (String.String
  (Ascii.Ascii false true false
  false true true true false)
  (String.String
  (Ascii.Ascii false true true
  false false false true false)
  (String.String
  (Ascii.Ascii true false false
  false false true true false)
  (String.String
  (Ascii.Ascii true false false
  true false true true false)
  (String.String
  (Ascii.Ascii false false true
  true false true true false)
  (String.String
  (Ascii.Ascii true false true
  false true true true false)
  (String.String
  (Ascii.Ascii false true false
  false true true true false)
  (String.String
  (Ascii.Ascii true false true
  false false true true false)
  String.EmptyString))))))))))))))))))))))))))))))))))))
  (has_output n) (mark_out n)
  (fun id a : Z =>
  Gen_HeapC08L.LAskArg
  (String.String (Ascii.Ascii false false false true false true true false)
  (String.String (Ascii.Ascii true false false false false true true false)
  (String.String (Ascii.Ascii true true false false true true true false)
  (String.String (Ascii.Ascii true true true true false false true false)
  (String.String (Ascii.Ascii true false true false true true true false)
  (String.String (Ascii.Ascii false false true false true true true false)
  (String.String (Ascii.Ascii false false false false true true true false)
  (String.String (Ascii.Ascii true false true false true true true false)
  (String.String (Ascii.Ascii false false true false true true true false)
  (String.String (Ascii.Ascii false false false false true false true false)
  (String.String (Ascii.Ascii true false false false false true true false)
  (String.String
  (Ascii.Ascii false true false false true true true false)
  (String.String
  (Ascii.Ascii true false false false false true true false)
  (String.String
  (Ascii.Ascii true false true true false true true false)
  (String.String
  (Ascii.Ascii true false true false false true true false)
  (String.String
  (Ascii.Ascii false false true false true true true
  false)
  (String.String
  (Ascii.Ascii true false true false false true true
  false)
  (String.String
  (Ascii.Ascii false true false false true true
  true false) String.EmptyString))))))))))))))))))
  id pm a)
  (fun id : Z =>
  Gen_HeapC08L.LTellArg
  (String.String (Ascii.Ascii true true true true false true true false)
  (String.String (Ascii.Ascii true false true false true true true false)
  (String.String (Ascii.Ascii false false true false true true true false)
  (String.String (Ascii.Ascii false false false false true true true false)
  (String.String (Ascii.Ascii true false true false true true true false)
  (String.String (Ascii.Ascii false false true false true true true false)
  (String.String (Ascii.Ascii false false false false true false true false)
  (String.String (Ascii.Ascii true false false false false true true false)
  (String.String (Ascii.Ascii false true false false true true true false)
  (String.String (Ascii.Ascii true false false false false true true false)
  (String.String (Ascii.Ascii true false true true false true true false)
  (String.String
  (Ascii.Ascii true false true false false true true false)
  (String.String
  (Ascii.Ascii false false true false true true true false)
  (String.String
  (Ascii.Ascii true false true false false true true false)
  (String.String
  (Ascii.Ascii false true false false true true true false)
  (String.String
  (Ascii.Ascii true true true false true false true false)
  (String.String
  (Ascii.Ascii true false false false false true true
  false)
  (String.String
  (Ascii.Ascii true true false false true true true
  false)
  (String.String
  (Ascii.Ascii false false false false true
  false true false)
  (String.String
  (Ascii.Ascii true false false false false
  true true false)
  (String.String
  (Ascii.Ascii true true false false true
  true true false)
  (String.String
  (Ascii.Ascii true true false false
  true true true false)
  (String.String
  (Ascii.Ascii true false true false
  false true true false)
  (String.String
  (Ascii.Ascii false false true
  false false true true false)
  String.EmptyString))))))))))))))))))))))))
  id (vn pm)) idof nodes es cur in
  let N := C08_CallTie.ck_nodes (has_output n) (mark_out n) nodes es in
  exists h' : CHeap.heap,
  Gen_HeapC08L.src_acall_checkOutputParameter vn fuel h evs (A ++ rest) (CHeap.HPtr cb 0) pm =
  CMem.FOk (tt, h', evs ++ E, rest) /\
  C08_CallTie.cframe h h' cb nodes N /\
  match check_output n buf es c with
  | inl (es', c') => C08_CallTie.acall_at h' cb es' idof N c' nm x /\ C08_CallTie.fails E = []
  | inr fl =>
  C08_CallTie.acall_at h' cb (keep_if (has_output n) (discard es)) idof N (set_state c Failed) nm x /\
  C08_CallTie.fails E = [Gen_HeapC08L.LFailure (C08_CallTie.fail_class (f_kind fl)); Gen_HeapC08L.LReport]
  end.
Proof. exact C08_CallTie.checkOutputParameter_tie. Qed.
Print Assumptions C08_checkOutputParameter_tie.

Theorem C08_onObject_tie :
  forall (fuel : nat) (h : CHeap.heap) (cb : nat) (es : list expn) (idof : nat -> Z)
  (nodes : list nat) (c : acall) (nm : Z) (x : C08_CallTie.cenv) (cur : Z) (evs : list Gen_HeapC08L.lev)
  (rest : list Z) (ob a : Z),
  C08_CallTie.arep h cb (C08_CallTie.blk_of nm c x cur) es idof nodes ->
  c_state c <> Failed ->
  (C08_CallTie.ncand es < fuel)%nat ->
  let nocur := negb (existsb e_cur es) in
  let A := C08_CallTie.oo_answers a nocur es in
  let E := C08_CallTie.oo_events ob a nocur idof nodes es in
  let N := C08_CallTie.oo_nodes a nocur nodes es in
  exists h' : CHeap.heap,
  Gen_HeapC08L.src_acall_onObject fuel h evs (A ++ rest) (CHeap.HPtr cb 0) ob =
  CMem.FOk (tt, h', evs ++ E, rest) /\
  C08_CallTie.cframe h h' cb nodes N /\
  match on_object a es c with
  | inl (es', c') => C08_CallTie.acall_at h' cb es' idof N c' nm x /\ C08_CallTie.fails E = []
  | inr fl =>
  C08_CallTie.acall_at h' cb (keep_if (relates_obj a) es) idof N (set_state c Failed) nm x /\
  C08_CallTie.fails E = [Gen_HeapC08L.LFailure (C08_CallTie.fail_class (f_kind fl)); Gen_HeapC08L.LReport]
  end.
Proof. exact C08_CallTie.onObject_tie. Qed.
Print Assumptions C08_onObject_tie.

Theorem C08_checkInputParameter_failed :
  forall (vn : Z -> Z) (fuel : nat) (h : CHeap.heap) (cb : nat) (es : list expn) (idof : nat -> Z)
  (nodes : list nat) (c : acall) (nm : Z) (x : C08_CallTie.cenv) (cur : Z) (evs : list Gen_HeapC08L.lev)
  (ans : list Z) (pm : Z),
  C08_CallTie.arep h cb (C08_CallTie.blk_of nm c x cur) es idof nodes ->
  c_state c = Failed ->
  Gen_HeapC08L.src_acall_checkInputParameter vn fuel h evs ans (CHeap.HPtr cb 0) pm = CMem.FOk (tt, h, evs, ans).
Proof. exact C08_CallTie.checkInputParameter_failed. Qed.
Print Assumptions C08_checkInputParameter_failed.

Theorem C08_checkOutputParameter_failed :
  forall (vn : Z -> Z) (fuel : nat) (h : CHeap.heap) (cb : nat) (es : list expn) (idof : nat -> Z)
  (nodes : list nat) (c : acall) (nm : Z) (x : C08_CallTie.cenv) (cur : Z) (evs : list Gen_HeapC08L.lev)
  (ans : list Z) (pm : Z),
  C08_CallTie.arep h cb (C08_CallTie.blk_of nm c x cur) es idof nodes ->
  c_state c = Failed ->
  Gen_HeapC08L.src_acall_checkOutputParameter vn fuel h evs ans (CHeap.HPtr cb 0) pm =
  CMem.FOk (tt, h, evs, ans).
Proof. exact C08_CallTie.checkOutputParameter_failed. Qed.
Print Assumptions C08_checkOutputParameter_failed.

Theorem C08_onObject_failed :
  forall (fuel : nat) (h : CHeap.heap) (cb : nat) (es : list expn) (idof : nat -> Z)
  (nodes : list nat) (c : acall) (nm : Z) (x : C08_CallTie.cenv) (cur : Z) (evs : list Gen_HeapC08L.lev)
  (ans : list Z) (ob : Z),
  C08_CallTie.arep h cb (C08_CallTie.blk_of nm c x cur) es idof nodes ->
  c_state c = Failed ->
  Gen_HeapC08L.src_acall_onObject fuel h evs ans (CHeap.HPtr cb 0) ob = CMem.FOk (tt, h, evs, ans).
Proof. exact C08_CallTie.onObject_failed. Qed.
Print Assumptions C08_onObject_failed.

Theorem C08_checkExpectations_tie :
  forall (fuel : nat) (h : CHeap.heap) (cb : nat) (es : list expn) (idof : nat -> Z)
  (nodes : list nat) (c : acall) (nm : Z) (x : C08_CallTie.cenv) (cur : Z) (evs : list Gen_HeapC08L.lev)
  (rest : list Z),
  C08_CallTie.arep h cb (C08_CallTie.blk_of nm c x cur) es idof nodes ->
  (c_state c = InProgress -> existsb e_cur es = false) ->
  (C08_CallTie.ncand es < fuel)%nat ->
  let g := C08_CallTie.g_check (c_order c) in
  let fc := call_was_made (c_order c) in
  let A := C08_CallTie.ce_answers g (c_checked c) (c_state c) es in
  let E := C08_CallTie.ce_events g (c_checked c) (c_state c) cur (Z.of_N (c_order c)) idof nodes es in
  let N := C08_CallTie.ce_nodes g (c_checked c) (c_state c) nodes es in
  exists h' : CHeap.heap,
  Gen_HeapC08L.src_acall_checkExpectations fuel h evs (A ++ rest) (CHeap.HPtr cb 0) =
  CMem.FOk (tt, h', evs ++ E, rest) /\
  C08_CallTie.cframe h h' cb nodes N /\
  match check_call es c with
  | inl (es', c') => C08_CallTie.acall_at h' cb es' idof N c' nm x /\ C08_CallTie.fails E = []
  | inr fl =>
  match f_kind fl with
  | FUnexpectedCall f =>
  C08_CallTie.acall_at h' cb es idof N (set_state (set_checked c) Failed) nm x /\
  C08_CallTie.fails E =
  [Gen_HeapC08L.LFailure (C08_CallTie.fail_class (FUnexpectedCall f)); Gen_HeapC08L.LReport]
  | FAdditionalCall f nth =>
  C08_CallTie.acall_at h' cb es idof N (set_state (set_checked c) Failed) nm x /\
  C08_CallTie.fails E =
  [Gen_HeapC08L.LFailure (C08_CallTie.fail_class (FAdditionalCall f nth)); Gen_HeapC08L.LReport]
  | FParamName f p =>
  C08_CallTie.acall_at h' cb es idof N (set_state (set_checked c) Failed) nm x /\
  C08_CallTie.fails E =
  [Gen_HeapC08L.LFailure (C08_CallTie.fail_class (FParamName f p)); Gen_HeapC08L.LReport]
  | FParamValue f p =>
  C08_CallTie.acall_at h' cb es idof N (set_state (set_checked c) Failed) nm x /\
  C08_CallTie.fails E =
  [Gen_HeapC08L.LFailure (C08_CallTie.fail_class (FParamValue f p)); Gen_HeapC08L.LReport]
  | FParamMissing f listed =>
  C08_CallTie.acall_at h' cb es idof N (set_state (set_checked c) Failed) nm x /\
  C08_CallTie.fails E =
  [Gen_HeapC08L.LFailure (C08_CallTie.fail_class (FParamMissing f listed)); Gen_HeapC08L.LReport]
  | FObjectMissing f =>
  C08_CallTie.acall_at h' cb es idof N (set_state (set_checked c) Failed) nm x /\
  C08_CallTie.fails E =
  [Gen_HeapC08L.LFailure (C08_CallTie.fail_class (FObjectMissing f)); Gen_HeapC08L.LReport]
  | FNotFulfilled =>
  C08_CallTie.acall_at h' cb es idof N (set_state (set_checked c) Failed) nm x /\
  C08_CallTie.fails E =
  [Gen_HeapC08L.LFailure (C08_CallTie.fail_class FNotFulfilled); Gen_HeapC08L.LReport]
  | FOutOfOrder =>
  C08_CallTie.acall_at h' cb es idof N (set_state (set_checked c) Failed) nm x /\
  C08_CallTie.fails E =
  [Gen_HeapC08L.LFailure (C08_CallTie.fail_class FOutOfOrder); Gen_HeapC08L.LReport]
  | FCannotHappen =>
  C08_CallTie.acall_at h' cb es idof N (set_checked c) nm x /\
  C08_CallTie.fails E = [Gen_HeapC08L.LAbort]
  | FOutName f p =>
  C08_CallTie.acall_at h' cb es idof N (set_state (set_checked c) Failed) nm x /\
  C08_CallTie.fails E =
  [Gen_HeapC08L.LFailure (C08_CallTie.fail_class (FOutName f p)); Gen_HeapC08L.LReport]
  | FOutType f p =>
  C08_CallTie.acall_at h' cb es idof N (set_state (set_checked c) Failed) nm x /\
  C08_CallTie.fails E =
  [Gen_HeapC08L.LFailure (C08_CallTie.fail_class (FOutType f p)); Gen_HeapC08L.LReport]
  | FObjectUnexpected f =>
  C08_CallTie.acall_at h' cb es idof N (set_state (set_checked c) Failed) nm x /\
  C08_CallTie.fails E =
  [Gen_HeapC08L.LFailure (C08_CallTie.fail_class (FObjectUnexpected f)); Gen_HeapC08L.LReport]
  end
  end.
Proof. exact C08_CallTie.checkExpectations_tie. Qed.
Print Assumptions C08_checkExpectations_tie.

Theorem C08_abort_iff_cannot_happen :
  forall (es : list expn) (c : acall) (cur : Z) (idof : nat -> Z) (nodes : list nat),
  In Gen_HeapC08L.LAbort
  (C08_CallTie.ce_events (C08_CallTie.g_check (c_order c)) (c_checked c) (c_state c) cur
  (Z.of_N (c_order c)) idof nodes es) <->
  (exists fl : failure, check_call es c = inr fl /\ f_kind fl = FCannotHappen).
Proof. exact C08_CallTie.abort_iff_cannot_happen. Qed.
Print Assumptions C08_abort_iff_cannot_happen.

Theorem C08_cannot_happen_unreachable :
  forall (es : list expn) (c : acall) (fl : failure),
  C08_CallTie.call_inv es c -> check_call es c = inr fl -> f_kind fl <> FCannotHappen.
Proof. exact C08_CallTie.cannot_happen_unreachable. Qed.
Print Assumptions C08_cannot_happen_unreachable.

Theorem C08_no_abort :
  forall (g : expn -> expn) (es : list expn) (c : acall) (cur : Z) (idof : nat -> Z) (nodes : list nat),
  C08_CallTie.call_inv es c ->
  ~
  In Gen_HeapC08L.LAbort
  (C08_CallTie.ce_events g (c_checked c) (c_state c) cur (Z.of_N (c_order c)) idof nodes es).
Proof. exact C08_CallTie.no_abort. Qed.
Print Assumptions C08_no_abort.

Theorem C08_reports_at_most_once :
  forall (vn : Z -> Z) (fuel cb : nat) (idof : nat -> Z) (nodes : list nat) (nm : Z)
  (x : C08_CallTie.cenv) (ss : list C08_CallTie.lstep) (h : CHeap.heap) (es : list expn)
  (c : acall) (cur : Z) (evs : list Gen_HeapC08L.lev) (ans : list Z),
  C08_CallTie.arep h cb (C08_CallTie.blk_of nm c x cur) es idof nodes ->
  c_state c = Failed ->
  (C08_CallTie.ncand es < fuel)%nat ->
  exists (h' : CHeap.heap) (evs' : list Gen_HeapC08L.lev) (es' : list expn) (c' : acall),
  C08_CallTie.run_steps vn fuel ss h evs ans cb = CMem.FOk (tt, h', evs ++ evs', ans) /\
  C08_CallTie.fails evs' = [] /\
  C08_CallTie.arep h' cb (C08_CallTie.blk_of nm c' x cur) es' idof nodes /\
  c_state c' = Failed /\ C08_CallTie.cframe h h' cb nodes nodes.
Proof. exact C08_CallTie.reports_at_most_once. Qed.
Print Assumptions C08_reports_at_most_once.

Theorem C08_failTest_once :
  forall (fuel : nat) (h : CHeap.heap) (cb : nat) (es : list expn) (idof : nat -> Z)
  (nodes : list nat) (c : acall) (nm : Z) (x : C08_CallTie.cenv) (cur : Z) (evs : list Gen_HeapC08L.lev)
  (ans : list Z),
  C08_CallTie.arep h cb (C08_CallTie.blk_of nm c x cur) es idof nodes ->
  c_state c = Failed ->
  Gen_HeapC08L.src_acall_failTest fuel h evs ans (CHeap.HPtr cb 0) = CMem.FOk (tt, h, evs, ans).
Proof. exact C08_CallTie.failTest_once. Qed.
Print Assumptions C08_failTest_once.

Theorem C08_inv_with_name :
  forall (es : list expn) (c : acall),
  existsb e_cur es = false ->
  match with_name es c with
  | inl (es', c') => C08_CallTie.call_inv es' c'
  | inr _ => True
  end.
Proof. exact C08_CallTie.inv_with_name. Qed.
Print Assumptions C08_inv_with_name.

Theorem C08_inv_check_input :
  forall (n : name) (v : pv) (es : list expn) (c : acall),
  match check_input n v es c with
  | inl (es', c') => C08_CallTie.call_inv es' c'
  | inr _ => True
  end.
Proof. exact C08_CallTie.inv_check_input. Qed.
Print Assumptions C08_inv_check_input.

Theorem C08_inv_check_output :
  forall (n : name) (buf : list N) (es : list expn) (c : acall),
  match check_output n buf es c with
  | inl (es', c') => C08_CallTie.call_inv es' c'
  | inr _ => True
  end.
Proof. exact C08_CallTie.inv_check_output. Qed.
Print Assumptions C08_inv_check_output.

Theorem C08_inv_on_object :
  forall (a : Z) (es : list expn) (c : acall),
  C08_CallTie.call_inv es c ->
  match on_object a es c with
  | inl (es', c') => C08_CallTie.call_inv es' c'
  | inr _ => True
  end.
Proof. exact C08_CallTie.inv_on_object. Qed.
Print Assumptions C08_inv_on_object.

Theorem C08_complete_two_cur :
  let es := [C08_CallTie.ex_cur_e false true; C08_CallTie.ex_cur_e true false] in
  C08_ListTie.pos_from e_cur 0 (C08_CallTie.complete_es es) = [0%nat; 1%nat] /\
  C08_CallTie.cur_code (fun k : nat => 11 + Z.of_nat k) (C08_CallTie.complete_es es) = None.
Proof. exact C08_CallTie.complete_two_cur. Qed.
Print Assumptions C08_complete_two_cur.

(* --------------------------------------------------------------------------------------------------------------
   SOURCE TIE (expectation object): MockCheckedExpectedCall with its parameter lists (src/CppUTestExt/MockExpectedCall.cpp, MockNamedValue.cpp) as translated on every run into gen/Gen_HeapC08E.v -- every question the list asks returns the model's predicate, every tell leaves a heap representing the model's updated expectation and touches nothing else (_model); the oracle answers and ghost tells of the list / call theorems are runs of these translated functions on the represented expectations (answers_are_translated, tell_is_translated)
   -------------------------------------------------------------------------------------------------------------- *)
From CppUVerif Require gen.Gen_HeapC08E C08_ExpRep C08_ExpTie.
Local Open Scope Z_scope.
Theorem C08_exp_plist_accessors :
  forall (pn : CHeap.hptr -> Z) (fuel : nat) (h : CHeap.heap) (lb : nat) (nb : nat * nat) (r : list (nat * nat)),
  C08_ExpRep.plist_at h lb (nb :: r) ->
  Gen_HeapC08E.src_plist_begin fuel h (CHeap.HPtr lb 0) = CMem.FOk (CHeap.HPtr (fst nb) 0) /\
  Gen_HeapC08E.src_pnode_item fuel h (CHeap.HPtr (fst nb) 0) = CMem.FOk (CHeap.HPtr (snd nb) 0) /\
  Gen_HeapC08E.src_pnode_getName pn fuel h (CHeap.HPtr (fst nb) 0) = CMem.FOk (pn (CHeap.HPtr (snd nb) 0)) /\
  (exists nxt : CHeap.hptr,
  Gen_HeapC08E.src_pnode_next fuel h (CHeap.HPtr (fst nb) 0) = CMem.FOk nxt /\ C08_ExpRep.pchain h nxt r).
Proof. exact C08_ExpRep.plist_accessors. Qed.
Print Assumptions C08_exp_plist_accessors.

Theorem C08_exp_getValueByName_spec :
  forall (pn : CHeap.hptr -> Z) (fuel : nat) (h : CHeap.heap) (lb : nat) (nbs : list (nat * nat)) (nm : Z),
  C08_ExpRep.plist_at h lb nbs ->
  (length nbs < fuel)%nat ->
  Gen_HeapC08E.src_plist_getValueByName pn fuel h (CHeap.HPtr lb 0) nm =
  CMem.FOk (C08_ExpRep.optr (C08_ExpRep.first_named pn nm nbs)).
Proof. exact C08_ExpRep.getValueByName_spec. Qed.
Print Assumptions C08_exp_getValueByName_spec.

Theorem C08_exp_relatesTo_model :
  forall nid : name -> Z,
  (forall a b : name, nid a = nid b -> a = b) ->
  forall (h : CHeap.heap) (eb li lo : nat) (e : expn) (pin pout : list (nat * nat)),
  C08_ExpRep.exp_at nid h eb li lo e pin pout ->
  forall (fuel : nat) (f : name),
  Gen_HeapC08E.src_exp_relatesTo fuel h (CHeap.HPtr eb 0) (nid f) = CMem.FOk (CSem.b2z (relates f e)).
Proof. exact C08_ExpRep.relatesTo_model. Qed.
Print Assumptions C08_exp_relatesTo_model.

Theorem C08_exp_relatesToObject_model :
  forall (nid : name -> Z) (h : CHeap.heap) (eb li lo : nat) (e : expn) (pin pout : list (nat * nat)),
  C08_ExpRep.exp_at nid h eb li lo e pin pout ->
  forall (fuel : nat) (a : Z),
  Gen_HeapC08E.src_exp_relatesToObject fuel h (CHeap.HPtr eb 0) a = CMem.FOk (CSem.b2z (relates_obj a e)).
Proof. exact C08_ExpRep.relatesToObject_model. Qed.
Print Assumptions C08_exp_relatesToObject_model.

Theorem C08_exp_isFulfilled_model :
  forall (nid : name -> Z) (h : CHeap.heap) (eb li lo : nat) (e : expn) (pin pout : list (nat * nat)),
  C08_ExpRep.exp_at nid h eb li lo e pin pout ->
  forall fuel : nat,
  Gen_HeapC08E.src_exp_isFulfilled fuel h (CHeap.HPtr eb 0) = CMem.FOk (CSem.b2z (is_fulfilled e)).
Proof. exact C08_ExpRep.isFulfilled_model. Qed.
Print Assumptions C08_exp_isFulfilled_model.

Theorem C08_exp_canMatchActualCalls_model :
  forall (nid : name -> Z) (h : CHeap.heap) (eb li lo : nat) (e : expn) (pin pout : list (nat * nat)),
  C08_ExpRep.exp_at nid h eb li lo e pin pout ->
  forall fuel : nat,
  Gen_HeapC08E.src_exp_canMatchActualCalls fuel h (CHeap.HPtr eb 0) = CMem.FOk (CSem.b2z (can_match e)).
Proof. exact C08_ExpRep.canMatchActualCalls_model. Qed.
Print Assumptions C08_exp_canMatchActualCalls_model.

Theorem C08_exp_isOutOfOrder_model :
  forall (nid : name -> Z) (h : CHeap.heap) (eb li lo : nat) (e : expn) (pin pout : list (nat * nat)),
  C08_ExpRep.exp_at nid h eb li lo e pin pout ->
  forall fuel : nat, Gen_HeapC08E.src_exp_isOutOfOrder fuel h (CHeap.HPtr eb 0) = CMem.FOk (CSem.b2z (e_ooo e)).
Proof. exact C08_ExpRep.isOutOfOrder_model. Qed.
Print Assumptions C08_exp_isOutOfOrder_model.

Theorem C08_exp_getActualCallsFulfilled_model :
  forall (nid : name -> Z) (h : CHeap.heap) (eb li lo : nat) (e : expn) (pin pout : list (nat * nat)),
  C08_ExpRep.exp_at nid h eb li lo e pin pout ->
  forall fuel : nat,
  Gen_HeapC08E.src_exp_getActualCallsFulfilled fuel h (CHeap.HPtr eb 0) = CMem.FOk (Z.of_N (e_act e)).
Proof. exact C08_ExpRep.getActualCallsFulfilled_model. Qed.
Print Assumptions C08_exp_getActualCallsFulfilled_model.

Theorem C08_exp_areParametersMatchingActualCall_model :
  forall (nid : name -> Z) (h : CHeap.heap) (eb li lo : nat) (e : expn) (pin pout : list (nat * nat)),
  C08_ExpRep.exp_at nid h eb li lo e pin pout ->
  forall fuel : nat,
  C08_ExpRep.fuel_ok e fuel ->
  Gen_HeapC08E.src_exp_areParametersMatchingActualCall fuel h (CHeap.HPtr eb 0) =
  CMem.FOk (CSem.b2z (params_matching e)).
Proof. exact C08_ExpRep.areParametersMatchingActualCall_model. Qed.
Print Assumptions C08_exp_areParametersMatchingActualCall_model.

Theorem C08_exp_isMatchingActualCall_model :
  forall (nid : name -> Z) (h : CHeap.heap) (eb li lo : nat) (e : expn) (pin pout : list (nat * nat)),
  C08_ExpRep.exp_at nid h eb li lo e pin pout ->
  forall fuel : nat,
  C08_ExpRep.fuel_ok e fuel ->
  Gen_HeapC08E.src_exp_isMatchingActualCall fuel h (CHeap.HPtr eb 0) = CMem.FOk (CSem.b2z (is_matching e)).
Proof. exact C08_ExpRep.isMatchingActualCall_model. Qed.
Print Assumptions C08_exp_isMatchingActualCall_model.

Theorem C08_exp_isMatchingActualCallAndFinalized_model :
  forall (nid : name -> Z) (h : CHeap.heap) (eb li lo : nat) (e : expn) (pin pout : list (nat * nat)),
  C08_ExpRep.exp_at nid h eb li lo e pin pout ->
  forall fuel : nat,
  C08_ExpRep.fuel_ok e fuel ->
  Gen_HeapC08E.src_exp_isMatchingActualCallAndFinalized fuel h (CHeap.HPtr eb 0) =
  CMem.FOk (CSem.b2z (is_matching_fin e)).
Proof. exact C08_ExpRep.isMatchingActualCallAndFinalized_model. Qed.
Print Assumptions C08_exp_isMatchingActualCallAndFinalized_model.

Theorem C08_exp_hasInputParameterWithName_model :
  forall (nid : name -> Z) (pn : CHeap.hptr -> Z) (peq pcomp : CHeap.hptr -> CHeap.hptr -> Z)
  (stands : CHeap.hptr -> name -> pv -> Prop),
  (forall a b : name, nid a = nid b -> a = b) ->
  forall (h : CHeap.heap) (eb li lo : nat) (e : expn) (pin pout : list (nat * nat)),
  C08_ExpRep.exp_at nid h eb li lo e pin pout ->
  C08_ExpRep.params_tied nid pn peq pcomp stands e pin pout ->
  forall (fuel : nat) (n : name),
  (length (e_params e) < fuel)%nat ->
  Gen_HeapC08E.src_exp_hasInputParameterWithName pn fuel h (CHeap.HPtr eb 0) (nid n) =
  CMem.FOk (CSem.b2z (has_input_name n e)).
Proof. exact C08_ExpRep.hasInputParameterWithName_model. Qed.
Print Assumptions C08_exp_hasInputParameterWithName_model.

Theorem C08_exp_hasOutputParameterWithName_model :
  forall (nid : name -> Z) (pn : CHeap.hptr -> Z) (peq pcomp : CHeap.hptr -> CHeap.hptr -> Z)
  (stands : CHeap.hptr -> name -> pv -> Prop),
  (forall a b : name, nid a = nid b -> a = b) ->
  forall (h : CHeap.heap) (eb li lo : nat) (e : expn) (pin pout : list (nat * nat)),
  C08_ExpRep.exp_at nid h eb li lo e pin pout ->
  C08_ExpRep.params_tied nid pn peq pcomp stands e pin pout ->
  forall (fuel : nat) (n : name),
  (length (e_outs e) < fuel)%nat ->
  Gen_HeapC08E.src_exp_hasOutputParameterWithName pn fuel h (CHeap.HPtr eb 0) (nid n) =
  CMem.FOk (CSem.b2z (has_output_name n e)).
Proof. exact C08_ExpRep.hasOutputParameterWithName_model. Qed.
Print Assumptions C08_exp_hasOutputParameterWithName_model.

Theorem C08_exp_hasInputParameter_model :
  forall (nid : name -> Z) (pn : CHeap.hptr -> Z) (peq pcomp : CHeap.hptr -> CHeap.hptr -> Z)
  (stands : CHeap.hptr -> name -> pv -> Prop),
  (forall a b : name, nid a = nid b -> a = b) ->
  forall (h : CHeap.heap) (eb li lo : nat) (e : expn) (pin pout : list (nat * nat)),
  C08_ExpRep.exp_at nid h eb li lo e pin pout ->
  C08_ExpRep.params_tied nid pn peq pcomp stands e pin pout ->
  forall (fuel : nat) (a : CHeap.hptr) (n : name) (v : pv),
  stands a n v ->
  (length (e_params e) < fuel)%nat ->
  Gen_HeapC08E.src_exp_hasInputParameter pn peq fuel h (CHeap.HPtr eb 0) a =
  CMem.FOk (CSem.b2z (has_input n v e)).
Proof. exact C08_ExpRep.hasInputParameter_model. Qed.
Print Assumptions C08_exp_hasInputParameter_model.

Theorem C08_exp_hasOutputParameter_model :
  forall (nid : name -> Z) (pn : CHeap.hptr -> Z) (peq pcomp : CHeap.hptr -> CHeap.hptr -> Z)
  (stands : CHeap.hptr -> name -> pv -> Prop),
  (forall a b : name, nid a = nid b -> a = b) ->
  forall (h : CHeap.heap) (eb li lo : nat) (e : expn) (pin pout : list (nat * nat)),
  C08_ExpRep.exp_at nid h eb li lo e pin pout ->
  C08_ExpRep.params_tied nid pn peq pcomp stands e pin pout ->
  forall (fuel : nat) (a : CHeap.hptr) (n : name) (v : pv),
  stands a n v ->
  (length (e_outs e) < fuel)%nat ->
  Gen_HeapC08E.src_exp_hasOutputParameter pn pcomp fuel h (CHeap.HPtr eb 0) a =
  CMem.FOk (CSem.b2z (has_output n e)).
Proof. exact C08_ExpRep.hasOutputParameter_model. Qed.
Print Assumptions C08_exp_hasOutputParameter_model.

Theorem C08_exp_finalizeActualCallMatch_model :
  forall (nid : name -> Z) (fuel : nat) (h : CHeap.heap) (eb li lo : nat) (e : expn)
  (pin pout : list (nat * nat)),
  C08_ExpRep.exp_at nid h eb li lo e pin pout ->
  exists h' : CHeap.heap,
  Gen_HeapC08E.src_exp_finalizeActualCallMatch fuel h (CHeap.HPtr eb 0) = CMem.FOk (tt, h') /\
  C08_ExpRep.tell_post nid h h' eb li lo (set_fin e true) pin pout.
Proof. exact C08_ExpRep.finalizeActualCallMatch_model. Qed.
Print Assumptions C08_exp_finalizeActualCallMatch_model.

Theorem C08_exp_wasPassedToObject_model :
  forall (nid : name -> Z) (fuel : nat) (h : CHeap.heap) (eb li lo : nat) (e : expn)
  (pin pout : list (nat * nat)),
  C08_ExpRep.exp_at nid h eb li lo e pin pout ->
  exists h' : CHeap.heap,
  Gen_HeapC08E.src_exp_wasPassedToObject fuel h (CHeap.HPtr eb 0) = CMem.FOk (tt, h') /\
  C08_ExpRep.tell_post nid h h' eb li lo (pass_obj e) pin pout.
Proof. exact C08_ExpRep.wasPassedToObject_model. Qed.
Print Assumptions C08_exp_wasPassedToObject_model.

Theorem C08_exp_resetActualCallMatchingState_model :
  forall (nid : name -> Z) (fuel : nat) (h : CHeap.heap) (eb li lo : nat) (e : expn)
  (pin pout : list (nat * nat)),
  C08_ExpRep.exp_at nid h eb li lo e pin pout ->
  C08_ExpRep.fuel_ok e fuel ->
  exists h' : CHeap.heap,
  Gen_HeapC08E.src_exp_resetActualCallMatchingState fuel h (CHeap.HPtr eb 0) = CMem.FOk (tt, h') /\
  C08_ExpRep.tell_post nid h h' eb li lo (reset_e e) pin pout.
Proof. exact C08_ExpRep.resetActualCallMatchingState_model. Qed.
Print Assumptions C08_exp_resetActualCallMatchingState_model.

Theorem C08_exp_inputParameterWasPassed_model :
  forall (nid : name -> Z) (pn : CHeap.hptr -> Z) (peq pcomp : CHeap.hptr -> CHeap.hptr -> Z)
  (stands : CHeap.hptr -> name -> pv -> Prop),
  (forall a b : name, nid a = nid b -> a = b) ->
  forall (fuel : nat) (h : CHeap.heap) (eb li lo : nat) (e : expn) (pin pout : list (nat * nat)) (n : name),
  C08_ExpRep.exp_at nid h eb li lo e pin pout ->
  C08_ExpRep.params_tied nid pn peq pcomp stands e pin pout ->
  (length (e_params e) < fuel)%nat ->
  exists h' : CHeap.heap,
  Gen_HeapC08E.src_exp_inputParameterWasPassed pn fuel h (CHeap.HPtr eb 0) (nid n) = CMem.FOk (tt, h') /\
  C08_ExpRep.tell_post nid h h' eb li lo (mark n e) pin pout.
Proof. exact C08_ExpRep.inputParameterWasPassed_model. Qed.
Print Assumptions C08_exp_inputParameterWasPassed_model.

Theorem C08_exp_outputParameterWasPassed_model :
  forall (nid : name -> Z) (pn : CHeap.hptr -> Z) (peq pcomp : CHeap.hptr -> CHeap.hptr -> Z)
  (stands : CHeap.hptr -> name -> pv -> Prop),
  (forall a b : name, nid a = nid b -> a = b) ->
  forall (fuel : nat) (h : CHeap.heap) (eb li lo : nat) (e : expn) (pin pout : list (nat * nat)) (n : name),
  C08_ExpRep.exp_at nid h eb li lo e pin pout ->
  C08_ExpRep.params_tied nid pn peq pcomp stands e pin pout ->
  (length (e_outs e) < fuel)%nat ->
  exists h' : CHeap.heap,
  Gen_HeapC08E.src_exp_outputParameterWasPassed pn fuel h (CHeap.HPtr eb 0) (nid n) = CMem.FOk (tt, h') /\
  C08_ExpRep.tell_post nid h h' eb li lo (mark_out n e) pin pout.
Proof. exact C08_ExpRep.outputParameterWasPassed_model. Qed.
Print Assumptions C08_exp_outputParameterWasPassed_model.

Theorem C08_exp_callWasMade_model_w :
  forall (nid : name -> Z) (fuel : nat) (h : CHeap.heap) (eb li lo : nat) (e : expn)
  (pin pout : list (nat * nat)) (order : N),
  C08_ExpRep.exp_at nid h eb li lo e pin pout ->
  C08_ExpRep.fuel_ok e fuel ->
  exists h' : CHeap.heap,
  Gen_HeapC08E.src_exp_callWasMade fuel h (CHeap.HPtr eb 0) (Z.of_N order) = CMem.FOk (tt, h') /\
  C08_ExpRep.tell_post nid h h' eb li lo (C08_ExpRep.call_was_made_w order e) pin pout.
Proof. exact C08_ExpRep.callWasMade_model_w. Qed.
Print Assumptions C08_exp_callWasMade_model_w.

Theorem C08_exp_callWasMade_model :
  forall (nid : name -> Z) (fuel : nat) (h : CHeap.heap) (eb li lo : nat) (e : expn)
  (pin pout : list (nat * nat)) (order : N),
  C08_ExpRep.exp_at nid h eb li lo e pin pout ->
  C08_ExpRep.fuel_ok e fuel ->
  (e_act e + 1 < 4294967296)%N ->
  exists h' : CHeap.heap,
  Gen_HeapC08E.src_exp_callWasMade fuel h (CHeap.HPtr eb 0) (Z.of_N order) = CMem.FOk (tt, h') /\
  C08_ExpRep.tell_post nid h h' eb li lo (call_was_made order e) pin pout.
Proof. exact C08_ExpRep.callWasMade_model. Qed.
Print Assumptions C08_exp_callWasMade_model.

Theorem C08_exp_call_was_made_wraps :
  forall (order : N) (e : expn),
  e_act e = 4294967295%N ->
  e_act (C08_ExpRep.call_was_made_w order e) = 0%N /\ e_act (call_was_made order e) = 4294967296%N.
Proof. exact C08_ExpRep.call_was_made_wraps. Qed.
Print Assumptions C08_exp_call_was_made_wraps.

Theorem C08_exp_question_is_translated :
  forall (nid : name -> Z) (pn : CHeap.hptr -> Z) (peq pcomp : CHeap.hptr -> CHeap.hptr -> Z)
  (stands : CHeap.hptr -> name -> pv -> Prop),
  (forall a b : name, nid a = nid b -> a = b) ->
  forall (q : String.string) (run : nat -> CHeap.heap -> CHeap.hptr -> CMem.fres Z)
  (val : expn -> Z) (h : CHeap.heap) (e : expn) (l : C08_ExpTie.elay) (fuel : nat),
  C08_ExpTie.question nid pn peq pcomp stands q run val ->
  C08_ExpTie.rep1 nid pn peq pcomp stands h e l ->
  C08_ExpRep.fuel_ok e fuel -> run fuel h (CHeap.HPtr (C08_ExpTie.l_eb l) 0) = CMem.FOk (val e).
Proof. exact C08_ExpTie.question_is_translated. Qed.
Print Assumptions C08_exp_question_is_translated.

Theorem C08_exp_answers_are_translated :
  forall (nid : name -> Z) (pn : CHeap.hptr -> Z) (peq pcomp : CHeap.hptr -> CHeap.hptr -> Z)
  (stands : CHeap.hptr -> name -> pv -> Prop),
  (forall a b : name, nid a = nid b -> a = b) ->
  forall (q : String.string) (run : nat -> CHeap.heap -> CHeap.hptr -> CMem.fres Z)
  (val : expn -> Z) (mem : expn -> bool) (fuel : nat) (h : CHeap.heap) (es : list expn)
  (lay : list C08_ExpTie.elay),
  C08_ExpTie.question nid pn peq pcomp stands q run val ->
  C08_ExpTie.master_at nid pn peq pcomp stands h es lay ->
  Forall (fun e : expn => C08_ExpRep.fuel_ok e fuel) es ->
  Forall2 (C08_ExpTie.answered run fuel h lay) (map val (filter mem es)) (C08_ListTie.pos_from mem 0 es).
Proof. exact C08_ExpTie.answers_are_translated. Qed.
Print Assumptions C08_exp_answers_are_translated.

Theorem C08_exp_model_answers_are_translated :
  forall (nid : name -> Z) (pn : CHeap.hptr -> Z) (peq pcomp : CHeap.hptr -> CHeap.hptr -> Z)
  (stands : CHeap.hptr -> name -> pv -> Prop),
  (forall a b : name, nid a = nid b -> a = b) ->
  forall (q : String.string) (run : nat -> CHeap.heap -> CHeap.hptr -> CMem.fres Z)
  (pred mem : expn -> bool) (fuel : nat) (h : CHeap.heap) (es : list expn) (lay : list C08_ExpTie.elay),
  C08_ExpTie.question nid pn peq pcomp stands q run (fun e : expn => CSem.b2z (pred e)) ->
  C08_ExpTie.master_at nid pn peq pcomp stands h es lay ->
  Forall (fun e : expn => C08_ExpRep.fuel_ok e fuel) es ->
  Forall2 (C08_ExpTie.answered run fuel h lay) (C08_ListTie.model_answers_of mem pred es)
  (C08_ListTie.pos_from mem 0 es).
Proof. exact C08_ExpTie.model_answers_are_translated. Qed.
Print Assumptions C08_exp_model_answers_are_translated.

Theorem C08_exp_ful_answers_are_translated :
  forall (nid : name -> Z) (pn : CHeap.hptr -> Z) (peq pcomp : CHeap.hptr -> CHeap.hptr -> Z)
  (stands : CHeap.hptr -> name -> pv -> Prop),
  (forall a b : name, nid a = nid b -> a = b) ->
  forall (f : name) (fuel : nat) (h : CHeap.heap) (es : list expn) (lay : list C08_ExpTie.elay),
  C08_ExpTie.master_at nid pn peq pcomp stands h es lay ->
  Forall (fun e : expn => C08_ExpRep.fuel_ok e fuel) es ->
  Forall2
  (fun (e : expn) (l : C08_ExpTie.elay) =>
  Gen_HeapC08E.src_exp_relatesTo fuel h (CHeap.HPtr (C08_ExpTie.l_eb l) 0) (nid f) =
  CMem.FOk (CSem.b2z (relates f e)) /\
  Gen_HeapC08E.src_exp_getActualCallsFulfilled fuel h (CHeap.HPtr (C08_ExpTie.l_eb l) 0) =
  CMem.FOk (Z.of_N (e_act e))) es lay /\
  C08_ListTie.ful_answers f es =
  flat_map
  (fun e : expn =>
  if relates f e then [CSem.b2z (relates f e); Z.of_N (e_act e)] else [CSem.b2z (relates f e)]) es.
Proof. exact C08_ExpTie.ful_answers_are_translated. Qed.
Print Assumptions C08_exp_ful_answers_are_translated.

Theorem C08_exp_tell_is_translated :
  forall (nid : name -> Z) (pn : CHeap.hptr -> Z) (peq pcomp : CHeap.hptr -> CHeap.hptr -> Z)
  (stands : CHeap.hptr -> name -> pv -> Prop),
  (forall a b : name, nid a = nid b -> a = b) ->
  forall (idof : nat -> Z) (ev : Gen_HeapC08L.lev)
  (run : nat -> CHeap.heap -> CHeap.hptr -> CMem.fres (unit * CHeap.heap)) (f : expn -> expn)
  (pre : expn -> Prop) (fuel : nat) (h : CHeap.heap) (es : list expn) (lay : list C08_ExpTie.elay)
  (i : nat) (e : expn) (l : C08_ExpTie.elay),
  C08_ExpTie.tell nid pn (idof i) ev run f pre ->
  C08_ExpTie.master_at nid pn peq pcomp stands h es lay ->
  nth_error es i = Some e ->
  nth_error lay i = Some l ->
  C08_ExpRep.fuel_ok e fuel ->
  pre e ->
  exists h' : CHeap.heap,
  run fuel h (CHeap.HPtr (C08_ExpTie.l_eb l) 0) = CMem.FOk (tt, h') /\
  C08_ExpTie.master_at nid pn peq pcomp stands h' (CMem.upd es i (f e)) lay /\
  length h' = length h /\
  (forall b : nat, ~ In b (C08_ExpTie.lay_blocks l) -> CHeap.hblock h' b = CHeap.hblock h b).
Proof. exact C08_ExpTie.tell_is_translated. Qed.
Print Assumptions C08_exp_tell_is_translated.

Theorem C08_exp_tells_are_translated :
  forall (nid : name -> Z) (pn : CHeap.hptr -> Z) (peq pcomp : CHeap.hptr -> CHeap.hptr -> Z)
  (stands : CHeap.hptr -> name -> pv -> Prop),
  (forall a b : name, nid a = nid b -> a = b) ->
  (nat -> Z) ->
  forall (mk : Z -> Gen_HeapC08L.lev) (run : nat -> CHeap.heap -> CHeap.hptr -> CMem.fres (unit * CHeap.heap))
  (f : expn -> expn) (pre : expn -> Prop) (mem : expn -> bool) (fuel : nat) (h : CHeap.heap)
  (es : list expn) (lay : list C08_ExpTie.elay),
  (forall id : Z, C08_ExpTie.tell nid pn id (mk id) run f pre) ->
  C08_ExpTie.master_at nid pn peq pcomp stands h es lay ->
  Forall (fun e : expn => C08_ExpRep.fuel_ok e fuel /\ (mem e = true -> pre e)) es ->
  exists h' : CHeap.heap,
  C08_ExpTie.run_tells run fuel h (C08_ExpTie.members mem es lay) = Some h' /\
  C08_ExpTie.master_at nid pn peq pcomp stands h' (C08_ExpTie.told mem f es) lay /\
  length h' = length h /\
  (forall b : nat, ~ In b (concat (map C08_ExpTie.lay_blocks lay)) -> CHeap.hblock h' b = CHeap.hblock h b).
Proof. exact C08_ExpTie.tells_are_translated. Qed.
Print Assumptions C08_exp_tells_are_translated.

Theorem C08_exp_idof_of_ok :
  forall (nid : name -> Z) (pn : CHeap.hptr -> Z) (peq pcomp : CHeap.hptr -> CHeap.hptr -> Z)
  (stands : CHeap.hptr -> name -> pv -> Prop) (h : CHeap.heap) (es : list expn) (lay : list C08_ExpTie.elay),
  C08_ExpTie.master_at nid pn peq pcomp stands h es lay ->
  C08_ListTie.idof_ok (C08_ExpTie.idof_of lay) (length es).
Proof. exact C08_ExpTie.idof_of_ok. Qed.
Print Assumptions C08_exp_idof_of_ok.
