(* C08 -- Mock verdict is exact.  Only statements; every proof is `exact <lemma>` into C08_Proofs.v. *)
From Coq Require Import ZArith NArith Bool List.
From CppUVerif Require Import lib.CInt lib.Str C08_Model C08_Proofs.
Import ListNotations.

Theorem C08_veq_refl : forall v, pv_valid v = true -> veq v v = true.
Proof. exact veq_refl. Qed.
Print Assumptions C08_veq_refl.
