(* C08 -- Mock verdict is exact: passes iff actual calls match the expectations.
   Only statements; every proof is `exact <lemma>` into C08_Proofs*.v.
   Proved fragment: expectNCalls/expectOneCall with typed input parameters and return values, actualCall + withParameter +
   returnValue, checkExpectations, strictOrder, ignoreOtherCalls, on canonical scenarios (configuration, expectations, calls,
   final check) whose actual calls pass no parameter name twice.  NOT covered by the theorems (model = implementation agreement
   and the spec oracle only): ignoreOtherParameters, intermediate clear/check, expectations added between calls; not modelled:
   onObject, output parameters, custom comparators, scopes. *)
From Coq Require Import ZArith NArith Bool List Permutation.
From CppUVerif Require Import lib.CInt lib.Str C08_Model C08_Proofs C08_Proofs2 C08_Proofs3.
From CppUVerif Require C09_Model.
Import ListNotations.

(* L refines M: the flag/candidate-list machinery of the code (model L) delivers, on every judged scenario -- for arbitrary, also
   overlapping, expectation sets -- the same failing operation, the same diagnosis and the same returned values as the flag-free
   reference semantics M (remaining capacities, first open expectation that is exactly the call). *)
Theorem C08_L_refines_M : forall ops k,
  parse ops = Some k -> judged k = true -> proj (run ops) = lift (expected k).
Proof. exact L_refines_M. Qed.
Print Assumptions C08_L_refines_M.

(* spec s (run s) = true; _partial: the first clause of the spec (passes iff multisets / sequences agree) is assumed to be M's
   verdict for the scenario (verdict_agrees: the M-level counting theorem is not proved in general yet); the first-deviation and
   returned-value clauses are proved outright. *)
Theorem C08_run_meets_spec_partial : forall ops,
  (forall k, parse ops = Some k -> judged k = true -> verdict_agrees k) -> spec ops (run ops) = true.
Proof. exact run_meets_spec_partial. Qed.
Print Assumptions C08_run_meets_spec_partial.

(* first deviation: a judged scenario fails with exactly M's diagnosis at M's operation; the FAIL("This cannot happen") of
   MockCheckedActualCall::checkExpectations and (in this fragment) the missing-object failure are unreachable *)
Theorem C08_first_deviation : forall ops k i fl,
  parse ops = Some k -> judged k = true -> o_fail (run ops) = Some (i, fl) ->
  f_kind fl <> FCannotHappen /\ (forall f, f_kind fl <> FObjectMissing f) /\
  exists d, fst (expected k) = Some (i, d) /\ dkind_of (f_kind fl) = Some d.
Proof. exact no_impossible_failure. Qed.
Print Assumptions C08_first_deviation.

(* within one actual call: between the parameters the candidates are exactly the open expectations agreeing with the parameters
   passed so far, their flags say which parameters were passed, nothing is finalized (appendix A1), and finishing the call
   consumes the first open expectation that is exactly the call, returning its value *)
Theorem C08_call_consumes_exact : forall f P es c,
  Inv f P es c -> Forall wfE es ->
  match check_call es c with
  | inl (es', c') => exists v, consume f P (c_order c) (map abs es) = Some (map abs es', v) /\ cur_ret es' = v /\
                               c_state c' = Succeeded /\ c_checked c' = true /\ Forall wfE es'
  | inr fl => consume f P (c_order c) (map abs es) = None /\ f_kind fl = FParamMissing f (N.of_nat (length (filter e_pot es))) /\
              exists e, In e es /\ liveL f P e = true
  end.
Proof. exact finish_inv. Qed.
Print Assumptions C08_call_consumes_exact.

(* the invariant is established by the constructor + withName from ANY flag state (this is what the repair guarantees) ... *)
Theorem C08_call_starts_clean : forall f es c,
  (forall e, In e es -> e_ign e = false) -> c_name c = f -> c_checked c = false ->
  match with_name (create true es) c with
  | inr fl => (forall e, In e es -> can_match e && relates f e = false) /\
              f_kind fl = (let n := fulfilled_for f es in if (0 <? n)%N then FAdditionalCall f (n + 1)%N else FUnexpectedCall f)
  | inl (es', c') => Inv f [] es' c' /\ map stat es' = map stat es /\ c_order c' = c_order c /\
                     exists e, In e es /\ can_match e && relates f e = true
  end.
Proof. exact with_name_inv. Qed.
Print Assumptions C08_call_starts_clean.

(* ... and preserved by every parameter not passed before *)
Theorem C08_parameter_preserves_invariant : forall f P n v es c,
  Inv f P es c -> passed P n = false ->
  match check_input n v es c with
  | inr fl => (forall e, In e es -> liveL f (P ++ [(n, v)]) e = false) /\
              f_kind fl = (if existsb (fun e => relates f e && has_input_name n e) es then FParamValue f n else FParamName f n)
  | inl (es', c') => Inv f (P ++ [(n, v)]) es' c' /\ map stat es' = map stat es /\ c_order c' = c_order c /\
                     exists e, In e es /\ liveL f (P ++ [(n, v)]) e = true
  end.
Proof. exact check_input_inv. Qed.
Print Assumptions C08_parameter_preserves_invariant.

(* a call succeeds iff some unfulfilled expectation of that function has exactly the call's parameter set *)
Theorem C08_call_succeeds_iff : forall f ps o xs,
  (exists xs' v, consume f ps o xs = Some (xs', v)) <-> (exists x, In x xs /\ x_open x = true /\ matches (x_e x) f ps = true).
Proof. exact call_succeeds_iff. Qed.
Print Assumptions C08_call_succeeds_iff.

(* the verdict clause of the spec is independent of the order of the actual calls *)
Theorem C08_verdict_permutation_invariant : forall es cs cs', Permutation cs cs' -> multiset_ok es cs = multiset_ok es cs'.
Proof. exact multiset_ok_perm. Qed.
Print Assumptions C08_verdict_permutation_invariant.

(* parameter equality used here is MockNamedValue::equals as modelled and proved in C09 *)
Theorem C08_veq_is_C09_equals : forall a b, pv_valid a = true -> pv_valid b = true -> veq a b = C09_Model.equals (emb a) (emb b).
Proof. exact veq_is_C09_equals. Qed.
Print Assumptions C08_veq_is_C09_equals.

(* the code before the repair f9780ee (stale matched-flags of expectations pruned in the middle of a call) violated the spec *)
Theorem C08_run_old_refuted : ~ run_old_meets_spec_stmt.
Proof. exact run_old_refuted. Qed.
Print Assumptions C08_run_old_refuted.
