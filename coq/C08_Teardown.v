(* C08 -- tests with a teardown under the library's default mock failure reporter (C08_ModelTd.v: fail_world / stepw_nl / td_from /
   run_one_t / spec_ttest).  "The first deviation fails the test ONCE": a test that has failed -- at its own check or at a mock
   operation of its body -- is not failed again by what the teardown's mock().checkExpectations() still finds in mock() (calls out of
   order, unfulfilled expectations and incomplete last calls of other scopes), nor by the plugin; a failure delivered by the
   teardown's check is the only one.  With the usual teardown (check first) the test up to that check is the single scenario "its
   mock operations, then mock().checkExpectations()".  The reporter without the hasFailed() test is refuted. *)
From Coq Require Import ZArith NArith Bool List Lia.
From CppUVerif Require Import lib.CInt lib.Str C08_Model C08_ModelTd C08_Proofs C08_Proofs2 C08_Scopes C08_Count C08_Outs C08_Post C08_Proofs3 C08_Runs C08_Calm.
Import ListNotations.
Local Open Scope N_scope.

(* ---------------------------------------------------------------- the teardown *)
(* the test has failed: the default reporter delivers nothing, whatever the teardown does and whatever mock() holds *)
Lemma td_dropped : forall td fx w j, snd (td_from rep_default fx true w j td) = [].
Proof. induction td as [|so r IH]; intros fx w j; [reflexivity|]. cbn [td_from rep_default negb]. apply IH. Qed.

(* a delivered failure leaves the teardown: at most one, whatever the reporter *)
Lemma td_at_most_one : forall rep td fx failed w j, (length (snd (td_from rep fx failed w j td)) <= 1)%nat.
Proof.
  induction td as [|so r IH]; intros fx failed w j; cbn [td_from]; [cbn; lia|].
  destruct (rep failed); [|apply IH]. destruct (stepw fx w so) as [[w' rv]|fl]; [apply IH|cbn; lia].
Qed.

Lemma td_index : forall rep td fx failed w j k fl, In (k, fl) (snd (td_from rep fx failed w j td)) -> j <= k.
Proof.
  induction td as [|so r IH]; intros fx failed w j k fl; cbn [td_from]; [intros []|].
  destruct (rep failed).
  - destruct (stepw fx w so) as [[w' rv]|f].
    + intro H. apply IH in H. lia.
    + cbn. intros [H|[]]. inversion H. lia.
  - intro H. apply IH in H. lia.
Qed.

(* ---------------------------------------------------------------- the body against the scenario runner, with a continuation *)
Definition obs_cont (rest : list (N * op)) (i : N) (t : test) (ea : bend * acc) : obs :=
  match fst ea with
  | BDone w => runw_from true w (i + N.of_nat (length (ops_before t))) rest (snd ea)
  | BMock j fl => mk_obs (Some (j, fl)) (snd ea)
  | BOwn _ => mk_obs None (snd ea)
  end.
Lemma body_runw_app : forall t w i a rest, own_fails t = false ->
  runw_from true w i (ops_before t ++ rest) a = obs_cont rest i t (body_from true w i t a).
Proof.
  induction t as [|s r IH]; intros w i a rest H.
  - unfold obs_cont. cbn. rewrite N.add_0_r. reflexivity.
  - destruct s as [so|[|]].
    + rewrite own_fails_cons_op in H. cbn [body_from ops_before app runw_from].
      destruct (stepw true w so) as [[w' rv]|fl]; [|reflexivity].
      rewrite IH by exact H. unfold obs_cont. destruct (body_from true w' (i + 1) r (add_effect a rv)) as [e a'].
      cbn [fst snd length]. destruct e; try reflexivity. cbn [ops_before length]. rewrite Nat2N.inj_succ.
      replace (i + 1 + N.of_nat (length (ops_before r))) with (i + N.succ (N.of_nat (length (ops_before r)))) by lia. reflexivity.
    + rewrite own_fails_cons_ok in H. cbn [body_from ops_before]. apply IH; exact H.
    + discriminate H.
Qed.

(* ---------------------------------------------------------------- one test, unfolded *)
Definition fail_of (e : bend) : option (N * failure) := match e with BMock i fl => Some (i, fl) | _ => None end.
Definition own_of (e : bend) : bool := match e with BOwn _ => true | _ => false end.
Definition world_after_body (t : test) (e : bend) : world :=
  match e with BDone w | BOwn w => w | BMock _ _ => body_world true world0 t end.

Lemma run_alone_t_eq t :
  run_alone_t t =
  let ea := body_from true world0 0 (tt_body t) acc0 in
  let failed := body_failed (fst ea) in
  let wt := td_from rep_default true failed (world_after_body (tt_body t) (fst ea)) 0 (tt_td t) in
  let fs := if failed || negb (is_nil (snd wt)) then [] else post_world (fst wt) in
  {| x_obs := mk_obs (fail_of (fst ea)) (add_effect (snd ea) (post_effect fs));
     x_own := own_of (fst ea);
     x_td := snd wt;
     x_total := (if failed then 1 else 0) + N.of_nat (length (snd wt)) + N.of_nat (length fs) |}.
Proof.
  unfold run_alone_t, run_one_t. cbn [rstate0 rs_world rs_failures].
  destruct (body_from true world0 0 (tt_body t) acc0) as [e a]. cbn [fst snd].
  change (match e with BDone w | BOwn w => w | BMock _ _ => body_world true world0 (tt_body t) end) with (world_after_body (tt_body t) e).
  destruct (td_from rep_default true (body_failed e) (world_after_body (tt_body t) e) 0 (tt_td t)) as [w2 tf]. cbn [fst snd].
  unfold plugin_post. cbn [snd]. destruct (body_failed e || negb (is_nil tf)); reflexivity.
Qed.

(* a run = its tests alone, the counter summed: the plugin clears mock() after every test *)
Definition shiftx (n : N) (o : xobs) : xobs := {| x_obs := x_obs o; x_own := x_own o; x_td := x_td o; x_total := n + x_total o |}.
Lemma run_one_t_alone st t : rs_world st = world0 ->
  run_one_t rep_default plugin_post true st t = ({| rs_world := world0; rs_failures := rs_failures st + x_total (run_alone_t t) |},
                                                  shiftx (rs_failures st) (run_alone_t t)).
Proof.
  intro H. unfold run_alone_t, run_one_t. rewrite H. cbn [rstate0 rs_world rs_failures].
  destruct (body_from true world0 0 (tt_body t) acc0) as [e a].
  destruct (td_from rep_default true (body_failed e) _ 0 (tt_td t)) as [w2 tf].
  unfold plugin_post, shiftx. cbn [snd x_obs x_own x_td x_total].
  f_equal; [f_equal; lia|f_equal; lia].
Qed.
Theorem run_one_t_clears st t : rs_world (fst (run_one_t rep_default plugin_post true st t)) = world0.
Proof.
  unfold run_one_t. destruct (body_from true (rs_world st) 0 (tt_body t) acc0) as [e a].
  destruct (td_from rep_default true (body_failed e) _ 0 (tt_td t)) as [w2 tf]. reflexivity.
Qed.
Fixpoint sumsx (n : N) (os : list xobs) : list xobs :=
  match os with [] => [] | o :: r => shiftx n o :: sumsx (n + x_total o) r end.
Theorem runs_t_independent_gen : forall ts st, rs_world st = world0 ->
  snd (run_tests_t rep_default plugin_post true st ts) = sumsx (rs_failures st) (map run_alone_t ts).
Proof.
  induction ts as [|t r IH]; intros st H; [reflexivity|].
  cbn [run_tests_t map sumsx]. rewrite (run_one_t_alone st t H).
  specialize (IH {| rs_world := world0; rs_failures := rs_failures st + x_total (run_alone_t t) |} eq_refl).
  destruct (run_tests_t rep_default plugin_post true _ r) as [st2 os]. cbn [snd] in *. rewrite IH. reflexivity.
Qed.
Theorem runs_t_independent ts : runs_t ts = sumsx 0 (map run_alone_t ts).
Proof. apply (runs_t_independent_gen ts rstate0 eq_refl). Qed.

(* ---------------------------------------------------------------- ONCE *)
Lemma body_valid_post_nil t e a : forallb step_valid t = true -> body_from true world0 0 t acc0 = (e, a) -> a_post a = [].
Proof. intros V B. exact (body_post_nil t world0 0 acc0 e a V eq_refl B). Qed.

Lemma o_post_mk' fl a fs : a_post a = [] -> o_post (mk_obs fl (add_effect a (post_effect fs))) = fs.
Proof. apply o_post_mk. Qed.

(* a test that has failed in its body: nothing from the teardown, nothing from the plugin, one failure *)
Theorem failed_test_not_failed_again t : forallb step_valid (tt_body t) = true ->
  failed_in_body (run_alone_t t) = true ->
  x_td (run_alone_t t) = [] /\ o_post (x_obs (run_alone_t t)) = [] /\ x_total (run_alone_t t) = 1.
Proof.
  intros V. rewrite run_alone_t_eq. cbv zeta.
  destruct (body_from true world0 0 (tt_body t) acc0) as [e a] eqn:B. cbn [fst snd].
  pose proof (body_valid_post_nil _ _ _ V B) as P.
  unfold failed_in_body, passed_obs. cbn [x_own x_obs x_td x_total]. rewrite o_fail_mk.
  destruct e as [w|j fl|w]; cbn [own_of fail_of body_failed orb negb].
  - intro H. discriminate H.
  - intros _. rewrite td_dropped. cbn [orb is_nil negb length]. rewrite o_post_mk' by exact P. repeat split.
  - intros _. rewrite td_dropped. cbn [orb is_nil negb length]. rewrite o_post_mk' by exact P. repeat split.
Qed.

(* a failure delivered while the teardown runs is the only failure of the test *)
Theorem teardown_failure_is_the_only_one t : forallb step_valid (tt_body t) = true ->
  x_td (run_alone_t t) <> [] ->
  (length (x_td (run_alone_t t)) = 1)%nat /\ failed_in_body (run_alone_t t) = false /\
  o_post (x_obs (run_alone_t t)) = [] /\ x_total (run_alone_t t) = 1.
Proof.
  intros V. rewrite run_alone_t_eq. cbv zeta.
  destruct (body_from true world0 0 (tt_body t) acc0) as [e a] eqn:B. cbn [fst snd].
  pose proof (body_valid_post_nil _ _ _ V B) as P.
  unfold failed_in_body, passed_obs. cbn [x_own x_obs x_td x_total]. rewrite o_fail_mk.
  destruct e as [w|j fl|w]; cbn [own_of fail_of body_failed orb negb world_after_body].
  - pose proof (td_at_most_one rep_default (tt_td t) true false w 0) as L.
    destruct (td_from rep_default true false w 0 (tt_td t)) as [w2 tf]. cbn [fst snd] in *.
    destruct tf as [|x [|y r]]; [intro H; contradiction H; reflexivity| |cbn in L; lia].
    intros _. cbn [is_nil negb length]. rewrite o_post_mk' by exact P. repeat split.
  - rewrite td_dropped. intro H. contradiction H. reflexivity.
  - rewrite td_dropped. intro H. contradiction H. reflexivity.
Qed.

Lemma once_alone t : forallb step_valid (tt_body t) = true -> once (run_alone_t t) = true.
Proof.
  intro V. unfold once. apply andb_true_intro. split.
  - destruct (failed_in_body (run_alone_t t)) eqn:F; [|reflexivity].
    destruct (failed_test_not_failed_again t V F) as [A [B _]]. rewrite A, B. reflexivity.
  - destruct (x_td (run_alone_t t)) as [|x r] eqn:E; [reflexivity|].
    assert (N0 : x_td (run_alone_t t) <> []) by (rewrite E; discriminate).
    destruct (teardown_failure_is_the_only_one t V N0) as [L [_ [Q _]]]. rewrite E in L. destruct r; [|discriminate L].
    rewrite Q. reflexivity.
Qed.

(* every failure observed in the test is counted once *)
Theorem run_alone_t_counts t : forallb step_valid (tt_body t) = true -> x_total (run_alone_t t) = failures_in_x (run_alone_t t).
Proof.
  intro V. rewrite run_alone_t_eq. cbv zeta.
  destruct (body_from true world0 0 (tt_body t) acc0) as [e a] eqn:B. cbn [fst snd].
  pose proof (body_valid_post_nil _ _ _ V B) as P.
  unfold failures_in_x, failures_in, lower. cbn [x_own x_obs x_td x_total to_own to_obs]. rewrite o_fail_mk, o_post_mk' by exact P.
  destruct e as [w|j fl|w]; cbn [own_of fail_of body_failed]; lia.
Qed.

(* ---------------------------------------------------------------- without teardown, or left at the own check: the test of C08_Runs *)
Lemma td_nil_or_failed t :
  (body_failed (fst (body_from true world0 0 (tt_body t) acc0)) = true \/ tt_td t = []) ->
  lower (run_alone_t t) = run_alone (tt_body t) /\ x_td (run_alone_t t) = [].
Proof.
  intro H. rewrite run_alone_t_eq. cbv zeta. unfold run_alone, run_one, lower. cbn [rstate0 rs_world rs_failures].
  destruct (body_from true world0 0 (tt_body t) acc0) as [e a]. cbn [fst snd x_obs x_own x_td x_total] in *.
  unfold plugin_post. cbn [snd].
  destruct e as [w|j fl|w]; cbn [body_failed own_of fail_of left_world world_after_body orb] in *.
  - destruct H as [H|H]; [discriminate H|]. rewrite H. cbn [td_from fst snd is_nil negb length]. split; [|reflexivity].
    f_equal; try lia.
  - rewrite td_dropped. cbn [is_nil negb length]. split; [|reflexivity]. f_equal.
  - rewrite td_dropped. cbn [is_nil negb length]. split; [|reflexivity]. f_equal.
Qed.

Theorem teardown_empty_is_run t : run_alone_t {| tt_body := t; tt_td := [] |} =
  {| x_obs := to_obs (run_alone t); x_own := to_own (run_alone t); x_td := []; x_total := to_total (run_alone t) |}.
Proof.
  destruct (td_nil_or_failed {| tt_body := t; tt_td := [] |} (or_intror eq_refl)) as [A B].
  cbn [tt_body] in A. rewrite <- A. unfold lower. cbn [to_obs to_own to_total]. rewrite <- B. destruct (run_alone_t {| tt_body := t; tt_td := [] |}); reflexivity.
Qed.

(* ---------------------------------------------------------------- the usual teardown: its check is the scenario's final check *)
Lemma coherent_ext ops o o' : o_fail o = o_fail o' -> o_rets o = o_rets o' -> o_outs o = o_outs o' -> coherent ops o = coherent ops o'.
Proof. intros A B C. unfold coherent. rewrite A, B, C. reflexivity. Qed.

Lemma with_fail_mk f f' a fs : a_post a = [] -> with_fail (mk_obs f (add_effect a (post_effect fs))) f' = mk_obs f' a.
Proof.
  intro P. destruct a as [r o l p]. cbn in P. subst p. unfold with_fail, mk_obs, add_effect, post_effect. cbn.
  reflexivity.
Qed.

Lemma stepw_check_effect w w' rv : stepw true w (0, OCheck) = inl (w', rv) -> rv = no_effect.
Proof. cbn. destruct (check_world w); intro H; inversion H; reflexivity. Qed.

Lemma add_no_effect a : add_effect a no_effect = a.
Proof. destruct a. reflexivity. Qed.

(* the test with the usual teardown IS the scenario X = "its mock operations, then mock().checkExpectations()": the same values, the
   same failure -- delivered in the body when an operation of the body fails, by the teardown's first operation when the check
   fails --, exactly one failure when X fails and none at all when X passes (nothing from the rest of the teardown, nothing from
   the plugin) *)
Theorem usual_teardown_is_scenario t r : ttest_valid t = true -> own_fails (tt_body t) = false -> tt_td t = (0, OCheck) :: r ->
  let o := run_alone_t t in
  let X := ops_before (tt_body t) ++ [(0, OCheck)] in
  with_fail (x_obs o) (o_fail (runw X)) = runw X /\ x_own o = false /\
  match o_fail (runw X) with
  | None => x_total o = 0 /\ x_td o = [] /\ o_fail (x_obs o) = None /\ o_post (x_obs o) = []
  | Some (i, fl) =>
      x_total o = 1 /\ o_post (x_obs o) = [] /\
      ((i < N.of_nat (length (ops_before (tt_body t))) /\ o_fail (x_obs o) = Some (i, fl) /\ x_td o = []) \/
       (i = N.of_nat (length (ops_before (tt_body t))) /\ o_fail (x_obs o) = None /\ x_td o = [(0, fl)]))
  end.
Proof.
  intros TV O T. unfold ttest_valid in TV. apply andb_prop in TV. destruct TV as [V VT]. rewrite T in VT.
  destruct (td_valid_cons _ _ VT) as [_ VR]. cbv zeta.
  pose proof (body_runw_app (tt_body t) world0 0 acc0 [(0, OCheck)] O) as RC.
  fold (runw_gen true (ops_before (tt_body t) ++ [(0, OCheck)])) in RC. fold (runw (ops_before (tt_body t) ++ [(0, OCheck)])) in RC.
  rewrite RC. clear RC.
  rewrite run_alone_t_eq. cbv zeta. rewrite T.
  destruct (body_from true world0 0 (tt_body t) acc0) as [e a] eqn:B. cbn [fst snd x_obs x_td x_own x_total].
  pose proof (body_valid_post_nil _ _ _ V B) as P. rewrite o_fail_mk.
  unfold obs_cont. cbn [fst snd].
  destruct e as [w|j fl|w]; cbn [fail_of own_of body_failed world_after_body].
  - rewrite N.add_0_l. cbn [runw_from]. cbn [td_from rep_default negb].
    assert (OK : ok_world w = true) by (eapply body_ok; [|exact B]; reflexivity).
    destruct (stepw true w (0, OCheck)) as [[w' rv]|fl] eqn:S.
    + pose proof (stepw_check_effect _ _ _ S) as E. subst rv. rewrite add_no_effect.
      assert (CW : calm_world w' = true).
      { cbn in S. destruct (check_world w) as [w1|fl] eqn:CK; [|discriminate S]. inversion S; subst. eapply check_world_calm; [exact OK|exact CK]. }
      destruct (td_calm r w' (0 + 1) CW VR) as [w2 [TD C2]]. rewrite TD. cbn [fst snd is_nil negb orb length].
      rewrite (post_world_calm w2 C2). rewrite o_fail_mk, o_post_mk' by exact P. rewrite with_fail_mk by exact P.
      repeat split.
    + cbn [fst snd is_nil negb orb length]. rewrite o_fail_mk, o_post_mk' by exact P. rewrite with_fail_mk by exact P.
      repeat split. right. repeat split.
  - rewrite td_dropped. cbn [is_nil negb orb length]. rewrite o_fail_mk, o_post_mk' by exact P. rewrite with_fail_mk by exact P.
    repeat split. left. apply body_mock_index in B. repeat split. lia.
  - apply body_own_fails in B. congruence.
Qed.

(* the verdict of a test with the usual teardown (own checks pass, mock script canonical and judged): it adds NO failure to the run
   iff in every scope the multiset (strict: the sequence) of its actual calls is that of its expectations *)
Theorem usual_teardown_verdict t r k : ttest_valid t = true -> own_fails (tt_body t) = false -> tt_td t = (0, OCheck) :: r ->
  parsew (ops_before (tt_body t) ++ [(0, OCheck)]) = Some k -> judgedw k = true ->
  (x_total (run_alone_t t) = 0 <-> verdictw_ok k = true).
Proof.
  intros TV O T Hp Hj. destruct (usual_teardown_is_scenario t r TV O T) as [_ [_ M]]. cbv zeta in M.
  pose proof (runw_meets_specw (ops_before (tt_body t) ++ [(0, OCheck)])) as S. unfold specw in S. rewrite Hp, Hj in S. cbn [negb] in S.
  apply andb_prop in S. destruct S as [_ S]. do 4 (apply andb_prop in S; destruct S as [S _]). apply eqb_prop in S.
  rewrite <- S. unfold passed_obs. destruct (o_fail (runw (ops_before (tt_body t) ++ [(0, OCheck)]))) as [[i fl]|].
  - destruct M as [M _]. rewrite M. split; intro X; discriminate X.
  - destruct M as [M _]. rewrite M. split; reflexivity.
Qed.

Lemma spec_td_check_alone t r : ttest_valid t = true -> own_fails (tt_body t) = false -> tt_td t = (0, OCheck) :: r ->
  spec_td_check (ops_before (tt_body t)) (run_alone_t t) = true.
Proof.
  intros TV O T. destruct (usual_teardown_is_scenario t r TV O T) as [W [_ M]]. cbv zeta in W, M. unfold spec_td_check.
  pose proof (runw_meets_specw (ops_before (tt_body t) ++ [(0, OCheck)])) as SP.
  destruct (o_fail (runw (ops_before (tt_body t) ++ [(0, OCheck)]))) as [[i fl]|] eqn:F.
  - destruct M as [_ [_ [[_ [A B]]|[I [A B]]]]]; rewrite A; try rewrite B.
    + rewrite W. exact SP.
    + rewrite N.eqb_refl. cbn [andb]. rewrite <- I, W. exact SP.
  - destruct M as [_ [B [A Q]]]. rewrite A, B, W, Q, SP. reflexivity.
Qed.

Lemma spec_td_other_alone t : forallb step_valid (tt_body t) = true -> own_fails (tt_body t) = false ->
  spec_td_other (ops_before (tt_body t)) (run_alone_t t) = true.
Proof.
  intros V O. unfold spec_td_other.
  pose proof (body_runw_app (tt_body t) world0 0 acc0 [] O) as R0. rewrite app_nil_r in R0.
  rewrite run_alone_t_eq. cbv zeta.
  destruct (body_from true world0 0 (tt_body t) acc0) as [e a] eqn:B. cbn [fst snd x_obs x_td].
  rewrite o_fail_mk. unfold obs_cont in R0. cbn [fst snd] in R0.
  destruct e as [w|j fl|w]; cbn [fail_of].
  - rewrite andb_true_r. rewrite (coherent_ext _ _ (mk_obs None a)); [|reflexivity|reflexivity|reflexivity].
    cbn [runw_from] in R0. rewrite <- R0. apply coherent_run.
  - apply andb_true_intro. split.
    + rewrite (coherent_ext _ _ (mk_obs (Some (j, fl)) a)); [|reflexivity|reflexivity|reflexivity]. rewrite <- R0. apply coherent_run.
    + apply N.ltb_lt. apply body_mock_index in B. lia.
  - apply body_own_fails in B. congruence.
Qed.

(* ---------------------------------------------------------------- the run meets its specification *)
Lemma own_fails_body_failed t : own_fails t = true -> body_failed (fst (body_from true world0 0 t acc0)) = true.
Proof. intro H. destruct (body_runw_cut t world0 0 acc0 H) as [F _]. exact F. Qed.

Lemma spec_ttest_alone t n : ttest_valid t = true -> spec_ttest t n (shiftx n (run_alone_t t)) = true.
Proof.
  intro TV. unfold ttest_valid in TV. apply andb_prop in TV. destruct TV as [V VT].
  unfold spec_ttest.
  assert (ON : once (shiftx n (run_alone_t t)) = once (run_alone_t t)) by reflexivity.
  assert (FX : failures_in_x (shiftx n (run_alone_t t)) = failures_in_x (run_alone_t t)) by reflexivity.
  rewrite ON, (once_alone t V), FX, <- (run_alone_t_counts t V). cbn [shiftx x_total]. rewrite N.eqb_refl. cbn [andb].
  destruct (own_fails (tt_body t) || is_nil (tt_td t)) eqn:C.
  - assert (H : body_failed (fst (body_from true world0 0 (tt_body t) acc0)) = true \/ tt_td t = []).
    { apply orb_prop in C. destruct C as [C|C]; [left; apply own_fails_body_failed; exact C|right; destruct (tt_td t); [reflexivity|discriminate C]]. }
    destruct (td_nil_or_failed t H) as [L X].
    change (x_td (shiftx n (run_alone_t t))) with (x_td (run_alone_t t)). rewrite X. cbn [is_nil andb].
    assert (LS : lower (shiftx n (run_alone_t t)) = shift n (run_alone (tt_body t))) by (rewrite <- L; reflexivity).
    rewrite LS. apply spec_test_alone. exact V.
  - apply orb_false_elim in C. destruct C as [O T].
    assert (OW : x_own (shiftx n (run_alone_t t)) = false).
    { cbn [shiftx x_own]. rewrite run_alone_t_eq. cbv zeta. destruct (body_from true world0 0 (tt_body t) acc0) as [e a] eqn:B.
      cbn [fst x_own]. destruct e; try reflexivity. apply body_own_fails in B. congruence. }
    rewrite OW. cbn [negb andb].
    destruct (td_check_first (tt_td t)) eqn:CF.
    + destruct (tt_td t) as [|[s o] r] eqn:TD; [discriminate CF|]. destruct s; [|discriminate CF]. destruct o; try discriminate CF.
      refine (spec_td_check_alone t r _ O TD). unfold ttest_valid. rewrite V, TD. exact VT.
    + exact (spec_td_other_alone t V O).
Qed.

Lemma spec_sumsx : forall ts n, forallb ttest_valid ts = true -> spec_runt_from n ts (sumsx n (map run_alone_t ts)) = true.
Proof.
  induction ts as [|t r IH]; intros n V; [reflexivity|].
  cbn [forallb] in V. apply andb_prop in V. destruct V as [V1 V2].
  cbn [map sumsx spec_runt_from]. rewrite (spec_ttest_alone t n V1). cbn [andb shiftx x_total]. apply IH. exact V2.
Qed.

Theorem runs_t_meet_spec ts : valid_runt ts = true -> spec_runt ts (runs_t ts) = true.
Proof. intro V. rewrite runs_t_independent. apply spec_sumsx. exact V. Qed.

Theorem run_x_meets_spec s : valid_x s = true -> spec_x s (run_x s) = true.
Proof. destruct s as [s|ts]; intro V; [apply run_top_meets_spec; exact V|apply runs_t_meet_spec; exact V]. Qed.

(* the plugin's end-of-test check is mock().checkExpectations() with a reporter that returns *)
Theorem post_world_is_check_nl w : post_world w = snd (stepw_nl w (0, OCheck)).
Proof.
  unfold post_world, stepw_nl, check_world_nl. cbn [N.eqb]. destruct (finish_all_nl w) as [w1 fs].
  destruct (last_ok_all w1 && left_all w1); [reflexivity|]. destruct (ooo_all w1); reflexivity.
Qed.

(* ---------------------------------------------------------------- the reporter without the hasFailed() test does not have the property *)
Definition reporter_ok (rep : reporter_t) : Prop :=
  forall ts, valid_runt ts = true -> spec_runt ts (runs_t_gen rep plugin_post ts) = true.

(* strict order; expect f0, f1; actual f1 (out of order: only a check says so), f7 (unexpected: fails at once) | teardown: check, clear *)
Definition t_twice : ttest :=
  {| tt_body := [TOp (0, OStrict); TOp (0, OExpect 1 0 [] [] None None false); TOp (0, OExpect 1 1 [] [] None None false);
                 TOp (0, OCall 1 [] false); TOp (0, OCall 7 [] false); TOp (0, OCall 0 [] false)];
     tt_td := [(0, OCheck); (0, OClear)] |}.
(* expect f0; the test's own check fails | teardown: check *)
Definition t_own_then_check : ttest :=
  {| tt_body := [TOp (0, OExpect 1 0 [] [] None None false); TCheck false]; tt_td := [(0, OCheck)] |}.
(* the unexpected call is made on scope 1, the expectation of scope 2 is unfulfilled | teardown: check of scope 2 *)
Definition t_other_scope : ttest :=
  {| tt_body := [TOp (2, OExpect 1 0 [] [] None None false); TOp (1, OCall 7 [] false)]; tt_td := [(2, OCheck); (0, OCheck); (0, OClear)] |}.

Theorem reporter_always_refuted : ~ reporter_ok rep_always.
Proof. intro H. specialize (H [t_twice] eq_refl). vm_compute in H. discriminate H. Qed.

Example example_twice_default : map x_total (runs_t [t_twice; t_own_then_check; t_other_scope]) = [1; 2; 3]
  /\ map (fun o => length (x_td o)) (runs_t [t_twice; t_own_then_check; t_other_scope]) = [0; 0; 0]%nat
  /\ spec_runt [t_twice; t_own_then_check; t_other_scope] (runs_t [t_twice; t_own_then_check; t_other_scope]) = true.
Proof. repeat split; vm_compute; reflexivity. Qed.
Example example_twice_always : map x_total (runs_t_gen rep_always plugin_post [t_twice; t_own_then_check; t_other_scope]) = [2; 4; 6]
  /\ map (fun o => map (fun jf => (fst jf, f_kind (snd jf))) (x_td o)) (runs_t_gen rep_always plugin_post [t_twice; t_own_then_check; t_other_scope])
     = [[(0, FOutOfOrder)]; [(0, FNotFulfilled)]; [(0, FNotFulfilled)]].
Proof. split; vm_compute; reflexivity. Qed.

(* the usual teardown on a test that passes / whose expectation is unfulfilled / whose last call is incomplete *)
Definition t_td_pass : ttest :=
  {| tt_body := [TOp (0, OExpect 1 0 [] [] None None false); TOp (0, OCall 0 [] false)]; tt_td := [(0, OCheck); (0, OClear)] |}.
Definition t_td_unfulfilled : ttest :=
  {| tt_body := [TOp (0, OExpect 1 0 [] [] None None false)]; tt_td := [(0, OCheck); (0, OClear)] |}.
Example example_usual_teardown :
  ttest_valid t_td_unfulfilled = true /\ own_fails (tt_body t_td_unfulfilled) = false /\
  (exists k, parsew (ops_before (tt_body t_td_unfulfilled) ++ [(0, OCheck)]) = Some k /\ judgedw k = true /\ verdictw_ok k = false) /\
  map x_total (runs_t [t_td_pass; t_td_unfulfilled; t_td_pass]) = [0; 1; 1] /\
  map (fun o => map (fun jf => (fst jf, f_kind (snd jf))) (x_td o)) (runs_t [t_td_pass; t_td_unfulfilled]) = [[]; [(0, FNotFulfilled)]].
Proof. split; [reflexivity|]. split; [reflexivity|]. split; [eexists; split; [reflexivity|split; vm_compute; reflexivity]|]. split; vm_compute; reflexivity. Qed.
Example example_failed_not_again : failed_in_body (run_alone_t t_twice) = true /\ x_total (run_alone_t t_twice) = 1
  /\ failed_in_body (run_alone_t t_own_then_check) = true /\ x_td (run_alone_t t_td_unfulfilled) <> [].
Proof. repeat split; try (vm_compute; reflexivity). vm_compute. discriminate. Qed.
