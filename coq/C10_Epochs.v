(* C10 -- the history of the overload switches.  (1) The switch machine of the source (eleven pointers, eleven saved_
   pointers, save_counter) against the meaning of the five switches: after every well-bracketed history the wiring in force
   is the one the meaning names -- in particular the thread-safe one whenever the meaning says "thread-safe".  (2) A run in
   epochs: the invariants of one epoch (C10_Lock, C10_Sched) carry over the re-arming of the threads, so every epoch of a
   valid scenario runs under a fully locked wiring or does not run anything; every call of an entry point takes the lock;
   the completed run satisfies the oracle for every choice of schedules. *)
From Coq Require Import NArith ZArith Arith Bool List Lia.
From CppUVerif Require Import C10_Wiring gen.Gen_C10 C10_Model C10_Steps C10_Lock C10_Data C10_Sched C10_Proofs C10_Main C10_Compose C10_Theorems.
Import ListNotations.

(* ================================================================ 1. the switches *)
Definition table_of (m : mode) : wtable :=
  match m with MOff => off_table | MDefault => default_table | MSafe => ts_table end.
(* the switch state of the source after a history that starts where turnOnThreadSafeNewDeleteOverloads has been called *)
Definition sw_run (h : list swop) : swst := fold_left sw_step h (sw_start ts_table).

(* d = nesting depth of saveAndDisable, m = the overloads named by the last direct switch *)
Definition SwInv (o : swst) (d : nat) (m : mode) : Prop :=
  sw_count o = Z.of_nat d
  /\ (d = 0 -> sw_cur o = table_of m)
  /\ (d <> 0 -> sw_cur o = off_table /\ sw_saved o = table_of m).

Lemma swinv_step_direct : forall o m k m', SwInv o 0 m ->
  (k = SwOff /\ m' = MOff \/ k = SwDefault /\ m' = MDefault \/ k = SwSafe /\ m' = MSafe) -> SwInv (sw_step o k) 0 m'.
Proof.
  intros o m k m' (Hc & _ & _) [(-> & ->)|[(-> & ->)|(-> & ->)]]; unfold SwInv; simpl; repeat split; auto; intros; lia.
Qed.

Lemma swinv_run : forall h o d m, SwInv o d m -> hist_ok h d = true ->
  exists d', hist_depth h d = Some d' /\ SwInv (fold_left sw_step h o) d' (last_direct h m).
Proof.
  induction h as [|k r IH]; intros o d m Hi Hok.
  - exists d. split; auto.
  - destruct k; simpl in Hok |- *.
    + apply andb_true_iff in Hok. destruct Hok as (Hd & Hok). apply Nat.eqb_eq in Hd. subst d.
      apply (IH (sw_step o SwOff) 0 MOff); auto. eapply swinv_step_direct; eauto.
    + apply andb_true_iff in Hok. destruct Hok as (Hd & Hok). apply Nat.eqb_eq in Hd. subst d.
      apply (IH (sw_step o SwDefault) 0 MDefault); auto. eapply swinv_step_direct; eauto 6.
    + apply andb_true_iff in Hok. destruct Hok as (Hd & Hok). apply Nat.eqb_eq in Hd. subst d.
      apply (IH (sw_step o SwSafe) 0 MSafe); auto. eapply swinv_step_direct; eauto 6.
    + (* saveAndDisable *)
      apply (IH (sw_step o SwSave) (S d) m); auto.
      destruct Hi as (Hc & H0 & Hpos). unfold sw_step. rewrite Hc.
      destruct (1 <? Z.of_nat d + 1)%Z eqn:E.
      * apply Z.ltb_lt in E. assert (d <> 0) by lia. destruct (Hpos H) as (Hcur & Hsav).
        unfold SwInv, mk_sw; cbn [sw_count sw_cur sw_saved]. split; [lia|]. split; [intros; lia|]. auto.
      * apply Z.ltb_ge in E. assert (d = 0) by lia. subst d.
        unfold SwInv, mk_sw; cbn [sw_count sw_cur sw_saved]. split; [lia|]. split; [intros; lia|]. intros _. split; auto.
    + (* restore *)
      destruct d as [|d']; [discriminate|].
      apply (IH (sw_step o SwRestore) d' m); auto.
      destruct Hi as (Hc & _ & Hpos). destruct (Hpos (Nat.neq_succ_0 d')) as (Hcur & Hsav).
      unfold sw_step. rewrite Hc.
      destruct (0 <? Z.of_nat (S d') - 1)%Z eqn:E.
      * apply Z.ltb_lt in E. unfold SwInv, mk_sw; cbn [sw_count sw_cur sw_saved]. split; [lia|]. split; [intros; lia|]. auto.
      * apply Z.ltb_ge in E. assert (d' = 0) by lia. subst d'.
        unfold SwInv, mk_sw; cbn [sw_count sw_cur sw_saved]. split; [lia|]. split; [auto|]. intros; lia.
Qed.

Lemma swinv_start : SwInv (sw_start ts_table) 0 MSafe.
Proof. unfold SwInv, sw_start; simpl. repeat split; auto; intros; lia. Qed.

(* the wiring the source is left with is the one the meaning of the switches names *)
Lemma switches_mean : forall h, hist_ok h 0 = true -> sw_cur (sw_run h) = table_of (doc_mode h).
Proof.
  intros h Hok. destruct (swinv_run h _ _ _ swinv_start Hok) as (d' & Hd & (_ & H0 & Hpos)).
  unfold doc_mode. rewrite Hd. destruct d' as [|d'']; [apply H0; auto|].
  destruct (Hpos (Nat.neq_succ_0 d'')) as (Hc & _). exact Hc.
Qed.

Lemma switches_keep_thread_safe : forall h, hist_ok h 0 = true -> doc_safe h = true -> sw_cur (sw_run h) = ts_table.
Proof.
  intros h Hok Hs. rewrite (switches_mean h Hok). unfold doc_safe in Hs. destruct (doc_mode h); try discriminate. reflexivity.
Qed.

(* ================================================================ 2. calls and the lock *)
Lemma step_locked_calls : forall c, wiring_good c -> forall t st, step_locked c t st = step_calls c t st.
Proof.
  intros c Hg t st. unfold step_locked, step_calls.
  destruct (nth_error (st_threads st) t) as [th|]; auto.
  destruct (th_pc th) as [|o r]; auto.
  destruct (th_phase th); auto.
  - destruct (th_skip th); auto. destruct (op_entry o) as [e|] eqn:He; auto.
    rewrite (wiring_good_all_lock c Hg o e He). reflexivity.
  - destruct (cfg_outalloc c && lock_free (st_lock st)); auto.
    rewrite (proj1 (Hg ENewArr)), (proj1 (Hg EDeleteArr)). reflexivity.
Qed.

Lemma exec_count_ext : forall f g c, (forall t st, f c t st = g c t st) ->
  forall sched st, exec_count f c sched st = exec_count g c sched st.
Proof. intros f g c H. induction sched as [|t r IH]; simpl; intros st; [reflexivity|]. rewrite H, IH. reflexivity. Qed.
Lemma drain_count_ext : forall f g c, (forall t st, f c t st = g c t st) ->
  forall fuel st, drain_count f c fuel st = drain_count g c fuel st.
Proof.
  intros f g c H. induction fuel as [|k IH]; simpl; intros st; [reflexivity|].
  destruct (first_enabled c st); [|reflexivity]. rewrite H, IH. reflexivity.
Qed.

Lemma probe_all_locked : forall c, wiring_good c -> probe_locked c = probe_calls.
Proof.
  intros c Hg. unfold probe_locked, probe_calls. rewrite filter_all; auto. intros e _. apply (proj1 (Hg e)).
Qed.

(* under a fully locked wiring every call of an epoch -- the probe, the scripts' operations, the output's -- takes the lock *)
Lemma epoch_counts_locked : forall c sched st, wiring_good c ->
  exists calls, epoch_counts c sched st = (calls, calls) /\ (N.of_nat probe_calls <= calls)%N.
Proof.
  intros c sched st Hg. unfold epoch_counts, run_count.
  rewrite (probe_all_locked c Hg).
  rewrite (exec_count_ext step_locked step_calls c (step_locked_calls c Hg)).
  rewrite (drain_count_ext step_locked step_calls c (step_locked_calls c Hg)).
  eexists. split; [reflexivity|]. lia.
Qed.

(* ================================================================ 3. a state in which every thread has finished does not move *)
Lemma done_pc : forall st t th, all_done st = true -> nth_error (st_threads st) t = Some th -> th_pc th = [].
Proof.
  intros st t th Hd Hn. unfold all_done in Hd. rewrite forallb_forall in Hd. specialize (Hd th (nth_error_In _ _ Hn)).
  unfold thread_done in Hd. destruct (th_pc th); auto. discriminate.
Qed.

Lemma step_done : forall c t st, all_done st = true -> step c t st = st.
Proof.
  intros c t st Hd. unfold step. destruct (nth_error (st_threads st) t) as [th|] eqn:Hn; auto.
  rewrite (done_pc st t th Hd Hn). reflexivity.
Qed.

Lemma exec_done : forall c sched st, all_done st = true -> exec c sched st = st.
Proof.
  intros c. unfold exec. induction sched as [|t r IH]; simpl; intros st Hd; auto. rewrite step_done by auto. auto.
Qed.

Lemma weight_done : forall st, all_done st = true -> weight st = 0.
Proof.
  intros st Hd. unfold weight. unfold all_done in Hd. induction (st_threads st) as [|th r IH]; simpl in *; auto.
  apply andb_true_iff in Hd. destruct Hd as (H1 & H2). rewrite IH by auto.
  unfold thread_weight. unfold thread_done in H1. destruct (th_pc th); auto. discriminate.
Qed.

Lemma complete_of_done : forall c st, all_done st = true -> complete c st = st.
Proof. intros c st Hd. unfold complete. rewrite weight_done by auto. reflexivity. Qed.

Lemma exec_peak_done : forall c sched st, all_done st = true -> exec_peak c sched st = occupancy st.
Proof.
  intros c. induction sched as [|t r IH]; simpl; intros st Hd; auto.
  rewrite step_done by auto. rewrite IH by auto. apply Nat.max_id.
Qed.

Lemma run_peak_done : forall c sched st, all_done st = true -> run_peak c sched st = occupancy st.
Proof.
  intros c sched st Hd. unfold run_peak. rewrite exec_done by auto. rewrite weight_done by auto. simpl.
  rewrite exec_peak_done by auto. apply Nat.max_id.
Qed.

Lemma done_idle : forall st t th, LockInv st -> all_done st = true -> nth_error (st_threads st) t = Some th -> th_phase th = PIdle.
Proof.
  intros st t th I Hd Hn. destruct (th_phase th) eqn:Hp; auto;
    (destruct (li_shape _ I _ _ Hn) as (_ & o & r & e & Hpc & _); [rewrite Hp; discriminate|];
     rewrite (done_pc st t th Hd Hn) in Hpc; discriminate).
Qed.

(* ================================================================ 4. re-arming the threads for the next epoch *)
Lemma lockinv_idle : forall st, (forall th, In th (st_threads st) -> th_phase th = PIdle) -> st_lock st = LFree -> LockInv st.
Proof.
  intros st Hi Hl. constructor.
  - intros t th Hn Hc. rewrite (Hi th (nth_error_In _ _ Hn)) in Hc. discriminate.
  - intros t E. rewrite Hl in E. discriminate.
  - intros t th snap Hn Hp. rewrite (Hi th (nth_error_In _ _ Hn)) in Hp. discriminate.
  - intros t th Hn Hp. rewrite (Hi th (nth_error_In _ _ Hn)) in Hp. congruence.
Qed.

Lemma rearm_threads_idle : forall ths segs, (forall th, In th ths -> th_phase th = PIdle) ->
  forall th, In th (rearm_threads ths segs) -> th_phase th = PIdle.
Proof.
  intros ths segs Hi th Hin. destruct ths as [|th0 tr]; destruct segs as [|s0 sr]; simpl in Hin; auto.
  - destruct Hin as [<-|Hin]; auto. apply in_map_iff in Hin. destruct Hin as (p & <- & _). reflexivity.
Qed.

Lemma rearm_lockinv : forall st segs, LockInv st -> all_done st = true -> LockInv (rearm st segs).
Proof.
  intros st segs I Hd.
  assert (Hidle : forall th, In th (st_threads st) -> th_phase th = PIdle).
  { intros th Hin. apply In_nth_error in Hin. destruct Hin as (t & Hn). eapply done_idle; eauto. }
  apply lockinv_idle.
  - unfold rearm; simpl. apply rearm_threads_idle; auto.
  - unfold rearm; simpl. apply lock_free_outside; auto. intros t th Hn. rewrite (Hidle th (nth_error_In _ _ Hn)). reflexivity.
Qed.

Lemma rearm_done : forall st segs, all_done st = true -> forallb seg_empty segs = true -> all_done (rearm st segs) = true.
Proof.
  intros st segs Hd He. unfold all_done, rearm in *; simpl.
  destruct (st_threads st) as [|th0 tr]; destruct segs as [|s0 sr]; simpl in *; auto.
  apply andb_true_iff in He. destruct He as (H0 & Hr). destruct s0; [|discriminate]. simpl.
  apply forallb_forall. intros th Hin. apply in_map_iff in Hin. destruct Hin as ((th1, sg) & <- & Hin).
  apply in_combine_r in Hin. rewrite forallb_forall in Hr. specialize (Hr sg Hin). destruct sg; [reflexivity|discriminate].
Qed.

Lemma map_combine_fst : forall A B C (f : A -> C) (a : list A) (b : list B), length a = length b ->
  map (fun p => f (fst p)) (combine a b) = map f a.
Proof.
  induction a as [|x a IH]; destruct b as [|y b]; simpl; intros H; try discriminate; auto. f_equal. apply IH. lia.
Qed.

Lemma sum_allocs_as_map : forall ths, sum_allocs ths = fold_right N.add 0%N (map (fun th => l_allocs (th_loc th)) ths).
Proof. induction ths as [|th r IH]; simpl; auto. rewrite IH. reflexivity. Qed.

Lemma rearm_sum_allocs : forall ths segs, length segs = length ths -> sum_allocs (rearm_threads ths segs) = sum_allocs ths.
Proof.
  intros ths segs Hl. rewrite !sum_allocs_as_map. f_equal.
  destruct ths as [|th0 tr]; destruct segs as [|s0 sr]; simpl in *; auto. f_equal.
  rewrite map_map. simpl. apply (map_combine_fst _ _ _ (fun th => l_allocs (th_loc th))). lia.
Qed.

Lemma rearm_threads_length : forall ths segs, length segs = length ths -> length (rearm_threads ths segs) = length ths.
Proof.
  intros ths segs Hl. destruct ths as [|th0 tr]; destruct segs as [|s0 sr]; simpl in *; auto.
  rewrite map_length, combine_length_eq; lia.
Qed.

Lemma nth_rearm_tail : forall (tr : list thread) (sr : list (list op)) i th',
  nth_error (map (fun p => mk_thread (snd p) PIdle (th_loc (fst p)) false) (combine tr sr)) i = Some th' ->
  exists th sg, nth_error tr i = Some th /\ nth_error sr i = Some sg /\ th' = mk_thread sg PIdle (th_loc th) false.
Proof.
  intros tr sr i th' H. rewrite nth_error_map in H. destruct (nth_error (combine tr sr) i) as [[th sg]|] eqn:E; [|discriminate].
  apply nth_error_combine in E. destruct E as (E1 & E2). simpl in H. inversion H. exists th, sg. auto.
Qed.

Lemma nth_extend_tail : forall (cr sr : list (list op)) i sc',
  nth_error (map (fun p => fst p ++ snd p) (combine cr sr)) i = Some sc' ->
  exists c sg, nth_error cr i = Some c /\ nth_error sr i = Some sg /\ sc' = c ++ sg.
Proof.
  intros cr sr i sc' H. rewrite nth_error_map in H. destruct (nth_error (combine cr sr) i) as [[c sg]|] eqn:E; [|discriminate].
  apply nth_error_combine in E. destruct E as (E1 & E2). simpl in H. inversion H. exists c, sg. auto.
Qed.

Lemma agree_next_test : forall t L tb, agree t L tb -> agree t (next_test L) tb.
Proof. intros t L tb H k. apply H. Qed.

Lemma rearm_datainv : forall cum st segs,
  LockInv st -> DataInv cum st -> all_done st = true ->
  length segs = length cum -> scripts_ok (extend cum segs) = true ->
  DataInv (extend cum segs) (rearm st segs).
Proof.
  intros cum st segs I D Hd Hl Hok.
  destruct (scripts_ok_extend cum segs Hl Hok) as (Hcum & Hsegs).
  pose proof (di_len _ _ D) as Hlen.
  destruct (scripts_ok_inv _ Hcum) as (c0 & cr & Ecum & Hc0 & Hcr).
  destruct segs as [|s0 sr]; [rewrite Ecum in Hl; discriminate|].
  destruct (st_threads st) as [|th0 tr] eqn:Eths; [rewrite Ecum in Hlen; discriminate|].
  assert (Hloc : forall t th sc, nth_error (st_threads st) t = Some th -> nth_error cum t = Some sc -> th_loc th = final_local sc).
  { intros t th sc. apply (final_loc cum st D Hd). }
  rewrite Ecum in Hsegs. simpl in Hsegs. destruct Hsegs as (Hs0 & Hsr).
  assert (Hl0 : th_loc th0 = final_local c0).
  { apply (Hloc 0); [rewrite Eths|rewrite Ecum]; reflexivity. }
  assert (Hlw : forall i th c, nth_error tr i = Some th -> nth_error cr i = Some c -> th_loc th = final_local c).
  { intros i th c H1 H2. apply (Hloc (S i)); [rewrite Eths|rewrite Ecum]; auto. }
  assert (Hlsr : length sr = length tr).
  { rewrite Ecum in Hl. rewrite Ecum in Hlen. simpl in Hl, Hlen. lia. }
  assert (Hlcr : length cr = length tr). { rewrite Ecum in Hlen. simpl in Hlen. lia. }
  constructor.
  - (* as many threads as scripts *)
    unfold rearm. cbn [st_threads mk_state]. rewrite Eths. rewrite rearm_threads_length by (simpl; lia).
    rewrite extend_length_eq by auto. rewrite <- Hlen. reflexivity.
  - (* each thread's future is the textbook reading of its whole script *)
    intros t th' sc' Hn Hsc. unfold rearm in Hn. cbn [st_threads mk_state] in Hn. rewrite Eths in Hn. rewrite Ecum in Hsc.
    destruct t as [|i]; simpl in Hn, Hsc.
    + inversion Hn; subst th'. inversion Hsc; subst sc'.
      unfold future, cont. simpl. unfold final_local. rewrite lrun_join0. rewrite Hl0. reflexivity.
    + destruct (nth_rearm_tail _ _ _ _ Hn) as (th & sg & H1 & H2 & ->).
      destruct (nth_extend_tail _ _ _ _ Hsc) as (c & sg' & H3 & H4 & ->).
      assert (sg' = sg) by congruence. subst sg'.
      unfold future, cont. simpl. unfold final_local. rewrite lrun_app_w.
      * rewrite (Hlw i th c H1 H3). reflexivity.
      * apply Hcr. eapply nth_error_In; eauto.
  - (* what is left of each script is well-formed from where the thread stands *)
    intros t th' Hn. unfold rearm in Hn. cbn [st_threads mk_state] in Hn. rewrite Eths in Hn.
    destruct t as [|i]; simpl in Hn.
    + inversion Hn; subst th'. exists true. unfold ok_from, cont. simpl. rewrite Hl0. exact Hs0.
    + destruct (nth_rearm_tail _ _ _ _ Hn) as (th & sg & H1 & H2 & ->).
      assert (Hi : i < length cr). { rewrite Hlcr. apply nth_error_Some. congruence. }
      destruct (nth_error cr i) as [c|] eqn:H3; [|apply nth_error_None in H3; lia].
      exists false. unfold ok_from, cont. simpl. rewrite (Hlw i th c H1 H3). eapply Hsr; eauto.
  - (* the table still agrees with what each thread holds *)
    intros t th' Hn. unfold rearm in Hn |- *. cbn [st_threads st_sh mk_state] in Hn |- *. rewrite Eths in Hn.
    destruct t as [|i]; simpl in Hn.
    + inversion Hn; subst th'. simpl. apply agree_next_test. apply (di_agree _ _ D 0 th0). rewrite Eths. reflexivity.
    + destruct (nth_rearm_tail _ _ _ _ Hn) as (th & sg & H1 & H2 & ->). simpl.
      apply (di_agree _ _ D (S i) th). rewrite Eths. exact H1.
  - unfold rearm. cbn [st_threads st_sh mk_state]. rewrite Eths. rewrite rearm_threads_length by (simpl; lia).
    rewrite <- Eths. apply (di_tbl _ _ D).
  - unfold rearm. cbn [st_threads st_sh st_outallocs mk_state]. rewrite Eths. rewrite rearm_sum_allocs by (simpl; lia).
    rewrite <- Eths. apply (di_count _ _ D).
Qed.

(* ================================================================ 5. one epoch, all epochs *)
(* between two epochs: every thread has finished its script so far *)
Record EpInv (cum : list (list op)) (p : progress) : Prop := {
  ei_lock : LockInv (pr_st p);
  ei_data : DataInv cum (pr_st p);
  ei_done : all_done (pr_st p) = true;
  ei_peak : pr_peak p <= 1 }.
(* at the start of an epoch: the wiring is fully locked, or no thread has anything to run *)
Record Armed (cum : list (list op)) (p : progress) : Prop := {
  ar_lock : LockInv (pr_st p);
  ar_data : DataInv cum (pr_st p);
  ar_peak : pr_peak p <= 1;
  ar_mode : wiring_ok (sw_cur (pr_sw p)) = true \/ all_done (pr_st p) = true }.

Lemma run_epoch_inv : forall oa cum pa sched, Armed cum pa -> EpInv cum (run_epoch oa true pa sched).
Proof.
  intros oa cum pa sched [I D Hpk Hm]. unfold run_epoch. set (c := sw_cfg oa true (pr_sw pa)).
  destruct Hm as [Hw|Hd].
  - assert (Hg : wiring_good c) by (apply wiring_ok_good; exact Hw).
    pose proof (wiring_good_all_lock _ Hg) as Hl.
    destruct (both_exec c Hg eq_refl cum sched (pr_st pa) I D) as (I1 & D1).
    destruct (complete_done c Hl eq_refl _ I1) as (Hd & I2).
    constructor; simpl; auto.
    + unfold complete. apply (both_drain c Hg eq_refl cum); auto.
    + apply Nat.max_lub; auto. apply (run_peak_le_1 c Hl eq_refl); auto.
  - constructor; simpl.
    + rewrite exec_done, complete_of_done by auto. auto.
    + rewrite exec_done, complete_of_done by auto. auto.
    + rewrite exec_done, complete_of_done by auto. auto.
    + apply Nat.max_lub; auto. rewrite run_peak_done by auto. apply occupancy_le_1; auto.
Qed.

Lemma exec_in_epoch : forall oa cum pa sched, Armed cum pa ->
  let c := sw_cfg oa true (pr_sw pa) in
  LockInv (exec c sched (pr_st pa)) /\ DataInv cum (exec c sched (pr_st pa))
  /\ all_done (complete c (exec c sched (pr_st pa))) = true
  /\ run_peak c sched (pr_st pa) <= 1.
Proof.
  intros oa cum pa sched [I D Hpk Hm] c. destruct Hm as [Hw|Hd].
  - assert (Hg : wiring_good c) by (apply wiring_ok_good; exact Hw).
    pose proof (wiring_good_all_lock _ Hg) as Hl.
    destruct (both_exec c Hg eq_refl cum sched (pr_st pa) I D) as (I1 & D1).
    destruct (complete_done c Hl eq_refl _ I1) as (Hd & I2).
    split; [exact I1|]. split; [exact D1|]. split; [exact Hd|]. apply (run_peak_le_1 c Hl eq_refl); auto.
  - rewrite exec_done, complete_of_done by auto. split; [exact I|]. split; [exact D|]. split; [exact Hd|].
    rewrite run_peak_done by auto. apply occupancy_le_1; auto.
Qed.

Definition item_ok (f : bool) (x : N * N) : bool :=
  if f then N.eqb (snd x) (fst x) && (N.of_nat probe_calls <=? fst x)%N else true.

Lemma epochs_ok_snoc : forall flags counts f x, epochs_ok flags counts = true -> item_ok f x = true ->
  epochs_ok (flags ++ [f]) (counts ++ [x]) = true.
Proof.
  induction flags as [|g fr IH]; destruct counts as [|[a b] cr]; simpl; intros f x H Hx; try discriminate.
  - destruct x as [a b]. unfold item_ok in Hx. simpl in Hx. rewrite Hx. reflexivity.
  - apply andb_true_iff in H. destruct H as (H1 & H2). rewrite H1. simpl. apply IH; auto.
Qed.

Lemma run_epoch_counts : forall oa pa sched f,
  (f = true -> wiring_ok (sw_cur (pr_sw pa)) = true) ->
  exists x, pr_counts (run_epoch oa true pa sched) = pr_counts pa ++ [x] /\ item_ok f x = true.
Proof.
  intros oa pa sched f Hf. unfold run_epoch. simpl. eexists. split; [reflexivity|].
  destruct f; [|reflexivity].
  destruct (epoch_counts_locked (sw_cfg oa true (pr_sw pa)) sched (pr_st pa)) as (calls & -> & Hc).
  { apply wiring_ok_good. apply Hf. reflexivity. }
  unfold item_ok. simpl. rewrite N.eqb_refl. simpl. apply N.leb_le. exact Hc.
Qed.

(* the threads are armed for epoch e after the epochs with history h: the invariants hold and the mode is settled *)
Lemma arm_inv : forall cum h p e,
  EpInv cum p -> pr_sw p = sw_run h ->
  length (ep_scripts e) = length cum -> hist_ok (h ++ ep_sw e) 0 = true ->
  (doc_safe (h ++ ep_sw e) || forallb seg_empty (ep_scripts e)) = true ->
  scripts_ok (extend cum (ep_scripts e)) = true ->
  Armed (extend cum (ep_scripts e)) (arm sw_step p e)
  /\ pr_sw (arm sw_step p e) = sw_run (h ++ ep_sw e)
  /\ (doc_safe (h ++ ep_sw e) = true -> wiring_ok (sw_cur (pr_sw (arm sw_step p e))) = true).
Proof.
  intros cum h p e [I D Hd Hpk] Hsw Hl Hh Hmode Hok.
  assert (Esw : pr_sw (arm sw_step p e) = sw_run (h ++ ep_sw e)).
  { unfold arm; simpl. rewrite Hsw. unfold sw_run. rewrite fold_left_app. reflexivity. }
  assert (Hsafe : doc_safe (h ++ ep_sw e) = true -> wiring_ok (sw_cur (pr_sw (arm sw_step p e))) = true).
  { intros Hs. rewrite Esw. rewrite (switches_keep_thread_safe _ Hh Hs). exact ts_wiring_ok. }
  split; [|split; auto].
  constructor.
  - unfold arm; simpl. apply rearm_lockinv; auto.
  - unfold arm; simpl. apply rearm_datainv; auto.
  - unfold arm; simpl. auto.
  - apply orb_true_iff in Hmode. destruct Hmode as [Hs|He]; [left; auto|right].
    unfold arm; simpl. apply rearm_done; auto.
Qed.

Lemma more_ok_cons : forall n h e r, more_ok n h (e :: r) = true ->
  length (ep_scripts e) = n /\ hist_ok (h ++ ep_sw e) 0 = true
  /\ (doc_safe (h ++ ep_sw e) || forallb seg_empty (ep_scripts e)) = true /\ more_ok n (h ++ ep_sw e) r = true.
Proof.
  intros n h e r H. simpl in H. repeat (apply andb_true_iff in H; destruct H as (H & ?)).
  apply Nat.eqb_eq in H. auto.
Qed.

Lemma scripts_ok_head : forall cum e r n h, length cum = n -> more_ok n h (e :: r) = true ->
  scripts_ok (fold_left extend (map ep_scripts (e :: r)) cum) = true ->
  scripts_ok (extend cum (ep_scripts e)) = true /\ length (extend cum (ep_scripts e)) = n.
Proof.
  intros cum e r n h Hn Hm Hok. destruct (more_ok_cons _ _ _ _ Hm) as (Hl & _ & _ & Hr).
  assert (Hlen : length (extend cum (ep_scripts e)) = n) by (rewrite extend_length_eq; congruence).
  split; auto. simpl in Hok.
  apply (scripts_ok_fold_first (map ep_scripts r) (extend cum (ep_scripts e))); auto.
  rewrite Hlen. eapply more_ok_lengths; eauto.
Qed.

Lemma run_more_inv : forall oa eps cum h p flags n,
  EpInv cum p -> pr_sw p = sw_run h -> epochs_ok flags (pr_counts p) = true ->
  length cum = n -> more_ok n h eps = true ->
  scripts_ok (fold_left extend (map ep_scripts eps) cum) = true ->
  EpInv (fold_left extend (map ep_scripts eps) cum) (run_more sw_step oa true p eps)
  /\ epochs_ok (flags ++ doc_flags_from h eps) (pr_counts (run_more sw_step oa true p eps)) = true.
Proof.
  intros oa. induction eps as [|e r IH]; intros cum h p flags n Hi Hsw Hc Hn Hm Hok.
  - simpl. rewrite app_nil_r. auto.
  - destruct (more_ok_cons _ _ _ _ Hm) as (Hl & Hh & Hmode & Hr).
    destruct (scripts_ok_head _ _ _ _ _ Hn Hm Hok) as (Hok1 & Hn1).
    assert (Hl' : length (ep_scripts e) = length cum) by congruence.
    destruct (arm_inv cum h p e Hi Hsw Hl' Hh Hmode Hok1) as (Ha & Esw & Hsafe).
    simpl. rewrite (ei_done _ _ Hi).
    pose proof (run_epoch_inv oa _ _ (ep_sched e) Ha) as Hi1.
    destruct (run_epoch_counts oa (arm sw_step p e) (ep_sched e) (doc_safe (h ++ ep_sw e)) Hsafe) as (x & Ex & Hx).
    assert (Hc1 : epochs_ok (flags ++ [doc_safe (h ++ ep_sw e)]) (pr_counts (run_epoch oa true (arm sw_step p e) (ep_sched e))) = true).
    { rewrite Ex. apply epochs_ok_snoc; auto. }
    destruct (IH (extend cum (ep_scripts e)) (h ++ ep_sw e) (run_epoch oa true (arm sw_step p e) (ep_sched e))
                 (flags ++ [doc_safe (h ++ ep_sw e)]) n Hi1 Esw Hc1 Hn1 Hr Hok) as (R1 & R2).
    split; [exact R1|]. rewrite <- app_assoc in R2. exact R2.
Qed.

(* the first epoch: straight after turnOnThreadSafeNewDeleteOverloads *)
Lemma first_armed : forall s, valid s = true -> Armed (sc_scripts s) (first_progress ts_table s).
Proof.
  intros s Hv. constructor; simpl.
  - apply lockinv_init.
  - apply datainv_init. apply valid_first; auto.
  - lia.
  - left. exact ts_wiring_ok.
Qed.

Lemma run_meets_spec : forall s, valid s = true -> spec s (run s) = true.
Proof.
  intros s Hv. destruct (valid_parts s Hv) as (Hm & Hok).
  unfold run, run_with, run_gen.
  set (p0 := run_epoch (sc_outalloc s) true (first_progress ts_table s) (sc_sched s)).
  pose proof (run_epoch_inv (sc_outalloc s) _ _ (sc_sched s) (first_armed s Hv)) as Hi0. fold p0 in Hi0.
  destruct (run_epoch_counts (sc_outalloc s) (first_progress ts_table s) (sc_sched s) true (fun _ => ts_wiring_ok)) as (x & Ex & Hx).
  fold p0 in Ex.
  assert (Hc0 : epochs_ok [true] (pr_counts p0) = true).
  { rewrite Ex. apply (epochs_ok_snoc [] [] true x); auto. }
  destruct (run_more_inv (sc_outalloc s) (sc_more s) (sc_scripts s) [] p0 [true] (length (sc_scripts s)) Hi0 eq_refl Hc0 eq_refl Hm Hok)
    as (Hi & Hc).
  unfold spec. apply andb_true_iff. split.
  - unfold observe, n_tests. destruct Hi as [I D Hd Hpk]. apply final_meets_spec; auto.
  - exact Hc.
Qed.

(* ================================================================ 6. other schedules *)
Lemma resched_more_scripts : forall eps scheds, map ep_scripts (resched_more eps scheds) = map ep_scripts eps.
Proof. induction eps as [|e r IH]; simpl; intros; auto. rewrite IH. reflexivity. Qed.
Lemma resched_more_flags : forall eps scheds h, doc_flags_from h (resched_more eps scheds) = doc_flags_from h eps.
Proof. induction eps as [|e r IH]; simpl; intros; auto. rewrite IH. reflexivity. Qed.
Lemma resched_more_ok : forall eps scheds n h, more_ok n h (resched_more eps scheds) = more_ok n h eps.
Proof. induction eps as [|e r IH]; simpl; intros; auto. rewrite IH. reflexivity. Qed.
Lemma resched_more_length : forall eps scheds, length (resched_more eps scheds) = length eps.
Proof. induction eps as [|e r IH]; simpl; intros; auto. Qed.

Lemma resched_whole : forall s sched scheds, whole_scripts (resched s sched scheds) = whole_scripts s.
Proof. intros. unfold whole_scripts, resched. simpl. rewrite resched_more_scripts. reflexivity. Qed.
Lemma resched_valid : forall s sched scheds, valid (resched s sched scheds) = valid s.
Proof.
  intros. unfold valid. rewrite resched_whole. unfold resched at 1 2 3 4. simpl.
  rewrite resched_more_length, resched_more_ok. reflexivity.
Qed.
Lemma resched_spec : forall s sched scheds o, spec (resched s sched scheds) o = spec s o.
Proof.
  intros. unfold spec. rewrite resched_whole. unfold doc_flags, resched. simpl. rewrite resched_more_flags. reflexivity.
Qed.

Lemma schedule_independent : forall s sched scheds, valid s = true -> spec s (run (resched s sched scheds)) = true.
Proof.
  intros s sched scheds Hv. rewrite <- (resched_spec s sched scheds). apply run_meets_spec. rewrite resched_valid. exact Hv.
Qed.

Definition incl_b (a b : list (nat * nat * N)) : bool := forallb (fun x => existsb (triple_eqb x) b) a.
Lemma triple_eqb_eq : forall a b, triple_eqb a b = true -> a = b.
Proof.
  intros [[t k] z] [[t' k'] z'] H. simpl in H. apply andb_true_iff in H. destruct H as (H & H3). apply andb_true_iff in H. destruct H as (H1 & H2).
  apply Nat.eqb_eq in H1. apply Nat.eqb_eq in H2. apply N.eqb_eq in H3. congruence.
Qed.
Lemma incl_b_incl : forall a b, incl_b a b = true -> incl a b.
Proof.
  intros a b H x Hx. unfold incl_b in H. rewrite forallb_forall in H. specialize (H x Hx). apply existsb_exists in H.
  destruct H as (y & Hy & E). apply triple_eqb_eq in E. congruence.
Qed.
Lemma list_bool_eqb_eq : forall a b, list_bool_eqb a b = true -> a = b.
Proof.
  induction a; destruct b; simpl; intros H; try discriminate; auto.
  apply andb_true_iff in H. destruct H as (H1 & H2). apply Bool.eqb_prop in H1. f_equal; auto.
Qed.

(* two choices of schedules for one scenario: same verdicts, same number of allocations, same outstanding set *)
Lemma two_schedules : forall s sched1 scheds1 sched2 scheds2, valid s = true ->
  let o1 := run (resched s sched1 scheds1) in
  let o2 := run (resched s sched2 scheds2) in
  o_verdicts o1 = o_verdicts o2 /\ o_adv o1 = o_adv o2 /\ incl (o_entries o1) (o_entries o2) /\ incl (o_entries o2) (o_entries o1).
Proof.
  intros s sched1 scheds1 sched2 scheds2 Hv o1 o2.
  pose proof (schedule_independent s sched1 scheds1 Hv) as S1. pose proof (schedule_independent s sched2 scheds2 Hv) as S2.
  fold o1 in S1. fold o2 in S2. unfold spec in S1, S2.
  apply andb_true_iff in S1. destruct S1 as (S1 & _). apply andb_true_iff in S2. destruct S2 as (S2 & _).
  unfold spec_core, same_set in S1, S2.
  repeat (apply andb_true_iff in S1; destruct S1 as (S1 & ?)).
  repeat (apply andb_true_iff in S2; destruct S2 as (S2 & ?)).
  repeat match goal with H : _ && _ = true |- _ => apply andb_true_iff in H; destruct H end.
  repeat match goal with H : list_bool_eqb _ _ = true |- _ => apply list_bool_eqb_eq in H end.
  repeat match goal with H : N.eqb _ _ = true |- _ => apply N.eqb_eq in H end.
  repeat match goal with H : forallb _ _ = true |- _ => apply (incl_b_incl _ _) in H end.
  split; [congruence|]. split; [congruence|]. split; eapply incl_tran; eauto.
Qed.

(* ================================================================ 7. every state of every epoch *)
(* the start of the epoch that follows the epochs run with the schedules given (one per epoch run; the first epoch's first) *)
Fixpoint arm_more (oa : bool) (p : progress) (eps : list epoch) (scheds : list (list nat)) : option progress :=
  match eps with
  | [] => None
  | e :: r => match scheds with
              | [] => Some (arm sw_step p e)
              | sch :: more => arm_more oa (run_epoch oa true (arm sw_step p e) sch) r more
              end
  end.
Definition epoch_start (s : scenario) (scheds : list (list nat)) : option progress :=
  match scheds with
  | [] => Some (first_progress ts_table s)
  | sch :: more => arm_more (sc_outalloc s) (run_epoch (sc_outalloc s) true (first_progress ts_table s) sch) (sc_more s) more
  end.

Lemma arm_more_inv : forall oa eps scheds cum h p pa n,
  EpInv cum p -> pr_sw p = sw_run h -> length cum = n -> more_ok n h eps = true ->
  scripts_ok (fold_left extend (map ep_scripts eps) cum) = true ->
  arm_more oa p eps scheds = Some pa -> exists cum', Armed cum' pa.
Proof.
  intros oa. induction eps as [|e r IH]; intros scheds cum h p pa n Hi Hsw Hn Hm Hok Hs; [discriminate|].
  destruct (more_ok_cons _ _ _ _ Hm) as (Hl & Hh & Hmode & Hr).
  destruct (scripts_ok_head _ _ _ _ _ Hn Hm Hok) as (Hok1 & Hn1).
  assert (Hl' : length (ep_scripts e) = length cum) by congruence.
  destruct (arm_inv cum h p e Hi Hsw Hl' Hh Hmode Hok1) as (Ha & Esw & _).
  simpl in Hs. destruct scheds as [|sch more].
  - inversion Hs; subst. eauto.
  - apply (IH more (extend cum (ep_scripts e)) (h ++ ep_sw e) (run_epoch oa true (arm sw_step p e) sch) pa n); auto.
    apply run_epoch_inv; auto.
Qed.

Lemma epoch_start_armed : forall s scheds pa, valid s = true -> epoch_start s scheds = Some pa -> exists cum, Armed cum pa.
Proof.
  intros s scheds pa Hv Hs. destruct (valid_parts s Hv) as (Hm & Hok).
  destruct scheds as [|sch more]; simpl in Hs.
  - inversion Hs; subst. exists (sc_scripts s). apply first_armed; auto.
  - apply (arm_more_inv (sc_outalloc s) (sc_more s) more (sc_scripts s) []
                         (run_epoch (sc_outalloc s) true (first_progress ts_table s) sch) pa (length (sc_scripts s))); auto.
    apply run_epoch_inv. apply first_armed; auto.
Qed.

(* in every epoch of a valid scenario, whatever the schedules so far and the schedule within it: mutual exclusion, what was
   read is current at the write, the lock only with a thread inside a wrapper, at most one thread in the locked region, and
   the epoch can be run to its end *)
Lemma every_epoch : forall s scheds pa sched, valid s = true -> epoch_start s scheds = Some pa ->
  let c := sw_cfg (sc_outalloc s) true (pr_sw pa) in
  let st := exec c sched (pr_st pa) in
  (forall t1 t2 th1 th2, nth_error (st_threads st) t1 = Some th1 -> nth_error (st_threads st) t2 = Some th2 ->
                          in_cs (th_phase th1) = true -> in_cs (th_phase th2) = true -> t1 = t2)
  /\ (forall t th snap, nth_error (st_threads st) t = Some th -> th_phase th = PRead snap -> snap = st_sh st)
  /\ (forall t th, nth_error (st_threads st) t = Some th -> in_cs (th_phase th) = false -> st_lock st <> LHeld t)
  /\ occupancy st <= 1 /\ run_peak c sched (pr_st pa) <= 1
  /\ all_done (complete c st) = true.
Proof.
  intros s scheds pa sched Hv Hs c st. destruct (epoch_start_armed s scheds pa Hv Hs) as (cum & Ha).
  destruct (exec_in_epoch (sc_outalloc s) cum pa sched Ha) as (I & D & Hd & Hpk). fold c in I, D, Hd, Hpk. fold st in I, D, Hd.
  split; [intros; eapply mutex_of_inv; eauto|].
  split; [intros; eapply li_snap; eauto|].
  split. { intros t th Hn Hc E. destruct (li_held _ I _ E) as (th' & Hn' & Hc'). congruence. }
  split; [apply occupancy_le_1; auto|]. split; auto.
Qed.

(* ================================================================ 8. examples and the refuted variant *)
(* two threads; epoch 1 after saveAndDisable / restore; epoch 2 after a nested pair and turnOff / turnOnThreadSafe; epoch 3
   under the default overloads (nothing runs: the negative control); epoch 4 thread-safe again, the test thread misuses *)
Definition sw_scenario : scenario :=
  {| sc_outalloc := true;
     sc_scripts := [ [OAlloc 0 16 EMalloc]; [OAlloc 0 8 ENewArr] ];
     sc_sched := [1; 0; 0; 1];
     sc_more :=
       [ {| ep_sw := [SwSave; SwRestore];
            ep_scripts := [ [ORealloc 0 32; OAlloc 1 4 ENew]; [OFree 0 EDeleteArr; OAlloc 1 8 EMalloc] ];
            ep_sched := [0; 1; 1; 0; 0; 1] |};
         {| ep_sw := [SwSave; SwSave; SwRestore; SwRestore; SwOff; SwSafe];
            ep_scripts := [ [OFree 1 EDelete]; [ORealloc 1 64] ];
            ep_sched := [1; 1; 0] |};
         {| ep_sw := [SwDefault]; ep_scripts := [ []; [] ]; ep_sched := [0; 1] |};
         {| ep_sw := [SwSave; SwRestore; SwSafe];
            ep_scripts := [ [OOverrun 0; OFree 0 EFree; OAlloc 2 1 ENew; OBoundary; OAlloc 3 2 ENewArr]; [OFree 1 EFree] ];
            ep_sched := [0; 0; 1; 0] |} ] |}.

Lemma sw_valid : valid sw_scenario = true.
Proof. vm_compute. reflexivity. Qed.
Lemma sw_run_obs :
  o_done (run sw_scenario) = true
  /\ o_verdicts (run sw_scenario) = [false; false; false; false; true; false]
  /\ o_epochs (run sw_scenario) = [(17, 17); (19, 19); (17, 17); (15, 0); (20, 20)]%N
  /\ doc_flags sw_scenario = [true; true; true; false; true]
  /\ o_entries (run sw_scenario) = [(0, 3, 2%N)].
Proof. vm_compute. repeat split; reflexivity. Qed.

Lemma sw_hist_example : hist_ok [SwSave; SwSave; SwRestore; SwRestore; SwOff; SwSafe; SwSave; SwRestore] 0 = true
  /\ doc_safe [SwSave; SwSave; SwRestore; SwRestore; SwOff; SwSafe; SwSave; SwRestore] = true.
Proof. vm_compute. split; reflexivity. Qed.

Lemma sw_epoch_example : exists pa, epoch_start sw_scenario [[1; 0; 0; 1]; []] = Some pa
                                    /\ occupancy (exec (sw_cfg true true (pr_sw pa)) [1; 1] (pr_st pa)) = 1.
Proof. eexists. split. vm_compute. reflexivity. vm_compute. reflexivity. Qed.

(* save / restore that remember only "the overloads were on" and bring the default overloads back (seeded change C10-2 of
   round 4): the claim "the switches keep the thread-safe overloads" is false of it, and so is the oracle *)
Definition switches_old_stmt : Prop :=
  forall h, hist_ok h 0 = true -> doc_safe h = true -> sw_cur (fold_left sw_step_old h (sw_start ts_table)) = ts_table.
Lemma switches_old_refuted : ~ switches_old_stmt.
Proof.
  intros H. specialize (H [SwSave; SwRestore] eq_refl eq_refl). vm_compute in H. discriminate.
Qed.

Definition sw_min_scenario : scenario :=
  {| sc_outalloc := false; sc_scripts := [ [] ]; sc_sched := [];
     sc_more := [ {| ep_sw := [SwSave; SwRestore]; ep_scripts := [ [] ]; ep_sched := [] |} ] |}.
Definition run_swold_stmt : Prop := forall s, valid s = true -> spec s (run_swold s) = true.
Lemma run_swold_refuted : ~ run_swold_stmt.
Proof. intros H. specialize (H sw_min_scenario eq_refl). vm_compute in H. discriminate. Qed.
Lemma sw_min_obs : o_epochs (run sw_min_scenario) = [(15, 15); (15, 15)]%N /\ o_epochs (run_swold sw_min_scenario) = [(15, 15); (15, 0)]%N.
Proof. vm_compute. split; reflexivity. Qed.

(* ================================================================ 9. the statements about calls and the lock, unfolded *)
Lemma epochs_ok_nth : forall flags counts i, epochs_ok flags counts = true -> nth i flags false = true ->
  exists calls, nth_error counts i = Some (calls, calls) /\ (N.of_nat probe_calls <= calls)%N.
Proof.
  induction flags as [|f fr IH]; intros counts i H Hn.
  - destruct i; discriminate.
  - destruct counts as [|[calls locked] cr]; [discriminate|]. simpl in H. apply andb_true_iff in H. destruct H as (H1 & H2).
    destruct i as [|i]; simpl in Hn.
    + subst f. apply andb_true_iff in H1. destruct H1 as (E & L). apply N.eqb_eq in E. apply N.leb_le in L. subst locked.
      exists calls. split; auto.
    + simpl. apply IH; auto.
Qed.

Lemma every_call_locked :
  (forall c sched st, wiring_ok (cfg_wiring c) = true ->
     exists calls, epoch_counts c sched st = (calls, calls) /\ (N.of_nat probe_calls <= calls)%N)
  /\ (forall s sched scheds i, valid s = true -> nth i (doc_flags s) false = true ->
        exists calls, nth_error (o_epochs (run (resched s sched scheds))) i = Some (calls, calls)
                      /\ (N.of_nat probe_calls <= calls)%N).
Proof.
  split.
  - intros c sched st Hw. apply epoch_counts_locked. apply wiring_ok_good; auto.
  - intros s sched scheds i Hv Hn. pose proof (schedule_independent s sched scheds Hv) as H.
    unfold spec in H. apply andb_true_iff in H. destruct H as (_ & H). eapply epochs_ok_nth; eauto.
Qed.

Lemma switches_theorem : forall h, hist_ok h 0 = true ->
  sw_cur (sw_run h) = table_of (doc_mode h) /\ (doc_safe h = true -> sw_cur (sw_run h) = ts_table /\ wiring_ok (sw_cur (sw_run h)) = true).
Proof.
  intros h Hok. split; [apply switches_mean; auto|]. intros Hs. rewrite (switches_keep_thread_safe h Hok Hs). split; [reflexivity|exact ts_wiring_ok].
Qed.
