(* C13 -- allocation pairing: the buffer-management primitives of SimpleString (SimpleString.cpp:235-275) keep
   "bufferSize_ = size the live buffer was requested with", so every buffer goes back to the string allocator exactly once
   and with the size it was requested with -- for every sequence of primitives, hence for every sequence of public
   operations (each public method touches buffer_/bufferSize_ only through these primitives, or allocates a buffer of
   n bytes itself and hands it over with setInternalBufferTo(buffer, n): replace, operator+=). *)
From Coq Require Import NArith Arith Bool List Lia.
Import ListNotations.

Inductive ev := EA (n : nat) | EF (n : nat).           (* allocStringBuffer(n) / deallocStringBuffer(buffer, n) of ONE object's buffer chain *)
Record sobj := { held : option nat;                    (* Some n: buffer_ points to a live block requested with n bytes; None: NULL *)
                 bsz : nat }.                          (* bufferSize_ *)
Definition st := (sobj * list ev)%type.                (* the log is kept newest first *)

Definition deallocateInternalBuffer (s : st) : st :=
  let (o, log) := s in
  match held o with Some _ => ({| held := None; bsz := 0 |}, EF (bsz o) :: log) | None => s end.
Definition setInternalBufferAsEmptyString (s : st) : st :=
  let (o, log) := deallocateInternalBuffer s in ({| held := Some 1; bsz := 1 |}, EA 1 :: log).
Definition copyBufferToNewInternalBuffer (size : nat) (s : st) : st :=
  let (o, log) := deallocateInternalBuffer s in ({| held := Some size; bsz := size |}, EA size :: log).
Definition setInternalBufferToNewBuffer (size : nat) (s : st) : st :=
  let (o, log) := deallocateInternalBuffer s in ({| held := Some size; bsz := size |}, EA size :: log).
(* a caller allocates `asize` bytes and hands the block over as having `size` bytes (replace and += pass the same number) *)
Definition allocThenSetInternalBufferTo (asize size : nat) (s : st) : st :=
  let (o0, log0) := s in
  let (o, log) := deallocateInternalBuffer (o0, EA asize :: log0) in ({| held := Some asize; bsz := size |}, log).

Inductive prim := PEmpty | PCopy (size : nat) | PNew (size : nat) | PHandOver (size : nat) | PDealloc.
Definition step (s : st) (p : prim) : st :=
  match p with
  | PEmpty => setInternalBufferAsEmptyString s
  | PCopy n => copyBufferToNewInternalBuffer n s
  | PNew n => setInternalBufferToNewBuffer n s
  | PHandOver n => allocThenSetInternalBufferTo n n s
  | PDealloc => deallocateInternalBuffer s
  end.
Definition init : st := ({| held := None; bsz := 0 |}, []).
(* life of one object: constructor state, any primitives, destructor *)
Definition life (ps : list prim) : list ev := rev (snd (deallocateInternalBuffer (fold_left step ps init))).

(* the allocator's view of one buffer chain: a block is outstanding or not; a release must name the outstanding size.
   (In the hand-over primitive the new block is requested before the old one is released, so up to two blocks can be
   outstanding; the multiset of outstanding sizes is tracked.) *)
Fixpoint remove1 (n : nat) (l : list nat) : option (list nat) :=
  match l with [] => None | x :: r => if Nat.eqb x n then Some r else option_map (cons x) (remove1 n r) end.
Fixpoint paired_from (live : list nat) (log : list ev) : bool :=
  match log with
  | [] => match live with [] => true | _ => false end
  | EA n :: r => paired_from (n :: live) r
  | EF n :: r => match remove1 n live with Some l => paired_from l r | None => false end
  end.
Definition paired (log : list ev) : bool := paired_from [] log.

(* outstanding blocks after a chronological log, None = some release did not match *)
Fixpoint outstanding (live : list nat) (log : list ev) : option (list nat) :=
  match log with
  | [] => Some live
  | EA n :: r => outstanding (n :: live) r
  | EF n :: r => match remove1 n live with Some l => outstanding l r | None => None end
  end.
Lemma outstanding_app a : forall live b, outstanding live (a ++ b) = match outstanding live a with Some l => outstanding l b | None => None end.
Proof.
  induction a as [|e a IH]; intros live b; [reflexivity|]. destruct e; cbn; [apply IH|].
  destruct (remove1 n live); [apply IH | reflexivity].
Qed.
Lemma paired_outstanding log : forall live, paired_from live log = match outstanding live log with Some [] => true | _ => false end.
Proof.
  induction log as [|e log IH]; intro live; cbn.
  - destruct live; reflexivity.
  - destruct e; [apply IH|]. destruct (remove1 n live); [apply IH | reflexivity].
Qed.

(* invariant: the log is well matched so far and exactly the object's buffer is outstanding, recorded with its true size *)
Definition inv (s : st) : Prop :=
  let (o, log) := s in
  outstanding [] (rev log) = Some (match held o with Some n => [n] | None => [] end) /\
  (forall n, held o = Some n -> bsz o = n).

Lemma inv_init : inv init.
Proof. cbn. split; [reflexivity | discriminate]. Qed.
Lemma inv_dealloc s : inv s -> inv (deallocateInternalBuffer s) /\ held (fst (deallocateInternalBuffer s)) = None.
Proof.
  destruct s as [o log]. unfold inv, deallocateInternalBuffer. intros [H B]. destruct (held o) as [n|] eqn:E.
  - cbn [fst held]. split; [|reflexivity]. split; [|discriminate]. cbn [rev]. rewrite outstanding_app, H. cbn.
    rewrite (B n eq_refl), Nat.eqb_refl. reflexivity.
  - cbn [fst]. split; [split; [rewrite E; exact H | rewrite E; exact B] | exact E].
Qed.
Lemma inv_fresh s size : inv s -> held (fst s) = None ->
  inv ({| held := Some size; bsz := size |}, EA size :: snd s).
Proof.
  destruct s as [o log]. unfold inv. cbn [fst snd held bsz]. intros [H B] E. rewrite E in H. split.
  - cbn [rev]. rewrite outstanding_app, H. reflexivity.
  - intros n Hn. inversion Hn. reflexivity.
Qed.
Lemma inv_step s p : inv s -> inv (step s p).
Proof.
  intro I. destruct p; cbn [step].
  - unfold setInternalBufferAsEmptyString. destruct (inv_dealloc s I) as [I' E].
    destruct (deallocateInternalBuffer s) as [o log] eqn:D. apply (inv_fresh (o, log) 1 I' E).
  - unfold copyBufferToNewInternalBuffer. destruct (inv_dealloc s I) as [I' E].
    destruct (deallocateInternalBuffer s) as [o log] eqn:D. apply (inv_fresh (o, log) size I' E).
  - unfold setInternalBufferToNewBuffer. destruct (inv_dealloc s I) as [I' E].
    destruct (deallocateInternalBuffer s) as [o log] eqn:D. apply (inv_fresh (o, log) size I' E).
  - destruct s as [o log]. unfold allocThenSetInternalBufferTo, deallocateInternalBuffer, inv in *. destruct I as [H B].
    destruct (held o) as [n|] eqn:E.
    + split; [|intros m Hm; inversion Hm; reflexivity]. cbn [held rev]. rewrite <- app_assoc, outstanding_app, H. cbn.
      rewrite (B n eq_refl). destruct (Nat.eqb size n) eqn:Q; [apply Nat.eqb_eq in Q; subst; reflexivity|].
      rewrite Nat.eqb_refl. reflexivity.
    + split; [|intros m Hm; inversion Hm; reflexivity]. cbn [held rev]. rewrite outstanding_app, H. reflexivity.
  - apply inv_dealloc. assumption.
Qed.
Lemma inv_run ps : forall s, inv s -> inv (fold_left step ps s).
Proof. induction ps as [|p ps IH]; intros s I; [assumption|]. cbn. apply IH. apply inv_step. assumption. Qed.

Theorem alloc_pairing ps : paired (life ps) = true.
Proof.
  unfold paired, life. rewrite paired_outstanding.
  destruct (inv_dealloc _ (inv_run ps init inv_init)) as [I E].
  destruct (deallocateInternalBuffer (fold_left step ps init)) as [o log]. cbn [fst snd] in *. unfold inv in I.
  destruct I as [H _]. rewrite H, E. reflexivity.
Qed.

(* a hand-over with a size different from the requested one (what `bufferSize_` bookkeeping errors amount to) is caught *)
Definition step_wrong (s : st) (d : nat) : st := allocThenSetInternalBufferTo 5 (5 + S d) s.
Lemma wrong_size_not_paired d : paired (rev (snd (deallocateInternalBuffer (step_wrong init d)))) = false.
Proof. cbn. destruct d; reflexivity. Qed.
