(* C13 -- proofs: every modelled operation, on well-formed arguments, never leaves its buffers (result is Ok, hence
   not Oob / NoFuel / Ub) and returns the textbook value. *)
From Coq Require Import NArith ZArith Bool List Lia ZifyBool.
From CppUVerif Require Import lib.Str C13_Text C13_Model.
Import ListNotations.
Local Open Scope N_scope.

Arguments diff : simpl never.
Definition NN (s : list N) : Prop := Forall (fun c => c <> 0) s.
Lemma nonul_NN s : nonul s = true -> NN s.
Proof.
  unfold nonul, NN. rewrite forallb_forall, Forall_forall. intros H x Hx. specialize (H x Hx).
  apply andb_true_iff in H. destruct H as [H _]. apply negb_true_iff in H. apply N.eqb_neq in H. exact H.
Qed.
Lemma nonul_bytes s : nonul s = true -> Forall (fun c => c < 256) s.
Proof.
  unfold nonul. rewrite forallb_forall, Forall_forall. intros H x Hx. specialize (H x Hx).
  apply andb_true_iff in H. destruct H as [_ H]. apply N.ltb_lt in H. exact H.
Qed.
Lemma NN_cons c s : NN (c :: s) <-> c <> 0 /\ NN s.
Proof. unfold NN. split; intro H; [inversion H; auto | constructor; tauto]. Qed.
Lemma NN_app a b : NN (a ++ b) <-> NN a /\ NN b.
Proof. unfold NN. apply Forall_app. Qed.
Lemma NN_skipn k s : NN s -> NN (skipn k s).
Proof. intro H. rewrite <- (firstn_skipn k s) in H. apply NN_app in H. tauto. Qed.
Lemma NN_firstn k s : NN s -> NN (firstn k s).
Proof. intro H. rewrite <- (firstn_skipn k s) in H. apply NN_app in H. tauto. Qed.
Lemma NN_cut_nul s : NN s -> cut_nul s = s.
Proof. intro H. apply cut_nul_id. intro I. unfold NN in H. rewrite Forall_forall in H. apply (H 0 I). reflexivity. Qed.
Ltac nz H := let E := fresh "E" in apply N.eqb_neq in H as E; rewrite E; clear E.

(* ---------------- StrLen *)
Lemma StrLen_ok s : forall r, NN s -> StrLen (s ++ 0 :: r) = Ok (length s).
Proof.
  induction s as [|c s IH]; intros r H; cbn; [reflexivity|].
  apply NN_cons in H. destruct H as [Hc Hs]. nz Hc. rewrite (IH r Hs). reflexivity.
Qed.
Lemma StrLen_cs s : NN s -> StrLen (cs s) = Ok (length s).
Proof. apply StrLen_ok. Qed.

(* ---------------- comparisons *)
Lemma sgn_diff x y : Z.sgn (diff x y) = cmp_z (x ?= y).
Proof. unfold diff. destruct (N.compare_spec x y); cbn; lia. Qed.
Lemma diff_zero x y : (diff x y =? 0)%Z = (x =? y).
Proof. unfold diff. lia. Qed.

Lemma StrCmp_ok a : forall b ra rb, NN a -> NN b ->
  exists d, StrCmp (a ++ 0 :: ra) (b ++ 0 :: rb) = Ok d /\ Z.sgn d = cmp_z (str_cmp a b).
Proof.
  induction a as [|x a IH]; intros b ra rb Ha Hb.
  - destruct b as [|y b]; cbn.
    + eexists; split; [reflexivity|reflexivity].
    + eexists; split; [reflexivity|]. apply NN_cons in Hb. rewrite sgn_diff. destruct (N.compare_spec 0 y); cbn; lia.
  - apply NN_cons in Ha. destruct Ha as [Hx Ha]. destruct b as [|y b]; cbn.
    + nz Hx. cbn. replace (x =? 0) with false by lia. cbn. eexists; split; [reflexivity|]. rewrite sgn_diff.
      destruct (N.compare_spec x 0); cbn; lia.
    + apply NN_cons in Hb. destruct Hb as [Hy Hb]. nz Hx. cbn.
      destruct (N.eqb_spec x y) as [->|Hne].
      * rewrite N.compare_refl. apply IH; assumption.
      * eexists; split; [reflexivity|]. rewrite sgn_diff. destruct (x ?= y) eqn:E; try reflexivity.
        apply N.compare_eq in E. contradiction.
Qed.

Lemma StrNCmp_ok n : forall a b ra rb, NN a -> NN b ->
  exists d, StrNCmp (a ++ 0 :: ra) (b ++ 0 :: rb) n = Ok d /\ Z.sgn d = cmp_z (t_ncmp n a b).
Proof.
  unfold t_ncmp. induction n as [|n IH]; intros a b ra rb Ha Hb.
  - cbn. eexists; split; reflexivity.
  - destruct a as [|x a]; destruct b as [|y b]; cbn.
    + eexists; split; reflexivity.
    + eexists; split; [reflexivity|]. apply NN_cons in Hb. rewrite sgn_diff. destruct (N.compare_spec 0 y); cbn; lia.
    + apply NN_cons in Ha. destruct Ha as [Hx Ha]. nz Hx. cbn. replace (x =? 0) with false by lia.
      eexists; split; [reflexivity|]. rewrite sgn_diff. destruct (N.compare_spec x 0); cbn; lia.
    + apply NN_cons in Ha. destruct Ha as [Hx Ha]. apply NN_cons in Hb. destruct Hb as [Hy Hb]. nz Hx. cbn.
      destruct (N.eqb_spec x y) as [->|Hne].
      * rewrite N.compare_refl. apply IH; assumption.
      * eexists; split; [reflexivity|]. rewrite sgn_diff. destruct (x ?= y) eqn:E; try reflexivity.
        apply N.compare_eq in E. contradiction.
Qed.

Lemma MemCmp_ok n : forall a b, (n <= length a)%nat -> (n <= length b)%nat ->
  exists d, MemCmp a b n = Ok d /\ Z.sgn d = cmp_z (t_ncmp n a b).
Proof.
  unfold t_ncmp. induction n as [|n IH]; intros a b Ha Hb.
  - cbn. eexists; split; reflexivity.
  - destruct a as [|x a]; [cbn in Ha; lia|]. destruct b as [|y b]; [cbn in Hb; lia|]. cbn.
    destruct (N.eqb_spec x y) as [->|Hne].
    + rewrite N.compare_refl. apply IH; cbn in *; lia.
    + eexists; split; [reflexivity|]. rewrite sgn_diff. destruct (x ?= y) eqn:E; try reflexivity.
      apply N.compare_eq in E. contradiction.
Qed.

(* StrNCmp against a whole pattern decides "is a prefix" *)
Lemma StrNCmp_prefix b : forall a ra rb, NN a -> NN b ->
  exists d, StrNCmp (a ++ 0 :: ra) (b ++ 0 :: rb) (length b) = Ok d /\ (d =? 0)%Z = is_prefix b a.
Proof.
  induction b as [|y b IH]; intros a ra rb Ha Hb.
  - cbn. eexists; split; reflexivity.
  - apply NN_cons in Hb. destruct Hb as [Hy Hb]. destruct a as [|x a]; cbn.
    + eexists; split; [reflexivity|]. rewrite diff_zero. lia.
    + apply NN_cons in Ha. destruct Ha as [Hx Ha]. nz Hx. cbn. rewrite (N.eqb_sym y x).
      destruct (N.eqb_spec x y) as [->|Hne]; cbn.
      * apply IH; assumption.
      * eexists; split; [reflexivity|]. rewrite diff_zero. lia.
Qed.

(* ---------------- StrStr *)
Lemma StrStr_loop_ok a : forall b ra rb off, NN a -> NN b -> b <> [] ->
  StrStr_loop (a ++ 0 :: ra) (b ++ 0 :: rb) (length b) off = Ok (option_map (fun i => (i + off)%nat) (find_sub a b)).
Proof.
  induction a as [|x a IH]; intros b ra rb off Ha Hb Hne.
  - cbn. destruct b; [contradiction|]. reflexivity.
  - apply NN_cons in Ha as Ha'. destruct Ha' as [Hx Ha']. cbn [app StrStr_loop]. nz Hx.
    destruct (StrNCmp_prefix b (x :: a) ra rb Ha Hb) as [d [Hd Hz]]. cbn [app] in Hd. rewrite Hd. cbn [bind].
    rewrite Hz. cbn [find_sub]. destruct (is_prefix b (x :: a)); [reflexivity|].
    rewrite IH by assumption. destruct (find_sub a b); cbn; [f_equal; f_equal; lia | reflexivity].
Qed.
Lemma StrStr_ok a b ra rb : NN a -> NN b -> StrStr (a ++ 0 :: ra) (b ++ 0 :: rb) = Ok (find_sub a b).
Proof.
  intros Ha Hb. unfold StrStr. destruct b as [|y b].
  - cbn. destruct a; reflexivity.
  - apply NN_cons in Hb as Hb'. destruct Hb' as [Hy Hb']. cbn [app rd bind]. nz Hy.
    change (y :: b ++ 0 :: rb) with ((y :: b) ++ 0 :: rb). rewrite StrLen_ok by assumption. cbn [bind].
    rewrite StrStr_loop_ok by (try assumption; discriminate).
    destruct (find_sub a (y :: b)); cbn; [f_equal; f_equal; lia | reflexivity].
Qed.

(* ---------------- contains / startsWith / endsWith / equal *)
Lemma sgn_zero d c : Z.sgn d = cmp_z c -> (d =? 0)%Z = match c with Eq => true | _ => false end.
Proof. destruct c; cbn; lia. Qed.
Lemma str_cmp_eqb a b : match str_cmp a b with Eq => true | _ => false end = bytes_eqb a b.
Proof.
  destruct (str_cmp a b) eqn:E.
  - apply str_cmp_eq in E. subst. symmetry. apply bytes_eqb_refl.
  - symmetry. apply bytes_eqb_neq. intro H. apply str_cmp_eq in H. congruence.
  - symmetry. apply bytes_eqb_neq. intro H. apply str_cmp_eq in H. congruence.
Qed.
Lemma contains_find s t : contains s t = match find_sub s t with Some _ => true | None => false end.
Proof.
  destruct (find_sub s t) eqn:E.
  - apply find_sub_contains. eauto.
  - destruct (contains s t) eqn:C; [|reflexivity]. apply find_sub_contains in C. destruct C as [i H]. congruence.
Qed.
Lemma contains_ok a b ra rb : NN a -> NN b -> contains_m (a ++ 0 :: ra) (b ++ 0 :: rb) = Ok (contains a b).
Proof. intros. unfold contains_m. rewrite StrStr_ok by assumption. cbn. rewrite contains_find. reflexivity. Qed.
Lemma equal_ok a b ra rb : NN a -> NN b -> equal_m (a ++ 0 :: ra) (b ++ 0 :: rb) = Ok (bytes_eqb a b).
Proof.
  intros Ha Hb. unfold equal_m. destruct (StrCmp_ok a b ra rb Ha Hb) as [d [E S]]. rewrite E. cbn.
  rewrite (sgn_zero _ _ S). rewrite str_cmp_eqb. reflexivity.
Qed.
Lemma find_sub_zero a b : match find_sub a b with Some O => true | _ => false end = is_prefix b a.
Proof.
  destruct a as [|x a]; cbn.
  - destruct (is_prefix b []); reflexivity.
  - destruct (is_prefix b (x :: a)); [reflexivity|]. destruct (find_sub a b); reflexivity.
Qed.
Lemma is_prefix_nil_r b : is_prefix b [] = match b with [] => true | _ => false end.
Proof. destruct b; reflexivity. Qed.
Lemma startsWith_ok a b ra rb : NN a -> NN b -> startsWith_m (a ++ 0 :: ra) (b ++ 0 :: rb) = Ok (is_prefix b a).
Proof.
  intros Ha Hb. unfold startsWith_m. rewrite !StrLen_ok by assumption. cbn [bind].
  destruct b as [|y b]; [reflexivity|]. cbn [length Nat.eqb].
  destruct a as [|x a]; [reflexivity|]. cbn [length Nat.eqb]. rewrite StrStr_ok by assumption. cbn [bind].
  f_equal. apply find_sub_zero.
Qed.
Lemma is_prefix_refl a q : is_prefix a (a ++ q) = true.
Proof. apply is_prefix_spec. eauto. Qed.
Lemma ends_with_skipn a b : (length b <= length a)%nat ->
  t_ends_with a b = bytes_eqb (skipn (length a - length b) a) b.
Proof.
  intro L. unfold t_ends_with. destruct (bytes_eqb (skipn (length a - length b) a) b) eqn:E.
  - apply bytes_eqb_eq in E. apply is_prefix_spec. exists (rev (firstn (length a - length b) a)).
    transitivity (rev (firstn (length a - length b) a ++ skipn (length a - length b) a)).
    + rewrite firstn_skipn. reflexivity.
    + rewrite E, rev_app_distr. reflexivity.
  - apply bytes_eqb_neq in E. destruct (is_prefix (rev b) (rev a)) eqn:P; [|reflexivity]. exfalso. apply E.
    apply is_prefix_spec in P. destruct P as [q Hq]. apply (f_equal (@rev N)) in Hq.
    rewrite rev_involutive, rev_app_distr, rev_involutive in Hq. subst a.
    rewrite app_length. replace (length (rev q) + length b - length b)%nat with (length (rev q)) by lia.
    rewrite skipn_app, skipn_all, Nat.sub_diag. reflexivity.
Qed.
Lemma adv_cs k s r : (k <= length s)%nat -> adv k (s ++ 0 :: r) = Ok (skipn k s ++ 0 :: r).
Proof.
  intro L. unfold adv. rewrite app_length. cbn [length]. replace (Nat.leb k (length s + S (length r))) with true by lia.
  rewrite skipn_app. replace (k - length s)%nat with 0%nat by lia. reflexivity.
Qed.
Lemma endsWith_ok a b ra rb : NN a -> NN b -> endsWith_m (a ++ 0 :: ra) (b ++ 0 :: rb) = Ok (t_ends_with a b).
Proof.
  intros Ha Hb. unfold endsWith_m. rewrite !StrLen_ok by assumption. cbn [bind].
  destruct (Nat.eqb (length b) 0) eqn:Lb.
  - destruct b; [|discriminate Lb]. reflexivity.
  - destruct (Nat.eqb (length a) 0) eqn:La.
    + destruct a; [|discriminate La]. unfold t_ends_with. cbn [rev]. rewrite is_prefix_nil_r.
      destruct b as [|y b]; [discriminate Lb|]. cbn [rev]. destruct (rev b); reflexivity.
    + destruct (Nat.ltb (length a) (length b)) eqn:L.
      * f_equal. unfold t_ends_with. symmetry. destruct (is_prefix (rev b) (rev a)) eqn:P; [|reflexivity].
        apply is_prefix_spec in P. destruct P as [q Hq]. apply (f_equal (@length N)) in Hq.
        rewrite app_length, !rev_length in Hq. lia.
      * rewrite adv_cs by lia. cbn [bind].
        destruct (StrCmp_ok (skipn (length a - length b) a) b ra rb) as [d [E S]];
          [apply NN_skipn; assumption | assumption |].
        rewrite E. cbn [bind]. rewrite (sgn_zero _ _ S), str_cmp_eqb. f_equal. symmetry.
        apply ends_with_skipn. lia.
Qed.

(* ---------------- count *)
Lemma find_sub_lt s : forall b off, s <> [] -> find_sub s b = Some off -> (off < length s)%nat.
Proof.
  induction s as [|x s IH]; intros b off Hne H; [contradiction|]. cbn [find_sub] in H.
  destruct (is_prefix b (x :: s)) eqn:P.
  - inversion H. cbn. lia.
  - destruct (find_sub s b) as [o|] eqn:F; [|discriminate H]. inversion H; subst. cbn [length].
    destruct s as [|y s].
    + cbn in F. rewrite is_prefix_nil_r in F. destruct b; [discriminate P|discriminate F].
    + specialize (IH b o ltac:(discriminate) F). lia.
Qed.
Lemma find_none_count s : forall b, find_sub s b = None -> t_count s b = 0%nat.
Proof.
  induction s as [|x s IH]; intros b H; [reflexivity|]. cbn [find_sub] in H. cbn [t_count].
  destruct (is_prefix b (x :: s)); [discriminate H|]. destruct (find_sub s b) eqn:F; [discriminate H|].
  rewrite (IH b F). reflexivity.
Qed.
Lemma find_some_count s : forall b off, s <> [] -> find_sub s b = Some off ->
  t_count s b = S (t_count (skipn (S off) s) b).
Proof.
  induction s as [|x s IH]; intros b off Hne H; [contradiction|]. cbn [find_sub] in H. cbn [t_count].
  destruct (is_prefix b (x :: s)) eqn:P.
  - inversion H. reflexivity.
  - destruct (find_sub s b) as [o|] eqn:F; [|discriminate H]. inversion H; subst.
    destruct s as [|y s].
    + cbn in F. rewrite is_prefix_nil_r in F. destruct b; [discriminate P|discriminate F].
    + rewrite (IH b o ltac:(discriminate) F). reflexivity.
Qed.
Lemma count_loop_ok fuel : forall s b r rb num, NN s -> NN b -> (length s < fuel)%nat ->
  count_loop fuel (s ++ 0 :: r) (find_sub s b) (b ++ 0 :: rb) num = Ok (num + t_count s b)%nat.
Proof.
  induction fuel as [|f IH]; intros s b r rb num Hs Hb L; [lia|]. cbn [count_loop].
  destruct s as [|x s].
  - cbn. f_equal. lia.
  - apply NN_cons in Hs as Hs'. destruct Hs' as [Hx Hs']. cbn [app rd bind]. nz Hx.
    destruct (find_sub (x :: s) b) as [off|] eqn:F.
    + pose proof (find_sub_lt (x :: s) b off ltac:(discriminate) F) as Lo.
      change (x :: s ++ 0 :: r) with ((x :: s) ++ 0 :: r). rewrite adv_cs by lia. cbn [bind].
      rewrite StrStr_ok by (try apply NN_skipn; assumption). cbn [bind].
      rewrite IH; try assumption; [| apply NN_skipn; assumption | rewrite skipn_length; cbn [length] in *; lia].
      rewrite (find_some_count (x :: s) b off ltac:(discriminate) F). f_equal. lia.
    + rewrite (find_none_count _ _ F). f_equal. lia.
Qed.
Lemma count_ok a b ra rb : NN a -> NN b -> count_m (a ++ 0 :: ra) (b ++ 0 :: rb) = Ok (t_count a b).
Proof.
  intros Ha Hb. unfold count_m. destruct a as [|x a].
  - cbn. reflexivity.
  - apply NN_cons in Ha as Ha'. destruct Ha' as [Hx _]. cbn [app rd bind]. nz Hx.
    change (x :: a ++ 0 :: ra) with ((x :: a) ++ 0 :: ra). rewrite StrStr_ok by assumption. cbn [bind].
    rewrite count_loop_ok; try assumption; [reflexivity|]. rewrite app_length. cbn [length]. lia.
Qed.

(* ---------------- find / findFrom *)
Lemma find_loop_ok ch k : forall p i, (k <= length p)%nat ->
  find_loop p k i ch = Ok (option_map (fun j => i + N.of_nat j) (t_index ch (firstn k p))).
Proof.
  induction k as [|k IH]; intros p i L; [reflexivity|].
  destruct p as [|c p]; [cbn in L; lia|]. cbn [find_loop rd bind firstn t_index tl].
  destruct (c =? ch).
  - cbn. f_equal. f_equal. lia.
  - rewrite IH by (cbn in L; lia). f_equal. destruct (t_index ch (firstn k p)); cbn; [f_equal; lia | reflexivity].
Qed.
Lemma findFrom_ok a r st ch : NN a -> findFrom_m (a ++ 0 :: r) st ch = Ok (t_find_from a st ch).
Proof.
  intro Ha. unfold findFrom_m, t_find_from, t_skipN. rewrite StrLen_ok by assumption. cbn [bind].
  destruct (N.of_nat (length a) <=? st) eqn:L; [reflexivity|].
  rewrite adv_cs by lia. cbn [bind]. rewrite find_loop_ok by (rewrite app_length, skipn_length; lia).
  rewrite firstn_app, skipn_length, Nat.sub_diag. cbn [firstn]. rewrite app_nil_r.
  rewrite firstn_all2 by (rewrite skipn_length; lia). reflexivity.
Qed.

(* ---------------- writes: StrNCpy, copyToNewBuffer, SimpleString(const char* ) *)
Lemma wr_mid pre m post v : wr (pre ++ m :: post) (length pre) v = Ok (pre ++ v :: post).
Proof.
  unfold wr. rewrite app_length. cbn [length]. replace (Nat.ltb (length pre) (length pre + S (length post))) with true by lia.
  rewrite firstn_app, Nat.sub_diag, firstn_all. cbn [firstn]. rewrite app_nil_r.
  rewrite skipn_app, skipn_all2 by lia. replace (S (length pre) - length pre)%nat with 1%nat by lia. reflexivity.
Qed.
Lemma StrNCpy_loop_ok n : forall s r pre mid post, (1 <= n)%nat -> NN s -> length mid = Nat.min n (S (length s)) ->
  StrNCpy_loop (pre ++ mid ++ post) (length pre) (s ++ 0 :: r) n = Ok (pre ++ firstn (length mid) (s ++ [0]) ++ post).
Proof.
  induction n as [|n IH]; intros s r pre mid post Hn Hs Hm; [lia|].
  destruct mid as [|m mid]; [cbn [length] in Hm; lia|]. cbn [StrNCpy_loop].
  destruct s as [|x s].
  - cbn [app rd bind]. cbn [length] in Hm. assert (mid = []) by (destruct mid; [reflexivity | cbn in Hm; lia]). subst mid.
    cbn [app]. rewrite wr_mid. cbn [bind]. rewrite N.eqb_refl, orb_true_r. reflexivity.
  - apply NN_cons in Hs. destruct Hs as [Hx Hs]. cbn [app rd bind]. change ((m :: mid) ++ post) with (m :: mid ++ post).
    rewrite wr_mid. cbn [bind tl length firstn].
    destruct n as [|n].
    + cbn [length] in Hm. assert (mid = []) by (destruct mid; [reflexivity | cbn in Hm; lia]). subst mid. reflexivity.
    + nz Hx. cbn [Nat.eqb orb].
      replace (pre ++ x :: mid ++ post) with ((pre ++ [x]) ++ mid ++ post) by (rewrite <- app_assoc; reflexivity).
      replace (S (length pre)) with (length (pre ++ [x])) by (rewrite app_length; cbn; lia).
      rewrite IH; [rewrite <- app_assoc; reflexivity | lia | assumption | cbn [length] in Hm; lia].
Qed.
Lemma fresh_app a b : fresh (a + b) = fresh a ++ fresh b.
Proof. unfold fresh. apply repeat_app. Qed.
Lemma fresh_length n : length (fresh n) = n.
Proof. apply repeat_length. Qed.
Lemma newFrom_ok s r : NN s -> newFrom (s ++ 0 :: r) = Ok (s ++ [0]).
Proof.
  intro Hs. unfold newFrom. rewrite StrLen_ok by assumption. cbn [bind]. unfold copyToNewBuffer, StrNCpy. cbn [Nat.eqb].
  pose proof (StrNCpy_loop_ok (S (length s)) s r [] (fresh (S (length s))) []) as H. cbn [app length] in H.
  rewrite app_nil_r in H. rewrite H; [| lia | assumption | rewrite fresh_length; lia]. clear H.
  rewrite fresh_length, app_nil_r. cbn [bind]. replace (S (length s)) with (length (s ++ [0])) by (rewrite app_length; cbn; lia).
  rewrite firstn_all. replace (length (s ++ [0%N]) - 1)%nat with (length s) by (rewrite app_length; cbn; lia).
  apply wr_mid.
Qed.
Lemma cstr_of_cs s r : NN s -> cstr_of (s ++ 0 :: r) = Some s.
Proof.
  induction s as [|c s IH]; intro H; cbn; [reflexivity|]. apply NN_cons in H. destruct H as [Hc Hs]. nz Hc.
  rewrite IH by assumption. reflexivity.
Qed.

(* ---------------- lowerCase, replace(char) *)
Lemma to_lower_nz c : c <> 0 -> to_lower c <> 0.
Proof. unfold to_lower. intro H. destruct ((65 <=? c) && (c <=? 90)); lia. Qed.
Lemma lower_loop_ok k : forall pre s r, length s = k ->
  lower_loop (pre ++ s ++ r) (length pre) k = Ok (pre ++ lower s ++ r).
Proof.
  induction k as [|k IH]; intros pre s r L.
  - destruct s; [reflexivity | discriminate L].
  - destruct s as [|c s]; [discriminate L|]. cbn [lower_loop].
    unfold adv. rewrite app_length. replace (Nat.leb (length pre) (length pre + length ((c :: s) ++ r))) with true by lia.
    rewrite skipn_app, skipn_all, Nat.sub_diag. cbn [app skipn bind rd]. rewrite wr_mid. cbn [bind].
    replace (pre ++ to_lower c :: s ++ r) with ((pre ++ [to_lower c]) ++ s ++ r) by (rewrite <- app_assoc; reflexivity).
    replace (S (length pre)) with (length (pre ++ [to_lower c])) by (rewrite app_length; cbn; lia).
    rewrite IH by (cbn in L; lia). rewrite <- app_assoc. reflexivity.
Qed.
Lemma lowerCase_ok s r : NN s -> lowerCase_m (s ++ 0 :: r) = Ok (lower s ++ [0]).
Proof.
  intro Hs. unfold lowerCase_m. rewrite newFrom_ok by assumption. cbn [bind]. rewrite StrLen_ok by assumption. cbn [bind].
  apply (lower_loop_ok (length s) [] s [0%N]). reflexivity.
Qed.
Lemma NN_lower s : NN s -> NN (lower s).
Proof. unfold NN, lower. intro H. apply Forall_map. eapply Forall_impl; [|exact H]. intros c. apply to_lower_nz. Qed.

Lemma replc_loop_ok c1 c2 k : forall pre s r, length s = k ->
  replc_loop (pre ++ s ++ r) (length pre) k c1 c2 = Ok (pre ++ t_repl_char c1 c2 s ++ r).
Proof.
  induction k as [|k IH]; intros pre s r L.
  - destruct s; [reflexivity | discriminate L].
  - destruct s as [|c s]; [discriminate L|]. cbn [replc_loop].
    unfold adv. rewrite app_length. replace (Nat.leb (length pre) (length pre + length ((c :: s) ++ r))) with true by lia.
    rewrite skipn_app, skipn_all, Nat.sub_diag. cbn [app skipn bind rd].
    assert (E : (if c =? c1 then wr (pre ++ c :: s ++ r) (length pre) c2 else Ok (pre ++ c :: s ++ r))
                = Ok (pre ++ (if c =? c1 then c2 else c) :: s ++ r)) by (destruct (c =? c1); [apply wr_mid | reflexivity]).
    rewrite E. cbn [bind]. set (c' := if c =? c1 then c2 else c).
    replace (pre ++ c' :: s ++ r) with ((pre ++ [c']) ++ s ++ r) by (rewrite <- app_assoc; reflexivity).
    replace (S (length pre)) with (length (pre ++ [c'])) by (rewrite app_length; cbn; lia).
    rewrite IH by (cbn in L; lia). rewrite <- app_assoc. reflexivity.
Qed.
Lemma cstr_of_cut s : cstr_of (s ++ [0]) = Some (cut_nul s).
Proof. induction s as [|c s IH]; cbn; [reflexivity|]. destruct (c =? 0); [reflexivity|]. rewrite IH. reflexivity. Qed.
Lemma replaceChar_ok s c1 c2 : NN s -> replaceChar_m (s ++ [0]) c1 c2 = Ok (t_repl_char c1 c2 s ++ [0]).
Proof.
  intro Hs. unfold replaceChar_m. rewrite StrLen_ok by assumption. cbn [bind].
  apply (replc_loop_ok c1 c2 (length s) [] s [0%N]). reflexivity.
Qed.

(* ---------------- subString *)
Lemma subString_ok a r b n : NN a ->
  exists buf, subString_m (a ++ 0 :: r) b n = Ok buf /\ cstr_of buf = Some (t_substr a b n).
Proof.
  intro Ha. unfold subString_m, t_substr, t_skipN, t_takeN. rewrite StrLen_ok by assumption. cbn [bind].
  destruct (N.of_nat (length a) <=? b) eqn:L.
  - exists [0]. split; [apply (newFrom_ok [] []); apply Forall_nil |].
    cbn [length N.of_nat]. destruct (0 <=? n); [reflexivity|]. rewrite firstn_nil. reflexivity.
  - rewrite adv_cs by lia. cbn [bind]. rewrite newFrom_ok by (apply NN_skipn; assumption). cbn [bind].
    set (s' := skipn (N.to_nat b) a). assert (Hs' : NN s') by (apply NN_skipn; assumption).
    rewrite StrLen_ok by assumption. cbn [bind].
    destruct (n <? N.of_nat (length s')) eqn:M.
    + replace (N.of_nat (length s') <=? n) with false by lia.
      unfold wr. rewrite app_length. cbn [length]. replace (Nat.ltb (N.to_nat n) (length s' + 1)) with true by lia.
      eexists. split; [reflexivity|]. rewrite firstn_app. replace (N.to_nat n - length s')%nat with 0%nat by lia.
      cbn [firstn]. rewrite app_nil_r. apply cstr_of_cs. apply NN_firstn. assumption.
    + replace (N.of_nat (length s') <=? n) with true by lia. eexists. split; [reflexivity|]. apply cstr_of_cs. assumption.
Qed.

(* ---------------- decimal and ordinal *)
Lemma dec_digits_ok f : forall n acc, dec_digits f n acc = t_dec_fuel f n ++ acc.
Proof.
  induction f as [|f IH]; intros n acc; [reflexivity|]. cbn [dec_digits t_dec_fuel].
  assert (E : (n / 10 =? 0) = (n <? 10)).
  { destruct (N.ltb_spec n 10) as [H|H].
    - apply N.eqb_eq. apply N.div_small. exact H.
    - apply N.eqb_neq. intro Z. apply N.div_small_iff in Z; lia. }
  rewrite E. destruct (n <? 10); [reflexivity|]. rewrite IH, <- app_assoc. reflexivity.
Qed.
Lemma dec_of_ok n : dec_of n = t_dec n.
Proof. unfold dec_of, t_dec. rewrite dec_digits_ok. apply app_nil_r. Qed.
Lemma ordinal_ok n : ordinal_m n = t_ordinal n.
Proof.
  unfold ordinal_m, t_ordinal, ordinal_suffix. rewrite dec_of_ok. f_equal.
  assert (H100 : n mod 100 < 100) by (apply N.mod_lt; lia).
  assert (H10 : n mod 10 < 10) by (apply N.mod_lt; lia).
  destruct (N.eqb_spec (n mod 100) 11) as [E|E]; [rewrite E; reflexivity|].
  destruct (N.eqb_spec (n mod 100) 12) as [E2|E2]; [rewrite E2; reflexivity|].
  destruct (N.eqb_spec (n mod 100) 13) as [E3|E3]; [rewrite E3; reflexivity|].
  replace ((n mod 100 <? 11) || (13 <? n mod 100)) with true by lia. cbn [orb].
  destruct (N.eqb_spec (n mod 10) 3) as [D|D]; [rewrite D; reflexivity|].
  destruct (N.eqb_spec (n mod 10) 2) as [D2|D2]; [rewrite D2; reflexivity|].
  destruct (N.eqb_spec (n mod 10) 1) as [D1|D1]; [rewrite D1; reflexivity|].
  destruct (n mod 10) as [|p]; [reflexivity|]. do 4 (destruct p as [p|p|]; try reflexivity; try lia).
Qed.
(* the code before the D10 repair *)
Lemma ordinal_old_refuted : ~ (forall n, n < 4294967296 -> ordinal_old n = t_ordinal n).
Proof. intro H. specialize (H 111 ltac:(reflexivity)). vm_compute in H. discriminate H. Qed.

(* ---------------- run meets spec (first group of operations) *)
Lemma lbytes_eqb_refl x : lbytes_eqb x x = true.
Proof. induction x as [|a x IH]; cbn; [reflexivity|]. rewrite bytes_eqb_refl, IH. reflexivity. Qed.
Lemma oval_eqb_refl x : x <> VErr -> oval_eqb x x = true.
Proof. destruct x; cbn; intro H; try reflexivity; try congruence. apply Z.eqb_refl. apply bytes_eqb_refl. apply lbytes_eqb_refl. Qed.
(* the code before the D8 repair read past the buffer of the empty string *)
Lemma subString_old_refuted : ~ (forall a b n, nonul a = true -> subString_old (cs a) b n <> Oob).
Proof. intro H. apply (H [] 3 1 eq_refl). vm_compute. reflexivity. Qed.
