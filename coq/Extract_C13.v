From Coq Require Import ExtrOcamlBasic.
From CppUVerif Require Import C13_Model.
Extraction "c13_model.ml" C13_Model.run C13_Model.spec C13_Model.valid.
