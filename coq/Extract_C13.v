From Coq Require Import ExtrOcamlBasic.
From CppUVerif Require Import C13_Life C13_Alias.
Extraction "c13_model.ml" C13_Alias.run_x C13_Alias.spec_x C13_Alias.valid_x.
