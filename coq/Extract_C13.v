From Coq Require Import ExtrOcamlBasic.
From CppUVerif Require Import C13_Life.
Extraction "c13_model.ml" C13_Life.run_scn C13_Life.spec_scn C13_Life.valid_scn.
