(* C04 -- Leak accounting is exact for every allocation history.
   Only statements; every proof is `exact <lemma>` into C04_Lists.v / C04_Table.v / C04_Proofs.v.
   flat t = concatenation of the buckets; Inv t = bucket count is hash_prime (regenerated from the source),
   every node sits in the bucket its address hashes to, no two nodes share an address. *)
From Coq Require Import NArith List Bool Permutation.
From CppUVerif Require Import gen.Gen_Common C04_Model C04_Lists C04_Table C04_Proofs.
From CppUVerif Require C04_LeafTie.
Import ListNotations.

(* refinement, all histories: after any valid operation sequence the table satisfies the invariants, holds exactly the
   records of the abstract map address -> record, and period / stage / sequence counter agree *)
Theorem C04_refines : forall ops, valid ops = true -> R (c_exec d_init ops) (a_exec a_init ops).
Proof. exact refines. Qed.
Print Assumptions C04_refines.

(* one step: every operation commutes with its abstract counterpart and its observation passes the oracle *)
Theorem C04_step_refines : forall st a o, R st a -> op_ok a o = true ->
  R (fst (c_step st o)) (fst (a_step a o)) /\ item_ok (snd (c_step st o)) (snd (a_step a o)).
Proof. exact step_refines. Qed.
Print Assumptions C04_step_refines.

(* in every reachable state, for every period: the report enumerates exactly the outstanding blocks of that period
   (each once), the total is their number, and "no leaks" iff there are none *)
Theorem C04_outstanding_exact : forall ops p, valid ops = true ->
  let st := c_exec d_init ops in let out := filter (applies p) (a_recs (a_exec a_init ops)) in
  exists l, d_report p st = Some l /\ Permutation l out /\ NoDup (addrs l) /\
            t_total p (d_tbl st) = N.of_nat (length out) /\ (l = [] <-> out = []).
Proof. exact outstanding_exact. Qed.
Print Assumptions C04_outstanding_exact.

(* the report item itself: "no leaks", the footer total and the malloc note are those of the outstanding set of the period,
   the entries are exactly that set *)
Theorem C04_report_item_exact : forall ops p, valid ops = true ->
  let st := c_exec d_init ops in let out := filter (applies p) (a_recs (a_exec a_init ops)) in
  exists l, Permutation l out /\
    snd (c_step st (OpReport p)) =
    Some (OR (match out with [] => true | _ => false end) false (N.of_nat (length out)) (map entry_of l) (existsb is_malloc out)).
Proof. exact report_item_exact. Qed.
Print Assumptions C04_report_item_exact.

(* an allocation or reallocation whose underlying allocator call fails (the block, or the separate bookkeeping record) changes
   nothing: the abstract map is untouched, the table still holds exactly that map with the same counters, and every total and
   report answers as before (reallocMemory: the record taken out is put back) *)
Theorem C04_failed_request_changes_nothing : forall st a o, R st a -> is_failed_request o = true ->
  let st' := fst (c_step st o) in
  fst (a_step a o) = a /\ R st' a /\ Permutation (flat (d_tbl st')) (flat (d_tbl st)) /\
  d_period st' = d_period st /\ d_stage st' = d_stage st /\ d_seq st' = d_seq st /\
  (forall p, t_total p (d_tbl st') = t_total p (d_tbl st)) /\
  (forall p, exists l l', d_report p st = Some l /\ d_report p st' = Some l' /\ Permutation l' l).
Proof. exact failed_request_changes_nothing. Qed.
Print Assumptions C04_failed_request_changes_nothing.

(* the code before repair 3db681c (record of the still valid block dropped after a failed realloc) does not have that property *)
Theorem C04_realloc_failed_old_refuted : ~ (forall st a x, R st a -> R (fst (d_realloc_failed_old st x)) a).
Proof. exact realloc_failed_old_refuted. Qed.
Print Assumptions C04_realloc_failed_old_refuted.

(* releasing address a removes exactly the node with that address -- all others keep their place, same-bucket neighbours
   before and after it included -- and answers "not found" iff a is not outstanding *)
Theorem C04_release_exact : forall a t, Inv t ->
  match t_remove a t with
  | (None, t') => ~ In a (addrs (flat t)) /\ flat t' = flat t
  | (Some n, t') => n_addr n = a /\ exists A B, flat t = A ++ n :: B /\ flat t' = A ++ B /\ ~ In a (addrs (A ++ B))
  end /\ Inv (snd (t_remove a t)).
Proof. exact release_exact. Qed.
Print Assumptions C04_release_exact.

(* clearAllAccounting(p) removes exactly the records of period p *)
Theorem C04_clear_exact : forall p t, Inv t ->
  flat (t_clear p t) = filter (fun n => negb (applies p n)) (flat t) /\ Inv (t_clear p t).
Proof. exact clear_exact. Qed.
Print Assumptions C04_clear_exact.

(* deallocAllMemoryInCurrentAllocationStage releases exactly the blocks of the current stage, never reports a failure, never runs out of fuel *)
Theorem C04_stage_exact : forall st, Inv (d_tbl st) ->
  exists t', d_stage_free st = Some (with_tbl st t', 0%N) /\
             flat t' = filter (fun c => negb (n_stage c =? d_stage st)%N) (flat (d_tbl st)) /\ Inv t'.
Proof. exact stage_free_spec. Qed.
Print Assumptions C04_stage_exact.

(* markCheckingPeriodLeaksAsNonCheckingPeriod turns every checking record into an enabled one and touches nothing else *)
Theorem C04_demote_exact : forall st, Inv (d_tbl st) ->
  exists t', d_mark st = Some (with_tbl st t') /\ flat t' = map demote (flat (d_tbl st)) /\ Inv t'.
Proof. exact mark_spec. Qed.
Print Assumptions C04_demote_exact.

(* getFirstLeak/getNextLeak across buckets hand out every matching node exactly once (in bucket order) *)
Theorem C04_iteration_complete : forall p st, Inv (d_tbl st) ->
  d_report p st = Some (filter (applies p) (flat (d_tbl st))).
Proof. exact iteration_complete. Qed.
Print Assumptions C04_iteration_complete.

(* isInPeriod as written equals the declarative table; the prev/cur walks equal remove-first and filter *)
Theorem C04_in_period_declarative : forall n p, is_in_period n p = applies p n.
Proof. exact in_period_applies. Qed.
Print Assumptions C04_in_period_declarative.

Theorem C04_walks_textbook : forall a p b,
  l_remove a b = (l_retrieve a b, rm a b) /\ l_clear p b = filter (fun c => negb (applies p c)) b.
Proof. exact walks_textbook. Qed.
Print Assumptions C04_walks_textbook.

(* the executable oracle used on the implementation's observations accepts every model observation *)
Theorem C04_run_meets_spec : forall ops, valid ops = true -> spec ops (run ops) = true.
Proof. exact run_meets_spec. Qed.
Print Assumptions C04_run_meets_spec.

(* the leaf functions of the table model ARE the source: bucket hash, isInPeriod and isInAllocationStage equal the functions
   tools/cxx2coq.py regenerates from clang's AST of MemoryLeakDetector.cpp on every run (gen/Gen_Leaf.v) *)
Theorem C04_leaf_functions_are_the_source : C04_LeafTie.C04_leaf_functions_are_the_source_stmt.
Proof. exact C04_LeafTie.C04_leaf_functions_are_the_source. Qed.
Print Assumptions C04_leaf_functions_are_the_source.
