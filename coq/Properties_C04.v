(* C04 -- Leak accounting is exact for every allocation history.
   Only statements; every proof is `exact <lemma>` into C04_Lists.v / C04_Table.v / C04_Proofs.v.
   flat t = concatenation of the buckets; Inv t = bucket count is hash_prime (regenerated from the source),
   every node sits in the bucket its address hashes to, no two nodes share an address. *)
From Coq Require Import NArith List Bool Permutation.
From CppUVerif Require Import gen.Gen_Common C04_Model C04_Lists C04_Table C04_Proofs.
From CppUVerif Require C04_LeafTie.
Import ListNotations.

(* refinement, all histories: after any valid operation sequence the table satisfies the invariants, holds exactly the
   records of the abstract map address -> record, and period / stage / sequence counter agree *)
Theorem C04_refines : forall ops, valid ops = true -> R (c_exec d_init ops) (a_exec a_init ops).
Proof. exact refines. Qed.
Print Assumptions C04_refines.

(* one step: every operation commutes with its abstract counterpart and its observation passes the oracle *)
Theorem C04_step_refines : forall st a o, R st a -> op_ok a o = true ->
  R (fst (c_step st o)) (fst (a_step a o)) /\ item_ok (snd (c_step st o)) (snd (a_step a o)).
Proof. exact step_refines. Qed.
Print Assumptions C04_step_refines.

(* in every reachable state, for every period: the report enumerates exactly the outstanding blocks of that period
   (each once), the total is their number, and "no leaks" iff there are none *)
Theorem C04_outstanding_exact : forall ops p, valid ops = true ->
  let st := c_exec d_init ops in let out := filter (applies p) (a_recs (a_exec a_init ops)) in
  exists l, d_report p st = Some l /\ Permutation l out /\ NoDup (addrs l) /\
            t_total p (d_tbl st) = N.of_nat (length out) /\ (l = [] <-> out = []).
Proof. exact outstanding_exact. Qed.
Print Assumptions C04_outstanding_exact.

(* the report item itself: "no leaks", the footer total and the malloc note are those of the outstanding set of the period,
   the entries are exactly that set *)
Theorem C04_report_item_exact : forall ops p, valid ops = true ->
  let st := c_exec d_init ops in let out := filter (applies p) (a_recs (a_exec a_init ops)) in
  exists l, Permutation l out /\
    snd (c_step st (OpReport p)) =
    Some (OR (match out with [] => true | _ => false end) false (N.of_nat (length out)) (map entry_of l) (existsb is_malloc out)).
Proof. exact report_item_exact. Qed.
Print Assumptions C04_report_item_exact.

(* an allocation or reallocation whose underlying allocator call fails (the block, or the separate bookkeeping record) changes
   nothing: the abstract map is untouched, the table still holds exactly that map with the same counters, and every total and
   report answers as before (reallocMemory: the record taken out is put back) *)
Theorem C04_failed_request_changes_nothing : forall st a o, R st a -> is_failed_request o = true ->
  let st' := fst (c_step st o) in
  fst (a_step a o) = a /\ R st' a /\ Permutation (flat (d_tbl st')) (flat (d_tbl st)) /\
  d_period st' = d_period st /\ d_stage st' = d_stage st /\ d_seq st' = d_seq st /\
  (forall p, t_total p (d_tbl st') = t_total p (d_tbl st)) /\
  (forall p, exists l l', d_report p st = Some l /\ d_report p st' = Some l' /\ Permutation l' l).
Proof. exact failed_request_changes_nothing. Qed.
Print Assumptions C04_failed_request_changes_nothing.

(* the code before repair 3db681c (record of the still valid block dropped after a failed realloc) does not have that property *)
Theorem C04_realloc_failed_old_refuted : ~ (forall st a x, R st a -> R (fst (d_realloc_failed_old st x)) a).
Proof. exact realloc_failed_old_refuted. Qed.
Print Assumptions C04_realloc_failed_old_refuted.

(* releasing address a removes exactly the node with that address -- all others keep their place, same-bucket neighbours
   before and after it included -- and answers "not found" iff a is not outstanding *)
Theorem C04_release_exact : forall a t, Inv t ->
  match t_remove a t with
  | (None, t') => ~ In a (addrs (flat t)) /\ flat t' = flat t
  | (Some n, t') => n_addr n = a /\ exists A B, flat t = A ++ n :: B /\ flat t' = A ++ B /\ ~ In a (addrs (A ++ B))
  end /\ Inv (snd (t_remove a t)).
Proof. exact release_exact. Qed.
Print Assumptions C04_release_exact.

(* clearAllAccounting(p) removes exactly the records of period p *)
Theorem C04_clear_exact : forall p t, Inv t ->
  flat (t_clear p t) = filter (fun n => negb (applies p n)) (flat t) /\ Inv (t_clear p t).
Proof. exact clear_exact. Qed.
Print Assumptions C04_clear_exact.

(* deallocAllMemoryInCurrentAllocationStage releases exactly the blocks of the current stage, never reports a failure, never runs out of fuel *)
Theorem C04_stage_exact : forall st, Inv (d_tbl st) ->
  exists t', d_stage_free st = Some (with_tbl st t', 0%N) /\
             flat t' = filter (fun c => negb (n_stage c =? d_stage st)%N) (flat (d_tbl st)) /\ Inv t'.
Proof. exact stage_free_spec. Qed.
Print Assumptions C04_stage_exact.

(* markCheckingPeriodLeaksAsNonCheckingPeriod turns every checking record into an enabled one and touches nothing else *)
Theorem C04_demote_exact : forall st, Inv (d_tbl st) ->
  exists t', d_mark st = Some (with_tbl st t') /\ flat t' = map demote (flat (d_tbl st)) /\ Inv t'.
Proof. exact mark_spec. Qed.
Print Assumptions C04_demote_exact.

(* getFirstLeak/getNextLeak across buckets hand out every matching node exactly once (in bucket order) *)
Theorem C04_iteration_complete : forall p st, Inv (d_tbl st) ->
  d_report p st = Some (filter (applies p) (flat (d_tbl st))).
Proof. exact iteration_complete. Qed.
Print Assumptions C04_iteration_complete.

(* isInPeriod as written equals the declarative table; the prev/cur walks equal remove-first and filter *)
Theorem C04_in_period_declarative : forall n p, is_in_period n p = applies p n.
Proof. exact in_period_applies. Qed.
Print Assumptions C04_in_period_declarative.

Theorem C04_walks_textbook : forall a p b,
  l_remove a b = (l_retrieve a b, rm a b) /\ l_clear p b = filter (fun c => negb (applies p c)) b.
Proof. exact walks_textbook. Qed.
Print Assumptions C04_walks_textbook.

(* the executable oracle used on the implementation's observations accepts every model observation *)
Theorem C04_run_meets_spec : forall ops, valid ops = true -> spec ops (run ops) = true.
Proof. exact run_meets_spec. Qed.
Print Assumptions C04_run_meets_spec.

(* the leaf functions of the table model ARE the source: bucket hash, isInPeriod and isInAllocationStage equal the functions
   tools/cxx2coq.py regenerates from clang's AST of MemoryLeakDetector.cpp on every run (gen/Gen_Leaf.v) *)
Theorem C04_leaf_functions_are_the_source : C04_LeafTie.C04_leaf_functions_are_the_source_stmt.
Proof. exact C04_LeafTie.C04_leaf_functions_are_the_source. Qed.
Print Assumptions C04_leaf_functions_are_the_source.

(* --------------------------------------------------------------------------------------------------------------
   The table code of the model IS the source: every member function of MemoryLeakDetectorList as tools/cxx2heap.py regenerates it from MemoryLeakDetector.cpp on every run (gen/Gen_HeapC04.v; objects are blocks of cells of lib/CHeap.v, C04_HeapRep.v says how a heap represents a bucket: node_cells / chain / list_at, with the cell order pinned to the class definition), run on a heap that represents a model bucket, returns the pointer / number that represents the model function's result and, for the storing functions, a heap that represents the model's new bucket -- every block outside the list left unchanged, no access outside the objects (FOk), termination within a fuel just above the bucket length
   -------------------------------------------------------------------------------------------------------------- *)
From CppUVerif Require Import lib.CSem lib.CMem lib.CHeap gen.Gen_HeapC04 C04_HeapRep C04_HeapList C04_HeapListW.
Local Open Scope Z_scope.
Theorem C04_node_layout_is_the_source :
  off_MemoryLeakDetectorNode_size_ = Z0 /\
  off_MemoryLeakDetectorNode_number_ = Zpos 1 /\
  off_MemoryLeakDetectorNode_memory_ = Zpos 2 /\
  off_MemoryLeakDetectorNode_file_ = Zpos 3 /\
  off_MemoryLeakDetectorNode_line_ = Zpos 4 /\
  off_MemoryLeakDetectorNode_allocator_ = Zpos 5 /\
  off_MemoryLeakDetectorNode_period_ = Zpos 6 /\
  off_MemoryLeakDetectorNode_allocation_stage_ = Zpos 7 /\
  off_MemoryLeakDetectorNode_next_ = Zpos 8 /\
  cells_MemoryLeakDetectorNode = Zpos 9 /\
  off_MemoryLeakDetectorList_head_ = Z0 /\
  cells_MemoryLeakDetectorList = Zpos 1 /\
  off_MemoryLeakDetectorTable_table_ = Z0 /\ cells_MemoryLeakDetectorTable = BinInt.Z.of_N hash_prime.
Proof. exact node_layout_is_the_source. Qed.
Print Assumptions C04_node_layout_is_the_source.

Theorem C04_src_list_isInPeriod_spec :
  forall (fuel : nat) (h : heap) (this : hptr) (b : nat) (n : node) (nxt : hptr) (p : period),
  hblock h b = node_cells n nxt ->
  src_list_isInPeriod fuel h this (HPtr b Z0) (period_code p) = FOk (b2z (is_in_period n p)).
Proof. exact src_list_isInPeriod_spec. Qed.
Print Assumptions C04_src_list_isInPeriod_spec.

Theorem C04_src_list_isInAllocationStage_spec :
  forall (fuel : nat) (h : heap) (this : hptr) (b : nat) (n : node) (nxt : hptr) (s : N),
  hblock h b = node_cells n nxt ->
  src_list_isInAllocationStage fuel h this (HPtr b Z0) (BinInt.Z.of_N s) = FOk (b2z (is_in_stage n s)).
Proof. exact src_list_isInAllocationStage_spec. Qed.
Print Assumptions C04_src_list_isInAllocationStage_spec.

Theorem C04_src_list_getLeakFrom_spec :
  forall (fuel : nat) (h : heap) (this p : hptr) (bs : list nat) (ns : list node) (per : period),
  chain h p bs ns ->
  length ns < fuel ->
  src_list_getLeakFrom fuel h this p (period_code per) =
  FOk (ptr_first (fun n : node => is_in_period n per) bs ns).
Proof. exact src_list_getLeakFrom_spec. Qed.
Print Assumptions C04_src_list_getLeakFrom_spec.

Theorem C04_src_list_getLeakForAllocationStageFrom_spec :
  forall (fuel : nat) (h : heap) (this p : hptr) (bs : list nat) (ns : list node) (s : N),
  chain h p bs ns ->
  length ns < fuel ->
  src_list_getLeakForAllocationStageFrom fuel h this p (BinInt.Z.of_N s) =
  FOk (ptr_first (fun n : node => is_in_stage n s) bs ns).
Proof. exact src_list_getLeakForAllocationStageFrom_spec. Qed.
Print Assumptions C04_src_list_getLeakForAllocationStageFrom_spec.

Theorem C04_ptr_first_none :
  forall (f : node -> bool) (bs : list nat) (ns : list node),
  length bs = length ns -> ptr_first f bs ns = HNull <-> l_leak_from f ns = None.
Proof. exact ptr_first_none. Qed.
Print Assumptions C04_ptr_first_none.

Theorem C04_ptr_first_some :
  forall (h : heap) (f : node -> bool) (ns : list node) (p : hptr) (bs : list nat) (n : node),
  chain h p bs ns ->
  l_leak_from f ns = Some n ->
  exists (b : nat) (nxt : hptr), ptr_first f bs ns = HPtr b Z0 /\ In b bs /\ hblock h b = node_cells n nxt.
Proof. exact ptr_first_some. Qed.
Print Assumptions C04_ptr_first_some.

Theorem C04_src_list_getFirstLeak_spec :
  forall (fuel : nat) (h : heap) (this : hptr) (bs : list nat) (ns : bucket) (per : period),
  list_at h this bs ns ->
  length ns < fuel ->
  src_list_getFirstLeak fuel h this (period_code per) =
  FOk (ptr_first (fun n : node => is_in_period n per) bs ns).
Proof. exact src_list_getFirstLeak_spec. Qed.
Print Assumptions C04_src_list_getFirstLeak_spec.

Theorem C04_src_list_getFirstLeakForAllocationStage_spec :
  forall (fuel : nat) (h : heap) (this : hptr) (bs : list nat) (ns : bucket) (s : N),
  list_at h this bs ns ->
  length ns < fuel ->
  src_list_getFirstLeakForAllocationStage fuel h this (BinInt.Z.of_N s) =
  FOk (ptr_first (fun n : node => is_in_stage n s) bs ns).
Proof. exact src_list_getFirstLeakForAllocationStage_spec. Qed.
Print Assumptions C04_src_list_getFirstLeakForAllocationStage_spec.

Theorem C04_src_list_getNextLeak_spec :
  forall (fuel : nat) (h : heap) (this p : hptr) (bs : list nat) (ns : list node) (k : nat) (per : period),
  chain h p bs ns ->
  k < length ns ->
  length ns < fuel ->
  src_list_getNextLeak fuel h this (HPtr (nth k bs 0) Z0) (period_code per) =
  FOk (ptr_first (fun n : node => is_in_period n per) (skipn (S k) bs) (skipn (S k) ns)).
Proof. exact src_list_getNextLeak_spec. Qed.
Print Assumptions C04_src_list_getNextLeak_spec.

Theorem C04_src_list_getNextLeakForAllocationStage_spec :
  forall (fuel : nat) (h : heap) (this p : hptr) (bs : list nat) (ns : list node) (k : nat) (s : N),
  chain h p bs ns ->
  k < length ns ->
  length ns < fuel ->
  src_list_getNextLeakForAllocationStage fuel h this (HPtr (nth k bs 0) Z0) (BinInt.Z.of_N s) =
  FOk (ptr_first (fun n : node => is_in_stage n s) (skipn (S k) bs) (skipn (S k) ns)).
Proof. exact src_list_getNextLeakForAllocationStage_spec. Qed.
Print Assumptions C04_src_list_getNextLeakForAllocationStage_spec.

Theorem C04_l_after_skipn :
  forall (d : node) (ns : list node) (k : nat),
  NoDup (map n_addr ns) -> k < length ns -> l_after (n_addr (nth k ns d)) ns = skipn (S k) ns.
Proof. exact l_after_skipn. Qed.
Print Assumptions C04_l_after_skipn.

Theorem C04_src_list_getTotalLeaks_spec :
  forall (fuel : nat) (h : heap) (this : hptr) (bs : list nat) (ns : bucket) (per : period),
  list_at h this bs ns ->
  length ns < fuel ->
  BinInt.Z.lt (BinInt.Z.of_nat (length ns)) (BinInt.Z.pow (Zpos 2) (Zpos 64)) ->
  src_list_getTotalLeaks fuel h this (period_code per) = FOk (BinInt.Z.of_N (l_total per ns)).
Proof. exact src_list_getTotalLeaks_spec. Qed.
Print Assumptions C04_src_list_getTotalLeaks_spec.

Theorem C04_src_list_retrieveNode_spec :
  forall (fuel : nat) (h : heap) (this : hptr) (bs : list nat) (ns : bucket) (a : N),
  list_at h this bs ns ->
  length ns < fuel -> src_list_retrieveNode fuel h this (BinInt.Z.of_N a) = FOk (ptr_of a bs ns).
Proof. exact src_list_retrieveNode_spec. Qed.
Print Assumptions C04_src_list_retrieveNode_spec.

Theorem C04_ptr_of_none :
  forall (a : N) (bs : list nat) (ns : list node),
  length bs = length ns -> ptr_of a bs ns = HNull <-> l_retrieve a ns = None.
Proof. exact ptr_of_none. Qed.
Print Assumptions C04_ptr_of_none.

Theorem C04_ptr_of_some :
  forall (h : heap) (a : N) (ns : list node) (p : hptr) (bs : list nat) (n : node),
  chain h p bs ns ->
  l_retrieve a ns = Some n ->
  exists (b : nat) (nxt : hptr), ptr_of a bs ns = HPtr b Z0 /\ In b bs /\ hblock h b = node_cells n nxt.
Proof. exact ptr_of_some. Qed.
Print Assumptions C04_ptr_of_some.

Theorem C04_src_list_addNewNode_full :
  forall (fuel : nat) (h : heap) (this : hptr) (bs : list nat) (ns : bucket) (b : nat) (n : node) (nxt0 : hptr),
  list_at h this bs ns ->
  node_ok n ->
  b < length h ->
  ~ In b bs ->
  match this with
  | HNull => True
  | HPtr bt _ => b <> bt
  end ->
  hblock h b = node_cells n nxt0 ->
  exists (h' : heap) (hd : hptr),
  src_list_addNewNode fuel h this (HPtr b Z0) = FOk (tt, h') /\
  list_at h' this (b :: bs) (l_add n ns) /\
  length h' = length h /\
  hload_ptr h this = Some hd /\
  hblock h' b = node_cells n hd /\
  (forall b' : nat,
  b' <> b -> match this with
  | HNull => True
  | HPtr bt _ => b' <> bt
  end -> hblock h' b' = hblock h b') /\
  match this with
  | HNull => True
  | HPtr bt i =>
  forall k : nat, k <> BinInt.Z.to_nat i -> nth_error (hblock h' bt) k = nth_error (hblock h bt) k
  end.
Proof. exact src_list_addNewNode_full. Qed.
Print Assumptions C04_src_list_addNewNode_full.

Theorem C04_src_list_removeNode_complete :
  forall (fuel : nat) (h : heap) (this : hptr) (bs : list nat) (ns : bucket) (a : N),
  list_at h this bs ns ->
  length ns < fuel ->
  exists (h' : heap) (bs' : list nat),
  src_list_removeNode fuel h this (BinInt.Z.of_N a) = FOk (ptr_of a bs ns, h') /\
  list_at h' this bs' (snd (l_remove a ns)) /\
  length h' = length h /\
  (forall b' : nat,
  match this with
  | HNull => True
  | HPtr bt _ => b' <> bt
  end -> ~ In b' bs' -> hblock h' b' = hblock h b') /\
  (forall x : nat, In x bs' <-> In x bs /\ ptr_of a bs ns <> HPtr x Z0) /\
  (forall b : nat, ptr_of a bs ns = HPtr b Z0 -> hblock h' b = hblock h b) /\
  match fst (l_remove a ns) with
  | Some n =>
  exists (b : nat) (nxt : hptr), ptr_of a bs ns = HPtr b Z0 /\ In b bs /\ hblock h' b = node_cells n nxt
  | None => ptr_of a bs ns = HNull
  end /\
  match this with
  | HNull => True
  | HPtr bt i =>
  forall k : nat, k <> BinInt.Z.to_nat i -> nth_error (hblock h' bt) k = nth_error (hblock h bt) k
  end.
Proof. exact src_list_removeNode_complete. Qed.
Print Assumptions C04_src_list_removeNode_complete.

Theorem C04_l_remove_fst :
  forall (a : N) (ns : bucket), fst (l_remove a ns) = l_retrieve a ns.
Proof. exact l_remove_fst. Qed.
Print Assumptions C04_l_remove_fst.

Theorem C04_src_list_clearAllAccounting_complete :
  forall (fuel : nat) (h : heap) (this : hptr) (bs : list nat) (ns : bucket) (per : period),
  list_at h this bs ns ->
  length ns < fuel ->
  exists h' : heap,
  src_list_clearAllAccounting fuel h this (period_code per) = FOk (tt, h') /\
  list_at h' this (w_bkeep per bs ns) (l_clear per ns) /\
  length h' = length h /\
  l_clear per ns = filter (fun c : node => negb (is_in_period c per)) ns /\
  (forall b' : nat,
  match this with
  | HNull => True
  | HPtr bt _ => b' <> bt
  end -> ~ In b' (w_bkeep per bs ns) -> hblock h' b' = hblock h b') /\
  (forall b : nat,
  In b (w_bkeep per bs ns) -> forall k : nat, k <> 8 -> nth_error (hblock h' b) k = nth_error (hblock h b) k) /\
  match this with
  | HNull => True
  | HPtr bt i =>
  forall k : nat, k <> BinInt.Z.to_nat i -> nth_error (hblock h' bt) k = nth_error (hblock h bt) k
  end.
Proof. exact src_list_clearAllAccounting_complete. Qed.
Print Assumptions C04_src_list_clearAllAccounting_complete.

(* --------------------------------------------------------------------------------------------------------------
   ... and the storing member functions of MemoryLeakDetectorTable (the 73 head cells of block bt, table_at): the bucket is chosen by the translated hash, the list-level theorem is applied to that bucket, and table_at is re-established (table_at_update)
   -------------------------------------------------------------------------------------------------------------- *)
From CppUVerif Require Import C04_HeapTableW.
Local Open Scope Z_scope.
Theorem C04_src_table_addNewNode_full :
  forall (fuel : nat) (h : heap) (bt : nat) (bss : list (list nat)) (t : table) (b : nat)
  (n : node) (nxt0 : hptr),
  table_at h bt bss t ->
  node_ok n ->
  b < length h ->
  ~ In b (concat bss) ->
  b <> bt ->
  hblock h b = node_cells n nxt0 ->
  exists (h' : heap) (hd : hptr),
  src_table_addNewNode fuel h (HPtr bt Z0) (HPtr b Z0) = FOk (tt, h') /\
  table_at h' bt (tw_set (hashN (n_addr n)) (b :: nth (hashN (n_addr n)) bss []) bss) (t_add n t) /\
  length h' = length h /\
  hload_ptr h (HPtr bt (BinInt.Z.of_nat (hashN (n_addr n)))) = Some hd /\
  hblock h' b = node_cells n hd /\
  (forall b' : nat, b' <> b -> b' <> bt -> hblock h' b' = hblock h b') /\
  (forall k : nat, k <> hashN (n_addr n) -> nth_error (hblock h' bt) k = nth_error (hblock h bt) k).
Proof. exact src_table_addNewNode_full. Qed.
Print Assumptions C04_src_table_addNewNode_full.

Theorem C04_src_table_removeNode_complete :
  forall (fuel : nat) (h : heap) (bt : nat) (bss : list (list nat)) (t : table) (a : N),
  table_at h bt bss t ->
  (a < 2 ^ 64)%N ->
  length (nth (hashN a) t []) < fuel ->
  exists (h' : heap) (bsi' : list nat),
  src_table_removeNode fuel h (HPtr bt Z0) (BinInt.Z.of_N a) =
  FOk (ptr_of a (nth (hashN a) bss []) (nth (hashN a) t []), h') /\
  table_at h' bt (tw_set (hashN a) bsi' bss) (snd (t_remove a t)) /\
  length h' = length h /\
  (forall b' : nat, b' <> bt -> ~ In b' bsi' -> hblock h' b' = hblock h b') /\
  (forall x : nat,
  In x bsi' <->
  In x (nth (hashN a) bss []) /\ ptr_of a (nth (hashN a) bss []) (nth (hashN a) t []) <> HPtr x Z0) /\
  (forall b : nat,
  ptr_of a (nth (hashN a) bss []) (nth (hashN a) t []) = HPtr b Z0 -> hblock h' b = hblock h b) /\
  match fst (t_remove a t) with
  | Some n =>
  exists (b : nat) (nxt : hptr),
  ptr_of a (nth (hashN a) bss []) (nth (hashN a) t []) = HPtr b Z0 /\
  In b (nth (hashN a) bss []) /\ hblock h' b = node_cells n nxt
  | None => ptr_of a (nth (hashN a) bss []) (nth (hashN a) t []) = HNull
  end /\ (forall k : nat, k <> hashN a -> nth_error (hblock h' bt) k = nth_error (hblock h bt) k).
Proof. exact src_table_removeNode_complete. Qed.
Print Assumptions C04_src_table_removeNode_complete.

Theorem C04_src_table_clearAllAccounting_full :
  forall (fuel : nat) (h : heap) (bt : nat) (bss : list (list nat)) (t : table) (per : period),
  table_at h bt bss t ->
  (forall i : nat, i < nbuckets -> length (nth i t []) < fuel) ->
  73 < fuel ->
  exists (h' : heap) (bss' : list (list nat)),
  src_table_clearAllAccounting fuel h (HPtr bt Z0) (period_code per) = FOk (tt, h') /\
  table_at h' bt bss' (t_clear per t) /\
  length h' = length h /\
  (forall b' : nat, b' <> bt -> ~ In b' (concat bss') -> hblock h' b' = hblock h b') /\
  (forall j : nat, nth j bss' [] = w_bkeep per (nth j bss []) (nth j t [])) /\
  (forall x : nat, In x (concat bss') -> In x (concat bss)).
Proof. exact src_table_clearAllAccounting_full. Qed.
Print Assumptions C04_src_table_clearAllAccounting_full.

Theorem C04_table_at_update :
  forall (h h' : heap) (bt : nat) (bss : list (list nat)) (t : table) (i : nat) (bsi' : list nat) (bi' : bucket),
  table_at h bt bss t ->
  i < nbuckets ->
  list_at h' (HPtr bt (BinInt.Z.of_nat i)) bsi' bi' ->
  length h' = length h ->
  (forall b' : nat, b' <> bt -> ~ In b' (nth i bss []) -> ~ In b' bsi' -> hblock h' b' = hblock h b') ->
  (forall k : nat, k <> i -> nth_error (hblock h' bt) k = nth_error (hblock h bt) k) ->
  (forall x : nat, In x bsi' -> forall j : nat, j <> i -> ~ In x (nth j bss [])) ->
  table_at h' bt (tw_set i bsi' bss) (set_b i bi' t).
Proof. exact table_at_update. Qed.
Print Assumptions C04_table_at_update.

Theorem C04_tw_hash :
  forall (fuel : nat) (h : heap) (this : hptr) (a : N),
  (a < 2 ^ 64)%N -> src_table_hash fuel h this (BinInt.Z.of_N a) = FOk (BinInt.Z.of_nat (hashN a)).
Proof. exact tw_hash. Qed.
Print Assumptions C04_tw_hash.

(* --------------------------------------------------------------------------------------------------------------
   ... and the read-only member functions of MemoryLeakDetectorTable: hash, retrieveNode, getTotalLeaks, the leak iteration getFirstLeak / getNextLeak (and the allocation-stage variants) across the buckets, with their meaning in terms of the model's t_retrieve / t_total / t_first / t_next
   -------------------------------------------------------------------------------------------------------------- *)
From CppUVerif Require Import C04_HeapTable.
Local Open Scope Z_scope.
Theorem C04_src_table_hash_spec :
  forall (fuel : nat) (h : heap) (this : hptr) (a : N),
  (a < 2 ^ 64)%N -> src_table_hash fuel h this (BinInt.Z.of_N a) = FOk (BinInt.Z.of_nat (hashN a)).
Proof. exact src_table_hash_spec. Qed.
Print Assumptions C04_src_table_hash_spec.

Theorem C04_src_table_retrieveNode_spec :
  forall (fuel : nat) (h : heap) (bt : nat) (bss : list (list nat)) (t : table) (a : N),
  table_at h bt bss t ->
  (a < 2 ^ 64)%N ->
  (forall i : nat, i < nbuckets -> length (nth i t []) < fuel) ->
  src_table_retrieveNode fuel h (HPtr bt Z0) (BinInt.Z.of_N a) =
  FOk (ptr_of a (nth (hashN a) bss []) (nth (hashN a) t [])).
Proof. exact src_table_retrieveNode_spec. Qed.
Print Assumptions C04_src_table_retrieveNode_spec.

Theorem C04_table_retrieve_none :
  forall (h : heap) (bt : nat) (bss : list (list nat)) (t : table) (a : N),
  table_at h bt bss t -> ptr_of a (nth (hashN a) bss []) (nth (hashN a) t []) = HNull <-> t_retrieve a t = None.
Proof. exact table_retrieve_none. Qed.
Print Assumptions C04_table_retrieve_none.

Theorem C04_table_retrieve_some :
  forall (h : heap) (bt : nat) (bss : list (list nat)) (t : table) (a : N) (n : node),
  table_at h bt bss t ->
  t_retrieve a t = Some n ->
  exists (b : nat) (nxt : hptr),
  ptr_of a (nth (hashN a) bss []) (nth (hashN a) t []) = HPtr b Z0 /\
  In b (nth (hashN a) bss []) /\ In b (concat bss) /\ hblock h b = node_cells n nxt.
Proof. exact table_retrieve_some. Qed.
Print Assumptions C04_table_retrieve_some.

Theorem C04_src_table_getTotalLeaks_spec :
  forall (fuel : nat) (h : heap) (bt : nat) (bss : list (list nat)) (t : table) (per : period),
  table_at h bt bss t ->
  (forall i : nat, i < nbuckets -> length (nth i t []) < fuel) ->
  BinInt.Z.lt (BinInt.Z.of_nat (t_count t)) (BinInt.Z.pow (Zpos 2) (Zpos 64)) ->
  73 < fuel ->
  src_table_getTotalLeaks fuel h (HPtr bt Z0) (period_code per) = FOk (BinInt.Z.of_N (t_total per t)).
Proof. exact src_table_getTotalLeaks_spec. Qed.
Print Assumptions C04_src_table_getTotalLeaks_spec.

Theorem C04_src_table_getFirstLeak_spec :
  forall (fuel : nat) (h : heap) (bt : nat) (bss : list (list nat)) (t : table) (per : period),
  table_at h bt bss t ->
  (forall i : nat, i < nbuckets -> length (nth i t []) < fuel) ->
  73 < fuel ->
  src_table_getFirstLeak fuel h (HPtr bt Z0) (period_code per) =
  FOk (tptr_first (fun n : node => is_in_period n per) bss t).
Proof. exact src_table_getFirstLeak_spec. Qed.
Print Assumptions C04_src_table_getFirstLeak_spec.

Theorem C04_src_table_getFirstLeakForAllocationStage_spec :
  forall (fuel : nat) (h : heap) (bt : nat) (bss : list (list nat)) (t : table) (s : N),
  table_at h bt bss t ->
  (forall i : nat, i < nbuckets -> length (nth i t []) < fuel) ->
  73 < fuel ->
  src_table_getFirstLeakForAllocationStage fuel h (HPtr bt Z0) (BinInt.Z.of_N s) =
  FOk (tptr_first (fun n : node => is_in_stage n s) bss t).
Proof. exact src_table_getFirstLeakForAllocationStage_spec. Qed.
Print Assumptions C04_src_table_getFirstLeakForAllocationStage_spec.

Theorem C04_table_first_none :
  forall (h : heap) (bt : nat) (bss : list (list nat)) (t : table) (f : node -> bool),
  table_at h bt bss t -> tptr_first f bss t = HNull <-> t_first f t = None.
Proof. exact table_first_none. Qed.
Print Assumptions C04_table_first_none.

Theorem C04_table_first_some :
  forall (h : heap) (bt : nat) (bss : list (list nat)) (t : table) (f : node -> bool) (n : node),
  table_at h bt bss t ->
  t_first f t = Some n ->
  exists (b : nat) (nxt : hptr),
  tptr_first f bss t = HPtr b Z0 /\ In b (concat bss) /\ hblock h b = node_cells n nxt.
Proof. exact table_first_some. Qed.
Print Assumptions C04_table_first_some.

Theorem C04_src_table_getNextLeak_spec :
  forall (fuel : nat) (h : heap) (bt : nat) (bss : list (list nat)) (t : table) (i k : nat)
  (per : period) (d : node),
  table_at h bt bss t ->
  i < nbuckets ->
  k < length (nth i t []) ->
  hashN (n_addr (nth k (nth i t []) d)) = i ->
  (forall j : nat, j < nbuckets -> length (nth j t []) < fuel) ->
  72 - i < fuel ->
  src_table_getNextLeak fuel h (HPtr bt Z0) (HPtr (nth k (nth i bss []) 0) Z0) (period_code per) =
  FOk (tptr_next (fun n : node => is_in_period n per) i k bss t).
Proof. exact src_table_getNextLeak_spec. Qed.
Print Assumptions C04_src_table_getNextLeak_spec.

Theorem C04_src_table_getNextLeakForAllocationStage_spec :
  forall (fuel : nat) (h : heap) (bt : nat) (bss : list (list nat)) (t : table) (i k : nat) (s : N) (d : node),
  table_at h bt bss t ->
  i < nbuckets ->
  k < length (nth i t []) ->
  hashN (n_addr (nth k (nth i t []) d)) = i ->
  (forall j : nat, j < nbuckets -> length (nth j t []) < fuel) ->
  72 - i < fuel ->
  src_table_getNextLeakForAllocationStage fuel h (HPtr bt Z0) (HPtr (nth k (nth i bss []) 0) Z0)
  (BinInt.Z.of_N s) = FOk (tptr_next (fun n : node => is_in_stage n s) i k bss t).
Proof. exact src_table_getNextLeakForAllocationStage_spec. Qed.
Print Assumptions C04_src_table_getNextLeakForAllocationStage_spec.

Theorem C04_tptr_next_none :
  forall (h : heap) (bt : nat) (bss : list (list nat)) (t : table) (f : node -> bool) (i k : nat) (d : node),
  table_at h bt bss t ->
  i < nbuckets ->
  k < length (nth i t []) ->
  hashN (n_addr (nth k (nth i t []) d)) = i ->
  NoDup (map n_addr (nth i t [])) -> tptr_next f i k bss t = HNull <-> t_next f (nth k (nth i t []) d) t = None.
Proof. exact tptr_next_none. Qed.
Print Assumptions C04_tptr_next_none.

Theorem C04_tptr_next_some :
  forall (h : heap) (bt : nat) (bss : list (list nat)) (t : table) (f : node -> bool) (i k : nat) (d n : node),
  table_at h bt bss t ->
  i < nbuckets ->
  k < length (nth i t []) ->
  hashN (n_addr (nth k (nth i t []) d)) = i ->
  NoDup (map n_addr (nth i t [])) ->
  t_next f (nth k (nth i t []) d) t = Some n ->
  exists (b : nat) (nxt : hptr),
  tptr_next f i k bss t = HPtr b Z0 /\ In b (concat bss) /\ hblock h b = node_cells n nxt.
Proof. exact tptr_next_some. Qed.
Print Assumptions C04_tptr_next_some.
