(* C04 -- Leak accounting is exact for every allocation history.
   Only statements; every proof is `exact <lemma>` into C04_Lists.v / C04_Table.v / C04_Proofs.v.
   flat t = concatenation of the buckets; Inv t = bucket count is hash_prime (regenerated from the source),
   every node sits in the bucket its address hashes to, no two nodes share an address. *)
From Coq Require Import NArith List Bool Permutation.
From CppUVerif Require Import gen.Gen_Common C04_Model C04_Lists C04_Table C04_Proofs.
From CppUVerif Require C04_LeafTie.
Import ListNotations.

(* refinement, all histories: after any valid operation sequence the table satisfies the invariants, holds exactly the
   records of the abstract map address -> record, and period / stage / sequence counter agree *)
Theorem C04_refines : forall ops, valid ops = true -> R (c_exec d_init ops) (a_exec a_init ops).
Proof. exact refines. Qed.
Print Assumptions C04_refines.

(* one step: every operation commutes with its abstract counterpart and its observation passes the oracle *)
Theorem C04_step_refines : forall st a o, R st a -> op_ok a o = true ->
  R (fst (c_step st o)) (fst (a_step a o)) /\ item_ok (snd (c_step st o)) (snd (a_step a o)).
Proof. exact step_refines. Qed.
Print Assumptions C04_step_refines.

(* in every reachable state, for every period: the report enumerates exactly the outstanding blocks of that period
   (each once), the total is their number, and "no leaks" iff there are none *)
Theorem C04_outstanding_exact : forall ops p, valid ops = true ->
  let st := c_exec d_init ops in let out := filter (applies p) (a_recs (a_exec a_init ops)) in
  exists l, d_report p st = Some l /\ Permutation l out /\ NoDup (addrs l) /\
            t_total p (d_tbl st) = N.of_nat (length out) /\ (l = [] <-> out = []).
Proof. exact outstanding_exact. Qed.
Print Assumptions C04_outstanding_exact.

(* the report item itself: "no leaks", the footer total and the malloc note are those of the outstanding set of the period,
   the entries are exactly that set *)
Theorem C04_report_item_exact : forall ops p, valid ops = true ->
  let st := c_exec d_init ops in let out := filter (applies p) (a_recs (a_exec a_init ops)) in
  exists l, Permutation l out /\
    snd (c_step st (OpReport p)) =
    Some (OR (match out with [] => true | _ => false end) false (N.of_nat (length out)) (map entry_of l) (existsb is_malloc out)).
Proof. exact report_item_exact. Qed.
Print Assumptions C04_report_item_exact.

(* an allocation or reallocation whose underlying allocator call fails (the block, or the separate bookkeeping record) changes
   nothing: the abstract map is untouched, the table still holds exactly that map with the same counters, and every total and
   report answers as before (reallocMemory: the record taken out is put back) *)
Theorem C04_failed_request_changes_nothing : forall st a o, R st a -> is_failed_request o = true ->
  let st' := fst (c_step st o) in
  fst (a_step a o) = a /\ R st' a /\ Permutation (flat (d_tbl st')) (flat (d_tbl st)) /\
  d_period st' = d_period st /\ d_stage st' = d_stage st /\ d_seq st' = d_seq st /\
  (forall p, t_total p (d_tbl st') = t_total p (d_tbl st)) /\
  (forall p, exists l l', d_report p st = Some l /\ d_report p st' = Some l' /\ Permutation l' l).
Proof. exact failed_request_changes_nothing. Qed.
Print Assumptions C04_failed_request_changes_nothing.

(* the code before repair 3db681c (record of the still valid block dropped after a failed realloc) does not have that property *)
Theorem C04_realloc_failed_old_refuted : ~ (forall st a x, R st a -> R (fst (d_realloc_failed_old st x)) a).
Proof. exact realloc_failed_old_refuted. Qed.
Print Assumptions C04_realloc_failed_old_refuted.

(* releasing address a removes exactly the node with that address -- all others keep their place, same-bucket neighbours
   before and after it included -- and answers "not found" iff a is not outstanding *)
Theorem C04_release_exact : forall a t, Inv t ->
  match t_remove a t with
  | (None, t') => ~ In a (addrs (flat t)) /\ flat t' = flat t
  | (Some n, t') => n_addr n = a /\ exists A B, flat t = A ++ n :: B /\ flat t' = A ++ B /\ ~ In a (addrs (A ++ B))
  end /\ Inv (snd (t_remove a t)).
Proof. exact release_exact. Qed.
Print Assumptions C04_release_exact.

(* clearAllAccounting(p) removes exactly the records of period p *)
Theorem C04_clear_exact : forall p t, Inv t ->
  flat (t_clear p t) = filter (fun n => negb (applies p n)) (flat t) /\ Inv (t_clear p t).
Proof. exact clear_exact. Qed.
Print Assumptions C04_clear_exact.

(* deallocAllMemoryInCurrentAllocationStage releases exactly the blocks of the current stage, never reports a failure, never runs out of fuel *)
Theorem C04_stage_exact : forall st, Inv (d_tbl st) ->
  exists t', d_stage_free st = Some (with_tbl st t', 0%N) /\
             flat t' = filter (fun c => negb (n_stage c =? d_stage st)%N) (flat (d_tbl st)) /\ Inv t'.
Proof. exact stage_free_spec. Qed.
Print Assumptions C04_stage_exact.

(* markCheckingPeriodLeaksAsNonCheckingPeriod turns every checking record into an enabled one and touches nothing else *)
Theorem C04_demote_exact : forall st, Inv (d_tbl st) ->
  exists t', d_mark st = Some (with_tbl st t') /\ flat t' = map demote (flat (d_tbl st)) /\ Inv t'.
Proof. exact mark_spec. Qed.
Print Assumptions C04_demote_exact.

(* getFirstLeak/getNextLeak across buckets hand out every matching node exactly once (in bucket order) *)
Theorem C04_iteration_complete : forall p st, Inv (d_tbl st) ->
  d_report p st = Some (filter (applies p) (flat (d_tbl st))).
Proof. exact iteration_complete. Qed.
Print Assumptions C04_iteration_complete.

(* isInPeriod as written equals the declarative table; the prev/cur walks equal remove-first and filter *)
Theorem C04_in_period_declarative : forall n p, is_in_period n p = applies p n.
Proof. exact in_period_applies. Qed.
Print Assumptions C04_in_period_declarative.

Theorem C04_walks_textbook : forall a p b,
  l_remove a b = (l_retrieve a b, rm a b) /\ l_clear p b = filter (fun c => negb (applies p c)) b.
Proof. exact walks_textbook. Qed.
Print Assumptions C04_walks_textbook.

(* the executable oracle used on the implementation's observations accepts every model observation *)
Theorem C04_run_meets_spec : forall ops, valid ops = true -> spec ops (run ops) = true.
Proof. exact run_meets_spec. Qed.
Print Assumptions C04_run_meets_spec.

(* the leaf functions of the table model ARE the source: bucket hash, isInPeriod and isInAllocationStage equal the functions
   tools/cxx2coq.py regenerates from clang's AST of MemoryLeakDetector.cpp on every run (gen/Gen_Leaf.v) *)
Theorem C04_leaf_functions_are_the_source : C04_LeafTie.C04_leaf_functions_are_the_source_stmt.
Proof. exact C04_LeafTie.C04_leaf_functions_are_the_source. Qed.
Print Assumptions C04_leaf_functions_are_the_source.

(* --------------------------------------------------------------------------------------------------------------
   The table code of the model IS the source: every member function of MemoryLeakDetectorList as tools/cxx2heap.py regenerates it from MemoryLeakDetector.cpp on every run (gen/Gen_HeapC04.v; objects are blocks of cells of lib/CHeap.v, C04_HeapRep.v says how a heap represents a bucket: node_cells / chain / list_at, with the cell order pinned to the class definition), run on a heap that represents a model bucket, returns the pointer / number that represents the model function's result and, for the storing functions, a heap that represents the model's new bucket -- every block outside the list left unchanged, no access outside the objects (FOk), termination within a fuel just above the bucket length
   -------------------------------------------------------------------------------------------------------------- *)
From CppUVerif Require Import lib.CSem lib.CMem lib.CHeap gen.Gen_HeapC04 C04_HeapRep C04_HeapList C04_HeapListW.
Local Open Scope Z_scope.
Theorem C04_node_layout_is_the_source :
  off_MemoryLeakDetectorNode_size_ = Z0 /\
  off_MemoryLeakDetectorNode_number_ = Zpos 1 /\
  off_MemoryLeakDetectorNode_memory_ = Zpos 2 /\
  off_MemoryLeakDetectorNode_file_ = Zpos 3 /\
  off_MemoryLeakDetectorNode_line_ = Zpos 4 /\
  off_MemoryLeakDetectorNode_allocator_ = Zpos 5 /\
  off_MemoryLeakDetectorNode_period_ = Zpos 6 /\
  off_MemoryLeakDetectorNode_allocation_stage_ = Zpos 7 /\
  off_MemoryLeakDetectorNode_next_ = Zpos 8 /\
  cells_MemoryLeakDetectorNode = Zpos 9 /\
  off_MemoryLeakDetectorList_head_ = Z0 /\
  cells_MemoryLeakDetectorList = Zpos 1 /\
  off_MemoryLeakDetectorTable_table_ = Z0 /\ cells_MemoryLeakDetectorTable = BinInt.Z.of_N hash_prime.
Proof. exact node_layout_is_the_source. Qed.
Print Assumptions C04_node_layout_is_the_source.

Theorem C04_src_list_isInPeriod_spec :
  forall (fuel : nat) (h : heap) (this : hptr) (b : nat) (n : node) (nxt : hptr) (p : period),
  hblock h b = node_cells n nxt ->
  src_list_isInPeriod fuel h this (HPtr b Z0) (period_code p) = FOk (b2z (is_in_period n p)).
Proof. exact src_list_isInPeriod_spec. Qed.
Print Assumptions C04_src_list_isInPeriod_spec.

Theorem C04_src_list_isInAllocationStage_spec :
  forall (fuel : nat) (h : heap) (this : hptr) (b : nat) (n : node) (nxt : hptr) (s : N),
  hblock h b = node_cells n nxt ->
  src_list_isInAllocationStage fuel h this (HPtr b Z0) (BinInt.Z.of_N s) = FOk (b2z (is_in_stage n s)).
Proof. exact src_list_isInAllocationStage_spec. Qed.
Print Assumptions C04_src_list_isInAllocationStage_spec.

Theorem C04_src_list_getLeakFrom_spec :
  forall (fuel : nat) (h : heap) (this p : hptr) (bs : list nat) (ns : list node) (per : period),
  chain h p bs ns ->
  length ns < fuel ->
  src_list_getLeakFrom fuel h this p (period_code per) =
  FOk (ptr_first (fun n : node => is_in_period n per) bs ns).
Proof. exact src_list_getLeakFrom_spec. Qed.
Print Assumptions C04_src_list_getLeakFrom_spec.

Theorem C04_src_list_getLeakForAllocationStageFrom_spec :
  forall (fuel : nat) (h : heap) (this p : hptr) (bs : list nat) (ns : list node) (s : N),
  chain h p bs ns ->
  length ns < fuel ->
  src_list_getLeakForAllocationStageFrom fuel h this p (BinInt.Z.of_N s) =
  FOk (ptr_first (fun n : node => is_in_stage n s) bs ns).
Proof. exact src_list_getLeakForAllocationStageFrom_spec. Qed.
Print Assumptions C04_src_list_getLeakForAllocationStageFrom_spec.

Theorem C04_ptr_first_none :
  forall (f : node -> bool) (bs : list nat) (ns : list node),
  length bs = length ns -> ptr_first f bs ns = HNull <-> l_leak_from f ns = None.
Proof. exact ptr_first_none. Qed.
Print Assumptions C04_ptr_first_none.

Theorem C04_ptr_first_some :
  forall (h : heap) (f : node -> bool) (ns : list node) (p : hptr) (bs : list nat) (n : node),
  chain h p bs ns ->
  l_leak_from f ns = Some n ->
  exists (b : nat) (nxt : hptr), ptr_first f bs ns = HPtr b Z0 /\ In b bs /\ hblock h b = node_cells n nxt.
Proof. exact ptr_first_some. Qed.
Print Assumptions C04_ptr_first_some.

Theorem C04_src_list_getFirstLeak_spec :
  forall (fuel : nat) (h : heap) (this : hptr) (bs : list nat) (ns : bucket) (per : period),
  list_at h this bs ns ->
  length ns < fuel ->
  src_list_getFirstLeak fuel h this (period_code per) =
  FOk (ptr_first (fun n : node => is_in_period n per) bs ns).
Proof. exact src_list_getFirstLeak_spec. Qed.
Print Assumptions C04_src_list_getFirstLeak_spec.

Theorem C04_src_list_getFirstLeakForAllocationStage_spec :
  forall (fuel : nat) (h : heap) (this : hptr) (bs : list nat) (ns : bucket) (s : N),
  list_at h this bs ns ->
  length ns < fuel ->
  src_list_getFirstLeakForAllocationStage fuel h this (BinInt.Z.of_N s) =
  FOk (ptr_first (fun n : node => is_in_stage n s) bs ns).
Proof. exact src_list_getFirstLeakForAllocationStage_spec. Qed.
Print Assumptions C04_src_list_getFirstLeakForAllocationStage_spec.

Theorem C04_src_list_getNextLeak_spec :
  forall (fuel : nat) (h : heap) (this p : hptr) (bs : list nat) (ns : list node) (k : nat) (per : period),
  chain h p bs ns ->
  k < length ns ->
  length ns < fuel ->
  src_list_getNextLeak fuel h this (HPtr (nth k bs 0) Z0) (period_code per) =
  FOk (ptr_first (fun n : node => is_in_period n per) (skipn (S k) bs) (skipn (S k) ns)).
Proof. exact src_list_getNextLeak_spec. Qed.
Print Assumptions C04_src_list_getNextLeak_spec.

Theorem C04_src_list_getNextLeakForAllocationStage_spec :
  forall (fuel : nat) (h : heap) (this p : hptr) (bs : list nat) (ns : list node) (k : nat) (s : N),
  chain h p bs ns ->
  k < length ns ->
  length ns < fuel ->
  src_list_getNextLeakForAllocationStage fuel h this (HPtr (nth k bs 0) Z0) (BinInt.Z.of_N s) =
  FOk (ptr_first (fun n : node => is_in_stage n s) (skipn (S k) bs) (skipn (S k) ns)).
Proof. exact src_list_getNextLeakForAllocationStage_spec. Qed.
Print Assumptions C04_src_list_getNextLeakForAllocationStage_spec.

Theorem C04_l_after_skipn :
  forall (d : node) (ns : list node) (k : nat),
  NoDup (map n_addr ns) -> k < length ns -> l_after (n_addr (nth k ns d)) ns = skipn (S k) ns.
Proof. exact l_after_skipn. Qed.
Print Assumptions C04_l_after_skipn.

Theorem C04_src_list_getTotalLeaks_spec :
  forall (fuel : nat) (h : heap) (this : hptr) (bs : list nat) (ns : bucket) (per : period),
  list_at h this bs ns ->
  length ns < fuel ->
  BinInt.Z.lt (BinInt.Z.of_nat (length ns)) (BinInt.Z.pow (Zpos 2) (Zpos 64)) ->
  src_list_getTotalLeaks fuel h this (period_code per) = FOk (BinInt.Z.of_N (l_total per ns)).
Proof. exact src_list_getTotalLeaks_spec. Qed.
Print Assumptions C04_src_list_getTotalLeaks_spec.

Theorem C04_src_list_retrieveNode_spec :
  forall (fuel : nat) (h : heap) (this : hptr) (bs : list nat) (ns : bucket) (a : N),
  list_at h this bs ns ->
  length ns < fuel -> src_list_retrieveNode fuel h this (BinInt.Z.of_N a) = FOk (ptr_of a bs ns).
Proof. exact src_list_retrieveNode_spec. Qed.
Print Assumptions C04_src_list_retrieveNode_spec.

Theorem C04_ptr_of_none :
  forall (a : N) (bs : list nat) (ns : list node),
  length bs = length ns -> ptr_of a bs ns = HNull <-> l_retrieve a ns = None.
Proof. exact ptr_of_none. Qed.
Print Assumptions C04_ptr_of_none.

Theorem C04_ptr_of_some :
  forall (h : heap) (a : N) (ns : list node) (p : hptr) (bs : list nat) (n : node),
  chain h p bs ns ->
  l_retrieve a ns = Some n ->
  exists (b : nat) (nxt : hptr), ptr_of a bs ns = HPtr b Z0 /\ In b bs /\ hblock h b = node_cells n nxt.
Proof. exact ptr_of_some. Qed.
Print Assumptions C04_ptr_of_some.

Theorem C04_src_list_addNewNode_full :
  forall (fuel : nat) (h : heap) (this : hptr) (bs : list nat) (ns : bucket) (b : nat) (n : node) (nxt0 : hptr),
  list_at h this bs ns ->
  node_ok n ->
  b < length h ->
  ~ In b bs ->
  match this with
  | HNull => True
  | HPtr bt _ => b <> bt
  end ->
  hblock h b = node_cells n nxt0 ->
  exists (h' : heap) (hd : hptr),
  src_list_addNewNode fuel h this (HPtr b Z0) = FOk (tt, h') /\
  list_at h' this (b :: bs) (l_add n ns) /\
  length h' = length h /\
  hload_ptr h this = Some hd /\
  hblock h' b = node_cells n hd /\
  (forall b' : nat,
  b' <> b -> match this with
  | HNull => True
  | HPtr bt _ => b' <> bt
  end -> hblock h' b' = hblock h b') /\
  match this with
  | HNull => True
  | HPtr bt i =>
  forall k : nat, k <> BinInt.Z.to_nat i -> nth_error (hblock h' bt) k = nth_error (hblock h bt) k
  end.
Proof. exact src_list_addNewNode_full. Qed.
Print Assumptions C04_src_list_addNewNode_full.

Theorem C04_src_list_removeNode_complete :
  forall (fuel : nat) (h : heap) (this : hptr) (bs : list nat) (ns : bucket) (a : N),
  list_at h this bs ns ->
  length ns < fuel ->
  exists (h' : heap) (bs' : list nat),
  src_list_removeNode fuel h this (BinInt.Z.of_N a) = FOk (ptr_of a bs ns, h') /\
  list_at h' this bs' (snd (l_remove a ns)) /\
  length h' = length h /\
  (forall b' : nat,
  match this with
  | HNull => True
  | HPtr bt _ => b' <> bt
  end -> ~ In b' bs' -> hblock h' b' = hblock h b') /\
  (forall x : nat, In x bs' <-> In x bs /\ ptr_of a bs ns <> HPtr x Z0) /\
  (forall b : nat, ptr_of a bs ns = HPtr b Z0 -> hblock h' b = hblock h b) /\
  match fst (l_remove a ns) with
  | Some n =>
  exists (b : nat) (nxt : hptr), ptr_of a bs ns = HPtr b Z0 /\ In b bs /\ hblock h' b = node_cells n nxt
  | None => ptr_of a bs ns = HNull
  end /\
  match this with
  | HNull => True
  | HPtr bt i =>
  forall k : nat, k <> BinInt.Z.to_nat i -> nth_error (hblock h' bt) k = nth_error (hblock h bt) k
  end.
Proof. exact src_list_removeNode_complete. Qed.
Print Assumptions C04_src_list_removeNode_complete.

Theorem C04_l_remove_fst :
  forall (a : N) (ns : bucket), fst (l_remove a ns) = l_retrieve a ns.
Proof. exact l_remove_fst. Qed.
Print Assumptions C04_l_remove_fst.

Theorem C04_src_list_clearAllAccounting_complete :
  forall (fuel : nat) (h : heap) (this : hptr) (bs : list nat) (ns : bucket) (per : period),
  list_at h this bs ns ->
  length ns < fuel ->
  exists h' : heap,
  src_list_clearAllAccounting fuel h this (period_code per) = FOk (tt, h') /\
  list_at h' this (w_bkeep per bs ns) (l_clear per ns) /\
  length h' = length h /\
  l_clear per ns = filter (fun c : node => negb (is_in_period c per)) ns /\
  (forall b' : nat,
  match this with
  | HNull => True
  | HPtr bt _ => b' <> bt
  end -> ~ In b' (w_bkeep per bs ns) -> hblock h' b' = hblock h b') /\
  (forall b : nat,
  In b (w_bkeep per bs ns) -> forall k : nat, k <> 8 -> nth_error (hblock h' b) k = nth_error (hblock h b) k) /\
  match this with
  | HNull => True
  | HPtr bt i =>
  forall k : nat, k <> BinInt.Z.to_nat i -> nth_error (hblock h' bt) k = nth_error (hblock h bt) k
  end.
Proof. exact src_list_clearAllAccounting_complete. Qed.
Print Assumptions C04_src_list_clearAllAccounting_complete.

(* --------------------------------------------------------------------------------------------------------------
   ... and the storing member functions of MemoryLeakDetectorTable (the 73 head cells of block bt, table_at): the bucket is chosen by the translated hash, the list-level theorem is applied to that bucket, and table_at is re-established (table_at_update)
   -------------------------------------------------------------------------------------------------------------- *)
From CppUVerif Require Import C04_HeapTableW.
Local Open Scope Z_scope.
Theorem C04_src_table_addNewNode_full :
  forall (fuel : nat) (h : heap) (bt : nat) (bss : list (list nat)) (t : table) (b : nat)
  (n : node) (nxt0 : hptr),
  table_at h bt bss t ->
  node_ok n ->
  b < length h ->
  ~ In b (concat bss) ->
  b <> bt ->
  hblock h b = node_cells n nxt0 ->
  exists (h' : heap) (hd : hptr),
  src_table_addNewNode fuel h (HPtr bt Z0) (HPtr b Z0) = FOk (tt, h') /\
  table_at h' bt (tw_set (hashN (n_addr n)) (b :: nth (hashN (n_addr n)) bss []) bss) (t_add n t) /\
  length h' = length h /\
  hload_ptr h (HPtr bt (BinInt.Z.of_nat (hashN (n_addr n)))) = Some hd /\
  hblock h' b = node_cells n hd /\
  (forall b' : nat, b' <> b -> b' <> bt -> hblock h' b' = hblock h b') /\
  (forall k : nat, k <> hashN (n_addr n) -> nth_error (hblock h' bt) k = nth_error (hblock h bt) k).
Proof. exact src_table_addNewNode_full. Qed.
Print Assumptions C04_src_table_addNewNode_full.

Theorem C04_src_table_removeNode_complete :
  forall (fuel : nat) (h : heap) (bt : nat) (bss : list (list nat)) (t : table) (a : N),
  table_at h bt bss t ->
  (a < 2 ^ 64)%N ->
  length (nth (hashN a) t []) < fuel ->
  exists (h' : heap) (bsi' : list nat),
  src_table_removeNode fuel h (HPtr bt Z0) (BinInt.Z.of_N a) =
  FOk (ptr_of a (nth (hashN a) bss []) (nth (hashN a) t []), h') /\
  table_at h' bt (tw_set (hashN a) bsi' bss) (snd (t_remove a t)) /\
  length h' = length h /\
  (forall b' : nat, b' <> bt -> ~ In b' bsi' -> hblock h' b' = hblock h b') /\
  (forall x : nat,
  In x bsi' <->
  In x (nth (hashN a) bss []) /\ ptr_of a (nth (hashN a) bss []) (nth (hashN a) t []) <> HPtr x Z0) /\
  (forall b : nat,
  ptr_of a (nth (hashN a) bss []) (nth (hashN a) t []) = HPtr b Z0 -> hblock h' b = hblock h b) /\
  match fst (t_remove a t) with
  | Some n =>
  exists (b : nat) (nxt : hptr),
  ptr_of a (nth (hashN a) bss []) (nth (hashN a) t []) = HPtr b Z0 /\
  In b (nth (hashN a) bss []) /\ hblock h' b = node_cells n nxt
  | None => ptr_of a (nth (hashN a) bss []) (nth (hashN a) t []) = HNull
  end /\ (forall k : nat, k <> hashN a -> nth_error (hblock h' bt) k = nth_error (hblock h bt) k).
Proof. exact src_table_removeNode_complete. Qed.
Print Assumptions C04_src_table_removeNode_complete.

Theorem C04_src_table_clearAllAccounting_full :
  forall (fuel : nat) (h : heap) (bt : nat) (bss : list (list nat)) (t : table) (per : period),
  table_at h bt bss t ->
  (forall i : nat, i < nbuckets -> length (nth i t []) < fuel) ->
  73 < fuel ->
  exists (h' : heap) (bss' : list (list nat)),
  src_table_clearAllAccounting fuel h (HPtr bt Z0) (period_code per) = FOk (tt, h') /\
  table_at h' bt bss' (t_clear per t) /\
  length h' = length h /\
  (forall b' : nat, b' <> bt -> ~ In b' (concat bss') -> hblock h' b' = hblock h b') /\
  (forall j : nat, nth j bss' [] = w_bkeep per (nth j bss []) (nth j t [])) /\
  (forall x : nat, In x (concat bss') -> In x (concat bss)).
Proof. exact src_table_clearAllAccounting_full. Qed.
Print Assumptions C04_src_table_clearAllAccounting_full.

Theorem C04_table_at_update :
  forall (h h' : heap) (bt : nat) (bss : list (list nat)) (t : table) (i : nat) (bsi' : list nat) (bi' : bucket),
  table_at h bt bss t ->
  i < nbuckets ->
  list_at h' (HPtr bt (BinInt.Z.of_nat i)) bsi' bi' ->
  length h' = length h ->
  (forall b' : nat, b' <> bt -> ~ In b' (nth i bss []) -> ~ In b' bsi' -> hblock h' b' = hblock h b') ->
  (forall k : nat, k <> i -> nth_error (hblock h' bt) k = nth_error (hblock h bt) k) ->
  (forall x : nat, In x bsi' -> forall j : nat, j <> i -> ~ In x (nth j bss [])) ->
  table_at h' bt (tw_set i bsi' bss) (set_b i bi' t).
Proof. exact table_at_update. Qed.
Print Assumptions C04_table_at_update.

Theorem C04_tw_hash :
  forall (fuel : nat) (h : heap) (this : hptr) (a : N),
  (a < 2 ^ 64)%N -> src_table_hash fuel h this (BinInt.Z.of_N a) = FOk (BinInt.Z.of_nat (hashN a)).
Proof. exact tw_hash. Qed.
Print Assumptions C04_tw_hash.

(* --------------------------------------------------------------------------------------------------------------
   ... and the read-only member functions of MemoryLeakDetectorTable: hash, retrieveNode, getTotalLeaks, the leak iteration getFirstLeak / getNextLeak (and the allocation-stage variants) across the buckets, with their meaning in terms of the model's t_retrieve / t_total / t_first / t_next
   -------------------------------------------------------------------------------------------------------------- *)
From CppUVerif Require Import C04_HeapTable.
Local Open Scope Z_scope.
Theorem C04_src_table_hash_spec :
  forall (fuel : nat) (h : heap) (this : hptr) (a : N),
  (a < 2 ^ 64)%N -> src_table_hash fuel h this (BinInt.Z.of_N a) = FOk (BinInt.Z.of_nat (hashN a)).
Proof. exact src_table_hash_spec. Qed.
Print Assumptions C04_src_table_hash_spec.

Theorem C04_src_table_retrieveNode_spec :
  forall (fuel : nat) (h : heap) (bt : nat) (bss : list (list nat)) (t : table) (a : N),
  table_at h bt bss t ->
  (a < 2 ^ 64)%N ->
  (forall i : nat, i < nbuckets -> length (nth i t []) < fuel) ->
  src_table_retrieveNode fuel h (HPtr bt Z0) (BinInt.Z.of_N a) =
  FOk (ptr_of a (nth (hashN a) bss []) (nth (hashN a) t [])).
Proof. exact src_table_retrieveNode_spec. Qed.
Print Assumptions C04_src_table_retrieveNode_spec.

Theorem C04_table_retrieve_none :
  forall (h : heap) (bt : nat) (bss : list (list nat)) (t : table) (a : N),
  table_at h bt bss t -> ptr_of a (nth (hashN a) bss []) (nth (hashN a) t []) = HNull <-> t_retrieve a t = None.
Proof. exact table_retrieve_none. Qed.
Print Assumptions C04_table_retrieve_none.

Theorem C04_table_retrieve_some :
  forall (h : heap) (bt : nat) (bss : list (list nat)) (t : table) (a : N) (n : node),
  table_at h bt bss t ->
  t_retrieve a t = Some n ->
  exists (b : nat) (nxt : hptr),
  ptr_of a (nth (hashN a) bss []) (nth (hashN a) t []) = HPtr b Z0 /\
  In b (nth (hashN a) bss []) /\ In b (concat bss) /\ hblock h b = node_cells n nxt.
Proof. exact table_retrieve_some. Qed.
Print Assumptions C04_table_retrieve_some.

Theorem C04_src_table_getTotalLeaks_spec :
  forall (fuel : nat) (h : heap) (bt : nat) (bss : list (list nat)) (t : table) (per : period),
  table_at h bt bss t ->
  (forall i : nat, i < nbuckets -> length (nth i t []) < fuel) ->
  BinInt.Z.lt (BinInt.Z.of_nat (t_count t)) (BinInt.Z.pow (Zpos 2) (Zpos 64)) ->
  73 < fuel ->
  src_table_getTotalLeaks fuel h (HPtr bt Z0) (period_code per) = FOk (BinInt.Z.of_N (t_total per t)).
Proof. exact src_table_getTotalLeaks_spec. Qed.
Print Assumptions C04_src_table_getTotalLeaks_spec.

Theorem C04_src_table_getFirstLeak_spec :
  forall (fuel : nat) (h : heap) (bt : nat) (bss : list (list nat)) (t : table) (per : period),
  table_at h bt bss t ->
  (forall i : nat, i < nbuckets -> length (nth i t []) < fuel) ->
  73 < fuel ->
  src_table_getFirstLeak fuel h (HPtr bt Z0) (period_code per) =
  FOk (tptr_first (fun n : node => is_in_period n per) bss t).
Proof. exact src_table_getFirstLeak_spec. Qed.
Print Assumptions C04_src_table_getFirstLeak_spec.

Theorem C04_src_table_getFirstLeakForAllocationStage_spec :
  forall (fuel : nat) (h : heap) (bt : nat) (bss : list (list nat)) (t : table) (s : N),
  table_at h bt bss t ->
  (forall i : nat, i < nbuckets -> length (nth i t []) < fuel) ->
  73 < fuel ->
  src_table_getFirstLeakForAllocationStage fuel h (HPtr bt Z0) (BinInt.Z.of_N s) =
  FOk (tptr_first (fun n : node => is_in_stage n s) bss t).
Proof. exact src_table_getFirstLeakForAllocationStage_spec. Qed.
Print Assumptions C04_src_table_getFirstLeakForAllocationStage_spec.

Theorem C04_table_first_none :
  forall (h : heap) (bt : nat) (bss : list (list nat)) (t : table) (f : node -> bool),
  table_at h bt bss t -> tptr_first f bss t = HNull <-> t_first f t = None.
Proof. exact table_first_none. Qed.
Print Assumptions C04_table_first_none.

Theorem C04_table_first_some :
  forall (h : heap) (bt : nat) (bss : list (list nat)) (t : table) (f : node -> bool) (n : node),
  table_at h bt bss t ->
  t_first f t = Some n ->
  exists (b : nat) (nxt : hptr),
  tptr_first f bss t = HPtr b Z0 /\ In b (concat bss) /\ hblock h b = node_cells n nxt.
Proof. exact table_first_some. Qed.
Print Assumptions C04_table_first_some.

Theorem C04_src_table_getNextLeak_spec :
  forall (fuel : nat) (h : heap) (bt : nat) (bss : list (list nat)) (t : table) (i k : nat)
  (per : period) (d : node),
  table_at h bt bss t ->
  i < nbuckets ->
  k < length (nth i t []) ->
  hashN (n_addr (nth k (nth i t []) d)) = i ->
  (forall j : nat, j < nbuckets -> length (nth j t []) < fuel) ->
  72 - i < fuel ->
  src_table_getNextLeak fuel h (HPtr bt Z0) (HPtr (nth k (nth i bss []) 0) Z0) (period_code per) =
  FOk (tptr_next (fun n : node => is_in_period n per) i k bss t).
Proof. exact src_table_getNextLeak_spec. Qed.
Print Assumptions C04_src_table_getNextLeak_spec.

Theorem C04_src_table_getNextLeakForAllocationStage_spec :
  forall (fuel : nat) (h : heap) (bt : nat) (bss : list (list nat)) (t : table) (i k : nat) (s : N) (d : node),
  table_at h bt bss t ->
  i < nbuckets ->
  k < length (nth i t []) ->
  hashN (n_addr (nth k (nth i t []) d)) = i ->
  (forall j : nat, j < nbuckets -> length (nth j t []) < fuel) ->
  72 - i < fuel ->
  src_table_getNextLeakForAllocationStage fuel h (HPtr bt Z0) (HPtr (nth k (nth i bss []) 0) Z0)
  (BinInt.Z.of_N s) = FOk (tptr_next (fun n : node => is_in_stage n s) i k bss t).
Proof. exact src_table_getNextLeakForAllocationStage_spec. Qed.
Print Assumptions C04_src_table_getNextLeakForAllocationStage_spec.

Theorem C04_tptr_next_none :
  forall (h : heap) (bt : nat) (bss : list (list nat)) (t : table) (f : node -> bool) (i k : nat) (d : node),
  table_at h bt bss t ->
  i < nbuckets ->
  k < length (nth i t []) ->
  hashN (n_addr (nth k (nth i t []) d)) = i ->
  NoDup (map n_addr (nth i t [])) -> tptr_next f i k bss t = HNull <-> t_next f (nth k (nth i t []) d) t = None.
Proof. exact tptr_next_none. Qed.
Print Assumptions C04_tptr_next_none.

Theorem C04_tptr_next_some :
  forall (h : heap) (bt : nat) (bss : list (list nat)) (t : table) (f : node -> bool) (i k : nat) (d n : node),
  table_at h bt bss t ->
  i < nbuckets ->
  k < length (nth i t []) ->
  hashN (n_addr (nth k (nth i t []) d)) = i ->
  NoDup (map n_addr (nth i t [])) ->
  t_next f (nth k (nth i t []) d) t = Some n ->
  exists (b : nat) (nxt : hptr),
  tptr_next f i k bss t = HPtr b Z0 /\ In b (concat bss) /\ hblock h b = node_cells n nxt.
Proof. exact tptr_next_some. Qed.
Print Assumptions C04_tptr_next_some.

(* --------------------------------------------------------------------------------------------------------------
   THE TRANSLATED SOURCE of MemoryLeakDetector's allocMemory / deallocMemory / reallocMemory / invalidateMemory / deallocAllMemoryInCurrentAllocationStage and the functions they are made of (gen/Gen_HeapC04D.v, regenerated by tools/cxx2heap.py on every run) implements the model's d_store / d_dealloc / d_realloc_failed on the heap, classifies a release as the C06 model does, and leaves the table as it was on every path that returns NULL
   -------------------------------------------------------------------------------------------------------------- *)
From CppUVerif Require Import lib.CSem lib.CMem lib.CHeap gen.Gen_HeapC04 gen.Gen_HeapC04D C04_HeapRep C07_HeapRep C04_DetRep C04_DetTie.
Local Open Scope Z_scope.
Theorem C04_detectorD_layout_is_the_source :
  off_MemoryLeakDetector_reporter_ = Z0 /\
  off_MemoryLeakDetector_current_period_ = Zpos 1 /\
  off_MemoryLeakDetector_outputBuffer_ = Zpos 2 /\
  off_MemoryLeakDetector_memoryTable_ = Zpos 3 /\
  cells_MemoryLeakDetectorTable = BinInt.Z.of_N hash_prime /\
  off_MemoryLeakDetector_doAllocationTypeChecking_ = BinInt.Z.add (Zpos 3) (BinInt.Z.of_N hash_prime) /\
  off_MemoryLeakDetector_allocationSequenceNumber_ = Zpos 77 /\
  off_MemoryLeakDetector_current_allocation_stage_ = Zpos 78 /\
  off_MemoryLeakDetector_mutex_ = Zpos 79 /\
  cells_MemoryLeakDetector = Zpos 80 /\
  off_MemoryLeakDetectorNode_size_ = Z0 /\
  off_MemoryLeakDetectorNode_number_ = Zpos 1 /\
  off_MemoryLeakDetectorNode_memory_ = Zpos 2 /\
  off_MemoryLeakDetectorNode_file_ = Zpos 3 /\
  off_MemoryLeakDetectorNode_line_ = Zpos 4 /\
  off_MemoryLeakDetectorNode_allocator_ = Zpos 5 /\
  off_MemoryLeakDetectorNode_period_ = Zpos 6 /\
  off_MemoryLeakDetectorNode_allocation_stage_ = Zpos 7 /\
  off_MemoryLeakDetectorNode_next_ = Zpos 8 /\
  cells_MemoryLeakDetectorNode = Zpos 9 /\ sizeof_MemoryLeakDetectorNode = Zpos 64.
Proof. exact detectorD_layout_is_the_source. Qed.
Print Assumptions C04_detectorD_layout_is_the_source.

Theorem C04_src_node_init_spec :
  forall (fuel : nat) (h : heap) (evs : list dev) (al nf : list Z) (il : list hptr)
  (rl gs : list Z) (b : nat) (memory number size allocator period stage file line : Z),
  b < length h ->
  length (hblock h b) = 9 ->
  src_node_init fuel h evs al nf il rl gs (HPtr b Z0) memory number size allocator period stage file line =
  FOk
  (tt,
  upd h b
  [VInt size; VInt number; VInt memory; VInt file; VInt line; VInt allocator; VInt period;
  VInt stage; nth 8 (hblock h b) (VInt Z0)], evs, al, nf, il, rl, gs).
Proof. exact src_node_init_spec. Qed.
Print Assumptions C04_src_node_init_spec.

Theorem C04_src_det_sizeOfMemoryWithCorruptionInfo_spec :
  forall (fuel : nat) (h : heap) (evs : list dev) (al nf : list Z) (il : list hptr)
  (rl gs : list Z) (this : hptr) (size : Z),
  BinInt.Z.le Z0 size /\ BinInt.Z.le size max_user_size ->
  src_det_sizeOfMemoryWithCorruptionInfo fuel h evs al nf il rl gs this size =
  FOk (size_with_guard size, h, evs, al, nf, il, rl, gs).
Proof. exact src_det_sizeOfMemoryWithCorruptionInfo_spec. Qed.
Print Assumptions C04_src_det_sizeOfMemoryWithCorruptionInfo_spec.

Theorem C04_src_det_sizeLeavesRoomForAccountingInformation_spec :
  forall (fuel : nat) (h : heap) (evs : list dev) (al nf : list Z) (il : list hptr) (rl gs : list Z) (size : Z),
  src_det_sizeLeavesRoomForAccountingInformation fuel h evs al nf il rl gs size =
  FOk (b2z (BinInt.Z.leb size max_user_size), h, evs, al, nf, il, rl, gs).
Proof. exact src_det_sizeLeavesRoomForAccountingInformation_spec. Qed.
Print Assumptions C04_src_det_sizeLeavesRoomForAccountingInformation_spec.

Theorem C04_d_mismatch_iff :
  forall (equal_type : Z -> Z -> Z) (tc : bool) (a f : Z),
  d_matching equal_type tc a f = false <-> a <> f /\ tc = true /\ z2b (equal_type f a) = false.
Proof. exact d_mismatch_iff. Qed.
Print Assumptions C04_d_mismatch_iff.

Theorem C04_src_det_checkForCorruption_spec :
  forall (actual : Z -> Z) (equal_type : Z -> Z -> Z) (fuel : nat) (h : heap) (evs : list dev)
  (al nf : list Z) (il : list hptr) (rl gs : list Z) (dt : nat) (bss : list (list nat))
  (d : det) (tc : bool) (b : nat) (n : node) (nxt : hptr) (file line allocator sep g : Z)
  (gs' : list Z),
  detector_at h dt bss d tc ->
  hblock h b = node_cells n nxt ->
  (d_matching equal_type tc (actual (BinInt.Z.of_N (n_kind n))) (actual allocator) = true -> gs = g :: gs') ->
  src_det_checkForCorruption actual equal_type fuel h evs al nf il rl gs (HPtr dt Z0)
  (HPtr b Z0) file line allocator sep =
  FOk
  (tt, h, evs ++ corr_events actual equal_type tc (HPtr b Z0) n allocator sep g, al, nf, il, rl,
  corr_guards actual equal_type tc n allocator gs).
Proof. exact src_det_checkForCorruption_spec. Qed.
Print Assumptions C04_src_det_checkForCorruption_spec.

Theorem C04_corr_events_cat :
  forall (actual : Z -> Z) (equal_type : Z -> Z -> Z) (tc : bool) (p : hptr) (n : node) (allocator sep g : Z),
  corr_events actual equal_type tc p n allocator sep g =
  match d_check actual equal_type tc n allocator g with
  | C06_Model.CMismatch => [DReport (Zpos 2) p]
  | C06_Model.CCorrupt => [DGuardCheck (guard_addr n) g; DReport (Zpos 3) p]
  | _ => DGuardCheck (guard_addr n) g :: (if z2b sep then [DNodeFree allocator p] else [])
  end.
Proof. exact corr_events_cat. Qed.
Print Assumptions C04_corr_events_cat.

Theorem C04_d_check_is_C06 :
  forall (actual : Z -> Z) (equal_type : Z -> Z -> Z) (ds : list C06_Model.adesc) (st : C06_Model.dstate)
  (n : node) (al : nat) (g : Z),
  (forall x y : nat, z2b (equal_type (BinInt.Z.of_nat x) (BinInt.Z.of_nat y)) = C06_Model.equal_type ds x y) ->
  (forall x : nat, actual (BinInt.Z.of_nat x) = BinInt.Z.of_nat (C06_Model.actual_of ds x)) ->
  z2b g = C06_Model.valid_guard (C06_Model.s_mem st) (n_addr n + n_size n) ->
  d_check actual equal_type (C06_Model.s_tc st) n (BinInt.Z.of_nat al) g = C06_Model.check ds st n al.
Proof. exact d_check_is_C06. Qed.
Print Assumptions C04_d_check_is_C06.

Theorem C04_src_det_allocMemory_oversize :
  forall (fuel : nat) (h : heap) (evs : list dev) (al nf : list Z) (il : list hptr)
  (rl gs : list Z) (this : hptr) (allocator size file line sep : Z),
  BinInt.Z.lt max_user_size size ->
  src_det_allocMemory fuel h evs al nf il rl gs this allocator size file line sep =
  FOk (Z0, h, evs, al, nf, il, rl, gs).
Proof. exact src_det_allocMemory_oversize. Qed.
Print Assumptions C04_src_det_allocMemory_oversize.

Theorem C04_src_det_allocMemory_refused :
  forall (fuel : nat) (h : heap) (evs : list dev) (al nf : list Z) (il : list hptr)
  (rl gs : list Z) (this : hptr) (allocator size file line sep : Z),
  BinInt.Z.le Z0 size /\ BinInt.Z.le size max_user_size ->
  src_det_allocMemory fuel h evs (Z0 :: al) nf il rl gs this allocator size file line sep =
  FOk (Z0, h, evs ++ [DAllocCall allocator (alloc_request sep size) Z0], al, nf, il, rl, gs).
Proof. exact src_det_allocMemory_refused. Qed.
Print Assumptions C04_src_det_allocMemory_refused.

Theorem C04_src_det_allocMemory_node_refused :
  forall (fuel : nat) (h : heap) (evs : list dev) (o : Z) (al : list Z) (r : Z) (nf : list Z)
  (il : list hptr) (rl gs : list Z) (this : hptr) (allocator size file line sep : Z),
  BinInt.Z.le Z0 size /\ BinInt.Z.le size max_user_size ->
  o <> Z0 ->
  z2b sep = true ->
  r <> Z0 ->
  src_det_allocMemory fuel h evs (o :: al) (r :: nf) il rl gs this allocator size file line sep =
  FOk
  (Z0, h,
  evs ++ [DAllocCall allocator (size_with_guard size) o; DNodeRefused allocator; DFreeCall allocator o size],
  al, nf, il, rl, gs).
Proof. exact src_det_allocMemory_node_refused. Qed.
Print Assumptions C04_src_det_allocMemory_node_refused.

Theorem C04_src_det_allocMemory_separate :
  forall (fuel : nat) (h : heap) (evs : list dev) (al nf : list Z) (il : list hptr)
  (rl gs : list Z) (dt : nat) (bss : list (list nat)) (d : det) (tc : bool) (a size kind file line : N)
  (sep : Z),
  detector_at h dt bss d tc ->
  (size <= 2 ^ 64 - 76)%N ->
  (a < 2 ^ 64)%N ->
  a <> 0%N ->
  (line < 2 ^ 64)%N ->
  (d_seq d + 1 < 2 ^ 32)%N ->
  z2b sep = true ->
  exists (h' : heap) (hd : hptr),
  src_det_allocMemory fuel h evs (BinInt.Z.of_N a :: al) (Z0 :: nf) il rl gs (HPtr dt Z0)
  (BinInt.Z.of_N kind) (BinInt.Z.of_N size) (BinInt.Z.of_N file) (BinInt.Z.of_N line) sep =
  FOk
  (BinInt.Z.of_N a, h',
  evs ++
  [DAllocCall (BinInt.Z.of_N kind) (size_with_guard (BinInt.Z.of_N size)) (BinInt.Z.of_N a);
  DNodeAlloc (BinInt.Z.of_N kind) (HPtr (length h) Z0);
  DGuardWrite (guard_addr (new_node d a size kind file line))], al, nf, il, rl, gs) /\
  detector_at h' dt (tw_set (hashN a) (length h :: nth (hashN a) bss []) bss)
  (d_store d a size kind file line) tc /\
  length h' = S (length h) /\
  hblock h' (length h) = node_cells (new_node d a size kind file line) hd /\
  (forall b' : nat, b' < length h -> b' <> dt -> hblock h' b' = hblock h b').
Proof. exact src_det_allocMemory_separate. Qed.
Print Assumptions C04_src_det_allocMemory_separate.

Theorem C04_src_det_allocMemory_inline :
  forall (fuel : nat) (h : heap) (evs : list dev) (al nf : list Z) (il : list hptr)
  (rl gs : list Z) (dt : nat) (bss : list (list nat)) (d : det) (tc : bool) (nb : nat)
  (a size kind file line : N) (sep : Z),
  detector_at h dt bss d tc ->
  (size <= 2 ^ 64 - 76)%N ->
  (a < 2 ^ 64)%N ->
  a <> 0%N ->
  (line < 2 ^ 64)%N ->
  (d_seq d + 1 < 2 ^ 32)%N ->
  z2b sep = false ->
  nb < length h ->
  length (hblock h nb) = 9 ->
  nb <> dt ->
  ~ In nb (concat bss) ->
  exists (h' : heap) (hd : hptr),
  src_det_allocMemory fuel h evs (BinInt.Z.of_N a :: al) nf (HPtr nb Z0 :: il) rl gs
  (HPtr dt Z0) (BinInt.Z.of_N kind) (BinInt.Z.of_N size) (BinInt.Z.of_N file) (BinInt.Z.of_N line) sep =
  FOk
  (BinInt.Z.of_N a, h',
  evs ++
  [DAllocCall (BinInt.Z.of_N kind) (BinInt.Z.add (size_with_guard (BinInt.Z.of_N size)) (Zpos 64))
  (BinInt.Z.of_N a); DInline (BinInt.Z.of_N a) (BinInt.Z.of_N size) (HPtr nb Z0);
  DGuardWrite (guard_addr (new_node d a size kind file line))], al, nf, il, rl, gs) /\
  detector_at h' dt (tw_set (hashN a) (nb :: nth (hashN a) bss []) bss) (d_store d a size kind file line) tc /\
  length h' = length h /\
  hblock h' nb = node_cells (new_node d a size kind file line) hd /\
  (forall b' : nat, b' <> nb -> b' <> dt -> hblock h' b' = hblock h b').
Proof. exact src_det_allocMemory_inline. Qed.
Print Assumptions C04_src_det_allocMemory_inline.

Theorem C04_src_det_deallocMemory_null :
  forall (actual : Z -> Z) (equal_type : Z -> Z -> Z) (destroyed : Z -> Z) (fuel : nat)
  (h : heap) (evs : list dev) (al nf : list Z) (il : list hptr) (rl gs : list Z) (this : hptr)
  (allocator file line sep : Z),
  src_det_deallocMemory actual equal_type destroyed fuel h evs al nf il rl gs this allocator Z0 file line sep =
  FOk (tt, h, evs, al, nf, il, rl, gs).
Proof. exact src_det_deallocMemory_null. Qed.
Print Assumptions C04_src_det_deallocMemory_null.

Theorem C04_src_det_deallocMemory_spec :
  forall (actual : Z -> Z) (equal_type : Z -> Z -> Z) (destroyed : Z -> Z) (fuel : nat)
  (h : heap) (evs : list dev) (al nf : list Z) (il : list hptr) (rl gs : list Z) (dt : nat)
  (bss : list (list nat)) (d : det) (tc : bool) (a : N) (allocator file line sep g : Z)
  (gs' : list Z),
  detector_at h dt bss d tc ->
  (a < 2 ^ 64)%N ->
  a <> 0%N ->
  length (nth (hashN a) (d_tbl d) []) < fuel ->
  (forall n : node,
  fst (t_remove a (d_tbl d)) = Some n ->
  z2b (destroyed allocator) = false ->
  d_matching equal_type tc (actual (BinInt.Z.of_N (n_kind n))) (actual allocator) = true -> gs = g :: gs') ->
  exists (h' : heap) (bss' : list (list nat)),
  src_det_deallocMemory actual equal_type destroyed fuel h evs al nf il rl gs (HPtr dt Z0) allocator
  (BinInt.Z.of_N a) file line sep =
  FOk
  (tt, h',
  evs ++
  dealloc_events actual equal_type destroyed tc
  (ptr_of a (nth (hashN a) bss []) (nth (hashN a) (d_tbl d) [])) (fst (t_remove a (d_tbl d))) allocator
  (BinInt.Z.of_N a) sep g, al, nf, il, rl,
  dealloc_guards actual equal_type destroyed tc (fst (t_remove a (d_tbl d))) allocator gs) /\
  detector_at h' dt bss' (fst (d_dealloc d a)) tc /\
  length h' = length h /\
  (forall b' : nat, b' <> dt -> ~ In b' (concat bss) -> hblock h' b' = hblock h b') /\
  match fst (t_remove a (d_tbl d)) with
  | Some n =>
  exists (b : nat) (nxt : hptr),
  ptr_of a (nth (hashN a) bss []) (nth (hashN a) (d_tbl d) []) = HPtr b Z0 /\
  hblock h' b = node_cells n nxt /\
  hblock h b = node_cells n nxt /\
  In b (concat bss) /\
  ~ In b (concat bss') /\
  (forall x : nat, In x (concat bss) -> x <> b -> In x (concat bss')) /\
  (forall (x : nat) (n0 : node) (nx : hptr),
  In x (concat bss') ->
  hblock h x = node_cells n0 nx -> exists nx' : hptr, hblock h' x = node_cells n0 nx')
  | None => ptr_of a (nth (hashN a) bss []) (nth (hashN a) (d_tbl d) []) = HNull
  end.
Proof. exact src_det_deallocMemory_spec. Qed.
Print Assumptions C04_src_det_deallocMemory_spec.

Theorem C04_dealloc_reports :
  forall (actual : Z -> Z) (equal_type : Z -> Z -> Z) (destroyed : Z -> Z) (tc : bool)
  (p : hptr) (r : option node) (allocator a sep g : Z),
  filter is_report (dealloc_events actual equal_type destroyed tc p r allocator a sep g) =
  match dealloc_cat actual equal_type destroyed tc r allocator g with
  | C06_Model.CNone => []
  | C06_Model.CNonAlloc => [DReport (Zpos 1) HNull]
  | C06_Model.CMismatch => [DReport (Zpos 2) p]
  | C06_Model.CCorrupt => [DReport (Zpos 3) p]
  end.
Proof. exact dealloc_reports. Qed.
Print Assumptions C04_dealloc_reports.

Theorem C04_dealloc_at_most_one_report :
  forall (actual : Z -> Z) (equal_type : Z -> Z -> Z) (destroyed : Z -> Z) (tc : bool)
  (p : hptr) (r : option node) (allocator a sep g : Z),
  length (filter is_report (dealloc_events actual equal_type destroyed tc p r allocator a sep g)) <= 1.
Proof. exact dealloc_at_most_one_report. Qed.
Print Assumptions C04_dealloc_at_most_one_report.

Theorem C04_dealloc_frees :
  forall (actual : Z -> Z) (equal_type : Z -> Z -> Z) (destroyed : Z -> Z) (tc : bool)
  (p : hptr) (r : option node) (allocator a sep g : Z),
  filter (fun e : dev => match e with
  | DFreeCall _ _ _ => true
  | _ => false
  end) (dealloc_events actual equal_type destroyed tc p r allocator a sep g) =
  match r with
  | Some n => if z2b (destroyed allocator) then [] else [DFreeCall allocator a (BinInt.Z.of_N (n_size n))]
  | None => []
  end.
Proof. exact dealloc_frees. Qed.
Print Assumptions C04_dealloc_frees.

Theorem C04_src_det_reallocMemory_oversize :
  forall (actual : Z -> Z) (equal_type : Z -> Z -> Z) (fuel : nat) (h : heap) (evs : list dev)
  (al nf : list Z) (il : list hptr) (rl gs : list Z) (this : hptr) (allocator memory size file line sep : Z),
  BinInt.Z.lt max_user_size size ->
  src_det_reallocMemory actual equal_type fuel h evs al nf il rl gs this allocator memory size file line sep =
  FOk (Z0, h, evs, al, nf, il, rl, gs).
Proof. exact src_det_reallocMemory_oversize. Qed.
Print Assumptions C04_src_det_reallocMemory_oversize.

Theorem C04_src_det_reallocMemory_unknown :
  forall (actual : Z -> Z) (equal_type : Z -> Z -> Z) (fuel : nat) (h : heap) (evs : list dev)
  (al nf : list Z) (il : list hptr) (rl gs : list Z) (dt : nat) (bss : list (list nat))
  (d : det) (tc : bool) (a : N) (allocator size file line sep : Z),
  detector_at h dt bss d tc ->
  (a < 2 ^ 64)%N ->
  a <> 0%N ->
  length (nth (hashN a) (d_tbl d) []) < fuel ->
  BinInt.Z.le size max_user_size ->
  fst (t_remove a (d_tbl d)) = None ->
  exists (h' : heap) (bss' : list (list nat)),
  src_det_reallocMemory actual equal_type fuel h evs al nf il rl gs (HPtr dt Z0) allocator
  (BinInt.Z.of_N a) size file line sep = FOk (Z0, h', evs ++ [DReport (Zpos 1) HNull], al, nf, il, rl, gs) /\
  detector_at h' dt bss' d tc /\
  fst (d_realloc_failed d a) = d /\
  snd (d_realloc_failed d a) = true /\
  length h' = length h /\ (forall b' : nat, b' <> dt -> ~ In b' (concat bss) -> hblock h' b' = hblock h b').
Proof. exact src_det_reallocMemory_unknown. Qed.
Print Assumptions C04_src_det_reallocMemory_unknown.

Theorem C04_src_det_reallocMemory_node_refused :
  forall (actual : Z -> Z) (equal_type : Z -> Z -> Z) (fuel : nat) (h : heap) (evs : list dev)
  (al : list Z) (r : Z) (nf : list Z) (il : list hptr) (rl gs : list Z) (dt : nat)
  (bss : list (list nat)) (d : det) (tc : bool) (a : N) (n : node) (allocator size file line sep g : Z)
  (gs' : list Z),
  detector_at h dt bss d tc ->
  (a < 2 ^ 64)%N ->
  a <> 0%N ->
  length (nth (hashN a) (d_tbl d) []) < fuel ->
  BinInt.Z.le size max_user_size ->
  fst (t_remove a (d_tbl d)) = Some n ->
  (d_matching equal_type tc (actual (BinInt.Z.of_N (n_kind n))) (actual allocator) = true -> gs = g :: gs') ->
  z2b sep = true ->
  r <> Z0 ->
  exists (h3 : heap) (bss3 : list (list nat)),
  src_det_reallocMemory actual equal_type fuel h evs al (r :: nf) il rl gs (HPtr dt Z0) allocator
  (BinInt.Z.of_N a) size file line sep =
  FOk
  (Z0, h3,
  evs ++
  corr_events actual equal_type tc (ptr_of a (nth (hashN a) bss []) (nth (hashN a) (d_tbl d) [])) n
  allocator Z0 g ++ [DNodeRefused allocator], al, nf, il, rl,
  corr_guards actual equal_type tc n allocator gs) /\
  detector_at h3 dt bss3 (fst (d_realloc_failed d a)) tc /\
  snd (d_realloc_failed d a) = false /\
  length h3 = length h /\ (forall b' : nat, b' <> dt -> ~ In b' (concat bss) -> hblock h3 b' = hblock h b').
Proof. exact src_det_reallocMemory_node_refused. Qed.
Print Assumptions C04_src_det_reallocMemory_node_refused.

Theorem C04_src_det_reallocMemory_failed_separate :
  forall (actual : Z -> Z) (equal_type : Z -> Z -> Z) (fuel : nat) (h : heap) (evs : list dev)
  (al nf : list Z) (il : list hptr) (rl gs : list Z) (dt : nat) (bss : list (list nat))
  (d : det) (tc : bool) (a : N) (n : node) (allocator size file line sep g : Z) (gs' : list Z),
  detector_at h dt bss d tc ->
  (a < 2 ^ 64)%N ->
  a <> 0%N ->
  length (nth (hashN a) (d_tbl d) []) < fuel ->
  BinInt.Z.le Z0 size /\ BinInt.Z.le size max_user_size ->
  fst (t_remove a (d_tbl d)) = Some n ->
  (d_matching equal_type tc (actual (BinInt.Z.of_N (n_kind n))) (actual allocator) = true -> gs = g :: gs') ->
  z2b sep = true ->
  exists (h3 : heap) (bss3 : list (list nat)),
  src_det_reallocMemory actual equal_type fuel h evs al (Z0 :: nf) il (Z0 :: rl) gs
  (HPtr dt Z0) allocator (BinInt.Z.of_N a) size file line sep =
  FOk
  (Z0, h3,
  evs ++
  corr_events actual equal_type tc (ptr_of a (nth (hashN a) bss []) (nth (hashN a) (d_tbl d) [])) n
  allocator Z0 g ++
  [DNodeAlloc allocator (HPtr (length h) Z0); DRealloc (BinInt.Z.of_N a) (size_with_guard size) Z0;
  DNodeFree allocator (HPtr (length h) Z0)], al, nf, il, rl,
  corr_guards actual equal_type tc n allocator gs) /\
  detector_at h3 dt bss3 (fst (d_realloc_failed d a)) tc /\
  snd (d_realloc_failed d a) = false /\
  length h3 = S (length h) /\
  (forall b' : nat, b' < length h -> b' <> dt -> ~ In b' (concat bss) -> hblock h3 b' = hblock h b').
Proof. exact src_det_reallocMemory_failed_separate. Qed.
Print Assumptions C04_src_det_reallocMemory_failed_separate.

Theorem C04_src_det_reallocMemory_failed_inline :
  forall (actual : Z -> Z) (equal_type : Z -> Z -> Z) (fuel : nat) (h : heap) (evs : list dev)
  (al nf : list Z) (il : list hptr) (rl gs : list Z) (dt : nat) (bss : list (list nat))
  (d : det) (tc : bool) (a : N) (n : node) (allocator size file line sep g : Z) (gs' : list Z),
  detector_at h dt bss d tc ->
  (a < 2 ^ 64)%N ->
  a <> 0%N ->
  length (nth (hashN a) (d_tbl d) []) < fuel ->
  BinInt.Z.le Z0 size /\ BinInt.Z.le size max_user_size ->
  fst (t_remove a (d_tbl d)) = Some n ->
  (d_matching equal_type tc (actual (BinInt.Z.of_N (n_kind n))) (actual allocator) = true -> gs = g :: gs') ->
  z2b sep = false ->
  exists (h3 : heap) (bss3 : list (list nat)),
  src_det_reallocMemory actual equal_type fuel h evs al nf il (Z0 :: rl) gs (HPtr dt Z0) allocator
  (BinInt.Z.of_N a) size file line sep =
  FOk
  (Z0, h3,
  evs ++
  corr_events actual equal_type tc (ptr_of a (nth (hashN a) bss []) (nth (hashN a) (d_tbl d) [])) n
  allocator Z0 g ++ [DRealloc (BinInt.Z.of_N a) (BinInt.Z.add (size_with_guard size) (Zpos 64)) Z0], al,
  nf, il, rl, corr_guards actual equal_type tc n allocator gs) /\
  detector_at h3 dt bss3 (fst (d_realloc_failed d a)) tc /\
  snd (d_realloc_failed d a) = false /\
  length h3 = length h /\ (forall b' : nat, b' <> dt -> ~ In b' (concat bss) -> hblock h3 b' = hblock h b').
Proof. exact src_det_reallocMemory_failed_inline. Qed.
Print Assumptions C04_src_det_reallocMemory_failed_inline.

Theorem C04_src_det_reallocMemory_success_separate :
  forall (actual : Z -> Z) (equal_type : Z -> Z -> Z) (fuel : nat) (h : heap) (evs : list dev)
  (al nf : list Z) (il : list hptr) (rl gs : list Z) (dt : nat) (bss : list (list nat))
  (d : det) (tc : bool) (a : N) (n : node) (na size kind file line : N) (sep g : Z)
  (gs' : list Z),
  detector_at h dt bss d tc ->
  (a < 2 ^ 64)%N ->
  a <> 0%N ->
  length (nth (hashN a) (d_tbl d) []) < fuel ->
  (size <= 2 ^ 64 - 76)%N ->
  fst (t_remove a (d_tbl d)) = Some n ->
  (d_matching equal_type tc (actual (BinInt.Z.of_N (n_kind n))) (actual (BinInt.Z.of_N kind)) = true ->
  gs = g :: gs') ->
  z2b sep = true ->
  (na < 2 ^ 64)%N ->
  na <> 0%N ->
  (line < 2 ^ 64)%N ->
  (d_seq d + 1 < 2 ^ 32)%N ->
  exists (h3 : heap) (bss3 : list (list nat)),
  src_det_reallocMemory actual equal_type fuel h evs al (Z0 :: nf) il (BinInt.Z.of_N na :: rl) gs
  (HPtr dt Z0) (BinInt.Z.of_N kind) (BinInt.Z.of_N a) (BinInt.Z.of_N size) (BinInt.Z.of_N file)
  (BinInt.Z.of_N line) sep =
  FOk
  (BinInt.Z.of_N na, h3,
  evs ++
  corr_events actual equal_type tc (ptr_of a (nth (hashN a) bss []) (nth (hashN a) (d_tbl d) [])) n
  (BinInt.Z.of_N kind) Z0 g ++
  [DNodeAlloc (BinInt.Z.of_N kind) (HPtr (length h) Z0);
  DRealloc (BinInt.Z.of_N a) (size_with_guard (BinInt.Z.of_N size)) (BinInt.Z.of_N na);
  DGuardWrite (guard_addr (new_node d na size kind file line));
  DNodeFree (BinInt.Z.of_N kind) (ptr_of a (nth (hashN a) bss []) (nth (hashN a) (d_tbl d) []))], al, nf,
  il, rl, corr_guards actual equal_type tc n (BinInt.Z.of_N kind) gs) /\
  detector_at h3 dt bss3 (d_store (fst (d_dealloc d a)) na size kind file line) tc /\
  snd (d_dealloc d a) = false /\
  length h3 = S (length h) /\
  (forall b' : nat, b' < length h -> b' <> dt -> ~ In b' (concat bss) -> hblock h3 b' = hblock h b').
Proof. exact src_det_reallocMemory_success_separate. Qed.
Print Assumptions C04_src_det_reallocMemory_success_separate.

Theorem C04_src_det_reallocMemory_success_inline :
  forall (actual : Z -> Z) (equal_type : Z -> Z -> Z) (fuel : nat) (h : heap) (evs : list dev)
  (al nf : list Z) (il : list hptr) (rl gs : list Z) (dt : nat) (bss : list (list nat))
  (d : det) (tc : bool) (nb : nat) (a : N) (n : node) (na size kind file line : N)
  (sep g : Z) (gs' : list Z),
  detector_at h dt bss d tc ->
  (a < 2 ^ 64)%N ->
  a <> 0%N ->
  length (nth (hashN a) (d_tbl d) []) < fuel ->
  (size <= 2 ^ 64 - 76)%N ->
  fst (t_remove a (d_tbl d)) = Some n ->
  (d_matching equal_type tc (actual (BinInt.Z.of_N (n_kind n))) (actual (BinInt.Z.of_N kind)) = true ->
  gs = g :: gs') ->
  z2b sep = false ->
  (na < 2 ^ 64)%N ->
  na <> 0%N ->
  (line < 2 ^ 64)%N ->
  (d_seq d + 1 < 2 ^ 32)%N ->
  nb < length h /\ length (hblock h nb) = 9 /\ nb <> dt /\ ~ In nb (concat bss) \/
  HPtr nb Z0 = ptr_of a (nth (hashN a) bss []) (nth (hashN a) (d_tbl d) []) ->
  exists (h3 : heap) (bss3 : list (list nat)),
  src_det_reallocMemory actual equal_type fuel h evs al nf (HPtr nb Z0 :: il) (BinInt.Z.of_N na :: rl) gs
  (HPtr dt Z0) (BinInt.Z.of_N kind) (BinInt.Z.of_N a) (BinInt.Z.of_N size) (BinInt.Z.of_N file)
  (BinInt.Z.of_N line) sep =
  FOk
  (BinInt.Z.of_N na, h3,
  evs ++
  corr_events actual equal_type tc (ptr_of a (nth (hashN a) bss []) (nth (hashN a) (d_tbl d) [])) n
  (BinInt.Z.of_N kind) Z0 g ++
  [DRealloc (BinInt.Z.of_N a) (BinInt.Z.add (size_with_guard (BinInt.Z.of_N size)) (Zpos 64))
  (BinInt.Z.of_N na); DInline (BinInt.Z.of_N na) (BinInt.Z.of_N size) (HPtr nb Z0);
  DGuardWrite (guard_addr (new_node d na size kind file line))], al, nf, il, rl,
  corr_guards actual equal_type tc n (BinInt.Z.of_N kind) gs) /\
  detector_at h3 dt bss3 (d_store (fst (d_dealloc d a)) na size kind file line) tc /\
  snd (d_dealloc d a) = false /\
  length h3 = length h /\
  (forall b' : nat, b' <> nb -> b' <> dt -> ~ In b' (concat bss) -> hblock h3 b' = hblock h b').
Proof. exact src_det_reallocMemory_success_inline. Qed.
Print Assumptions C04_src_det_reallocMemory_success_inline.

Theorem C04_src_det_invalidateMemory_spec :
  forall (fuel : nat) (h : heap) (evs : list dev) (al nf : list Z) (il : list hptr)
  (rl gs : list Z) (dt : nat) (bss : list (list nat)) (d : det) (tc : bool) (a : N),
  detector_at h dt bss d tc ->
  (a < 2 ^ 64)%N ->
  length (nth (hashN a) (d_tbl d) []) < fuel ->
  src_det_invalidateMemory fuel h evs al nf il rl gs (HPtr dt Z0) (BinInt.Z.of_N a) =
  FOk
  (tt, h,
  evs ++
  match t_retrieve a (d_tbl d) with
  | Some n => [DPoison (BinInt.Z.of_N a) (BinInt.Z.of_N (n_size n))]
  | None => []
  end, al, nf, il, rl, gs).
Proof. exact src_det_invalidateMemory_spec. Qed.
Print Assumptions C04_src_det_invalidateMemory_spec.

Theorem C04_src_det_deallocAllMemoryInCurrentAllocationStage_spec :
  forall (actual : Z -> Z) (equal_type : Z -> Z -> Z) (destroyed : Z -> Z) (fuel : nat)
  (h : heap) (evs : list dev) (al nf : list Z) (il : list hptr) (rl gs : list Z) (dt : nat)
  (bss : list (list nat)) (d : det) (tc : bool),
  detector_at h dt bss d tc ->
  Inv (d_tbl d) ->
  no_null_key (d_tbl d) ->
  t_count (d_tbl d) + 80 < fuel ->
  t_count (d_tbl d) <= length gs ->
  exists (h' : heap) (bss' : list (list nat)) (evs' : list dev) (gs' : list Z) (st' : det),
  src_det_deallocAllMemoryInCurrentAllocationStage actual equal_type destroyed fuel h evs al nf il rl gs
  (HPtr dt Z0) = FOk (tt, h', evs ++ evs', al, nf, il, rl, gs') /\
  d_stage_free d = Some (st', 0%N) /\
  detector_at h' dt bss' st' tc /\
  Inv (d_tbl st') /\ no_null_key (d_tbl st') /\ (forall e : dev, In e evs' -> e <> DReport (Zpos 1) HNull).
Proof. exact src_det_deallocAllMemoryInCurrentAllocationStage_spec. Qed.
Print Assumptions C04_src_det_deallocAllMemoryInCurrentAllocationStage_spec.
