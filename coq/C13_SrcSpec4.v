From Coq Require Import ZArith NArith Bool List Lia. From CppUVerif Require Import lib.CSem lib.CMem lib.CMemFacts lib.Str gen.Gen_LeafC13 gen.Gen_LoopC13 C13_Text C13_Model C13_Proofs C13_Printable C13_LeafTie C13_SrcTie C13_SrcTie2 C13_SrcTie3 C13_SrcTie4 C13_SrcSpec. Import ListNotations. Local Open Scope Z_scope.
(* C13: what three TRANSLATED SimpleString methods (gen/Gen_LoopC13.v, regenerated from SimpleString.cpp on every run) do on
   well-formed C strings: replace(char, char) (stores into the object's own buffer), getPrintableSize() and
   copyToBuffer(char*, size_t) (stores into a caller buffer in another block).  `FOk v`: the method terminated within the fuel,
   made no access outside the blocks involved, and returned v / left the memory v (written with the textbook functions of
   C13_Text.v). *)

(* ------------------------------------------------------------------ lists and memory *)
Lemma upd_app_mid {A} : forall (a : list A) x t v, upd (a ++ x :: t) (length a) v = a ++ v :: t.
Proof. induction a as [|y a IH]; intros x t v; cbn; [reflexivity|]. f_equal. apply IH. Qed.

Lemma nth_error_app_mid {A} : forall (a : list A) x t, nth_error (a ++ x :: t) (length a) = Some x.
Proof. induction a as [|y a IH]; intros x t; cbn; [reflexivity|]. apply IH. Qed.

Lemma skipn_cons_ex {A} : forall (l : list A) k, (k < length l)%nat -> exists x, skipn k l = x :: skipn (S k) l.
Proof.
  induction l as [|y l IH]; intros [|k] H; cbn [length] in H; try lia.
  - exists y. reflexivity.
  - destruct (IH k) as [x Hx]; [lia|]. exists x. exact Hx.
Qed.

Lemma padd_nat m b o k : (o + k <= length (block m b))%nat ->
  padd m (Ptr b (Z.of_nat o)) (Z.of_nat k) = Some (Ptr b (Z.of_nat (o + k))).
Proof.
  intro L. cbn [padd]. replace (0 <=? Z.of_nat o + Z.of_nat k) with true by (symmetry; apply Z.leb_le; lia).
  replace (Z.of_nat o + Z.of_nat k <=? Z.of_nat (length (block m b))) with true by (symmetry; apply Z.leb_le; lia).
  cbn [andb]. f_equal. f_equal. lia.
Qed.

Lemma padd0_nat m b k : (k <= length (block m b))%nat -> padd m (Ptr b 0) (Z.of_nat k) = Some (Ptr b (Z.of_nat k)).
Proof. intro L. exact (padd_nat m b 0 k L). Qed.

(* a non-empty view is a suffix of its block *)
Lemma view_block m b o l : 0 <= o -> view m (Ptr b o) = l -> l <> [] ->
  block m b = firstn (Z.to_nat o) (block m b) ++ l /\ length (firstn (Z.to_nat o) (block m b)) = Z.to_nat o.
Proof.
  intros Ho Hv Hl. cbn [view] in Hv. replace (0 <=? o) with true in Hv by (symmetry; apply Z.leb_le; exact Ho).
  split.
  - rewrite <- Hv. symmetry. apply firstn_skipn.
  - apply firstn_length_le. destruct (Nat.le_gt_cases (Z.to_nat o) (length (block m b))) as [L|L]; [exact L|].
    rewrite skipn_all2 in Hv by lia. congruence.
Qed.

Lemma block_view m b o pre l : 0 <= o -> block m b = pre ++ l -> length pre = Z.to_nat o -> view m (Ptr b o) = l.
Proof.
  intros Ho Hb Hl. cbn [view]. replace (0 <=? o) with true by (symmetry; apply Z.leb_le; exact Ho).
  rewrite Hb, <- Hl. rewrite skipn_app, skipn_all, Nat.sub_diag. reflexivity.
Qed.

(* ------------------------------------------------------------------ size() is StrLen(buffer_) *)
Lemma src_size_eq fuel m p : src_size fuel m p = src_StrLen fuel m p.
Proof. unfold src_size. destruct (src_StrLen fuel m p); reflexivity. Qed.

Lemma src_size_spec fuel m b o s r : mem_ok m -> cstr_at m (Ptr b o) s r ->
  (length (s ++ 0%N :: r) < fuel)%nat -> Z.of_nat (length (s ++ 0%N :: r)) < M64 ->
  src_size fuel m (Ptr b o) = FOk (Z.of_nat (length s)).
Proof. intros Hm Hc Hf Hl. rewrite src_size_eq. apply (src_StrLen_spec fuel m b o s r); assumption. Qed.

(* ------------------------------------------------------------------ replace(char to, char with) *)
Lemma repl_char_cons c1 c2 c s : t_repl_char c1 c2 (c :: s) = (if (c =? c1)%N then c2 else c) :: t_repl_char c1 c2 s.
Proof. reflexivity. Qed.

(* the cells `done` have been rewritten, `rest` are still to visit; the bound s of the loop is the size computed BEFORE it *)
Lemma replaceChar_loop_spec c1 c2 b pre tl : (c1 < 256)%N -> (c2 < 256)%N ->
  forall rest fuel0 fuel done mem, mem_ok mem -> (b < length mem)%nat ->
  block mem b = pre ++ done ++ rest ++ tl ->
  Z.of_nat (length done + length rest) < M64 -> (length rest < fuel)%nat ->
  src_replaceChar_loop1 fuel0 fuel (schar c1) (schar c2) (Z.of_nat (length done + length rest))
      (Ptr b (Z.of_nat (length pre))) mem (Z.of_nat (length done))
  = Go (upd mem b (pre ++ done ++ t_repl_char c1 c2 rest ++ tl), Z.of_nat (length done + length rest)).
Proof.
  intros Hc1 Hc2. induction rest as [|c rest IH]; intros fuel0 fuel done mem Hm Hb Hblk Hl Hf;
    (destruct fuel as [|fuel]; [cbn in Hf; lia|]); cbn [src_replaceChar_loop1]; unfold c_lt; rewrite b2z_z2b.
  - replace (Z.of_nat (length done) <? Z.of_nat (length done + length (@nil N))) with false
      by (symmetry; apply Z.ltb_ge; cbn [length]; lia).
    change (t_repl_char c1 c2 []) with (@nil N). rewrite <- Hblk, upd_block_id. cbn [length]. rewrite Nat.add_0_r. reflexivity.
  - replace (Z.of_nat (length done) <? Z.of_nat (length done + length (c :: rest))) with true
      by (symmetry; apply Z.ltb_lt; cbn [length]; lia).
    assert (Hblk' : block mem b = (pre ++ done) ++ c :: (rest ++ tl)) by (rewrite Hblk, <- app_assoc; reflexivity).
    assert (Hld : nth_error (block mem b) (length pre + length done) = Some c)
      by (rewrite Hblk', <- app_length; apply nth_error_app_mid).
    assert (Hlt : (length pre + length done < length (block mem b))%nat)
      by (rewrite Hblk', !app_length; cbn [length]; lia).
    assert (Hc : (c < 256)%N).
    { pose proof (block_ok mem b Hm) as B. rewrite Hblk' in B. apply Forall_app in B. destruct B as [_ B]. exact (Forall_inv B). }
    rewrite (padd_nat mem b (length pre) (length done)) by lia. rewrite load_nat, Hld.
    unfold c_eq. rewrite (schar_inj c c1 Hc Hc1), b2z_z2b. rewrite repl_char_cons.
    rewrite (cw_u_small 64 (Z.of_nat (length done) + 1)) by (cbn [length] in Hl; unfold M64 in Hl; lia).
    replace (Z.of_nat (length done) + 1) with (Z.of_nat (length (done ++ [c2]))) by (rewrite app_length; cbn [length]; lia).
    replace (length done + length (c :: rest))%nat with (length (done ++ [c2]) + length rest)%nat
      by (rewrite app_length; cbn [length]; lia).
    assert (Hl' : Z.of_nat (length (done ++ [c2]) + length rest) < M64)
      by (rewrite app_length; cbn [length] in *; lia).
    assert (Hf' : (length rest < fuel)%nat) by (cbn [length] in Hf; lia).
    destruct (N.eqb_spec c c1) as [E|E].
    + rewrite store_nat. rewrite (byte_of_schar c2 Hc2).
      replace (Nat.ltb (length pre + length done) (length (block mem b))) with true by (symmetry; apply Nat.ltb_lt; exact Hlt).
      replace (Nat.ltb b (length mem)) with true by (symmetry; apply Nat.ltb_lt; exact Hb). cbn [andb].
      set (d1 := upd (block mem b) (length pre + length done) c2). set (mem1 := upd mem b d1).
      assert (Hd1 : d1 = pre ++ (done ++ [c2]) ++ rest ++ tl).
      { unfold d1. rewrite Hblk', <- app_length, upd_app_mid. rewrite <- !app_assoc. reflexivity. }
      assert (Hm1 : mem_ok mem1).
      { apply mem_ok_upd; [exact Hm|]. apply bytes_ok_upd; [apply block_ok; exact Hm | exact Hc2]. }
      assert (Hb1 : (b < length mem1)%nat) by (unfold mem1; rewrite upd_length; exact Hb).
      assert (Hblk1 : block mem1 b = pre ++ (done ++ [c2]) ++ rest ++ tl)
        by (unfold mem1; rewrite block_upd_same by exact Hb; exact Hd1).
      rewrite (IH fuel0 fuel (done ++ [c2]) mem1 Hm1 Hb1 Hblk1 Hl' Hf').
      unfold mem1. rewrite upd_upd. rewrite <- !app_assoc. reflexivity.
    + assert (Hblk1 : block mem b = pre ++ (done ++ [c]) ++ rest ++ tl) by (rewrite Hblk, <- !app_assoc; reflexivity).
      replace (length (done ++ [c2])) with (length (done ++ [c])) in * by (rewrite !app_length; reflexivity).
      rewrite (IH fuel0 fuel (done ++ [c]) mem Hm Hb Hblk1 Hl' Hf').
      rewrite <- !app_assoc. reflexivity.
Qed.

(* replace(to, with): every cell of the string equal to `to` becomes `with`, the rest of the block and every other block stay.
   `with` = NUL is allowed: the loop bound is the size computed before the loop, so ALL the cells 0 .. size-1 are visited and
   the block afterwards holds t_repl_char c1 0 s followed by the old terminator (as a C string the object is then cut at the
   first replaced cell; the cells behind it are rewritten all the same).  `to` = NUL changes nothing (NN s). *)
Lemma src_replaceChar_spec fuel m b o pre s r c1 c2 : mem_ok m -> (b < length m)%nat -> 0 <= o ->
  block m b = pre ++ s ++ 0%N :: r -> length pre = Z.to_nat o -> NN s -> (c1 < 256)%N -> (c2 < 256)%N ->
  (length (s ++ 0%N :: r) < fuel)%nat -> Z.of_nat (length (s ++ 0%N :: r)) < M64 ->
  src_replaceChar fuel m (Ptr b o) (schar c1) (schar c2) = FOk (tt, upd m b (pre ++ t_repl_char c1 c2 s ++ 0%N :: r)).
Proof.
  intros Hm Hb Ho Hblk Hpre Hn Hc1 Hc2 Hf Hl.
  assert (Hcs : cstr_at m (Ptr b o) s r) by (split; [exact (block_view m b o pre _ Ho Hblk Hpre) | exact Hn]).
  unfold src_replaceChar. rewrite (src_size_spec fuel m b o s r Hm Hcs Hf Hl).
  replace o with (Z.of_nat (length pre)) by lia.
  rewrite app_length in Hf, Hl.
  pose proof (replaceChar_loop_spec c1 c2 b pre (0%N :: r) Hc1 Hc2 s fuel fuel [] m Hm Hb Hblk) as H.
  cbn [length Nat.add app Z.of_nat] in H. rewrite H by lia. reflexivity.
Qed.

(* ------------------------------------------------------------------ getPrintableSize() *)
Lemma esc_len c : (c < 256)%N ->
  length (t_escape c) = if isControlShort c then 2%nat else if isControl c then 4%nat else 1%nat.
Proof. intro H. apply Nat.eqb_eq. revert c H. apply byte_sweep. vm_compute. reflexivity. Qed.

Lemma esc_len_le4 c : (length (t_escape c) <= 4)%nat.
Proof. unfold t_escape. repeat match goal with |- context [if ?b then _ else _] => destruct b end; cbn; lia. Qed.

Lemma printable_cons c s : t_printable (c :: s) = t_escape c ++ t_printable s.
Proof. reflexivity. Qed.

Lemma len_printable_le4 s : (length (t_printable s) <= 4 * length s)%nat.
Proof.
  induction s as [|c s IH]; [cbn; lia|]. rewrite printable_cons, app_length. pose proof (esc_len_le4 c). cbn [length]. lia.
Qed.

Lemma getPrintableSize_loop_spec m b pre tl : forall rest fuel0 fuel done acc,
  block m b = pre ++ done ++ rest ++ tl -> bytes_ok rest ->
  Z.of_nat (length done + length rest) < M64 ->
  0 <= acc -> acc + Z.of_nat (length (t_printable rest)) - Z.of_nat (length rest) < M64 ->
  (length rest < fuel)%nat ->
  src_getPrintableSize_loop1 fuel0 fuel m (Z.of_nat (length done + length rest)) (Ptr b (Z.of_nat (length pre))) acc
      (Z.of_nat (length done))
  = Go (acc + Z.of_nat (length (t_printable rest)) - Z.of_nat (length rest), Z.of_nat (length done + length rest)).
Proof.
  induction rest as [|c rest IH]; intros fuel0 fuel done acc Hblk Hby Hl Ha Hs Hf;
    (destruct fuel as [|fuel]; [cbn in Hf; lia|]); cbn [src_getPrintableSize_loop1]; unfold c_lt; rewrite b2z_z2b.
  - replace (Z.of_nat (length done) <? Z.of_nat (length done + length (@nil N))) with false
      by (symmetry; apply Z.ltb_ge; cbn [length]; lia).
    change (t_printable []) with (@nil N). cbn [length Z.of_nat]. f_equal. f_equal; lia.
  - replace (Z.of_nat (length done) <? Z.of_nat (length done + length (c :: rest))) with true
      by (symmetry; apply Z.ltb_lt; cbn [length]; lia).
    assert (Hblk' : block m b = (pre ++ done) ++ c :: (rest ++ tl)) by (rewrite Hblk, <- app_assoc; reflexivity).
    assert (Hld : nth_error (block m b) (length pre + length done) = Some c)
      by (rewrite Hblk', <- app_length; apply nth_error_app_mid).
    assert (Hlt : (length pre + length done < length (block m b))%nat)
      by (rewrite Hblk', !app_length; cbn [length]; lia).
    pose proof (Forall_inv Hby) as Hc. cbn beta in Hc. pose proof (Forall_inv_tail Hby) as Hby'.
    rewrite (padd_nat m b (length pre) (length done)) by lia. rewrite load_nat, Hld.
    rewrite (schar_sc c Hc), (tie_isControlShort c Hc), (tie_isControl c Hc), !b2z_z2b.
    rewrite (cw_u_small 64 (Z.of_nat (length done) + 1)) by (cbn [length] in Hl; unfold M64 in Hl; lia).
    replace (Z.of_nat (length done) + 1) with (Z.of_nat (length (done ++ [c]))) by (rewrite app_length; cbn [length]; lia).
    replace (length done + length (c :: rest))%nat with (length (done ++ [c]) + length rest)%nat
      by (rewrite app_length; cbn [length]; lia).
    assert (Hl' : Z.of_nat (length (done ++ [c]) + length rest) < M64)
      by (rewrite app_length; cbn [length] in *; lia).
    assert (Hf' : (length rest < fuel)%nat) by (cbn [length] in Hf; lia).
    assert (Hblk1 : block m b = pre ++ (done ++ [c]) ++ rest ++ tl) by (rewrite Hblk, <- !app_assoc; reflexivity).
    rewrite printable_cons, (app_length (t_escape c)) in Hs |- *. rewrite (esc_len c Hc) in Hs |- *.
    pose proof (len_printable rest) as LP. cbn [length] in Hs |- *. unfold M64 in Hs.
    destruct (isControlShort c).
    + rewrite (cw_u_small 64 (acc + 1)) by lia. rewrite (cw_u_small 64 (acc + 1)) by lia.
      rewrite (IH fuel0 fuel (done ++ [c]) (acc + 1) Hblk1 Hby' Hl') by (unfold M64; lia).
      f_equal. f_equal. lia.
    + destruct (isControl c).
      * rewrite (cw_u_small 64 (acc + 3)) by lia. rewrite (cw_u_small 64 (acc + 3)) by lia.
        rewrite (IH fuel0 fuel (done ++ [c]) (acc + 3) Hblk1 Hby' Hl') by (unfold M64; lia).
        f_equal. f_equal. lia.
      * rewrite (IH fuel0 fuel (done ++ [c]) acc Hblk1 Hby' Hl') by (unfold M64; lia).
        f_equal. f_equal. lia.
Qed.

(* getPrintableSize() = the length of the escaped text.  (0 <= o follows from cstr_at; kept as a separate hypothesis to match
   the other lemmas of this file.) *)
Lemma src_getPrintableSize_spec fuel m b o s r : mem_ok m -> cstr_at m (Ptr b o) s r -> 0 <= o ->
  (length (s ++ 0%N :: r) < fuel)%nat -> Z.of_nat (length (s ++ 0%N :: r)) < M64 -> Z.of_nat (4 * length s) < M64 ->
  src_getPrintableSize fuel m (Ptr b o) = FOk (Z.of_nat (length (t_printable s))).
Proof.
  intros Hm Hcs Ho Hf Hl H4. unfold src_getPrintableSize. rewrite (src_size_spec fuel m b o s r Hm Hcs Hf Hl).
  destruct Hcs as [Hv Hn].
  destruct (view_block m b o (s ++ 0%N :: r) Ho Hv) as [Hblk Hpre]; [destruct s; discriminate|].
  set (pre := firstn (Z.to_nat o) (block m b)) in *.
  assert (Hby : bytes_ok s).
  { pose proof (view_ok m (Ptr b o) Hm) as B. rewrite Hv in B. apply Forall_app in B. exact (proj1 B). }
  replace o with (Z.of_nat (length pre)) by lia.
  rewrite app_length in Hf, Hl.
  pose proof (len_printable_le4 s) as L4. pose proof (len_printable s) as LP.
  pose proof (getPrintableSize_loop_spec m b pre (0%N :: r) s fuel fuel [] (Z.of_nat (length s)) Hblk Hby) as H.
  cbn [length Nat.add app Z.of_nat] in H. rewrite H by lia. cbn [finish]. f_equal. lia.
Qed.

(* ------------------------------------------------------------------ copyToBuffer(char* bufferToCopy, size_t bufferSize) *)
Lemma src_copyToBuffer_null fuel m p n : src_copyToBuffer fuel m p Null n = FOk (tt, m).
Proof. reflexivity. Qed.

Lemma src_copyToBuffer_zero fuel m p q : src_copyToBuffer fuel m p q 0 = FOk (tt, m).
Proof. destruct q; reflexivity. Qed.

(* StrNCpy(dst, src, k) with k <= strlen(src): the first k cells of the destination block become the first k bytes of src;
   k = 0 is the early return of the source (nothing is read or written) *)
Lemma StrNCpy_prefix fuel m b o bd s r dst k : mem_ok m -> bd <> b -> (bd < length m)%nat -> cstr_at m (Ptr b o) s r ->
  block m bd = dst -> (k <= length s)%nat -> (k <= length dst)%nat -> Z.of_nat k < M64 -> (length (s ++ 0%N :: r) < fuel)%nat ->
  src_StrNCpy fuel m (Ptr bd 0) (Ptr b o) (Z.of_nat k) = FOk (Ptr bd 0, upd m bd (firstn k s ++ skipn k dst)).
Proof.
  intros Hm Hne Hbd Hcs Hdst Hks Hkd Hk Hf. destruct k as [|k].
  - cbn [firstn skipn app Z.of_nat]. rewrite <- Hdst, upd_block_id. reflexivity.
  - assert (Hblk : block m bd = [] ++ firstn (S k) dst ++ skipn (S k) dst) by (cbn [app]; rewrite firstn_skipn; exact Hdst).
    assert (Hmid : length (firstn (S k) dst) = Nat.min (Z.to_nat (Z.of_nat (S k))) (S (length s)))
      by (rewrite firstn_length, Nat2Z.id; lia).
    pose proof (src_StrNCpy_spec fuel m bd b o (Z.of_nat (S k)) s r [] (firstn (S k) dst) (skipn (S k) dst)
                  Hm Hne Hbd) as H.
    cbn [length app] in H. change (Z.of_nat 0) with 0 in H. rewrite H; try assumption; [|lia].
    rewrite firstn_length. replace (Nat.min (S k) (length dst)) with (S k) by lia.
    rewrite firstn_app. replace (S k - length s)%nat with 0%nat by lia. cbn [firstn]. rewrite app_nil_r. reflexivity.
Qed.

(* ... and the terminator stored behind the copied bytes *)
Lemma store_nul_after m bd s dst k : (bd < length m)%nat -> (k <= length s)%nat -> (k < length dst)%nat ->
  let mem1 := upd m bd (firstn k s ++ skipn k dst) in
  padd mem1 (Ptr bd 0) (Z.of_nat k) = Some (Ptr bd (Z.of_nat k)) /\
  store mem1 (Ptr bd (Z.of_nat k)) 0%N = Some (upd m bd (firstn k s ++ 0%N :: skipn (S k) dst)).
Proof.
  intros Hbd Hks Hkd mem1.
  assert (Hfl : length (firstn k s) = k) by (apply firstn_length_le; exact Hks).
  assert (Hblk : block mem1 bd = firstn k s ++ skipn k dst) by (unfold mem1; apply block_upd_same; exact Hbd).
  assert (Hlen : length (block mem1 bd) = length dst) by (rewrite Hblk, app_length, skipn_length, Hfl; lia).
  split.
  - apply padd0_nat. lia.
  - rewrite store_nat.
    replace (Nat.ltb k (length (block mem1 bd))) with true by (symmetry; apply Nat.ltb_lt; lia).
    replace (Nat.ltb bd (length mem1)) with true by (symmetry; apply Nat.ltb_lt; unfold mem1; rewrite upd_length; exact Hbd).
    cbn [andb]. rewrite Hblk. destruct (skipn_cons_ex dst k Hkd) as [x Hx]. rewrite Hx.
    pose proof (upd_app_mid (firstn k s) x (skipn (S k) dst) 0%N) as U. rewrite Hfl in U. rewrite U. unfold mem1. rewrite upd_upd. reflexivity.
Qed.

(* copyToBuffer into a buffer of exactly dn >= 1 cells (another block, offset 0), bufferSize = dn: the first
   min(dn - 1, length s) bytes of the string, a NUL, and the cells behind the NUL keep their old values.
   Added hypothesis: Z.of_nat dn < M64 (bufferSize is a size_t; without it `bufferSize - 1` is taken modulo 2^64). *)
Lemma src_copyToBuffer_spec fuel m b o bd s r dst dn : mem_ok m -> bd <> b -> (bd < length m)%nat ->
  cstr_at m (Ptr b o) s r -> 0 <= o -> block m bd = dst -> length dst = dn -> (1 <= dn)%nat -> Z.of_nat dn < M64 ->
  (length (s ++ 0%N :: r) < fuel)%nat -> Z.of_nat (length (s ++ 0%N :: r)) < M64 ->
  src_copyToBuffer fuel m (Ptr b o) (Ptr bd 0) (Z.of_nat dn) =
    FOk (tt, upd m bd (firstn (Nat.min (dn - 1) (length s)) s ++ 0%N :: skipn (S (Nat.min (dn - 1) (length s))) dst)).
Proof.
  intros Hm Hne Hbd Hcs Ho Hdst Hdn H1 HM Hf Hl. unfold src_copyToBuffer.
  change (z2b (p_eq (Ptr bd 0) Null)) with false. cbv iota.
  unfold c_eq, c_lt. rewrite !b2z_z2b.
  replace (Z.of_nat dn =? 0) with false by (symmetry; apply Z.eqb_neq; lia).
  rewrite (src_size_spec fuel m b o s r Hm Hcs Hf Hl).
  replace (cw 64 false (Z.of_nat dn - 1)) with (Z.of_nat (dn - 1)) by (rewrite cw_u_small; unfold M64 in HM; lia).
  assert (Hls : Z.of_nat (length s) < M64) by (rewrite app_length in Hl; lia).
  change (byte_of 0) with 0%N.
  destruct (Z.ltb_spec (Z.of_nat (dn - 1)) (Z.of_nat (length s))) as [L|L].
  - replace (Nat.min (dn - 1) (length s)) with (dn - 1)%nat by lia.
    rewrite (StrNCpy_prefix fuel m b o bd s r dst (dn - 1) Hm Hne Hbd Hcs Hdst) by (try assumption; lia).
    destruct (store_nul_after m bd s dst (dn - 1) Hbd) as [Hp Hs]; [lia | lia |]. cbv zeta in Hp, Hs.
    rewrite Hp, Hs. reflexivity.
  - replace (Nat.min (dn - 1) (length s)) with (length s) by lia.
    rewrite (StrNCpy_prefix fuel m b o bd s r dst (length s) Hm Hne Hbd Hcs Hdst) by (try assumption; lia).
    destruct (store_nul_after m bd s dst (length s) Hbd) as [Hp Hs]; [lia | lia |]. cbv zeta in Hp, Hs.
    rewrite Hp, Hs. reflexivity.
Qed.

Lemma skipn_repeat {A} (x : A) : forall k d, (k <= d)%nat -> skipn k (repeat x d) = repeat x (d - k).
Proof.
  induction k as [|k IH]; intros d K; [rewrite Nat.sub_0_r; reflexivity|].
  destruct d as [|d]; [lia|]. cbn [repeat skipn Nat.sub]. apply IH. lia.
Qed.

(* the destination of the model's specification (C13_copyToBuffer_spec: a fresh buffer of dn filler cells): t_copy_out *)
Lemma src_copyToBuffer_fresh fuel m b o bd s r dn : mem_ok m -> bd <> b -> (bd < length m)%nat ->
  cstr_at m (Ptr b o) s r -> 0 <= o -> block m bd = fresh dn -> (1 <= dn)%nat -> Z.of_nat dn < M64 ->
  (length (s ++ 0%N :: r) < fuel)%nat -> Z.of_nat (length (s ++ 0%N :: r)) < M64 ->
  src_copyToBuffer fuel m (Ptr b o) (Ptr bd 0) (Z.of_nat dn) = FOk (tt, upd m bd (t_copy_out s dn)).
Proof.
  intros Hm Hne Hbd Hcs Ho Hdst H1 HM Hf Hl.
  rewrite (src_copyToBuffer_spec fuel m b o bd s r (fresh dn) dn) by (try assumption; apply fresh_length).
  f_equal. f_equal. f_equal. unfold t_copy_out. destruct dn as [|d]; [lia|]. replace (S d - 1)%nat with d by lia.
  f_equal.
  - destruct (Nat.le_gt_cases d (length s)) as [L|L].
    + replace (Nat.min d (length s)) with d by lia. reflexivity.
    + replace (Nat.min d (length s)) with (length s) by lia. rewrite firstn_all, firstn_all2 by lia. reflexivity.
  - f_equal. unfold fresh. rewrite (skipn_repeat 205%N) by lia.
    replace (S d - S (Nat.min d (length s)))%nat with (d - length s)%nat by lia. reflexivity.
Qed.

(* ------------------------------------------------------------------ non-vacuity: the translated methods on concrete memories *)
(* "aba" at offset 1 of block 0: replace('a', 'x') *)
Example src_replaceChar_ex1 :
  src_replaceChar 10 [[7; 97; 98; 97; 0; 9]]%N (Ptr 0 1) (schar 97) (schar 120) = FOk (tt, [[7; 120; 98; 120; 0; 9]]%N).
Proof. vm_compute. reflexivity. Qed.
(* replace('a', '\0'): BOTH cells are rewritten, the loop is not cut short by the NUL it has just stored *)
Example src_replaceChar_ex2 :
  src_replaceChar 10 [[7; 97; 98; 97; 0; 9]]%N (Ptr 0 1) (schar 97) (schar 0) = FOk (tt, [[7; 0; 98; 0; 0; 9]]%N).
Proof. vm_compute. reflexivity. Qed.
(* 'a' (1), '\n' (2), 0x01 (4), 0xC8 (4) *)
Example src_getPrintableSize_ex1 :
  src_getPrintableSize 10 [[9; 97; 10; 1; 200; 0; 5]]%N (Ptr 0 1) = FOk 11.
Proof. vm_compute. reflexivity. Qed.
(* "hi!" into a 6-cell and into a 3-cell buffer *)
Example src_copyToBuffer_ex1 :
  src_copyToBuffer 10 [[104; 105; 33; 0]; [1; 2; 3; 4; 5; 6]]%N (Ptr 0 0) (Ptr 1 0) 6
  = FOk (tt, [[104; 105; 33; 0]; [104; 105; 33; 0; 5; 6]]%N).
Proof. vm_compute. reflexivity. Qed.
Example src_copyToBuffer_ex2 :
  src_copyToBuffer 10 [[104; 105; 33; 0]; [1; 2; 3]]%N (Ptr 0 0) (Ptr 1 0) 3
  = FOk (tt, [[104; 105; 33; 0]; [104; 105; 0]]%N).
Proof. vm_compute. reflexivity. Qed.
(* bufferSize = 1 and the empty string: StrNCpy is called with n = 0 (copies nothing), only the NUL is stored *)
Example src_copyToBuffer_ex3 :
  src_copyToBuffer 10 [[104; 105; 33; 0]; [1]; [0]; [4; 5]]%N (Ptr 0 0) (Ptr 1 0) 1 = FOk (tt, [[104; 105; 33; 0]; [0]; [0]; [4; 5]]%N)
  /\ src_copyToBuffer 10 [[104; 105; 33; 0]; [1]; [0]; [4; 5]]%N (Ptr 2 0) (Ptr 3 0) 2 = FOk (tt, [[104; 105; 33; 0]; [1]; [0]; [0; 5]]%N).
Proof. vm_compute. split; reflexivity. Qed.
Example src_copyToBuffer_ex4 :
  src_copyToBuffer 10 [[104; 105; 33; 0]; [1; 2]]%N (Ptr 0 0) Null 2 = FOk (tt, [[104; 105; 33; 0]; [1; 2]]%N)
  /\ src_copyToBuffer 10 [[104; 105; 33; 0]; [1; 2]]%N (Ptr 0 0) (Ptr 1 0) 0 = FOk (tt, [[104; 105; 33; 0]; [1; 2]]%N).
Proof. vm_compute. split; reflexivity. Qed.
