(* C07: how the object heap of the TRANSLATED MemoryLeakWarningPlugin / MemoryLeakDetector (gen/Gen_HeapC07.v, lib/CHeap.v)
   represents a world of the hand-written model (C07_Model.v).  The plugin object is a block of 5 cells in the declaration
   order of class MemoryLeakWarningPlugin, the detector object a block of 80 cells in which current_period_ is cell 1 and
   the allocation table is EMBEDDED: memoryTable_ starts at cell 3 (73 head cells).  table_at_off is C04_HeapRep.table_at for a
   table object that is a part of a block; the list / chain / node vocabulary is that of C04_HeapRep.v unchanged.
   Definitions, the layout check against the generated constants, and the frame facts; the theorems about the translated
   functions are in C07_HeapTable.v (table functions at an offset) and C07_HeapTie.v (detector and plugin functions). *)
From Coq Require Import ZArith NArith Bool List Lia.
From CppUVerif Require Import lib.CSem lib.CMem lib.CMemFacts lib.CHeap gen.Gen_Common gen.Gen_HeapC04 gen.Gen_HeapC07
  C04_Model C04_HeapRep C07_Model.
Import ListNotations.
Local Open Scope Z_scope.

(* ------------------------------------------------------------------ layout *)
(* the cell indices used below are those of the class definitions as clang reports them now *)
Lemma plugin_layout_is_the_source :
  off_MemoryLeakWarningPlugin_memLeakDetector_ = 0 /\ off_MemoryLeakWarningPlugin_ignoreAllWarnings_ = 1 /\
  off_MemoryLeakWarningPlugin_destroyGlobalDetectorAndTurnOfMemoryLeakDetectionInDestructor_ = 2 /\
  off_MemoryLeakWarningPlugin_expectedLeaks_ = 3 /\ off_MemoryLeakWarningPlugin_failureCount_ = 4 /\
  cells_MemoryLeakWarningPlugin = 5.
Proof. repeat split; reflexivity. Qed.
Lemma detector_layout_is_the_source :
  off_MemoryLeakDetector_reporter_ = 0 /\ off_MemoryLeakDetector_current_period_ = 1 /\ off_MemoryLeakDetector_outputBuffer_ = 2 /\
  off_MemoryLeakDetector_memoryTable_ = 3 /\ cells_MemoryLeakDetectorTable = Z.of_N hash_prime /\
  off_MemoryLeakDetector_doAllocationTypeChecking_ = 3 + Z.of_N hash_prime /\ cells_MemoryLeakDetector = 80 /\
  Gen_HeapC07.off_MemoryLeakDetectorNode_period_ = 6 /\ Gen_HeapC07.off_MemoryLeakDetectorNode_memory_ = 2 /\
  Gen_HeapC07.off_MemoryLeakDetectorNode_next_ = 8 /\ Gen_HeapC07.cells_MemoryLeakDetectorNode = 9.
Proof. repeat split; reflexivity. Qed.

(* ------------------------------------------------------------------ a table object inside a block *)
(* the MemoryLeakDetectorTable object whose first cell is cell o of block bt: cell o + i is the head_ of bucket i *)
Definition table_at_off (h : heap) (bt : nat) (o : nat) (bss : list (list nat)) (t : table) : Prop :=
  length t = nbuckets /\ length bss = nbuckets /\ (o + nbuckets <= length (hblock h bt))%nat /\ (bt < length h)%nat /\
  NoDup (concat bss) /\ ~ In bt (concat bss) /\
  forall i, (i < nbuckets)%nat -> list_at h (HPtr bt (Z.of_nat (o + i))) (nth i bss []) (nth i t []).

(* a table that is a whole block is a table at offset 0 of that block *)
Lemma table_at_is_off h bt bss t : table_at h bt bss t -> table_at_off h bt 0 bss t.
Proof.
  intros [Ht [Hbs [Hbl [Hbt [Hnd [Hnt Hall]]]]]]. unfold table_at_off.
  split; [exact Ht|]. split; [exact Hbs|]. split; [rewrite Hbl; cbn; lia|]. split; [exact Hbt|]. split; [exact Hnd|].
  split; [exact Hnt|]. intros i Hi. rewrite Nat.add_0_l. exact (Hall i Hi).
Qed.
(* and back, when the block is nothing but the table *)
Lemma table_off0_is_at h bt bss t : table_at_off h bt 0 bss t -> length (hblock h bt) = nbuckets -> table_at h bt bss t.
Proof.
  intros [Ht [Hbs [_ [Hbt [Hnd [Hnt Hall]]]]]] Hbl. unfold table_at.
  split; [exact Ht|]. split; [exact Hbs|]. split; [exact Hbl|]. split; [exact Hbt|]. split; [exact Hnd|].
  split; [exact Hnt|]. intros i Hi. specialize (Hall i Hi). rewrite Nat.add_0_l in Hall. exact Hall.
Qed.

(* ------------------------------------------------------------------ the heap with one cell rewritten *)
Definition set_cell (h : heap) (b k : nat) (v : val) : heap := upd h b (upd (hblock h b) k v).
Lemma set_cell_length h b k v : length (set_cell h b k v) = length h.
Proof. apply heap_upd_length. Qed.
Lemma set_cell_same h b k v : (b < length h)%nat -> hblock (set_cell h b k v) b = upd (hblock h b) k v.
Proof. intro H. apply hblock_upd_same. exact H. Qed.
Lemma set_cell_other h b k v b' : b' <> b -> hblock (set_cell h b k v) b' = hblock h b'.
Proof. intro H. apply hblock_upd_other. intro E. apply H. symmetry. exact E. Qed.
Lemma set_cell_block_length h b k v b' : length (hblock (set_cell h b k v) b') = length (hblock h b').
Proof.
  destruct (Nat.eq_dec b' b) as [->|Hne]; [|rewrite set_cell_other by exact Hne; reflexivity].
  destruct (Nat.lt_ge_cases b (length h)) as [L|L]; [rewrite set_cell_same by exact L; apply upd_length|].
  unfold set_cell, hblock. rewrite !nth_overflow; [reflexivity | exact L | rewrite upd_length; exact L].
Qed.
Lemma set_cell_nth_other h b k v b' k' : (b' <> b \/ k' <> k) ->
  nth_error (hblock (set_cell h b k v) b') k' = nth_error (hblock h b') k'.
Proof.
  intro H. destruct (Nat.eq_dec b' b) as [->|Hne]; [|rewrite set_cell_other by exact Hne; reflexivity].
  destruct H as [H|H]; [contradiction H; reflexivity|].
  destruct (Nat.lt_ge_cases b (length h)) as [L|L].
  - rewrite set_cell_same by exact L. apply nth_error_upd_other. intro E. apply H. symmetry. exact E.
  - unfold set_cell, hblock. rewrite !nth_overflow; [reflexivity | exact L | rewrite upd_length; exact L].
Qed.
(* loads, stores and address computations at a literal cell index *)
Lemma hload_lit h b z : 0 <= z -> hload h (HPtr b z) = nth_error (hblock h b) (Z.to_nat z).
Proof. intro H. cbn [hload]. replace (0 <=? z) with true by (symmetry; apply Z.leb_le; exact H). reflexivity. Qed.
Lemma hstore_lit h b z v : 0 <= z -> (Z.to_nat z < length (hblock h b))%nat -> (b < length h)%nat ->
  hstore h (HPtr b z) v = Some (set_cell h b (Z.to_nat z) v).
Proof.
  intros Hz Hk Hb. cbn [hstore]. replace (0 <=? z) with true by (symmetry; apply Z.leb_le; exact Hz).
  replace (z <? Z.of_nat (length (hblock h b))) with true by (symmetry; apply Z.ltb_lt; lia).
  replace (Nat.ltb b (length h)) with true by (symmetry; apply Nat.ltb_lt; exact Hb). reflexivity.
Qed.
Lemma hpadd_lit h b i k : 0 <= i + k <= Z.of_nat (length (hblock h b)) -> hpadd h (HPtr b i) k = Some (HPtr b (i + k)).
Proof.
  intro H. cbn [hpadd]. replace (0 <=? i + k) with true by (symmetry; apply Z.leb_le; lia).
  replace (i + k <=? Z.of_nat (length (hblock h b))) with true by (symmetry; apply Z.leb_le; lia). reflexivity.
Qed.

(* ------------------------------------------------------------------ frame facts *)
(* a list object only depends on its head_ cell and on the blocks of its nodes *)
Lemma list_at_frame h h' this bs ns : list_at h this bs ns -> length h' = length h ->
  hload_ptr h' this = hload_ptr h this -> (forall b, In b bs -> hblock h' b = hblock h b) -> list_at h' this bs ns.
Proof.
  intros [hd [Hl [Hc [Hd [Hok [Hlt Hth]]]]]] Hlen Hld Hfr. exists hd.
  split; [rewrite Hld; exact Hl|]. split; [exact (chain_frame h h' ns hd bs Hfr Hc)|]. split; [exact Hd|]. split; [exact Hok|].
  split; [rewrite Hlen; exact Hlt|]. destruct this as [|bt i]; [exact Hth|]. rewrite Hlen. exact Hth.
Qed.
(* an embedded table only depends on its 73 head cells and on the blocks of its nodes *)
Lemma table_at_off_frame h h' bt o bss t : table_at_off h bt o bss t -> length h' = length h ->
  length (hblock h' bt) = length (hblock h bt) ->
  (forall k, (o <= k < o + nbuckets)%nat -> nth_error (hblock h' bt) k = nth_error (hblock h bt) k) ->
  (forall b, In b (concat bss) -> hblock h' b = hblock h b) -> table_at_off h' bt o bss t.
Proof.
  intros [Ht [Hbs [Hbl [Hbt [Hnd [Hnt Hall]]]]]] Hlen Hbl' Hcells Hfr. unfold table_at_off.
  split; [exact Ht|]. split; [exact Hbs|]. split; [rewrite Hbl'; exact Hbl|]. split; [rewrite Hlen; exact Hbt|].
  split; [exact Hnd|]. split; [exact Hnt|]. intros i Hi.
  apply (list_at_frame h h' _ _ _ (Hall i Hi) Hlen).
  - unfold hload_ptr. rewrite !hload_cell. unfold cell. rewrite Hcells by lia. reflexivity.
  - intros b Hb. apply Hfr. destruct (Nat.lt_ge_cases i (length bss)) as [L|L].
    + apply in_concat. exists (nth i bss []). split; [apply nth_In; exact L | exact Hb].
    + rewrite nth_overflow in Hb by exact L. destruct Hb.
Qed.

(* ------------------------------------------------------------------ the detector and the plugin *)
(* the MemoryLeakDetector object in block dt: 80 cells, current_period_ in cell 1, memoryTable_ from cell 3 on
   (reporter_, outputBuffer_, doAllocationTypeChecking_, allocationSequenceNumber_, current_allocation_stage_ and mutex_ are
   not read or written by the translated functions and are not constrained) *)
Definition det_at (h : heap) (dt : nat) (bss : list (list nat)) (d : det) : Prop :=
  length (hblock h dt) = 80%nat /\ nth_error (hblock h dt) 1 = Some (VInt (stamp_code (d_period d))) /\
  table_at_off h dt 3 bss (d_tbl d).

(* the cells of the MemoryLeakWarningPlugin object: memLeakDetector_, ignoreAllWarnings_,
   destroyGlobalDetectorAndTurnOfMemoryLeakDetectionInDestructor_ (x: not modelled), expectedLeaks_, failureCount_ *)
Definition plugin_cells (dt : nat) (w : world) (x : Z) : list val :=
  [VPtr (HPtr dt 0); VInt (b2z (w_ignore w)); VInt x; VInt (Z.of_N (w_expected w)); VInt (Z.of_N (w_fc0 w))].

(* TestResult::failureCount_ (w_failures) lives in the ghost stream `counts`, w_err in no C++ object: not represented *)
Definition world_at (h : heap) (pl dt : nat) (bss : list (list nat)) (w : world) : Prop :=
  (exists x, hblock h pl = plugin_cells dt w x) /\ (pl < length h)%nat /\ det_at h dt bss (w_det w) /\
  pl <> dt /\ ~ In pl (concat bss) /\ (w_expected w < 2 ^ 64)%N /\ (w_fc0 w < 2 ^ 64)%N.

Lemma det_at_frame h h' dt bss d : det_at h dt bss d -> length h' = length h -> hblock h' dt = hblock h dt ->
  (forall b, In b (concat bss) -> hblock h' b = hblock h b) -> det_at h' dt bss d.
Proof.
  intros [Hl [Hp Ht]] Hlen Hdt Hfr. unfold det_at. rewrite Hdt. split; [exact Hl|]. split; [exact Hp|].
  apply (table_at_off_frame h h' dt 3 bss (d_tbl d) Ht Hlen); [rewrite Hdt; reflexivity | | exact Hfr].
  intros k _. rewrite Hdt. reflexivity.
Qed.
(* current_period_ = c *)
Lemma det_at_set_period h dt bss d s : det_at h dt bss d ->
  det_at (set_cell h dt 1 (VInt (stamp_code s))) dt bss (with_period d s).
Proof.
  intros [Hl [Hp Ht]]. pose proof Ht as [_ [_ [_ [Hdt [_ [Hnt _]]]]]]. unfold det_at. cbn [with_period d_period d_tbl].
  split; [rewrite set_cell_block_length; exact Hl|]. split.
  - rewrite set_cell_same by exact Hdt. apply nth_error_upd_same. rewrite Hl. lia.
  - apply (table_at_off_frame h _ dt 3 bss (d_tbl d) Ht); [apply set_cell_length | apply set_cell_block_length | |].
    + intros k Hk. apply set_cell_nth_other. right. lia.
    + intros b Hb. apply set_cell_other. intro E. subst b. exact (Hnt Hb).
Qed.
