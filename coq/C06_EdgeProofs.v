(* C06 -- sizes at the edges: the refusal bound is the one of the translated source, a refused request changes nothing,
   and the two seeded variants (poison capped at 1 MiB; room test after the record was taken out) are refuted by computed witnesses.
   The simulation proof (erun meets espec) is in C06_EdgeSim.v. *)
From Coq Require Import NArith ZArith List Bool Arith Lia.
From CppUVerif Require Import lib.CSem gen.Gen_Common gen.Gen_C06 gen.Gen_LeafC05 lib.Str C04_Model C06_Model C06_Proofs C06_Plug C06_Edge.
Import ListNotations.
Local Open Scope N_scope.

(* ------------------------------------------------------------------ the bound *)
Lemma room_bound_val : room_bound = 2 ^ 64 - 76.
Proof. vm_compute. reflexivity. Qed.
(* sizeLeavesRoomForAccountingInformation as tools/cxx2coq.py translates it from MemoryLeakDetector.cpp on every run
   (gen/Gen_LeafC05.v; second argument = sizeof(MemoryLeakDetectorNode)) is the model's leaves_room, for every size_t *)
Definition C06_room_test_is_the_source_stmt : Prop :=
  forall size, size <= size_max -> leaf_sizeLeavesRoom (Z.of_N size) (Z.of_N sizeof_node) = b2z (leaves_room size).
Lemma room_test_is_the_source : C06_room_test_is_the_source_stmt.
Proof.
  intros size Hs. unfold leaf_sizeLeavesRoom, leaves_room, c_le.
  replace (cw 64 false (cw 64 false (cw 32 true (- 1)) - cw 64 false (cw 64 false (3 + 8) + Z.of_N sizeof_node))) with (Z.of_N room_bound)
    by (vm_compute; reflexivity).
  f_equal. destruct (N.leb_spec size room_bound) as [H|H]; [apply Z.leb_le|apply Z.leb_gt]; lia.
Qed.
Example ex_room_test : leaf_sizeLeavesRoom (Z.of_N (size_max - 75)) 64 = 1%Z /\ leaf_sizeLeavesRoom (Z.of_N (size_max - 74)) 64 = 0%Z /\
                       leaves_room (size_max - 75) = true /\ leaves_room (size_max - 74) = false.
Proof. vm_compute. repeat split; reflexivity. Qed.

(* ------------------------------------------------------------------ a refused request changes nothing *)
(* whatever the detector holds, whatever pointer is handed in (NULL, an outstanding block, anything else), whatever the families:
   the state after the call IS the state before it, nothing is reported, the result is NULL *)
Definition C06_refused_request_changes_nothing_stmt : Prop :=
  forall ds jump st f al p a na size, leaves_room size = false ->
    e_alloc st al a size = (st, false) /\
    e_realloc ds jump st al p na size = (st, CNone, false) /\
    e_step ds jump st (EAlloc f al a size) = (st, Some (mkEI 0 0 [] (total_of (e_d st)) false)) /\
    e_step ds jump st (ERealloc al p na size) = (st, Some (mkEI 0 0 [] (total_of (e_d st)) false)).
Lemma refused_request_changes_nothing : C06_refused_request_changes_nothing_stmt.
Proof.
  intros ds jump st f al p a na size H.
  assert (A : e_alloc st al a size = (st, false)) by (unfold e_alloc; rewrite H; reflexivity).
  assert (R : e_realloc ds jump st al p na size = (st, CNone, false)) by (unfold e_realloc; rewrite H; reflexivity).
  repeat split; try assumption; cbn [e_step]; [rewrite A|rewrite R]; reflexivity.
Qed.
Example ex_refused_request : leaves_room size_max = false /\ leaves_room (size_max - 74) = false /\ leaves_room (size_max - 75) = true.
Proof. vm_compute. repeat split; reflexivity. Qed.
(* a request with room that the allocator cannot serve: allocMemory changes nothing either *)
Lemma unserved_alloc_changes_nothing st al a size : fits size = false -> e_alloc st al a size = (st, false).
Proof. intro H. unfold e_alloc. rewrite H. destruct (leaves_room size); reflexivity. Qed.

(* ------------------------------------------------------------------ the two seeded variants, refuted *)
Definition ex_ds : list adesc := [APlain [110]].
Definition st_one (size : N) : estate := fst (e_alloc e_init 0 big_base size).

(* poison capped at 1 MiB (round 6, C06-3): the byte at offset 1 MiB of a block of 1 MiB + 1 bytes survives *)
Definition capped_poison_stmt : Prop :=
  forall cap st a n, t_retrieve a (s_tbl (e_d st)) = Some n ->
    surv (c_get (e_c (e_invalidate_capped cap st (Some a))) a) 0 (n_size n) = (0, 0).
Lemma capped_poison_refuted : ~ capped_poison_stmt.
Proof.
  intro H. specialize (H 1048576 (st_one 1048577) big_base (mk_node big_base 1048577 0 SDisabled 0)).
  assert (E : t_retrieve big_base (s_tbl (e_d (st_one 1048577))) = Some (mk_node big_base 1048577 0 SDisabled 0)) by (vm_compute; reflexivity).
  specialize (H E). vm_compute in H. discriminate H.
Qed.
Example ex_capped_poison : surv (c_get (e_c (e_invalidate_capped 1048576 (st_one 1048577) (Some big_base))) big_base) 0 1048577 = (1, 1048576) /\
                           surv (c_get (e_c (e_invalidate (st_one 1048577) (Some big_base))) big_base) 0 1048577 = (0, 0).
Proof. vm_compute. split; reflexivity. Qed.

(* room test after the record was taken out (round 6, C06-2): the refused realloc loses the block *)
Definition late_room_test_stmt : Prop :=
  forall ds jump st al p na size, leaves_room size = false -> total_of (e_d (fst (fst (e_realloc_late ds jump st al p na size)))) = total_of (e_d st).
Lemma late_room_test_refuted : ~ late_room_test_stmt.
Proof.
  intro H. specialize (H ex_ds false (st_one 8) 0%nat (Some big_base) (big_base + big_slot) size_max).
  assert (E : leaves_room size_max = false) by (vm_compute; reflexivity).
  specialize (H E). vm_compute in H. discriminate H.
Qed.
Example ex_late_room_test : total_of (e_d (st_one 8)) = 1 /\
  total_of (e_d (fst (fst (e_realloc_late ex_ds false (st_one 8) 0%nat (Some big_base) (big_base + big_slot) size_max)))) = 0 /\
  e_realloc ex_ds false (st_one 8) 0%nat (Some big_base) (big_base + big_slot) size_max = (st_one 8, CNone, false).
Proof. vm_compute. repeat split; reflexivity. Qed.
