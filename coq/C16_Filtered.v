(* C16 -- runs with group / name filters and -ri: the registry still sends group started / ended for a stretch none of whose tests is
   selected, the output object writes a file for it, and the file system keeps, per name, the LAST thing written.  From the filtered
   callback order to the writes, from the writes to the files left at the end, and those files against the property. *)
From Coq Require Import NArith Bool List Lia Arith.
From Coq Require String.
Import String.StringSyntax.
From CppUVerif Require Import lib.Str gen.Gen_C16 C16_Events C16_Model C16_Escape C16_Parse C16_Proofs.
Import ListNotations.
Local Open Scope N_scope.

(* ================= the filtered registry loop visits every stretch, selected tests only ================= *)
Definition selo (sel : test -> bool) (x : otest) : bool := sel (snd x).
Definition sel_events (sel : test -> bool) (g : list otest) : list jev := flat_map otest_events (filter (selo sel) g).
Definition fseg_events (sel : test -> bool) (g : list otest) : list jev :=
  match g with x :: _ => JE (EGroupStart (snd x)) :: sel_events sel g ++ [JE EGroupEnd] | [] => [] end.

Lemma sel_events_cons sel x g : sel_events sel (x :: g) = (if sel (snd x) then otest_events x else []) ++ sel_events sel g.
Proof. unfold sel_events. cbn [filter]. unfold selo at 1. destruct (sel (snd x)); reflexivity. Qed.
Lemma freg_loop_flag sel x rest : freg_loop sel true (x :: rest) = JE (EGroupStart (snd x)) :: freg_loop sel false (x :: rest).
Proof. destruct x. reflexivity. Qed.
Lemma freg_loop_cons sel x rest :
  freg_loop sel false (x :: rest)
  = (if sel (snd x) then otest_events x else []) ++
    (if end_of_group (snd x) (map snd rest) then JE EGroupEnd :: freg_loop sel true rest else freg_loop sel false rest).
Proof. destruct x as [ops t]. unfold otest_events. cbn [freg_loop fst snd app]. destruct (sel t); reflexivity. Qed.

Theorem freg_loop_segments sel ts : freg_loop sel true ts = flat_map (fseg_events sel) (osegments ts).
Proof.
  induction ts as [|t rest IH]; [reflexivity|].
  rewrite freg_loop_flag, freg_loop_cons.
  destruct rest as [|n rest'].
  - cbn [osegments flat_map fseg_events map end_of_group freg_loop]. rewrite sel_events_cons. unfold sel_events. cbn [filter flat_map].
    rewrite !app_nil_r. reflexivity.
  - destruct (osegments_head n rest') as [g [gs Eg]].
    remember (n :: rest') as r eqn:Er.
    cbn [osegments]. rewrite Eg in *.
    assert (IH' : freg_loop sel false r = sel_events sel (n :: g) ++ [JE EGroupEnd] ++ flat_map (fseg_events sel) gs).
    { rewrite Er in *. rewrite freg_loop_flag in IH. remember (freg_loop sel false (n :: rest')) as X eqn:EX.
      cbn [flat_map fseg_events app] in IH. injection IH as IH. rewrite IH. rewrite <- !app_assoc. reflexivity. }
    replace (end_of_group (snd t) (map snd r)) with (negb (bytes_eqb (t_group (snd t)) (t_group (snd n)))) by (rewrite Er; reflexivity).
    destruct (bytes_eqb (t_group (snd t)) (t_group (snd n))); cbn [negb].
    + rewrite IH'. cbn [flat_map fseg_events app]. rewrite (sel_events_cons sel t (n :: g)), <- !app_assoc. reflexivity.
    + rewrite IH. cbn [flat_map fseg_events app]. rewrite (sel_events_cons sel t []). unfold sel_events at 1. cbn [filter flat_map].
      rewrite !app_nil_r, <- !app_assoc. reflexivity.
Qed.

(* with every test selected the filtered loop is the loop of the unfiltered model *)
Lemma freg_loop_all b ts : freg_loop (fun _ => true) b ts = oreg_loop b ts.
Proof.
  revert b. induction ts as [|[ops t] rest IH]; intro b; [reflexivity|].
  cbn [freg_loop oreg_loop]. rewrite !IH, <- app_assoc. reflexivity.
Qed.

(* a stretch reduced to some of its tests still carries one group name *)
Lemma same_group_sub l l' : same_group l -> (forall t, In t l' -> In t l) -> same_group l'.
Proof.
  unfold same_group. intros H Hin. rewrite Forall_forall in H.
  destruct l' as [|h r]; [constructor|].
  assert (Hh : t_group h = group_name l) by (apply H, Hin; left; reflexivity).
  apply Forall_forall. intros t Ht. cbn [group_name]. rewrite Hh. apply H, Hin. exact Ht.
Qed.
Lemma same_group_filter f (g : list otest) : same_group (map snd g) -> same_group (map snd (filter f g)).
Proof.
  intro H. apply (same_group_sub _ _ H). intros t Ht. apply in_map_iff in Ht. destruct Ht as [x [<- Hx]].
  apply filter_In in Hx. apply in_map. tauto.
Qed.
Lemma concat_map_filter {A} (f : A -> bool) (l : list (list A)) : concat (map (filter f) l) = filter f (concat l).
Proof. induction l as [|x l IH]; [reflexivity|]. cbn [map concat]. rewrite filter_app, IH. reflexivity. Qed.

(* ================= the writes of a filtered run: one per stretch, a fully filtered stretch included ================= *)
Section FilteredWrites.
Variable esc : bytes -> seg.
Notation jstepx := (jstep esc).

(* the callbacks of the selected tests of one stretch, then group ended *)
Lemma wseg_fold g printed F P Nm : same_group (map snd g) ->
  fold_left jstepx (flat_map otest_events g ++ [JE EGroupEnd]) (jmk [] 0 0 [] printed F P Nm)
  = jmk [] 0 0 [] (printed ++ tests_printed (map snd g))
        ((createFileName (group_pkg P g) (group_name (map snd g)), write_group esc (group_pkg P g) (group_state (map snd g) printed [])) :: F)
        (group_pkg P g) (rev (ops_names P (flat_map fst g)) ++ Nm).
Proof.
  intro Hs. rewrite fold_left_app, tests_fold.
  assert (E : last_gn (map snd g) [] = group_name (map snd g)).
  { destruct g as [|x g']; [reflexivity|]. apply last_group; [discriminate | exact Hs]. }
  rewrite E, app_nil_r, !N.add_0_l. reflexivity.
Qed.

Lemma fseg_fold sel g printed F P Nm : g <> [] -> same_group (map snd g) ->
  fold_left jstepx (fseg_events sel g) (jmk [] 0 0 [] printed F P Nm)
  = let w := filter (selo sel) g in
    jmk [] 0 0 [] (printed ++ tests_printed (map snd w))
        ((createFileName (group_pkg P w) (group_name (map snd w)), write_group esc (group_pkg P w) (group_state (map snd w) printed [])) :: F)
        (group_pkg P w) (rev (ops_names P (flat_map fst w)) ++ Nm).
Proof.
  intros Hne Hs. destruct g as [|t g']; [contradiction|].
  unfold fseg_events, sel_events.
  change (fold_left jstepx (JE (EGroupStart (snd t)) :: flat_map otest_events (filter (selo sel) (t :: g')) ++ [JE EGroupEnd]) (jmk [] 0 0 [] printed F P Nm))
    with (fold_left jstepx (flat_map otest_events (filter (selo sel) (t :: g')) ++ [JE EGroupEnd]) (jmk [] 0 0 [] printed F P Nm)).
  cbv zeta. apply wseg_fold. apply same_group_filter. exact Hs.
Qed.

Lemma fsegs_fold sel gs : forall printed F P Nm, Forall (fun g => g <> [] /\ same_group (map snd g)) gs ->
  fold_left jstepx (flat_map (fseg_events sel) gs) (jmk [] 0 0 [] printed F P Nm)
  = jmk [] 0 0 [] (printed ++ flat_map (fun g => tests_printed (map snd g)) (map (filter (selo sel)) gs))
        (rev (group_files esc P (map (filter (selo sel)) gs) printed) ++ F)
        (groups_pkg P (map (filter (selo sel)) gs)) (rev (group_names P (map (filter (selo sel)) gs)) ++ Nm).
Proof.
  induction gs as [|g gs IH]; intros printed F P Nm H.
  - cbn. rewrite app_nil_r. reflexivity.
  - inversion H as [|? ? [Hne Hs] Hr]; subst.
    cbn [flat_map]. rewrite fold_left_app, fseg_fold by assumption. cbv zeta. rewrite IH by exact Hr.
    cbn [map group_files group_names groups_pkg fold_left rev flat_map]. rewrite rev_app_distr, <- !app_assoc. reflexivity.
Qed.

(* the writes in the order of the opens: group_files over the stretches reduced to their selected tests -- for a stretch with no
   selected test that is the file named after the EMPTY group name holding a suite of 0 tests -- and the answers of the outside calls
   that were made (those of the selected tests, then the trailing ones) *)
Theorem writes_with_files sel ts post :
  writes_with jstepx sel ts post
  = (group_files esc [] (map (filter (selo sel)) (osegments ts)) [], ops_names [] (flat_map fst (filter (selo sel) ts) ++ post)).
Proof.
  unfold writes_with, fjevents_of. rewrite fold_left_app, freg_loop_segments.
  change j_init with (jmk [] 0 0 [] [] [] [] []). rewrite fsegs_fold by apply osegments_wf.
  rewrite op_fold. cbn [j_files j_names jmk]. rewrite !app_nil_r, rev_app_distr, !rev_involutive.
  rewrite group_names_flat, concat_map_filter, osegments_concat. reflexivity.
Qed.
End FilteredWrites.

(* ================= the file system: per name, the last write wins ================= *)
Fixpoint last_write (fn : bytes) (ws : list (bytes * bytes)) : option bytes :=
  match ws with
  | [] => None
  | w :: r => match last_write fn r with Some c => Some c | None => if bytes_eqb (fst w) fn then Some (snd w) else None end
  end.

Lemma fs_lookup_cons fn e fs : fs_lookup fn (e :: fs) = if bytes_eqb (fst e) fn then Some (snd e) else fs_lookup fn fs.
Proof. destruct e as [n c]. unfold fs_lookup. cbn [find fst snd]. destruct (bytes_eqb n fn); reflexivity. Qed.
Lemma fs_lookup_replace_other fn (w : bytes * bytes) fs : bytes_eqb (fst w) fn = false ->
  fs_lookup fn (map (fun e => if bytes_eqb (fst e) (fst w) then w else e) fs) = fs_lookup fn fs.
Proof.
  destruct w as [wn wc]. cbn [fst snd]. intro Hw. induction fs as [|[en ec] fs IH]; [reflexivity|].
  cbn [map fst]. destruct (bytes_eqb en wn) eqn:E; rewrite !fs_lookup_cons, IH; cbn [fst snd]; [|reflexivity].
  apply bytes_eqb_eq in E. subst en. rewrite Hw. reflexivity.
Qed.
Lemma fs_lookup_replace_same fn (w : bytes * bytes) fs : bytes_eqb (fst w) fn = true -> existsb (fun e => bytes_eqb (fst e) (fst w)) fs = true ->
  fs_lookup fn (map (fun e => if bytes_eqb (fst e) (fst w) then w else e) fs) = Some (snd w).
Proof.
  destruct w as [wn wc]. cbn [fst snd]. intros Hw. induction fs as [|[en ec] fs IH]; intro Hex; [discriminate Hex|].
  cbn [map existsb fst] in *. destruct (bytes_eqb en wn) eqn:E; rewrite fs_lookup_cons; cbn [fst snd].
  - rewrite Hw. reflexivity.
  - cbn [orb] in Hex. assert (E2 : bytes_eqb en fn = false).
    { apply bytes_eqb_neq. apply bytes_eqb_neq in E. apply bytes_eqb_eq in Hw. congruence. }
    rewrite E2. apply IH. exact Hex.
Qed.
Lemma fs_lookup_snoc fn (w : bytes * bytes) fs : fs_lookup fn (fs ++ [w]) = match fs_lookup fn fs with Some c => Some c | None => if bytes_eqb (fst w) fn then Some (snd w) else None end.
Proof.
  induction fs as [|e fs IH]; [cbn [app]; rewrite fs_lookup_cons; reflexivity|].
  cbn [app]. rewrite !fs_lookup_cons, IH. destruct e as [en ec]. cbn [fst snd]. destruct (bytes_eqb en fn); reflexivity.
Qed.
Lemma fs_lookup_absent fn (w : bytes * bytes) fs : bytes_eqb (fst w) fn = true -> existsb (fun e => bytes_eqb (fst e) (fst w)) fs = false -> fs_lookup fn fs = None.
Proof.
  destruct w as [wn wc]. cbn [fst snd]. intros Hw. induction fs as [|[en ec] fs IH]; intro Hex; [reflexivity|].
  cbn [existsb fst] in Hex. apply orb_false_iff in Hex. destruct Hex as [E Hex]. rewrite fs_lookup_cons. cbn [fst snd].
  assert (E2 : bytes_eqb en fn = false).
  { apply bytes_eqb_neq. apply bytes_eqb_neq in E. apply bytes_eqb_eq in Hw. congruence. }
  rewrite E2. apply IH. exact Hex.
Qed.
Lemma fs_lookup_write fn fs w : fs_lookup fn (fs_write fs w) = if bytes_eqb (fst w) fn then Some (snd w) else fs_lookup fn fs.
Proof.
  unfold fs_write. destruct (bytes_eqb (fst w) fn) eqn:Hw.
  - destruct (existsb (fun e => bytes_eqb (fst e) (fst w)) fs) eqn:Hex.
    + apply fs_lookup_replace_same; assumption.
    + rewrite fs_lookup_snoc, (fs_lookup_absent fn w fs Hw Hex), Hw. reflexivity.
  - destruct (existsb (fun e => bytes_eqb (fst e) (fst w)) fs) eqn:Hex.
    + apply fs_lookup_replace_other. exact Hw.
    + rewrite fs_lookup_snoc, Hw. destruct (fs_lookup fn fs); reflexivity.
Qed.
Lemma fs_lookup_fold ws : forall fs fn,
  fs_lookup fn (fold_left fs_write ws fs) = match last_write fn ws with Some c => Some c | None => fs_lookup fn fs end.
Proof.
  induction ws as [|w ws IH]; intros fs fn; [reflexivity|].
  cbn [fold_left last_write]. rewrite IH, fs_lookup_write.
  destruct (last_write fn ws); [reflexivity|]. destruct (bytes_eqb (fst w) fn); reflexivity.
Qed.
(* what a name holds at the end is what was written to it last; a name never written does not exist *)
Theorem fs_last_write_wins ws fn : fs_lookup fn (fs_of_writes ws) = last_write fn ws.
Proof. unfold fs_of_writes. rewrite fs_lookup_fold. destruct (last_write fn ws); reflexivity. Qed.
Lemma last_write_app fn a b : last_write fn (a ++ b) = match last_write fn b with Some c => Some c | None => last_write fn a end.
Proof.
  induction a as [|w a IH]; cbn [app last_write]; [destruct (last_write fn b); reflexivity|].
  rewrite IH. destruct (last_write fn b); reflexivity.
Qed.

(* ================= the files left at the end against the property ================= *)
Lemma later_claims_none fn gs : forall pkg printed, later_claims fn pkg gs = false -> last_write fn (group_files Esc pkg gs printed) = None.
Proof.
  induction gs as [|g gs IH]; intros pkg printed H; [reflexivity|].
  cbn [later_claims] in H. apply orb_false_iff in H. destruct H as [H1 H2].
  cbn [group_files last_write]. unfold group_pkg at 3 4. rewrite (IH _ _ H2). cbn [fst].
  unfold group_pkg. rewrite createFileName_spec, H1. reflexivity.
Qed.

Lemma spec_fgroups_files gs : forall pkg printed post M (base : bytes -> option bytes),
  oktext pkg = true -> Forall okgroup gs -> oktext printed = true ->
  (forall fn, fs_lookup fn M = match last_write fn (group_files Esc pkg gs printed) with Some c => Some c | None => base fn end) ->
  spec_fgroups pkg gs post printed M (group_names pkg gs ++ ops_names (groups_pkg pkg gs) post) = true.
Proof.
  induction gs as [|g gs IH]; intros pkg printed post M base Hp Hg Hpr HM.
  - cbn [spec_fgroups group_names groups_pkg fold_left app].
    rewrite <- (app_nil_r (ops_names pkg post)), ops_expect_names. reflexivity.
  - inversion Hg as [|? ? Hg1 Hg2]; subst. pose proof (group_pkg_ok pkg g Hp Hg1) as Hp'. destruct Hg1 as [Hg1 Ho1].
    cbn [spec_fgroups group_names groups_pkg fold_left]. rewrite <- app_assoc, ops_expect_names.
    fold (group_pkg pkg g).
    assert (Hrest : spec_fgroups (group_pkg pkg g) gs post (printed ++ tests_printed (map snd g)) M
                      (group_names (group_pkg pkg g) gs ++ ops_names (fold_left group_pkg gs (group_pkg pkg g)) post) = true).
    { apply (IH (group_pkg pkg g) (printed ++ tests_printed (map snd g)) post M
                (fun fn => if bytes_eqb (createFileName (group_pkg pkg g) (group_name (map snd g))) fn
                           then Some (write_group Esc (group_pkg pkg g) (group_state (map snd g) printed [])) else base fn)); try assumption.
      - rewrite oktext_app, Hpr. apply tests_printed_ok. exact Hg1.
      - intro fn. rewrite HM. cbn [group_files last_write fst snd].
        destruct (last_write fn (group_files Esc (group_pkg pkg g) gs (printed ++ tests_printed (map snd g)))); [reflexivity|].
        destruct (bytes_eqb (createFileName (group_pkg pkg g) (group_name (map snd g))) fn); reflexivity. }
    rewrite Hrest, andb_true_r.
    destruct (map snd g) as [|t0 g0] eqn:Eg; [reflexivity|]. rewrite <- Eg in *.
    destruct (later_claims (expected_filename (group_pkg pkg g) (group_name (map snd g))) (group_pkg pkg g) gs) eqn:Ec; [reflexivity|].
    cbn [orb]. rewrite HM. cbn [group_files last_write fst snd].
    rewrite (later_claims_none _ _ _ _ Ec), createFileName_spec, bytes_eqb_refl.
    rewrite (group_roundtrip (group_pkg pkg g) (map snd g) printed Hp' Hg1 Hpr), suite_ok_tree. reflexivity.
Qed.

Lemma oktest_arm ri t : oktest (arm ri t) = oktest t.
Proof. destruct ri; reflexivity. Qed.
Lemma armed_ok s : forallb okotest (s_tests s) = true -> forallb okotest (armed s) = true.
Proof.
  unfold armed. generalize (s_tests s). intro l. induction l as [|x l IH]; intro H; [reflexivity|].
  cbn [map forallb] in *. apply andb_true_iff in H. destruct H as [Hx Hl]. rewrite (IH Hl), andb_true_r.
  unfold okotest in *. cbn [fst snd]. rewrite oktest_arm. exact Hx.
Qed.
Lemma forallb_filter {A} (p f : A -> bool) l : forallb p l = true -> forallb p (filter f l) = true.
Proof.
  induction l as [|x l IH]; intro H; [reflexivity|]. cbn [forallb filter] in *. apply andb_true_iff in H. destruct H as [Hx Hl].
  destruct (f x); cbn [forallb]; [rewrite Hx|]; auto.
Qed.
Lemma sel_segments_okgroup f ts : forallb okotest ts = true -> Forall okgroup (map (filter f) (osegments ts)).
Proof.
  intro H. rewrite <- (osegments_concat ts) in H. revert H. generalize (osegments ts). intro gs.
  induction gs as [|g gs IH]; intro H; [constructor|].
  cbn [concat] in H. rewrite forallb_app in H. apply andb_true_iff in H. destruct H as [H1 H2].
  cbn [map]. constructor; [apply okgroup_of, forallb_filter; exact H1 | apply IH; exact H2].
Qed.

Lemma valid_tests s : valid s = true -> forallb okotest (s_tests s) = true.
Proof. unfold valid. rewrite !andb_true_iff. tauto. Qed.

Lemma run_writes_files s :
  run_writes s = (group_files Esc [] (sel_segments s) [], ops_names [] (flat_map fst (filter (selo (s_sel s)) (armed s)) ++ s_post s)).
Proof. unfold run_writes. rewrite writes_with_files. reflexivity. Qed.
Lemma run_is_fs_of_writes s : run s = (fs_of_writes (fst (run_writes s)), snd (run_writes s)).
Proof. reflexivity. Qed.
Lemma sel_names s :
  ops_names [] (flat_map fst (filter (selo (s_sel s)) (armed s)) ++ s_post s)
  = group_names [] (sel_segments s) ++ ops_names (groups_pkg [] (sel_segments s)) (s_post s).
Proof.
  rewrite group_names_flat. unfold sel_segments.
  change (fun x : otest => s_sel s (snd x)) with (selo (s_sel s)). rewrite concat_map_filter, osegments_concat. reflexivity.
Qed.

Theorem run_meets_spec s : valid s = true -> spec s (run s) = true.
Proof.
  intro H. pose proof (valid_tests s H) as Ht.
  unfold spec. rewrite run_is_fs_of_writes, run_writes_files. cbn [fst snd]. rewrite sel_names.
  apply (spec_fgroups_files (sel_segments s) [] [] (s_post s) _ (fun _ => None)).
  - reflexivity.
  - apply sel_segments_okgroup, armed_ok, Ht.
  - reflexivity.
  - intro fn. rewrite fs_last_write_wins. destruct (last_write fn (group_files Esc [] (sel_segments s) [])); reflexivity.
Qed.

(* ---- the writes, parsed: one per stretch, each named after the package in force when its group ended and parsing to tree_of; for a
   stretch with no selected test that is the name built from the empty group name and the empty suite ---- *)
Theorem roundtrip s : valid s = true ->
  map (fun f => (fst f, xml_parse (snd f))) (fst (run_writes s)) = trees_of [] (sel_segments s) []
  /\ snd (run_writes s) = ops_names [] (flat_map fst (filter (selo (s_sel s)) (armed s)) ++ s_post s).
Proof.
  intro H. pose proof (valid_tests s H) as Ht. rewrite run_writes_files. cbn [fst snd]. split; [|reflexivity].
  apply roundtrip_files; [reflexivity | apply sel_segments_okgroup, armed_ok, Ht | reflexivity].
Qed.

(* what the code does for a stretch none of whose tests is selected: a write under the name built from the EMPTY group name (never
   under the name of another group) holding a suite that states 0 tests, 0 failures and no test case *)
Theorem fully_filtered_write esc pkg gs printed :
  group_files esc pkg ([] :: gs) printed
  = (createFileName pkg [], write_group esc pkg (group_state [] printed [])) :: group_files esc pkg gs (printed ++ []).
Proof. reflexivity. Qed.
Lemma empty_suite_counts pkg printed :
  match tree_of pkg [] printed with
  | Elem nm attrs kids => nm = L_testsuite /\ get_attr L_tests attrs = Some [48] /\ get_attr L_failures attrs = Some [48]
                          /\ get_attr L_name attrs = Some [] /\ elems_named L_testcase kids = []
  | Text _ => False
  end.
Proof.
  unfold tree_of, suite_ptree. rewrite erase_elem. cbn [group_state j_group j_testCount j_failureCount j_nodes map rev length count_failed filter].
  repeat split.
Qed.

(* ---- the oracle's demand in Prop form: the report of a group that ran is what its name holds at the END of the run, unless a later
   stretch claims the name ---- *)
Lemma group_files_app esc a : forall pkg printed b,
  group_files esc pkg (a ++ b) printed
  = group_files esc pkg a printed ++ group_files esc (groups_pkg pkg a) b (printed ++ flat_map (fun g => tests_printed (map snd g)) a).
Proof.
  induction a as [|g a IH]; intros pkg printed b.
  - cbn. rewrite app_nil_r. reflexivity.
  - cbn [app group_files groups_pkg fold_left flat_map]. rewrite IH, app_assoc. reflexivity.
Qed.
Theorem ran_group_file_survives s pre g post' : valid s = true ->
  sel_segments s = pre ++ g :: post' -> map snd g <> [] ->
  let pkg := group_pkg (groups_pkg [] pre) g in
  let printed := flat_map (fun g => tests_printed (map snd g)) pre in
  let fn := expected_filename pkg (group_name (map snd g)) in
  later_claims fn pkg post' = false ->
  exists content, fs_lookup fn (fst (run s)) = Some content
                  /\ xml_parse content = Some (tree_of pkg (map snd g) printed)
                  /\ suite_ok (map snd g) (printed ++ tests_printed (map snd g)) (tests_printed (map snd g)) (tree_of pkg (map snd g) printed) = true.
Proof.
  intros H E Hne pkg printed fn Hc. pose proof (valid_tests s H) as Ht.
  pose proof (sel_segments_okgroup (fun x => s_sel s (snd x)) (armed s) (armed_ok s Ht)) as Hok.
  change (Forall okgroup (sel_segments s)) in Hok. rewrite E in Hok.
  apply Forall_app in Hok. destruct Hok as [Hpre Hok]. inversion Hok as [|? ? Hg Hpost]; subst.
  assert (Hpkg0 : forall a, Forall okgroup a -> forall P, oktext P = true -> oktext (groups_pkg P a) = true
                                                   /\ forall pr, oktext pr = true -> oktext (pr ++ flat_map (fun g => tests_printed (map snd g)) a) = true).
  { induction a as [|x a IH]; intros Ha P HP.
    - split; [exact HP|]. intros pr Hpr. cbn. rewrite app_nil_r. exact Hpr.
    - inversion Ha as [|? ? Hx Ha']; subst. cbn [groups_pkg fold_left flat_map].
      destruct (IH Ha' (group_pkg P x) (group_pkg_ok P x HP Hx)) as [I1 I2]. split; [exact I1|].
      intros pr Hpr. rewrite app_assoc. apply I2. rewrite oktext_app, Hpr. apply tests_printed_ok. apply Hx. }
  destruct (Hpkg0 pre Hpre [] eq_refl) as [Hp1 Hp2]. specialize (Hp2 [] eq_refl). cbn [app] in Hp2.
  pose proof (group_pkg_ok _ g Hp1 Hg) as Hp'.
  exists (write_group Esc pkg (group_state (map snd g) printed [])).
  split; [|split].
  - rewrite run_is_fs_of_writes, run_writes_files. cbn [fst]. rewrite fs_last_write_wins, E, group_files_app. cbn [app group_files].
    rewrite last_write_app. cbn [last_write]. fold pkg. fold printed.
    rewrite (later_claims_none _ _ _ _ Hc). cbn [fst snd]. rewrite createFileName_spec. fold fn. rewrite bytes_eqb_refl. reflexivity.
  - apply group_roundtrip; [exact Hp' | apply Hg | exact Hp2].
  - apply suite_ok_tree.
Qed.

(* ---- runs without filters: nothing is reduced, the writes are those of the unfiltered model ---- *)
Lemma filter_all {A} (l : list A) : filter (fun _ => true) l = l.
Proof. induction l as [|x l IH]; [reflexivity|]. cbn. rewrite IH. reflexivity. Qed.
Theorem unfiltered_writes esc ts post : writes_with (jstep esc) (fun _ => true) ts post = run_with esc ts post.
Proof. unfold writes_with, run_with, fjevents_of, jevents_of. rewrite freg_loop_all. reflexivity. Qed.
Lemma no_filters_select_all t : selected [] [] t = true.
Proof. reflexivity. Qed.

(* ================= variants that are not the code ================= *)
(* the code before the repair of D14 (names copied into attribute values unescaped) *)
Definition d14_witness : scenario :=
  {| s_tests := [([], {| t_group := [71]; t_name := [34]; t_file := [102]; t_line := 1; t_ignored := false; t_body := [] |})]; s_post := [];
     s_ri := false; s_gf := []; s_nf := [] |}.
Lemma run_old_refuted : ~ (forall s, valid s = true -> spec s (run_old s) = true).
Proof. intro H. specialize (H d14_witness eq_refl). vm_compute in H. discriminate H. Qed.
Lemma run_old_illformed : map (fun f => xml_accepts (snd f)) (fst (run_old d14_witness)) = [false].
Proof. vm_compute. reflexivity. Qed.

(* resetTestGroupResult that leaves the group name: group G runs, the stretch H behind it is filtered out (-sg G): the empty suite of H
   is written under G's name and replaces G's report *)
Definition T (g n : bytes) (ign : bool) (body : list stmt) : otest :=
  ([], {| t_group := g; t_name := n; t_file := [97]; t_line := 7; t_ignored := ign; t_body := body |}).
Definition stale_witness : scenario :=
  {| s_tests := [T [71] [116] false []; T [72] [117] false []]; s_post := []; s_ri := false;
     s_gf := [{| f_pat := [71]; f_strict := true; f_invert := false |}]; s_nf := [] |}.
Lemma run_stale_refuted : ~ (forall s, valid s = true -> spec s (run_stale s) = true).
Proof. intro H. specialize (H stale_witness eq_refl). vm_compute in H. discriminate H. Qed.
(* ... and it needs the fully filtered stretch BEHIND the group: in front of it, or without filters, the variant is not told apart *)
Lemma run_stale_needs_later_stretch :
  spec {| s_tests := [T [72] [117] false []; T [71] [116] false []]; s_post := []; s_ri := false;
          s_gf := [{| f_pat := [71]; f_strict := true; f_invert := false |}]; s_nf := [] |}
       (run_stale {| s_tests := [T [72] [117] false []; T [71] [116] false []]; s_post := []; s_ri := false;
                     s_gf := [{| f_pat := [71]; f_strict := true; f_invert := false |}]; s_nf := [] |}) = true.
Proof. vm_compute. reflexivity. Qed.

(* ================= examples: the hypotheses are satisfiable ================= *)
(* a run with two groups, a failing, an ignored and a printing test and markup characters everywhere; createFileName is asked before any
   package is set, the package is set late, changed inside the first group, changed again before the second group and once more after
   the run; no filters *)
Definition example_run : scenario :=
  {| s_tests := [ ([OFileName [71; 60]; OSetPkg [112; 38]],
                   {| t_group := [71; 60]; t_name := [116; 34]; t_file := [97; 62]; t_line := 10; t_ignored := false;
                      t_body := [SPrint [104; 60; 10]; SFail [98; 38] 5 [109; 38; 13; 93; 93; 62]; SFailStop [99] 6 [110]; SPrint [120]] |});
                  ([OSetPkg [113]; OFileName [72]],
                   {| t_group := [71; 60]; t_name := [117]; t_file := [97]; t_line := 11; t_ignored := true; t_body := [] |});
                  ([OSetPkg []],
                   {| t_group := [72]; t_name := [118]; t_file := [97]; t_line := 12; t_ignored := false; t_body := [] |}) ];
     s_post := [OFileName [72]; OSetPkg [58]; OFileName [72]]; s_ri := false; s_gf := []; s_nf := [] |}.
Lemma example_valid : valid example_run = true /\ length (fst (run example_run)) = 2%nat /\ spec example_run (run example_run) = true.
Proof. vm_compute. auto. Qed.
(* cpputest_G_.xml (no package yet), cpputest_q_H.xml, then the files cpputest_q_G_.xml and cpputest_H.xml, then cpputest_H.xml, cpputest___H.xml *)
Lemma example_names :
  snd (run example_run) = [B "cpputest_G_.xml"%string; B "cpputest_q_H.xml"%string; B "cpputest_H.xml"%string; B "cpputest___H.xml"%string]
  /\ map fst (fst (run example_run)) = [B "cpputest_q_G_.xml"%string; B "cpputest_H.xml"%string].
Proof. vm_compute. auto. Qed.

(* a filtered run: registry A a1 | G g1 g2(ignored) g3 | B b1 | G g4 | C c1 with the name filter "g" (contains) and -ri.
   A, B, C are fully filtered (before, between, after); g2 runs because of -ri; G occurs in two stretches: seven callbacks of group
   ended, five writes, and at the end two files: cpputest_.xml (the empty suites) and cpputest_G.xml holding the SECOND stretch of G *)
Definition filtered_example : scenario :=
  {| s_tests := [T [65] [97; 49] false []; T [71] [103; 49] false [SPrint [120]]; T [71] [103; 50] true [SFail [98] 3 [109]];
                 T [71] [110; 51] false []; T [66] [98; 49] false []; T [71] [103; 52] false []; T [67] [99; 49] false []];
     s_post := []; s_ri := true; s_gf := []; s_nf := [{| f_pat := [103]; f_strict := false; f_invert := false |}] |}.
Lemma filtered_example_facts :
  valid filtered_example = true
  /\ map (fun g => map (fun x => t_name (snd x)) g) (sel_segments filtered_example) = [[]; [[103; 49]; [103; 50]]; []; [[103; 52]]; []]
  /\ map fst (fst (run_writes filtered_example))
     = [B "cpputest_.xml"%string; B "cpputest_G.xml"%string; B "cpputest_.xml"%string; B "cpputest_G.xml"%string; B "cpputest_.xml"%string]
  /\ map fst (fst (run filtered_example)) = [B "cpputest_.xml"%string; B "cpputest_G.xml"%string]
  /\ spec filtered_example (run filtered_example) = true
  /\ spec filtered_example (run_stale filtered_example) = false.
Proof. vm_compute. repeat split. Qed.
(* filters that select nothing at all: every stretch is written as an empty suite under cpputest_.xml and nothing is demanded *)
Definition nothing_selected : scenario :=
  {| s_tests := [T [71] [116] false []; T [72] [117] false []]; s_post := []; s_ri := false;
     s_gf := [{| f_pat := [90]; f_strict := true; f_invert := false |}]; s_nf := [] |}.
Lemma nothing_selected_facts :
  valid nothing_selected = true /\ sel_segments nothing_selected = [[]; []]
  /\ map fst (fst (run nothing_selected)) = [B "cpputest_.xml"%string] /\ spec nothing_selected (run nothing_selected) = true.
Proof. vm_compute. repeat split. Qed.
Lemma ran_group_hyps_satisfiable : exists pre g post',
  valid stale_witness = true /\ sel_segments stale_witness = pre ++ g :: post' /\ map snd g <> []
  /\ later_claims (expected_filename (group_pkg (groups_pkg [] pre) g) (group_name (map snd g))) (group_pkg (groups_pkg [] pre) g) post' = false.
Proof. exists [], [T [71] [116] false []], [[]]. vm_compute. repeat split. discriminate. Qed.
